/-
C12 — property theorems over the model (NV/C12/Model.lean).  Helper lemmas: NV/C12/Lemmas.lean.
Each theorem says in its doc comment which clause of the specification oracle (NV/C12/Spec.lean) it carries.

-/
import NV.C12.Model
import NV.C12.Spec
import NV.C12.Lemmas
import NV.C12.Lemmas3
import NV.C12.Lemmas4

namespace NV.C12

open NV.Gen.C12

/-- The three iflags the scheduler uses are distinct single bits (regenerated from src/comm.h), so the three
    booleans of the model are an exact representation and `U.iflags` (printed by harness and model) is injective. -/
theorem flag_bits :
    hasCmdTurn &&& cmdInBuf = 0 ∧ hasCmdTurn &&& singleChar = 0 ∧ cmdInBuf &&& singleChar = 0 ∧
    hasCmdTurn ≠ 0 ∧ cmdInBuf ≠ 0 ∧ singleChar ≠ 0 ∧
    hasCmdTurn &&& (hasCmdTurn - 1) = 0 ∧ cmdInBuf &&& (cmdInBuf - 1) = 0 ∧ singleChar &&& (singleChar - 1) = 0 := by
  decide

/-! ### memory safety of the rotating cursor -/

theorem processIO_safe (w : World) (hs : Safe w) : Safe (processIO w).1 := by
  -- accept only makes the table longer; reads and EOFs keep its size; nobody touches cursor or crash flag
  have key : ∀ (l : List Nat) (a : World), Safe a → Safe (l.foldl userIO a) := by
    intro l
    induction l with
    | nil => intro a h; exact h
    | cons u r ih =>
      intro a h
      apply ih
      unfold userIO
      split
      · exact ⟨h.1, h.2⟩
      unfold userIO0
      dsimp only
      split
      · exact ⟨h.1, h.2⟩
      · split
        · exact ⟨h.1, by simpa using h.2⟩
        · exact h
  unfold processIO
  dsimp only
  apply key
  split
  · refine ⟨hs.1, ?_⟩
    simp only [accept]
    have hlen : w.slots.length ≤ (if newSlot w.slots ≥ w.slots.length then w.slots ++ List.replicate growBy none else w.slots).length := by
      split <;> simp
    have hgrow : w.slots.length = 0 → 0 < (if newSlot w.slots ≥ w.slots.length then w.slots ++ List.replicate growBy none else w.slots).length := by
      intro h0
      have : newSlot w.slots ≥ w.slots.length := by omega
      simp [this, growBy, NV.Gen.C12.growBy]
    rcases hs.2 with h | h
    · left; simp only [List.length_set]; omega
    · left; simp only [List.length_set]; have := hgrow h.1; omega
  · exact hs

theorem cycleStep_safe (sc : Scripts) (w : World) (hs : Safe w) : Safe (cycleStep sc w).1 := by
  unfold cycleStep
  dsimp only
  have h1 : Safe { w with cycle := w.cycle + 1, users := grantAll w.users w.slots } := ⟨hs.1, hs.2⟩
  have h2 := processIO_safe _ h1
  exact (cmdLoop_spec sc _ _ h2).1

/-! ### uncaught errors: the restarted loop

`Quiet`: the state between two harness actions - the cursor invariant holds and no error is unwinding. -/

def Quiet (w : World) : Prop := Safe w ∧ w.thrown = false

/-- **induction principle for the iterations between two hook calls** (`cycleRun`): a relation between an oracle
    state and the world that every single iteration keeps (started from a quiet world) and that does not look at the
    `thrown` flag is kept by the whole run, however often the loop is restarted by uncaught errors; the run ends
    quiet.  The fuel `weight w + 1` is never exhausted: every aborted iteration is strictly lighter
    (`cycleStep_weight`). -/
theorem cycleRun_fold {σ : Type} (sc : Scripts) (g : σ → Ev → σ) (R : σ → World → Prop)
    (hstep : ∀ s w, R s w → Quiet w → R ((cycleStep sc w).2.foldl g s) (cycleStep sc w).1)
    (hclear : ∀ s w, R s w → R s { w with thrown := false }) :
    ∀ (f : Nat) (w : World) (s : σ), R s w → Quiet w → weight w < f →
      R ((cycleRun sc f w).2.foldl g s) (cycleRun sc f w).1 ∧ Quiet (cycleRun sc f w).1 := by
  intro f
  induction f with
  | zero => intro w s _ _ h; omega
  | succ f ih =>
    intro w s hr hq hf
    have h1 := hstep s w hr hq
    have hsafe := cycleStep_safe sc w hq.1
    have hw := cycleStep_weight sc w hq.2
    unfold cycleRun
    cases hc : cycleStep sc w with
    | mk w1 e1 =>
      rw [hc] at h1 hsafe hw
      dsimp only at h1 hsafe hw ⊢
      split
      · rename_i hthr
        have hlt := hw hthr
        have hq' : Quiet { w1 with thrown := false } := ⟨⟨hsafe.1, hsafe.2⟩, rfl⟩
        have hwt : weight { w1 with thrown := false } < f := by
          have : weight { w1 with thrown := false } = weight w1 := rfl
          omega
        obtain ⟨i1, i2⟩ := ih { w1 with thrown := false } (e1.foldl g s) (hclear _ _ h1) hq' hwt
        dsimp only
        refine ⟨?_, i2⟩
        rw [List.foldl_append]
        exact i1
      · rename_i hthr
        exact ⟨h1, hsafe, by simpa using hthr⟩

/-- the same principle for relations that do not need the cursor invariant (no fuel argument: the relation must
    also survive the "bound exhausted" outcome, which `cycleRun_quiet` shows to be unreachable) -/
theorem cycleRun_fold' {σ : Type} (sc : Scripts) (g : σ → Ev → σ) (R : σ → World → Prop)
    (hstep : ∀ s w, R s w → R ((cycleStep sc w).2.foldl g s) (cycleStep sc w).1)
    (hclear : ∀ s w, R s w → R s { w with thrown := false })
    (hcrash : ∀ s w, R s w → R (g s (Ev.crash "restart bound of the model exhausted")) { w with crashed := true }) :
    ∀ (f : Nat) (w : World) (s : σ), R s w → R ((cycleRun sc f w).2.foldl g s) (cycleRun sc f w).1 := by
  intro f
  induction f with
  | zero => intro w s hr; exact hcrash s w hr
  | succ f ih =>
    intro w s hr
    have h1 := hstep s w hr
    unfold cycleRun
    cases hc : cycleStep sc w with
    | mk w1 e1 =>
      rw [hc] at h1
      dsimp only at h1 ⊢
      split
      · dsimp only
        rw [List.foldl_append]
        exact ih _ _ (hclear _ _ h1)
      · exact h1

/-- the run between two hook calls ends quiet: cursor inside the table, no crash - in particular the restart bound of
    the model is never exhausted - and no error pending -/
theorem cycleRun_quiet (sc : Scripts) (f : Nat) (w : World) (hq : Quiet w) (hf : weight w < f) :
    Quiet (cycleRun sc f w).1 :=
  (cycleRun_fold sc (fun (s : Unit) _ => s) (fun _ _ => True) (fun _ _ _ _ => trivial) (fun _ _ _ => trivial)
    f w () trivial hq hf).2

/-- **the last iteration completes**: the run between two hook calls ends with an iteration of backend() that was
    started from a quiet world and was not aborted; every theorem about a completed iteration (`loop_bound_sufficient`,
    `no_starvation`) therefore speaks about the state the hook observes -/
theorem cycleRun_last (sc : Scripts) (f : Nat) (w : World) (hq : Quiet w) (hf : weight w < f) :
    ∃ w0, Quiet w0 ∧ (cycleStep sc w0).1.thrown = false ∧ (cycleRun sc f w).1 = (cycleStep sc w0).1 := by
  induction f generalizing w with
  | zero => omega
  | succ f ih =>
    have hsafe := cycleStep_safe sc w hq.1
    have hw := cycleStep_weight sc w hq.2
    unfold cycleRun
    cases hc : cycleStep sc w with
    | mk w1 e1 =>
      rw [hc] at hsafe hw
      dsimp only at hsafe hw ⊢
      split
      · rename_i hthr
        have hlt := hw hthr
        have hq' : Quiet { w1 with thrown := false } := ⟨⟨hsafe.1, hsafe.2⟩, rfl⟩
        have hwt : weight { w1 with thrown := false } < f := by
          have : weight { w1 with thrown := false } = weight w1 := rfl
          omega
        obtain ⟨w0, i1, i2, i3⟩ := ih { w1 with thrown := false } hq' hwt
        exact ⟨w0, i1, i2, by dsimp only; exact i3⟩
      · rename_i hthr
        exact ⟨w, hq, by rw [hc]; simpa using hthr, by rw [hc]⟩

/-- **cursor_in_bounds** (memory safety of `all_users[s_next_user]`): the invariant "the cursor indexes inside the
    table, or the table does not exist yet" is kept by every harness action, for every script oracle: by the grant
    step, by accepts that grow the table, by users vanishing between and inside cycles, by every scan.  In particular the
    crash outcome of the model (index outside the table) is unreachable.  (`max_users` never shrinks in the code.) -/
theorem cursor_in_bounds (sc : Scripts) (w : World) (c : Cmd) (hq : Quiet w) : Quiet (step sc w c).1 := by
  have hs := hq.1
  cases c with
  | cycle =>
    have : step sc w .cycle = cycleRun sc (weight w + 1) w := by simp [step, hs.1]
    rw [this]; exact cycleRun_quiet sc _ w hq (by omega)
  | conn =>
    have : (step sc w .conn).1 = { w with nconn := w.nconn + 1 } := by simp [step, hs.1]
    rw [this]; exact ⟨⟨hs.1, hs.2⟩, hq.2⟩
  | send u d =>
    simp only [step, hs.1, Bool.false_eq_true, if_false]
    split
    · exact ⟨⟨rfl, hs.2⟩, hq.2⟩
    · exact hq
  | close u =>
    simp only [step, hs.1, Bool.false_eq_true, if_false]
    split
    · exact ⟨⟨rfl, hs.2⟩, hq.2⟩
    · exact hq

theorem quiet_init : Quiet ({} : World) := ⟨⟨rfl, Or.inr ⟨rfl, rfl⟩⟩, rfl⟩

theorem run_quiet (sc : Scripts) (cs : List Cmd) (w : World) (hq : Quiet w) : Quiet (run sc w cs).1 := by
  induction cs generalizing w with
  | nil => exact hq
  | cons c r ih => exact ih _ (cursor_in_bounds sc w c hq)

/-- from the initial state no history of connects, sends, closes and cycles, with any scripts, ever reaches the
    out-of-range access (`crash` clause of the oracle) -/
theorem run_never_crashes (sc : Scripts) (cs : List Cmd) : (run sc {} cs).1.crashed = false := by
  exact (run_quiet sc cs {} quiet_init).1.1

example : Safe (run (fun _ _ => []) {} [.conn, .cycle, .send 1 "a~b~".toList, .cycle]).1 :=
  ⟨run_never_crashes _ _, by decide⟩

/-! ### one buffered command per user per cycle -/

theorem cmdCount_ite_zero (u : Nat) (c : Prop) [Decidable c] (a b : List Ev) (ha : cmdCount u a = 0)
    (hb : cmdCount u b = 0) : cmdCount u (if c then a else b) = 0 := by
  split <;> assumption


/-- **at_most_one_per_user_per_cycle** (clause `twice`): among the events of one backend cycle there is at most one
    buffered command of any user - for every table layout, cursor position, queue depth, script oracle (users
    vanishing, mode switches, command() calls inside the cycle) and loop bound. -/
theorem at_most_one_per_user_per_cycle (sc : Scripts) (w : World) (hs : Safe w) (u : Nat) :
    cmdCount u (cycleStep sc w).2 ≤ 1 := by
  unfold cycleStep
  dsimp only
  have h1 : Safe { w with cycle := w.cycle + 1, users := grantAll w.users w.slots } := ⟨hs.1, hs.2⟩
  have h2 := processIO_safe _ h1
  have h3 := (cmdLoop_spec sc (NV.Gen.C12.loopCalls (connectedUsers w) w.maxUsers) _ h2).2.2.1 u
  have hio : cmdCount u (processIO { w with cycle := w.cycle + 1, users := grantAll w.users w.slots }).2 = 0 := by
    unfold processIO; dsimp only; split <;> simp [cmdCount, Ev.isCmdOf]
  simp only [cmdCount_append, hio]
  have hhead : cmdCount u [Ev.begin (w.cycle + 1), Ev.poll (w.cycle + 1) (pollBlocks (hasPending w))] = 0 := by
    simp [cmdCount, Ev.isCmdOf]
  rw [hhead, cmdCount_ite_zero u _ _ _ (by simp [cmdCount, Ev.isCmdOf])
    (cmdCount_ite_zero u _ _ _ (by simp [cmdCount, Ev.isCmdOf]) (by simp [cmdCount, Ev.isCmdOf]))]
  have : (if turnOf (processIO { w with cycle := w.cycle + 1, users := grantAll w.users w.slots }).1 u = true then 1 else 0) ≤ 1 := by
    split <;> omega
  omega

/-- the same for a user holding no turn: it is not served at all (turns are the only way to be served) -/
theorem no_turn_no_service (sc : Scripts) (k : Nat) (w : World) (hs : Safe w) (u : Nat) (h : turnOf w u = false) :
    cmdCount u (cmdLoop sc k w).2 = 0 := by
  have := (cmdLoop_spec sc k w hs).2.2.1 u
  simp [h] at this
  exact this

example : cmdCount 1 (cycleStep (fun _ _ => []) (run (fun _ _ => []) {} [.conn, .cycle, .send 1 "a~b~c~".toList]).1).2 = 1 := by
  decide

/-! ### the command() efun is not turn-limited -/

/-- **command_efun_unlimited** (clause `efun`): a `command()` call on a live object is executed at once - the event
    `ecmd` follows the request immediately - whatever the turn flags, the cycle or the number of earlier calls are;
    the model of the efun path never reads a turn flag. -/
theorem command_efun_unlimited (sc : Scripts) (f : Nat) (w : World) (me t : Nat) (text : List Char) (rest : List Op)
    (halive : w.alive t = true) :
    ∃ tail, (runOps sc (f + 1) w me (Op.ecmd t text :: rest)).2 = Ev.force me t text true :: Ev.ecmd t text :: tail := by
  unfold runOps
  simp only [halive, if_true]
  split
  · exact ⟨_, rfl⟩
  · split
    · exact ⟨_, rfl⟩
    · exact ⟨_, rfl⟩

/-- **command_efun_needs_no_turn**: whatever a script does (any number of nested `command()` calls, kicks, drops,
    get_char / input_to), it neither consumes nor grants any turn and produces no buffered-command event; so
    `command()` traffic cannot eat into, or add to, anybody's one-per-cycle budget. -/
theorem command_efun_needs_no_turn (sc : Scripts) (f : Nat) (w : World) (me : Nat) (ops : List Op) :
    (∀ x, turnOf (runOps sc f w me ops).1 x = turnOf w x) ∧ ∀ u, cmdCount u (runOps sc f w me ops).2 = 0 := by
  obtain ⟨h1, h2⟩ := runOps_frame sc f w me ops
  exact ⟨h1.2.2.2, fun u => cmdCount_zero_of_none u _ (h2 u)⟩

example : (runOps (fun _ _ => []) 10 { naccepted := 2 } 1 [.ecmd 2 "x".toList, .ecmd 2 "y".toList, .ecmd 2 "z".toList]).2 =
    [.force 1 2 "x".toList true, .ecmd 2 "x".toList, .force 1 2 "y".toList true, .ecmd 2 "y".toList,
     .force 1 2 "z".toList true, .ecmd 2 "z".toList] := by decide

/-! ### per-user FIFO -/

/-- **per_user_fifo** (clause `fifo`), queue discipline of `interactive_t.text`: the command handed out is the FIRST
    complete command of the buffer (everything before it is NUL padding), and what stays buffered is exactly what
    followed it; arrivals only append (`userIO`).  Hence commands of one user leave in the order they arrived. -/
theorem per_user_fifo (single : Bool) (b b' t : List Char) (h : firstCmd single b = (b', some t)) :
    b' = dropNul b ∧ t = (dropNul b).takeWhile (· != NUL) ∧
      ∃ pad, (∀ c ∈ pad, c = NUL) ∧ b = pad ++ t ++ (dropNul b).dropWhile (· != NUL) ∧
        nextCmd b' = dropNul ((dropNul b).dropWhile (· != NUL)) := by
  unfold firstCmd at h
  dsimp only at h
  have hsplit : b = b.takeWhile (· == NUL) ++ dropNul b := by simp [dropNul]
  have hpad : ∀ c ∈ b.takeWhile (· == NUL), c = NUL := by
    intro c hc
    have hall := List.all_takeWhile (l := b) (p := (· == NUL))
    have := List.all_eq_true.mp hall c hc
    simpa using this
  split at h
  · cases h
  · split at h
    · cases h
      refine ⟨rfl, rfl, _, hpad, ?_, rfl⟩
      rw [List.append_assoc, List.takeWhile_append_dropWhile]; exact hsplit
    · split at h
      · cases h
        refine ⟨rfl, rfl, _, hpad, ?_, rfl⟩
        rw [List.append_assoc, List.takeWhile_append_dropWhile]; exact hsplit
      · cases h

/-- the full statement "arrivals are appended behind everything already buffered" - FALSE for the code as it is
    (`Witness.arrivals_append_Full_false`): get_user_data discards a text buffer that leaves less than MAX_TEXT/16
    room, complete commands that wait for their turns included (open finding C13-typeahead-discard) -/
def arrivals_append_Full : Prop :=
  ∀ (w : World) (u : Nat), (w.net.get u).rx.isEmpty = false →
    ((userIO w u).users.get u).buf = (w.users.get u).buf ++ copyChars (w.users.get u).single (w.net.get u).rx

/-- arrivals are appended behind everything already buffered - as long as the pending text leaves room
    (`roomShort`: `(MAX_TEXT - len - 1) / 3 < MAX_TEXT / 16`, i.e. len >= 1664 with the constants of the source) -/
theorem arrivals_append_partial (w : World) (u : Nat) (h : (w.net.get u).rx.isEmpty = false)
    (hroom : roomShort (w.users.get u).buf.length = false) :
    ((userIO w u).users.get u).buf = (w.users.get u).buf ++ copyChars (w.users.get u).single (w.net.get u).rx := by
  simp [userIO, userIO0, heldBack, h, hroom]

/-- ... when it does not and no complete command is buffered (an unfinished over-long line), everything pending is
    lost: only the new bytes are buffered, and the model raises `overflow` -/
theorem arrivals_discard (w : World) (u : Nat) (h : (w.net.get u).rx.isEmpty = false)
    (hroom : roomShort (w.users.get u).buf.length = true)
    (hnc : hasCmd (w.users.get u).single (w.users.get u).buf = false) :
    ((userIO w u).users.get u).buf = copyChars (w.users.get u).single (w.net.get u).rx ∧ (userIO w u).overflow = true := by
  simp [userIO, userIO0, heldBack, h, hroom, hnc]

/-- ... and when a complete command is buffered the read is held back: buffer and socket stay as they are, nothing
    typed ahead is lost (the repaired behaviour: before, this case discarded the buffer as well) -/
theorem arrivals_held (w : World) (u : Nat) (h : (w.net.get u).rx.isEmpty = false)
    (hroom : roomShort (w.users.get u).buf.length = true)
    (hc : hasCmd (w.users.get u).single (w.users.get u).buf = true) :
    ((userIO w u).users.get u).buf = (w.users.get u).buf ∧ (userIO w u).net = w.net ∧
      ((userIO w u).users.get u).cmdInBuf = true := by
  simp [userIO, heldBack, h, hroom, hc]

/-- **a held-back read does not make backend() wait**: the user gets CMD_IN_BUF, so `has_pending_commands` is true at the
    top of the next iteration and the poll timeout is zero - the data left in the socket is read as soon as a command
    has been executed and the buffer has room again -/
theorem held_not_idle (w : World) (u : Nat) (hi : w.interactive u = true) (hh : heldBack w u = true) :
    hasPending (userIO w u) = true ∧ pollBlocks (hasPending (userIO w u)) = false := by
  have hp : hasPending (userIO w u) = true := by
    unfold hasPending userIO
    simp only [hh, if_true, List.any_eq_true]
    refine ⟨some u, by simpa [World.interactive] using hi, ?_⟩
    simp only [get_upd, if_true]
  exact ⟨hp, by rw [hp]; rfl⟩

/-- a held-back read touches neither the table nor the sockets nor the cursor nor anybody's turn or buffer -/
theorem held_keeps_table (w : World) (u : Nat) (hh : heldBack w u = true) :
    (userIO w u).slots = w.slots ∧ (userIO w u).net = w.net ∧ (userIO w u).cursor = w.cursor ∧
      (∀ x, ((userIO w u).users.get x).buf = (w.users.get x).buf ∧ ((userIO w u).users.get x).turn = (w.users.get x).turn) := by
  unfold userIO
  simp only [hh, if_true]
  refine ⟨by trivial, by trivial, by trivial, ?_⟩
  intro x
  simp only [get_upd]
  split
  · rename_i hx; subst hx; exact ⟨rfl, rfl⟩
  · exact ⟨rfl, rfl⟩

/-- witness: a user with MAX_TEXT buffered bytes (any length from 1664 on, with the constants of the source) receives one
    more byte -/
theorem arrivals_append_Full_false : ¬ arrivals_append_Full := by
  intro h
  generalize hw : ({ users := [(1, { buf := List.replicate NV.Gen.C12.maxText 'a' })], net := [(1, { rx := ['b'] })] } : World) = w at h
  have hrx : (w.net.get 1).rx.isEmpty = false := by rw [← hw]; rfl
  have hbuf : (w.users.get 1).buf = List.replicate NV.Gen.C12.maxText 'a' := by rw [← hw]; rfl
  have hs : roomShort (w.users.get 1).buf.length = true := by rw [hbuf, List.length_replicate]; decide
  have h1 := h w 1 hrx
  have hnc : hasCmd (w.users.get 1).single (w.users.get 1).buf = false := by
    rw [hbuf]
    have hsg : (w.users.get 1).single = false := by rw [← hw]; rfl
    have hne : (List.replicate NV.Gen.C12.maxText 'a').contains NUL = false := by
      simp [List.contains_iff_mem, List.mem_replicate]
      decide
    have hd : dropNul (List.replicate NV.Gen.C12.maxText 'a') = List.replicate NV.Gen.C12.maxText 'a' := by
      have : NV.Gen.C12.maxText = (NV.Gen.C12.maxText - 1) + 1 := by decide
      rw [this, List.replicate_succ]
      simp [dropNul, List.dropWhile_cons]
      decide
    simp only [hasCmd, firstCmd, hsg, hd, hne, Bool.false_eq_true, if_false]
    split <;> rfl
  rw [(arrivals_discard w 1 hrx hs hnc).1] at h1
  have := congrArg List.length h1
  rw [List.length_append, hbuf, List.length_replicate] at this
  have hpos : 0 < NV.Gen.C12.maxText := by decide
  omega

example : firstCmd false ("ab".toList ++ [NUL] ++ "cd".toList ++ [NUL]) =
    ("ab".toList ++ [NUL] ++ "cd".toList ++ [NUL], some "ab".toList) := by decide

/-! ### nobody eligible is passed over: scan coverage, loop bound, no starvation -/

/-- the state in which the command phase of the cycle starting in `w` begins: turns granted, I/O processed -/
def cmdPhaseStart (w : World) : World :=
  (processIO { w with cycle := w.cycle + 1, users := grantAll w.users w.slots }).1

/-- **scan_finds_every_eligible**: one call of get_user_command visits every slot of the table exactly once (cursor
    walk `c, c-1, .., 0, max-1, .., c+1`, for every cursor position and every layout), so it reports "no command" only
    when nobody in the table holds both a turn and a complete flagged command (`elig`). -/
theorem scan_finds_every_eligible (w : World) (hs : Safe w) (h : (getUserCommand w).2 = none) :
    ∀ u, elig (getUserCommand w).1 u = false :=
  (getUserCommand_none w hs h).1

/-- the turn-grant loop gives a turn to every user in the table -/
theorem grant_gives_turn (users : AMap U) (slots : List (Option Nat)) (u : Nat) (h : some u ∈ slots) :
    ((grantAll users slots).get u).turn = true := by
  have keep : ∀ (sl : List (Option Nat)) (us : AMap U), (us.get u).turn = true → ((grantAll us sl).get u).turn = true := by
    intro sl
    induction sl with
    | nil => intro us h; exact h
    | cons a r ih =>
      intro us h
      cases a with
      | none => exact ih us h
      | some x =>
        apply ih
        simp only [get_upd]
        split
        · rfl
        · exact h
  induction slots generalizing users with
  | nil => cases h
  | cons a r ih =>
    cases a with
    | none =>
      rcases List.mem_cons.mp h with h | h
      · cases h
      · exact ih users h
    | some x =>
      rcases List.mem_cons.mp h with h | h
      · cases h
        simp only [grantAll]
        apply keep
        simp only [get_upd, if_true]
      · exact ih _ h

/-- `connected_users` (counted by the grant loop) bounds the turns inside the table when the command phase starts:
    users accepted during this cycle's process_io hold no turn, users that vanished only lower the count -/
theorem turns_at_most_connected_users (w : World) : turnCount (cmdPhaseStart w) ≤ connectedUsers w := by
  unfold cmdPhaseStart
  refine Nat.le_trans (processIO_turnCount _) ?_
  exact turnCount_le_connected { w with cycle := w.cycle + 1, users := grantAll w.users w.slots }

theorem cycleStep_world (sc : Scripts) (w : World) :
    (cycleStep sc w).1 = (cmdLoop sc (NV.Gen.C12.loopCalls (connectedUsers w) w.maxUsers) (cmdPhaseStart w)).1 := rfl

/-- **loop_bound_sufficient**: the bound `i < connected_users` (which allows `connected_users + 1` calls of
    process_user_command) never cuts off an eligible user: when a backend cycle ends, nobody in the table holds a turn
    together with a complete flagged command - for every layout (gaps), cursor, queue depth, users connecting in this
    cycle's process_io, users kicked / dropped / switched to single-char mode from inside commands, command() calls. -/
theorem loop_bound_sufficient (sc : Scripts) (w : World) (hs : Safe w) (hfin : (cycleStep sc w).1.thrown = false) :
    ∀ u, elig (cycleStep sc w).1 u = false := by
  rw [cycleStep_world] at hfin ⊢
  have h1 : Safe (cmdPhaseStart w) := processIO_safe _ ⟨hs.1, hs.2⟩
  have h2 := turns_at_most_connected_users w
  exact cmdLoop_complete sc _ _ h1 (by simp only [loopCalls_spec]; omega) hfin

/-- the same for what the hook observes after any number of aborted and restarted iterations -/
theorem loop_bound_sufficient_run (sc : Scripts) (w : World) (hq : Quiet w) :
    ∀ u, elig (cycleRun sc (weight w + 1) w).1 u = false := by
  obtain ⟨w0, h1, h2, h3⟩ := cycleRun_last sc (weight w + 1) w hq (by omega)
  rw [h3]; exact loop_bound_sufficient sc w0 h1.1 h2

theorem cycleStep_cmdCount (sc : Scripts) (w : World) (u : Nat) :
    cmdCount u (cycleStep sc w).2 = cmdCount u (cmdLoop sc (NV.Gen.C12.loopCalls (connectedUsers w) w.maxUsers) (cmdPhaseStart w)).2 := by
  unfold cycleStep cmdPhaseStart
  dsimp only
  have hio : cmdCount u (processIO { w with cycle := w.cycle + 1, users := grantAll w.users w.slots }).2 = 0 := by
    unfold processIO; dsimp only; split <;> simp [cmdCount, Ev.isCmdOf]
  simp only [cmdCount_append, hio]
  have hhead : cmdCount u [Ev.begin (w.cycle + 1), Ev.poll (w.cycle + 1) (pollBlocks (hasPending w))] = 0 := by
    simp [cmdCount, Ev.isCmdOf]
  rw [hhead]
  rw [cmdCount_ite_zero u _ _ _ (by simp [cmdCount, Ev.isCmdOf])
    (cmdCount_ite_zero u _ _ _ (by simp [cmdCount, Ev.isCmdOf]) (by simp [cmdCount, Ev.isCmdOf]))]
  omega

/-- **no_starvation** (clause `starved`): a user that sits in the table holding a turn and a complete flagged command
    when the command phase of a cycle starts is served exactly once in that cycle, or has left the table (kick / drop
    from inside a command) when the cycle ends - whatever the layout, the cursor position, the queue depths of the
    others and their scripts are. -/
theorem no_starvation (sc : Scripts) (w : World) (hs : Safe w) (u : Nat) (he : elig (cmdPhaseStart w) u = true)
    (hfin : (cycleStep sc w).1.thrown = false) :
    cmdCount u (cycleStep sc w).2 = 1 ∨ (cycleStep sc w).1.interactive u = false := by
  rw [cycleStep_world] at hfin
  rw [cycleStep_cmdCount, cycleStep_world]
  have h1 : Safe (cmdPhaseStart w) := processIO_safe _ ⟨hs.1, hs.2⟩
  have h2 := turns_at_most_connected_users w
  exact cmdLoop_serves sc _ _ h1 (by simp only [loopCalls_spec]; omega) u he hfin

-- non-vacuity: three users in a sparse table (slot 2 freed), deep queue for user 1, one line for user 3: both are
-- eligible when the command phase starts and both are served
example :
    let w := (run (fun _ _ => []) {} [.conn, .cycle, .conn, .cycle, .conn, .cycle, .close 2, .cycle,
                                      .send 1 "a~b~c~d~".toList, .send 3 "x~".toList]).1
    Safe w ∧ elig (cmdPhaseStart w) 1 = true ∧ elig (cmdPhaseStart w) 3 = true ∧
      cmdCount 1 (cycleStep (fun _ _ => []) w).2 = 1 ∧ cmdCount 3 (cycleStep (fun _ _ => []) w).2 = 1 := by
  refine ⟨⟨by decide, by decide⟩, by decide, by decide, by decide, by decide⟩

end NV.C12
