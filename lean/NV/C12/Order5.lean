/-
C12 — clause `overtaken`, world-coupled part 2: the invariant `OB` over one iteration of backend() (turn grant, accept
with table growth, EOF removals, command loop, end / abort), over the restarts, over histories; hence
`judgeOrder (events sc cs) = []` and the top theorem `model_satisfies_spec` for ALL script oracles.
-/
import NV.C12.Order4

namespace NV.C12

/-- variant of `OrdO_mono` that allows new waiting users as long as nobody has passed them yet -/
theorem OrdO_mono' (os os' : OState) (w w' : World) (hat : ∀ i u, At w' i u → At w i u) (hc : w'.cursor = w.cursor)
    (hl : w'.slots.length = w.slots.length)
    (hWP : ∀ v u, Wo os' v → Pdo os' v u → Wo os v ∧ Pdo os v u) (h : OrdO os w) : OrdO os' w' := by
  intro i j v u hi hj hw hp
  rw [rank_congr w w' hc hl, rank_congr w w' hc hl]
  obtain ⟨h1, h2⟩ := hWP v u hw hp
  exact h i j v u (hat i v hi) (hat j u hj) h1 h2

/-! ### coupling over events that are no `cmd` -/

theorem cplO_fold_nocmd (l : List Ev) (hl : ∀ u t, Ev.cmd u t ∉ l) (js : JState) (os : OState) (h : CplO js os) :
    CplO (l.foldl judgeStep js) (l.foldl orderStep os) := by
  induction l generalizing js os with
  | nil => exact h
  | cons e r ih =>
    rw [List.foldl_cons, List.foldl_cons]
    apply ih (fun u t hm => hl u t (List.mem_cons_of_mem _ hm))
    exact cplO_step js os e h (fun u t heq => absurd (by rw [heq]; exact List.mem_cons_self) (hl u t))

/-! ### accept and get_user_data against table and cursor -/

theorem acceptBase_At (slots : List (Option Nat)) (i u : Nat) (h : (acceptBase slots)[i]? = some (some u)) :
    slots[i]? = some (some u) := by
  unfold acceptBase at h
  split at h
  · by_cases hi : i < slots.length
    · rw [List.getElem?_append_left hi] at h; exact h
    · rw [List.getElem?_append_right (by omega)] at h
      simp only [List.getElem?_replicate] at h
      split at h <;> cases h
  · exact h

theorem accept_At (w : World) (k i u : Nat) (h : At (accept w k) i u) :
    (i = newSlot w.slots ∧ u = k) ∨ (At w i u ∧ i ≠ newSlot w.slots) := by
  unfold At at h
  rw [accept_slots, List.getElem?_set] at h
  split at h
  · rename_i hg
    left
    split at h
    · cases h; exact ⟨hg.symm, rfl⟩
    · cases h
  · rename_i hg
    right
    exact ⟨acceptBase_At w.slots i u h, fun hh => hg hh.symm⟩

theorem accept_length (w : World) (k : Nat) :
    ∃ d, (accept w k).slots.length = w.slots.length + d ∧ (accept w k).cursor = w.cursor ∧ (accept w k).naccepted = k := by
  refine ⟨(acceptBase w.slots).length - w.slots.length, ?_, rfl, rfl⟩
  rw [accept_slots, List.length_set]
  unfold acceptBase
  split
  · simp
  · simp

theorem userIO_At (w : World) (u i x : Nat) (h : At (userIO w u) i x) : At w i x := by
  unfold userIO at h
  split at h
  · exact h
  unfold userIO0 at h
  dsimp only at h
  split at h
  · exact h
  · split at h
    · exact removeUser_At w.slots u i x h
    · exact h

theorem userIO_frame (w : World) (u : Nat) :
    (userIO w u).cursor = w.cursor ∧ (userIO w u).slots.length = w.slots.length ∧ (userIO w u).naccepted = w.naccepted := by
  unfold userIO
  split
  · exact ⟨rfl, rfl, rfl⟩
  unfold userIO0
  dsimp only
  split
  · exact ⟨rfl, rfl, rfl⟩
  · split
    · exact ⟨rfl, by simp, rfl⟩
    · exact ⟨rfl, rfl, rfl⟩

theorem fold_userIO_At (l : List Nat) (w : World) :
    (∀ i x, At (l.foldl userIO w) i x → At w i x) ∧ (l.foldl userIO w).cursor = w.cursor ∧
    (l.foldl userIO w).slots.length = w.slots.length ∧ (l.foldl userIO w).naccepted = w.naccepted := by
  induction l generalizing w with
  | nil => exact ⟨fun _ _ h => h, rfl, rfl, rfl⟩
  | cons u r ih =>
    obtain ⟨a1, a2, a3, a4⟩ := ih (userIO w u)
    obtain ⟨b1, b2, b3⟩ := userIO_frame w u
    exact ⟨fun i x h => userIO_At w u i x (a1 i x h), a2.trans b1, a3.trans b2, a4.trans b3⟩

/-- the part of `OB` that talks about table and cursor, through process_io (with its logon event) -/
theorem processIO_OB (os : OState) (w : World) (hsafe : Safe w) (htab : TableOK w) (hord : OrdO os w)
    (hnoid : ∀ v, v ∉ os.ids → (os.us.get v).waiting = false)
    (hpacc : ∀ v u, u ∈ (os.us.get v).passed → u ≤ w.naccepted) (hidacc : ∀ v, v ∈ os.ids → v ≤ w.naccepted) :
    OrdO ((processIO w).2.foldl orderStep os) (processIO w).1 ∧ TableOK (processIO w).1 ∧
    (∀ v, v ∉ ((processIO w).2.foldl orderStep os).ids → (((processIO w).2.foldl orderStep os).us.get v).waiting = false) ∧
    (∀ v u, u ∈ (((processIO w).2.foldl orderStep os).us.get v).passed → u ≤ (processIO w).1.naccepted) ∧
    (∀ v, v ∈ ((processIO w).2.foldl orderStep os).ids → v ≤ (processIO w).1.naccepted) ∧
    ((processIO w).2.foldl orderStep os).bad = os.bad ∧
    (∀ v, Wo ((processIO w).2.foldl orderStep os) v → Wo os v) := by
  unfold processIO
  dsimp only
  split
  · -- a connection is accepted
    dsimp only
    obtain ⟨f1, f2, f3, f4⟩ := fold_userIO_At (w.slots.filterMap id) (accept w (w.naccepted + 1))
    obtain ⟨d, l1, l2, l3⟩ := accept_length w (w.naccepted + 1)
    simp only [List.foldl_cons, List.foldl_nil]
    have hrec : ∀ v, (orderStep os (.logon (w.naccepted + 1))).us.get v =
        if v = w.naccepted + 1 then { connected := true } else os.us.get v := by
      intro v; simp only [orderStep, get_upd]
    have hW : ∀ v, Wo (orderStep os (.logon (w.naccepted + 1))) v → v ≠ w.naccepted + 1 ∧ Wo os v := by
      intro v hw
      obtain ⟨hw1, hw2⟩ := hw
      rw [hrec v] at hw1 hw2
      split at hw1
      · cases hw1
      · rename_i hne
        simp only [hne, if_false] at hw2
        exact ⟨hne, hw1, hw2⟩
    have htabA : TableOK (accept w (w.naccepted + 1)) := by
      constructor
      · intro i j u hi hj
        rcases accept_At w _ i u hi with ⟨hi1, hi2⟩ | ⟨hi1, hi2⟩ <;>
        rcases accept_At w _ j u hj with ⟨hj1, hj2⟩ | ⟨hj1, hj2⟩
        · rw [hi1, hj1]
        · have := (htab.acc j u hj1).2; omega
        · have := (htab.acc i u hi1).2; omega
        · exact htab.uniq i j u hi1 hj1
      · intro i u hi
        rw [l3]
        rcases accept_At w _ i u hi with ⟨_, hi2⟩ | ⟨hi1, _⟩
        · omega
        · have := htab.acc i u hi1; omega
    have hordA : OrdO (orderStep os (.logon (w.naccepted + 1))) (accept w (w.naccepted + 1)) := by
      intro i j v u hi hj hw hp
      obtain ⟨hvk, hWv⟩ := hW v hw
      have hp0 : u ∈ (os.us.get v).passed := by
        have : u ∈ ((orderStep os (.logon (w.naccepted + 1))).us.get v).passed := hp
        rw [hrec v] at this; simp only [hvk, if_false] at this; exact this
      have huk : u ≠ w.naccepted + 1 := by have := hpacc v u hp0; omega
      have hi0 : At w i v := by
        rcases accept_At w _ i v hi with ⟨_, h2⟩ | ⟨h1, _⟩
        · exact absurd h2 hvk
        · exact h1
      have hj0 : At w j u := by
        rcases accept_At w _ j u hj with ⟨_, h2⟩ | ⟨h1, _⟩
        · exact absurd h2 huk
        · exact h1
      have hlt := hord i j v u hi0 hj0 hWv hp0
      have hil := At_lt w i v hi0
      have hjl := At_lt w j u hj0
      rw [rank_grow w _ i d l2 l1 hil, rank_grow w _ j d l2 l1 hjl]
      unfold rank at hlt ⊢
      by_cases hic : i ≤ w.cursor <;> by_cases hjc : j ≤ w.cursor <;>
        simp only [hic, hjc, if_true, if_false] at hlt ⊢ <;> omega
    refine ⟨?_, ?_, ?_, ?_, ?_, rfl, fun v hw => (hW v hw).2⟩
    · exact OrdO_mono' _ _ _ _ f1 f2 f3 (fun v u h1 h2 => ⟨h1, h2⟩) hordA
    · exact TableOK_mono _ _ f1 (by rw [f4]; exact Nat.le_refl _) htabA
    · intro v hv
      have hv' : v ∉ (w.naccepted + 1) :: os.ids := hv
      simp only [List.mem_cons, not_or] at hv'
      rw [hrec v]; simp only [hv'.1, if_false]
      exact hnoid v hv'.2
    · intro v u hu
      rw [f4, l3]
      rw [hrec v] at hu
      split at hu
      · cases hu
      · have := hpacc v u hu; omega
    · intro v hv
      rw [f4, l3]
      have hv' : v ∈ (w.naccepted + 1) :: os.ids := hv
      rcases List.mem_cons.mp hv' with hh | hh
      · omega
      · have := hidacc v hh; omega
  · obtain ⟨f1, f2, f3, f4⟩ := fold_userIO_At (w.slots.filterMap id) w
    refine ⟨OrdO_mono' _ _ _ _ f1 f2 f3 (fun v u h1 h2 => ⟨h1, h2⟩) hord,
      TableOK_mono _ _ f1 (by rw [f4]; exact Nat.le_refl _) htab, hnoid,
      fun v u hu => by rw [f4]; exact hpacc v u hu, fun v hv => by rw [f4]; exact hidacc v hv, rfl, fun _ h => h⟩

/-! ### one iteration of backend() -/

theorem cycle_events (sc : Scripts) (w : World) :
    (cycleStep sc w).2 =
      [Ev.begin (w.cycle + 1), Ev.poll (w.cycle + 1) (pollBlocks (hasPending w))] ++
      (processIO { w with cycle := w.cycle + 1, users := grantAll w.users w.slots }).2 ++
      (cmdLoop sc (NV.Gen.C12.loopCalls (connectedUsers w) w.maxUsers) (cmdPhaseStart w)).2 ++
      (if (cycleStep sc w).1.crashed then [Ev.crash "all_users[s_next_user] out of range"]
       else if (cycleStep sc w).1.thrown then [Ev.abort (w.cycle + 1)]
       else [Ev.endc (w.cycle + 1) (cycleStep sc w).1.maxUsers (layout (cycleStep sc w).1)]) := rfl

theorem Wo_begin (os : OState) (n v : Nat) (hnoid : ∀ v, v ∉ os.ids → (os.us.get v).waiting = false)
    (h : Wo (orderStep os (.begin n)) v) :
    oLive (os.us.get v) = true ∧ complete (os.us.get v).charMode (os.us.get v).pending = true ∧
    (∀ u, Pdo (orderStep os (.begin n)) v u → Wo os v ∧ Pdo os v u) := by
  obtain ⟨h1, h2⟩ := h
  unfold Pdo
  rw [obegin_get] at h1 h2 ⊢
  by_cases hm : v ∈ os.ids
  · simp only [hm, if_true] at h1 h2 ⊢
    unfold obeginU at h1 h2 ⊢
    by_cases hc : (oLive (os.us.get v) && complete (os.us.get v).charMode (os.us.get v).pending) = true
    · simp only [hc, if_true] at h1 h2 ⊢
      have hc' := hc
      simp only [Bool.and_eq_true] at hc'
      refine ⟨hc'.1, hc'.2, ?_⟩
      by_cases hw : (os.us.get v).waiting = true
      · simp only [hw, if_true]
        intro u hu; exact ⟨⟨hw, hc'.1⟩, hu⟩
      · simp only [hw, Bool.false_eq_true, if_false]
        intro u hu; cases hu
    · simp only [hc, Bool.false_eq_true, if_false] at h1
  · simp only [hm, if_false] at h1
    rw [hnoid v hm] at h1; cases h1

end NV.C12
