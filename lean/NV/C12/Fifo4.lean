/-
C12 — the global induction for the FIFO clause oracle: `QInv` (Fifo3.lean) for every user, threaded through every
function of the model, gives `judgeFifo (events sc cs) = []` for every history whose sent bytes are plain.
-/
import NV.C12.Fifo3
import NV.C12.Lemmas3
import NV.C12.Trace
import NV.C12.Lemmas2

namespace NV.C12

/-- the part of `interactive_t` the byte queue lives in -/
def core (us : U) : Bool × Bool × List Char := (us.single, us.inputTo, us.buf)

theorem QInv_congr (f : FU) (us us' : U) (rx : List Char) (hc : core us' = core us) (h : QInv f us rx) : QInv f us' rx := by
  simp only [core, Prod.mk.injEq] at hc
  obtain ⟨c1, c2, c3⟩ := hc
  obtain ⟨p1, p2, h1, h2, h3⟩ := h.split
  exact ⟨by rw [c1]; exact h.mode, by rw [c1, c2]; exact h.inp, h.plain, p1, p2, h1, by rw [c3]; exact h2, by rw [c1]; exact h3⟩

theorem QInv_noLead (f : FU) (us : U) (rx : List Char) (h : QInv f us rx) : dropNul us.buf = us.buf := by
  obtain ⟨p1, p2, h1, h2, _⟩ := h.split
  have hp : (p1 ++ p2 ++ rx).all plainChar = true := by rw [← h1]; exact h.plain
  simp only [List.all_append, Bool.and_eq_true] at hp
  rw [h2]; exact enc_head_ne_nul p1 p2 hp.1.1 hp.1.2

theorem firstCmd_fst_id (single : Bool) (b : List Char) (h : dropNul b = b) : (firstCmd single b).1 = b := by
  unfold firstCmd
  simp only [h]
  split
  · rename_i he; simp at he; exact he.symm
  · split
    · rfl
    · split <;> rfl

/-- no buffer starts with a NUL (true of every encoded buffer) -/
def NoLead (w : World) : Prop := ∀ x, dropNul (w.users.get x).buf = (w.users.get x).buf

theorem scanStep_core (w : World) (hn : NoLead w) :
    (∀ w', scanStep w = .next w' → (∀ x, core (w'.users.get x) = core (w.users.get x)) ∧ w'.net = w.net ∧
        w'.naccepted = w.naccepted) ∧
    (∀ w' u t, scanStep w = .found w' u t → (∀ x, core (w'.users.get x) = core (w.users.get x)) ∧ w'.net = w.net ∧
        w'.naccepted = w.naccepted ∧ (firstCmd (w.users.get u).single (w.users.get u).buf).2 = some t) := by
  unfold scanStep
  split
  · exact ⟨(fun _ h => by cases h), fun _ _ _ h => by cases h⟩
  · exact ⟨(fun _ h => by cases h; exact ⟨fun _ => rfl, rfl, rfl⟩), fun _ _ _ h => by cases h⟩
  · rename_i u _
    dsimp only
    have hfi := firstCmd_fst_id (w.users.get u).single (w.users.get u).buf (hn u)
    split
    · split
      · rename_i t ht
        split
        · refine ⟨(fun _ h => by cases h), fun w' u' t' h => ?_⟩
          cases h
          refine ⟨?_, rfl, rfl, ht⟩
          intro x; simp only [get_upd]; split
          · rename_i hx; subst hx; simp [core, hfi]
          · rfl
        · refine ⟨fun w' h => ?_, fun _ _ _ h => by cases h⟩
          cases h
          refine ⟨?_, rfl, rfl⟩
          intro x; simp only [get_upd]; split
          · rename_i hx; subst hx; simp [core, hfi]
          · rfl
      · refine ⟨fun w' h => ?_, fun _ _ _ h => by cases h⟩
        cases h
        refine ⟨?_, rfl, rfl⟩
        intro x; simp only [get_upd]; split
        · rename_i hx; subst hx; simp [core, hfi]
        · rfl
    · exact ⟨(fun _ h => by cases h; exact ⟨fun _ => rfl, rfl, rfl⟩), fun _ _ _ h => by cases h⟩

theorem NoLead_of_core (w w' : World) (hn : NoLead w) (hc : ∀ x, core (w'.users.get x) = core (w.users.get x)) : NoLead w' := by
  intro x
  have := hc x
  simp only [core, Prod.mk.injEq] at this
  rw [this.2.2]; exact hn x

/-- the scan leaves single / input_to / buffer of every user and the sockets alone; a found command is the one
    first_cmd_in_buf sees in the found user's buffer -/
theorem scan_core (n : Nat) (w : World) (hn : NoLead w) :
    (∀ x, core ((scan n w).1.users.get x) = core (w.users.get x)) ∧ (scan n w).1.net = w.net ∧
    (scan n w).1.naccepted = w.naccepted ∧
    (∀ u t, (scan n w).2 = some (u, t) → (firstCmd (w.users.get u).single (w.users.get u).buf).2 = some t) ∧
    (scan n w).1.slots = w.slots ∧ (∀ u t, (scan n w).2 = some (u, t) → w.interactive u = true) := by
  induction n generalizing w with
  | zero => simp [scan]
  | succ n ih =>
    obtain ⟨s1, s2⟩ := scanStep_core w hn
    unfold scan
    cases hstep : scanStep w with
    | crash => simp
    | found w' u t =>
      obtain ⟨a1, a2, a3, a4⟩ := s2 w' u t hstep
      obtain ⟨f1, _⟩ := scanStep_found_ready w w' u t hstep
      obtain ⟨g1, _⟩ := scanStep_found w w' u t hstep
      refine ⟨a1, a2, a3, ?_, g1, ?_⟩
      · intro u' t' he; simp at he; rw [← he.1, ← he.2]; exact a4
      · intro u' t' he; simp at he; rw [← he.1]
        simp only [World.interactive, List.contains_iff_mem]
        exact List.mem_of_getElem? f1
    | next w' =>
      obtain ⟨a1, a2, a3⟩ := s1 w' hstep
      obtain ⟨g1, _⟩ := scanStep_next w w' hstep
      have hn' : NoLead (decCursor w') := NoLead_of_core w (decCursor w') hn a1
      obtain ⟨i1, i2, i3, i4, i5, i6⟩ := ih (decCursor w') hn'
      dsimp only
      refine ⟨fun x => (i1 x).trans (a1 x), i2.trans a2, i3.trans a3, ?_, i5.trans g1, ?_⟩
      · intro u t he
        have := i4 u t he
        have hc := a1 u
        simp only [core, Prod.mk.injEq, decCursor_users] at hc this
        rw [← hc.1, ← hc.2.2]; exact this
      · intro u t he
        have := i6 u t he
        simpa [World.interactive, g1] using this


/-! ### the global invariant -/

structure G (s : FState) (w : World) : Prop where
  q : ∀ u, QInv (s.us.get u) (w.users.get u) (w.net.get u).rx
  fresh : ∀ u, w.naccepted < u → s.us.get u = {} ∧ (w.net.get u).rx = []
  clean : s.bad = []

/-- during the command phase the sockets of the users in the table have been read -/
def Drained (w : World) : Prop := ∀ u, w.interactive u = true → (w.net.get u).rx = []

/-- same users, sockets and accept counter: only table / dead list / cursor / turn-like fields differ -/
theorem G_congr (s : FState) (w w' : World) (h : G s w) (hc : ∀ x, core (w'.users.get x) = core (w.users.get x))
    (hnet : w'.net = w.net) (hna : w'.naccepted = w.naccepted) : G s w' :=
  ⟨fun u => by rw [hnet]; exact QInv_congr _ _ _ _ (hc u) (h.q u), fun u hu => by rw [hnet]; exact h.fresh u (by rw [← hna]; exact hu), h.clean⟩

theorem G_noLead (s : FState) (w : World) (h : G s w) : NoLead w := fun x => QInv_noLead _ _ _ (h.q x)

/-- folding an oracle step over the events of a script, with a relation between oracle state and world -/
theorem runOps_sim {σ : Type} (g : σ → Ev → σ) (R : σ → World → Prop)
    (hkick : ∀ s w me t, R s w → R (g s (.kick me t (w.alive t)))
        (if w.alive t then { w with slots := removeUser w.slots t, dead := t :: w.dead } else w))
    (hdrop : ∀ s w me t, R s w → R (g s (.drop me t (w.alive t && w.interactive t)))
        (if (w.alive t && w.interactive t) = true then { w with slots := removeUser w.slots t } else w))
    (hgc : ∀ s w me, R s w → R (g s (.gc me (setCall w me true).2)) (setCall w me true).1)
    (hit : ∀ s w me, R s w → R (g s (.it me (setCall w me false).2)) (setCall w me false).1)
    (hff : ∀ s w me t x, R s w → R (g s (.force me t x false)) w)
    (hpair : ∀ s w me t x, R s w → R (g (g s (.force me t x true)) (.ecmd t x)) w)
    (herr : ∀ s w me, R s w → R (g s (.err me)) { w with thrown := true })
    (hexec : ∀ s w me, R s w → R (g s (.exec me (w.alive me && w.interactive me))) w)
    (sc : Scripts) (f : Nat) (w : World) (me : Nat) (ops : List Op) (s : σ) (hs : R s w) :
    R ((runOps sc f w me ops).2.foldl g s) (runOps sc f w me ops).1 := by
  induction f generalizing w me ops s with
  | zero => simpa [runOps] using hs
  | succ f ih =>
    cases ops with
    | nil => simpa [runOps] using hs
    | cons op rest =>
      have hop : ∀ (w1 : World) (e1 : List Ev), R (e1.foldl g s) w1 →
          R ((if w1.thrown then (w1, e1) else if w1.alive me then ((runOps sc f w1 me rest).1, e1 ++ (runOps sc f w1 me rest).2) else (w1, e1)).2.foldl g s)
            (if w1.thrown then (w1, e1) else if w1.alive me then ((runOps sc f w1 me rest).1, e1 ++ (runOps sc f w1 me rest).2) else (w1, e1)).1 := by
        intro w1 e1 he
        split
        · exact he
        split
        · simp only [List.foldl_append]; exact ih w1 me rest _ he
        · exact he
      unfold runOps
      cases op with
      | kick t => exact hop _ _ (by simpa using hkick s w me t hs)
      | drop t => exact hop _ _ (by simpa using hdrop s w me t hs)
      | ecmd t text =>
        dsimp only
        split
        · apply hop
          simp only [List.foldl_cons]
          exact ih w t (sc t text) _ (hpair s w me t text hs)
        · exact hop _ _ (by simpa using hff s w me t text hs)
      | gc =>
        have hg := hgc s w me hs
        revert hg
        cases hsc : setCall w me true with
        | mk w' r => intro hg; exact hop _ _ (by simpa using hg)
      | it =>
        have hg := hit s w me hs
        revert hg
        cases hsc : setCall w me false with
        | mk w' r => intro hg; exact hop _ _ (by simpa using hg)
      | err => exact hop _ _ (by simpa using herr s w me hs)
      | exec => exact hop _ _ (by simpa using hexec s w me hs)


/-! ### scripts keep the invariant -/

theorem Drained_removeUser (w w' : World) (hd : Drained w) (t : Nat) (hs : w'.slots = removeUser w.slots t)
    (hn : w'.net = w.net) : Drained w' := by
  intro u hu
  rw [hn]
  apply hd u
  simp only [World.interactive, hs, removeUser_contains, Bool.and_eq_true] at hu
  exact hu.1

theorem setCall_refused (w : World) (me : Nat) (single : Bool)
    (hc : (!w.alive me || !w.interactive me || (w.users.get me).inputTo) = true) : setCall w me single = (w, false) := by
  unfold setCall; simp only [hc, if_true]

theorem setCall_ok (w : World) (me : Nat) (single : Bool)
    (hc : ¬ (!w.alive me || !w.interactive me || (w.users.get me).inputTo) = true) :
    ∃ X, setCall w me single = ({ w with users := upd w.users me X }, true) ∧
      core X = ((w.users.get me).single || single, true, (w.users.get me).buf) := by
  unfold setCall
  simp only [hc, if_false]
  cases single <;> exact ⟨_, rfl, rfl⟩

theorem G_setCall (s : FState) (w : World) (me : Nat) (single : Bool) (h : G s w) (hd : Drained w) :
    G (fifoStep s (if single then Ev.gc me (setCall w me single).2 else Ev.it me (setCall w me single).2))
      (setCall w me single).1 ∧ Drained (setCall w me single).1 := by
  by_cases hcond : (!w.alive me || !w.interactive me || (w.users.get me).inputTo) = true
  · rw [setCall_refused w me single hcond]
    cases single <;> exact ⟨h, hd⟩
  · obtain ⟨X, hX, hcore⟩ := setCall_ok w me single hcond
    rw [hX]
    simp only [Bool.or_eq_true, Bool.not_eq_true', not_or, Bool.not_eq_false] at hcond
    obtain ⟨⟨halive, _⟩, hfree⟩ := hcond
    have hfree' : (w.users.get me).inputTo = false := by simpa using hfree
    have hme : me ≤ w.naccepted := by
      simp only [World.alive, Bool.and_eq_true, decide_eq_true_eq] at halive
      exact halive.1.2
    have hq := sim_setCall (s.us.get me) (w.users.get me) (w.net.get me).rx (h.q me) single (w.users.get me).cmdInBuf hfree'
    have hqX : QInv (if single then { s.us.get me with charMode := true } else s.us.get me) X (w.net.get me).rx :=
      QInv_congr _ _ _ _ (by rw [hcore]; rfl) hq
    refine ⟨?_, fun u hu => hd u hu⟩
    cases single with
    | true =>
      refine ⟨?_, ?_, h.clean⟩
      · intro u
        simp only [fifoStep, get_upd, if_true]
        split
        · rename_i hu; subst hu; simpa using hqX
        · exact h.q u
      · intro u hu
        have hu' : w.naccepted < u := hu
        have hne : u ≠ me := by omega
        simp only [fifoStep, get_upd, hne, if_false, if_true]
        exact h.fresh u hu'
    | false =>
      refine ⟨?_, fun u hu => h.fresh u hu, h.clean⟩
      intro u
      simp only [fifoStep, get_upd, Bool.false_eq_true, if_false]
      split
      · rename_i hu; subst hu; simpa using hqX
      · exact h.q u

theorem G_runOps (sc : Scripts) (f : Nat) (w : World) (me : Nat) (ops : List Op) (s : FState) (h : G s w) (hd : Drained w) :
    G ((runOps sc f w me ops).2.foldl fifoStep s) (runOps sc f w me ops).1 ∧ Drained (runOps sc f w me ops).1 := by
  apply runOps_sim fifoStep (fun s w => G s w ∧ Drained w)
  · intro s w me t hh
    split
    · exact ⟨G_congr _ _ _ hh.1 (fun _ => rfl) rfl rfl, Drained_removeUser w _ hh.2 t rfl rfl⟩
    · exact hh
  · intro s w me t hh
    split
    · exact ⟨G_congr _ _ _ hh.1 (fun _ => rfl) rfl rfl, Drained_removeUser w _ hh.2 t rfl rfl⟩
    · exact hh
  · intro s w me hh; exact G_setCall s w me true hh.1 hh.2
  · intro s w me hh; exact G_setCall s w me false hh.1 hh.2
  · intro s w me t x hh; exact hh
  · intro s w me t x hh; exact hh
  · intro s w me hh
    exact ⟨G_congr _ _ _ hh.1 (fun _ => rfl) rfl rfl, fun u hu => hh.2 u hu⟩
  · intro s w me hh; exact hh
  · exact ⟨h, hd⟩


/-! ### get_user_command on the queue -/

theorem guc_none (w : World) (hn : NoLead w) (h : (getUserCommand w).2 = none) :
    (getUserCommand w).1.slots = w.slots ∧ (getUserCommand w).1.net = w.net ∧
    (getUserCommand w).1.naccepted = w.naccepted ∧ ∀ x, core ((getUserCommand w).1.users.get x) = core (w.users.get x) := by
  obtain ⟨c1, c2, c3, _, c5, _⟩ := scan_core (NV.Gen.C12.scanLength w.slots.length) w hn
  unfold getUserCommand at h ⊢
  cases hsc : scan (NV.Gen.C12.scanLength w.slots.length) w with
  | mk w1 r =>
    rw [hsc] at c1 c2 c3 c5 h
    cases r with
    | some p => obtain ⟨u, t⟩ := p; simp at h
    | none => exact ⟨c5, c2, c3, c1⟩

theorem guc_some (w : World) (hn : NoLead w) (v : Nat) (t : List Char) (h : (getUserCommand w).2 = some (v, t)) :
    ∃ t0, t = telnetNeg t0 ∧ (firstCmd (w.users.get v).single (w.users.get v).buf).2 = some t0 ∧
      w.interactive v = true ∧ (getUserCommand w).1.slots = w.slots ∧ (getUserCommand w).1.net = w.net ∧
      (getUserCommand w).1.naccepted = w.naccepted ∧
      (∀ x, x ≠ v → core ((getUserCommand w).1.users.get x) = core (w.users.get x)) ∧
      core ((getUserCommand w).1.users.get v) =
        ((w.users.get v).single, (w.users.get v).inputTo, nextCmd (w.users.get v).buf) := by
  obtain ⟨c1, c2, c3, c4, c5, c6⟩ := scan_core (NV.Gen.C12.scanLength w.slots.length) w hn
  unfold getUserCommand at h ⊢
  cases hsc : scan (NV.Gen.C12.scanLength w.slots.length) w with
  | mk w1 r =>
    rw [hsc] at c1 c2 c3 c4 c5 c6 h
    cases r with
    | none => simp at h
    | some p =>
      obtain ⟨u, t0⟩ := p
      dsimp only at c1 c2 c3 c4 c5 c6 h ⊢
      simp only [Option.some.injEq, Prod.mk.injEq] at h
      obtain ⟨hu, ht⟩ := h
      subst hu
      refine ⟨t0, ht.symm, c4 u t0 rfl, c6 u t0 rfl, c5, c2, c3, ?_, ?_⟩
      · intro x hx
        simp only [decCursor_users, get_upd, hx, if_false]
        exact c1 x
      · have := c1 u
        simp only [core, Prod.mk.injEq] at this
        simp only [decCursor_users, get_upd, if_true, core, this.1, this.2.1, this.2.2]


/-! ### process_user_command and the command loop keep the invariant, and the oracle stays silent -/

theorem served_accepted (s : FState) (w : World) (h : G s w) (v : Nat) (t0 : List Char)
    (hf : (firstCmd (w.users.get v).single (w.users.get v).buf).2 = some t0) : v ≤ w.naccepted := by
  cases Nat.lt_or_ge w.naccepted v with
  | inr hle => exact hle
  | inl hlt =>
    exfalso
    obtain ⟨he, hrx⟩ := h.fresh v hlt
    obtain ⟨p1, p2, h1, h2, _⟩ := (h.q v).split
    rw [he] at h1
    have hnil : p1 ++ p2 ++ (w.net.get v).rx = [] := h1.symm
    simp only [List.append_eq_nil_iff] at hnil
    rw [h2, hnil.1.1, hnil.1.2] at hf
    simp [firstCmd, dropNul, encL_nil, encR_nil] at hf

theorem G_puc (sc : Scripts) (w : World) (s : FState) (h : G s w) (hd : Drained w) :
    G ((processUserCommand sc w).2.1.foldl fifoStep s) (processUserCommand sc w).1 ∧
      Drained (processUserCommand sc w).1 := by
  have hn := G_noLead s w h
  have gn := guc_none w hn
  have gs := guc_some w hn
  unfold processUserCommand
  split
  · exact ⟨h, hd⟩
  · cases hg : getUserCommand w with
    | mk w1 r =>
      rw [hg] at gn gs
      cases r with
      | none =>
        obtain ⟨a1, a2, a3, a4⟩ := gn rfl
        dsimp only at a1 a2 a3 a4 ⊢
        refine ⟨G_congr s w w1 h a4 a2 a3, ?_⟩
        intro u hu; rw [a2]; apply hd u; simpa [World.interactive, a1] using hu
      | some p =>
        obtain ⟨v, t⟩ := p
        obtain ⟨t0, ht, hfound, hint, b1, b2, b3, b4, b5⟩ := gs v t rfl
        dsimp only at b1 b2 b3 b4 b5 ⊢
        have hrx : (w.net.get v).rx = [] := hd v hint
        have hq : QInv (s.us.get v) (w.users.get v) [] := by have := h.q v; rw [hrx] at this; exact this
        have hv : v ≤ w.naccepted := served_accepted s w h v t0 hfound
        simp only [core, Prod.mk.injEq] at b5
        obtain ⟨c1, c2, c3⟩ := b5
        have hfi := firstCmd_fst_id (w.users.get v).single (w.users.get v).buf (hn v)
        obtain ⟨p', hcons, hq'⟩ := sim_serve (s.us.get v) (w.users.get v) (w1.users.get v) hq t0 hfound
          (by rw [c3, hfi]) c1 c2
        -- the oracle consumes the command
        have hstep : fifoStep s (Ev.cmd v t) = { s with us := upd s.us v { pending := p', charMode := false } } := by
          simp only [fifoStep, ht, hcons]
        simp only [List.foldl_cons, hstep]
        -- the world after the input_to bookkeeping
        generalize hw2 : (if (w1.users.get v).inputTo then
            { w1 with users := upd w1.users v (endInput (w1.users.get v)) } else w1) = w2
        have w2s : w2.slots = w.slots := by rw [← hw2]; split <;> exact b1
        have w2n : w2.net = w.net := by rw [← hw2]; split <;> exact b2
        have w2a : w2.naccepted = w.naccepted := by rw [← hw2]; split <;> exact b3
        have w2v : w2.users.get v = (if (w1.users.get v).inputTo then endInput (w1.users.get v) else w1.users.get v) := by
          rw [← hw2]; split
          · simp
          · rfl
        have w2x : ∀ x, x ≠ v → core (w2.users.get x) = core (w.users.get x) := by
          intro x hx; rw [← hw2]; split
          · simp only [get_upd, hx, if_false]; exact b4 x hx
          · exact b4 x hx
        have hG2 : G { s with us := upd s.us v { pending := p', charMode := false } } w2 := by
          refine ⟨?_, ?_, h.clean⟩
          · intro u
            by_cases hu : u = v
            · subst hu
              simp only [get_upd, if_true, w2n, hrx, w2v]
              exact hq'
            · simp only [get_upd, hu, if_false, w2n]
              exact QInv_congr _ _ _ _ (w2x u hu) (h.q u)
          · intro u hu
            have hu' : w.naccepted < u := by rw [← w2a]; exact hu
            have hne : u ≠ v := by omega
            simp only [get_upd, hne, if_false, w2n]
            exact h.fresh u hu'
        have hD2 : Drained w2 := by
          intro u hu; rw [w2n]; apply hd u; simpa [World.interactive, w2s] using hu
        exact G_runOps sc scriptFuel w2 v (sc v t) _ hG2 hD2

theorem G_cmdLoop (sc : Scripts) (k : Nat) (w : World) (s : FState) (h : G s w) (hd : Drained w) :
    G ((cmdLoop sc k w).2.foldl fifoStep s) (cmdLoop sc k w).1 := by
  induction k generalizing w s with
  | zero => simpa [cmdLoop] using h
  | succ k ih =>
    have hp := G_puc sc w s h hd
    unfold cmdLoop
    cases hpc : processUserCommand sc w with
    | mk w1 r =>
      obtain ⟨e1, b⟩ := r
      rw [hpc] at hp
      cases b with
      | false => exact hp.1
      | true =>
        dsimp only
        rw [List.foldl_append]
        exact ih w1 _ hp.1 hp.2

end NV.C12
