/-
C12 — executable model of the buffered-command scheduler of the driver.

Mirrors, line by line:
  src/backend.c  backend()            -> `cycleStep`  (turn-grant loop, `connected_users`, `has_pending_commands`,
                                                       poll, process_io, the bounded command loop, in this order)
  src/comm.c     get_user_command()   -> `scan` + `getUserCommand` (rotating static cursor `s_next_user`, decrementing,
                                                       wrap to `max_users - 1`; the turn is consumed only when a complete
                                                       command exists; CMD_IN_BUF cleared when there is none)
                 process_user_command -> `processUserCommand` (input_to / get_char callback or process_input + parser)
                 first_cmd_in_buf / cmd_in_buf / next_cmd_in_buf -> `firstCmd` / `hasCmd` / `nextCmd`
                 copy_chars (TS_DATA) -> `copyChars`   (CR LF -> " \b\0" in line mode, raw in single-char mode)
                 new_interactive      -> `accept`      (first free slot >= 1, table grows by 50; repaired code)
                 remove_interactive   -> `removeUser`
                 set_call (input_to / get_char) -> `setCall` (repaired code: typed-ahead text is flagged at once)
                 call_function_interactive      -> `endInput` (repaired code: raw single-char input is reframed)
  lib/efuns/command.c f_command       -> `Op.ecmd` in `runOps` (process_command directly: no turn involved)

Abstractions: `interactive_t.text[text_start..text_end)` is a `List Char` (NUL = end of a command); the iflags that
matter are three booleans (the generated bit values are only used to print them, see `U.iflags`; `Props.flag_bits` shows the
bits are distinct); LPC code run by a command is an oracle `Scripts` plus fuel.  A C access `all_users[s_next_user]` outside
`[0, max_users)` is the explicit outcome `crashed`.
The network between the test clients and the driver is part of the model (`Net`): one accept per cycle per listening
port (level-triggered poll), one recv per readable user per cycle, EOF seen by the first recv that finds no data.
Out of the model (see notes/C12.md): buffer compaction/overflow rules of get_user_data (C13), `!` shell escapes, ed,
telnet negotiation bytes.  Uncaught errors thrown by commands ARE modelled (`Op.err`, `cycleRun`).
-/
import NV.Gen.C12

namespace NV.C12

abbrev NUL : Char := Char.ofNat 0
abbrev BS : Char := Char.ofNat 8
abbrev DEL : Char := Char.ofNat 127
abbrev CR : Char := Char.ofNat 13
abbrev LF : Char := Char.ofNat 10

/-- the table grows by this many slots (`new_max_users = max_users + N` in new_interactive, regenerated) -/
def growBy : Nat := NV.Gen.C12.growBy

/-- what a scripted command does (harness/mudlib/c12/user.c `do_op`) -/
inductive Op where
  | kick (t : Nat)                      -- destruct(user t)
  | drop (t : Nat)                      -- remove_interactive(user t)
  | ecmd (t : Nat) (text : List Char)   -- t->force(text): command(text) in t
  | gc                                  -- get_char("got_char")
  | it                                  -- input_to("got_line")
  | err                                 -- error("c12-throw"): an uncaught LPC error, longjmp to the top of backend()
  | exec                                -- exec(new body, current body of this user): the connection moves to another object
  deriving Repr, BEq, DecidableEq

/-- harness actions (case lines) -/
inductive Cmd where
  | conn
  | send (u : Nat) (data : List Char)   -- `~` stands for CR LF
  | close (u : Nat)
  | cycle
  deriving Repr, BEq, DecidableEq

/-- oracle: the script user `u` runs when it executes command `text` -/
abbrev Scripts := Nat → List Char → List Op

/-- observable events; `render` (Drive.lean) turns them into the canonical trace lines of the harness -/
inductive Ev where
  | conn (u : Nat)
  | begin (n : Nat)
  | poll (n : Nat) (block : Bool)
  | logon (u : Nat)
  | send (u : Nat) (data : List Char)
  | close (u : Nat)
  | cmd (u : Nat) (text : List Char)
  | ecmd (u : Nat) (text : List Char)
  | kick (actor target : Nat) (ok : Bool)
  | drop (actor target : Nat) (ok : Bool)
  | force (actor target : Nat) (text : List Char) (ok : Bool)
  | gc (u : Nat) (r : Bool)
  | it (u : Nat) (r : Bool)
  | endc (n : Nat) (max : Nat) (layout : List (Nat × Nat × Nat))   -- (slot, user, masked iflags)
  | err (u : Nat)                    -- the script of user `u` raises an uncaught LPC error
  | exec (u : Nat) (r : Bool)        -- exec() moved the interactive of user `u` to a fresh object (r = it had one)
  | abort (n : Nat)                  -- iteration `n` of backend() was left by longjmp (no heart beat, no hook): the loop restarts
  | crash (what : String)
  | other (line : String)            -- only produced by the trace parser: a line that is no event
  deriving Repr, BEq, DecidableEq

/-- finite map with a default (a data structure: compiled closures chains would be re-evaluated) -/
abbrev AMap (α : Type) := List (Nat × α)

def AMap.get {α : Type} [Inhabited α] : AMap α → Nat → α
  | [], _ => default
  | (k, v) :: r, i => if i = k then v else AMap.get r i

def upd {α : Type} (m : AMap α) (k : Nat) (v : α) : AMap α := (k, v) :: m.filter (fun e => e.1 != k)

/-- the modelled part of `interactive_t` -/
structure U where
  turn : Bool := false       -- HAS_CMD_TURN
  cmdInBuf : Bool := false   -- CMD_IN_BUF
  single : Bool := false     -- SINGLE_CHAR
  inputTo : Bool := false    -- ip->input_to != 0
  buf : List Char := []      -- text[text_start .. text_end)
  deriving Repr, BEq, DecidableEq, Inhabited

/-- the masked value of `ip->iflags` printed by the harness -/
def U.iflags (u : U) : Nat :=
  (if u.turn then NV.Gen.C12.hasCmdTurn else 0) + (if u.cmdInBuf then NV.Gen.C12.cmdInBuf else 0)
    + (if u.single then NV.Gen.C12.singleChar else 0)

/-- client side of one connection -/
structure Net where
  rx : List Char := []       -- sent by the client, not yet read by the driver
  eof : Bool := false        -- the client has closed its socket
  deriving Repr, BEq, DecidableEq, Inhabited

structure World where
  slots : List (Option Nat) := []     -- all_users[0 .. max_users)
  users : AMap U := []                -- the interactive_t of user k
  cursor : Nat := 0                   -- static s_next_user
  dead : List Nat := []               -- destructed user objects
  net : AMap Net := []
  nconn : Nat := 0                    -- clients that have connected
  naccepted : Nat := 0                -- connections accepted so far (users are numbered in accept order)
  cycle : Nat := 0
  crashed : Bool := false
  thrown : Bool := false              -- an uncaught LPC error is unwinding to `setjmp (econ.context)` in backend()
  overflow : Bool := false            -- get_user_data met a text buffer short of room (read held back / line discarded); sticky

def World.maxUsers (w : World) : Nat := w.slots.length
/-- the user object exists (created when the connection was accepted) and was not destructed -/
def World.alive (w : World) (u : Nat) : Bool := u ≥ 1 && u ≤ w.naccepted && !w.dead.contains u
def World.interactive (w : World) (u : Nat) : Bool := w.slots.contains (some u)

/-! ### the text buffer -/

def dropNul (b : List Char) : List Char := b.dropWhile (· == NUL)

/-- first_cmd_in_buf: new buffer (leading NULs skipped) and the raw command, if one is complete -/
def firstCmd (single : Bool) (b : List Char) : List Char × Option (List Char) :=
  let b' := dropNul b
  if b'.isEmpty then ([], none)
  else if single then (b', some (b'.takeWhile (· != NUL)))
  else if b'.contains NUL then (b', some (b'.takeWhile (· != NUL)))
  else (b', none)

/-- cmd_in_buf -/
def hasCmd (single : Bool) (b : List Char) : Bool := (firstCmd single b).2.isSome

/-- next_cmd_in_buf (called with text_start at the command found by first_cmd_in_buf) -/
def nextCmd (b : List Char) : List Char := dropNul (b.dropWhile (· != NUL))

/-- telnet_neg as applied to a command: backspace / delete editing -/
def telnetNeg (t : List Char) : List Char :=
  t.foldl (fun acc c => if c == BS || c == DEL then acc.dropLast else acc ++ [c]) []

/-- copy_chars in state TS_DATA for the bytes the harness sends (`~` = CR LF sent together) -/
def copyChars (single : Bool) (data : List Char) : List Char :=
  data.flatMap (fun c => if c == '~' then (if single then [CR, LF] else [' ', BS, NUL]) else [c])

/-- reframe_single_char_input: text that arrived in single-char mode (raw CR LF) gets the line-mode framing when the
    mode ends; a lone CR is dropped -/
def reframeAux : Bool → List Char → List Char
  | _, [] => []
  | true, c :: r =>
    if c == LF then ' ' :: BS :: NUL :: reframeAux false r
    else if c == CR then reframeAux true r
    else c :: reframeAux false r
  | false, c :: r => if c == CR then reframeAux true r else c :: reframeAux false r

def reframe (b : List Char) : List Char := reframeAux false b

/-! ### connection table -/

def removeUser (slots : List (Option Nat)) (u : Nat) : List (Option Nat) :=
  slots.map (fun s => if s == some u then none else s)

/-- `for (i = 1; i < max_users; i++) if (!all_users[i]) break;` (the start index is regenerated: `Gen.firstUserSlot`) -/
def newSlot (slots : List (Option Nat)) : Nat :=
  go (slots.drop NV.Gen.C12.firstUserSlot) NV.Gen.C12.firstUserSlot
where
  go : List (Option Nat) → Nat → Nat
    | [], i => i
    | none :: _, i => i
    | some _ :: r, i => go r (i + 1)

/-- new_interactive + mudlib_connect + logon for user `k` -/
def accept (w : World) (k : Nat) : World :=
  let i := newSlot w.slots
  let slots := if i ≥ w.slots.length then w.slots ++ List.replicate growBy none else w.slots
  { w with slots := slots.set i (some k), users := upd w.users k {}, naccepted := k }

/-- bytes on the wire (`~` = CR LF) -/
def rawLen (d : List Char) : Nat := d.length + d.count '~'

/-- the most a client may have unread when backend polls: `MAX_TEXT / 16` bytes, the least get_user_data ever asks
    recv() for - so one read always takes everything (harness discipline, enforced by harness and model alike) -/
def recvChunk : Nat := NV.Gen.C12.maxText / NV.Gen.C12.compactDiv

/-- what get_user_data decides before it reads -/
inductive RoomAct where
  | read      -- recv() is called
  | discard   -- the pending text is thrown away first, then recv()
  | hold      -- nothing is read: the data stays in the socket
  deriving Repr, BEq, DecidableEq

/-- the room rule of get_user_data (PORT_TELNET, readiness model) as a function of `text_start`, the pending length
    `text_end - text_start` and `cmd_in_buf (ip)`: `(new text_start, action, space asked from recv)` - mirrors the C code -/
def cSpaceRule (start len : Nat) (cmdInBuf : Bool) : Nat × RoomAct × Nat :=
  let space := (NV.Gen.C12.maxText - (start + len) - 1) / NV.Gen.C12.spaceDiv
  if space < NV.Gen.C12.maxText / NV.Gen.C12.compactDiv then
    let space1 := (NV.Gen.C12.maxText - len - 1) / NV.Gen.C12.spaceDiv
    if space1 < NV.Gen.C12.maxText / NV.Gen.C12.compactDiv && cmdInBuf then (start, .hold, 0)
    else if space1 < NV.Gen.C12.maxText / NV.Gen.C12.compactDiv then
      (0, .discard, NV.Gen.C12.maxText / NV.Gen.C12.discardSpaceDiv)
    else (0, .read, space1)
  else (start, .read, space)

/-- the pending text alone leaves less than `MAX_TEXT / 16` room: the read is held back when a complete command is
    buffered, an unfinished over-long line is discarded otherwise (`cSpaceRule_spec`, Lemmas.lean: `text_start` does not
    matter) -/
def roomShort (len : Nat) : Bool :=
  (NV.Gen.C12.maxText - len - 1) / NV.Gen.C12.spaceDiv < NV.Gen.C12.maxText / NV.Gen.C12.compactDiv

/-- get_user_data holds the read back: there is an event for the user (data or EOF), the pending text leaves less than
    `MAX_TEXT / 16` room and contains a complete command (`cmd_in_buf`) - the new data stays in the socket until some
    of the commands typed ahead have been executed (CMD_IN_BUF is set: backend() does not wait meanwhile) -/
def heldBack (w : World) (u : Nat) : Bool :=
  (!(w.net.get u).rx.isEmpty || (w.net.get u).eof) && roomShort (w.users.get u).buf.length &&
    hasCmd (w.users.get u).single (w.users.get u).buf

/-- get_user_data / EOF handling for one user with a poll event, when the read is not held back -/
def userIO0 (w : World) (u : Nat) : World :=
  let nt := w.net.get u
  if !nt.rx.isEmpty then
    let us := w.users.get u
    -- "almost 2k of data without a newline": an unfinished over-long line is thrown away
    let b := (if roomShort us.buf.length then [] else us.buf) ++ copyChars us.single nt.rx
    { w with users := upd w.users u { us with buf := b, cmdInBuf := us.cmdInBuf || hasCmd us.single b },
             net := upd w.net u { nt with rx := [] }, overflow := w.overflow || roomShort us.buf.length }
  else if nt.eof then { w with slots := removeUser w.slots u }
  else w

/-- get_user_data / EOF handling for one user with a poll event.  `overflow` (sticky) records that the pending text
    of some user was short of room at a read: the read was held back, or an unfinished over-long line was discarded -/
def userIO (w : World) (u : Nat) : World :=
  if heldBack w u then
    { w with users := upd w.users u { w.users.get u with cmdInBuf := true }, overflow := true }
  else userIO0 w u

/-- process_io -/
def processIO (w : World) : World × List Ev :=
  let (w1, e1) := if w.naccepted < w.nconn then (accept w (w.naccepted + 1), [Ev.logon (w.naccepted + 1)]) else (w, [])
  ((w.slots.filterMap id).foldl userIO w1, e1)

/-! ### turn grant -/

def grantAll (users : AMap U) : List (Option Nat) → AMap U
  | [] => users
  | none :: r => grantAll users r
  | some u :: r =>
    if NV.Gen.C12.grantCond true then grantAll (upd users u { users.get u with turn := true }) r
    else grantAll users r

def connectedUsers (w : World) : Nat := (w.slots.filter (fun s => NV.Gen.C12.countCond s.isSome)).length

def hasPending (w : World) : Bool :=
  w.slots.any (fun s => match s with | some u => (w.users.get u).cmdInBuf | none => false)

/-- backend asks the poller to block: `timeout.tv_sec` (regenerated) is not zero; the heart-beat flag is off in the
    harness (timer flags cleared) -/
def pollBlocks (pending : Bool) : Bool := NV.Gen.C12.pollTimeout false pending != 0

/-! ### get_user_command -/

/-- `if (s_next_user-- == 0) s_next_user = max_users - 1;` - the expression is regenerated from the source
    (`Gen.cursorNext`, see `Lemmas.cursorNext_spec`) -/
def decCursor (w : World) : World :=
  { w with cursor := NV.Gen.C12.cursorNext w.cursor w.slots.length }

/-- outcome of one iteration of the `for (i = 0; i < max_users; i++)` loop of get_user_command -/
inductive ScanRes where
  | crash                                             -- all_users[s_next_user] outside the table
  | found (w : World) (u : Nat) (t : List Char)        -- `break`: turn consumed, cursor NOT moved
  | next (w : World)                                   -- go on with the next slot

/-- the body of the loop for the slot under the cursor -/
def scanStep (w : World) : ScanRes :=
  match w.slots[w.cursor]? with
  | none => .crash
  | some none => .next w
  | some (some u) =>
    let us := w.users.get u
    if us.cmdInBuf then
      let r := firstCmd us.single us.buf
      match r.2 with
      | some t =>
        if us.turn then .found { w with users := upd w.users u { us with buf := r.1, turn := false } } u t
        else .next { w with users := upd w.users u { us with buf := r.1 } }
      | none => .next { w with users := upd w.users u { us with buf := r.1, cmdInBuf := false } }
    else .next w

/-- the loop with `n` iterations left -/
def scan : Nat → World → World × Option (Nat × List Char)
  | 0, w => (w, none)
  | n + 1, w =>
    match scanStep w with
    | .crash => ({ w with crashed := true }, none)
    | .found w' u t => (w', some (u, t))
    | .next w' => scan n (decCursor w')

/-- get_user_command: the user served and the command text handed to the mudlib -/
def getUserCommand (w : World) : World × Option (Nat × List Char) :=
  match scan (NV.Gen.C12.scanLength w.slots.length) w with
  | (w1, none) => (w1, none)
  | (w1, some (u, t)) =>
    let us := w1.users.get u
    let b := nextCmd us.buf
    let w2 := { w1 with users := upd w1.users u { us with buf := b, cmdInBuf := us.cmdInBuf && hasCmd us.single b } }
    (decCursor w2, some (u, telnetNeg t))

/-! ### command execution (oracle scripts) -/

/-- set_call: input_to (single = false) or get_char (single = true) for user `me` -/
def setCall (w : World) (me : Nat) (single : Bool) : World × Bool :=
  let us := w.users.get me
  if !w.alive me || !w.interactive me || us.inputTo then (w, false)
  else
    let us1 := { us with inputTo := true, single := us.single || single }
    let us2 := if single then { us1 with cmdInBuf := us1.cmdInBuf || hasCmd us1.single us1.buf } else us1
    ({ w with users := upd w.users me us2 }, true)

/-- run the ops of a script in object `me` (which is also command_giver) -/
def runOps (sc : Scripts) : Nat → World → Nat → List Op → World × List Ev
  | 0, w, _, _ => (w, [])
  | _ + 1, w, _, [] => (w, [])
  | f + 1, w, me, op :: rest =>
    let (w1, e1) : World × List Ev :=
      match op with
      | .kick t =>
        let ok := w.alive t
        (if ok then { w with slots := removeUser w.slots t, dead := t :: w.dead } else w, [Ev.kick me t ok])
      | .drop t =>
        let ok := w.alive t && w.interactive t
        (if ok then { w with slots := removeUser w.slots t } else w, [Ev.drop me t ok])
      | .ecmd t text =>
        let ok := w.alive t
        if ok then
          let (w', e') := runOps sc f w t (sc t text)
          (w', Ev.force me t text true :: Ev.ecmd t text :: e')
        else (w, [Ev.force me t text false])
      | .gc => let (w', r) := setCall w me true; (w', [Ev.gc me r])
      | .it => let (w', r) := setCall w me false; (w', [Ev.it me r])
      | .err => ({ w with thrown := true }, [Ev.err me])
      -- replace_interactive: the interactive_t (slot, iflags, text buffer) is handed to the new object untouched
      | .exec => (w, [Ev.exec me (w.alive me && w.interactive me)])
    if w1.thrown then (w1, e1)        -- the error unwinds every frame: nothing after it runs
    else if w1.alive me then
      let (w2, e2) := runOps sc f w1 me rest
      (w2, e1 ++ e2)
    else (w1, e1)

/-- fuel for scripts (the real limit is the evaluation cost) -/
def scriptFuel : Nat := 100000

/-- call_function_interactive on the record of the user: the pending input_to / get_char is consumed; when
    single-char mode was on it ends and the buffered text is reframed (and flagged if that completes a command) -/
def endInput (us : U) : U :=
  if us.single then
    { us with inputTo := false, single := false, buf := reframe us.buf,
              cmdInBuf := us.cmdInBuf || hasCmd false (reframe us.buf) }
  else { us with inputTo := false }

/-- process_user_command: `true` = a command was processed -/
def processUserCommand (sc : Scripts) (w : World) : World × List Ev × Bool :=
  if w.crashed || w.thrown then (w, [], false) else    -- (thrown: the loop of backend() was left by the longjmp)
  match getUserCommand w with
  | (w1, none) => (w1, [], false)
  | (w1, some (u, text)) =>
    let us := w1.users.get u
    -- call_function_interactive: the pending input_to/get_char is consumed, single-char mode ends
    let w2 := if us.inputTo then { w1 with users := upd w1.users u (endInput us) } else w1
    let (w3, e3) := runOps sc scriptFuel w2 u (sc u text)
    (w3, Ev.cmd u text :: e3, true)

/-- `for (i = 0; process_user_command () && i < connected_users; i++);` with `k` calls still allowed
    (`k = connected_users + 1` initially) -/
def cmdLoop (sc : Scripts) : Nat → World → World × List Ev
  | 0, w => (w, [])
  | k + 1, w =>
    match processUserCommand sc w with
    | (w1, e1, true) => let (w2, e2) := cmdLoop sc k w1; (w2, e1 ++ e2)
    | (w1, e1, false) => (w1, e1)

def layout (w : World) : List (Nat × Nat × Nat) :=
  (w.slots.zipIdx.filterMap (fun (s, i) => s.map (fun u => (i, u, (w.users.get u).iflags))))

/-- one iteration of the `while (1)` loop of backend() -/
def cycleStep (sc : Scripts) (w : World) : World × List Ev :=
  let n := w.cycle + 1
  let cu := connectedUsers w
  let pending := hasPending w
  let w1 := { w with cycle := n, users := grantAll w.users w.slots }
  let (w2, e2) := processIO w1
  let (w3, e3) := cmdLoop sc (NV.Gen.C12.loopCalls cu w.maxUsers) w2
  (w3, [Ev.begin n, Ev.poll n (pollBlocks pending)] ++ e2 ++ e3 ++
        (if w3.crashed then [Ev.crash "all_users[s_next_user] out of range"]
         else if w3.thrown then [Ev.abort n] else [Ev.endc n w3.maxUsers (layout w3)]))

/-! ### uncaught errors: the aborted iteration and the restart of the loop

An LPC error that no `catch` handles leaves process_user_command() by `longjmp` to `setjmp (econ.context)` in backend():
the rest of the iteration (remaining commands, heart beat, the verification hook) is skipped and the `while (1)` loop
starts its next iteration at once - turns are granted again to everybody, poll, process_io, command loop.  The static
cursor keeps its value (it was already stepped past the user whose command threw), the thrown command stays consumed.
The harness sees the restart through the second poll of one hook period.

Every aborted iteration has served a buffered command, which strictly lowers `weight` (Lemmas4.lean), so
`weight w + 1` iterations always suffice; running out of this fuel is the explicit outcome `crash`. -/

/-- weighted size of buffered text: CR and LF count twice (reframing CR LF yields three bytes) -/
def wlen (b : List Char) : Nat := (b.map (fun c => if c == CR || c == LF then 2 else 1)).sum

def usersWeight (m : AMap U) : Nat := (m.map (fun e => wlen e.2.buf)).sum
def netWeight (m : AMap Net) : Nat := (m.map (fun e => 4 * e.2.rx.length)).sum

/-- bytes that can still become commands: buffered text and unread client data (at most 4 weight units per byte) -/
def weight (w : World) : Nat := usersWeight w.users + netWeight w.net

/-- the iterations of backend() between two hook calls: restart after every aborted one -/
def cycleRun (sc : Scripts) : Nat → World → World × List Ev
  | 0, w => ({ w with crashed := true }, [Ev.crash "restart bound of the model exhausted"])
  | f + 1, w =>
    match cycleStep sc w with
    | (w1, e1) =>
      if w1.thrown then
        let (w2, e2) := cycleRun sc f { w1 with thrown := false }
        (w2, e1 ++ e2)
      else (w1, e1)

/-- users of the table whose descriptor is ready for the next poll round (unread data or a closed client) -/
def readyUsers (w : World) : List Nat :=
  (w.slots.filterMap id).filter (fun u => !(w.net.get u).rx.isEmpty || (w.net.get u).eof)

/-- the poller hands out at most `MAX_EVENTS` events per round (lib/async/async_runtime_epoll.c); two are kept for
    the listening port and the wake-up descriptor.  Harness discipline (harness and model alike): never more ready
    descriptors than that, so one process_io sees every ready user -/
def readyMax : Nat := NV.Gen.C12.maxEvents - 2

def roundRoom (w : World) (u : Nat) : Bool :=
  !(w.net.get u).rx.isEmpty || (w.net.get u).eof || decide ((readyUsers w).length < readyMax)

/-- one harness action -/
def step (sc : Scripts) (w : World) (c : Cmd) : World × List Ev :=
  if w.crashed then (w, []) else
  match c with
  | .conn => ({ w with nconn := w.nconn + 1 }, [Ev.conn (w.nconn + 1)])
  | .send u data =>
    if u ≥ 1 && u ≤ w.naccepted && !(w.net.get u).eof && w.interactive u &&
        rawLen ((w.net.get u).rx ++ data) ≤ recvChunk && roundRoom w u && !data.contains '!' then   -- (`!` escapes: not modelled)
      ({ w with net := upd w.net u { w.net.get u with rx := (w.net.get u).rx ++ data } }, [Ev.send u data])
    else (w, [])
  | .close u =>
    if u ≥ 1 && u ≤ w.naccepted && !(w.net.get u).eof && roundRoom w u then
      ({ w with net := upd w.net u { w.net.get u with eof := true } }, if w.interactive u then [Ev.close u] else [])
    else (w, [])
  | .cycle => cycleRun sc (weight w + 1) w

def run (sc : Scripts) : World → List Cmd → World × List Ev
  | w, [] => (w, [])
  | w, c :: cs =>
    let (w1, e1) := step sc w c
    let (w2, e2) := run sc w1 cs
    (w2, e1 ++ e2)

def events (sc : Scripts) (cs : List Cmd) : List Ev := (run sc {} cs).2

end NV.C12
