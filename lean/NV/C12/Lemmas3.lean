/-
C12 — completeness of the command phase: process_user_command either serves somebody and uses up a turn held inside
the table, or proves that nobody in the table is eligible; the bounded loop therefore ends with nobody eligible, and
whoever was eligible when it started was served or left the table.
-/
import NV.C12.Lemmas2

namespace NV.C12

theorem elig_congr (w w' : World) (u : Nat) (hs : w'.slots = w.slots) (hr : ready w' u = ready w u) :
    elig w' u = elig w u := by
  simp only [elig, World.interactive, hs, hr]

/-- while an uncaught error unwinds, process_user_command is not called any more (the loop was left by longjmp) -/
theorem puc_thrown (sc : Scripts) (w : World) (h : w.thrown = true) : processUserCommand sc w = (w, [], false) := by
  simp [processUserCommand, h]

theorem cmdLoop_thrown (sc : Scripts) (k : Nat) (w : World) (h : w.thrown = true) : cmdLoop sc k w = (w, []) := by
  cases k with
  | zero => rfl
  | succ k => simp [cmdLoop, puc_thrown sc w h]

/-- a command loop that ends without a pending error started without one -/
theorem cmdLoop_thrown_false (sc : Scripts) (k : Nat) (w : World) (h : (cmdLoop sc k w).1.thrown = false) :
    w.thrown = false := by
  cases ht : w.thrown with
  | false => rfl
  | true => rw [cmdLoop_thrown sc k w ht] at h; rw [ht] at h; exact h

/-- a call that reports "no more commands" proves that nobody in the table is eligible (before and after it) -/
theorem puc_false (sc : Scripts) (w : World) (hs : Safe w) (h : (processUserCommand sc w).2.2 = false) :
    (processUserCommand sc w).1.slots = w.slots ∧
      (w.thrown = false → ∀ u, elig w u = false ∧ elig (processUserCommand sc w).1 u = false) := by
  cases hthr : w.thrown with
  | true => rw [puc_thrown sc w hthr]; exact ⟨rfl, fun hh => by cases hh⟩
  | false =>
  have hsl := getUserCommand_slots w hs
  have hnone := getUserCommand_none w hs
  unfold processUserCommand at h ⊢
  rw [hs.1, hthr] at h ⊢
  simp only [Bool.or_self, Bool.false_eq_true, if_false] at h ⊢
  cases hg : getUserCommand w with
  | mk w1 r =>
    rw [hg] at h hsl hnone
    cases r with
    | some p => obtain ⟨u, t⟩ := p; simp at h
    | none =>
      dsimp only at hsl hnone ⊢
      obtain ⟨n1, n2⟩ := hnone rfl
      refine ⟨hsl, fun _ u => ⟨?_, n1 u⟩⟩
      rw [← elig_congr w w1 u hsl (n2 u)]; exact n1 u

/-- a call that serves user `v`: nobody enters the table, every other ready user stays ready, and the number of
    turns held inside the table drops -/
theorem puc_true (sc : Scripts) (w : World) (hs : Safe w) (v : Nat) (t : List Char) (rest : List Ev)
    (h : (processUserCommand sc w).2.1 = Ev.cmd v t :: rest) :
    (∀ u, w.interactive u = false → (processUserCommand sc w).1.interactive u = false) ∧
    (∀ u, u ≠ v → ready w u = true → ready (processUserCommand sc w).1 u = true) ∧
    turnCount (processUserCommand sc w).1 < turnCount w := by
  have hthr : w.thrown = false := by
    cases hthr : w.thrown with
    | false => rfl
    | true => rw [puc_thrown sc w hthr] at h; cases h
  have hsl := getUserCommand_slots w hs
  obtain ⟨_, _, g3, g4⟩ := getUserCommand_spec w hs
  have gsome := getUserCommand_some w hs
  unfold processUserCommand at h ⊢
  rw [hs.1, hthr] at h ⊢
  simp only [Bool.or_self, Bool.false_eq_true, if_false] at h ⊢
  cases hg : getUserCommand w with
  | mk w1 r =>
    rw [hg] at h hsl g3 g4 gsome
    cases r with
    | none => simp at h
    | some p =>
      obtain ⟨u, text⟩ := p
      dsimp only at h hsl g3 g4 gsome ⊢
      simp only [List.cons.injEq, Ev.cmd.injEq] at h
      obtain ⟨⟨hu, _⟩, _⟩ := h
      subst hu
      obtain ⟨hint, hready⟩ := gsome u text rfl
      have hturn_u : turnOf w u = true := g4 u text rfl
      -- the input_to bookkeeping
      generalize hw2 : (if (w1.users.get u).inputTo then
          { w1 with users := upd w1.users u (endInput (w1.users.get u)) } else w1) = w2
      have h2s : w2.slots = w1.slots := by rw [← hw2]; split <;> rfl
      have h2t : ∀ x, turnOf w2 x = turnOf w1 x := by
        intro x; rw [← hw2]; split
        · simp only [turnOf, get_upd]; split
          · rename_i hx; subst hx; exact endInput_turn _
          · rfl
        · rfl
      have h2r : ∀ x, x ≠ u → ready w2 x = ready w1 x := by
        intro x hx; rw [← hw2]; split
        · simp [ready, turnOf, hx]
        · rfl
      obtain ⟨k1, k2⟩ := runOps_keeps sc scriptFuel w2 u (sc u text)
      obtain ⟨f1, _⟩ := runOps_frame sc scriptFuel w2 u (sc u text)
      refine ⟨?_, ?_, ?_⟩
      · intro x hx
        apply k1
        simpa [World.interactive, h2s, hsl] using hx
      · intro x hx hr
        apply k2
        rw [h2r x hx, hready x hx]; exact hr
      · -- turns
        have hfun : ∀ a, holdsTurn (runOps sc scriptFuel w2 u (sc u text)).1 a = holdsTurn w1 a := by
          intro a; cases a with
          | none => rfl
          | some x => simp only [holdsTurn]; rw [f1.2.2.2 x, h2t x]
        have h1 : turnCount (runOps sc scriptFuel w2 u (sc u text)).1 =
            (runOps sc scriptFuel w2 u (sc u text)).1.slots.countP (holdsTurn w1) := by
          unfold turnCount
          exact List.countP_congr (fun a _ => by rw [hfun a])
        have h2 : (runOps sc scriptFuel w2 u (sc u text)).1.slots.countP (holdsTurn w1) ≤ w2.slots.countP (holdsTurn w1) :=
          runOps_countP_le (holdsTurn w1) rfl sc scriptFuel w2 u (sc u text)
        have h3 : w.slots.countP (holdsTurn w1) < w.slots.countP (holdsTurn w) := by
          apply countP_lt_of_mem (holdsTurn w1) (holdsTurn w) w.slots _ (some u)
          · simpa [World.interactive] using hint
          · simpa [holdsTurn] using hturn_u
          · simp [holdsTurn, g3 u]
          · intro a ha
            cases a with
            | none => simp [holdsTurn] at ha
            | some x =>
              simp only [holdsTurn] at ha ⊢
              rw [g3 x] at ha
              split at ha
              · cases ha
              · exact ha
        rw [h1]
        rw [h2s, hsl] at h2
        unfold turnCount
        omega

/-- once out of the table, out for the rest of the command phase -/
theorem cmdLoop_not_interactive (sc : Scripts) (k : Nat) (w : World) (hs : Safe w) (u : Nat)
    (h : w.interactive u = false) : (cmdLoop sc k w).1.interactive u = false := by
  induction k generalizing w with
  | zero => simpa [cmdLoop] using h
  | succ k ih =>
    obtain ⟨p1, _, _, p4⟩ := processUserCommand_spec sc w hs
    have pf := puc_false sc w hs
    have pt := puc_true sc w hs
    unfold cmdLoop
    cases hp : processUserCommand sc w with
    | mk w1 r =>
      obtain ⟨e1, b⟩ := r
      rw [hp] at p1 p4 pf pt
      dsimp only at p1 p4 pf pt
      cases b with
      | false =>
        dsimp only
        obtain ⟨s1, _⟩ := pf rfl
        simpa [World.interactive, s1] using h
      | true =>
        dsimp only
        obtain ⟨v, t, rest, q1, _⟩ := p4 rfl
        exact ih w1 p1 ((pt v t rest q1).1 u h)

/-- **the command loop is complete**: with fewer turns inside the table than calls allowed, the loop ends because a
    call found nobody eligible - never because of the bound -/
theorem cmdLoop_complete (sc : Scripts) (k : Nat) (w : World) (hs : Safe w) (hk : turnCount w < k)
    (hfin : (cmdLoop sc k w).1.thrown = false) :
    ∀ u, elig (cmdLoop sc k w).1 u = false := by
  induction k generalizing w with
  | zero => omega
  | succ k ih =>
    have hthr := cmdLoop_thrown_false sc _ w hfin
    obtain ⟨p1, _, _, p4⟩ := processUserCommand_spec sc w hs
    have pf := puc_false sc w hs
    have pt := puc_true sc w hs
    revert hfin
    unfold cmdLoop
    cases hp : processUserCommand sc w with
    | mk w1 r =>
      obtain ⟨e1, b⟩ := r
      rw [hp] at p1 p4 pf pt
      dsimp only at p1 p4 pf pt
      cases b with
      | false => dsimp only; intro _; exact fun u => ((pf rfl).2 hthr u).2
      | true =>
        dsimp only
        intro hfin
        obtain ⟨v, t, rest, q1, _⟩ := p4 rfl
        have := (pt v t rest q1).2.2
        exact ih w1 p1 (by omega) hfin

/-- **nobody eligible is passed over**: a user eligible when the loop starts is served exactly once in it, or has
    left the table when it ends -/
theorem cmdLoop_serves (sc : Scripts) (k : Nat) (w : World) (hs : Safe w) (hk : turnCount w < k) (u : Nat)
    (he : elig w u = true) (hfin : (cmdLoop sc k w).1.thrown = false) :
    cmdCount u (cmdLoop sc k w).2 = 1 ∨ (cmdLoop sc k w).1.interactive u = false := by
  induction k generalizing w with
  | zero => omega
  | succ k ih =>
    have hthr := cmdLoop_thrown_false sc _ w hfin
    have hle := (cmdLoop_spec sc (k + 1) w hs).2.2.1 u
    have hle1 : cmdCount u (cmdLoop sc (k + 1) w).2 ≤ 1 := by
      split at hle <;> omega
    obtain ⟨p1, _, _, p4⟩ := processUserCommand_spec sc w hs
    have pf := puc_false sc w hs
    have pt := puc_true sc w hs
    revert hfin
    unfold cmdLoop at hle1 ⊢
    cases hp : processUserCommand sc w with
    | mk w1 r =>
      obtain ⟨e1, b⟩ := r
      rw [hp] at p1 p4 pf pt hle1
      dsimp only at p1 p4 pf pt hle1
      cases b with
      | false =>
        have := ((pf rfl).2 hthr u).1
        rw [he] at this; cases this
      | true =>
        dsimp only at hle1 ⊢
        intro hfin
        obtain ⟨v, t, rest, q1, q2, _⟩ := p4 rfl
        obtain ⟨t1, t2, t3⟩ := pt v t rest q1
        by_cases hv : u = v
        · subst hv
          left
          rw [cmdCount_append] at hle1 ⊢
          have : 1 ≤ cmdCount u e1 := by
            rw [q1]; simp [cmdCount, List.countP_cons, Ev.isCmdOf]
          omega
        · simp only [elig, Bool.and_eq_true] at he
          obtain ⟨hi, hr⟩ := he
          have hr1 := t2 u hv hr
          cases hi1 : w1.interactive u with
          | false => right; exact cmdLoop_not_interactive sc k w1 p1 u hi1
          | true =>
            have he1 : elig w1 u = true := by simp [elig, hi1, hr1]
            rcases ih w1 p1 (by omega) he1 hfin with h | h
            · left
              rw [cmdCount_append, h]
              have : cmdCount u e1 = 0 := by
                rw [q1]
                have hz := cmdCount_zero_of_none u rest (q2 u)
                simp only [cmdCount] at hz
                have : Ev.isCmdOf u (Ev.cmd v t) = false := by simp [Ev.isCmdOf]; exact fun h => hv h.symm
                simp [cmdCount, List.countP_cons, this, hz]
              omega
            · right; exact h


/-! ### turns inside the table when the command phase starts -/

theorem turnCount_le_connected (w : World) : turnCount w ≤ connectedUsers w := by
  unfold turnCount connectedUsers
  rw [← List.countP_eq_length_filter]
  apply List.countP_mono_left
  intro a _ ha
  cases a with
  | none => simp [holdsTurn] at ha
  | some x => rfl

theorem countP_set_le (p : Option Nat → Bool) (a : Option Nat) (hp : p a = false) (l : List (Option Nat)) (i : Nat) :
    (l.set i a).countP p ≤ l.countP p := by
  induction l generalizing i with
  | nil => simp
  | cons b r ih =>
    cases i with
    | zero => simp only [List.set_cons_zero, List.countP_cons, hp, Bool.false_eq_true, if_false]; split <;> omega
    | succ i => simp only [List.set_cons_succ, List.countP_cons]; have := ih i; omega

theorem accept_turnCount (w : World) (k : Nat) : turnCount (accept w k) ≤ turnCount w := by
  have hk : holdsTurn (accept w k) (some k) = false := by simp [holdsTurn, turnOf, accept]
  have hmono : ∀ l : List (Option Nat), l.countP (holdsTurn (accept w k)) ≤ l.countP (holdsTurn w) := by
    intro l
    apply List.countP_mono_left
    intro a _ ha
    cases a with
    | none => simp [holdsTurn] at ha
    | some x =>
      simp only [holdsTurn, turnOf, accept, get_upd] at ha ⊢
      split at ha
      · cases ha
      · exact ha
  have hslots : ∃ base : List (Option Nat), (accept w k).slots = base.set (newSlot w.slots) (some k) ∧
      base.countP (holdsTurn w) = w.slots.countP (holdsTurn w) := by
    refine ⟨if newSlot w.slots ≥ w.slots.length then w.slots ++ List.replicate growBy none else w.slots, rfl, ?_⟩
    split
    · simp [List.countP_append, List.countP_replicate, holdsTurn]
    · rfl
  obtain ⟨base, hb1, hb2⟩ := hslots
  unfold turnCount
  rw [hb1]
  refine Nat.le_trans (countP_set_le _ (some k) hk _ _) ?_
  rw [← hb2]
  exact hmono base

theorem userIO_turnCount (w : World) (u : Nat) : turnCount (userIO w u) ≤ turnCount w := by
  unfold userIO
  split
  · unfold turnCount
    apply Nat.le_of_eq
    apply List.countP_congr
    intro a _
    cases a with
    | none => rfl
    | some x =>
      simp only [holdsTurn, turnOf, get_upd]
      split
      · rename_i hx; subst hx; rfl
      · rfl
  unfold userIO0
  dsimp only
  split
  · unfold turnCount
    apply Nat.le_of_eq
    apply List.countP_congr
    intro a _
    cases a with
    | none => rfl
    | some x =>
      simp only [holdsTurn, turnOf, get_upd]
      split
      · rename_i hx; subst hx; rfl
      · rfl
  · split
    · unfold turnCount
      have : ∀ a, holdsTurn { w with slots := removeUser w.slots u } a = holdsTurn w a := by
        intro a; cases a <;> rfl
      rw [List.countP_congr (fun a _ => by rw [this a])]
      exact countP_removeUser_le (holdsTurn w) rfl w.slots u
    · exact Nat.le_refl _

theorem processIO_turnCount (w : World) : turnCount (processIO w).1 ≤ turnCount w := by
  have key : ∀ (l : List Nat) (a : World), turnCount (l.foldl userIO a) ≤ turnCount a := by
    intro l
    induction l with
    | nil => intro a; exact Nat.le_refl _
    | cons u r ih => intro a; exact Nat.le_trans (ih _) (userIO_turnCount a u)
  unfold processIO
  dsimp only
  refine Nat.le_trans (key _ _) ?_
  split
  · exact accept_turnCount w _
  · exact Nat.le_refl _

end NV.C12
