/-
C12 — towards `judgeLive (events ..) = []`, part 3: frame facts of a whole iteration (sockets, accept counter, turns),
"the oracle says complete => cmd_in_buf() says yes", and the two cycle-level facts the clauses need:
  * `blocker_pending`  (clause `idleWait`): a live user whose complete command was already buffered makes
                        `has_pending_commands` true, so backend does not block;
  * `eligible_start`   (clause `starved`): a live user with a complete command (buffered or still in the socket) when
                        the iteration starts is eligible when its command phase starts.
-/
import NV.C12.Live2

namespace NV.C12

/-! ### frame: sockets and accept counter -/

theorem runOps_net (sc : Scripts) (f : Nat) (w : World) (me : Nat) (ops : List Op) :
    (runOps sc f w me ops).1.net = w.net ∧ (runOps sc f w me ops).1.naccepted = w.naccepted := by
  apply runOps_rel (fun a b => b.net = a.net ∧ b.naccepted = a.naccepted)
  · exact fun _ => ⟨rfl, rfl⟩
  · exact fun a b c h1 h2 => ⟨h2.1.trans h1.1, h2.2.trans h1.2⟩
  · exact fun _ _ => ⟨rfl, rfl⟩
  · exact fun _ _ => ⟨rfl, rfl⟩
  · intro w me s
    unfold setCall
    dsimp only
    split <;> exact ⟨rfl, rfl⟩
  · exact fun _ => ⟨rfl, rfl⟩

theorem puc_net (sc : Scripts) (w : World) :
    (processUserCommand sc w).1.net = w.net ∧ (processUserCommand sc w).1.naccepted = w.naccepted := by
  obtain ⟨_, g2, g3⟩ := guc_slots_net w
  unfold processUserCommand
  split
  · exact ⟨rfl, rfl⟩
  · cases hg : getUserCommand w with
    | mk w1 r =>
      rw [hg] at g2 g3
      cases r with
      | none => exact ⟨g2, g3⟩
      | some p =>
        obtain ⟨u, t⟩ := p
        dsimp only at g2 g3 ⊢
        obtain ⟨r1, r2⟩ := runOps_net sc scriptFuel (if (w1.users.get u).inputTo then
            { w1 with users := upd w1.users u (endInput (w1.users.get u)) } else w1) u (sc u t)
        refine ⟨r1.trans ?_, r2.trans ?_⟩
        · split <;> exact g2
        · split <;> exact g3

theorem cmdLoop_net (sc : Scripts) (k : Nat) (w : World) :
    (cmdLoop sc k w).1.net = w.net ∧ (cmdLoop sc k w).1.naccepted = w.naccepted := by
  induction k generalizing w with
  | zero => exact ⟨rfl, rfl⟩
  | succ k ih =>
    obtain ⟨p1, p2⟩ := puc_net sc w
    unfold cmdLoop
    cases hc : processUserCommand sc w with
    | mk w1 r =>
      obtain ⟨e1, b⟩ := r
      rw [hc] at p1 p2
      dsimp only at p1 p2
      cases b with
      | false => exact ⟨p1, p2⟩
      | true =>
        dsimp only
        obtain ⟨i1, i2⟩ := ih w1
        exact ⟨i1.trans p1, i2.trans p2⟩

theorem userIO_eof (w : World) (u x : Nat) :
    ((userIO w u).net.get x).eof = (w.net.get x).eof ∧ (userIO w u).naccepted = w.naccepted := by
  unfold userIO
  split
  · exact ⟨rfl, rfl⟩
  unfold userIO0
  dsimp only
  split
  · refine ⟨?_, rfl⟩
    simp only [get_upd]
    split
    · rename_i hx; subst hx; rfl
    · rfl
  · split <;> exact ⟨rfl, rfl⟩

theorem fold_userIO_eof (l : List Nat) (w : World) (x : Nat) :
    ((l.foldl userIO w).net.get x).eof = (w.net.get x).eof ∧ (l.foldl userIO w).naccepted = w.naccepted := by
  induction l generalizing w with
  | nil => exact ⟨rfl, rfl⟩
  | cons u r ih =>
    obtain ⟨a1, a2⟩ := userIO_eof w u x
    obtain ⟨b1, b2⟩ := ih (userIO w u)
    exact ⟨b1.trans a1, b2.trans a2⟩

theorem processIO_eof (w : World) (x : Nat) :
    ((processIO w).1.net.get x).eof = (w.net.get x).eof ∧
      (processIO w).1.naccepted = (if w.naccepted < w.nconn then w.naccepted + 1 else w.naccepted) := by
  unfold processIO
  dsimp only
  split
  · dsimp only
    obtain ⟨a1, a2⟩ := fold_userIO_eof (w.slots.filterMap id) (accept w (w.naccepted + 1)) x
    exact ⟨a1, a2⟩
  · exact fold_userIO_eof _ w x

/-! ### frame: turns through process_io -/

theorem userIO_turn (w : World) (u x : Nat) : turnOf (userIO w u) x = turnOf w x := by
  unfold userIO
  split
  · simp only [turnOf, get_upd]
    split
    · rename_i hx; subst hx; rfl
    · rfl
  unfold userIO0
  dsimp only
  split
  · simp only [turnOf, get_upd]
    split
    · rename_i hx; subst hx; rfl
    · rfl
  · split <;> rfl

theorem processIO_turn (w : World) (x : Nat) (hx : x ≠ w.naccepted + 1) : turnOf (processIO w).1 x = turnOf w x := by
  have key : ∀ (l : List Nat) (a : World), turnOf (l.foldl userIO a) x = turnOf a x := by
    intro l
    induction l with
    | nil => intro a; rfl
    | cons u r ih => intro a; exact (ih _).trans (userIO_turn a u x)
  unfold processIO
  dsimp only
  split
  · dsimp only
    rw [key]
    simp only [turnOf, accept, get_upd, hx, if_false]
  · exact key _ w

/-- live users stay in the table through process_io (old oracle state) -/
theorem LiveOK_processIO_world (js : JState) (w : World) (h : LiveOK js w) : LiveOK js (processIO w).1 := by
  unfold processIO
  dsimp only
  split
  · dsimp only
    apply LiveOK_fold_userIO
    intro u hu
    obtain ⟨h1, h2⟩ := h u hu
    exact ⟨accept_interactive w _ u h1, h2⟩
  · exact LiveOK_fold_userIO js _ w h

/-! ### the oracle's `complete` against cmd_in_buf() -/

theorem encR_isEmpty (p : List Char) (h : (encR p).isEmpty = true) : p = [] := by
  have := encR_length_ge p
  cases p with
  | nil => rfl
  | cons c r =>
    have h0 : (encR (c :: r)).length = 0 := by simpa using h
    simp only [List.length_cons] at this
    omega

/-- what the oracle calls a complete command is one for cmd_in_buf() -/
theorem complete_hasCmd (single : Bool) (p1 p2 : List Char) (h1 : p1.all plainChar = true) (h2 : p2.all plainChar = true)
    (h3 : single = false → p2 = []) (hc : complete single (p1 ++ p2) = true) :
    hasCmd single (encL p1 ++ encR p2) = true := by
  cases hcont : p1.contains '~' with
  | true =>
    obtain ⟨l, r, hp, hl⟩ := split_at_tilde p1 hcont
    subst hp
    have := (firstCmd_line single l r p2 hl h1 h2).1
    simp [hasCmd, this]
  | false =>
    cases single with
    | false =>
      have hp2 := h3 rfl
      subst hp2
      simp only [complete, List.append_nil, Bool.false_eq_true, if_false] at hc
      rw [hcont] at hc; cases hc
    | true =>
      simp only [complete, if_true] at hc
      have hne : (p1 ++ encR p2).isEmpty = false := by
        cases hh : (p1 ++ encR p2).isEmpty with
        | false => rfl
        | true =>
          have h0 : p1 ++ encR p2 = [] := by simpa using hh
          have hp1 : p1 = [] := List.append_eq_nil_iff.mp h0 |>.1
          have hp2e : encR p2 = [] := List.append_eq_nil_iff.mp h0 |>.2
          have hp2 : p2 = [] := encR_isEmpty p2 (by simp [hp2e])
          subst hp1; subst hp2
          simp at hc
      have := (firstCmd_char p1 p2 hcont h1 h2 hne).1
      simp [hasCmd, this]

theorem QInv_complete (f : FU) (us : U) (h : QInv f us []) (hc : complete f.charMode f.pending = true) :
    hasCmd us.single us.buf = true := by
  obtain ⟨p1, p2, e1, e2, e3⟩ := h.split
  have hp : (p1 ++ p2).all plainChar = true := by
    have := h.plain; rw [e1] at this; simpa using this
  simp only [List.all_append, Bool.and_eq_true] at hp
  rw [e2]
  apply complete_hasCmd us.single p1 p2 hp.1 hp.2 e3
  rw [← h.mode]
  simpa [e1] using hc

theorem hasPending_of (w : World) (u : Nat) (hi : w.interactive u = true) (hc : (w.users.get u).cmdInBuf = true) :
    hasPending w = true := by
  unfold hasPending
  simp only [List.any_eq_true]
  exact ⟨some u, by simpa [World.interactive] using hi, hc⟩

/-! ### the two cycle-level facts -/

/-- clause `idleWait`: the oracle's blocker has CMD_IN_BUF set in the model -/
theorem blocker_pending (fs : FState) (js : JState) (w : World) (hg : G fs w) (hcp : Cpl fs js)
    (hrx : ∀ u, w.interactive u = true → (w.net.get u).rx = (js.us.get u).fresh) (hl : LiveOK js w)
    (hfl : FlagSound w) (u : Nat) (hlive : live (js.us.get u) = true)
    (hc : complete (js.us.get u).charMode (js.us.get u).pending = true) : hasPending w = true := by
  obtain ⟨hi, _⟩ := hl u hlive
  have hq := hg.q u
  obtain ⟨p1, p2, e1, e2, e3⟩ := hq.split
  have hpend : (js.us.get u).pending = p1 ++ p2 := by
    have := hcp.pend u
    rw [e1, hrx u hi] at this
    exact List.append_cancel_right this
  have hp : (p1 ++ p2).all plainChar = true := by
    have := hq.plain; rw [e1] at this
    simp only [List.all_append, Bool.and_eq_true] at this ⊢
    exact this.1
  simp only [List.all_append, Bool.and_eq_true] at hp
  have hcmd : hasCmd (w.users.get u).single (w.users.get u).buf = true := by
    rw [e2]
    apply complete_hasCmd _ p1 p2 hp.1 hp.2 e3
    rw [← hq.mode, ← hcp.mode u, ← hpend]; exact hc
  exact hasPending_of w u hi (hfl u hcmd)

/-- clause `starved`: live with a complete command (buffered or still unread) when the iteration starts => eligible
    when its command phase starts -/
theorem eligible_start (fs : FState) (js : JState) (w : World) (hg : G fs w) (hcp : Cpl fs js) (hl : LiveOK js w)
    (hfl : FlagSound w) (u : Nat) (hlive : live (js.us.get u) = true)
    (hc : complete (js.us.get u).charMode ((js.us.get u).pending ++ (js.us.get u).fresh) = true)
    (hno : (cmdPhaseStart w).overflow = false) :
    elig (cmdPhaseStart w) u = true := by
  -- the state after the turn grant
  have hg0 : G fs { w with cycle := w.cycle + 1, users := grantAll w.users w.slots } :=
    G_congr fs w _ hg (fun x => grantAll_core w.users w.slots x) rfl rfl
  have hl0 : LiveOK js { w with cycle := w.cycle + 1, users := grantAll w.users w.slots } :=
    LiveOK_congr js js w _ hl (fun _ h => h) rfl (fun _ => rfl)
  have hfl0 : FlagSound { w with cycle := w.cycle + 1, users := grantAll w.users w.slots } :=
    grantAll_flag w.users w.slots hfl
  obtain ⟨hi, _⟩ := hl u hlive
  -- after process_io
  obtain ⟨hg2, hd2⟩ := G_processIO fs _ hg0 hno
  have hfold : (processIO { w with cycle := w.cycle + 1, users := grantAll w.users w.slots }).2.foldl fifoStep fs = fs := by
    unfold processIO; dsimp only; split <;> rfl
  rw [hfold] at hg2
  have hl2 := LiveOK_processIO_world js _ hl0
  have hfl2 := processIO_flag _ hfl0
  obtain ⟨hi2, _⟩ := hl2 u hlive
  have hcF : complete (fs.us.get u).charMode (fs.us.get u).pending = true := by
    rw [← hcp.mode u, ← hcp.pend u]; exact hc
  -- the user was accepted before this iteration
  have hacc : u ≤ w.naccepted := by
    cases Nat.lt_or_ge w.naccepted u with
    | inr hle => exact hle
    | inl hlt =>
      have := (hg.fresh u hlt).1
      rw [this] at hcF
      simp [complete] at hcF
  have hq : QInv (fs.us.get u) ((cmdPhaseStart w).users.get u) [] := by
    have := hg2.q u
    rw [hd2 u hi2] at this
    exact this
  have hcmd := QInv_complete _ _ hq hcF
  have hflag := hfl2 u hcmd
  have hturn : turnOf (cmdPhaseStart w) u = true := by
    unfold cmdPhaseStart
    rw [processIO_turn _ u (by simp only; omega)]
    exact grant_gives_turn w.users w.slots u (by simpa [World.interactive] using hi)
  simp only [elig, ready, Bool.and_eq_true]
  exact ⟨hi2, hturn, hflag, hcmd⟩

end NV.C12
