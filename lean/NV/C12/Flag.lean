/-
C12 — flag soundness: in every state reachable by `run`, a buffer that holds a complete command has CMD_IN_BUF set.
Consequence (clause `idleWait` at model level): backend never asks the poller to block while a user in the table has
a complete command buffered.
-/
import NV.C12.Lemmas3
import NV.C12.Props

namespace NV.C12

/-- CMD_IN_BUF is set whenever cmd_in_buf() would say yes -/
def FlagSound (w : World) : Prop :=
  ∀ u, hasCmd (w.users.get u).single (w.users.get u).buf = true → (w.users.get u).cmdInBuf = true

def flagOK (us : U) : Prop := hasCmd us.single us.buf = true → us.cmdInBuf = true

theorem hasCmd_fst (single : Bool) (b : List Char) : hasCmd single (firstCmd single b).1 = hasCmd single b := by
  have h2 : (firstCmd single b).1 = [] ∧ hasCmd single b = false ∨ (firstCmd single b).1 = dropNul b := by
    unfold firstCmd hasCmd firstCmd
    dsimp only
    split
    · left; rename_i h0; simp [h0]
    · right; split
      · rfl
      · split <;> rfl
  rcases h2 with ⟨h, h'⟩ | h
  · rw [h, h']; rfl
  · rw [h, hasCmd_dropNul]

theorem flagSound_upd (w : World) (u : Nat) (X : U) (h : FlagSound w) (hX : flagOK X) (w' : World)
    (hw : w'.users = upd w.users u X) : FlagSound w' := by
  intro x
  rw [hw]
  simp only [get_upd]
  split
  · exact hX
  · exact h x

theorem grantAll_flag (users : AMap U) (sl : List (Option Nat)) (h : ∀ x, flagOK (users.get x)) :
    ∀ x, flagOK ((grantAll users sl).get x) := by
  induction sl generalizing users with
  | nil => exact h
  | cons a r ih =>
    cases a with
    | none => exact ih users h
    | some u =>
      simp only [grantAll]
      split
      · apply ih
        intro x
        simp only [get_upd]
        split
        · rename_i hx; subst hx; exact h x
        · exact h x
      · exact ih users h

theorem scanStep_flag (w : World) (h : FlagSound w) :
    (∀ w', scanStep w = .next w' → FlagSound w') ∧
    (∀ w' u t, scanStep w = .found w' u t → FlagSound w' ∧ (w'.users.get u).cmdInBuf = true) := by
  unfold scanStep
  split
  · exact ⟨(fun _ hh => by cases hh), fun _ _ _ hh => by cases hh⟩
  · exact ⟨(fun _ hh => by cases hh; exact h), fun _ _ _ hh => by cases hh⟩
  · rename_i u _
    dsimp only
    have hf := hasCmd_fst (w.users.get u).single (w.users.get u).buf
    split
    · rename_i hcib
      split
      · rename_i t ht
        split
        · refine ⟨(fun _ hh => by cases hh), fun w' u' t' hh => ?_⟩
          cases hh
          refine ⟨?_, by simp [hcib]⟩
          refine flagSound_upd w u _ h ?_ _ rfl
          intro _; exact hcib
        · refine ⟨(fun w' hh => ?_), fun _ _ _ hh => by cases hh⟩
          cases hh
          refine flagSound_upd w u _ h ?_ _ rfl
          intro _; exact hcib
      · rename_i hnone
        refine ⟨(fun w' hh => ?_), fun _ _ _ hh => by cases hh⟩
        cases hh
        refine flagSound_upd w u _ h ?_ _ rfl
        intro hc
        simp only at hc
        rw [hf] at hc
        simp [hasCmd, hnone] at hc
    · exact ⟨(fun _ hh => by cases hh; exact h), fun _ _ _ hh => by cases hh⟩

theorem scan_flag (n : Nat) (w : World) (h : FlagSound w) :
    FlagSound (scan n w).1 ∧ ∀ u t, (scan n w).2 = some (u, t) → ((scan n w).1.users.get u).cmdInBuf = true := by
  induction n generalizing w with
  | zero => simp [scan, h]
  | succ n ih =>
    obtain ⟨s1, s2⟩ := scanStep_flag w h
    unfold scan
    cases hstep : scanStep w with
    | crash => exact ⟨fun u => h u, by simp⟩
    | found w' u t =>
      obtain ⟨a1, a2⟩ := s2 w' u t hstep
      refine ⟨a1, ?_⟩
      intro u' t' he; simp at he; rw [← he.1]; exact a2
    | next w' => exact ih (decCursor w') (s1 w' hstep)

theorem getUserCommand_flag (w : World) (h : FlagSound w) : FlagSound (getUserCommand w).1 := by
  obtain ⟨c1, c2⟩ := scan_flag (NV.Gen.C12.scanLength w.slots.length) w h
  unfold getUserCommand
  cases hsc : scan (NV.Gen.C12.scanLength w.slots.length) w with
  | mk w1 r =>
    rw [hsc] at c1 c2
    cases r with
    | none => exact c1
    | some p =>
      obtain ⟨u, t⟩ := p
      dsimp only at c1 c2 ⊢
      have hcib := c2 u t rfl
      intro x
      simp only [decCursor_users, get_upd]
      split
      · intro hc; simp only at hc ⊢; rw [hcib, hc]; rfl
      · exact c1 x

theorem endInput_flag (us : U) (h : flagOK us) : flagOK (endInput us) := by
  unfold endInput
  split
  · intro hc; simp only at hc ⊢; rw [hc]; simp
  · exact h

theorem setCall_flag (w : World) (me : Nat) (single : Bool) (h : FlagSound w) : FlagSound (setCall w me single).1 := by
  unfold setCall
  dsimp only
  split
  · exact h
  · refine flagSound_upd w me _ h ?_ _ rfl
    cases single with
    | true => intro hc; simp only [if_true] at hc ⊢; rw [hc]; simp
    | false =>
      intro hc
      simp only [Bool.false_eq_true, if_false, Bool.or_false] at hc ⊢
      exact h me hc

theorem runOps_flag (sc : Scripts) (f : Nat) (w : World) (me : Nat) (ops : List Op) (h : FlagSound w) :
    FlagSound (runOps sc f w me ops).1 := by
  have := runOps_rel (fun a b => FlagSound a → FlagSound b) (fun _ hh => hh) (fun _ _ _ h1 h2 hh => h2 (h1 hh))
    (fun _ _ hh => hh) (fun _ _ hh => hh) (fun w me s hh => setCall_flag w me s hh) (fun _ hh => hh) sc f w me ops
  exact this h

theorem puc_flag (sc : Scripts) (w : World) (h : FlagSound w) : FlagSound (processUserCommand sc w).1 := by
  have hg := getUserCommand_flag w h
  unfold processUserCommand
  split
  · exact h
  · cases hgc : getUserCommand w with
    | mk w1 r =>
      rw [hgc] at hg
      cases r with
      | none => exact hg
      | some p =>
        obtain ⟨u, t⟩ := p
        dsimp only at hg ⊢
        apply runOps_flag
        split
        · exact flagSound_upd w1 u _ hg (endInput_flag _ (hg u)) _ rfl
        · exact hg

theorem cmdLoop_flag (sc : Scripts) (k : Nat) (w : World) (h : FlagSound w) : FlagSound (cmdLoop sc k w).1 := by
  induction k generalizing w with
  | zero => exact h
  | succ k ih =>
    have hp := puc_flag sc w h
    unfold cmdLoop
    cases hpc : processUserCommand sc w with
    | mk w1 r =>
      obtain ⟨e1, b⟩ := r
      rw [hpc] at hp
      cases b with
      | false => exact hp
      | true => exact ih w1 hp

theorem userIO_flag (w : World) (u : Nat) (h : FlagSound w) : FlagSound (userIO w u) := by
  unfold userIO
  split
  · exact flagSound_upd w u _ h (fun _ => rfl) _ rfl
  unfold userIO0
  dsimp only
  split
  · refine flagSound_upd w u _ h ?_ _ rfl
    intro hc; simp only at hc ⊢; rw [hc]; simp
  · split
    · exact h
    · exact h

theorem processIO_flag (w : World) (h : FlagSound w) : FlagSound (processIO w).1 := by
  have key : ∀ (l : List Nat) (a : World), FlagSound a → FlagSound (l.foldl userIO a) := by
    intro l
    induction l with
    | nil => intro a ha; exact ha
    | cons u r ih => intro a ha; exact ih _ (userIO_flag a u ha)
  unfold processIO
  dsimp only
  apply key
  split
  · refine flagSound_upd w (w.naccepted + 1) {} h ?_ _ rfl
    intro hc; simp [hasCmd, firstCmd, dropNul] at hc
  · exact h

theorem cycleStep_flag (sc : Scripts) (w : World) (h : FlagSound w) : FlagSound (cycleStep sc w).1 := by
  unfold cycleStep
  dsimp only
  apply cmdLoop_flag
  apply processIO_flag
  exact grantAll_flag w.users w.slots h

theorem step_flag (sc : Scripts) (w : World) (c : Cmd) (h : FlagSound w) : FlagSound (step sc w c).1 := by
  unfold step
  split
  · exact h
  · cases c with
    | cycle =>
      exact cycleRun_fold' sc (fun (s : Unit) _ => s) (fun _ w => FlagSound w) (fun _ w hh => cycleStep_flag sc w hh)
        (fun _ _ hh => hh) (fun _ _ hh => hh) _ w () h
    | conn => exact h
    | send u d => dsimp only; split <;> exact h
    | close u => dsimp only; split <;> exact h

/-- **flag_sound**: in every state reachable from the initial one, a buffer holding a complete command (a full line;
    anything at all in single-char mode) has CMD_IN_BUF set - through arrivals, extraction, get_char / input_to,
    the reframing at the end of single-char mode, kicks and command() calls. -/
theorem flag_sound (sc : Scripts) (cs : List Cmd) : FlagSound (run sc {} cs).1 := by
  have key : ∀ (cs : List Cmd) (w : World), FlagSound w → FlagSound (run sc w cs).1 := by
    intro cs
    induction cs with
    | nil => intro w h; exact h
    | cons c r ih => intro w h; exact ih _ (step_flag sc w c h)
  apply key
  intro u hc
  change hasCmd ({} : U).single ({} : U).buf = true at hc
  simp [hasCmd, firstCmd, dropNul] at hc

/-- **no_idle_wait** (clause `idleWait` at model level): when a user in the table has a complete command buffered at
    the top of a cycle, backend polls with a zero timeout (the `poll` event of the cycle is `now`). -/
theorem no_idle_wait (sc : Scripts) (w : World) (h : FlagSound w) (u : Nat) (hi : w.interactive u = true)
    (hc : hasCmd (w.users.get u).single (w.users.get u).buf = true) :
    Ev.poll (w.cycle + 1) false ∈ (cycleStep sc w).2 := by
  have hp : hasPending w = true := by
    unfold hasPending
    simp only [List.any_eq_true]
    refine ⟨some u, by simpa [World.interactive] using hi, h u hc⟩
  unfold cycleStep
  dsimp only
  simp [hp]

end NV.C12
