/-
C12 — clause `overtaken`, world-coupled part 1: the invariant `OB` (order oracle against cursor and connection table)
through process_user_command and the command loop (`OL`).
-/
import NV.C12.Order3

namespace NV.C12

/-- `v` waits (since a `begin` at which he had a complete command) and is still connected -/
def Wo (os : OState) (v : Nat) : Prop := (os.us.get v).waiting = true ∧ oLive (os.us.get v) = true
/-- `u` was served while `v` has been waiting -/
def Pdo (os : OState) (v u : Nat) : Prop := u ∈ (os.us.get v).passed

def OrdO (os : OState) (w : World) : Prop := OrdP (Wo os) (Pdo os) w
def EligO (os : OState) (w : World) : Prop := EligP (Wo os) w

/-- every user sits in at most one slot, and only accepted users sit in the table -/
structure TableOK (w : World) : Prop where
  uniq : ∀ i j u, At w i u → At w j u → i = j
  acc : ∀ i u, At w i u → 1 ≤ u ∧ u ≤ w.naccepted

structure OB (js : JState) (os : OState) (w : World) : Prop where
  cpl : CplO js os
  ord : OrdO os w
  tab : TableOK w
  obad : os.bad = []
  noid : ∀ v, v ∉ os.ids → (os.us.get v).waiting = false
  pacc : ∀ v u, u ∈ (os.us.get v).passed → u ≤ w.naccepted
  idacc : ∀ v, v ∈ os.ids → v ≤ w.naccepted

theorem At_inj (w : World) (i u v : Nat) (h1 : At w i u) (h2 : At w i v) : u = v := by
  unfold At at h1 h2; rw [h1] at h2; cases h2; rfl

theorem rank_congr (w w' : World) (hc : w'.cursor = w.cursor) (hl : w'.slots.length = w.slots.length) (s : Nat) :
    rank w' s = rank w s := by simp [rank, hc, hl]

/-- fewer table entries, fewer waiting users, same cursor: the order survives -/
theorem OrdO_mono (os os' : OState) (w w' : World) (hat : ∀ i u, At w' i u → At w i u) (hc : w'.cursor = w.cursor)
    (hl : w'.slots.length = w.slots.length) (hW : ∀ v, Wo os' v → Wo os v)
    (hP : ∀ v u, Wo os' v → Pdo os' v u → Pdo os v u) (h : OrdO os w) : OrdO os' w' := by
  intro i j v u hi hj hw hp
  rw [rank_congr w w' hc hl, rank_congr w w' hc hl]
  exact h i j v u (hat i v hi) (hat j u hj) (hW v hw) (hP v u hw hp)

theorem TableOK_mono (w w' : World) (hat : ∀ i u, At w' i u → At w i u) (hn : w.naccepted ≤ w'.naccepted)
    (h : TableOK w) : TableOK w' :=
  ⟨fun i j u hi hj => h.uniq i j u (hat i u hi) (hat j u hj),
   fun i u hi => by have := h.acc i u (hat i u hi); exact ⟨this.1, by omega⟩⟩

theorem removeUser_At (slots : List (Option Nat)) (t i u : Nat) (h : (removeUser slots t)[i]? = some (some u)) :
    slots[i]? = some (some u) := by
  unfold removeUser at h
  rw [List.getElem?_map] at h
  cases hs : slots[i]? with
  | none => rw [hs] at h; cases h
  | some a =>
    rw [hs] at h
    simp only [Option.map_some] at h
    split at h
    · cases h
    · exact h

theorem runOps_At (sc : Scripts) (f : Nat) (w : World) (me : Nat) (ops : List Op) :
    ∀ i u, At (runOps sc f w me ops).1 i u → At w i u := by
  apply runOps_rel (fun a b => ∀ i u, At b i u → At a i u)
  · exact fun _ _ _ h => h
  · exact fun a b c h1 h2 i u h => h1 i u (h2 i u h)
  · exact fun w t i u h => removeUser_At w.slots t i u h
  · exact fun w t i u h => removeUser_At w.slots t i u h
  · intro w me s i u h
    unfold At at h ⊢
    rw [(setCall_slots_net w me s).1] at h; exact h
  · exact fun _ _ _ h => h

/-- the world after call_function_interactive's bookkeeping for the served user -/
def afterInput (w1 : World) (x : Nat) : World :=
  if (w1.users.get x).inputTo then { w1 with users := upd w1.users x (endInput (w1.users.get x)) } else w1

theorem afterInput_facts (w1 : World) (x : Nat) :
    (afterInput w1 x).slots = w1.slots ∧ (afterInput w1 x).cursor = w1.cursor ∧ (afterInput w1 x).net = w1.net ∧
    (afterInput w1 x).naccepted = w1.naccepted ∧ ∀ v, v ≠ x → (afterInput w1 x).users.get v = w1.users.get v := by
  unfold afterInput
  split
  · refine ⟨rfl, rfl, rfl, rfl, ?_⟩
    intro v hv; simp only [get_upd, hv, if_false]
  · exact ⟨rfl, rfl, rfl, rfl, fun _ _ => rfl⟩

theorem puc_shape (sc : Scripts) (w : World) :
    processUserCommand sc w = (w, [], false) ∨
    (∃ w1, getUserCommand w = (w1, none) ∧ processUserCommand sc w = (w1, [], false)) ∨
    (∃ w1 x t, getUserCommand w = (w1, some (x, t)) ∧
      processUserCommand sc w = ((runOps sc scriptFuel (afterInput w1 x) x (sc x t)).1,
        Ev.cmd x t :: (runOps sc scriptFuel (afterInput w1 x) x (sc x t)).2, true)) := by
  unfold processUserCommand
  split
  · left; rfl
  · right
    cases hg : getUserCommand w with
    | mk w1 r =>
      cases r with
      | none => left; exact ⟨w1, rfl, rfl⟩
      | some p => obtain ⟨x, t⟩ := p; right; exact ⟨w1, x, t, rfl, rfl⟩

/-- the invariant inside the command loop -/
structure OL (js : JState) (os : OState) (w : World) : Prop where
  ob : OB js os w
  live : LiveOK js w
  elig : EligO os w
  safe : Safe w
  jfresh : ∀ u, (js.us.get u).fresh = []
  jacc : ∀ u, 1 ≤ u → u ≤ w.naccepted → u ∈ js.ids

theorem ready_congr (w w' : World) (v : Nat) (hu : w'.users.get v = w.users.get v) : ready w' v = ready w v := by
  simp only [ready, turnOf, hu]

/-- one call of process_user_command -/
theorem puc_OL (sc : Scripts) (w : World) (js : JState) (os : OState) (h : OL js os w) :
    OL ((processUserCommand sc w).2.1.foldl judgeStep js) ((processUserCommand sc w).2.1.foldl orderStep os)
      (processUserCommand sc w).1 := by
  have hlive := LiveOK_puc sc w js h.live
  have hsafe := (processUserCommand_spec sc w h.safe).1
  have hin := puc_inLoop sc w
  rcases puc_shape sc w with heq | ⟨w1, hg, heq⟩ | ⟨w1, x, t, hg, heq⟩
  · rw [heq]; exact h
  · -- nobody to serve: nobody waits
    rw [heq] at hlive hsafe ⊢
    dsimp only at hlive hsafe ⊢
    have hnone : (getUserCommand w).2 = none := by rw [hg]
    obtain ⟨n1, n2⟩ := getUserCommand_none w h.safe hnone
    obtain ⟨g1, g2, g3⟩ := guc_slots_net w
    rw [hg] at n1 n2 g1 g2 g3
    dsimp only at n1 n2 g1 g2 g3
    have hnoW : ∀ v, ¬ Wo os v := by
      intro v hw
      have he := h.elig v hw
      have h1 := n1 v
      have : elig w1 v = elig w v := by
        simp only [elig, World.interactive, g1, n2 v]
      rw [this, he] at h1; cases h1
    have hat : ∀ i u, At w1 i u → At w i u := by intro i u hh; unfold At at hh ⊢; rw [g1] at hh; exact hh
    refine ⟨⟨h.ob.cpl, ?_, TableOK_mono w w1 hat (by rw [g3]; exact Nat.le_refl _) h.ob.tab, h.ob.obad, h.ob.noid,
      fun v u hu => by rw [g3]; exact h.ob.pacc v u hu, fun v hv => by rw [g3]; exact h.ob.idacc v hv⟩,
      hlive, fun v hw => absurd hw (hnoW v), hsafe, h.jfresh, fun u h1 h2 => h.jacc u h1 (by rw [← g3]; exact h2)⟩
    intro i j v u _ _ hw _
    exact absurd hw (hnoW v)
  · -- user x is served
    rw [heq] at hlive hsafe hin ⊢
    dsimp only at hlive hsafe hin ⊢
    have hguc : (getUserCommand w).2 = some (x, t) := by rw [hg]
    have hw1 : (getUserCommand w).1 = w1 := by rw [hg]
    obtain ⟨c, hatc, hsl, hnov, hold, hnew⟩ := guc_ord (Wo os) (Pdo os) w h.safe h.elig h.ob.ord x t hguc
    rw [hw1] at hsl hold hnew
    obtain ⟨g1, g2, g3⟩ := guc_slots_net w
    rw [hw1] at g1 g2 g3
    have hready1 := (getUserCommand_some w h.safe x t hguc).2
    rw [hw1] at hready1
    obtain ⟨a1, a2, a3, a4, a5⟩ := afterInput_facts w1 x
    obtain ⟨fr, fev⟩ := runOps_frame sc scriptFuel (afterInput w1 x) x (sc x t)
    obtain ⟨k1, k2⟩ := runOps_keeps sc scriptFuel (afterInput w1 x) x (sc x t)
    have hAt3 := runOps_At sc scriptFuel (afterInput w1 x) x (sc x t)
    obtain ⟨rn1, rn2⟩ := runOps_net sc scriptFuel (afterInput w1 x) x (sc x t)
    generalize hw3 : (runOps sc scriptFuel (afterInput w1 x) x (sc x t)).1 = w3 at *
    generalize hevs : (runOps sc scriptFuel (afterInput w1 x) x (sc x t)).2 = evs at *
    -- table of the end state
    have hat : ∀ i u, At w3 i u → At w i u := by
      intro i u hh
      have := hAt3 i u hh
      unfold At at this ⊢
      rw [a1, hsl] at this; exact this
    have hacc3 : w3.naccepted = w.naccepted := by rw [rn2, a4, g3]
    have hcur3 : w3.cursor = w1.cursor := by rw [fr.2.1, a2]
    have hlen3 : w3.slots.length = w1.slots.length := by rw [fr.1, a1]
    -- the served user
    obtain ⟨hx1, hx2⟩ := h.ob.tab.acc c x hatc
    have hxj : x ∈ js.ids := h.jacc x hx1 hx2
    have hxo : x ∈ os.ids := by rw [h.ob.cpl.ids]; exact hxj
    -- script events
    have hevs_in : ∀ e ∈ evs, Ev.inLoop e = true := fun e he => hin e (List.mem_cons_of_mem _ he)
    have hevs_nc : ∀ u, ∀ e ∈ evs, Ev.isCmdOf u e = false := fev
    -- the order oracle at `cmd x`
    have hvict : os.ids.filter (fun v => v != x && (os.us.get v).waiting && oLive (os.us.get v) &&
        (os.us.get v).passed.contains x) = [] := by
      rw [List.filter_eq_nil_iff]
      intro v _ hcnd
      simp only [Bool.and_eq_true] at hcnd
      obtain ⟨⟨⟨_, hwv⟩, hlv⟩, hpv⟩ := hcnd
      have hWv : Wo os v := ⟨hwv, hlv⟩
      have hliv : live (js.us.get v) = true := by rw [← CplO_live h.ob.cpl v]; exact hlv
      obtain ⟨i, hi⟩ := interactive_At w v (h.live v hliv).1
      exact hnov i v hi hWv (by unfold Pdo; simpa using hpv)
    have hbad1 : (orderStep os (.cmd x t)).bad = [] := by
      show (List.map _ (List.filter _ os.ids).reverse ++ os.bad) = []
      rw [hvict, h.ob.obad]; rfl
    have hids1 : (orderStep os (.cmd x t)).ids = os.ids := rfl
    -- records after `cmd x`
    have hrec : ∀ v, Wo (orderStep os (.cmd x t)) v → v ≠ x ∧ Wo os v ∧
        ((orderStep os (.cmd x t)).us.get v).passed = x :: (os.us.get v).passed := by
      intro v hw
      obtain ⟨hw1', hw2⟩ := hw
      rw [ocmd_get] at hw1' hw2 ⊢
      by_cases hm : v ∈ os.ids
      · simp only [hm, if_true] at hw1' hw2 ⊢
        by_cases hvx : v = x
        · subst hvx; rw [ocmdU_self] at hw1'; cases hw1'
        · obtain ⟨o1, o2, _, _, o5, o6⟩ := ocmdU_other x t v (os.us.get v) hvx
          rw [o5] at hw1'
          refine ⟨hvx, ⟨hw1', ?_⟩, by rw [o6, hw1']; rfl⟩
          simp only [oLive, o1, o2] at hw2; exact hw2
      · simp only [hm, if_false] at hw1'
        rw [h.ob.noid v hm] at hw1'; cases hw1'
    obtain ⟨s1, s2, s3⟩ := oscript_fold evs hevs_in hevs_nc (orderStep os (.cmd x t))
    rw [List.foldl_cons, List.foldl_cons]
    -- waiting users at the end
    have hW3 : ∀ v, Wo (evs.foldl orderStep (orderStep os (.cmd x t))) v → Wo (orderStep os (.cmd x t)) v := by
      intro v hw
      obtain ⟨b1, b2, b3⟩ := s3 v
      exact ⟨by rw [← b1]; exact hw.1, b3 hw.2⟩
    have hcpl3 : CplO (evs.foldl judgeStep (judgeStep js (.cmd x t))) (evs.foldl orderStep (orderStep os (.cmd x t))) := by
      have := cplO_fold (Ev.cmd x t :: evs) hin js os h.ob.cpl h.jfresh (by
        intro u t' hu
        rcases List.mem_cons.mp hu with hu | hu
        · cases hu; exact hxj
        · have := fev u _ hu; simp [Ev.isCmdOf] at this)
      simpa [List.foldl_cons] using this
    obtain ⟨j1, j2, _, j4⟩ := inLoop_fold (Ev.cmd x t :: evs) hin js
    simp only [List.foldl_cons] at j1 j2 j4
    refine ⟨⟨hcpl3, ?_, TableOK_mono w w3 hat (by omega) h.ob.tab, by rw [s1]; exact hbad1, ?_, ?_, ?_⟩,
      hlive, ?_, hsafe, fun u => by rw [(j4 u).2.1]; exact h.jfresh u,
      fun u h1 h2 => by rw [j2]; exact h.jacc u h1 (by omega)⟩
    · -- order
      intro i j v u hi hj hw hp
      have hw1' := hW3 v hw
      obtain ⟨hvx, hWv, hpass⟩ := hrec v hw1'
      have hi0 := hat i v hi
      have hj0 := hat j u hj
      have hic : i ≠ c := fun hh => hvx (At_inj w c v x (by rw [← hh]; exact hi0) hatc)
      rw [rank_congr w1 w3 hcur3 hlen3, rank_congr w1 w3 hcur3 hlen3]
      have hp1 : u ∈ x :: (os.us.get v).passed := by
        have : u ∈ ((evs.foldl orderStep (orderStep os (.cmd x t))).us.get v).passed := hp
        rw [(s3 v).2.1, hpass] at this; exact this
      rcases List.mem_cons.mp hp1 with hux | hup
      · subst hux
        have hjc : j = c := h.ob.tab.uniq j c u hj0 hatc
        rw [hjc]; exact hnew i v hi0 hWv hic
      · exact hold i j v u hi0 hj0 hWv hic hup
    · -- noid
      intro v hv
      rw [s2, hids1] at hv
      rw [(s3 v).1, ocmd_get]
      simp only [hv, if_false]
      exact h.ob.noid v hv
    · -- passed users are accepted
      intro v u hu
      rw [(s3 v).2.1, ocmd_get] at hu
      rw [hacc3]
      by_cases hm : v ∈ os.ids
      · simp only [hm, if_true] at hu
        by_cases hvx : v = x
        · subst hvx; rw [ocmdU_self] at hu; cases hu
        · rw [(ocmdU_other x t v _ hvx).2.2.2.2.2] at hu
          split at hu
          · rcases List.mem_cons.mp hu with hu | hu
            · rw [hu]; exact hx2
            · exact h.ob.pacc v u hu
          · exact h.ob.pacc v u hu
      · simp only [hm, if_false] at hu
        exact h.ob.pacc v u hu
    · intro v hv
      rw [s2, hids1] at hv
      rw [hacc3]; exact h.ob.idacc v hv
    · -- still eligible
      intro v hw
      have hw1' := hW3 v hw
      obtain ⟨hvx, hWv, _⟩ := hrec v hw1'
      have he := h.elig v hWv
      simp only [elig, Bool.and_eq_true] at he ⊢
      have hliv3 : live ((evs.foldl judgeStep (judgeStep js (.cmd x t))).us.get v) = true := by
        rw [← CplO_live hcpl3 v]; exact hw.2
      refine ⟨(hlive v hliv3).1, ?_⟩
      apply k2 v
      rw [ready_congr w1 (afterInput w1 x) v (a5 v hvx), hready1 v hvx]
      exact he.2

theorem cmdLoop_OL (sc : Scripts) (k : Nat) (w : World) (js : JState) (os : OState) (h : OL js os w) :
    OL ((cmdLoop sc k w).2.foldl judgeStep js) ((cmdLoop sc k w).2.foldl orderStep os) (cmdLoop sc k w).1 := by
  induction k generalizing w js os with
  | zero => exact h
  | succ k ih =>
    have hp := puc_OL sc w js os h
    unfold cmdLoop
    cases hc : processUserCommand sc w with
    | mk w1 r =>
      obtain ⟨e1, b⟩ := r
      rw [hc] at hp
      dsimp only at hp
      cases b with
      | false => exact hp
      | true =>
        dsimp only
        rw [List.foldl_append, List.foldl_append]
        exact ih w1 _ _ hp

end NV.C12
