/-
C12 — towards `judgeLive (events ..) = []`, part 2: the oracle's notion of a live user (logged on, not kicked / dropped,
client has not closed) against the connection table of the model, through scripts, process_user_command, the command
loop, accept and get_user_data (`LiveOK`).
-/
import NV.C12.Live1

namespace NV.C12

/-- users the oracle considers live sit in the connection table and their client has not closed -/
def LiveOK (js : JState) (w : World) : Prop :=
  ∀ u, live (js.us.get u) = true → w.interactive u = true ∧ (w.net.get u).eof = false

theorem LiveOK_congr (js js' : JState) (w w' : World) (h : LiveOK js w)
    (hl : ∀ u, live (js'.us.get u) = true → live (js.us.get u) = true)
    (hs : w'.slots = w.slots) (hn : ∀ u, (w'.net.get u).eof = (w.net.get u).eof) : LiveOK js' w' := by
  intro u hu
  obtain ⟨h1, h2⟩ := h u (hl u hu)
  exact ⟨by simpa [World.interactive, hs] using h1, by rw [hn u]; exact h2⟩

/-- a user leaves the table (kick / drop) and the oracle is told -/
theorem LiveOK_remove (js : JState) (w w' : World) (t : Nat) (h : LiveOK js w)
    (hs : w'.slots = removeUser w.slots t) (hn : w'.net = w.net) :
    LiveOK { js with us := upd js.us t { js.us.get t with connected := false } } w' := by
  intro u hu
  simp only [get_upd] at hu
  split at hu
  · simp [live] at hu
  · rename_i hne
    obtain ⟨h1, h2⟩ := h u hu
    refine ⟨?_, by rw [hn]; exact h2⟩
    simp only [World.interactive] at h1 ⊢
    rw [hs, removeUser_contains, h1]
    simp [hne]

theorem setCall_slots_net (w : World) (me : Nat) (single : Bool) :
    (setCall w me single).1.slots = w.slots ∧ (setCall w me single).1.net = w.net := by
  unfold setCall
  dsimp only
  split <;> exact ⟨rfl, rfl⟩

theorem LiveOK_runOps (sc : Scripts) (f : Nat) (w : World) (me : Nat) (ops : List Op) (js : JState) (h : LiveOK js w) :
    LiveOK ((runOps sc f w me ops).2.foldl judgeStep js) (runOps sc f w me ops).1 := by
  apply runOps_sim judgeStep (fun s w => LiveOK s w)
  · intro s w me t hh
    cases ha : w.alive t with
    | true => exact LiveOK_remove s w _ t hh rfl rfl
    | false => exact hh
  · intro s w me t hh
    cases ha : (w.alive t && w.interactive t) with
    | true => simp only [if_true]; exact LiveOK_remove s w _ t hh rfl rfl
    | false => exact hh
  · intro s w me hh
    obtain ⟨s1, s2⟩ := setCall_slots_net w me true
    cases hr : (setCall w me true).2 with
    | true =>
      apply LiveOK_congr s _ w _ hh ?_ s1 (fun u => by rw [s2])
      intro u hu
      simp only [judgeStep, get_upd] at hu
      split at hu
      · rename_i hx; subst hx; exact hu
      · exact hu
    | false => exact LiveOK_congr s _ w _ hh (fun u hu => hu) s1 (fun u => by rw [s2])
  · intro s w me hh
    obtain ⟨s1, s2⟩ := setCall_slots_net w me false
    exact LiveOK_congr s _ w _ hh (fun u hu => hu) s1 (fun u => by rw [s2])
  · intro s w me t x hh; exact hh
  · intro s w me t x hh; exact hh
  · intro s w me hh; exact LiveOK_congr s _ w _ hh (fun u hu => hu) rfl (fun u => rfl)
  · intro s w me hh; exact hh
  · exact h

/-! ### get_user_command touches neither the table nor the sockets -/

theorem scanStep_slots_net (w : World) :
    (∀ w', scanStep w = .next w' → w'.slots = w.slots ∧ w'.net = w.net ∧ w'.naccepted = w.naccepted) ∧
    (∀ w' u t, scanStep w = .found w' u t → w'.slots = w.slots ∧ w'.net = w.net ∧ w'.naccepted = w.naccepted) := by
  constructor
  · intro w' h
    unfold scanStep at h
    split at h
    · cases h
    · cases h; exact ⟨rfl, rfl, rfl⟩
    · dsimp only at h
      split at h
      · split at h
        · split at h
          · cases h
          · cases h; exact ⟨rfl, rfl, rfl⟩
        · cases h; exact ⟨rfl, rfl, rfl⟩
      · cases h; exact ⟨rfl, rfl, rfl⟩
  · intro w' u t h
    unfold scanStep at h
    split at h
    · cases h
    · cases h
    · dsimp only at h
      split at h
      · split at h
        · split at h
          · cases h; exact ⟨rfl, rfl, rfl⟩
          · cases h
        · cases h
      · cases h

theorem scan_slots_net (n : Nat) (w : World) :
    (scan n w).1.slots = w.slots ∧ (scan n w).1.net = w.net ∧ (scan n w).1.naccepted = w.naccepted := by
  induction n generalizing w with
  | zero => exact ⟨rfl, rfl, rfl⟩
  | succ n ih =>
    obtain ⟨h1, h2⟩ := scanStep_slots_net w
    unfold scan
    cases hstep : scanStep w with
    | crash => exact ⟨rfl, rfl, rfl⟩
    | found w' u t => exact h2 w' u t hstep
    | next w' =>
      obtain ⟨a1, a2, a3⟩ := h1 w' hstep
      obtain ⟨b1, b2, b3⟩ := ih (decCursor w')
      exact ⟨b1.trans a1, b2.trans a2, b3.trans a3⟩

theorem guc_slots_net (w : World) : (getUserCommand w).1.slots = w.slots ∧ (getUserCommand w).1.net = w.net ∧
    (getUserCommand w).1.naccepted = w.naccepted := by
  obtain ⟨s1, s2⟩ := scan_slots_net (NV.Gen.C12.scanLength w.slots.length) w
  unfold getUserCommand
  cases hsc : scan (NV.Gen.C12.scanLength w.slots.length) w with
  | mk w1 r =>
    rw [hsc] at s1 s2
    cases r with
    | none => exact ⟨s1, s2⟩
    | some p => obtain ⟨u, t⟩ := p; exact ⟨s1, s2⟩

theorem LiveOK_puc (sc : Scripts) (w : World) (js : JState) (h : LiveOK js w) :
    LiveOK ((processUserCommand sc w).2.1.foldl judgeStep js) (processUserCommand sc w).1 := by
  obtain ⟨g1, g2, _⟩ := guc_slots_net w
  unfold processUserCommand
  split
  · exact h
  · cases hg : getUserCommand w with
    | mk w1 r =>
      rw [hg] at g1 g2
      cases r with
      | none => exact LiveOK_congr js _ w _ h (fun u hu => hu) g1 (fun u => by rw [g2])
      | some p =>
        obtain ⟨u, t⟩ := p
        dsimp only at g1 g2 ⊢
        rw [List.foldl_cons]
        apply LiveOK_runOps
        apply LiveOK_congr js _ w _ h ?_ (by split <;> exact g1) (fun x => by split <;> rw [g2])
        intro x hx
        simp only [judgeStep, get_upd] at hx
        split at hx
        · rename_i hxu; subst hxu; exact hx
        · exact hx

theorem LiveOK_cmdLoop (sc : Scripts) (k : Nat) (w : World) (js : JState) (h : LiveOK js w) :
    LiveOK ((cmdLoop sc k w).2.foldl judgeStep js) (cmdLoop sc k w).1 := by
  induction k generalizing w js with
  | zero => exact h
  | succ k ih =>
    have hp := LiveOK_puc sc w js h
    unfold cmdLoop
    cases hc : processUserCommand sc w with
    | mk w1 r =>
      obtain ⟨e1, b⟩ := r
      rw [hc] at hp
      dsimp only at hp
      cases b with
      | false => exact hp
      | true =>
        dsimp only
        rw [List.foldl_append]
        exact ih w1 _ hp

/-! ### accept: the free slot -/

theorem newSlot_go (r : List (Option Nat)) (i : Nat) :
    i ≤ newSlot.go r i ∧ newSlot.go r i ≤ i + r.length ∧
      (r[newSlot.go r i - i]? = some none ∨ r.length ≤ newSlot.go r i - i) := by
  induction r generalizing i with
  | nil => simp [newSlot.go]
  | cons a r ih =>
    cases a with
    | none => simp [newSlot.go]
    | some x =>
      obtain ⟨h1, h2, h3⟩ := ih (i + 1)
      simp only [newSlot.go, List.length_cons]
      refine ⟨by omega, by omega, ?_⟩
      have hidx : newSlot.go r (i + 1) - i = (newSlot.go r (i + 1) - (i + 1)) + 1 := by omega
      rw [hidx, List.getElem?_cons_succ]
      rcases h3 with h3 | h3
      · left; exact h3
      · right; omega

/-- the slot chosen for a new user: index >= 1, at most one past the table, and not occupied -/
theorem newSlot_free (slots : List (Option Nat)) :
    1 ≤ newSlot slots ∧ newSlot slots ≤ max 1 slots.length ∧
      (slots[newSlot slots]? = some none ∨ slots.length ≤ newSlot slots) := by
  obtain ⟨h1, h2, h3⟩ := newSlot_go (slots.drop 1) 1
  unfold newSlot
  rw [firstUserSlot_spec]
  simp only [List.length_drop] at h2 h3
  refine ⟨h1, by omega, ?_⟩
  rcases h3 with h3 | h3
  · left
    rw [List.getElem?_drop] at h3
    have : 1 + (newSlot.go (List.drop 1 slots) 1 - 1) = newSlot.go (List.drop 1 slots) 1 := by omega
    rw [this] at h3; exact h3
  · right; omega

theorem mem_set_of_ne {α : Type} (l : List α) (i : Nat) (a b : α) (h : a ∈ l) (hi : l[i]? ≠ some a) : a ∈ l.set i b := by
  induction l generalizing i with
  | nil => cases h
  | cons x r ih =>
    cases i with
    | zero =>
      simp only [List.set_cons_zero, List.mem_cons]
      rcases List.mem_cons.mp h with h | h
      · subst h; simp at hi
      · right; exact h
    | succ i =>
      simp only [List.set_cons_succ, List.mem_cons]
      rcases List.mem_cons.mp h with h | h
      · left; exact h
      · right; exact ih i h (by simpa using hi)

theorem mem_set_self' {α : Type} (l : List α) (i : Nat) (a : α) (h : i < l.length) : a ∈ l.set i a := by
  induction l generalizing i with
  | nil => simp at h
  | cons x r ih =>
    cases i with
    | zero => simp
    | succ i =>
      simp only [List.set_cons_succ, List.mem_cons]
      right; exact ih i (by simpa using h)

/-- the table after an accept, before the new user is written into it -/
def acceptBase (slots : List (Option Nat)) : List (Option Nat) :=
  if newSlot slots ≥ slots.length then slots ++ List.replicate growBy none else slots

theorem accept_slots (w : World) (k : Nat) : (accept w k).slots = (acceptBase w.slots).set (newSlot w.slots) (some k) := rfl

theorem acceptBase_free (slots : List (Option Nat)) (u : Nat) :
    (acceptBase slots)[newSlot slots]? ≠ some (some u) ∧ newSlot slots < (acceptBase slots).length := by
  obtain ⟨h1, h2, h3⟩ := newSlot_free slots
  have hg : 2 ≤ growBy := by decide
  unfold acceptBase
  split
  · rename_i hge
    refine ⟨?_, by simp only [List.length_append, List.length_replicate]; omega⟩
    rw [List.getElem?_append_right hge]
    simp only [List.getElem?_replicate]
    split <;> simp
  · rename_i hlt
    refine ⟨?_, by omega⟩
    rcases h3 with h3 | h3
    · rw [h3]; simp
    · omega

theorem accept_interactive (w : World) (k u : Nat) (h : w.interactive u = true) : (accept w k).interactive u = true := by
  simp only [World.interactive, List.contains_iff_mem] at h ⊢
  rw [accept_slots]
  apply mem_set_of_ne _ _ _ _ ?_ (acceptBase_free w.slots u).1
  unfold acceptBase
  split
  · exact List.mem_append_left _ h
  · exact h

theorem accept_interactive_self (w : World) (k : Nat) : (accept w k).interactive k = true := by
  simp only [World.interactive, List.contains_iff_mem]
  rw [accept_slots]
  exact mem_set_self' _ _ _ (acceptBase_free w.slots k).2

/-! ### process_io -/

theorem LiveOK_userIO (js : JState) (w : World) (u : Nat) (h : LiveOK js w) : LiveOK js (userIO w u) := by
  unfold userIO
  split
  · exact LiveOK_congr js js w _ h (fun _ hu => hu) rfl (fun _ => rfl)
  unfold userIO0
  dsimp only
  split
  · refine LiveOK_congr js js w _ h (fun _ hu => hu) ?_ ?_
    · rfl
    intro x
    simp only [get_upd]
    split
    · rename_i hx; subst hx; rfl
    · rfl
  · split
    · rename_i heof
      intro x hx
      obtain ⟨h1, h2⟩ := h x hx
      have hne : x ≠ u := by
        intro hxu; subst hxu; rw [heof] at h2; cases h2
      refine ⟨?_, h2⟩
      simp only [World.interactive] at h1 ⊢
      rw [removeUser_contains, h1]; simp [hne]
    · exact h

theorem LiveOK_fold_userIO (js : JState) (l : List Nat) (w : World) (h : LiveOK js w) : LiveOK js (l.foldl userIO w) := by
  induction l generalizing w with
  | nil => exact h
  | cons u r ih => exact ih _ (LiveOK_userIO js w u h)

/-- process_io: the accepted user (logon event) is live and in the table; live users stay -/
theorem LiveOK_processIO (js : JState) (w : World) (h : LiveOK js w)
    (hnew : (w.net.get (w.naccepted + 1)).eof = false) :
    LiveOK ((processIO w).2.foldl judgeStep js) (processIO w).1 := by
  unfold processIO
  dsimp only
  split
  · dsimp only
    apply LiveOK_fold_userIO
    intro u hu
    simp only [List.foldl_cons, List.foldl_nil, judgeStep, get_upd] at hu
    split at hu
    · rename_i hx; subst hx
      exact ⟨accept_interactive_self w _, hnew⟩
    · obtain ⟨h1, h2⟩ := h u hu
      exact ⟨accept_interactive w _ u h1, h2⟩
  · exact LiveOK_fold_userIO js _ w h

end NV.C12
