/-
C12 driver: parses the case lines that harness/c12/c12.c executes against the real backend() and runs the model
(`model` mode), or parses an implementation trace into events and runs the specification oracle (`judge` mode).

Case lines:   script u<k> =<text> <op>;<op>...   |  conn  |  send u<k> <data>  |  close u<k>  |  cycle  |  run
ops:          kick,u<k> | drop,u<k> | ecmd,u<k>,<text> | gc | it | itn | err | exec
Texts in traces are `=` followed by [a-z0-9] literally and %xx for every other byte.
-/
import NV.Common.Proto
import NV.C12.Model
import NV.C12.Spec

namespace NV.C12

open NV.Proto

def hexDigit (n : Nat) : Char := if n < 10 then Char.ofNat (48 + n) else Char.ofNat (87 + n)

def encChars : List Char → List Char
  | [] => []
  | c :: r =>
    if (c.toNat ≥ 97 && c.toNat ≤ 122) || (c.toNat ≥ 48 && c.toNat ≤ 57) then c :: encChars r
    else '%' :: hexDigit (c.toNat / 16 % 16) :: hexDigit (c.toNat % 16) :: encChars r

def enc (t : List Char) : String := String.ofList ('=' :: encChars t)

def hexVal (c : Char) : Option Nat :=
  if c.toNat ≥ 48 && c.toNat ≤ 57 then some (c.toNat - 48)
  else if c.toNat ≥ 97 && c.toNat ≤ 102 then some (c.toNat - 87)
  else none

def decChars : List Char → Option (List Char)
  | [] => some []
  | '%' :: a :: b :: r => do
    let x ← hexVal a
    let y ← hexVal b
    let rest ← decChars r
    some (Char.ofNat (x * 16 + y) :: rest)
  | '%' :: _ => none
  | c :: r => do let rest ← decChars r; some (c :: rest)

def dec (s : String) : Option (List Char) :=
  match s.toList with
  | '=' :: r => decChars r
  | _ => none

def parseUid (s : String) : Option Nat :=
  match s.toList with
  | 'u' :: r => (String.ofList r).toNat?
  | _ => none

def b01 (b : Bool) : String := if b then "1" else "0"

def render : Ev → String
  | .conn u => s!"conn u{u}"
  | .begin n => s!"begin {n}"
  | .poll n b => s!"poll {n} {if b then "block" else "now"}"
  | .logon u => s!"logon u{u}"
  | .send u d => s!"send u{u} {String.ofList d}"
  | .close u => s!"close u{u}"
  | .cmd u t => s!"cmd u{u} {enc t}"
  | .ecmd u t => s!"ecmd u{u} {enc t}"
  | .kick a t ok => s!"kick u{a} u{t} {b01 ok}"
  | .drop a t ok => s!"drop u{a} u{t} {b01 ok}"
  | .force a t x ok => s!"force u{a} u{t} {enc x} {b01 ok}"
  | .gc u r => s!"gc u{u} {b01 r}"
  | .it u r => s!"it u{u} {b01 r}"
  | .endc n m l => l.foldl (fun acc (i, u, f) => acc ++ s!" {i}:u{u}:{f}") s!"end {n} max={m}"
  | .crash w => s!"crash {w}"
  | .err u => s!"throw u{u}"
  | .exec u r => s!"exec u{u} {b01 r}"
  | .abort n => s!"abort {n}"
  | .other l => l

def parse01 (s : String) : Option Bool := if s == "1" then some true else if s == "0" then some false else none

def parseLayout (ts : List String) : Option (List (Nat × Nat × Nat)) :=
  ts.mapM (fun t => match t.splitOn ":" with
    | [i, u, f] => do some ((← i.toNat?), (← parseUid u), (← f.toNat?))
    | _ => none)

/-- one canonical trace line -> event (`other` when it is none) -/
def parseEv (line : String) : Ev :=
  let r : Option Ev :=
    match toks line with
    | ["conn", u] => do some (.conn (← parseUid u))
    | ["begin", n] => do some (.begin (← n.toNat?))
    | ["poll", n, "block"] => do some (.poll (← n.toNat?) true)
    | ["poll", n, "now"] => do some (.poll (← n.toNat?) false)
    | ["logon", u] => do some (.logon (← parseUid u))
    | ["send", u, d] => do some (.send (← parseUid u) d.toList)
    | ["close", u] => do some (.close (← parseUid u))
    | ["cmd", u, t] => do some (.cmd (← parseUid u) (← dec t))
    | ["ecmd", u, t] => do some (.ecmd (← parseUid u) (← dec t))
    | ["kick", a, t, ok] => do some (.kick (← parseUid a) (← parseUid t) (← parse01 ok))
    | ["drop", a, t, ok] => do some (.drop (← parseUid a) (← parseUid t) (← parse01 ok))
    | ["force", a, t, x, ok] => do some (.force (← parseUid a) (← parseUid t) (← dec x) (← parse01 ok))
    | ["gc", u, r] => do some (.gc (← parseUid u) (← parse01 r))
    | ["it", u, r] => do some (.it (← parseUid u) (← parse01 r))
    | "end" :: n :: m :: l =>
      if m.startsWith "max=" then do some (.endc (← n.toNat?) (← (m.drop 4).toString.toNat?) (← parseLayout l)) else none
    | ["throw", u] => do some (.err (← parseUid u))
    | ["exec", u, r] => do some (.exec (← parseUid u) (← parse01 r))
    | ["abort", n] => do some (.abort (← n.toNat?))
    | "crash" :: w => some (.crash (" ".intercalate w))
    | _ => none
  r.getD (.other line)

def parseOp (s : String) : Option Op :=
  match s.splitOn "," with
  | ["kick", u] => do some (.kick (← parseUid u))
  | ["drop", u] => do some (.drop (← parseUid u))
  | ["ecmd", u, t] => do some (.ecmd (← parseUid u) t.toList)
  | ["gc"] => some .gc
  | ["it"] => some .it
  | ["itn"] => some .it      -- input_to with I_NOECHO: the echo flag does not touch scheduling
  | ["err"] => some .err
  | ["exec"] => some .exec
  | _ => none

structure Parsed where
  scripts : List ((Nat × List Char) × List Op) := []
  cmds : List Cmd := []          -- newest first while parsing
  bad : List String := []
  started : Bool := false

def parseLine (p : Parsed) (line : String) : Parsed :=
  if p.started then p else
  match toks line with
  | [] => p
  | ["script", u, key, ops] =>
    match parseUid u, dec key, (ops.splitOn ";").mapM parseOp with
    | some k, some t, some os => { p with scripts := ((k, t), os) :: p.scripts }
    | _, _, _ => { p with bad := line :: p.bad }
  | ["conn"] => { p with cmds := .conn :: p.cmds }
  | ["send", u, d] =>
    match parseUid u with
    | some k => { p with cmds := .send k d.toList :: p.cmds }
    | none => { p with bad := line :: p.bad }
  | ["close", u] =>
    match parseUid u with
    | some k => { p with cmds := .close k :: p.cmds }
    | none => { p with bad := line :: p.bad }
  | ["cycle"] => { p with cmds := .cycle :: p.cmds }
  | ["run"] => { p with started := true }
  | _ => if line.startsWith "#" then p else { p with bad := line :: p.bad }

/-- the harness looks up the LAST script registered for a key (mapping assignment) -/
def scriptsOf (p : Parsed) : Scripts := fun u t =>
  match p.scripts.find? (fun e => e.1 == (u, t)) with
  | some e => e.2
  | none => []

/-- nothing runs without the final `run` line -/
def effective (p : Parsed) : List Cmd :=
  if p.started then p.cmds.reverse else []

def runModel (lines : List String) : List String :=
  let p := lines.foldl parseLine {}
  if !p.bad.isEmpty then p.bad.reverse.map (fun l => s!"bad-line {l}")
  else (events (scriptsOf p) (effective p)).map render

def renderViol : Viol → String
  | .twice u n => s!"twice user=u{u} cycle={n}: second buffered command of one user in one backend cycle"
  | .starved u n => s!"starved user=u{u} cycle={n}: complete command waiting, user connected, not served"
  | .fifo u t => s!"fifo user=u{u} text={enc t}: executed command is not the oldest pending input"
  | .idleWait n u => s!"idle-wait cycle={n} user=u{u}: backend blocks in poll although a complete command is buffered"
  | .overtaken u v n => s!"overtaken user=u{u} waiting=u{v} cycle={n}: served again while another user with a complete command still waits"
  | .typeaheadDiscard u t => s!"typeahead-discard user=u{u} text={enc t}: the backlog of this user had reached the size at which get_user_data discards an unfinished over-long line (complete commands are held back, not discarded, since 57d7cb1)"
  | .efun t x => s!"efun user=u{t} text={enc x}: command() was not executed at once"
  | .outside u => s!"outside user=u{u}: buffered command executed outside a backend cycle"
  | .crash w => s!"crash {w}"
  | .malformed l => s!"malformed {l}"

def runJudge (body : List String) : List String :=
  let (_input, impl) := splitJudge body
  match judgeEv (impl.map parseEv) with
  | [] => ["ok"]
  | vs => vs.map (fun v => s!"bad {renderViol v}")

def main (mode : String) : IO Unit :=
  match mode with
  | "model" => serve runModel
  | "judge" => serve runJudge
  | _ => IO.eprintln s!"C12: unknown mode {mode}"

end NV.C12
