/-
C12 — uncaught errors: an iteration of backend() that is left by an uncaught LPC error has served (and consumed) a
buffered command, which strictly lowers `weight` (buffered text + unread client data, Model.lean).  Hence the loop
restarts only finitely often between two calls of the verification hook, and `weight w + 1` is enough fuel for
`cycleRun` - the outcome "restart bound exhausted" of the model is unreachable (`cycleRun_spec`).
-/
import NV.C12.Lemmas3

namespace NV.C12

/-! ### sums over finite maps -/

def amapSum {α : Type} (f : α → Nat) (m : AMap α) : Nat := (m.map (fun e => f e.2)).sum

theorem amapSum_cons {α : Type} (f : α → Nat) (k : Nat) (v : α) (m : AMap α) :
    amapSum f ((k, v) :: m) = f v + amapSum f m := by
  simp [amapSum]

theorem amapSum_filter_le {α : Type} (f : α → Nat) (p : Nat × α → Bool) (m : AMap α) :
    amapSum f (m.filter p) ≤ amapSum f m := by
  induction m with
  | nil => exact Nat.le_refl _
  | cons e r ih =>
    obtain ⟨k, v⟩ := e
    rw [List.filter_cons]
    split
    · rw [amapSum_cons, amapSum_cons]; omega
    · rw [amapSum_cons]; omega

theorem amapSum_filter_get {α : Type} [Inhabited α] (f : α → Nat) (hf : f default = 0) (m : AMap α) (k : Nat) :
    amapSum f (m.filter (fun e => e.1 != k)) + f (m.get k) ≤ amapSum f m := by
  induction m with
  | nil => simp [amapSum, AMap.get, hf]
  | cons e r ih =>
    obtain ⟨k', v⟩ := e
    rw [List.filter_cons]
    by_cases hk : k = k'
    · subst hk
      have h1 := amapSum_filter_le f (fun e => e.1 != k) r
      have hg : AMap.get ((k, v) :: r) k = v := by simp [AMap.get]
      rw [hg, amapSum_cons]
      simp only [bne_self_eq_false, Bool.false_eq_true, if_false]
      omega
    · have hne : (k' != k) = true := by simp; exact fun h => hk h.symm
      have hg : AMap.get ((k', v) :: r) k = AMap.get r k := by simp [AMap.get, hk]
      rw [hg, amapSum_cons]
      simp only [hne, if_true]
      rw [amapSum_cons]
      omega

/-- replacing the entry of `k`: the sum changes by at most the difference of the two values -/
theorem amapSum_upd {α : Type} [Inhabited α] (f : α → Nat) (hf : f default = 0) (m : AMap α) (k : Nat) (v : α) :
    amapSum f (upd m k v) + f (m.get k) ≤ amapSum f m + f v := by
  have := amapSum_filter_get f hf m k
  unfold upd
  rw [amapSum_cons]
  omega

theorem usersWeight_eq (m : AMap U) : usersWeight m = amapSum (fun u => wlen u.buf) m := rfl
theorem netWeight_eq (m : AMap Net) : netWeight m = amapSum (fun n => 4 * n.rx.length) m := rfl

theorem wlen_nil : wlen [] = 0 := rfl

theorem usersWeight_upd (m : AMap U) (k : Nat) (v : U) :
    usersWeight (upd m k v) + wlen (m.get k).buf ≤ usersWeight m + wlen v.buf := by
  rw [usersWeight_eq, usersWeight_eq]
  exact amapSum_upd (fun u => wlen u.buf) rfl m k v

theorem netWeight_upd (m : AMap Net) (k : Nat) (v : Net) :
    netWeight (upd m k v) + 4 * (m.get k).rx.length ≤ netWeight m + 4 * v.rx.length := by
  rw [netWeight_eq, netWeight_eq]
  exact amapSum_upd (fun n => 4 * n.rx.length) rfl m k v

theorem usersWeight_upd_le (m : AMap U) (k : Nat) (v : U) (h : wlen v.buf ≤ wlen (m.get k).buf) :
    usersWeight (upd m k v) ≤ usersWeight m := by
  have := usersWeight_upd m k v; omega

theorem usersWeight_upd_lt (m : AMap U) (k : Nat) (v : U) (h : wlen v.buf < wlen (m.get k).buf) :
    usersWeight (upd m k v) < usersWeight m := by
  have := usersWeight_upd m k v; omega

/-! ### weighted length -/

theorem wlen_cons (c : Char) (b : List Char) : wlen (c :: b) = (if c == CR || c == LF then 2 else 1) + wlen b := by
  simp [wlen]

theorem wlen_append (a b : List Char) : wlen (a ++ b) = wlen a + wlen b := by
  induction a with
  | nil => simp [wlen]
  | cons c r ih => rw [List.cons_append, wlen_cons, wlen_cons, ih]; omega

theorem wlen_cons_pos (c : Char) (b : List Char) : wlen b < wlen (c :: b) := by
  rw [wlen_cons]; split <;> omega

theorem wlen_cons_le4 (c : Char) (b : List Char) : wlen (c :: b) ≤ 2 + wlen b := by
  rw [wlen_cons]; split <;> omega

theorem wlen_dropWhile_le (p : Char → Bool) (b : List Char) : wlen (b.dropWhile p) ≤ wlen b := by
  induction b with
  | nil => exact Nat.le_refl _
  | cons c r ih =>
    rw [List.dropWhile_cons]
    split
    · have := wlen_cons_pos c r; omega
    · exact Nat.le_refl _

theorem dropWhile_head (p : Char → Bool) (b : List Char) (c : Char) (r : List Char) (h : b.dropWhile p = c :: r) :
    p c = false := by
  induction b with
  | nil => simp at h
  | cons x xs ih =>
    rw [List.dropWhile_cons] at h
    split at h
    · exact ih h
    · rename_i hx
      simp only [List.cons.injEq] at h
      rw [← h.1]; simpa using hx

theorem wlen_dropNul_le (b : List Char) : wlen (dropNul b) ≤ wlen b := wlen_dropWhile_le _ b

theorem wlen_copyChars (single : Bool) (d : List Char) : wlen (copyChars single d) ≤ 4 * d.length := by
  induction d with
  | nil => simp [copyChars, wlen]
  | cons c r ih =>
    have hc : copyChars single (c :: r) =
        (if c == '~' then (if single then [CR, LF] else [' ', BS, NUL]) else [c]) ++ copyChars single r := by
      simp [copyChars]
    rw [hc, wlen_append, List.length_cons]
    have h3 : wlen [' ', BS, NUL] = 3 := by decide
    have h4 : wlen [CR, LF] = 4 := by decide
    have h1 : wlen [c] ≤ 2 := by have := wlen_cons_le4 c []; simpa [wlen_nil] using this
    split
    · split
      · rw [h4]; omega
      · rw [h3]; omega
    · omega

theorem wlen_reframeAux (r : List Char) :
    wlen (reframeAux false r) ≤ wlen r ∧ wlen (reframeAux true r) ≤ wlen r + 2 := by
  induction r with
  | nil => simp [reframeAux, wlen]
  | cons c r ih =>
    obtain ⟨i1, i2⟩ := ih
    constructor
    · -- state false
      unfold reframeAux
      by_cases hcr : (c == CR) = true
      · simp only [hcr, if_true]
        rw [wlen_cons]; simp only [hcr, Bool.true_or, if_true]; omega
      · simp only [hcr, Bool.false_eq_true, if_false]
        rw [wlen_cons, wlen_cons]; omega
    · -- state true
      unfold reframeAux
      by_cases hlf : (c == LF) = true
      · simp only [hlf, if_true]
        have h3 : wlen (' ' :: BS :: NUL :: reframeAux false r) = 3 + wlen (reframeAux false r) := by
          rw [wlen_cons, wlen_cons, wlen_cons]
          have a1 : ((' ' == CR) || (' ' == LF)) = false := by decide
          have a2 : ((BS == CR) || (BS == LF)) = false := by decide
          have a3 : ((NUL == CR) || (NUL == LF)) = false := by decide
          simp only [a1, a2, a3, Bool.false_eq_true, if_false]
          omega
        rw [h3, wlen_cons]; simp only [hlf, Bool.or_true, if_true]; omega
      · simp only [hlf, Bool.false_eq_true, if_false]
        by_cases hcr : (c == CR) = true
        · simp only [hcr, if_true]
          rw [wlen_cons]; simp only [hcr, Bool.true_or, if_true]; omega
        · simp only [hcr, Bool.false_eq_true, if_false]
          rw [wlen_cons, wlen_cons]; omega

theorem wlen_reframe (b : List Char) : wlen (reframe b) ≤ wlen b := (wlen_reframeAux b).1

/-- what first_cmd_in_buf leaves buffered is not heavier; when it finds a command, stepping over it with
    next_cmd_in_buf makes the buffer strictly lighter -/
theorem firstCmd_wlen (single : Bool) (b : List Char) :
    wlen (firstCmd single b).1 ≤ wlen b ∧
      ((firstCmd single b).2.isSome = true → wlen (nextCmd (firstCmd single b).1) < wlen (firstCmd single b).1) := by
  have hd := wlen_dropNul_le b
  have hstrict : (dropNul b).isEmpty = false → wlen (nextCmd (dropNul b)) < wlen (dropNul b) := by
    intro hne
    cases hb : dropNul b with
    | nil => rw [hb] at hne; cases hne
    | cons c r =>
      have hc : (c == NUL) = false := dropWhile_head (· == NUL) b c r hb
      have hne' : (c != NUL) = true := by simp [bne, hc]
      unfold nextCmd
      rw [List.dropWhile_cons]
      simp only [hne', if_true]
      have h1 := wlen_dropNul_le (r.dropWhile (· != NUL))
      have h2 := wlen_dropWhile_le (· != NUL) r
      have h3 := wlen_cons_pos c r
      omega
  unfold firstCmd
  dsimp only
  split
  · exact ⟨by simp [wlen], fun h => by cases h⟩
  · rename_i hne
    have hne' : (dropNul b).isEmpty = false := by simpa using hne
    split
    · exact ⟨hd, fun _ => hstrict hne'⟩
    · split
      · exact ⟨hd, fun _ => hstrict hne'⟩
      · exact ⟨hd, fun h => by cases h⟩

/-! ### `weight` never grows inside an iteration, and `thrown` is only set by scripts -/

/-- nothing heavier, same `thrown` -/
def WLe (a b : World) : Prop := weight b ≤ weight a ∧ b.thrown = a.thrown

theorem WLe.refl (a : World) : WLe a a := ⟨Nat.le_refl _, rfl⟩
theorem WLe.trans {a b c : World} (h1 : WLe a b) (h2 : WLe b c) : WLe a c :=
  ⟨Nat.le_trans h2.1 h1.1, h2.2.trans h1.2⟩

/-- replacing the record of one user by one whose buffer is not heavier -/
theorem WLe_upd (w : World) (k : Nat) (v : U) (h : wlen v.buf ≤ wlen (w.users.get k).buf) :
    WLe w { w with users := upd w.users k v } :=
  ⟨by have := usersWeight_upd_le w.users k v h; simp only [weight]; omega, rfl⟩

theorem grantAll_weight (users : AMap U) (l : List (Option Nat)) : usersWeight (grantAll users l) ≤ usersWeight users := by
  induction l generalizing users with
  | nil => exact Nat.le_refl _
  | cons a r ih =>
    cases a with
    | none => exact ih users
    | some u =>
      unfold grantAll
      split
      · exact Nat.le_trans (ih _) (usersWeight_upd_le users u _ (Nat.le_refl _))
      · exact ih users

theorem accept_WLe (w : World) (k : Nat) : WLe w (accept w k) := by
  refine ⟨?_, rfl⟩
  have := usersWeight_upd_le w.users k ({} : U) (Nat.zero_le _)
  simp only [weight, accept]
  omega

theorem userIO_WLe (w : World) (u : Nat) : WLe w (userIO w u) := by
  unfold userIO
  split
  · refine ⟨?_, rfl⟩
    exact (WLe_upd w u { w.users.get u with cmdInBuf := true } (Nat.le_refl _)).1
  unfold userIO0
  dsimp only
  split
  · refine ⟨?_, rfl⟩
    generalize hb0 : (if roomShort (w.users.get u).buf.length = true then [] else (w.users.get u).buf) = b0
    have hle : wlen b0 ≤ wlen (w.users.get u).buf := by
      rw [← hb0]; split
      · simp [wlen]
      · exact Nat.le_refl _
    have h1 := usersWeight_upd w.users u
      { w.users.get u with buf := b0 ++ copyChars (w.users.get u).single (w.net.get u).rx,
                           cmdInBuf := (w.users.get u).cmdInBuf ||
                             hasCmd (w.users.get u).single (b0 ++ copyChars (w.users.get u).single (w.net.get u).rx) }
    have h2 := netWeight_upd w.net u { w.net.get u with rx := [] }
    have h3 := wlen_copyChars (w.users.get u).single (w.net.get u).rx
    simp only [wlen_append, List.length_nil] at h1 h2
    simp only [weight]
    omega
  · split
    · exact ⟨Nat.le_refl _, rfl⟩
    · exact WLe.refl w

theorem processIO_WLe (w : World) : WLe w (processIO w).1 := by
  have key : ∀ (l : List Nat) (a : World), WLe a (l.foldl userIO a) := by
    intro l
    induction l with
    | nil => intro a; exact WLe.refl a
    | cons u r ih => intro a; exact (userIO_WLe a u).trans (ih _)
  unfold processIO
  dsimp only
  split
  · exact (accept_WLe w _).trans (key _ _)
  · exact key _ _

theorem scanStep_next_WLe (w w' : World) (h : scanStep w = .next w') : WLe w w' := by
  unfold scanStep at h
  split at h
  · cases h
  · cases h; exact WLe.refl w
  · dsimp only at h
    split at h
    · split at h
      · split at h
        · cases h
        · cases h; exact WLe_upd w _ _ (firstCmd_wlen _ _).1
      · cases h; exact WLe_upd w _ _ (firstCmd_wlen _ _).1
    · cases h; exact WLe.refl w

theorem scanStep_found_WLe (w w' : World) (u : Nat) (t : List Char) (h : scanStep w = .found w' u t) :
    WLe w w' ∧ wlen (nextCmd (w'.users.get u).buf) < wlen (w'.users.get u).buf := by
  unfold scanStep at h
  split at h
  · cases h
  · cases h
  · dsimp only at h
    split at h
    · split at h
      · rename_i hsome
        split at h
        · cases h
          refine ⟨WLe_upd w _ _ (firstCmd_wlen _ _).1, ?_⟩
          simp only [get_upd, if_true]
          exact (firstCmd_wlen _ _).2 (by rw [hsome]; rfl)
        · cases h
      · cases h
    · cases h

theorem decCursor_WLe (w : World) : WLe w (decCursor w) := ⟨Nat.le_refl _, rfl⟩

theorem scan_WLe (n : Nat) (w : World) :
    WLe w (scan n w).1 ∧ ∀ u t, (scan n w).2 = some (u, t) →
      wlen (nextCmd ((scan n w).1.users.get u).buf) < wlen ((scan n w).1.users.get u).buf := by
  induction n generalizing w with
  | zero => exact ⟨WLe.refl w, fun u t h => by simp [scan] at h⟩
  | succ n ih =>
    unfold scan
    cases hstep : scanStep w with
    | crash => exact ⟨⟨Nat.le_refl _, rfl⟩, fun u t h => by simp at h⟩
    | found w' u t =>
      obtain ⟨h1, h2⟩ := scanStep_found_WLe w w' u t hstep
      refine ⟨h1, ?_⟩
      intro u' t' he
      simp only [Option.some.injEq, Prod.mk.injEq] at he
      rw [← he.1]; exact h2
    | next w' =>
      have h1 := scanStep_next_WLe w w' hstep
      obtain ⟨i1, i2⟩ := ih (decCursor w')
      exact ⟨h1.trans ((decCursor_WLe w').trans i1), i2⟩

theorem weight_upd_lt (w : World) (k : Nat) (v : U) (h : wlen v.buf < wlen (w.users.get k).buf) :
    weight (decCursor { w with users := upd w.users k v }) < weight w := by
  have := usersWeight_upd_lt w.users k v h
  simp only [weight, decCursor]
  omega

/-- get_user_command: never heavier, same `thrown`; strictly lighter when it hands out a command -/
theorem getUserCommand_WLe (w : World) :
    WLe w (getUserCommand w).1 ∧ ((getUserCommand w).2.isSome = true → weight (getUserCommand w).1 < weight w) := by
  obtain ⟨s1, s2⟩ := scan_WLe (NV.Gen.C12.scanLength w.slots.length) w
  unfold getUserCommand
  cases hsc : scan (NV.Gen.C12.scanLength w.slots.length) w with
  | mk w1 r =>
    rw [hsc] at s1 s2
    cases r with
    | none => exact ⟨s1, fun h => by cases h⟩
    | some p =>
      obtain ⟨u, t⟩ := p
      dsimp only at s1 s2 ⊢
      have hlt := s2 u t rfl
      refine ⟨⟨?_, s1.2⟩, fun _ => ?_⟩
      · apply Nat.le_trans (Nat.le_of_lt ?_) s1.1
        apply weight_upd_lt
        exact hlt
      · apply Nat.lt_of_lt_of_le ?_ s1.1
        apply weight_upd_lt
        exact hlt

theorem setCall_WLe (w : World) (me : Nat) (single : Bool) : WLe w (setCall w me single).1 := by
  unfold setCall
  dsimp only
  split
  · exact WLe.refl w
  · apply WLe_upd
    split <;> exact Nat.le_refl _

/-- scripts never make anything heavier (they may set `thrown`) -/
theorem runOps_weight (sc : Scripts) (f : Nat) (w : World) (me : Nat) (ops : List Op) :
    weight (runOps sc f w me ops).1 ≤ weight w := by
  apply runOps_rel (fun a b => weight b ≤ weight a)
  · exact fun _ => Nat.le_refl _
  · exact fun a b c h1 h2 => Nat.le_trans h2 h1
  · exact fun _ _ => Nat.le_refl _
  · exact fun _ _ => Nat.le_refl _
  · exact fun w me s => (setCall_WLe w me s).1
  · exact fun _ => Nat.le_refl _

theorem endInput_wlen (us : U) : wlen (endInput us).buf ≤ wlen us.buf := by
  unfold endInput
  split
  · exact wlen_reframe _
  · exact Nat.le_refl _

/-- process_user_command: never heavier; a call that served a command made the world strictly lighter; a call that
    served nobody leaves `thrown` alone -/
theorem puc_weight (sc : Scripts) (w : World) :
    weight (processUserCommand sc w).1 ≤ weight w ∧
      ((processUserCommand sc w).2.2 = true → weight (processUserCommand sc w).1 < weight w) ∧
      ((processUserCommand sc w).2.2 = false → (processUserCommand sc w).1.thrown = w.thrown) := by
  obtain ⟨g1, g2⟩ := getUserCommand_WLe w
  unfold processUserCommand
  split
  · exact ⟨Nat.le_refl _, (fun h => by cases h), fun _ => rfl⟩
  · cases hg : getUserCommand w with
    | mk w1 r =>
      rw [hg] at g1 g2
      cases r with
      | none => exact ⟨g1.1, (fun h => by cases h), fun _ => g1.2⟩
      | some p =>
        obtain ⟨u, t⟩ := p
        dsimp only at g1 g2 ⊢
        have hlt := g2 rfl
        have h2 : weight (if (w1.users.get u).inputTo then
            { w1 with users := upd w1.users u (endInput (w1.users.get u)) } else w1) ≤ weight w1 := by
          split
          · exact (WLe_upd w1 u _ (endInput_wlen _)).1
          · exact Nat.le_refl _
        have h3 := runOps_weight sc scriptFuel (if (w1.users.get u).inputTo then
            { w1 with users := upd w1.users u (endInput (w1.users.get u)) } else w1) u (sc u t)
        exact ⟨by omega, (fun _ => by omega), fun h => by cases h⟩

theorem cmdLoop_weight (sc : Scripts) (k : Nat) (w : World) :
    weight (cmdLoop sc k w).1 ≤ weight w ∧
      (w.thrown = false → (cmdLoop sc k w).1.thrown = true → weight (cmdLoop sc k w).1 < weight w) := by
  induction k generalizing w with
  | zero => exact ⟨Nat.le_refl _, fun h1 h2 => by simp only [cmdLoop] at h2; rw [h1] at h2; cases h2⟩
  | succ k ih =>
    obtain ⟨p1, p2, p3⟩ := puc_weight sc w
    unfold cmdLoop
    cases hp : processUserCommand sc w with
    | mk w1 r =>
      obtain ⟨e1, b⟩ := r
      rw [hp] at p1 p2 p3
      dsimp only at p1 p2 p3
      cases b with
      | false =>
        dsimp only
        exact ⟨p1, fun h1 h2 => by rw [p3 rfl, h1] at h2; cases h2⟩
      | true =>
        dsimp only
        obtain ⟨i1, _⟩ := ih w1
        have := p2 rfl
        exact ⟨by omega, fun _ _ => by omega⟩

theorem cycleStep_world' (sc : Scripts) (w : World) :
    (cycleStep sc w).1 = (cmdLoop sc (NV.Gen.C12.loopCalls (connectedUsers w) w.maxUsers)
      (processIO { w with cycle := w.cycle + 1, users := grantAll w.users w.slots }).1).1 := rfl

theorem cmdPhase_WLe (w : World) :
    WLe w (processIO { w with cycle := w.cycle + 1, users := grantAll w.users w.slots }).1 := by
  have h1 : WLe w { w with cycle := w.cycle + 1, users := grantAll w.users w.slots } := by
    refine ⟨?_, rfl⟩
    have := grantAll_weight w.users w.slots
    simp only [weight]; omega
  exact h1.trans (processIO_WLe _)

theorem cycleStep_weight_le (sc : Scripts) (w : World) : weight (cycleStep sc w).1 ≤ weight w := by
  rw [cycleStep_world']
  exact Nat.le_trans (cmdLoop_weight sc _ _).1 (cmdPhase_WLe w).1

/-- **an aborted iteration has consumed input**: an iteration of backend() that ends with an uncaught error is
    strictly lighter than it began - the command that threw was taken out of its user's buffer -/
theorem cycleStep_weight (sc : Scripts) (w : World) (ht : w.thrown = false)
    (h : (cycleStep sc w).1.thrown = true) : weight (cycleStep sc w).1 < weight w := by
  rw [cycleStep_world'] at h ⊢
  have h1 := cmdPhase_WLe w
  have := (cmdLoop_weight sc (NV.Gen.C12.loopCalls (connectedUsers w) w.maxUsers) _).2 (by rw [h1.2]; exact ht) h
  have := h1.1
  omega

end NV.C12
