/-
C12 — geometry of the rotating cursor, for the clause `overtaken` (round robin across aborted iterations).

`rank w s` = number of slots get_user_command still has to look at before it reaches slot `s` (cursor walks downwards
and wraps to `max_users - 1`).  For a set `W` of waiting users that are all eligible (`EligP`) and a relation `Pd v u`
("`u` was served while `v` has been waiting"), `OrdP` says: every waiting user is reached before any user that was served
while he waited.  One scan keeps this (`scan_ord`), and when get_user_command hands out user `x` (`guc_ord`):
  * no waiting user has `x` among the users served while he waited (so `cmd x` overtakes nobody),
  * afterwards `x` lies behind every other waiting user, and the old pairs keep their order.
Growth of the table (accept) keeps the order as well (`rank_grow`).
-/
import NV.C12.Order1

namespace NV.C12

/-- steps of the cursor walk before slot `s` is looked at -/
def rank (w : World) (s : Nat) : Nat :=
  if s ≤ w.cursor then w.cursor - s else w.cursor + w.slots.length - s

/-- user `u` sits in slot `i` -/
def At (w : World) (i u : Nat) : Prop := w.slots[i]? = some (some u)

theorem At_lt (w : World) (i u : Nat) (h : At w i u) : i < w.slots.length := by
  unfold At at h
  cases hlt : decide (i < w.slots.length) with
  | true => exact of_decide_eq_true hlt
  | false =>
    have : w.slots.length ≤ i := by have := of_decide_eq_false hlt; omega
    rw [List.getElem?_eq_none this] at h; cases h

theorem At_interactive (w : World) (i u : Nat) (h : At w i u) : w.interactive u = true := by
  unfold At at h
  simp only [World.interactive, List.contains_iff_mem]
  exact List.mem_of_getElem? h

theorem interactive_At (w : World) (u : Nat) (h : w.interactive u = true) : ∃ i, At w i u := by
  obtain ⟨j, _, hj⟩ := mem_interactive w u h
  exact ⟨j, hj⟩

theorem rank_lt (w : World) (s : Nat) (hc : w.cursor < w.slots.length) (hs : s < w.slots.length) :
    rank w s < w.slots.length := by
  unfold rank; split <;> omega

/-- one step of the cursor: the slot just looked at goes to the end of the walk, every other slot comes one step closer -/
theorem rank_dec (w : World) (s : Nat) (hc : w.cursor < w.slots.length) (hs : s < w.slots.length) :
    rank (decCursor w) s = (if s = w.cursor then w.slots.length - 1 else rank w s - 1) ∧
      (s ≠ w.cursor → 1 ≤ rank w s) := by
  have key : (decCursor w).cursor = if w.cursor = 0 then w.slots.length - 1 else w.cursor - 1 := by
    simp [decCursor]
  have hl : (decCursor w).slots.length = w.slots.length := rfl
  unfold rank
  rw [key, hl]
  constructor
  · by_cases h0 : w.cursor = 0
    · rw [if_pos h0]
      by_cases h1 : s = w.cursor
      · rw [if_pos h1, if_pos (by omega : s ≤ w.slots.length - 1)]; omega
      · rw [if_neg h1, if_pos (by omega : s ≤ w.slots.length - 1), if_neg (by omega : ¬ s ≤ w.cursor)]; omega
    · rw [if_neg h0]
      by_cases h1 : s = w.cursor
      · rw [if_pos h1, if_neg (by omega : ¬ s ≤ w.cursor - 1)]; omega
      · rw [if_neg h1]
        by_cases h2 : s ≤ w.cursor
        · rw [if_pos (by omega : s ≤ w.cursor - 1), if_pos h2]; omega
        · rw [if_neg (by omega : ¬ s ≤ w.cursor - 1), if_neg h2]; omega
  · intro hne
    by_cases h2 : s ≤ w.cursor
    · rw [if_pos h2]; omega
    · rw [if_neg h2]; omega

theorem rank_dec_users (w1 : World) (us : AMap U) (s : Nat) :
    rank (decCursor { w1 with users := us }) s = rank (decCursor w1) s := rfl

theorem rank_cursor (w : World) : rank w w.cursor = 0 := by simp [rank]

/-- the table grows at its end while the cursor stays: slots at or below the cursor keep their rank, the others move
    back by the growth -/
theorem rank_grow (w w' : World) (s d : Nat) (hc : w'.cursor = w.cursor) (hl : w'.slots.length = w.slots.length + d)
    (hs : s < w.slots.length) :
    rank w' s = if s ≤ w.cursor then rank w s else rank w s + d := by
  unfold rank
  rw [hc, hl]
  by_cases h : s ≤ w.cursor
  · simp only [h, if_true]
  · simp only [h, if_false]; omega

/-! ### one scan -/

def OrdP (W : Nat → Prop) (Pd : Nat → Nat → Prop) (w : World) : Prop :=
  ∀ i j v u, At w i v → At w j u → W v → Pd v u → rank w i < rank w j

def EligP (W : Nat → Prop) (w : World) : Prop := ∀ v, W v → elig w v = true

theorem scanStep_found_at (w w' : World) (x : Nat) (t : List Char) (h : scanStep w = .found w' x t) : At w w.cursor x := by
  unfold scanStep at h
  split at h
  · cases h
  · cases h
  · rename_i u hu
    dsimp only at h
    split at h
    · split at h
      · split at h
        · cases h; exact hu
        · cases h
      · cases h
    · cases h

/-- a slot that the scan passes over does not hold an eligible user, and nobody else's record is touched -/
theorem scanStep_next_facts (w w' : World) (h : scanStep w = .next w') :
    (∀ y, At w w.cursor y → elig w y = false) ∧ (∀ v, ¬ At w w.cursor v → w'.users.get v = w.users.get v) := by
  unfold scanStep at h
  split at h
  · cases h
  · rename_i hnone
    cases h
    exact ⟨(fun y hy => by unfold At at hy; rw [hnone] at hy; cases hy), fun _ _ => rfl⟩
  · rename_i u hu
    dsimp only at h
    have hat : ∀ y, At w w.cursor y → y = u := by
      intro y hy; unfold At at hy; rw [hu] at hy; cases hy; rfl
    split at h
    · rename_i hcib
      split at h
      · rename_i tt htt
        split at h
        · cases h
        · rename_i hturn
          cases h
          refine ⟨?_, ?_⟩
          · intro y hy
            rw [hat y hy]
            simp only [elig, ready, turnOf]
            have : (w.users.get u).turn = false := by simpa using hturn
            simp [this]
          · intro v hv
            have : v ≠ u := fun hh => hv (by rw [hh]; exact hu)
            simp only [get_upd, this, if_false]
      · rename_i hnone
        cases h
        refine ⟨?_, ?_⟩
        · intro y hy
          rw [hat y hy]
          simp only [elig, ready, hasCmd]
          have : (firstCmd (w.users.get u).single (w.users.get u).buf).2.isSome = false := by
            rw [hnone]; rfl
          simp [this]
        · intro v hv
          have : v ≠ u := fun hh => hv (by rw [hh]; exact hu)
          simp only [get_upd, this, if_false]
    · rename_i hcib
      cases h
      refine ⟨?_, fun _ _ => rfl⟩
      intro y hy
      rw [hat y hy]
      simp only [elig, ready]
      have : (w.users.get u).cmdInBuf = false := by simpa using hcib
      simp [this]

theorem elig_congr' (w w' : World) (v : Nat) (hs : w'.slots = w.slots) (hu : w'.users.get v = w.users.get v) :
    elig w' v = elig w v := by
  simp only [elig, World.interactive, ready, turnOf, hs, hu]

/-- one scan keeps the order; when it finds user `x`, `x` sits under the cursor and every waiting user other than `x`
    is still eligible -/
theorem scan_ord (W : Nat → Prop) (Pd : Nat → Nat → Prop) (n : Nat) (w : World) (hs : Safe w)
    (hn : n = 0 ∨ 0 < w.slots.length) (he : EligP W w) (ho : OrdP W Pd w) :
    ∀ x t, (scan n w).2 = some (x, t) →
      At (scan n w).1 (scan n w).1.cursor x ∧ (scan n w).1.slots = w.slots ∧ Safe (scan n w).1 ∧
      OrdP W Pd (scan n w).1 := by
  induction n generalizing w with
  | zero => intro x t h; simp [scan] at h
  | succ n ih =>
    have hpos : 0 < w.slots.length := by omega
    have hcur : w.cursor < w.slots.length := by
      rcases hs.2 with h | h
      · exact h
      · omega
    intro x t
    unfold scan
    cases hstep : scanStep w with
    | crash => intro h; simp at h
    | found w' y t' =>
      intro h
      simp only [Option.some.injEq, Prod.mk.injEq] at h
      obtain ⟨hy, _⟩ := h
      subst hy
      obtain ⟨f1, f2, f3, _, _⟩ := scanStep_found w w' y t' hstep
      have hat := scanStep_found_at w w' y t' hstep
      refine ⟨by unfold At at hat ⊢; rw [f1, f2]; exact hat, f1, ⟨by rw [f3]; exact hs.1, by rw [f1, f2]; exact hs.2⟩, ?_⟩
      intro i j v u hi hj hw hp
      have := ho i j v u (by unfold At at hi ⊢; rw [← f1]; exact hi) (by unfold At at hj ⊢; rw [← f1]; exact hj) hw hp
      simpa [rank, f1, f2] using this
    | next w' =>
      obtain ⟨n1, n2, n3, _⟩ := scanStep_next w w' hstep
      obtain ⟨g1, g2⟩ := scanStep_next_facts w w' hstep
      have hs' : Safe w' := ⟨by rw [n3]; exact hs.1, by rw [n1, n2]; exact hs.2⟩
      have hsd : Safe (decCursor w') := decCursor_safe w' hs' (by rw [n1]; exact hpos)
      have hcur' : w'.cursor < w'.slots.length := by rw [n1, n2]; exact hcur
      have hat' : ∀ i v, At w' i v ↔ At w i v := by intro i v; unfold At; rw [n1]
      -- waiting users are not under the cursor
      have hnotW : ∀ v, W v → ¬ At w w.cursor v := by
        intro v hw hat
        have := g1 v hat
        rw [he v hw] at this; cases this
      have he' : EligP W (decCursor w') := by
        intro v hw
        have : elig (decCursor w') v = elig w v := by
          apply elig_congr'
          · simp [n1]
          · simp only [decCursor_users]; exact g2 v (hnotW v hw)
        rw [this]; exact he v hw
      have ho' : OrdP W Pd (decCursor w') := by
        intro i j v u hi hj hw hp
        have hi0 : At w i v := by rw [← hat' i v]; unfold At at hi ⊢; simpa using hi
        have hj0 : At w j u := by rw [← hat' j u]; unfold At at hj ⊢; simpa using hj
        have hlt := ho i j v u hi0 hj0 hw hp
        have hil := At_lt w i v hi0
        have hjl := At_lt w j u hj0
        have hine : i ≠ w.cursor := fun hh => hnotW v hw (by rw [← hh]; exact hi0)
        have hjne : j ≠ w.cursor := by
          intro hh
          rw [hh, rank_cursor] at hlt; omega
        obtain ⟨ri, ri1⟩ := rank_dec w' i hcur' (by rw [n1]; exact hil)
        obtain ⟨rj, rj1⟩ := rank_dec w' j hcur' (by rw [n1]; exact hjl)
        have hrw : ∀ s, rank w' s = rank w s := by intro s; simp [rank, n1, n2]
        rw [ri, rj]
        simp only [n2, hine, hjne, if_false, hrw]
        have := ri1 (by rw [n2]; exact hine)
        rw [hrw] at this
        omega
      intro h
      obtain ⟨a1, a2, a3, a4⟩ := ih (decCursor w') hsd (Or.inr (by simpa [n1] using hpos)) he' ho' x t h
      exact ⟨a1, by rw [a2]; simp [n1], a3, a4⟩

/-- get_user_command hands out user `x` -/
theorem guc_ord (W : Nat → Prop) (Pd : Nat → Nat → Prop) (w : World) (hs : Safe w) (he : EligP W w) (ho : OrdP W Pd w)
    (x : Nat) (t : List Char) (h : (getUserCommand w).2 = some (x, t)) :
    ∃ c, At w c x ∧ (getUserCommand w).1.slots = w.slots ∧
      (∀ i v, At w i v → W v → ¬ Pd v x) ∧
      (∀ i j v u, At w i v → At w j u → W v → i ≠ c → Pd v u → rank (getUserCommand w).1 i < rank (getUserCommand w).1 j) ∧
      (∀ i v, At w i v → W v → i ≠ c → rank (getUserCommand w).1 i < rank (getUserCommand w).1 c) := by
  have hn : w.slots.length = 0 ∨ 0 < w.slots.length := by omega
  have hsc := scan_ord W Pd w.slots.length w hs hn he ho
  unfold getUserCommand at h ⊢
  simp only [scanLength_spec] at h ⊢
  cases hscan : scan w.slots.length w with
  | mk w1 r =>
    rw [hscan] at hsc h
    cases r with
    | none => simp at h
    | some p =>
      obtain ⟨y, t0⟩ := p
      dsimp only at h hsc ⊢
      simp only [Option.some.injEq, Prod.mk.injEq] at h
      obtain ⟨hy, _⟩ := h
      subst hy
      obtain ⟨a1, a2, a3, a4⟩ := hsc y t0 rfl
      have hat : ∀ i v, At w1 i v ↔ At w i v := by intro i v; unfold At; rw [a2]
      have hc1 : w1.cursor < w1.slots.length := At_lt w1 _ y a1
      refine ⟨w1.cursor, (hat _ _).mp a1, by simp [a2], ?_, ?_, ?_⟩
      · intro i v hi hw hp
        have := a4 i w1.cursor v y ((hat i v).mpr hi) a1 hw hp
        rw [rank_cursor] at this; omega
      · intro i j v u hi hj hw hic hp
        have hlt := a4 i j v u ((hat i v).mpr hi) ((hat j u).mpr hj) hw hp
        have hil : i < w1.slots.length := At_lt w1 i v ((hat i v).mpr hi)
        have hjl : j < w1.slots.length := At_lt w1 j u ((hat j u).mpr hj)
        have hjc : j ≠ w1.cursor := by
          intro hh; rw [hh, rank_cursor] at hlt; omega
        show rank (decCursor w1) i < rank (decCursor w1) j
        obtain ⟨ri, ri1⟩ := rank_dec w1 i hc1 hil
        obtain ⟨rj, _⟩ := rank_dec w1 j hc1 hjl
        rw [ri, rj]
        simp only [hic, hjc, if_false]
        have := ri1 hic
        omega
      · intro i v hi hw hic
        have hil : i < w1.slots.length := At_lt w1 i v ((hat i v).mpr hi)
        show rank (decCursor w1) i < rank (decCursor w1) w1.cursor
        obtain ⟨ri, ri1⟩ := rank_dec w1 i hc1 hil
        obtain ⟨rc, _⟩ := rank_dec w1 w1.cursor hc1 hc1
        rw [ri, rc]
        simp only [hic, if_false, if_true]
        have := rank_lt w1 i hc1 hil
        have := ri1 hic
        omega

end NV.C12
