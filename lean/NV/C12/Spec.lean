/-
C12 — specification oracle.  `judgeEv` decides, for a trace of observable events (of the model or of the real driver),
whether property C12 held on it.  It knows nothing about slots, cursors or iflags; it keeps, per user, the bytes the
client has sent and that no executed command has consumed yet, whether the user is still connected, and whether it
was already served in the running cycle.

Clauses (one `Viol` constructor each):
  * `twice`     a second buffered command of one user inside one backend cycle
  * `starved`   a user that was connected when the cycle began, is still connected when it ends and had a complete
                command waiting when it began (a full line; any byte at all in single-char mode) was not served
  * `fifo`      an executed command is not the oldest unconsumed input of its user (a complete line in line mode,
                a non-empty prefix in single-char mode) - order, loss and duplication
  * `idleWait`  backend asked the poller to block although a connected user already had a complete command buffered
  * `overtaken` a user is served a second time while another user, who had a complete command at the top of an
                iteration, still waits for his first service (only possible across iterations aborted by an error)
  * `typeaheadDiscard`  the executed command is not the oldest pending input of a user whose backlog had reached the size
                at which get_user_data discards the text buffer: the open finding C13-typeahead-discard, reported under
                its own name (and the oracle resynchronises on the executed line)
  * `efun`      a command() call on a live object was not executed at once (command() is not turn-limited:
                `ecmd` events never count for `twice`)
  * `outside`, `crash`, `malformed`  robustness of the trace itself
An iteration of backend() that an uncaught LPC error leaves by longjmp ends with `abort n` instead of `end n`: `twice`
is judged inside it, `starved` is not (the loop restarts at once, turns are granted again and the restarted cycle is
judged in full; its `poll` must not block when somebody still has a complete command).
A user who connects during a cycle is served from the next cycle on (documented protocol: turns are granted at the
top of the cycle); a user whose client has closed or who was kicked/dropped is exempt from `starved`.
-/
import NV.C12.Model

namespace NV.C12

inductive Viol where
  | twice (u n : Nat)
  | starved (u n : Nat)
  | fifo (u : Nat) (text : List Char)
  | idleWait (n u : Nat)
  | overtaken (u v n : Nat)
  | typeaheadDiscard (u : Nat) (text : List Char)
  | efun (target : Nat) (text : List Char)
  | outside (u : Nat)
  | crash (what : String)
  | malformed (line : String)
  deriving Repr, BEq, DecidableEq

/-! ### consuming an executed command from the bytes a user has sent (`~` = end of line) -/

/-- single-char mode: `text` is the raw form (CR LF for every `~`) of a prefix of `p`; the rest of `p` -/
def stripRaw : List Char → List Char → Option (List Char)
  | [], p => some p
  | _ :: _, [] => none
  | c :: t, x :: p =>
    if x == '~' then
      match t with
      | d :: t' => if c == CR && d == LF then stripRaw t' p else none
      | [] => none
    else if c == x then stripRaw t p else none

/-- consume an executed command from the pending input; `none` = it is not the oldest input.
    Line rule: `text` followed by the line end is a prefix.  Single-char rule: the non-empty `text` is the raw form of
    a prefix (everything typed so far may arrive as one "character"). -/
def consume (charMode : Bool) (p text : List Char) : Option (List Char) :=
  let line := text ++ ['~']
  if line.isPrefixOf p then some (p.drop line.length)
  else if charMode && !text.isEmpty then stripRaw text p else none

/-- size of the sent bytes once buffered in line mode (`~` becomes three bytes) -/
def encLen (p : List Char) : Nat := p.length + 2 * p.count '~'

/-- drop whole lines from the front of `p` up to and including the first line equal to `text`; `p` when there is none -/
def resyncAux (text : List Char) : Nat → List Char → Option (List Char)
  | 0, _ => none
  | fuel + 1, p =>
    let line := p.takeWhile (· != '~')
    match p.dropWhile (· != '~') with
    | [] => none
    | _ :: rest => if line == text then some rest else resyncAux text fuel rest

/-- what the oracle does with an executed command that is not the oldest pending input: when the backlog of the user
    is large enough for get_user_data's discard rule (C13 open finding `C13-typeahead-discard`: pending text of
    `roomShort` length is thrown away, complete commands included), resynchronise on the executed line; otherwise
    keep the backlog -/
def onMiss (p text : List Char) : List Char :=
  if roomShort (encLen p) then (resyncAux text (p.length + 1) p).getD p else p

/-- a complete command is waiting -/
def complete (charMode : Bool) (p : List Char) : Bool :=
  if charMode then !p.isEmpty else p.contains '~'

/-! ### clause oracle 1: structure of the trace and one command per user per cycle -/

structure SState where
  cyc : Option Nat := none
  served : List Nat := []        -- users served in the running cycle
  bad : List Viol := []          -- newest first

/-- clauses `twice`, `outside`, `crash`, `malformed` -/
def structStep (s : SState) (e : Ev) : SState :=
  match e with
  | .begin n =>
    { cyc := some n, served := [], bad := if s.cyc.isSome then .malformed "nested begin" :: s.bad else s.bad }
  | .cmd u _ =>
    let b1 := if s.cyc.isNone then .outside u :: s.bad else s.bad
    let b2 := if s.served.contains u then .twice u (s.cyc.getD 0) :: b1 else b1
    { s with served := u :: s.served, bad := b2 }
  | .endc n _ _ =>
    { cyc := none, served := [], bad := if s.cyc != some n then .malformed "end without begin" :: s.bad else s.bad }
  | .abort n =>   -- an iteration left by an uncaught error ends here; the next `begin` opens a new cycle
    { cyc := none, served := [], bad := if s.cyc != some n then .malformed "abort without begin" :: s.bad else s.bad }
  | .crash w => { s with bad := .crash w :: s.bad }
  | .other l => { s with bad := .malformed l :: s.bad }
  | _ => s

def judgeStruct (trace : List Ev) : List Viol := (trace.foldl structStep {}).bad.reverse

/-! ### clause oracle 2: command() is executed at once -/

structure EState where
  expect : Option (Nat × List Char) := none
  bad : List Viol := []

/-- clause `efun`: a requested command() on a live object must be the very next event -/
def efunStep (s : EState) (e : Ev) : EState :=
  let s1 : EState :=
    match s.expect with
    | none => s
    | some (t, x) => if e = Ev.ecmd t x then { s with expect := none } else { expect := none, bad := .efun t x :: s.bad }
  match e with
  | .force _ t x true => { s1 with expect := some (t, x) }
  | _ => s1

def judgeEfun (trace : List Ev) : List Viol :=
  let s := trace.foldl efunStep {}
  let bad : List Viol := match s.expect with
    | some (t, x) => Viol.efun t x :: s.bad
    | none => s.bad
  bad.reverse

/-! ### clause oracle 3: commands of one user execute in the order received -/

structure FU where
  pending : List Char := []      -- sent and not yet consumed by an executed command
  charMode : Bool := false       -- a get_char() succeeded since this user's last command
  deriving Repr, BEq, DecidableEq, Inhabited

structure FState where
  us : AMap FU := []
  bad : List Viol := []

/-- clause `fifo` -/
def fifoStep (s : FState) (e : Ev) : FState :=
  match e with
  | .send u d => { s with us := upd s.us u { s.us.get u with pending := (s.us.get u).pending ++ d } }
  | .gc u true => { s with us := upd s.us u { s.us.get u with charMode := true } }
  | .cmd u text =>
    match consume (s.us.get u).charMode (s.us.get u).pending text with
    | some p => { s with us := upd s.us u { pending := p, charMode := false } }
    | none =>
      { us := upd s.us u { pending := onMiss (s.us.get u).pending text, charMode := false },
        bad := (if roomShort (encLen (s.us.get u).pending) then Viol.typeaheadDiscard u text else .fifo u text) :: s.bad }
  | _ => s

def judgeFifo (trace : List Ev) : List Viol := (trace.foldl fifoStep {}).bad.reverse

/-! ### clause oracle 4: nobody waits - starvation and idle poll -/

structure JU where
  connected : Bool := false      -- logged on and not removed by the driver side (kick / drop)
  clientOpen : Bool := true      -- the client has not closed its socket
  pending : List Char := []      -- sent before the last `begin`, not yet consumed
  fresh : List Char := []        -- sent after the last `begin`
  charMode : Bool := false
  served : Bool := false         -- in the running cycle
  eligible : Bool := false       -- snapshot taken at `begin`
  deriving Repr, BEq, DecidableEq, Inhabited

structure JState where
  us : AMap JU := []
  ids : List Nat := []           -- users that have logged on
  mustNotBlock : Option Nat := none
  bad : List Viol := []          -- newest first

def live (j : JU) : Bool := j.connected && j.clientOpen

/-- clauses `starved`, `idleWait` -/
def judgeStep (s : JState) (e : Ev) : JState :=
  match e with
  | .logon u => { s with us := upd s.us u { connected := true }, ids := u :: s.ids }
  | .send u d => { s with us := upd s.us u { s.us.get u with fresh := (s.us.get u).fresh ++ d } }
  | .close u => { s with us := upd s.us u { s.us.get u with clientOpen := false } }
  | .begin _ =>
    let blocker := s.ids.find? (fun u => live (s.us.get u) && complete (s.us.get u).charMode (s.us.get u).pending)
    let us := s.ids.foldl (fun m u =>
      let j := s.us.get u
      let p := j.pending ++ j.fresh
      upd m u { j with pending := p, fresh := [], served := false, eligible := live j && complete j.charMode p }) s.us
    { s with us := us, mustNotBlock := blocker }
  | .poll n block =>
    match s.mustNotBlock, block with
    | some u, true => { s with bad := .idleWait n u :: s.bad }
    | _, _ => s
  | .cmd u text =>
    let j := s.us.get u
    { s with us := upd s.us u { j with pending := (consume j.charMode j.pending text).getD (onMiss j.pending text),
                                         served := true, charMode := false } }
  | .kick _ t true => { s with us := upd s.us t { s.us.get t with connected := false } }
  | .drop _ t true => { s with us := upd s.us t { s.us.get t with connected := false } }
  | .gc u true => { s with us := upd s.us u { s.us.get u with charMode := true } }
  | .endc n _ _ =>
    let starved := s.ids.filter (fun u => (s.us.get u).eligible && live (s.us.get u) && !(s.us.get u).served)
    { s with bad := starved.map (fun u => Viol.starved u n) ++ s.bad, mustNotBlock := none }
  | .abort _ =>   -- aborted iteration: nobody is owed service by it; the loop restarts at once and the snapshot of the
                  -- next `begin` (taken before anything else can happen) owes it again
    { s with mustNotBlock := none }
  | _ => s

def judgeLive (trace : List Ev) : List Viol := (trace.foldl judgeStep {}).bad.reverse

/-! ### clause oracle 5: round robin survives aborted iterations -/

structure OU where
  connected : Bool := false
  clientOpen : Bool := true
  pending : List Char := []      -- sent and not yet consumed (before or after the last `begin`)
  charMode : Bool := false
  waiting : Bool := false        -- had a complete command at a `begin` and has not been served since
  passed : List Nat := []        -- users served while this one has been waiting
  deriving Repr, BEq, DecidableEq, Inhabited

structure OState where
  us : AMap OU := []
  ids : List Nat := []
  cyc : Nat := 0
  bad : List Viol := []

def oLive (j : OU) : Bool := j.connected && j.clientOpen

/-- `begin`: a live user with a complete command starts (or goes on) waiting -/
def obeginU (j : OU) : OU :=
  if oLive j && complete j.charMode j.pending then
    (if j.waiting then j else { j with waiting := true, passed := [] })
  else { j with waiting := false, passed := [] }

/-- `cmd u text` seen by the record of user `v`: `u` itself is served; everybody who waits remembers `u` -/
def ocmdU (u : Nat) (text : List Char) (v : Nat) (j : OU) : OU :=
  if v == u then
    { j with pending := (consume j.charMode j.pending text).getD (onMiss j.pending text), charMode := false,
             waiting := false, passed := [] }
  else if j.waiting then { j with passed := u :: j.passed } else j

/-- `end`: a completed iteration owes nothing any more -/
def oendU (j : OU) : OU := { j with waiting := false, passed := [] }

/-- clause `overtaken`: nobody is served a second time while somebody else, who had a complete command at the top of
    an iteration, is still waiting for his first service.  In a completed iteration this follows from `starved` and
    `twice`; the clause speaks about iterations that an uncaught error aborts: the restarted loop must go on with the
    users that were still waiting (the cursor was stepped past the served ones), not start over with the same ones. -/
def orderStep (s : OState) (e : Ev) : OState :=
  match e with
  | .logon u => { s with us := upd s.us u { connected := true }, ids := u :: s.ids }
  | .send u d => { s with us := upd s.us u { s.us.get u with pending := (s.us.get u).pending ++ d } }
  | .close u => { s with us := upd s.us u { s.us.get u with clientOpen := false } }
  | .kick _ t true => { s with us := upd s.us t { s.us.get t with connected := false } }
  | .drop _ t true => { s with us := upd s.us t { s.us.get t with connected := false } }
  | .gc u true => { s with us := upd s.us u { s.us.get u with charMode := true } }
  | .begin n =>
    { s with us := s.ids.foldl (fun m u => upd m u (obeginU (s.us.get u))) s.us, cyc := n }
  | .cmd u text =>
    let victims := s.ids.filter (fun v => v != u && (s.us.get v).waiting && oLive (s.us.get v) && (s.us.get v).passed.contains u)
    { s with us := s.ids.foldl (fun m v => upd m v (ocmdU u text v (s.us.get v))) s.us,
             bad := victims.reverse.map (fun v => Viol.overtaken u v s.cyc) ++ s.bad }
  | .endc _ _ _ =>   -- a completed iteration owes nothing any more (clause `starved` has judged it)
    { s with us := s.ids.foldl (fun m u => upd m u (oendU (s.us.get u))) s.us }
  | _ => s

def judgeOrder (trace : List Ev) : List Viol := (trace.foldl orderStep {}).bad.reverse

/-- violations on a trace (per clause oracle, oldest first inside each); `[]` = the property held -/
def judgeEv (trace : List Ev) : List Viol :=
  judgeStruct trace ++ judgeEfun trace ++ judgeFifo trace ++ judgeLive trace ++ judgeOrder trace

end NV.C12
