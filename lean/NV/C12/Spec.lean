/-
C12 — specification oracle.  `judgeEv` decides, for a trace of observable events (of the model or of the real driver),
whether property C12 held on it.  It knows nothing about slots, cursors or iflags; it keeps, per user, the bytes the
client has sent and that no executed command has consumed yet, whether the user is still connected, and whether it
was already served in the running cycle.

Clauses (one `Viol` constructor each):
  * `twice`     a second buffered command of one user inside one backend cycle
  * `starved`   a user that was connected when the cycle began, is still connected when it ends and had a complete
                command waiting when it began (a full line; any byte at all in single-char mode) was not served
  * `fifo`      an executed command is not the oldest unconsumed input of its user (a complete line in line mode,
                a non-empty prefix in single-char mode) - order, loss and duplication
  * `idleWait`  backend asked the poller to block although a connected user already had a complete command buffered
  * `starvedRaw` / `fifoRaw`  the same two failures when the input concerned was typed while a get_char() was
                pending (known finding C12-getchar-typeahead: such bytes are buffered unframed, see notes/C12.md)
  * `efun`      a command() call on a live object was not executed at once (command() is not turn-limited:
                `ecmd` events never count for `twice`)
  * `outside`, `crash`, `malformed`  robustness of the trace itself
A user who connects during a cycle is served from the next cycle on (documented protocol: turns are granted at the
top of the cycle); a user whose client has closed or who was kicked/dropped is exempt from `starved`.
-/
import NV.C12.Model

namespace NV.C12

inductive Viol where
  | twice (u n : Nat)
  | starved (u n : Nat)
  | fifo (u : Nat) (text : List Char)
  | starvedRaw (u n : Nat)
  | fifoRaw (u : Nat) (text : List Char)
  | idleWait (n u : Nat)
  | idleWaitRaw (n u : Nat)
  | efun (target : Nat) (text : List Char)
  | outside (u : Nat)
  | crash (what : String)
  | malformed (line : String)
  deriving Repr, BEq, DecidableEq

structure JU where
  connected : Bool := false      -- logged on and not removed by the driver side (kick / drop)
  clientOpen : Bool := true      -- the client has not closed its socket
  pending : List (Char × Bool) := []   -- sent before the last `begin`, not yet consumed (`~` = end of line);
                                       -- the flag: sent while a get_char() of this user was pending
  fresh : List (Char × Bool) := []     -- sent after the last `begin`
  charMode : Bool := false       -- a get_char() succeeded since this user's last command
  rawTaint : Bool := false       -- something was typed while a get_char() was pending and the queue has not drained since
  served : Bool := false         -- in the running cycle
  eligible : Bool := false       -- snapshot taken at `begin`
  deriving Repr, BEq, DecidableEq

structure JState where
  us : List (Nat × JU) := []
  cyc : Option Nat := none
  mustNotBlock : Option (Nat × Bool) := none
  bad : List Viol := []                      -- newest first

def getU (s : JState) (u : Nat) : JU :=
  match s.us.find? (fun e => e.1 == u) with
  | some e => e.2
  | none => {}

def setU (s : JState) (u : Nat) (j : JU) : JState :=
  { s with us := (u, j) :: s.us.filter (fun e => e.1 != u) }

def JState.flag (s : JState) (v : Viol) : JState := { s with bad := v :: s.bad }

/-- a complete command is waiting -/
def complete (charMode : Bool) (p : List (Char × Bool)) : Bool :=
  if charMode then !p.isEmpty else (p.map (·.1)).contains '~'

/-- the oldest pending line (or everything, when no line is complete) contains bytes typed during a get_char() -/
def firstLineRaw (p : List (Char × Bool)) : Bool :=
  ((p.takeWhile (fun e => e.1 != '~')).any (·.2)) || ((p.dropWhile (fun e => e.1 != '~')).take 1).any (·.2)

def live (j : JU) : Bool := j.connected && j.clientOpen

/-- CR LF pairs of a single-char-mode text back to the `~` of the input alphabet -/
def crlfToTilde : List Char → List Char
  | c :: d :: r => if c == CR && d == LF then '~' :: crlfToTilde r else c :: crlfToTilde (d :: r)
  | l => l

/-- consume an executed command from the pending input; `none` = not the oldest input -/
def consume (charMode : Bool) (p : List (Char × Bool)) (text : List Char) : Option (List (Char × Bool)) :=
  let line := text ++ ['~']
  if line.isPrefixOf (p.map (·.1)) then some (p.drop line.length)
  else
    let raw := crlfToTilde text
    if charMode && !raw.isEmpty && raw.isPrefixOf (p.map (·.1)) then some (p.drop raw.length) else none

/-- after a `fifo` violation: drop what the command visibly was made of, so that one defect is reported once -/
def resync (p : List (Char × Bool)) (text : List Char) : List (Char × Bool) :=
  let raw := crlfToTilde text ++ ['~']
  if raw.isPrefixOf (p.map (·.1)) then p.drop raw.length else p

/-! ### clause oracle 1: structure of the trace and one command per user per cycle -/

structure SState where
  cyc : Option Nat := none
  served : List Nat := []        -- users served in the running cycle
  bad : List Viol := []          -- newest first

/-- clauses `twice`, `outside`, `crash`, `malformed` -/
def structStep (s : SState) (e : Ev) : SState :=
  match e with
  | .begin n =>
    { cyc := some n, served := [], bad := if s.cyc.isSome then .malformed "nested begin" :: s.bad else s.bad }
  | .cmd u _ =>
    let b1 := if s.cyc.isNone then .outside u :: s.bad else s.bad
    let b2 := if s.served.contains u then .twice u (s.cyc.getD 0) :: b1 else b1
    { s with served := u :: s.served, bad := b2 }
  | .endc n _ _ =>
    { cyc := none, served := [], bad := if s.cyc != some n then .malformed "end without begin" :: s.bad else s.bad }
  | .crash w => { s with bad := .crash w :: s.bad }
  | .other l => { s with bad := .malformed l :: s.bad }
  | _ => s

def judgeStruct (trace : List Ev) : List Viol := (trace.foldl structStep {}).bad.reverse

/-! ### clause oracle 2: command() is executed at once -/

structure EState where
  expect : Option (Nat × List Char) := none
  bad : List Viol := []

/-- clause `efun`: a requested command() on a live object must be the very next event -/
def efunStep (s : EState) (e : Ev) : EState :=
  let s1 : EState :=
    match s.expect with
    | none => s
    | some (t, x) => if e = Ev.ecmd t x then { s with expect := none } else { expect := none, bad := .efun t x :: s.bad }
  match e with
  | .force _ t x true => { s1 with expect := some (t, x) }
  | _ => s1

def judgeEfun (trace : List Ev) : List Viol :=
  let s := trace.foldl efunStep {}
  let bad : List Viol := match s.expect with
    | some (t, x) => Viol.efun t x :: s.bad
    | none => s.bad
  bad.reverse

/-! ### clause oracle 3: starvation, FIFO, idle wait (needs the bytes sent and consumed per user) -/

def judgeStep (s : JState) (e : Ev) : JState :=
  match e with
  | .conn _ => s
  | .logon u => setU s u { connected := true }
  | .send u d => let j := getU s u; setU s u { j with fresh := j.fresh ++ d.map (fun c => (c, j.charMode)), rawTaint := j.rawTaint || j.charMode }
  | .close u => let j := getU s u; setU s u { j with clientOpen := false }
  | .begin n =>
    let blocker := (s.us.find? (fun e => live e.2 && complete e.2.charMode e.2.pending)).map
      (fun e => (e.1, e.2.rawTaint || firstLineRaw e.2.pending))
    let us := s.us.map (fun (u, j) =>
      let p := j.pending ++ j.fresh
      (u, { j with pending := p, fresh := [], served := false, eligible := live j && complete j.charMode p }))
    { s with us := us, cyc := some n, mustNotBlock := blocker }
  | .poll n block =>
    match s.mustNotBlock, block with
    | some (u, raw), true => s.flag (if raw then .idleWaitRaw n u else .idleWait n u)
    | _, _ => s
  | .cmd u text =>
    let j := getU s u
    match consume j.charMode j.pending text with
    | some p => setU s u { j with pending := p, served := true, charMode := false, rawTaint := j.rawTaint && !p.isEmpty }
    | none =>
      setU (s.flag (if j.rawTaint || j.pending.any (·.2) then .fifoRaw u text else .fifo u text)) u
        { j with pending := resync j.pending text, served := true, charMode := false }
  | .ecmd _ _ => s
  | .kick _ t ok => if ok then (let j := getU s t; setU s t { j with connected := false }) else s
  | .drop _ t ok => if ok then (let j := getU s t; setU s t { j with connected := false }) else s
  | .force _ _ _ _ => s
  | .gc u r => if r then (let j := getU s u; setU s u { j with charMode := true }) else s
  | .it _ _ => s
  | .endc n _ _ =>
    let starved := s.us.filter (fun e => e.2.eligible && live e.2 && !e.2.served)
    let s := starved.foldl (fun s e =>
      s.flag (if e.2.rawTaint || firstLineRaw e.2.pending then .starvedRaw e.1 n else .starved e.1 n)) s
    { s with cyc := none, mustNotBlock := none }
  | .crash _ => s
  | .other _ => s

def judgeData (trace : List Ev) : List Viol := (trace.foldl judgeStep {}).bad.reverse

/-- violations on a trace (per clause oracle, oldest first inside each); `[]` = the property held -/
def judgeEv (trace : List Ev) : List Viol :=
  judgeStruct trace ++ judgeEfun trace ++ judgeData trace

end NV.C12
