/-
C12 — trace-level theorems: two of the three clause oracles of NV/C12/Spec.lean accept the event trace of EVERY
history of the model under EVERY script oracle:
  `judgeStruct (events sc cs) = []`  (clauses twice / outside / crash / malformed)
  `judgeEfun   (events sc cs) = []`  (clause efun)
-/
import NV.C12.Spec
import NV.C12.Lemmas3
import NV.C12.Props

namespace NV.C12

/-- folding an oracle step over the events of a script returns to the state it started from, provided single script
    events leave such a state alone and a `force .. true` / `ecmd` pair does too -/
theorem runOps_fold {σ : Type} (g : σ → Ev → σ) (Inv : σ → Prop)
    (hkick : ∀ s a t ok, Inv s → g s (.kick a t ok) = s)
    (hdrop : ∀ s a t ok, Inv s → g s (.drop a t ok) = s)
    (hgc : ∀ s u r, Inv s → g s (.gc u r) = s)
    (hit : ∀ s u r, Inv s → g s (.it u r) = s)
    (hff : ∀ s a t x, Inv s → g s (.force a t x false) = s)
    (hpair : ∀ s a t x, Inv s → g (g s (.force a t x true)) (.ecmd t x) = s)
    (herr : ∀ s u, Inv s → g s (.err u) = s)
    (hexec : ∀ s u r, Inv s → g s (.exec u r) = s)
    (sc : Scripts) (f : Nat) (w : World) (me : Nat) (ops : List Op) (s : σ) (hs : Inv s) :
    (runOps sc f w me ops).2.foldl g s = s := by
  induction f generalizing w me ops with
  | zero => simp [runOps]
  | succ f ih =>
    cases ops with
    | nil => simp [runOps]
    | cons op rest =>
      have hop : ∀ (w1 : World) (e1 : List Ev), e1.foldl g s = s →
          (if w1.thrown then (w1, e1) else if w1.alive me then ((runOps sc f w1 me rest).1, e1 ++ (runOps sc f w1 me rest).2) else (w1, e1)).2.foldl g s = s := by
        intro w1 e1 he
        split
        · exact he
        split
        · simp only [List.foldl_append, he]; exact ih w1 me rest
        · exact he
      unfold runOps
      cases op with
      | kick t => apply hop; simp [hkick _ _ _ _ hs]
      | drop t => apply hop; simp [hdrop _ _ _ _ hs]
      | ecmd t text =>
        dsimp only
        split
        · apply hop
          simp only [List.foldl_cons, hpair _ _ _ _ hs]
          exact ih w t (sc t text)
        · apply hop; simp [hff _ _ _ _ hs]
      | gc => apply hop; simp [hgc _ _ _ hs]
      | it => apply hop; simp [hit _ _ _ hs]
      | err => apply hop; simp [herr _ _ hs]
      | exec => apply hop; simp [hexec _ _ _ hs]

/-- shape of the events of one process_user_command call -/
theorem puc_events (sc : Scripts) (w : World) :
    (processUserCommand sc w).2.1 = [] ∨
      ∃ u t w2, (processUserCommand sc w).2.1 = Ev.cmd u t :: (runOps sc scriptFuel w2 u (sc u t)).2 := by
  unfold processUserCommand
  split
  · left; rfl
  · cases hg : getUserCommand w with
    | mk w1 r =>
      cases r with
      | none => left; rfl
      | some p => obtain ⟨u, t⟩ := p; right; exact ⟨u, t, _, rfl⟩

/-! ### the structure oracle -/

theorem struct_script (s : SState) : (∀ a t ok, structStep s (.kick a t ok) = s) ∧ (∀ a t ok, structStep s (.drop a t ok) = s) ∧
    (∀ u r, structStep s (.gc u r) = s) ∧ (∀ u r, structStep s (.it u r) = s) ∧
    (∀ a t x ok, structStep s (.force a t x ok) = s) ∧ (∀ t x, structStep s (.ecmd t x) = s) :=
  ⟨fun _ _ _ => rfl, fun _ _ _ => rfl, fun _ _ => rfl, fun _ _ => rfl, fun _ _ _ _ => rfl, fun _ _ => rfl⟩

theorem struct_runOps (sc : Scripts) (f : Nat) (w : World) (me : Nat) (ops : List Op) (s : SState) :
    (runOps sc f w me ops).2.foldl structStep s = s :=
  runOps_fold structStep (fun _ => True) (fun _ _ _ _ _ => rfl) (fun _ _ _ _ _ => rfl) (fun _ _ _ _ => rfl)
    (fun _ _ _ _ => rfl) (fun _ _ _ _ _ => rfl) (fun _ _ _ _ _ => rfl) (fun _ _ _ => rfl) (fun _ _ _ _ => rfl) sc f w me ops s trivial

/-- inside a cycle the command loop adds no violation: whoever is in `served` holds no turn any more -/
theorem struct_cmdLoop (sc : Scripts) (k : Nat) (w : World) (hs : Safe w) (s : SState) (n : Nat) (hc : s.cyc = some n)
    (hserved : ∀ u, u ∈ s.served → turnOf w u = false) :
    ((cmdLoop sc k w).2.foldl structStep s).cyc = some n ∧ ((cmdLoop sc k w).2.foldl structStep s).bad = s.bad := by
  induction k generalizing w s with
  | zero => simp [cmdLoop, hc]
  | succ k ih =>
    obtain ⟨p1, _, p3, p4⟩ := processUserCommand_spec sc w hs
    have pe := puc_events sc w
    unfold cmdLoop
    cases hp : processUserCommand sc w with
    | mk w1 r =>
      obtain ⟨e1, b⟩ := r
      rw [hp] at p1 p3 p4 pe
      dsimp only at p1 p3 p4 pe
      cases b with
      | false =>
        dsimp only
        obtain ⟨q1, _⟩ := p3 rfl
        subst q1
        simp [hc]
      | true =>
        dsimp only
        obtain ⟨v, t, rest, q1, _, q3, q4⟩ := p4 rfl
        rcases pe with pe | ⟨u, t', w2, pe⟩
        · rw [pe] at q1; cases q1
        · rw [pe] at q1
          simp only [List.cons.injEq, Ev.cmd.injEq] at q1
          obtain ⟨⟨hu, _⟩, _⟩ := q1
          subst hu
          rw [List.foldl_append, pe, List.foldl_cons, struct_runOps]
          have hnot : s.served.contains u = false := by
            cases hcu : s.served.contains u with
            | false => rfl
            | true =>
              have := hserved u (by simpa using hcu)
              rw [q3] at this; cases this
          have hmem : ¬ u ∈ s.served := by simpa using hnot
          have hstep : structStep s (Ev.cmd u t') = { s with served := u :: s.served } := by
            simp [structStep, hc, hmem]
          rw [hstep]
          have := ih w1 p1 { s with served := u :: s.served } hc (by
            intro x hx
            rw [q4 x]
            split
            · rfl
            · rename_i hne
              simp only [List.mem_cons] at hx
              rcases hx with hx | hx
              · exact absurd hx hne
              · exact hserved x hx)
          exact this

theorem struct_cycle (sc : Scripts) (w : World) (hs : Safe w) :
    (cycleStep sc w).2.foldl structStep {} = {} := by
  have hsafe := cycleStep_safe sc w hs
  have h1 : Safe (cmdPhaseStart w) := processIO_safe _ ⟨hs.1, hs.2⟩
  unfold cycleStep at hsafe ⊢
  dsimp only at hsafe ⊢
  rw [hsafe.1]
  simp only [Bool.false_eq_true, if_false, List.foldl_append, List.foldl_cons, List.foldl_nil]
  have hio : ∀ s : SState, (processIO { w with cycle := w.cycle + 1, users := grantAll w.users w.slots }).2.foldl structStep s = s := by
    intro s; unfold processIO; dsimp only; split <;> rfl
  have hb : structStep (structStep {} (Ev.begin (w.cycle + 1))) (Ev.poll (w.cycle + 1) (pollBlocks (hasPending w))) =
      { cyc := some (w.cycle + 1), served := [], bad := [] } := rfl
  rw [hb, hio]
  obtain ⟨c1, c2⟩ := struct_cmdLoop sc (NV.Gen.C12.loopCalls (connectedUsers w) w.maxUsers) (cmdPhaseStart w) h1
    { cyc := some (w.cycle + 1), served := [], bad := [] } (w.cycle + 1) rfl (by intro u hu; cases hu)
  unfold cmdPhaseStart at c1 c2
  split
  · simp only [List.foldl_cons, List.foldl_nil, structStep, c1, c2]; simp
  · simp only [List.foldl_cons, List.foldl_nil, structStep, c1, c2]; simp

/-- the same for all iterations between two hook calls (aborted ones end with `abort n`, which closes cycle `n`) -/
theorem struct_run (sc : Scripts) (w : World) (hq : Quiet w) :
    (cycleRun sc (weight w + 1) w).2.foldl structStep {} = {} :=
  (cycleRun_fold sc structStep (fun s _ => s = {}) (fun s w hs hq => by subst hs; exact struct_cycle sc w hq.1)
    (fun _ _ h => h) (weight w + 1) w {} rfl hq (by omega)).1

/-- **trace theorem 1**: for every history and every script oracle the structure oracle accepts the trace of the
    model: never a second buffered command of one user inside a cycle (`twice`), no command outside a cycle, no crash,
    cycles properly bracketed. -/
theorem judgeStruct_events (sc : Scripts) (cs : List Cmd) : judgeStruct (events sc cs) = [] := by
  have key : ∀ (cs : List Cmd) (w : World), Quiet w → (run sc w cs).2.foldl structStep {} = {} := by
    intro cs
    induction cs with
    | nil => intro w _; rfl
    | cons c r ih =>
      intro w hq
      have hs := hq.1
      have hnext := cursor_in_bounds sc w c hq
      simp only [run, List.foldl_append]
      have hstep : (step sc w c).2.foldl structStep {} = {} := by
        cases c with
        | cycle =>
          have : step sc w .cycle = cycleRun sc (weight w + 1) w := by simp [step, hs.1]
          rw [this]; exact struct_run sc w hq
        | conn => simp [step, hs.1, structStep]
        | send u d => simp only [step, hs.1, Bool.false_eq_true, if_false]; split <;> rfl
        | close u =>
          simp only [step, hs.1, Bool.false_eq_true, if_false]
          split
          · dsimp only; split <;> rfl
          · rfl
      rw [hstep]
      exact ih _ hnext
  unfold judgeStruct events
  rw [key cs {} quiet_init]
  rfl

/-! ### the command() oracle -/

theorem efun_neutral (s : EState) (hs : s.expect = none) (e : Ev)
    (he : ∀ a t x, e ≠ Ev.force a t x true) : efunStep s e = s := by
  cases e with
  | force a t x ok =>
    cases ok with
    | true => exact absurd rfl (he a t x)
    | false => simp [efunStep, hs]
  | _ => simp [efunStep, hs]

theorem efun_runOps (sc : Scripts) (f : Nat) (w : World) (me : Nat) (ops : List Op) (s : EState) (hs : s.expect = none) :
    (runOps sc f w me ops).2.foldl efunStep s = s := by
  apply runOps_fold efunStep (fun s => s.expect = none)
  · intro s a t ok h; exact efun_neutral s h _ (by intro _ _ _ hh; cases hh)
  · intro s a t ok h; exact efun_neutral s h _ (by intro _ _ _ hh; cases hh)
  · intro s u r h; exact efun_neutral s h _ (by intro _ _ _ hh; cases hh)
  · intro s u r h; exact efun_neutral s h _ (by intro _ _ _ hh; cases hh)
  · intro s a t x h; exact efun_neutral s h _ (by intro _ _ _ hh; cases hh)
  · intro s a t x h
    obtain ⟨ex, bad⟩ := s
    simp only at h
    subst h
    simp [efunStep]
  · intro s u h; exact efun_neutral s h _ (by intro _ _ _ hh; cases hh)
  · intro s u r h; exact efun_neutral s h _ (by intro _ _ _ hh; cases hh)
  · exact hs

theorem efun_cmdLoop (sc : Scripts) (k : Nat) (w : World) (s : EState) (hs : s.expect = none) :
    (cmdLoop sc k w).2.foldl efunStep s = s := by
  induction k generalizing w with
  | zero => simp [cmdLoop]
  | succ k ih =>
    have pe := puc_events sc w
    unfold cmdLoop
    cases hp : processUserCommand sc w with
    | mk w1 r =>
      obtain ⟨e1, b⟩ := r
      rw [hp] at pe
      dsimp only at pe
      have he1 : e1.foldl efunStep s = s := by
        rcases pe with pe | ⟨u, t, w2, pe⟩
        · rw [pe]; rfl
        · rw [pe, List.foldl_cons, efun_neutral s hs _ (by intro _ _ _ hh; cases hh)]
          exact efun_runOps sc _ _ _ _ s hs
      cases b with
      | false => exact he1
      | true =>
        dsimp only
        rw [List.foldl_append, he1]
        exact ih w1

theorem efun_cycle (sc : Scripts) (w : World) (s : EState) (hs : s.expect = none) :
    (cycleStep sc w).2.foldl efunStep s = s := by
  unfold cycleStep
  dsimp only
  simp only [List.foldl_append, List.foldl_cons, List.foldl_nil]
  rw [efun_neutral s hs _ (by intro _ _ _ hh; cases hh), efun_neutral s hs _ (by intro _ _ _ hh; cases hh)]
  have hio : (processIO { w with cycle := w.cycle + 1, users := grantAll w.users w.slots }).2.foldl efunStep s = s := by
    unfold processIO; dsimp only; split
    · simp only [List.foldl_cons, List.foldl_nil]; exact efun_neutral s hs _ (by intro _ _ _ hh; cases hh)
    · rfl
  rw [hio, efun_cmdLoop sc _ _ s hs]
  split
  · simp only [List.foldl_cons, List.foldl_nil]; exact efun_neutral s hs _ (by intro _ _ _ hh; cases hh)
  · split
    · simp only [List.foldl_cons, List.foldl_nil]; exact efun_neutral s hs _ (by intro _ _ _ hh; cases hh)
    · simp only [List.foldl_cons, List.foldl_nil]; exact efun_neutral s hs _ (by intro _ _ _ hh; cases hh)

theorem efun_run (sc : Scripts) (f : Nat) (w : World) (s : EState) (hs : s.expect = none) :
    (cycleRun sc f w).2.foldl efunStep s = s := by
  induction f generalizing w with
  | zero =>
    simp only [cycleRun, List.foldl_cons, List.foldl_nil]
    exact efun_neutral s hs _ (by intro _ _ _ hh; cases hh)
  | succ f ih =>
    have h1 := efun_cycle sc w s hs
    unfold cycleRun
    cases hc : cycleStep sc w with
    | mk w1 e1 =>
      rw [hc] at h1
      dsimp only at h1 ⊢
      split
      · dsimp only; rw [List.foldl_append, h1]; exact ih _
      · exact h1

/-- **trace theorem 2** (`command_efun_unlimited` at trace level): for every history and every script oracle, every
    `command()` requested on a live object is the very next event of the trace - no turn, no cycle limit. -/
theorem judgeEfun_events (sc : Scripts) (cs : List Cmd) : judgeEfun (events sc cs) = [] := by
  have key : ∀ (cs : List Cmd) (w : World), (run sc w cs).2.foldl efunStep {} = {} := by
    intro cs
    induction cs with
    | nil => intro w; rfl
    | cons c r ih =>
      intro w
      simp only [run, List.foldl_append]
      have hstep : (step sc w c).2.foldl efunStep {} = {} := by
        unfold step
        split
        · rfl
        · cases c with
          | cycle => exact efun_run sc _ w {} rfl
          | conn => rfl
          | send u d => dsimp only; split <;> rfl
          | close u =>
            dsimp only
            split
            · dsimp only; split <;> rfl
            · rfl
      rw [hstep]
      exact ih _
  unfold judgeEfun events
  rw [key cs {}]
  rfl

/-- the part of the top theorem proved here: the clause oracles for `twice` / `outside` / `crash` / `malformed`
    and for `efun` accept every trace of the model -/
theorem judgeEv_events_eq_data (sc : Scripts) (cs : List Cmd) :
    judgeEv (events sc cs) = judgeFifo (events sc cs) ++ judgeLive (events sc cs) ++ judgeOrder (events sc cs) := by
  unfold judgeEv
  rw [judgeStruct_events, judgeEfun_events]
  rfl

-- non-vacuity: a history with two users, a deep queue, a nested command() and a kick produces a trace with buffered
-- commands, efun commands and several cycles; the trace theorems speak about such traces
example :
    let sc : Scripts := fun u t => if u = 1 ∧ t = ['f'] then [Op.ecmd 2 ['m'], Op.ecmd 2 ['m'], Op.kick 2] else []
    let tr := events sc [.conn, .cycle, .conn, .cycle, .send 1 "a~f~b~".toList, .send 2 "x~y~z~".toList, .cycle, .cycle, .cycle]
    (tr.filter (fun e => match e with | .cmd _ _ => true | _ => false)).length = 5 ∧
    (tr.filter (fun e => match e with | .ecmd _ _ => true | _ => false)).length = 2 ∧
    judgeEv tr = [] := by decide

end NV.C12
