/-
C12 — towards `judgeLive (events ..) = []` (clauses `starved`, `idleWait`), part 1: facts about the oracle alone.

* what `begin` does to the record of one user (`begin_get`);
* the events of the command loop (`Ev.inLoop`) leave `bad`, `ids`, `mustNotBlock`, every `eligible` / `fresh` / `clientOpen`
  alone, `served` only goes up and a `cmd u` sets it (`inLoop_fold`);
* coupling of the liveness oracle with the FIFO oracle (`Cpl`): both consume the same bytes, so the simulation already
  proved for the FIFO oracle (`G`, Fifo4/5) carries over;
* all events of `cmdLoop` are `inLoop` events.
-/
import NV.C12.Fifo5
import NV.C12.Flag

namespace NV.C12

/-! ### finite maps: a fold of updates -/

theorem foldl_upd_get {α : Type} [Inhabited α] (f : Nat → α) (l : List Nat) (m : AMap α) (x : Nat) :
    (l.foldl (fun m u => upd m u (f u)) m).get x = if x ∈ l then f x else m.get x := by
  induction l generalizing m with
  | nil => simp
  | cons a r ih =>
    rw [List.foldl_cons, ih]
    by_cases hr : x ∈ r
    · simp [hr]
    · simp only [hr, if_false, get_upd, List.mem_cons, or_false]
      split
      · rename_i hx; subst hx; rfl
      · rfl

/-! ### `begin` -/

/-- what `begin` does to the record of a user that has logged on -/
def beginU (j : JU) : JU :=
  { j with pending := j.pending ++ j.fresh, fresh := [], served := false,
           eligible := live j && complete j.charMode (j.pending ++ j.fresh) }

theorem begin_get (s : JState) (n x : Nat) :
    ((judgeStep s (.begin n)).us.get x) = if x ∈ s.ids then beginU (s.us.get x) else s.us.get x :=
  foldl_upd_get (fun u => beginU (s.us.get u)) s.ids s.us x

theorem begin_bad (s : JState) (n : Nat) : (judgeStep s (.begin n)).bad = s.bad := rfl
theorem begin_ids (s : JState) (n : Nat) : (judgeStep s (.begin n)).ids = s.ids := rfl
theorem begin_mnb (s : JState) (n : Nat) : (judgeStep s (.begin n)).mustNotBlock =
    s.ids.find? (fun u => live (s.us.get u) && complete (s.us.get u).charMode (s.us.get u).pending) := rfl

/-! ### events of the command loop -/

def Ev.inLoop : Ev → Bool
  | .cmd _ _ => true
  | .ecmd _ _ => true
  | .kick _ _ _ => true
  | .drop _ _ _ => true
  | .force _ _ _ _ => true
  | .gc _ _ => true
  | .it _ _ => true
  | .err _ => true
  | .exec _ _ => true
  | _ => false

/-- one event of the command loop, seen by the liveness oracle -/
theorem inLoop_step (s : JState) (e : Ev) (he : e.inLoop = true) :
    (judgeStep s e).bad = s.bad ∧ (judgeStep s e).ids = s.ids ∧ (judgeStep s e).mustNotBlock = s.mustNotBlock ∧
    ∀ u, ((judgeStep s e).us.get u).eligible = (s.us.get u).eligible ∧
         ((judgeStep s e).us.get u).fresh = (s.us.get u).fresh ∧
         ((judgeStep s e).us.get u).clientOpen = (s.us.get u).clientOpen ∧
         ((s.us.get u).served = true → ((judgeStep s e).us.get u).served = true) ∧
         (Ev.isCmdOf u e = true → ((judgeStep s e).us.get u).served = true) ∧
         (((judgeStep s e).us.get u).connected = true → (s.us.get u).connected = true) := by
  cases e with
  | cmd v t =>
    refine ⟨rfl, rfl, rfl, ?_⟩
    intro u
    simp only [judgeStep, get_upd, Ev.isCmdOf]
    split
    · rename_i hu; subst hu; simp
    · rename_i hu
      have : (v == u) = false := by simp; exact fun h => hu h.symm
      simp [this]
  | kick a t ok =>
    cases ok with
    | true =>
      refine ⟨rfl, rfl, rfl, ?_⟩
      intro u
      simp only [judgeStep, get_upd, Ev.isCmdOf]
      split
      · rename_i hu; subst hu; simp
      · simp
    | false => exact ⟨rfl, rfl, rfl, fun u => ⟨rfl, rfl, rfl, id, (by intro h; cases h), id⟩⟩
  | drop a t ok =>
    cases ok with
    | true =>
      refine ⟨rfl, rfl, rfl, ?_⟩
      intro u
      simp only [judgeStep, get_upd, Ev.isCmdOf]
      split
      · rename_i hu; subst hu; simp
      · simp
    | false => exact ⟨rfl, rfl, rfl, fun u => ⟨rfl, rfl, rfl, id, (by intro h; cases h), id⟩⟩
  | gc v r =>
    cases r with
    | true =>
      refine ⟨rfl, rfl, rfl, ?_⟩
      intro u
      simp only [judgeStep, get_upd, Ev.isCmdOf]
      split
      · rename_i hu; subst hu; simp
      · simp
    | false => exact ⟨rfl, rfl, rfl, fun u => ⟨rfl, rfl, rfl, id, (by intro h; cases h), id⟩⟩
  | ecmd v t => exact ⟨rfl, rfl, rfl, fun u => ⟨rfl, rfl, rfl, id, (by intro h; cases h), id⟩⟩
  | force a t x ok => exact ⟨rfl, rfl, rfl, fun u => ⟨rfl, rfl, rfl, id, (by intro h; cases h), id⟩⟩
  | it v r => exact ⟨rfl, rfl, rfl, fun u => ⟨rfl, rfl, rfl, id, (by intro h; cases h), id⟩⟩
  | err v => exact ⟨rfl, rfl, rfl, fun u => ⟨rfl, rfl, rfl, id, (by intro h; cases h), id⟩⟩
  | exec v r => exact ⟨rfl, rfl, rfl, fun u => ⟨rfl, rfl, rfl, id, (by intro h; cases h), id⟩⟩
  | _ => cases he

/-- a list of events of the command loop -/
theorem inLoop_fold (l : List Ev) (hl : ∀ e ∈ l, Ev.inLoop e = true) (s : JState) :
    (l.foldl judgeStep s).bad = s.bad ∧ (l.foldl judgeStep s).ids = s.ids ∧
    (l.foldl judgeStep s).mustNotBlock = s.mustNotBlock ∧
    ∀ u, ((l.foldl judgeStep s).us.get u).eligible = (s.us.get u).eligible ∧
         ((l.foldl judgeStep s).us.get u).fresh = (s.us.get u).fresh ∧
         ((l.foldl judgeStep s).us.get u).clientOpen = (s.us.get u).clientOpen ∧
         ((s.us.get u).served = true → ((l.foldl judgeStep s).us.get u).served = true) ∧
         (1 ≤ cmdCount u l → ((l.foldl judgeStep s).us.get u).served = true) ∧
         (((l.foldl judgeStep s).us.get u).connected = true → (s.us.get u).connected = true) := by
  induction l generalizing s with
  | nil => exact ⟨rfl, rfl, rfl, fun u => ⟨rfl, rfl, rfl, id, (by intro h; simp [cmdCount] at h), id⟩⟩
  | cons e r ih =>
    obtain ⟨a1, a2, a3, a4⟩ := inLoop_step s e (hl e (List.mem_cons_self))
    obtain ⟨b1, b2, b3, b4⟩ := ih (fun x hx => hl x (List.mem_cons_of_mem _ hx)) (judgeStep s e)
    rw [List.foldl_cons]
    refine ⟨b1.trans a1, b2.trans a2, b3.trans a3, ?_⟩
    intro u
    obtain ⟨c1, c2, c3, c4, c5, c6⟩ := a4 u
    obtain ⟨d1, d2, d3, d4, d5, d6⟩ := b4 u
    refine ⟨d1.trans c1, d2.trans c2, d3.trans c3, fun h => d4 (c4 h), ?_, fun h => c6 (d6 h)⟩
    intro hc
    by_cases he : Ev.isCmdOf u e = true
    · exact d4 (c5 he)
    · apply d5
      have : cmdCount u (e :: r) = cmdCount u r := by
        simp only [cmdCount, List.countP_cons]
        simp [he]
      omega

/-! ### coupling with the FIFO oracle -/

/-- both oracles hold the same unconsumed bytes and the same mode for every user -/
structure Cpl (fs : FState) (js : JState) : Prop where
  pend : ∀ u, (js.us.get u).pending ++ (js.us.get u).fresh = (fs.us.get u).pending
  mode : ∀ u, (js.us.get u).charMode = (fs.us.get u).charMode

theorem cpl_inLoop (fs : FState) (js : JState) (e : Ev) (he : e.inLoop = true) (h : Cpl fs js)
    (hf : ∀ u, (js.us.get u).fresh = []) : Cpl (fifoStep fs e) (judgeStep js e) := by
  cases e with
  | cmd v t =>
    have hp : (js.us.get v).pending = (fs.us.get v).pending := by
      have := h.pend v; rw [hf v, List.append_nil] at this; exact this
    have hm := h.mode v
    have hfv := hf v
    constructor
    · intro u
      simp only [fifoStep, judgeStep]
      rw [hm, hp]
      cases hc : consume (fs.us.get v).charMode (fs.us.get v).pending t with
      | some p =>
        simp only [get_upd, Option.getD_some]
        split
        · rename_i hu; subst hu; simp [hfv]
        · exact h.pend u
      | none =>
        simp only [get_upd, Option.getD_none]
        split
        · rename_i hu; subst hu; simp [hfv]
        · exact h.pend u
    · intro u
      simp only [fifoStep, judgeStep]
      rw [hm, hp]
      cases hc : consume (fs.us.get v).charMode (fs.us.get v).pending t with
      | some p =>
        simp only [get_upd]
        split
        · rfl
        · exact h.mode u
      | none =>
        simp only [get_upd]
        split
        · rfl
        · exact h.mode u
  | kick a t ok =>
    cases ok with
    | true =>
      constructor
      · intro u; simp only [fifoStep, judgeStep, get_upd]; split
        · rename_i hu; subst hu; exact h.pend u
        · exact h.pend u
      · intro u; simp only [fifoStep, judgeStep, get_upd]; split
        · rename_i hu; subst hu; exact h.mode u
        · exact h.mode u
    | false => exact h
  | drop a t ok =>
    cases ok with
    | true =>
      constructor
      · intro u; simp only [fifoStep, judgeStep, get_upd]; split
        · rename_i hu; subst hu; exact h.pend u
        · exact h.pend u
      · intro u; simp only [fifoStep, judgeStep, get_upd]; split
        · rename_i hu; subst hu; exact h.mode u
        · exact h.mode u
    | false => exact h
  | gc v r =>
    cases r with
    | true =>
      constructor
      · intro u; simp only [fifoStep, judgeStep, get_upd]; split
        · rename_i hu; subst hu; exact h.pend u
        · exact h.pend u
      · intro u; simp only [fifoStep, judgeStep, get_upd]; split
        · rfl
        · exact h.mode u
    | false => exact h
  | ecmd v t => exact h
  | force a t x ok => exact h
  | it v r => exact h
  | err v => exact h
  | exec v r => exact h
  | _ => cases he

theorem cpl_fold (l : List Ev) (hl : ∀ e ∈ l, Ev.inLoop e = true) (fs : FState) (js : JState) (h : Cpl fs js)
    (hf : ∀ u, (js.us.get u).fresh = []) : Cpl (l.foldl fifoStep fs) (l.foldl judgeStep js) := by
  induction l generalizing fs js with
  | nil => exact h
  | cons e r ih =>
    rw [List.foldl_cons, List.foldl_cons]
    have he := hl e (List.mem_cons_self)
    apply ih (fun x hx => hl x (List.mem_cons_of_mem _ hx)) _ _ (cpl_inLoop fs js e he h hf)
    intro u
    rw [((inLoop_step js e he).2.2.2 u).2.1]; exact hf u

/-! ### the events of the command loop are `inLoop` events -/

theorem runOps_inLoop (sc : Scripts) (f : Nat) (w : World) (me : Nat) (ops : List Op) :
    ∀ e ∈ (runOps sc f w me ops).2, Ev.inLoop e = true := by
  induction f generalizing w me ops with
  | zero => simp [runOps]
  | succ f ih =>
    cases ops with
    | nil => simp [runOps]
    | cons op rest =>
      have hop : ∀ (w1 : World) (e1 : List Ev), (∀ e ∈ e1, Ev.inLoop e = true) →
          ∀ e ∈ (if w1.thrown then (w1, e1) else if w1.alive me then ((runOps sc f w1 me rest).1, e1 ++ (runOps sc f w1 me rest).2) else (w1, e1)).2,
            Ev.inLoop e = true := by
        intro w1 e1 he
        split
        · exact he
        split
        · intro e hm
          simp only [List.mem_append] at hm
          rcases hm with hm | hm
          · exact he e hm
          · exact ih w1 me rest e hm
        · exact he
      unfold runOps
      cases op with
      | kick t => apply hop; intro e hm; simp at hm; subst hm; rfl
      | drop t => apply hop; intro e hm; simp at hm; subst hm; rfl
      | ecmd t text =>
        dsimp only
        split
        · apply hop
          intro e hm
          simp only [List.mem_cons] at hm
          rcases hm with hm | hm | hm
          · subst hm; rfl
          · subst hm; rfl
          · exact ih w t (sc t text) e hm
        · apply hop; intro e hm; simp at hm; subst hm; rfl
      | gc => apply hop; intro e hm; simp at hm; subst hm; rfl
      | it => apply hop; intro e hm; simp at hm; subst hm; rfl
      | err => apply hop; intro e hm; simp at hm; subst hm; rfl
      | exec => apply hop; intro e hm; simp at hm; subst hm; rfl

theorem puc_inLoop (sc : Scripts) (w : World) : ∀ e ∈ (processUserCommand sc w).2.1, Ev.inLoop e = true := by
  rcases puc_events sc w with h | ⟨u, t, w2, h⟩
  · rw [h]; intro e he; cases he
  · rw [h]
    intro e he
    simp only [List.mem_cons] at he
    rcases he with he | he
    · subst he; rfl
    · exact runOps_inLoop sc _ _ _ _ e he

theorem cmdLoop_inLoop (sc : Scripts) (k : Nat) (w : World) : ∀ e ∈ (cmdLoop sc k w).2, Ev.inLoop e = true := by
  induction k generalizing w with
  | zero => intro e he; simp [cmdLoop] at he
  | succ k ih =>
    have hp := puc_inLoop sc w
    unfold cmdLoop
    cases hc : processUserCommand sc w with
    | mk w1 r =>
      obtain ⟨e1, b⟩ := r
      rw [hc] at hp
      dsimp only at hp
      cases b with
      | false => exact hp
      | true =>
        dsimp only
        intro e he
        simp only [List.mem_append] at he
        rcases he with he | he
        · exact hp e he
        · exact ih w1 e he

end NV.C12
