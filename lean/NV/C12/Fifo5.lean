/-
C12 — FIFO trace theorem: process_io, the cycle, the harness actions and whole histories keep the invariant `G`;
hence `judgeFifo (events sc cs) = []` for every history whose sent bytes are plain (`plainCmds`).
-/
import NV.C12.Fifo4
import NV.C12.Ovf

namespace NV.C12

/-- decidable side condition of the FIFO trace theorem: no sent byte is NUL, BS, DEL, CR or LF (a line end is `~`).
    With such a byte the statement is false for the model as for the driver: a backspace edits the line. -/
def plainCmds (cs : List Cmd) : Bool :=
  cs.all (fun c => match c with | .send _ d => d.all plainChar | _ => true)

theorem grantAll_core (users : AMap U) (sl : List (Option Nat)) (x : Nat) :
    core ((grantAll users sl).get x) = core (users.get x) := by
  induction sl generalizing users with
  | nil => rfl
  | cons a r ih =>
    cases a with
    | none => exact ih users
    | some u =>
      simp only [grantAll]
      split
      · rw [ih]
        simp only [get_upd]
        split
        · rename_i hx; subst hx; rfl
        · rfl
      · exact ih users

theorem G_accept (s : FState) (w : World) (h : G s w) : G s (accept w (w.naccepted + 1)) := by
  obtain ⟨he, hrx⟩ := h.fresh (w.naccepted + 1) (Nat.lt_succ_self _)
  refine ⟨?_, ?_, h.clean⟩
  · intro u
    simp only [accept, get_upd]
    split
    · rename_i hu; subst hu
      rw [he, hrx]; exact QInv_init
    · exact h.q u
  · intro u hu
    have : w.naccepted < u := by simp only [accept] at hu; omega
    exact h.fresh u this

theorem G_userIO (s : FState) (w : World) (u : Nat) (h : G s w) (hno : (userIO w u).overflow = false) :
    G s (userIO w u) := by
  have hnh : heldBack w u = false := (userIO_ovf w u hno).2.2
  have hroom := (userIO_ovf w u hno).2.1
  unfold userIO
  simp only [hnh, Bool.false_eq_true, if_false]
  unfold userIO0
  dsimp only
  split
  · rename_i hne
    have hroom' : roomShort (w.users.get u).buf.length = false := hroom (by simpa using hne)
    simp only [hroom', Bool.false_eq_true, if_false]
    have hrxne : (w.net.get u).rx ≠ [] := by
      intro hh; rw [hh] at hne; simp at hne
    have hu : u ≤ w.naccepted := by
      cases Nat.lt_or_ge w.naccepted u with
      | inr hle => exact hle
      | inl hlt => exact absurd (h.fresh u hlt).2 hrxne
    refine ⟨?_, ?_, h.clean⟩
    · intro x
      simp only [get_upd]
      split
      · rename_i hx; subst hx
        exact sim_arrive _ _ _ (h.q x) _
      · exact h.q x
    · intro x hx
      have hx' : w.naccepted < x := hx
      have hne' : x ≠ u := by omega
      simp only [get_upd, hne', if_false]
      exact h.fresh x hx'
  · split
    · exact G_congr s w _ h (fun _ => rfl) rfl rfl
    · exact h

theorem userIO_facts (w : World) (u : Nat) :
    ((userIO w u).net.get u).rx = [] ∨ (w.net.get u).rx ≠ [] → True := fun _ => trivial

theorem userIO_rx_self (w : World) (u : Nat) (hno : (userIO w u).overflow = false) :
    ((userIO w u).net.get u).rx = [] := by
  have hnh : heldBack w u = false := (userIO_ovf w u hno).2.2
  unfold userIO
  simp only [hnh, Bool.false_eq_true, if_false]
  unfold userIO0
  dsimp only
  split
  · simp
  · rename_i hne
    have : (w.net.get u).rx = [] := by simpa using hne
    split <;> exact this

theorem userIO_rx_keep (w : World) (u x : Nat) (h : (w.net.get x).rx = []) : ((userIO w u).net.get x).rx = [] := by
  unfold userIO
  split
  · exact h
  unfold userIO0
  dsimp only
  split
  · simp only [get_upd]; split
    · rfl
    · exact h
  · split <;> exact h

theorem userIO_interactive (w : World) (u x : Nat) (h : (userIO w u).interactive x = true) : w.interactive x = true := by
  unfold userIO at h
  split at h
  · exact h
  unfold userIO0 at h
  dsimp only at h
  split at h
  · exact h
  · split at h
    · simp only [World.interactive, removeUser_contains, Bool.and_eq_true] at h; exact h.1
    · exact h

theorem fold_userIO (L : List Nat) (w : World) (s : FState) (h : G s w) (hno : (L.foldl userIO w).overflow = false) :
    G s (L.foldl userIO w) ∧ (∀ u, u ∈ L → ((L.foldl userIO w).net.get u).rx = []) ∧
    (∀ x, (w.net.get x).rx = [] → ((L.foldl userIO w).net.get x).rx = []) ∧
    (∀ x, (L.foldl userIO w).interactive x = true → w.interactive x = true) := by
  induction L generalizing w with
  | nil => exact ⟨h, (fun _ hu => by cases hu), fun _ hx => hx, fun _ hx => hx⟩
  | cons u r ih =>
    obtain ⟨i1, i2, i3, i4⟩ := ih (userIO w u) (G_userIO s w u h (fold_userIO_ovf r _ hno)) hno
    refine ⟨i1, ?_, ?_, ?_⟩
    · intro x hx
      rcases List.mem_cons.mp hx with hx | hx
      · subst hx; exact i3 x (userIO_rx_self w x (fold_userIO_ovf r _ hno))
      · exact i2 x hx
    · intro x hx; exact i3 x (userIO_rx_keep w u x hx)
    · intro x hx; exact userIO_interactive w u x (i4 x hx)

theorem G_processIO (s : FState) (w : World) (h : G s w) (hno : (processIO w).1.overflow = false) :
    G ((processIO w).2.foldl fifoStep s) (processIO w).1 ∧ Drained (processIO w).1 := by
  revert hno
  unfold processIO
  dsimp only
  have hmem : ∀ x, w.interactive x = true → x ∈ w.slots.filterMap id := by
    intro x hx
    simp only [World.interactive, List.contains_iff_mem] at hx
    exact List.mem_filterMap.mpr ⟨some x, hx, rfl⟩
  split
  · intro hno
    obtain ⟨f1, f2, f3, f4⟩ := fold_userIO (w.slots.filterMap id) (accept w (w.naccepted + 1)) s (G_accept s w h) hno
    refine ⟨by simpa [fifoStep] using f1, ?_⟩
    intro x hx
    have hx1 := f4 x hx
    simp only [World.interactive, accept, List.contains_iff_mem] at hx1
    rcases List.mem_or_eq_of_mem_set hx1 with hm | he
    · have hxw : w.interactive x = true := by
        simp only [World.interactive, List.contains_iff_mem]
        split at hm
        · rcases List.mem_append.mp hm with hm | hm
          · exact hm
          · simp [List.mem_replicate] at hm
        · exact hm
      exact f2 x (hmem x hxw)
    · simp only [Option.some.injEq] at he
      subst he
      apply f3
      exact (h.fresh _ (Nat.lt_succ_self _)).2
  · intro hno
    obtain ⟨f1, f2, _, f4⟩ := fold_userIO (w.slots.filterMap id) w s h hno
    refine ⟨by simpa using f1, ?_⟩
    intro x hx
    exact f2 x (hmem x (f4 x hx))

theorem G_cycle (sc : Scripts) (w : World) (s : FState) (h : G s w) (hno : (cycleStep sc w).1.overflow = false) :
    G ((cycleStep sc w).2.foldl fifoStep s) (cycleStep sc w).1 := by
  have hno1 := (cycleStep_ovf sc w hno).1
  unfold cycleStep
  dsimp only
  simp only [List.foldl_append, List.foldl_cons, List.foldl_nil]
  have h1 : G s { w with cycle := w.cycle + 1, users := grantAll w.users w.slots } :=
    G_congr s w _ h (fun x => grantAll_core w.users w.slots x) rfl rfl
  obtain ⟨p1, p2⟩ := G_processIO s _ h1 hno1
  have hb : fifoStep (fifoStep s (Ev.begin (w.cycle + 1))) (Ev.poll (w.cycle + 1) (pollBlocks (hasPending w))) = s := rfl
  rw [hb]
  have hl := G_cmdLoop sc (NV.Gen.C12.loopCalls (connectedUsers w) w.maxUsers) _ _ p1 p2
  split
  · simpa [fifoStep] using hl
  · split
    · simpa [fifoStep] using hl
    · simpa [fifoStep] using hl

theorem G_cycleRun (sc : Scripts) (f : Nat) (w : World) (s : FState) (h : G s w)
    (hno : (cycleRun sc f w).1.overflow = false) :
    G ((cycleRun sc f w).2.foldl fifoStep s) (cycleRun sc f w).1 :=
  cycleRun_fold' sc fifoStep (fun s w => w.overflow = false → G s w)
    (fun s w hh hn => G_cycle sc w s (hh (cycleStep_ovf sc w hn).2) hn)
    (fun s w hh hn => G_congr s w _ (hh hn) (fun _ => rfl) rfl rfl)
    (fun s w hh hn => G_congr s w _ (hh hn) (fun _ => rfl) rfl rfl) f w s (fun _ => h) hno

theorem G_step (sc : Scripts) (w : World) (s : FState) (c : Cmd) (h : G s w)
    (hc : (match c with | .send _ d => d.all plainChar | _ => true) = true)
    (hno : (step sc w c).1.overflow = false) :
    G ((step sc w c).2.foldl fifoStep s) (step sc w c).1 := by
  revert hno
  unfold step
  split
  · exact fun _ => h
  · cases c with
    | cycle => exact fun hno => G_cycleRun sc _ w s h hno
    | conn => exact fun _ => G_congr s w _ h (fun _ => rfl) rfl rfl
    | close u =>
      intro _
      dsimp only
      split
      · refine ⟨?_, ?_, ?_⟩
        · intro x
          have hrx : ((upd w.net u { w.net.get u with eof := true }).get x).rx = (w.net.get x).rx := by
            simp only [get_upd]; split
            · rename_i hx; subst hx; rfl
            · rfl
          have hev : ∀ l : List Ev, (∀ e ∈ l, ∃ v, e = Ev.close v) → l.foldl fifoStep s = s := by
            intro l hl
            induction l with
            | nil => rfl
            | cons e r ih =>
              obtain ⟨v, hv⟩ := hl e (List.mem_cons_self)
              subst hv
              exact ih (fun e he => hl e (List.mem_cons_of_mem _ he))
          rw [hev _ (by intro e he; split at he <;> simp at he; exact ⟨u, he⟩)]
          show QInv _ _ ((upd w.net u { w.net.get u with eof := true }).get x).rx
          rw [hrx]; exact h.q x
        · intro x hx
          have hrx : ((upd w.net u { w.net.get u with eof := true }).get x).rx = (w.net.get x).rx := by
            simp only [get_upd]; split
            · rename_i hx; subst hx; rfl
            · rfl
          have hs : ∀ b : Bool, (if b = true then [Ev.close u] else []).foldl fifoStep s = s := by
            intro b; cases b <;> rfl
          rw [hs]
          show _ ∧ ((upd w.net u { w.net.get u with eof := true }).get x).rx = []
          rw [hrx]; exact h.fresh x hx
        · have hs : ∀ b : Bool, (if b = true then [Ev.close u] else []).foldl fifoStep s = s := by
            intro b; cases b <;> rfl
          rw [hs]; exact h.clean
      · exact h
    | send u d =>
      intro _
      dsimp only at hc ⊢
      split
      · rename_i hcond
        simp only [Bool.and_eq_true, decide_eq_true_eq] at hcond
        have hu : u ≤ w.naccepted := hcond.1.1.1.1.1.2
        refine ⟨?_, ?_, h.clean⟩
        · intro x
          simp only [List.foldl_cons, List.foldl_nil, fifoStep, get_upd]
          split
          · rename_i hx; subst hx
            exact sim_send _ _ _ _ (h.q x) hc
          · exact h.q x
        · intro x hx
          have hx' : w.naccepted < x := hx
          have hne : x ≠ u := by omega
          simp only [List.foldl_cons, List.foldl_nil, fifoStep, get_upd, hne, if_false]
          exact h.fresh x hx'
      · exact h

theorem G_run (sc : Scripts) (cs : List Cmd) (w : World) (s : FState) (h : G s w) (hp : plainCmds cs = true)
    (hno : (run sc w cs).1.overflow = false) :
    G ((run sc w cs).2.foldl fifoStep s) (run sc w cs).1 := by
  induction cs generalizing w s with
  | nil => exact h
  | cons c r ih =>
    simp only [plainCmds, List.all_cons, Bool.and_eq_true] at hp
    have hno1 := run_ovf_head sc c r w hno
    simp only [run, List.foldl_append] at hno ⊢
    exact ih _ _ (G_step sc w s c h hp.1 hno1) (by simpa [plainCmds] using hp.2) hno

theorem G_init : G {} {} :=
  ⟨fun _ => QInv_init, fun _ _ => ⟨rfl, rfl⟩, rfl⟩

/-- **trace theorem 3** (`per_user_fifo` at trace level, clause `fifo`): for every history whose sent bytes are plain and
    every script oracle, each buffered command executed by the model is the oldest unconsumed input of its user - a
    complete line in line mode, everything typed so far in single-char mode: order, no loss, no duplication, through
    mode switches, reframing, kicks and command() calls. -/
theorem judgeFifo_events (sc : Scripts) (cs : List Cmd) (hp : plainCmds cs = true)
    (hno : (run sc {} cs).1.overflow = false) : judgeFifo (events sc cs) = [] := by
  unfold judgeFifo events
  rw [(G_run sc cs {} {} G_init hp hno).clean]
  rfl

end NV.C12
