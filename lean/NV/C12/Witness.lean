/-
C12 — Lean-checked counterexample of the full trace-level statement (open known finding C12-getchar-typeahead).
-/
import NV.C12.Model
import NV.C12.Spec

namespace NV.C12

/-- the full statement: the oracle accepts the trace of every history under every script oracle -/
def C12_trace_Full : Prop := ∀ (sc : Scripts) (cs : List Cmd), judgeEv (events sc cs) = []

/-- user 1 answers its command `g` with get_char() -/
def wScripts : Scripts := fun u t => if u = 1 ∧ t = ['g'] then [Op.gc] else []

/-- `g` and `c` typed as lines; `x` typed as a line while the get_char() is pending.  The get_char() consumes `c`;
    the raw bytes of `x CR LF` stay buffered in line mode without a terminator: user 1 is not served in cycle 4. -/
def wCmds : List Cmd :=
  [.conn, .cycle, .send 1 "g~c~".toList, .cycle, .send 1 "x~".toList, .cycle, .cycle]

set_option maxRecDepth 20000 in
theorem getchar_typeahead_witness : judgeEv (events wScripts wCmds) = [Viol.idleWaitRaw 4 1, Viol.starvedRaw 1 4] := by decide

theorem C12_trace_Full_false : ¬ C12_trace_Full := by
  intro h
  have := h wScripts wCmds
  rw [getchar_typeahead_witness] at this
  cases this

end NV.C12
