/-
C12 — the former counterexample of the trace-level statement (finding C12-getchar-typeahead, repaired in /repo by
`fix: a line typed while get_char() was pending stayed unframed ...`), kept as a Lean-checked regression: on the model
of the repaired code the oracle accepts the trace.
-/
import NV.C12.Model
import NV.C12.Spec

namespace NV.C12

/-- user 1 answers its command `g` with get_char() -/
def wScripts : Scripts := fun u t => if u = 1 ∧ t = ['g'] then [Op.gc] else []

/-- `g` and `c` typed as lines; `x` typed as a line while the get_char() is pending.  The get_char() consumes `c`;
    before the repair the raw bytes `x CR LF` stayed buffered without a terminator and user 1 was not served in
    cycle 4; now they are reframed when single-char mode ends and `x` is served in cycle 4. -/
def wCmds : List Cmd :=
  [.conn, .cycle, .send 1 "g~c~".toList, .cycle, .send 1 "x~".toList, .cycle, .cycle, .cycle]

set_option maxRecDepth 20000 in
theorem getchar_typeahead_repaired :
    judgeEv (events wScripts wCmds) = [] ∧ (events wScripts wCmds).count (Ev.cmd 1 ['x']) = 1 := by decide

end NV.C12
