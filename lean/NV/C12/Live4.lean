/-
C12 — `judgeLive (events sc cs) = []` (clauses `starved`, `idleWait`) for every history with plain bytes and every script
oracle, including histories with uncaught errors (aborted and restarted iterations).

`B fs js w` is the invariant between two harness actions: the FIFO simulation `G`, the coupling of the two oracles,
"unread bytes = bytes sent since the last `begin`", live users sit in the table with an open client, no verdict so far.
`B_cycle` carries it over one iteration of backend(); `cycleRun_fold` over the restarts; `B_step` / `B_run` over histories.
-/
import NV.C12.Live3

namespace NV.C12

structure B (fs : FState) (js : JState) (w : World) : Prop where
  g : G fs w
  cpl : Cpl fs js
  rx : ∀ u, w.interactive u = true → (w.net.get u).rx = (js.us.get u).fresh
  fr : ∀ u, u ∉ js.ids → (js.us.get u).fresh = []
  acc : ∀ u, 1 ≤ u → u ≤ w.naccepted → u ∈ js.ids
  live : LiveOK js w
  neweof : ∀ u, w.naccepted < u → (w.net.get u).eof = false
  clean : js.bad = []
  mnb : js.mustNotBlock = none
  flag : FlagSound w

theorem B_init : B {} {} {} :=
  ⟨G_init, ⟨fun _ => rfl, fun _ => rfl⟩, fun _ _ => rfl, fun _ _ => rfl, fun u h1 h2 => by
      have : (({} : World).naccepted) = 0 := rfl
      omega,
    fun u h => by simp [live, AMap.get] at h; exact absurd h (by decide), fun _ _ => rfl, rfl, rfl,
    fun u hc => by
      change hasCmd ({} : U).single ({} : U).buf = true at hc
      simp [hasCmd, firstCmd, dropNul] at hc⟩

/-! ### the oracle at `begin` and `poll` -/

theorem live_beginU (j : JU) : live (beginU j) = live j := rfl

theorem poll_quiet (s : JState) (n : Nat) (blk : Bool) (h : ∀ u, s.mustNotBlock = some u → blk = false) :
    judgeStep s (.poll n blk) = s := by
  cases hm : s.mustNotBlock with
  | none => simp [judgeStep, hm]
  | some u =>
    have := h u hm
    subst this
    simp [judgeStep, hm]

/-- the record of a user after `begin` and (possibly) the logon of user `k` -/
theorem logon_get (s : JState) (k x : Nat) :
    (judgeStep s (.logon k)).us.get x = if x = k then { connected := true } else s.us.get x := by
  simp only [judgeStep, get_upd]

/-! ### one iteration of backend() -/

theorem B_cycle (sc : Scripts) (fs : FState) (js : JState) (w : World) (h : B fs js w) (hq : Quiet w)
    (hno : (cycleStep sc w).1.overflow = false) :
    B ((cycleStep sc w).2.foldl fifoStep fs) ((cycleStep sc w).2.foldl judgeStep js) (cycleStep sc w).1 := by
  have hsafeEnd := cycleStep_safe sc w hq.1
  have hnoIO : (cmdPhaseStart w).overflow = false := (cycleStep_ovf sc w hno).1
  have hGend := G_cycle sc w fs h.g hno
  have hflagEnd := cycleStep_flag sc w h.flag
  have hns := no_starvation sc w hq.1
  have hcc := cycleStep_cmdCount sc w
  -- names for the pieces of the iteration
  generalize hw0 : ({ w with cycle := w.cycle + 1, users := grantAll w.users w.slots } : World) = w0 at *
  have hw0s : w0.slots = w.slots := by rw [← hw0]
  have hw0n : w0.net = w.net := by rw [← hw0]
  have hw0a : w0.naccepted = w.naccepted := by rw [← hw0]
  have hw0c : w0.nconn = w.nconn := by rw [← hw0]
  have hl0 : LiveOK js w0 := LiveOK_congr js js w w0 h.live (fun _ hh => hh) hw0s (fun _ => by rw [hw0n])
  -- oracle after `begin`
  let js1 := judgeStep js (.begin (w.cycle + 1))
  have hj1 : ∀ x, js1.us.get x = if x ∈ js.ids then beginU (js.us.get x) else js.us.get x := begin_get js _
  have hfresh1 : ∀ x, (js1.us.get x).fresh = [] := by
    intro x; rw [hj1 x]; split
    · rfl
    · rename_i hx; exact h.fr x hx
  have hlive1 : ∀ x, live (js1.us.get x) = live (js.us.get x) := by
    intro x; rw [hj1 x]; split <;> rfl
  have hcpl1 : Cpl fs js1 := by
    constructor
    · intro x; rw [hj1 x]; split
      · simp only [beginU, List.append_nil]; exact h.cpl.pend x
      · exact h.cpl.pend x
    · intro x; rw [hj1 x]; split
      · exact h.cpl.mode x
      · exact h.cpl.mode x
  -- `poll` adds no verdict
  have hpoll : judgeStep js1 (.poll (w.cycle + 1) (pollBlocks (hasPending w))) = js1 := by
    apply poll_quiet
    intro u hu
    have hfind : js.ids.find? (fun u => live (js.us.get u) && complete (js.us.get u).charMode (js.us.get u).pending) = some u := hu
    have hpred := List.find?_some hfind
    simp only [Bool.and_eq_true] at hpred
    have := blocker_pending fs js w h.g h.cpl h.rx h.live h.flag u hpred.1 hpred.2
    simp [pollBlocks_spec, this]
  -- process_io
  have hio_f : (processIO w0).2.foldl fifoStep fs = fs := by
    unfold processIO; dsimp only; split <;> rfl
  let js2 := (processIO w0).2.foldl judgeStep js1
  have hl1 : LiveOK js1 w0 := fun x hx => hl0 x (by rw [← hlive1 x]; exact hx)
  have hl2 : LiveOK js2 (processIO w0).1 :=
    LiveOK_processIO js1 w0 hl1 (by rw [hw0n, hw0a]; exact h.neweof _ (Nat.lt_succ_self _))
  -- shape of js2: either js1 or js1 after the logon of the new user
  have hjs2 : (js2 = js1 ∧ (processIO w0).1.naccepted = w.naccepted) ∨
      (js2 = judgeStep js1 (.logon (w.naccepted + 1)) ∧ (processIO w0).1.naccepted = w.naccepted + 1) := by
    have hacc := (processIO_eof w0 0).2
    show ((processIO w0).2.foldl judgeStep js1 = js1 ∧ _) ∨ ((processIO w0).2.foldl judgeStep js1 = _ ∧ _)
    unfold processIO at hacc ⊢
    dsimp only at hacc ⊢
    split
    · rename_i hlt
      right
      rw [hw0a] at hacc ⊢
      simp only [hw0a, hw0c] at hlt
      simp only [hw0a, hw0c, hlt, if_true] at hacc
      exact ⟨rfl, hacc⟩
    · rename_i hge
      left
      simp only [hw0a, hw0c] at hge
      simp only [hw0a, hw0c, hge, if_false] at hacc
      exact ⟨rfl, hacc⟩
  have hbad2 : js2.bad = [] ∧ js2.mustNotBlock = js1.mustNotBlock := by
    rcases hjs2 with ⟨e, _⟩ | ⟨e, _⟩ <;> rw [e]
    · exact ⟨h.clean, rfl⟩
    · exact ⟨h.clean, rfl⟩
  have hfresh2 : ∀ x, (js2.us.get x).fresh = [] := by
    intro x
    rcases hjs2 with ⟨e, _⟩ | ⟨e, _⟩ <;> rw [e]
    · exact hfresh1 x
    · rw [logon_get]; split
      · rfl
      · exact hfresh1 x
  have hcpl2 : Cpl fs js2 := by
    rcases hjs2 with ⟨e, _⟩ | ⟨e, _⟩ <;> rw [e]
    · exact hcpl1
    · have hfr := (h.g.fresh (w.naccepted + 1) (Nat.lt_succ_self _)).1
      constructor
      · intro x; rw [logon_get]; split
        · rename_i hx; subst hx; rw [hfr]; rfl
        · exact hcpl1.pend x
      · intro x; rw [logon_get]; split
        · rename_i hx; subst hx; rw [hfr]
        · exact hcpl1.mode x
  have hids2 : ∀ x, 1 ≤ x → x ≤ (processIO w0).1.naccepted → x ∈ js2.ids := by
    intro x hx1 hx2
    rcases hjs2 with ⟨e, ea⟩ | ⟨e, ea⟩ <;> rw [e]
    · rw [ea] at hx2; exact h.acc x hx1 hx2
    · rw [ea] at hx2
      show x ∈ (w.naccepted + 1) :: js.ids
      by_cases hxe : x = w.naccepted + 1
      · subst hxe; exact List.mem_cons_self
      · exact List.mem_cons_of_mem _ (h.acc x hx1 (by omega))
  have helig2 : ∀ x, x ∈ js2.ids → (js2.us.get x).eligible = true →
      live (js.us.get x) = true ∧ complete (js.us.get x).charMode ((js.us.get x).pending ++ (js.us.get x).fresh) = true := by
    intro x hxi hxe
    have hfrom1 : x ∈ js.ids → (js1.us.get x).eligible = true →
        live (js.us.get x) = true ∧ complete (js.us.get x).charMode ((js.us.get x).pending ++ (js.us.get x).fresh) = true := by
      intro hm he
      rw [hj1 x] at he
      simp only [hm, if_true, beginU, Bool.and_eq_true] at he
      exact he
    rcases hjs2 with ⟨e, _⟩ | ⟨e, _⟩
    · rw [e] at hxi hxe; exact hfrom1 hxi hxe
    · rw [e] at hxi hxe
      rw [logon_get] at hxe
      split at hxe
      · cases hxe
      · rename_i hne
        have hm : x ∈ js.ids := by
          have : x ∈ (w.naccepted + 1) :: js.ids := hxi
          rcases List.mem_cons.mp this with hh | hh
          · exact absurd hh hne
          · exact hh
        exact hfrom1 hm hxe
  -- the command loop
  generalize hK : NV.Gen.C12.loopCalls (connectedUsers w) w.maxUsers = K at *
  have hin := cmdLoop_inLoop sc K (processIO w0).1
  obtain ⟨k1, k2, k3, k4⟩ := inLoop_fold (cmdLoop sc K (processIO w0).1).2 hin js2
  let js3 := (cmdLoop sc K (processIO w0).1).2.foldl judgeStep js2
  have hl3 : LiveOK js3 (cmdLoop sc K (processIO w0).1).1 := LiveOK_cmdLoop sc K _ js2 hl2
  have hcpl3 : Cpl ((cmdLoop sc K (processIO w0).1).2.foldl fifoStep fs) js3 :=
    cpl_fold _ hin fs js2 hcpl2 hfresh2
  obtain ⟨n1, n2⟩ := cmdLoop_net sc K (processIO w0).1
  -- the world at the end is the world after the loop
  have hwend : (cycleStep sc w).1 = (cmdLoop sc K (processIO w0).1).1 := by
    rw [← hK, ← hw0]; rfl
  -- sockets of table users are drained at the end
  have hnoIO0 : (processIO w0).1.overflow = false := by rw [← hw0]; exact hnoIO
  obtain ⟨hg2, hd2⟩ := G_processIO fs w0 (G_congr fs w w0 h.g (fun x => by rw [← hw0]; exact grantAll_core w.users w.slots x) hw0n hw0a) hnoIO0
  have hsafe2 : Safe (processIO w0).1 := processIO_safe _ (by rw [← hw0]; exact ⟨hq.1.1, hq.1.2⟩)
  have hdrain3 : ∀ x, (cmdLoop sc K (processIO w0).1).1.interactive x = true →
      ((cmdLoop sc K (processIO w0).1).1.net.get x).rx = [] := by
    intro x hx
    rw [n1]
    apply hd2 x
    cases hi : (processIO w0).1.interactive x with
    | true => rfl
    | false =>
      have := cmdLoop_not_interactive sc K _ hsafe2 x hi
      rw [this] at hx; cases hx
  -- the events of the iteration, folded
  have hfoldF : (cycleStep sc w).2.foldl fifoStep fs = (cmdLoop sc K (processIO w0).1).2.foldl fifoStep fs := by
    unfold cycleStep
    dsimp only
    rw [hw0, hK]
    simp only [List.foldl_append, List.foldl_cons, List.foldl_nil]
    have hb : fifoStep (fifoStep fs (Ev.begin (w.cycle + 1))) (Ev.poll (w.cycle + 1) (pollBlocks (hasPending w))) = fs := rfl
    rw [hb, hio_f]
    split
    · rfl
    · split <;> rfl
  -- the liveness oracle at the end of the iteration
  have hcr : (cmdLoop sc K (processIO w0).1).1.crashed = false := by rw [← hwend]; exact hsafeEnd.1
  have hstarved : (cmdLoop sc K (processIO w0).1).1.thrown = false →
      js3.ids.filter (fun u => (js3.us.get u).eligible && live (js3.us.get u) && !(js3.us.get u).served) = [] := by
    intro hfin
    rw [List.filter_eq_nil_iff]
    intro x hxi hcond
    simp only [Bool.and_eq_true, Bool.not_eq_true'] at hcond
    obtain ⟨⟨he3, hlv3⟩, hsv3⟩ := hcond
    have hxi2 : x ∈ js2.ids := by rw [← k2]; exact hxi
    have he2 : (js2.us.get x).eligible = true := by rw [← (k4 x).1]; exact he3
    obtain ⟨hlv, hcomp⟩ := helig2 x hxi2 he2
    have hel := eligible_start fs js w h.g h.cpl h.live h.flag x hlv hcomp hnoIO
    have hres := hns x hel (by rw [hwend]; exact hfin)
    rcases hres with hres | hres
    · rw [hcc x] at hres
      have hK' : cmdCount x (cmdLoop sc K (cmdPhaseStart w)).2 = 1 := hres
      have hps : cmdPhaseStart w = (processIO w0).1 := by rw [← hw0]; rfl
      rw [hps] at hK'
      have := (k4 x).2.2.2.2.1 (by omega)
      rw [this] at hsv3; cases hsv3
    · rw [hwend] at hres
      have := (hl3 x hlv3).1
      rw [this] at hres; cases hres
  have hfoldJ : ((cycleStep sc w).2.foldl judgeStep js).us = js3.us ∧ ((cycleStep sc w).2.foldl judgeStep js).ids = js3.ids ∧
      ((cycleStep sc w).2.foldl judgeStep js).bad = [] ∧ ((cycleStep sc w).2.foldl judgeStep js).mustNotBlock = none := by
    unfold cycleStep
    dsimp only
    rw [hw0, hK]
    simp only [List.foldl_append, List.foldl_cons, List.foldl_nil]
    show (List.foldl judgeStep (List.foldl judgeStep (List.foldl judgeStep
      (judgeStep js1 (Ev.poll (w.cycle + 1) (pollBlocks (hasPending w)))) (processIO w0).2) (cmdLoop sc K (processIO w0).1).2) _).us = _ ∧ _
    rw [hpoll]
    show (List.foldl judgeStep js3 _).us = _ ∧ _
    rw [hcr]
    simp only [Bool.false_eq_true, if_false]
    split
    · -- aborted iteration
      simp only [List.foldl_cons, List.foldl_nil, judgeStep]
      exact ⟨by first | rfl | trivial, by first | rfl | trivial, by rw [k1]; exact hbad2.1, by first | rfl | trivial⟩
    · rename_i hnt
      have hfin : (cmdLoop sc K (processIO w0).1).1.thrown = false := by simpa using hnt
      simp only [List.foldl_cons, List.foldl_nil, judgeStep]
      rw [hstarved hfin]
      exact ⟨by first | rfl | trivial, by first | rfl | trivial,
        by simp only [List.map_nil, List.nil_append]; rw [k1]; exact hbad2.1, by first | rfl | trivial⟩
  obtain ⟨f1, f2, f3, f4⟩ := hfoldJ
  -- the invariant at the end
  have hget : ∀ x, ((cycleStep sc w).2.foldl judgeStep js).us.get x = js3.us.get x := by intro x; rw [f1]
  refine ⟨hGend, ?_, ?_, ?_, ?_, ?_, ?_, f3, f4, hflagEnd⟩
  · -- coupling
    rw [hfoldF]
    exact ⟨fun x => by rw [hget x]; exact hcpl3.pend x, fun x => by rw [hget x]; exact hcpl3.mode x⟩
  · intro x hx
    rw [hget x, (k4 x).2.1, hfresh2 x]
    rw [hwend] at hx ⊢
    exact hdrain3 x hx
  · intro x _
    rw [hget x, (k4 x).2.1]; exact hfresh2 x
  · intro x hx1 hx2
    rw [f2, k2]
    apply hids2 x hx1
    rw [hwend, n2] at hx2; exact hx2
  · intro x hx
    rw [hget x] at hx
    rw [hwend]
    exact hl3 x hx
  · intro x hx
    rw [hwend, n2] at hx
    rw [hwend, n1, (processIO_eof w0 x).1, hw0n]
    apply h.neweof x
    have := (processIO_eof w0 0).2
    rw [this, hw0a] at hx
    split at hx <;> omega

/-! ### histories -/

theorem B_clear (fs : FState) (js : JState) (w : World) (h : B fs js w) : B fs js { w with thrown := false } :=
  ⟨G_congr fs w _ h.g (fun _ => rfl) rfl rfl, h.cpl, h.rx, h.fr, h.acc, h.live, h.neweof, h.clean, h.mnb, h.flag⟩

def pstep (p : FState × JState) (e : Ev) : FState × JState := (fifoStep p.1 e, judgeStep p.2 e)

theorem foldl_pstep (l : List Ev) (p : FState × JState) :
    l.foldl pstep p = (l.foldl fifoStep p.1, l.foldl judgeStep p.2) := by
  induction l generalizing p with
  | nil => rfl
  | cons e r ih => rw [List.foldl_cons, ih]; rfl

theorem B_cycleRun (sc : Scripts) (fs : FState) (js : JState) (w : World) (h : B fs js w) (hq : Quiet w)
    (hno : (cycleRun sc (weight w + 1) w).1.overflow = false) :
    B ((cycleRun sc (weight w + 1) w).2.foldl fifoStep fs) ((cycleRun sc (weight w + 1) w).2.foldl judgeStep js)
      (cycleRun sc (weight w + 1) w).1 := by
  have := (cycleRun_fold sc pstep (fun p w => w.overflow = false → B p.1 p.2 w)
    (fun p w hb hq' hn => by rw [foldl_pstep]; exact B_cycle sc p.1 p.2 w (hb (cycleStep_ovf sc w hn).2) hq' hn)
    (fun p w hb hn => B_clear p.1 p.2 w (hb hn)) (weight w + 1) w (fs, js) (fun _ => h) hq (by omega)).1 hno
  rw [foldl_pstep] at this
  exact this

theorem B_step (sc : Scripts) (fs : FState) (js : JState) (w : World) (c : Cmd) (h : B fs js w) (hq : Quiet w)
    (hc : (match c with | .send _ d => d.all plainChar | _ => true) = true)
    (hno : (step sc w c).1.overflow = false) :
    B ((step sc w c).2.foldl fifoStep fs) ((step sc w c).2.foldl judgeStep js) (step sc w c).1 := by
  have hG := G_step sc w fs c h.g hc hno
  have hF := step_flag sc w c h.flag
  cases c with
  | cycle =>
    have : step sc w .cycle = cycleRun sc (weight w + 1) w := by simp [step, hq.1.1]
    rw [this] at hno ⊢; exact B_cycleRun sc fs js w h hq hno
  | conn =>
    have hst : step sc w .conn = ({ w with nconn := w.nconn + 1 }, [Ev.conn (w.nconn + 1)]) := by simp [step, hq.1.1]
    rw [hst] at hG hF ⊢
    exact ⟨hG, h.cpl, h.rx, h.fr, h.acc, h.live, h.neweof, h.clean, h.mnb, hF⟩
  | send u d =>
    revert hG hF
    simp only [step, hq.1.1, Bool.false_eq_true, if_false]
    split
    · rename_i hcond
      intro hG hF
      simp only [Bool.and_eq_true, decide_eq_true_eq] at hcond
      obtain ⟨⟨⟨⟨⟨⟨hu1, hu2⟩, _⟩, hint⟩, _⟩, _⟩, _⟩ := hcond
      have hmem : u ∈ js.ids := h.acc u hu1 hu2
      refine ⟨hG, ?_, ?_, ?_, h.acc, ?_, ?_, h.clean, h.mnb, hF⟩
      · constructor
        · intro x
          simp only [List.foldl_cons, List.foldl_nil, fifoStep, judgeStep, get_upd]
          split
          · rename_i hx; subst hx
            simp only [← List.append_assoc]
            rw [h.cpl.pend x]
          · exact h.cpl.pend x
        · intro x
          simp only [List.foldl_cons, List.foldl_nil, fifoStep, judgeStep, get_upd]
          split
          · rename_i hx; subst hx; exact h.cpl.mode x
          · exact h.cpl.mode x
      · intro x hx
        simp only [List.foldl_cons, List.foldl_nil, judgeStep, get_upd]
        split
        · rename_i hxu; subst hxu
          simp only [h.rx x hint]
        · exact h.rx x hx
      · intro x hx
        simp only [List.foldl_cons, List.foldl_nil, judgeStep, get_upd] at hx ⊢
        split
        · rename_i hxu; subst hxu; exact absurd hmem hx
        · exact h.fr x hx
      · intro x hx
        simp only [List.foldl_cons, List.foldl_nil, judgeStep, get_upd] at hx
        have hlx : live (js.us.get x) = true := by
          split at hx
          · rename_i hxu; subst hxu; exact hx
          · exact hx
        obtain ⟨a1, a2⟩ := h.live x hlx
        refine ⟨a1, ?_⟩
        simp only [get_upd]
        split
        · rename_i hxu; subst hxu; exact a2
        · exact a2
      · intro x hx
        simp only [get_upd]
        split
        · rename_i hxu; subst hxu
          have hxa : w.naccepted < x := hx
          omega
        · exact h.neweof x hx
    · intro _ _; exact h
  | close u =>
    revert hG hF
    simp only [step, hq.1.1, Bool.false_eq_true, if_false]
    split
    · rename_i hcond
      intro hG hF
      simp only [Bool.and_eq_true, decide_eq_true_eq] at hcond
      obtain ⟨⟨⟨hu1, hu2⟩, _⟩, _⟩ := hcond
      -- the oracle state: clientOpen of u cleared when the close is observable
      have hjs : ∀ x, live (((if w.interactive u = true then [Ev.close u] else []).foldl judgeStep js).us.get x) = true →
          live (js.us.get x) = true ∧ x ≠ u := by
        intro x hx
        split at hx
        · simp only [List.foldl_cons, List.foldl_nil, judgeStep, get_upd] at hx
          split at hx
          · simp [live] at hx
          · rename_i hne; exact ⟨hx, hne⟩
        · rename_i hni
          refine ⟨hx, ?_⟩
          intro hxu; subst hxu
          have := (h.live x hx).1
          exact hni this
      have hsame : ∀ x, (((if w.interactive u = true then [Ev.close u] else []).foldl judgeStep js).us.get x).fresh = (js.us.get x).fresh ∧
          (((if w.interactive u = true then [Ev.close u] else []).foldl judgeStep js).us.get x).pending = (js.us.get x).pending ∧
          (((if w.interactive u = true then [Ev.close u] else []).foldl judgeStep js).us.get x).charMode = (js.us.get x).charMode := by
        intro x
        split
        · simp only [List.foldl_cons, List.foldl_nil, judgeStep, get_upd]
          split
          · rename_i hxu; subst hxu; exact ⟨rfl, rfl, rfl⟩
          · exact ⟨rfl, rfl, rfl⟩
        · exact ⟨rfl, rfl, rfl⟩
      have hmeta : ((if w.interactive u = true then [Ev.close u] else []).foldl judgeStep js).ids = js.ids ∧
          ((if w.interactive u = true then [Ev.close u] else []).foldl judgeStep js).bad = js.bad ∧
          ((if w.interactive u = true then [Ev.close u] else []).foldl judgeStep js).mustNotBlock = js.mustNotBlock := by
        split <;> exact ⟨rfl, rfl, rfl⟩
      have hfifo : (if w.interactive u = true then [Ev.close u] else []).foldl fifoStep fs = fs := by
        split <;> rfl
      refine ⟨hG, ?_, ?_, ?_, ?_, ?_, ?_, by rw [hmeta.2.1]; exact h.clean, by rw [hmeta.2.2]; exact h.mnb, hF⟩
      · rw [hfifo]
        exact ⟨fun x => by rw [(hsame x).1, (hsame x).2.1]; exact h.cpl.pend x,
               fun x => by rw [(hsame x).2.2]; exact h.cpl.mode x⟩
      · intro x hx
        rw [(hsame x).1]
        have : ((upd w.net u { w.net.get u with eof := true }).get x).rx = (w.net.get x).rx := by
          simp only [get_upd]; split
          · rename_i hxu; subst hxu; rfl
          · rfl
        show ((upd w.net u { w.net.get u with eof := true }).get x).rx = _
        rw [this]; exact h.rx x hx
      · intro x hx
        rw [hmeta.1] at hx
        rw [(hsame x).1]; exact h.fr x hx
      · intro x hx1 hx2
        rw [hmeta.1]; exact h.acc x hx1 hx2
      · intro x hx
        obtain ⟨hlx, hne⟩ := hjs x hx
        obtain ⟨a1, a2⟩ := h.live x hlx
        refine ⟨a1, ?_⟩
        show ((upd w.net u { w.net.get u with eof := true }).get x).eof = false
        simp only [get_upd, hne, if_false]; exact a2
      · intro x hx
        have hxa : w.naccepted < x := hx
        show ((upd w.net u { w.net.get u with eof := true }).get x).eof = false
        have hne : x ≠ u := by omega
        simp only [get_upd, hne, if_false]; exact h.neweof x hxa
    · intro _ _; exact h

theorem B_run (sc : Scripts) (cs : List Cmd) (fs : FState) (js : JState) (w : World) (h : B fs js w) (hq : Quiet w)
    (hp : plainCmds cs = true) (hno : (run sc w cs).1.overflow = false) :
    B ((run sc w cs).2.foldl fifoStep fs) ((run sc w cs).2.foldl judgeStep js) (run sc w cs).1 := by
  induction cs generalizing fs js w with
  | nil => exact h
  | cons c r ih =>
    simp only [plainCmds, List.all_cons, Bool.and_eq_true] at hp
    have hno1 := run_ovf_head sc c r w hno
    simp only [run, List.foldl_append] at hno ⊢
    exact ih _ _ _ (B_step sc fs js w c h hq hp.1 hno1) (cursor_in_bounds sc w c hq) (by simpa [plainCmds] using hp.2) hno

/-- **trace theorem 4** (`no_starvation`, `loop_bound_sufficient`, `no_idle_wait` at trace level; clauses `starved` and
    `idleWait`): for every history whose sent bytes are plain and every script oracle - kicks, drops, mode switches,
    command() calls, uncaught errors that abort and restart the loop - the liveness oracle accepts the trace of the
    model: every user who was connected with a complete command (buffered or sent before the iteration began) when an
    iteration began, and is still connected when it ends, was served in it; and backend never asks the poller to block
    while a connected user has a complete command buffered. -/
theorem judgeLive_events (sc : Scripts) (cs : List Cmd) (hp : plainCmds cs = true)
    (hno : (run sc {} cs).1.overflow = false) : judgeLive (events sc cs) = [] := by
  unfold judgeLive events
  rw [(B_run sc cs {} {} {} B_init quiet_init hp hno).clean]
  rfl

/-- **top theorem, four of the five clause oracles**: for every history with plain bytes and every script oracle the
    specification oracle finds nothing in the trace of the model except, possibly, verdicts of the clause `overtaken`
    (round robin across iterations aborted by an error), which is checked on every implementation trace but not proved
    for the model -/
theorem judgeEv_events_eq_order (sc : Scripts) (cs : List Cmd) (hp : plainCmds cs = true)
    (hno : (run sc {} cs).1.overflow = false) :
    judgeEv (events sc cs) = judgeOrder (events sc cs) := by
  unfold judgeEv
  rw [judgeStruct_events, judgeEfun_events, judgeFifo_events sc cs hp hno, judgeLive_events sc cs hp hno]
  rfl

-- non-vacuity: a history with an aborted and restarted iteration; the theorems speak about such traces
example :
    let sc : Scripts := fun u t => if u = 1 ∧ t = ['x'] then [Op.err] else []
    let cs : List Cmd := [.conn, .cycle, .conn, .cycle, .send 1 "x~a~".toList, .send 2 "p~".toList, .cycle]
    plainCmds cs = true ∧ (events sc cs).any (fun e => match e with | .abort _ => true | _ => false) = true ∧
      ((events sc cs).filter (fun e => match e with | .cmd _ _ => true | _ => false)).length = 3 := by decide

end NV.C12
