/-
C12 — helper lemmas: finite maps, what every model function leaves unchanged (frame properties), the cursor
invariant `Safe`, turn flags are only ever cleared during the command phase.
-/
import NV.C12.Model

namespace NV.C12

/-! ### bridging lemmas: the scheduling expressions regenerated from the source are the ones the theorems are about.
A change of the cursor step / wrap, of the scan length, of the command-loop bound or of the grant condition in the C
source changes `NV/Gen/C12.lean` and breaks the corresponding lemma here. -/

open NV.Gen.C12 in
/-- `if (s_next_user-- == 0) s_next_user = max_users - 1;` : decrementing cursor that wraps to the last slot -/
@[simp] theorem cursorNext_spec (c m : Nat) : cursorNext c m = if c = 0 then m - 1 else c - 1 := rfl

open NV.Gen.C12 in
/-- one scan of get_user_command makes `max_users` iterations -/
@[simp] theorem scanLength_spec (m : Nat) : scanLength m = m := rfl

open NV.Gen.C12 in
/-- `for (i = 0; process_user_command () && i < connected_users; i++);` allows `connected_users + 1` calls -/
@[simp] theorem loopCalls_spec (cu m : Nat) : loopCalls cu m = cu + 1 := rfl

open NV.Gen.C12 in
/-- the grant loop gives a turn to, and counts, exactly the occupied slots -/
@[simp] theorem grantCond_spec (b : Bool) : grantCond b = b := rfl

open NV.Gen.C12 in
@[simp] theorem countCond_spec (b : Bool) : countCond b = b := rfl

open NV.Gen.C12 in
/-- backend blocks in the poller exactly when no occupied slot has CMD_IN_BUF (heart beat off) -/
@[simp] theorem pollBlocks_spec (p : Bool) : pollBlocks p = !p := by cases p <;> rfl

/-- network users are searched a slot from index 1 on (slot 0 is the console user's) -/
theorem firstUserSlot_spec : NV.Gen.C12.firstUserSlot = 1 := rfl

open NV.Gen.C12 in
/-- get_user_data's room rule (space at `text_end`; if short: space at the pending length; if that is short too: hold
    the read back when a complete command is buffered, else discard) decides by the pending length alone - `text_start`
    does not matter - and whenever it reads it asks recv() for at least `MAX_TEXT / 16` bytes -/
theorem cSpaceRule_spec (start len : Nat) (c : Bool) :
    ((cSpaceRule start len c).2.1 = RoomAct.hold ↔ (roomShort len = true ∧ c = true)) ∧
    ((cSpaceRule start len c).2.1 = RoomAct.discard ↔ (roomShort len = true ∧ c = false)) ∧
    ((cSpaceRule start len c).2.1 ≠ RoomAct.hold → recvChunk ≤ (cSpaceRule start len c).2.2) := by
  have hmono : (maxText - (start + len) - 1) / spaceDiv ≤ (maxText - len - 1) / spaceDiv :=
    Nat.div_le_div_right (by omega)
  unfold cSpaceRule roomShort recvChunk
  dsimp only
  by_cases h1 : (maxText - (start + len) - 1) / spaceDiv < maxText / compactDiv
  · simp only [h1, if_true]
    by_cases h2 : (maxText - len - 1) / spaceDiv < maxText / compactDiv
    · cases c with
      | true => simp [h2]
      | false =>
        simp only [h2, decide_true, Bool.and_false, Bool.false_eq_true, if_false, if_true]
        refine ⟨by simp, by simp, fun _ => by decide⟩
    · simp only [h2, decide_false, Bool.false_and, Bool.false_eq_true, if_false]
      refine ⟨by simp, by simp, fun _ => by omega⟩
  · simp only [h1, if_false]
    have h2 : ¬ (maxText - len - 1) / spaceDiv < maxText / compactDiv := by omega
    simp only [h2, decide_false]
    refine ⟨by simp, by simp, fun _ => by omega⟩

/-- the table really grows when it is full (otherwise `all_users[i]` would be written outside it) -/
theorem growBy_pos : 0 < growBy := by decide

open NV.Gen.C12 in
/-- statement order of one iteration of backend()'s loop (clang AST of the working tree): reset of
    current_interactive / eval_cost, shutdown test, remove_destructed_objects, slow shutdown, THEN the turn-grant loop
    (which also counts connected_users and computes has_pending_commands), the timeout choice, do_comm_polling,
    process_io when events are pending, the bounded command loop, heart beat, hook - the order `cycleStep` mirrors -/
theorem backendOrder_spec : backendOrder =
    ["BinaryOperator:current_interactive", "BinaryOperator:eval_cost", "IfStmt:g_proceeding_shutdown",
     "CallExpr:remove_destructed_objects", "IfStmt:do_slow_shutdown,slow_shutdown_to_do",
     "DeclStmt:has_pending_commands", "DeclStmt:connected_users",
     "ForStmt:all_users,connected_users,has_pending_commands,iflags,max_users",
     "IfStmt:has_pending_commands,heart_beat_flag,timeout,tv_sec", "BinaryOperator:do_comm_polling,nb,timeout",
     "IfStmt:fatal,nb", "IfStmt:nb,process_io", "ForStmt:connected_users,process_user_command",
     "IfStmt:call_heart_beat,heart_beat_flag", "IfStmt:verif_backend_cycle_hook"] := rfl

open NV.Gen.C12 in
/-- an uncaught error re-enters backend() in front of the loop: the iteration is abandoned, a new one starts
    (`cycleRun`) -/
theorem errorReentry_spec : errorReentry = "before-loop" := rfl

open NV.Gen.C12 in
/-- statement order of get_user_command(): scan loop, "no command" exit, command_giver, telnet_neg, next_cmd_in_buf,
    CMD_IN_BUF cleared when nothing complete is left, second cursor step, NOECHO handling, last_time -
    the order `getUserCommand` mirrors -/
theorem gucOrder_spec : gucOrder =
    ["DeclStmt:s_next_user", "DeclStmt:ip", "DeclStmt:user_command",
     "ForStmt:all_users,first_cmd_in_buf,flush_message,iflags,ip,max_users,message_length,ob,s_next_user,user_command",
     "IfStmt:ip,user_command", "BinaryOperator:command_giver,ip,ob", "CallExpr:telnet_neg,user_command",
     "CallExpr:ip,next_cmd_in_buf", "IfStmt:cmd_in_buf,iflags,ip", "IfStmt:max_users,s_next_user",
     "IfStmt:add_message,command_giver,iflags,ip", "BinaryOperator:ip,last_time"] := rfl

open NV.Gen.C12 in
/-- body of the scan loop: fetch the slot under the cursor, flush pending output, the CMD_IN_BUF / first_cmd_in_buf /
    turn test, THEN the cursor step - the order `scanStep` + `scan` mirror -/
theorem gucScanOrder_spec : gucScanOrder =
    ["BinaryOperator:all_users,ip,s_next_user", "IfStmt:flush_message,ip,message_length,ob",
     "IfStmt:first_cmd_in_buf,iflags,ip,user_command", "IfStmt:max_users,s_next_user"] := rfl

open NV.Gen.C12 in
/-- process_user_command(): one `if ((user_command = get_user_command ()))` block holding all the processing, then
    the "no more commands" exit -/
theorem pucOrder_spec : pucOrder =
    ["DeclStmt:user_command", "DeclStmt:command_giver", "DeclStmt:ip",
     "IfStmt:apply,call_function_interactive,command_giver,current_interactive,get_user_command,iflags,ip,print_prompt,process_command,user_command",
     "BinaryOperator:command_giver", "BinaryOperator:current_interactive"] := rfl

open NV.Gen.C12 in
/-- first_cmd_in_buf: skip NULs (text_start), empty -> reset, single-char -> hit, find the end, terminated -> hit,
    otherwise move the partial line to the front (and truncate an over-long one) - the order `firstCmd` mirrors -/
theorem firstCmdInBufOrder_spec : firstCmdInBufOrder =
    ["BinaryOperator:ip,text,text_start", "WhileStmt:ip,text,text_end", "BinaryOperator:ip,text,text_start",
     "IfStmt:ip,text,text_end,text_start", "IfStmt:iflags,ip,text,text_start", "WhileStmt:ip,text,text_end",
     "IfStmt:ip,text,text_end,text_start", "BinaryOperator:ip,text,text_start", "BinaryOperator:ip,text",
     "WhileStmt:ip,text,text_end", "CompoundAssignOperator:ip,text_end,text_start", "BinaryOperator:ip,text_start",
     "IfStmt:ip,text,text_end"] := rfl

open NV.Gen.C12 in
/-- cmd_in_buf: skip NULs, empty -> no, single-char -> yes, find the end, terminated -> yes (`hasCmd`) -/
theorem cmdInBufOrder_spec : cmdInBufOrder =
    ["BinaryOperator:ip,text,text_start", "WhileStmt:ip,text,text_end", "IfStmt:ip,text,text_end", "IfStmt:iflags,ip",
     "WhileStmt:ip,text,text_end", "IfStmt:ip,text,text_end"] := rfl

open NV.Gen.C12 in
/-- next_cmd_in_buf: step over the command, over the NULs behind it, advance text_start or reset (`nextCmd`) -/
theorem nextCmdInBufOrder_spec : nextCmdInBufOrder =
    ["DeclStmt:ip,text,text_start", "WhileStmt:ip,text,text_end", "WhileStmt:ip,text,text_end",
     "IfStmt:ip,text,text_end,text_start"] := rfl

/-! ### finite maps -/

theorem AMap.get_filter_ne {α : Type} [Inhabited α] (m : AMap α) (k i : Nat) (h : i ≠ k) :
    AMap.get (m.filter (fun e => e.1 != k)) i = AMap.get m i := by
  induction m with
  | nil => rfl
  | cons e r ih =>
    obtain ⟨k', v⟩ := e
    by_cases hk : k' = k
    · subst hk
      simp [List.filter, AMap.get, h, ih]
    · have : (k' != k) = true := by simp [hk]
      simp only [List.filter, this, AMap.get, ih]

@[simp] theorem get_upd {α : Type} [Inhabited α] (m : AMap α) (k i : Nat) (v : α) :
    AMap.get (upd m k v) i = if i = k then v else AMap.get m i := by
  unfold upd
  by_cases h : i = k
  · simp [AMap.get, h]
  · simp [AMap.get, h, AMap.get_filter_ne m k i h]

/-- HAS_CMD_TURN of user `x` -/
def turnOf (w : World) (x : Nat) : Bool := (w.users.get x).turn

/-! ### the cursor invariant -/

/-- `s_next_user` indexes inside the table (or the table does not exist yet), and no crash has happened -/
def Safe (w : World) : Prop :=
  w.crashed = false ∧ (w.cursor < w.slots.length ∨ (w.slots.length = 0 ∧ w.cursor = 0))

@[simp] theorem removeUser_length (s : List (Option Nat)) (u : Nat) : (removeUser s u).length = s.length := by
  simp [removeUser]

@[simp] theorem decCursor_slots (w : World) : (decCursor w).slots = w.slots := rfl
@[simp] theorem decCursor_users (w : World) : (decCursor w).users = w.users := rfl
@[simp] theorem decCursor_crashed (w : World) : (decCursor w).crashed = w.crashed := rfl

theorem decCursor_safe (w : World) (hs : Safe w) (hpos : 0 < w.slots.length) : Safe (decCursor w) := by
  refine ⟨hs.1, Or.inl ?_⟩
  have hc : w.cursor < w.slots.length := by
    rcases hs.2 with h | h
    · exact h
    · omega
  simp only [decCursor, cursorNext_spec]
  split <;> omega

/-- what one iteration of the scan can do: it never touches table, cursor or crash flag; it only clears turns,
    and it clears exactly the turn of the user it hands out, who held one -/
theorem scanStep_next (w w' : World) (h : scanStep w = .next w') :
    w'.slots = w.slots ∧ w'.cursor = w.cursor ∧ w'.crashed = w.crashed ∧ ∀ x, turnOf w' x = turnOf w x := by
  unfold scanStep at h
  split at h
  · cases h
  · cases h; simp
  · dsimp only at h
    split at h
    · split at h
      · split at h
        · cases h
        · cases h
          refine ⟨rfl, rfl, rfl, ?_⟩
          intro x; simp only [turnOf, get_upd]; split <;> simp_all
      · cases h
        refine ⟨rfl, rfl, rfl, ?_⟩
        intro x; simp only [turnOf, get_upd]; split <;> simp_all
    · cases h; simp

theorem scanStep_found (w w' : World) (u : Nat) (t : List Char) (h : scanStep w = .found w' u t) :
    w'.slots = w.slots ∧ w'.cursor = w.cursor ∧ w'.crashed = w.crashed ∧ turnOf w u = true ∧
      ∀ x, turnOf w' x = (if x = u then false else turnOf w x) := by
  unfold scanStep at h
  split at h
  · cases h
  · cases h
  · dsimp only at h
    split at h
    · split at h
      · split at h
        · rename_i hturn
          cases h
          refine ⟨rfl, rfl, rfl, hturn, ?_⟩
          intro x; simp only [turnOf, get_upd]; split <;> simp_all
        · cases h
      · cases h
    · cases h

theorem scanStep_crash (w : World) (h : scanStep w = .crash) : w.slots.length ≤ w.cursor := by
  unfold scanStep at h
  split at h
  · rename_i hh
    simpa [List.getElem?_eq_none_iff] using hh
  · cases h
  · dsimp only at h
    split at h
    · split at h
      · split at h <;> cases h
      · cases h
    · cases h

/-- the whole scan: table untouched, invariant kept, turns only cleared -/
theorem scan_spec (n : Nat) (w : World) (hs : Safe w) (hn : n = 0 ∨ 0 < w.slots.length) :
    (scan n w).1.slots = w.slots ∧ Safe (scan n w).1 ∧
      (∀ x, turnOf (scan n w).1 x = (match (scan n w).2 with
                                       | some (u, _) => if x = u then false else turnOf w x
                                       | none => turnOf w x)) ∧
      (∀ u t, (scan n w).2 = some (u, t) → turnOf w u = true) := by
  induction n generalizing w with
  | zero => simp [scan, hs]
  | succ n ih =>
    have hpos : 0 < w.slots.length := by omega
    unfold scan
    cases hstep : scanStep w with
    | crash =>
      have := scanStep_crash w hstep
      rcases hs.2 with h | h <;> omega
    | found w' u t =>
      obtain ⟨h1, h2, h3, h4, h5⟩ := scanStep_found w w' u t hstep
      refine ⟨h1, ⟨by rw [h3]; exact hs.1, by rw [h1, h2]; exact hs.2⟩, ?_, ?_⟩
      · intro x; simpa using h5 x
      · intro u' t' he; simp at he; rw [← he.1]; exact h4
    | next w' =>
      obtain ⟨h1, h2, h3, h4⟩ := scanStep_next w w' hstep
      have hs' : Safe w' := ⟨by rw [h3]; exact hs.1, by rw [h1, h2]; exact hs.2⟩
      have hd : Safe (decCursor w') := decCursor_safe w' hs' (by rw [h1]; exact hpos)
      have := ih (decCursor w') hd (Or.inr (by simpa [h1] using hpos))
      obtain ⟨i1, i2, i3, i4⟩ := this
      refine ⟨by simpa [h1] using i1, i2, ?_, ?_⟩
      · intro x
        have := i3 x
        simp only [turnOf, decCursor_users] at this ⊢
        rw [this]
        have h4x := h4 x
        simp only [turnOf] at h4x
        split <;> simp [h4x]
      · intro u t he
        have := i4 u t he
        have h4x := h4 u
        simp only [turnOf, decCursor_users] at this h4x ⊢
        rw [← h4x]; exact this


/-! ### command execution leaves cursor, table size and turn flags alone -/

/-- `w'` differs from `w` in nothing the scheduler looks at: table size, cursor, crash flag, turn flags -/
def Frame (w w' : World) : Prop :=
  w'.slots.length = w.slots.length ∧ w'.cursor = w.cursor ∧ w'.crashed = w.crashed ∧ ∀ x, turnOf w' x = turnOf w x

theorem Frame.refl (w : World) : Frame w w := ⟨rfl, rfl, rfl, fun _ => rfl⟩

theorem Frame.trans {a b c : World} (h1 : Frame a b) (h2 : Frame b c) : Frame a c :=
  ⟨h2.1.trans h1.1, h2.2.1.trans h1.2.1, h2.2.2.1.trans h1.2.2.1, fun x => (h2.2.2.2 x).trans (h1.2.2.2 x)⟩

theorem Frame.safe {a b : World} (h : Frame a b) (hs : Safe a) : Safe b := by
  obtain ⟨h1, h2, h3, _⟩ := h
  exact ⟨by rw [h3]; exact hs.1, by rw [h1, h2]; exact hs.2⟩

theorem setCall_frame (w : World) (me : Nat) (single : Bool) : Frame w (setCall w me single).1 := by
  unfold setCall
  dsimp only
  split
  · exact Frame.refl w
  · refine ⟨rfl, rfl, rfl, ?_⟩
    intro x
    simp only [turnOf, get_upd]
    split
    · rename_i hx; subst hx; split <;> rfl
    · rfl

/-- buffered-command events -/
def Ev.isCmdOf (u : Nat) : Ev → Bool
  | .cmd v _ => v == u
  | _ => false

theorem runOps_frame (sc : Scripts) (f : Nat) (w : World) (me : Nat) (ops : List Op) :
    Frame w (runOps sc f w me ops).1 ∧ ∀ u, ∀ e ∈ (runOps sc f w me ops).2, Ev.isCmdOf u e = false := by
  induction f generalizing w me ops with
  | zero => simp [runOps, Frame.refl]
  | succ f ih =>
    cases ops with
    | nil => simp [runOps, Frame.refl]
    | cons op rest =>
      -- the effect of the single op
      have hop : ∀ (w1 : World) (e1 : List Ev), Frame w w1 → (∀ u, ∀ e ∈ e1, Ev.isCmdOf u e = false) →
          Frame w (if w1.thrown then (w1, e1) else if w1.alive me then ((runOps sc f w1 me rest).1, e1 ++ (runOps sc f w1 me rest).2) else (w1, e1)).1 ∧
          ∀ u, ∀ e ∈ (if w1.thrown then (w1, e1) else if w1.alive me then ((runOps sc f w1 me rest).1, e1 ++ (runOps sc f w1 me rest).2) else (w1, e1)).2,
            Ev.isCmdOf u e = false := by
        intro w1 e1 hf he
        split
        · exact ⟨hf, he⟩
        split
        · obtain ⟨i1, i2⟩ := ih w1 me rest
          refine ⟨hf.trans i1, ?_⟩
          intro u e hm
          simp only [List.mem_append] at hm
          rcases hm with hm | hm
          · exact he u e hm
          · exact i2 u e hm
        · exact ⟨hf, he⟩
      unfold runOps
      cases op with
      | kick t =>
        apply hop
        · split
          · exact ⟨by simp, rfl, rfl, fun _ => rfl⟩
          · exact Frame.refl w
        · intro u e hm; simp at hm; subst hm; rfl
      | drop t =>
        apply hop
        · split
          · exact ⟨by simp, rfl, rfl, fun _ => rfl⟩
          · exact Frame.refl w
        · intro u e hm; simp at hm; subst hm; rfl
      | ecmd t text =>
        dsimp only
        split
        · obtain ⟨i1, i2⟩ := ih w t (sc t text)
          apply hop
          · exact i1
          · intro u e hm
            simp only [List.mem_cons] at hm
            rcases hm with hm | hm | hm
            · subst hm; rfl
            · subst hm; rfl
            · exact i2 u e hm
        · apply hop
          · exact Frame.refl w
          · intro u e hm; simp at hm; subst hm; rfl
      | gc =>
        apply hop
        · exact setCall_frame w me true
        · intro u e hm; simp at hm; subst hm; rfl
      | it =>
        apply hop
        · exact setCall_frame w me false
        · intro u e hm; simp at hm; subst hm; rfl
      | err =>
        apply hop
        · exact ⟨rfl, rfl, rfl, fun _ => rfl⟩
        · intro u e hm; simp at hm; subst hm; rfl
      | exec =>
        apply hop
        · exact Frame.refl w
        · intro u e hm; simp at hm; subst hm; rfl


/-! ### get_user_command / process_user_command / the command loop -/

theorem getUserCommand_spec (w : World) (hs : Safe w) :
    Safe (getUserCommand w).1 ∧ (getUserCommand w).1.slots.length = w.slots.length ∧
      (∀ x, turnOf (getUserCommand w).1 x = (match (getUserCommand w).2 with
                                              | some (u, _) => if x = u then false else turnOf w x
                                              | none => turnOf w x)) ∧
      (∀ u t, (getUserCommand w).2 = some (u, t) → turnOf w u = true) := by
  have hn : w.slots.length = 0 ∨ 0 < w.slots.length := by omega
  obtain ⟨s1, s2, s3, s4⟩ := scan_spec w.slots.length w hs hn
  unfold getUserCommand
  simp only [scanLength_spec]
  cases hsc : scan w.slots.length w with
  | mk w1 r =>
    rw [hsc] at s1 s2 s3 s4
    dsimp only at s1 s2 s3 s4
    cases r with
    | none => exact ⟨s2, by rw [s1], by simpa using s3, by simp⟩
    | some p =>
      obtain ⟨u, t⟩ := p
      have hpos : 0 < w.slots.length := by
        rcases hn with h | h
        · rw [h] at hsc; simp [scan] at hsc
        · exact h
      dsimp only at s1 s2 s3 s4 ⊢
      refine ⟨?_, by simp [s1], ?_, ?_⟩
      · apply decCursor_safe
        · exact ⟨s2.1, by simpa using s2.2⟩
        · simpa [s1] using hpos
      · intro x
        have := s3 x
        simp only [turnOf, decCursor_users, get_upd] at this ⊢
        split
        · rename_i hx; subst hx; simpa using this
        · rename_i hx; simpa [hx] using this
      · intro u' t' he
        simp at he
        rw [← he.1]; exact s4 u t rfl

theorem endInput_turn (us : U) : (endInput us).turn = us.turn := by
  unfold endInput; split <;> rfl

theorem processUserCommand_spec (sc : Scripts) (w : World) (hs : Safe w) :
    Safe (processUserCommand sc w).1 ∧ (processUserCommand sc w).1.slots.length = w.slots.length ∧
      ((processUserCommand sc w).2.2 = false →
          (processUserCommand sc w).2.1 = [] ∧ ∀ x, turnOf (processUserCommand sc w).1 x = turnOf w x) ∧
      ((processUserCommand sc w).2.2 = true →
          ∃ u t rest, (processUserCommand sc w).2.1 = Ev.cmd u t :: rest ∧
            (∀ v, ∀ e ∈ rest, Ev.isCmdOf v e = false) ∧ turnOf w u = true ∧
            ∀ x, turnOf (processUserCommand sc w).1 x = (if x = u then false else turnOf w x)) := by
  obtain ⟨g1, g2, g3, g4⟩ := getUserCommand_spec w hs
  unfold processUserCommand
  rw [hs.1]
  cases hthr : w.thrown with
  | true => simp [hs]
  | false =>
  simp only [Bool.or_self, Bool.false_eq_true, if_false]
  cases hg : getUserCommand w with
  | mk w1 r =>
    rw [hg] at g1 g2 g3 g4
    cases r with
    | none =>
      dsimp only at g1 g2 g3 ⊢
      exact ⟨g1, g2, fun _ => ⟨rfl, g3⟩, by simp⟩
    | some p =>
      obtain ⟨u, t⟩ := p
      dsimp only at g1 g2 g3 g4 ⊢
      -- the input_to bookkeeping
      have hf2 : Frame w1 (if (w1.users.get u).inputTo then
          { w1 with users := upd w1.users u (endInput (w1.users.get u)) } else w1) := by
        split
        · refine ⟨rfl, rfl, rfl, ?_⟩
          intro x; simp only [turnOf, get_upd]; split
          · rename_i hx; subst hx; exact endInput_turn _
          · rfl
        · exact Frame.refl w1
      obtain ⟨r1, r2⟩ := runOps_frame sc scriptFuel (if (w1.users.get u).inputTo then
          { w1 with users := upd w1.users u (endInput (w1.users.get u)) } else w1) u (sc u t)
      have hF := hf2.trans r1
      refine ⟨hF.safe g1, by rw [hF.1, g2], by simp, ?_⟩
      intro _
      refine ⟨u, t, _, rfl, r2, g4 u t rfl, ?_⟩
      intro x
      rw [hF.2.2.2 x]
      simpa using g3 x

/-- number of buffered commands of user `u` among events -/
def cmdCount (u : Nat) (es : List Ev) : Nat := es.countP (Ev.isCmdOf u)

theorem cmdCount_append (u : Nat) (a b : List Ev) : cmdCount u (a ++ b) = cmdCount u a + cmdCount u b := by
  simp [cmdCount, List.countP_append]

theorem cmdCount_zero_of_none (u : Nat) (es : List Ev) (h : ∀ e ∈ es, Ev.isCmdOf u e = false) : cmdCount u es = 0 := by
  simp only [cmdCount, List.countP_eq_zero]
  intro e he; simp [h e he]

theorem cmdLoop_spec (sc : Scripts) (k : Nat) (w : World) (hs : Safe w) :
    Safe (cmdLoop sc k w).1 ∧ (cmdLoop sc k w).1.slots.length = w.slots.length ∧
      (∀ u, cmdCount u (cmdLoop sc k w).2 ≤ (if turnOf w u then 1 else 0)) ∧
      (∀ x, turnOf (cmdLoop sc k w).1 x = true → turnOf w x = true) := by
  induction k generalizing w with
  | zero => simp [cmdLoop, hs, cmdCount]
  | succ k ih =>
    obtain ⟨p1, p2, p3, p4⟩ := processUserCommand_spec sc w hs
    unfold cmdLoop
    cases hp : processUserCommand sc w with
    | mk w1 r =>
      obtain ⟨e1, b⟩ := r
      rw [hp] at p1 p2 p3 p4
      dsimp only at p1 p2 p3 p4
      cases b with
      | false =>
        obtain ⟨q1, q2⟩ := p3 rfl
        dsimp only
        refine ⟨p1, p2, ?_, ?_⟩
        · intro u; subst q1; simp [cmdCount]
        · intro x hx; rw [q2 x] at hx; exact hx
      | true =>
        obtain ⟨u, t, rest, q1, q2, q3, q4⟩ := p4 rfl
        obtain ⟨i1, i2, i3, i4⟩ := ih w1 p1
        dsimp only
        refine ⟨i1, by rw [i2, p2], ?_, ?_⟩
        · intro v
          rw [cmdCount_append, q1]
          have hhead : cmdCount v (Ev.cmd u t :: rest) = (if u = v then 1 else 0) := by
            have h0 := cmdCount_zero_of_none v rest (q2 v)
            simp only [cmdCount] at h0
            simp [cmdCount, List.countP_cons, Ev.isCmdOf, h0]
          rw [hhead]
          have htail := i3 v
          rw [q4 v] at htail
          by_cases hv : v = u
          · subst hv
            simp at htail
            rw [q3]; simp [htail]
          · have hv' : ¬ u = v := fun h => hv h.symm
            simp only [hv, if_false] at htail
            simp only [hv', if_false, Nat.zero_add]
            exact htail
        · intro x hx
          have := i4 x hx
          rw [q4 x] at this
          split at this
          · cases this
          · exact this

end NV.C12
