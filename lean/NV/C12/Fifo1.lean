/-
C12 — byte-queue lemmas for the FIFO trace theorem: the two encodings of sent bytes in `interactive_t.text`
(`encL`: line mode, `~` -> " \b\0";  `encR`: single-char mode, `~` -> CR LF) and what first_cmd_in_buf / next_cmd_in_buf /
telnet_neg / reframe do to an encoded buffer.
-/
import NV.C12.Spec
import NV.C12.Lemmas

namespace NV.C12

/-- bytes the theorem quantifies over: anything except the five bytes the framing itself reacts to -/
def plainChar (c : Char) : Bool := c != NUL && c != BS && c != DEL && c != CR && c != LF

def encL (p : List Char) : List Char := copyChars false p
def encR (p : List Char) : List Char := copyChars true p

theorem encL_nil : encL [] = [] := rfl
theorem encR_nil : encR [] = [] := rfl

theorem encL_cons (c : Char) (p : List Char) :
    encL (c :: p) = (if c == '~' then [' ', BS, NUL] else [c]) ++ encL p := by
  simp [encL, copyChars]

theorem encR_cons (c : Char) (p : List Char) :
    encR (c :: p) = (if c == '~' then [CR, LF] else [c]) ++ encR p := by
  simp [encR, copyChars]

theorem encL_append (a b : List Char) : encL (a ++ b) = encL a ++ encL b := by
  simp [encL, copyChars]

theorem encR_append (a b : List Char) : encR (a ++ b) = encR a ++ encR b := by
  simp [encR, copyChars]

theorem copyChars_eq (single : Bool) (d : List Char) : copyChars single d = if single then encR d else encL d := by
  cases single <;> rfl

/-- a line without terminator encodes as itself -/
theorem encL_noTilde (l : List Char) (h : l.contains '~' = false) : encL l = l := by
  induction l with
  | nil => rfl
  | cons c r ih =>
    simp only [List.contains_cons, Bool.or_eq_false_iff] at h
    have hc : (c == '~') = false := by
      have := h.1
      simp only [beq_eq_false_iff_ne, ne_eq] at this ⊢
      exact fun hh => this hh.symm
    rw [encL_cons, hc, ih h.2]; rfl

/-- the head of a non-empty encoded buffer is never NUL -/
theorem enc_head_ne_nul (p1 p2 : List Char) (h1 : p1.all plainChar = true) (h2 : p2.all plainChar = true) :
    dropNul (encL p1 ++ encR p2) = encL p1 ++ encR p2 := by
  unfold dropNul
  cases p1 with
  | cons c r =>
    rw [encL_cons]
    by_cases hc : (c == '~') = true
    · have : (' ' == NUL) = false := by decide
      simp [hc, List.dropWhile, this]
    · simp only [hc, Bool.false_eq_true, if_false, List.cons_append, List.nil_append, List.dropWhile_cons]
      simp only [List.all_cons, Bool.and_eq_true] at h1
      have : (c == NUL) = false := by
        have := h1.1; simp [plainChar] at this; simp [this.1]
      simp [this]
  | nil =>
    simp only [encL_nil, List.nil_append]
    cases p2 with
    | nil => rfl
    | cons c r =>
      rw [encR_cons]
      by_cases hc : (c == '~') = true
      · have : (CR == NUL) = false := by decide
        simp [hc, List.dropWhile, this]
      · simp only [hc, Bool.false_eq_true, if_false, List.cons_append, List.nil_append, List.dropWhile_cons]
        simp only [List.all_cons, Bool.and_eq_true] at h2
        have : (c == NUL) = false := by
          have := h2.1; simp [plainChar] at this; simp [this.1]
        simp [this]


/-! ### takeWhile / dropWhile at the first NUL -/

theorem takeWhile_noNul (l : List Char) (h : l.all (· != NUL) = true) : l.takeWhile (· != NUL) = l := by
  induction l with
  | nil => rfl
  | cons c r ih =>
    simp only [List.all_cons, Bool.and_eq_true] at h
    simp [List.takeWhile_cons, h.1, ih h.2]

theorem dropWhile_noNul (l : List Char) (h : l.all (· != NUL) = true) : l.dropWhile (· != NUL) = [] := by
  induction l with
  | nil => rfl
  | cons c r ih =>
    simp only [List.all_cons, Bool.and_eq_true] at h
    simp [List.dropWhile_cons, h.1, ih h.2]

theorem takeWhile_toNul (l X : List Char) (h : l.all (· != NUL) = true) :
    (l ++ NUL :: X).takeWhile (· != NUL) = l := by
  induction l with
  | nil => simp [List.takeWhile_cons]
  | cons c r ih =>
    simp only [List.all_cons, Bool.and_eq_true] at h
    simp [List.takeWhile_cons, h.1, ih h.2]

theorem dropWhile_toNul (l X : List Char) (h : l.all (· != NUL) = true) :
    (l ++ NUL :: X).dropWhile (· != NUL) = NUL :: X := by
  induction l with
  | nil => simp [List.dropWhile_cons]
  | cons c r ih =>
    simp only [List.all_cons, Bool.and_eq_true] at h
    simp [List.dropWhile_cons, h.1, ih h.2]

theorem contains_nul_of (l X : List Char) : (l ++ NUL :: X).contains NUL = true := by
  simp

theorem contains_nul_false (l : List Char) (h : l.all (· != NUL) = true) : l.contains NUL = false := by
  induction l with
  | nil => rfl
  | cons c r ih =>
    simp only [List.all_cons, Bool.and_eq_true] at h
    have hc : (c != NUL) = true := h.1
    simp only [List.contains_cons, ih h.2, Bool.or_false]
    simp only [bne_iff_ne, ne_eq] at hc
    simp only [beq_eq_false_iff_ne, ne_eq]
    exact fun hh => hc hh.symm

/-! ### telnet_neg on text without editing bytes -/

theorem telnetNeg_fold (acc l : List Char) (h : l.all (fun c => c != BS && c != DEL) = true) :
    l.foldl (fun acc c => if c == BS || c == DEL then acc.dropLast else acc ++ [c]) acc = acc ++ l := by
  induction l generalizing acc with
  | nil => simp
  | cons c r ih =>
    simp only [List.all_cons, Bool.and_eq_true, bne_iff_ne, ne_eq] at h
    have h1 : (c == BS) = false := by simp [h.1.1]
    have h2 : (c == DEL) = false := by simp [h.1.2]
    have hr : r.all (fun c => c != BS && c != DEL) = true := h.2
    simp only [List.foldl_cons, h1, h2, Bool.or_false, Bool.false_eq_true, if_false]
    rw [ih _ hr]; simp

theorem telnetNeg_plain (l : List Char) (h : l.all (fun c => c != BS && c != DEL) = true) : telnetNeg l = l := by
  unfold telnetNeg; rw [telnetNeg_fold [] l h]; rfl

theorem telnetNeg_line (l : List Char) (h : l.all (fun c => c != BS && c != DEL) = true) :
    telnetNeg (l ++ [' ', BS]) = l := by
  unfold telnetNeg
  rw [List.foldl_append, telnetNeg_fold [] l h]
  have h1 : ¬ (' ' = BS) := by decide
  have h2 : ¬ (' ' = DEL) := by decide
  simp [List.foldl_cons, h1, h2]

/-! ### plain bytes and their encodings -/

theorem plain_noNul (l : List Char) (h : l.all plainChar = true) : l.all (· != NUL) = true := by
  simp only [List.all_eq_true] at h ⊢
  intro c hc; have := h c hc; simp only [plainChar, Bool.and_eq_true] at this; exact this.1.1.1.1

theorem plain_noEdit (l : List Char) (h : l.all plainChar = true) : l.all (fun c => c != BS && c != DEL) = true := by
  simp only [List.all_eq_true] at h ⊢
  intro c hc; have := h c hc; simp only [plainChar, Bool.and_eq_true] at this
  simp [this.1.1.1.2, this.1.1.2]

theorem encR_noNul (p : List Char) (h : p.all plainChar = true) : (encR p).all (· != NUL) = true := by
  induction p with
  | nil => rfl
  | cons c r ih =>
    simp only [List.all_cons, Bool.and_eq_true] at h
    rw [encR_cons, List.all_append, ih h.2, Bool.and_true]
    split
    · decide
    · have := h.1; simp only [plainChar, Bool.and_eq_true] at this
      simp [this.1.1.1.1]

theorem encR_noEdit (p : List Char) (h : p.all plainChar = true) :
    (encR p).all (fun c => c != BS && c != DEL) = true := by
  induction p with
  | nil => rfl
  | cons c r ih =>
    simp only [List.all_cons, Bool.and_eq_true] at h
    rw [encR_cons, List.all_append, ih h.2, Bool.and_true]
    split
    · decide
    · have := h.1; simp only [plainChar, Bool.and_eq_true] at this
      simp [this.1.1.1.2, this.1.1.2]

end NV.C12
