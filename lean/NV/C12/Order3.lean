/-
C12 — clause `overtaken`, oracle-only part: the order oracle (`orderStep`) keeps the same connection / byte records as
the liveness oracle (`CplO`), and script events leave `waiting` / `passed` alone.
-/
import NV.C12.Order2

namespace NV.C12

/-- the order oracle and the liveness oracle hold the same per-user connection data -/
structure CplO (js : JState) (os : OState) : Prop where
  conn : ∀ u, (os.us.get u).connected = (js.us.get u).connected
  opn : ∀ u, (os.us.get u).clientOpen = (js.us.get u).clientOpen
  pend : ∀ u, (os.us.get u).pending = (js.us.get u).pending ++ (js.us.get u).fresh
  mode : ∀ u, (os.us.get u).charMode = (js.us.get u).charMode
  ids : os.ids = js.ids

theorem CplO_live {js : JState} {os : OState} (h : CplO js os) (u : Nat) : oLive (os.us.get u) = live (js.us.get u) := by
  simp only [oLive, live, h.conn u, h.opn u]

theorem obeginU_fields (j : OU) : (obeginU j).connected = j.connected ∧ (obeginU j).clientOpen = j.clientOpen ∧
    (obeginU j).pending = j.pending ∧ (obeginU j).charMode = j.charMode := by
  unfold obeginU
  split
  · split <;> exact ⟨rfl, rfl, rfl, rfl⟩
  · exact ⟨rfl, rfl, rfl, rfl⟩

theorem ocmdU_other (u : Nat) (t : List Char) (v : Nat) (j : OU) (h : v ≠ u) :
    (ocmdU u t v j).connected = j.connected ∧ (ocmdU u t v j).clientOpen = j.clientOpen ∧
    (ocmdU u t v j).pending = j.pending ∧ (ocmdU u t v j).charMode = j.charMode ∧
    (ocmdU u t v j).waiting = j.waiting ∧
    (ocmdU u t v j).passed = (if j.waiting then u :: j.passed else j.passed) := by
  have hb : (v == u) = false := by simp [h]
  unfold ocmdU
  simp only [hb, Bool.false_eq_true, if_false]
  split <;> simp_all

theorem ocmdU_self (u : Nat) (t : List Char) (j : OU) :
    ocmdU u t u j = { j with pending := (consume j.charMode j.pending t).getD (onMiss j.pending t), charMode := false,
                             waiting := false, passed := [] } := by
  unfold ocmdU; simp

/-- every event keeps the coupling (a `cmd` must be for a user that has logged on, with nothing sent since `begin`) -/
theorem cplO_step (js : JState) (os : OState) (e : Ev) (h : CplO js os)
    (hcmd : ∀ u t, e = .cmd u t → u ∈ js.ids ∧ (js.us.get u).fresh = []) :
    CplO (judgeStep js e) (orderStep os e) := by
  cases e with
  | logon u =>
    refine ⟨?_, ?_, ?_, ?_, by simp only [judgeStep, orderStep, h.ids]⟩ <;>
    · intro x
      simp only [judgeStep, orderStep, get_upd]
      split
      · rfl
      · first | exact h.conn x | exact h.opn x | exact h.pend x | exact h.mode x
  | send u d =>
    refine ⟨?_, ?_, ?_, ?_, h.ids⟩
    · intro x; simp only [judgeStep, orderStep, get_upd]; split
      · rename_i hx; subst hx; exact h.conn x
      · exact h.conn x
    · intro x; simp only [judgeStep, orderStep, get_upd]; split
      · rename_i hx; subst hx; exact h.opn x
      · exact h.opn x
    · intro x; simp only [judgeStep, orderStep, get_upd]; split
      · rename_i hx; subst hx; simp only [h.pend x, List.append_assoc]
      · exact h.pend x
    · intro x; simp only [judgeStep, orderStep, get_upd]; split
      · rename_i hx; subst hx; exact h.mode x
      · exact h.mode x
  | close u =>
    refine ⟨?_, ?_, ?_, ?_, h.ids⟩
    · intro x; simp only [judgeStep, orderStep, get_upd]; split
      · rename_i hx; subst hx; exact h.conn x
      · exact h.conn x
    · intro x; simp only [judgeStep, orderStep, get_upd]; split
      · rfl
      · exact h.opn x
    · intro x; simp only [judgeStep, orderStep, get_upd]; split
      · rename_i hx; subst hx; exact h.pend x
      · exact h.pend x
    · intro x; simp only [judgeStep, orderStep, get_upd]; split
      · rename_i hx; subst hx; exact h.mode x
      · exact h.mode x
  | kick a t ok =>
    cases ok with
    | false => exact h
    | true =>
      refine ⟨?_, ?_, ?_, ?_, h.ids⟩
      · intro x; simp only [judgeStep, orderStep, get_upd]; split
        · rfl
        · exact h.conn x
      · intro x; simp only [judgeStep, orderStep, get_upd]; split
        · rename_i hx; subst hx; exact h.opn x
        · exact h.opn x
      · intro x; simp only [judgeStep, orderStep, get_upd]; split
        · rename_i hx; subst hx; exact h.pend x
        · exact h.pend x
      · intro x; simp only [judgeStep, orderStep, get_upd]; split
        · rename_i hx; subst hx; exact h.mode x
        · exact h.mode x
  | drop a t ok =>
    cases ok with
    | false => exact h
    | true =>
      refine ⟨?_, ?_, ?_, ?_, h.ids⟩
      · intro x; simp only [judgeStep, orderStep, get_upd]; split
        · rfl
        · exact h.conn x
      · intro x; simp only [judgeStep, orderStep, get_upd]; split
        · rename_i hx; subst hx; exact h.opn x
        · exact h.opn x
      · intro x; simp only [judgeStep, orderStep, get_upd]; split
        · rename_i hx; subst hx; exact h.pend x
        · exact h.pend x
      · intro x; simp only [judgeStep, orderStep, get_upd]; split
        · rename_i hx; subst hx; exact h.mode x
        · exact h.mode x
  | gc u r =>
    cases r with
    | false => exact h
    | true =>
      refine ⟨?_, ?_, ?_, ?_, h.ids⟩
      · intro x; simp only [judgeStep, orderStep, get_upd]; split
        · rename_i hx; subst hx; exact h.conn x
        · exact h.conn x
      · intro x; simp only [judgeStep, orderStep, get_upd]; split
        · rename_i hx; subst hx; exact h.opn x
        · exact h.opn x
      · intro x; simp only [judgeStep, orderStep, get_upd]; split
        · rename_i hx; subst hx; exact h.pend x
        · exact h.pend x
      · intro x; simp only [judgeStep, orderStep, get_upd]; split
        · rfl
        · exact h.mode x
  | begin n =>
    have hids := h.ids
    refine ⟨?_, ?_, ?_, ?_, h.ids⟩
    · intro x
      rw [obegin_get, begin_get, hids]
      split
      · rw [(obeginU_fields _).1]; exact h.conn x
      · exact h.conn x
    · intro x
      rw [obegin_get, begin_get, hids]
      split
      · rw [(obeginU_fields _).2.1]; exact h.opn x
      · exact h.opn x
    · intro x
      rw [obegin_get, begin_get, hids]
      split
      · rw [(obeginU_fields _).2.2.1]; simp only [beginU, List.append_nil]; exact h.pend x
      · exact h.pend x
    · intro x
      rw [obegin_get, begin_get, hids]
      split
      · rw [(obeginU_fields _).2.2.2]; exact h.mode x
      · exact h.mode x
  | cmd u t =>
    obtain ⟨hmem, hfr⟩ := hcmd u t rfl
    have hmemo : u ∈ os.ids := by rw [h.ids]; exact hmem
    have hp : (os.us.get u).pending = (js.us.get u).pending := by rw [h.pend u, hfr, List.append_nil]
    refine ⟨?_, ?_, ?_, ?_, h.ids⟩
    · intro x
      rw [ocmd_get]
      simp only [judgeStep, get_upd]
      by_cases hx : x = u
      · subst hx; simp only [hmemo, if_true, ocmdU_self]; exact h.conn x
      · simp only [hx, if_false]
        split
        · rw [(ocmdU_other u t x _ hx).1]; exact h.conn x
        · exact h.conn x
    · intro x
      rw [ocmd_get]
      simp only [judgeStep, get_upd]
      by_cases hx : x = u
      · subst hx; simp only [hmemo, if_true, ocmdU_self]; exact h.opn x
      · simp only [hx, if_false]
        split
        · rw [(ocmdU_other u t x _ hx).2.1]; exact h.opn x
        · exact h.opn x
    · intro x
      rw [ocmd_get]
      simp only [judgeStep, get_upd]
      by_cases hx : x = u
      · subst hx
        simp only [hmemo, if_true, ocmdU_self]
        rw [hp, h.mode x, hfr, List.append_nil]
      · simp only [hx, if_false]
        split
        · rw [(ocmdU_other u t x _ hx).2.2.1]; exact h.pend x
        · exact h.pend x
    · intro x
      rw [ocmd_get]
      simp only [judgeStep, get_upd]
      by_cases hx : x = u
      · subst hx; simp only [hmemo, if_true, ocmdU_self]
      · simp only [hx, if_false]
        split
        · rw [(ocmdU_other u t x _ hx).2.2.2.1]; exact h.mode x
        · exact h.mode x
  | endc n m l =>
    refine ⟨?_, ?_, ?_, ?_, h.ids⟩ <;>
    · intro x
      rw [oendc_get]
      split
      · first | exact h.conn x | exact h.opn x | exact h.pend x | exact h.mode x
      · first | exact h.conn x | exact h.opn x | exact h.pend x | exact h.mode x
  | poll n b =>
    have hus : (judgeStep js (.poll n b)).us = js.us ∧ (judgeStep js (.poll n b)).ids = js.ids := by
      simp only [judgeStep]
      split <;> exact ⟨rfl, rfl⟩
    exact ⟨fun x => by rw [hus.1]; exact h.conn x, fun x => by rw [hus.1]; exact h.opn x,
           fun x => by rw [hus.1]; exact h.pend x, fun x => by rw [hus.1]; exact h.mode x, by rw [hus.2]; exact h.ids⟩
  | abort n => exact ⟨h.conn, h.opn, h.pend, h.mode, h.ids⟩
  | conn u => exact h
  | ecmd u t => exact h
  | force a t x ok => exact h
  | it u r => exact h
  | err u => exact h
  | exec u r => exact h
  | crash w => exact h
  | other l => exact h

/-- script events (everything in the command loop except `cmd`) leave `waiting` and `passed` alone -/
theorem oscript_step (os : OState) (e : Ev) (he : e.inLoop = true) (hc : ∀ u, Ev.isCmdOf u e = false) :
    (orderStep os e).bad = os.bad ∧ (orderStep os e).ids = os.ids ∧
    ∀ v, ((orderStep os e).us.get v).waiting = (os.us.get v).waiting ∧
         ((orderStep os e).us.get v).passed = (os.us.get v).passed ∧
         (oLive ((orderStep os e).us.get v) = true → oLive (os.us.get v) = true) := by
  cases e with
  | cmd u t => have := hc u; simp [Ev.isCmdOf] at this
  | kick a t ok =>
    cases ok with
    | false => exact ⟨rfl, rfl, fun v => ⟨rfl, rfl, id⟩⟩
    | true =>
      refine ⟨rfl, rfl, ?_⟩
      intro v
      simp only [orderStep, get_upd]
      split
      · rename_i hx; subst hx; exact ⟨rfl, rfl, by simp [oLive]⟩
      · exact ⟨rfl, rfl, id⟩
  | drop a t ok =>
    cases ok with
    | false => exact ⟨rfl, rfl, fun v => ⟨rfl, rfl, id⟩⟩
    | true =>
      refine ⟨rfl, rfl, ?_⟩
      intro v
      simp only [orderStep, get_upd]
      split
      · rename_i hx; subst hx; exact ⟨rfl, rfl, by simp [oLive]⟩
      · exact ⟨rfl, rfl, id⟩
  | gc u r =>
    cases r with
    | false => exact ⟨rfl, rfl, fun v => ⟨rfl, rfl, id⟩⟩
    | true =>
      refine ⟨rfl, rfl, ?_⟩
      intro v
      simp only [orderStep, get_upd]
      split
      · rename_i hx; subst hx; exact ⟨rfl, rfl, id⟩
      · exact ⟨rfl, rfl, id⟩
  | ecmd u t => exact ⟨rfl, rfl, fun v => ⟨rfl, rfl, id⟩⟩
  | force a t x ok => exact ⟨rfl, rfl, fun v => ⟨rfl, rfl, id⟩⟩
  | it u r => exact ⟨rfl, rfl, fun v => ⟨rfl, rfl, id⟩⟩
  | err u => exact ⟨rfl, rfl, fun v => ⟨rfl, rfl, id⟩⟩
  | exec u r => exact ⟨rfl, rfl, fun v => ⟨rfl, rfl, id⟩⟩
  | _ => cases he

theorem oscript_fold (l : List Ev) (hl : ∀ e ∈ l, Ev.inLoop e = true) (hc : ∀ u, ∀ e ∈ l, Ev.isCmdOf u e = false)
    (os : OState) :
    (l.foldl orderStep os).bad = os.bad ∧ (l.foldl orderStep os).ids = os.ids ∧
    ∀ v, ((l.foldl orderStep os).us.get v).waiting = (os.us.get v).waiting ∧
         ((l.foldl orderStep os).us.get v).passed = (os.us.get v).passed ∧
         (oLive ((l.foldl orderStep os).us.get v) = true → oLive (os.us.get v) = true) := by
  induction l generalizing os with
  | nil => exact ⟨rfl, rfl, fun v => ⟨rfl, rfl, id⟩⟩
  | cons e r ih =>
    obtain ⟨a1, a2, a3⟩ := oscript_step os e (hl e List.mem_cons_self) (fun u => hc u e List.mem_cons_self)
    obtain ⟨b1, b2, b3⟩ := ih (fun x hx => hl x (List.mem_cons_of_mem _ hx))
      (fun u x hx => hc u x (List.mem_cons_of_mem _ hx)) (orderStep os e)
    rw [List.foldl_cons]
    refine ⟨b1.trans a1, b2.trans a2, ?_⟩
    intro v
    obtain ⟨c1, c2, c3⟩ := a3 v
    obtain ⟨d1, d2, d3⟩ := b3 v
    exact ⟨d1.trans c1, d2.trans c2, fun hh => c3 (d3 hh)⟩

/-- the coupling over a list of events of the command loop -/
theorem cplO_fold (l : List Ev) (hl : ∀ e ∈ l, Ev.inLoop e = true) (js : JState) (os : OState) (h : CplO js os)
    (hf : ∀ u, (js.us.get u).fresh = []) (hm : ∀ u t, Ev.cmd u t ∈ l → u ∈ js.ids) :
    CplO (l.foldl judgeStep js) (l.foldl orderStep os) := by
  induction l generalizing js os with
  | nil => exact h
  | cons e r ih =>
    rw [List.foldl_cons, List.foldl_cons]
    have he := hl e List.mem_cons_self
    obtain ⟨_, k2, _, k4⟩ := inLoop_step js e he
    apply ih (fun x hx => hl x (List.mem_cons_of_mem _ hx)) _ _
      (cplO_step js os e h (fun u t heq => ⟨hm u t (by rw [heq]; exact List.mem_cons_self), hf u⟩))
    · intro u; rw [(k4 u).2.1]; exact hf u
    · intro u t hu; rw [k2]; exact hm u t (List.mem_cons_of_mem _ hu)

end NV.C12
