/-
C04 — helper lemmas about the limits machine (NV/C04/Model.lean).
-/
import NV.C04.Model
import NV.C04.Spec

namespace NV.C04

open NV.Gen.C04

/-! ### error_state bits -/

theorem or_and_self_ne (a b : Nat) (hb : b ≠ 0) : (a ||| b) &&& b ≠ 0 := by
  rw [Nat.and_or_distrib_right, Nat.and_self]
  intro h
  exact hb (Nat.or_eq_zero_iff.mp h).2

/-- one of the two limit bits is set: what makes do_catch re-raise -/
def limitSet (s : St) : Prop := hasEs s esMaxEvalCost = true ∨ hasEs s esStackFull = true

theorem hasEs_setEs (s : St) (b : Nat) (hb : b ≠ 0) : hasEs (setEs s b) b = true := by
  simp [hasEs, setEs, or_and_self_ne s.es b hb]

theorem limitSet_setEs_cost (s : St) : limitSet (setEs s esMaxEvalCost) :=
  Or.inl (hasEs_setEs s _ (by decide))

theorem limitSet_setEs_full (s : St) : limitSet (setEs s esStackFull) :=
  Or.inr (hasEs_setEs s _ (by decide))

/-! ### generic sequencing -/

/-- property of a result that only concerns raised limit errors: their state carries a limit bit, and an
    evaluation-cost error carries ES_MAX_EVAL_COST -/
def BitsOk (r : Out × St) : Prop :=
  ∀ k, r.1 = .raised k → k.isLimit = true → limitSet r.2 ∧ (k = .cost → hasEs r.2 esMaxEvalCost = true)

theorem BitsOk_ok (s : St) : BitsOk (.ok, s) := by intro k h; cases h
theorem BitsOk_fuel (s : St) : BitsOk (.fuel, s) := by intro k h; cases h

theorem BitsOk_seqM {r : Out × St} {k : St → Out × St} (h1 : BitsOk r) (h2 : ∀ s, BitsOk (k s)) :
    BitsOk (seqM r k) := by
  unfold seqM
  split
  · exact h2 _
  · exact h1

theorem BitsOk_raise (cfg : Cfg) (ctx : Ctx) (k : Kind) (s : St)
    (h : k.isLimit = true → limitSet s ∧ (k = .cost → hasEs s esMaxEvalCost = true)) :
    BitsOk (raise cfg ctx k s) := by
  intro k' hk hl
  unfold raise at hk ⊢
  cases hk
  exact h hl

theorem BitsOk_tick (cfg : Cfg) (ctx : Ctx) (s : St) : BitsOk (tick cfg ctx s) := by
  unfold tick
  simp only
  split
  · apply BitsOk_raise
    intro _
    have h := hasEs_setEs { s with ticks := s.ticks + 1, cost := s.cost - 1 } esMaxEvalCost (by decide)
    have h' : hasEs { (setEs { s with ticks := s.ticks + 1, cost := s.cost - 1 } esMaxEvalCost) with cost := cfg.maxCost }
        esMaxEvalCost = true := by simpa [hasEs, setEs] using h
    exact ⟨Or.inl h', fun _ => h'⟩
  · exact BitsOk_ok _

theorem BitsOk_ticksN (cfg : Cfg) (ctx : Ctx) (n : Nat) (s : St) : BitsOk (ticksN cfg ctx n s) := by
  induction n generalizing s with
  | zero => exact BitsOk_ok _
  | succ n ih =>
    unfold ticksN
    have ht := BitsOk_tick cfg ctx s
    split
    · exact ih _
    · exact ht

theorem BitsOk_spin (cfg : Cfg) (ctx : Ctx) (n : Nat) (s : St) : BitsOk (spin cfg ctx n s) := by
  induction n generalizing s with
  | zero => exact BitsOk_fuel _
  | succ n ih =>
    unfold spin
    have ht := BitsOk_tick cfg ctx s
    split
    · exact ih _
    · exact ht

theorem BitsOk_pushFrame (cfg : Cfg) (ctx : Ctx) (s : St) : BitsOk (pushFrame cfg ctx s) := by
  unfold pushFrame
  split
  · exact BitsOk_raise _ _ _ _ (fun _ => ⟨limitSet_setEs_full s, fun h => by cases h⟩)
  · exact BitsOk_ok _

theorem BitsOk_pushChecked (cfg : Cfg) (ctx : Ctx) (n : Nat) (s : St) : BitsOk (pushChecked cfg ctx n s) := by
  unfold pushChecked
  split
  · exact BitsOk_raise _ _ _ _ (fun _ => ⟨limitSet_setEs_full s, fun h => by cases h⟩)
  · exact BitsOk_ok _

theorem BitsOk_catchLanding (cfg : Cfg) (ctx : Ctx) (d0 p0 : Int) (k : Kind) (s : St) :
    BitsOk (catchLanding cfg ctx d0 p0 k s) := by
  unfold catchLanding
  simp only
  split
  · apply BitsOk_raise; intro _
    have h : hasEs { (pushUnchecked (leave s d0 p0)) with es := esMaxEvalCost } esMaxEvalCost = true := by
      simp [hasEs]; decide
    exact ⟨Or.inl h, fun _ => h⟩
  · split
    · apply BitsOk_raise; intro _
      have h : hasEs { (pushUnchecked (leave s d0 p0)) with es := esStackFull } esStackFull = true := by
        simp [hasEs]; decide
      exact ⟨Or.inr h, fun h => by cases h⟩
    · exact BitsOk_ok _

/-- every limit error in flight carries its bit in error_state, whatever the receiving context -/
theorem exec_BitsOk (cfg : Cfg) (fuel : Nat) (ctx : Ctx) (sh : Sh) (s : St) : BitsOk (exec cfg fuel ctx sh s) := by
  induction fuel generalizing ctx sh s with
  | zero => unfold exec; exact BitsOk_fuel _
  | succ f ih =>
    unfold exec
    cases sh with
    | skip => exact BitsOk_ok _
    | work n => exact BitsOk_ticksN cfg ctx n s
    | spin => exact BitsOk_spin cfg ctx _ s
    | err => exact BitsOk_raise _ _ _ _ (fun h => by cases h)
    | throw_ =>
      cases ctx
      · exact BitsOk_raise _ _ _ _ (fun h => by cases h)
      · intro k hk hl; cases hk; cases hl
      · exact BitsOk_raise _ _ _ _ (fun h => by cases h)
    | seq a b => exact BitsOk_seqM (ih ctx a s) (fun s => ih ctx b s)
    | call locals body =>
      exact BitsOk_seqM (BitsOk_pushFrame cfg ctx s) fun s1 =>
        BitsOk_seqM (BitsOk_pushChecked cfg ctx locals s1) fun s2 =>
        BitsOk_seqM (BitsOk_ticksN cfg ctx _ s2) fun s3 =>
        BitsOk_seqM (ih ctx body s3) fun s4 => BitsOk_seqM (BitsOk_tick cfg ctx s4) fun s5 => BitsOk_ok _
    | recur locals => exact ih ctx _ s
    | crecur => exact ih ctx _ s
    | cb k body =>
      cases k with
      | zero => exact BitsOk_ok _
      | succ k => exact BitsOk_seqM (BitsOk_tick cfg ctx s) fun s => BitsOk_seqM (ih ctx _ s) (fun s => ih ctx _ s)
    | safe body =>
      refine BitsOk_seqM (BitsOk_tick cfg ctx s) (fun s => ?_)
      simp only
      split
      · exact BitsOk_ok _
      · split
        · exact BitsOk_ok _
        · exact BitsOk_ok _
        · exact BitsOk_fuel _
    | catch_ body =>
      simp only
      split
      · exact BitsOk_raise _ _ _ _ (fun _ => ⟨limitSet_setEs_full s, fun h => by cases h⟩)
      · split
        · exact BitsOk_ok _
        · exact BitsOk_fuel _
        · exact BitsOk_catchLanding cfg ctx _ _ _ _

/-! ### no catch completes with a limit error -/

/-- `r` adds no violation to the events of `s` -/
def EvOk (s : St) (r : Out × St) : Prop := judgeEv s.evs = [] → judgeEv r.2.evs = []

theorem EvOk_of_evs_eq {s : St} {r : Out × St} (h : r.2.evs = s.evs) : EvOk s r := by
  intro h0; rw [h]; exact h0

theorem EvOk_seqM {s : St} {r : Out × St} {k : St → Out × St} (h1 : EvOk s r) (h2 : ∀ s1, EvOk s1 (k s1)) :
    EvOk s (seqM r k) := by
  unfold seqM
  split
  · intro h0; exact h2 _ (h1 h0)
  · exact h1

theorem raise_evs (cfg : Cfg) (ctx : Ctx) (k : Kind) (s : St) : (raise cfg ctx k s).2.evs = s.evs := rfl

theorem tick_evs (cfg : Cfg) (ctx : Ctx) (s : St) : (tick cfg ctx s).2.evs = s.evs := by
  unfold tick
  simp only
  split
  · rw [raise_evs]; rfl
  · rfl

theorem ticksN_evs (cfg : Cfg) (ctx : Ctx) (n : Nat) (s : St) : (ticksN cfg ctx n s).2.evs = s.evs := by
  induction n generalizing s with
  | zero => rfl
  | succ n ih =>
    unfold ticksN
    have ht := tick_evs cfg ctx s
    split
    · rename_i s1 heq; rw [ih]; rw [heq] at ht; exact ht
    · exact ht

theorem spin_evs (cfg : Cfg) (ctx : Ctx) (n : Nat) (s : St) : (spin cfg ctx n s).2.evs = s.evs := by
  induction n generalizing s with
  | zero => rfl
  | succ n ih =>
    unfold spin
    have ht := tick_evs cfg ctx s
    split
    · rename_i s1 heq; rw [ih]; rw [heq] at ht; exact ht
    · exact ht

theorem pushFrame_evs (cfg : Cfg) (ctx : Ctx) (s : St) : (pushFrame cfg ctx s).2.evs = s.evs := by
  unfold pushFrame
  split
  · rw [raise_evs]; rfl
  · rfl

theorem pushChecked_evs (cfg : Cfg) (ctx : Ctx) (n : Nat) (s : St) : (pushChecked cfg ctx n s).2.evs = s.evs := by
  unfold pushChecked
  split
  · rw [raise_evs]; rfl
  · rfl

theorem judgeEv_cons_afterCatch (k : Kind) (evs : List Ev) (hk : k.isLimit = false) :
    judgeEv (.afterCatch k :: evs) = judgeEv evs := by
  simp [judgeEv, hk]

theorem judgeEv_cons_safe (k : Kind) (evs : List Ev) : judgeEv (.safeSwallowed k :: evs) = judgeEv evs := by
  simp [judgeEv]

theorem EvOk_catchLanding (cfg : Cfg) (ctx : Ctx) (d0 p0 : Int) (k : Kind) (s0 s : St)
    (hb : k.isLimit = true → limitSet s) (h : EvOk s0 (.raised k, s)) :
    EvOk s0 (catchLanding cfg ctx d0 p0 k s) := by
  unfold catchLanding
  simp only
  split
  · intro h0; rw [raise_evs]; exact h h0
  · split
    · intro h0; rw [raise_evs]; exact h h0
    · rename_i h1 h2
      have hk : k.isLimit = false := by
        cases hl : k.isLimit with
        | false => rfl
        | true =>
          exfalso
          rcases hb hl with hc | hf
          · apply h1; simpa [hasEs, pushUnchecked, leave] using hc
          · apply h2; simpa [hasEs, pushUnchecked, leave] using hf
      intro h0
      show judgeEv (Ev.afterCatch k :: _) = []
      rw [judgeEv_cons_afterCatch _ _ hk]
      exact h h0

/-- whatever the shape, the context and the fuel: no catch() completes normally with a limit error -/
theorem exec_EvOk (cfg : Cfg) (fuel : Nat) (ctx : Ctx) (sh : Sh) (s : St) : EvOk s (exec cfg fuel ctx sh s) := by
  induction fuel generalizing ctx sh s with
  | zero => unfold exec; exact EvOk_of_evs_eq rfl
  | succ f ih =>
    unfold exec
    cases sh with
    | skip => exact EvOk_of_evs_eq rfl
    | work n => exact EvOk_of_evs_eq (ticksN_evs ..)
    | spin => exact EvOk_of_evs_eq (spin_evs ..)
    | err => exact EvOk_of_evs_eq (raise_evs ..)
    | throw_ =>
      cases ctx
      · exact EvOk_of_evs_eq (raise_evs ..)
      · exact EvOk_of_evs_eq rfl
      · exact EvOk_of_evs_eq (raise_evs ..)
    | seq a b => exact EvOk_seqM (ih ctx a s) (fun s => ih ctx b s)
    | call locals body =>
      exact EvOk_seqM (EvOk_of_evs_eq (pushFrame_evs ..)) fun s1 =>
        EvOk_seqM (EvOk_of_evs_eq (pushChecked_evs ..)) fun s2 =>
        EvOk_seqM (EvOk_of_evs_eq (ticksN_evs ..)) fun s3 =>
        EvOk_seqM (ih ctx body s3) fun s4 => EvOk_seqM (EvOk_of_evs_eq (tick_evs ..)) fun s5 => EvOk_of_evs_eq rfl
    | recur locals => exact ih ctx _ s
    | crecur => exact ih ctx _ s
    | cb k body =>
      cases k with
      | zero => exact EvOk_of_evs_eq rfl
      | succ k => exact EvOk_seqM (EvOk_of_evs_eq (tick_evs ..)) fun s => EvOk_seqM (ih ctx _ s) (fun s => ih ctx _ s)
    | safe body =>
      refine EvOk_seqM (EvOk_of_evs_eq (tick_evs ..)) (fun s => ?_)
      simp only
      split
      · exact EvOk_of_evs_eq rfl
      · have hi := ih .safe (.call 0 body) s
        split
        · rename_i s1 heq; rw [heq] at hi; exact hi
        · rename_i k s1 heq; rw [heq] at hi
          intro h0
          show judgeEv (Ev.safeSwallowed k :: s1.evs) = []
          rw [judgeEv_cons_safe]; exact hi h0
        · rename_i s1 heq; rw [heq] at hi; exact hi
    | catch_ body =>
      simp only
      split
      · exact EvOk_of_evs_eq (raise_evs ..)
      · generalize hs1 : pushCatchFrame s = s1
        have hev : s1.evs = s.evs := by rw [← hs1]; rfl
        have hi := ih .catch_ body s1
        have hb := exec_BitsOk cfg f .catch_ body s1
        split
        · rename_i s2 heq; rw [heq] at hi
          intro h0; exact hi (by rw [hev]; exact h0)
        · rename_i s2 heq; rw [heq] at hi
          intro h0; exact hi (by rw [hev]; exact h0)
        · rename_i k s2 heq; rw [heq] at hi hb
          apply EvOk_catchLanding
          · intro hl; exact (hb k rfl hl).1
          · intro h0; exact hi (by rw [hev]; exact h0)

end NV.C04
