import NV.C04.Model
import NV.C04.Sizes
import NV.C04.Spec
namespace NV.C04
end NV.C04
