/-
C04 — property theorems.  Every evaluation is bounded by the configured limits.

The machine theorems quantify over every shape (`Sh`: loops, spinning, unbounded direct / mutual / function
pointer / callback recursion, recursion through catch, calls, catch frames in any nesting, efun callbacks, safe
applies made by efuns, errors and throws), every configuration (`Cfg`, including what the master's error handler
does) and every fuel of the model.  The size theorems quantify over all operand sizes and all int64 arguments.
-/
import NV.C04.Lemmas
import NV.C04.LemmasDepth
import NV.C04.LemmasCost
import NV.C04.LemmasSizes
import NV.C04.LemmasStack
import NV.C04.MapBook
import NV.C04.LemmasSave
import NV.C04.LemmasLoop
import NV.C04.Refill

namespace NV.C04

open NV.Gen.C04

/-- **limit_error_not_swallowed** (oracle form: `judgeEv (events of the run) = []`).  In every evaluation the driver
    starts - whatever the program, the limits, the nesting of catch frames, callbacks and safe applies, and
    whether or not the master's error handler itself uses catch - no catch() completes normally with an
    evaluation-cost, call-depth or stack-overflow error. -/
theorem limit_error_not_swallowed (cfg : Cfg) (fuel : Nat) (sh : Sh) :
    judgeEv (evaluate cfg fuel sh).2.evs = [] :=
  exec_EvOk cfg fuel .driver (.call 0 sh) (St.start cfg) rfl

/-- the mechanism behind it: a limit error in flight towards a catch frame always carries a limit bit in
    `error_state`, so do_catch re-raises it (this is what the fix restored) -/
theorem limit_error_reaches_next_frame (cfg : Cfg) (fuel : Nat) (sh : Sh) (s : St) (k : Kind)
    (h : (exec cfg fuel .catch_ sh s).1 = .raised k) (hk : k.isLimit = true) :
    limitSet (exec cfg fuel .catch_ sh s).2 :=
  (exec_BitsOk cfg fuel .catch_ sh s k h hk).1

/-- a catch frame around anything that exhausts a limit never completes: the error goes on to the enclosing
    context (stated for one frame; by `limit_error_reaches_next_frame` it repeats for every enclosing frame) -/
theorem catch_reraises_limit_error (cfg : Cfg) (fuel : Nat) (ctx : Ctx) (body : Sh) (s s2 : St) (k : Kind)
    (hd : ¬ (s.depth - 1 == cfg.maxDepth - 1) = true)
    (h : exec cfg fuel .catch_ body (pushCatchFrame s) = (.raised k, s2)) (hk : k.isLimit = true) :
    ∃ k', (exec cfg (fuel + 1) ctx (.catch_ body) s).1 = .raised k' ∧ k'.isLimit = true := by
  have hb := (exec_BitsOk cfg fuel .catch_ body (pushCatchFrame s) k (by rw [h]) hk).1
  rw [h] at hb
  unfold exec
  simp only [hd, h]
  unfold catchLanding
  simp only
  have e1 : hasEs (pushUnchecked (leave s2 s.depth s.sp)) esMaxEvalCost = hasEs s2 esMaxEvalCost := rfl
  have e2 : hasEs (pushUnchecked (leave s2 s.depth s.sp)) esStackFull = hasEs s2 esStackFull := rfl
  rw [e1, e2]
  rcases hb with hc | hf
  · rw [hc]; simp only [if_true]
    exact ⟨.cost, rfl, rfl⟩
  · cases hc : hasEs s2 esMaxEvalCost
    · rw [hf]; simp only [if_true, Bool.false_eq_true, if_false]
      exact ⟨.deep, rfl, rfl⟩
    · simp only [if_true]
      exact ⟨.cost, rfl, rfl⟩

example : (evaluate { maxCost := 50, maxDepth := 20, stackSize := 100, handlerCatches := true } 1000
    (.catch_ (.catch_ .spin))).1 = .raised .cost := by decide

/-- non-vacuity: the events the theorem speaks about do occur - an ordinary error is caught and reported ... -/
example : (evaluate { maxCost := 50, maxDepth := 20, stackSize := 100, handlerCatches := false } 100
    (.seq (.catch_ .err) (.catch_ (.catch_ .throw_)))).2.evs = [.afterCatch .thrown, .afterCatch .plain] := by decide

/-- ... and the hypotheses of `catch_reraises_limit_error` are met by a spinning body (k = cost) and by unbounded
    recursion (k = deep) -/
example : let cfg : Cfg := { maxCost := 50, maxDepth := 20, stackSize := 100, handlerCatches := false }
    (¬ ((St.start cfg).depth - 1 == cfg.maxDepth - 1) = true) ∧
    (exec cfg 100 .catch_ .spin (pushCatchFrame (St.start cfg))).1 = .raised .cost ∧
    (exec cfg 100 .catch_ (.recur 0) (pushCatchFrame (St.start cfg))).1 = .raised .deep := by decide

/-- **eval_bounded** (no hypothesis on the budget, no exclusion of program shapes).  The budget the driver runs
    with is the configured value clamped to at least 1 (rc.cpp / set_eval_limit, `clampCost`).  For every
    configured value, every program shape, every configuration and fuel: the instructions executed in one
    evaluation never exceed the budget by more than one per safe apply the program makes (a safe apply that
    stops an eval-cost error leaves its caller exactly one tick). -/
theorem eval_bounded (raw : Int) (cfg : Cfg) (hcfg : cfg.maxCost = clampCost raw) (fuel : Nat) (sh : Sh) :
    ((evaluate cfg fuel sh).2.ticks : Int) ≤ clampCost raw + sh.safeWeight := by
  have hpos : 0 < (St.start cfg).cost := by
    show 0 < cfg.maxCost
    rw [hcfg]; unfold clampCost clampMin; split <;> omega
  have h := exec_TB cfg fuel .driver (.call 0 sh) (St.start cfg) hpos
  have hphi : phi (St.start cfg) = cfg.maxCost := by simp [phi, St.start]
  have hw : (Sh.call 0 sh).safeWeight = sh.safeWeight := by simp [Sh.safeWeight]
  rw [hphi, hw, hcfg] at h
  exact h.2

/-- programs that make no safe apply: exactly the budget -/
theorem eval_bounded_exact (raw : Int) (cfg : Cfg) (hcfg : cfg.maxCost = clampCost raw) (fuel : Nat) (sh : Sh)
    (hns : sh.safeWeight = 0) : ((evaluate cfg fuel sh).2.ticks : Int) ≤ clampCost raw := by
  have := eval_bounded raw cfg hcfg fuel sh
  rw [hns] at this
  simpa using this

/-- any positive budget bounds the evaluation directly (the clamp makes every configured budget positive) -/
theorem eval_bounded_of_pos (cfg : Cfg) (fuel : Nat) (sh : Sh) (hpos : 0 < cfg.maxCost) :
    ((evaluate cfg fuel sh).2.ticks : Int) ≤ cfg.maxCost + sh.safeWeight := by
  have hc : cfg.maxCost = clampCost cfg.maxCost := by unfold clampCost clampMin; split <;> omega
  have := eval_bounded cfg.maxCost cfg hc fuel sh
  rw [← hc] at this
  exact this

example : (evaluate { maxCost := 50, maxDepth := 20, stackSize := 100, handlerCatches := false } 1000
    (.seq (.work 10) (.catch_ (.cb 2 (.work 5))))).1 = .ok := by decide

/-- **depth_bounded** (memory safety of the control stack).  `csp` never points past
    `control_stack[MaxCallDepth - 1]`: at most MaxCallDepth frames exist at any time of any evaluation. -/
theorem depth_bounded (cfg : Cfg) (fuel : Nat) (sh : Sh) (h0 : 0 ≤ cfg.maxDepth) :
    (evaluate cfg fuel sh).2.maxDepth ≤ cfg.maxDepth ∧ (evaluate cfg fuel sh).2.depth ≤ cfg.maxDepth :=
  have h := exec_DepthInv cfg fuel .driver (.call 0 sh) (St.start cfg) ⟨h0, h0⟩
  ⟨h.2, h.1⟩

example : (evaluate { maxCost := 5000, maxDepth := 4, stackSize := 1000, handlerCatches := false } 40
    (.recur 0)).2.maxDepth = 4 := by decide

/-- **stack_checked_pushes_bounded** (memory safety of the value stack, for the pushes of the limits machine: the
    checked pushes of function locals and do_catch's single unchecked push).  With `StackSize ≥ 5` the height
    never exceeds `StackSize - 4`: `sp` stays at least 4 slots below the end of the allocation in every
    evaluation of every shape.  (Unchecked argument pushes are outside the machine: open finding of C01.) -/
theorem stack_checked_pushes_bounded (cfg : Cfg) (fuel : Nat) (sh : Sh) (h5 : stackSlack ≤ cfg.stackSize) :
    (evaluate cfg fuel sh).2.maxSp ≤ cfg.stackSize - stackSlack + 1 ∧
    (1 < stackSlack → (evaluate cfg fuel sh).2.maxSp < cfg.stackSize) := by
  -- (stated relative to the regenerated slack of reset_interpreter: with `size - 5` this is `≤ StackSize - 4`)
  have hinv : StackInv cfg (St.start cfg) := by
    refine ⟨?_, ?_⟩
    · show (0 : Int) ≤ spEnd cfg
      unfold spEnd; omega
    · show (0 : Int) ≤ spEnd cfg + 1
      unfold spEnd; omega
  have h := (exec_StackRes cfg fuel .driver (.call 0 sh) (St.start cfg) hinv).1
  unfold spEnd at h
  unfold evaluate
  constructor
  · omega
  · intro h1; omega

example : (evaluate { maxCost := 5000, maxDepth := 100, stackSize := 30, handlerCatches := false } 60
    (.catch_ (.recur 7))).2.maxSp = 21 := by decide

/-- **sizes_bounded**.  Every value constructor returns an error or a value whose size is within the configured
    limit of its type - for all operand sizes (themselves within the limit, as every operand was built by a
    constructor) and all int64 arguments; the limit is a C `int`, `0 ≤ limit < 2^31`. -/
theorem sizes_bounded (l : Int) (hl : LimitOk l) :
    (∀ n sz, allocateArray n l = .ok sz → (sz : Int) ≤ l) ∧
    (∀ n sz, aggregateArray n l = .ok sz → (sz : Int) ≤ l) ∧
    (∀ (a b sz : Nat), (a : Int) ≤ l → (b : Int) ≤ l → addArray a b l = .ok sz → (sz : Int) ≤ l) ∧
    (∀ (size : Nat) lo hi sz, (size : Int) ≤ l → sliceArray size lo hi = .ok sz → (sz : Int) ≤ l) ∧
    (∀ pieces sz, explodeArray pieces l = .ok sz → (sz : Int) ≤ l) ∧
    (∀ n sz, allocateBuffer n l = .ok sz → (sz : Int) ≤ l) ∧
    (∀ a b sz, addBuffer a b l = .ok sz → (sz : Int) ≤ l) ∧
    (∀ (c : Nat) isNew sz, (c : Int) ≤ l → mapInsert c isNew l = .ok sz → (sz : Int) ≤ l) ∧
    (∀ d sz, mapAggregate d l = .ok sz → (sz : Int) ≤ l) ∧
    (∀ (c1 c2 common sz : Nat), (c1 : Int) ≤ l → (c2 : Int) ≤ l → mapAdd c1 c2 common l = .ok sz → (sz : Int) ≤ l) ∧
    (∀ a b sz, stringJoin a b l = .ok sz → (sz : Int) ≤ l) ∧
    (∀ (len : Nat) count sz, (len : Int) ≤ l → repeatString len count l = .ok sz → (sz : Int) ≤ l) ∧
    (∀ total num delLen sz, implodeString total num delLen l = .ok sz → (sz : Int) ≤ l) ∧
    (∀ steps tail sz, replaceFinish l.toNat tail (replaceRun l.toNat steps 0) = .ok sz → (sz : Int) ≤ l) :=
  ⟨fun _ _ h => allocateArray_bounded hl h,
   fun _ _ h => aggregateArray_bounded hl h,
   fun _ _ _ ha hb h => addArray_bounded ha hb h,
   fun _ _ _ _ hs h => by have := sliceArray_bounded h; omega,
   fun _ _ h => explodeArray_bounded hl h,
   fun _ _ h => allocateBuffer_bounded hl h,
   fun _ _ _ h => addBuffer_bounded hl h,
   fun _ _ _ hc h => mapInsert_bounded hc h,
   fun _ _ h => mapAggregate_bounded hl h,
   fun _ _ _ _ h1 h2 h => mapAdd_bounded h1 h2 h,
   fun _ _ _ h => stringJoin_bounded hl h,
   fun _ _ _ hlen h => repeatString_bounded hl hlen h,
   fun _ _ _ _ h => implodeString_bounded hl h,
   fun _ _ _ h => by have := replaceFinish_bounded h; have := hl.1; omega⟩

/-- the constructors that copy or select from an operand (copy, sort_array, map, filter, unique_array, array `-` / `&`,
    case conversions, keys / values, allocate_mapping): the result is never larger than the operand, which is
    within its limit; keys / values go through allocate_empty_array and respect MaxArraySize -/
theorem sizes_bounded_derived (l : Int) (hl : LimitOk l) :
    (∀ (n sz : Nat), (n : Int) ≤ l → sameSize n = .ok sz → (sz : Int) ≤ l) ∧
    (∀ (n kept sz : Nat), (n : Int) ≤ l → partOf n kept = .ok sz → (sz : Int) ≤ l) ∧
    (∀ (c sz : Nat), mapKeys c l = .ok sz → (sz : Int) ≤ l) ∧
    (∀ n sz, allocateMapping n = .ok sz → (sz : Int) ≤ l) :=
  ⟨fun n sz hn h => by have := sameSize_eq n h; omega,
   fun n kept sz hn h => by have := partOf_le n kept h; omega,
   fun _ _ h => mapKeys_bounded hl h,
   fun _ _ h => by unfold allocateMapping at h; injection h with h; have := hl.1; omega⟩

example : LimitOk 200000 := by unfold LimitOk; omega
example : repeatString 2 (-9223372036854775808) 1000 = .ok 0 := by decide
example : repeatString 2 501 1000 = .err := by decide
example : stringJoin 600 401 1000 = .err := by decide

/-- replace_string never has MAX or more characters in its MAX + 1 byte destination while it scans -/
theorem replace_scan_in_bounds (limit : Nat) (steps : List RStep) (d : Nat) (hl : 0 < limit)
    (h : replaceRun limit steps 0 = some d) : d < limit := by
  rcases replaceRun_lt h with h1 | h1 <;> omega

/-- **sprintf_bounded**: the finished result of sprintf respects MaxStringLength for every limit (the buffer itself
    is bounded by USHRT_MAX while it is built: `sprintfAdd_bounded`) -/
theorem sprintf_bounded (l : Int) (hl : LimitOk l) (real sz : Nat) (h : sprintfFinish real l = .ok sz) : (sz : Int) ≤ l :=
  sprintfFinish_bounded hl h

example : sprintfFinish 300 200 = .err := by decide

/-- the 16-bit `size` field: with MaxArraySize ≤ 65535 the size an array reports is the size that was asked for
    (for larger limits see Witness.array_size_wraps) -/
theorem array_size_exact (n l : Int) (sz : Nat) (hl : LimitOk l) (h16 : l < 2 ^ arraySizeBits)
    (hn : -9223372036854775808 ≤ n ∧ n < 9223372036854775808)
    (h : allocateArray n l = .ok sz) : (sz : Int) = n := by
  unfold allocateArray at h
  simp only at h
  split at h
  · cases h
  · rename_i hle
    injection h with h
    rw [toSizeT_of_limit hl] at hle
    have hb : (2 : Int) ^ arraySizeBits = 65536 := by decide
    rw [hb] at h16
    have hlt : toSizeT n < 65536 := by have := hl.1; omega
    have hsz : sz = toSizeT n := by
      rw [← h]; unfold toArrSize
      have : 2 ^ arraySizeBits = 65536 := by decide
      rw [this]; exact Nat.mod_eq_of_lt hlt
    -- toSizeT n < 65536 means n itself is that number (a negative n converts to at least 2^63)
    unfold toSizeT two64 at hlt hsz
    rw [two64_cast] at hlt hsz
    omega

/-- **map_count_exact**: for every sequence of inserts and in-place `m += m2` on a mapping - including the ones that
    fail with "Mapping too large" after linking some of the nodes - what `sizeof (m)` and every later size test read
    (`count`) is the number of nodes the mapping holds, and that number is within the limit. -/
theorem map_count_exact (limit : Int) (hl : LimitOk limit) (ops : List MapOp) :
    MapOk limit (mapRun limit ops { count := 0, nodes := 0 }).2 := by
  -- round 4: the operations include `m *= m2` (compose_mapping); its `deleted` counter is wide enough for every
  -- limit a C int can hold (before fix 5334d17 it was 16 bits wide: Witness.compose_count_wraps_16)
  have hw : limit < 2 ^ composeDeletedBits := by
    -- (any counter at least as wide as a C int holds every count a limit allows)
    have h31 : (2 : Int) ^ 31 ≤ 2 ^ composeDeletedBits := by decide
    have := hl.2; omega
  exact mapRun_ok limit ops _ ⟨rfl, by simpa using hl.1⟩ hw

example : mapRun 20 [.insert true, .absorb 15, .absorb 10, .insert true, .insert false] { count := 0, nodes := 0 } =
    ([false, false, true, true, false], { count := 20, nodes := 20 }) := by decide

example : mapRun 20 [.absorb 15, .compose 4, .insert true, .compose 0] { count := 0, nodes := 0 } =
    ([false, false, false, false], { count := 0, nodes := 0 }) := by decide

/-! ### round 4: mapping * mapping, save_variable / restore_variable, regexp / reg_assoc; depth-limited walks; where the
    evaluation cost is charged -/

/-- **sizes_bounded_round4**.  The constructors that were outside the proved table: `m1 * m2` / `m1 *= m2`
    (never larger than the left operand), regexp (string *, ...) with and without the index flag, both result arrays of
    reg_assoc, the arrays and mappings restore_variable rebuilds, and the text save_variable returns - each an error or
    within the limit of its type, for all operands. -/
theorem sizes_bounded_round4 (l : Int) (hl : LimitOk l) :
    (∀ (c1 kept sz : Nat), (c1 : Int) ≤ l → composeMapping c1 kept = .ok sz → (sz : Int) ≤ l) ∧
    (∀ matched flag sz, matchRegexp matched flag l = .ok sz → (sz : Int) ≤ l) ∧
    (∀ m sz, regAssoc m l = .ok sz → (sz : Int) ≤ l) ∧
    (∀ n sz, restoreArray n l = .ok sz → (sz : Int) ≤ l) ∧
    (∀ n sz, restoreMapping n l = .ok sz → (sz : Int) ≤ l) ∧
    (∀ v sz, saveVariable v l = .ok sz → (sz : Int) ≤ l) :=
  ⟨fun _ _ _ hc h => by have := composeMappingW_le h; omega,
   fun _ _ _ h => allocateArray_bounded hl h,
   fun _ _ h => allocateArray_bounded hl h,
   fun _ _ h => allocateArray_bounded hl h,
   fun _ _ h => mapInsertMany_bounded (by have := hl.1; omega) h,
   fun _ _ h => saveVariable_bounded hl h⟩

/-- what `sizeof (m1 * m2)` reports is the number of nodes that stayed, for every mapping a C int limit allows -/
theorem compose_count_exact (l : Int) (hl : LimitOk l) (c1 kept : Nat) (hc : (c1 : Int) ≤ l) :
    composeMapping c1 kept = .ok (min kept c1) := by
  apply composeMapping_exact
  have h31 : (2 : Nat) ^ 31 ≤ 2 ^ composeDeletedBits := by decide
  have := hl.2; omega

example : composeMapping 70000 0 = .ok 0 := by decide
example : saveVariable (valZeros 48) 100 = .ok 100 ∧ saveVariable (valZeros 49) 100 = .err := by decide
example : matchRegexp 51 1 100 = .err ∧ matchRegexp 50 1 100 = .ok 100 ∧ regAssoc 50 100 = .err := by decide

/-- **save_depth_bounded** (recursion depth of the value walks).  svalue_save_size - and deep_copy_svalue, which makes
    the same test on the same constant - never works on more than MAX_SAVE_SVALUE_DEPTH containers inside each other,
    whatever the value: the walk is refused exactly when the value nests deeper, and its depth counter stays within
    the limit on the error path too. -/
theorem save_depth_bounded (v : Val) :
    saveReach 0 v ≤ maxSaveDepth ∧
    ((saveSize 0 v).isSome = true ↔ v.nest ≤ maxSaveDepth) ∧ (deepCopyOk 0 v = true ↔ v.nest ≤ maxSaveDepth) := by
  have h := saveSize_isSome v 0
  refine ⟨saveReach_le v 0 (Nat.zero_le _), ?_, ?_⟩
  · rw [h]; omega
  · unfold deepCopyOk; rw [h]; omega

/-- **restore_depth_bounded** (C16's fix c9a3442, a new bound): the size pre-pass of restore_variable / restore_object
    refuses every text that nests deeper than MAX_SAVE_SVALUE_DEPTH - exactly the values save would refuse to write - and
    its recursion never goes more than one level past the limit, whatever the text. -/
theorem restore_depth_bounded (v : Val) :
    restoreReach 0 v ≤ maxSaveDepth + 1 ∧ (restoreWalk 0 v = true ↔ v.nest ≤ maxSaveDepth) ∧
    restoreWalk 0 v = (saveSize 0 v).isSome := by
  have h := saveSize_isSome v 0
  refine ⟨restoreReach_le v 0 (Nat.zero_le _), ?_, restoreWalk_eq v 0⟩
  rw [restoreWalk_eq v 0, h]; omega

example : restoreWalk 0 (valNested (maxSaveDepth - 1)) = true ∧ restoreWalk 0 (valNested maxSaveDepth) = false ∧
    restoreReach 0 (valNested (maxSaveDepth + 275)) = maxSaveDepth + 1 := by decide

example : (saveSize 0 (valNested (maxSaveDepth - 1))).isSome = true ∧ (saveSize 0 (valNested maxSaveDepth)).isSome = false ∧
    saveReach 0 (valNested (maxSaveDepth + 15)) = maxSaveDepth := by decide

/-- **loop_iterations_charged** (every backward jump, call and loop-efun callback costs at least one tick).  For every
    byte-code program, every sequence of branch decisions and every number of interpreter turns, started with a budget
    of at least 1 (what rc.cpp / set_eval_limit guarantee): backward jumps taken + functions entered + callbacks made
    never exceed the ticks charged, the ticks charged never exceed the budget, and a run that expired used exactly the
    budget.  The charge of a fetch (`fetchCharge`) is built from the facts regenerated from src/interpret.c. -/
theorem loop_iterations_charged (budget : Int) (hb : 1 ≤ budget) (prog : Array Ins) (orc : Nat → Bool) (fuel : Nat) :
    let r := lrun prog orc fuel (LSt.start budget)
    r.2.backs + r.2.calls + r.2.cbs ≤ r.2.ticks ∧ (r.2.ticks : Int) ≤ budget ∧
    (r.1 = .expired → (r.2.ticks : Int) = budget) := by
  have hi : LInv budget (LSt.start budget) := ⟨by simp [LSt.start], by simp [LSt.start]⟩
  have h := lrun_spec budget prog orc fuel (LSt.start budget) hi (by show 0 < budget; omega)
  obtain ⟨⟨h1, h2⟩, h3⟩ := h
  refine ⟨h1, ?_, ?_⟩
  · rcases h3 with ⟨_, y⟩ | ⟨_, y⟩ <;> omega
  · intro he
    rcases h3 with ⟨_, y⟩ | ⟨x, _⟩
    · omega
    · exact absurd he x

/-- **loop_ends_within_budget** (the evaluation ends): no program, whatever it loops or calls, keeps the interpreter loop turning
    for as many turns as the budget has ticks - after `budget` turns it has returned or the budget has expired. -/
theorem loop_ends_within_budget (budget : Int) (hb : 1 ≤ budget) (prog : Array Ins) (orc : Nat → Bool) (fuel : Nat)
    (hf : budget ≤ fuel) : (lrun prog orc fuel (LSt.start budget)).1 ≠ .running := by
  intro hrun
  have hi : LInv budget (LSt.start budget) := ⟨by simp [LSt.start], by simp [LSt.start]⟩
  have hp : 0 < (LSt.start budget).cost := by show 0 < budget; omega
  have h1 := lrun_running budget prog orc fuel (LSt.start budget) hi hp hrun
  have h2 := lrun_spec budget prog orc fuel (LSt.start budget) hi hp
  obtain ⟨⟨_, hsum⟩, hpos⟩ := h2
  rcases hpos with ⟨x, _⟩ | ⟨_, y⟩
  · rw [hrun] at x; cases x
  · have : (LSt.start budget).ticks = 0 := rfl
    omega

/-- a spinning loop `L: bbranch L` under a budget of 50 expires after exactly 50 backward jumps' worth of ticks -/
example : (lrun #[.back 0 1] (fun _ => true) 1000 (LSt.start 50)).1 = .expired ∧
    (lrun #[.back 0 1] (fun _ => true) 1000 (LSt.start 50)).2.ticks = 50 ∧
    (lrun #[.back 0 1] (fun _ => true) 1000 (LSt.start 50)).2.backs = 49 := by decide

/-- the backward-branch opcodes of the current source are the ones the model knows, none of them loops inside its own
    case, the test stands before the dispatch with no goto around it, and the two local call opcodes are the known ones -/
theorem bridge_backwardOps :
    backwardOps = modelBackwardOps ∧ backwardOpsLooping = [] ∧ tickBeforeDispatch = true ∧ evalLoopGotos = 0 ∧
    localCallOps = ["F_CALL_FUNCTION_BY_ADDRESS", "F_CALL_INHERITED"] ∧ fetchCharge = 1 ∧ callbackCharge = 1 :=
  ⟨rfl, rfl, rfl, rfl, rfl, fetchCharge_one, callbackCharge_one⟩

/-- **regex_charge_bounded** (time of one regexp match): whatever the pattern and the string need (`steps` node visits, exponential
    for backtracking patterns), regexec () makes at most `eval_cost * REGEXP_STEPS_PER_TICK` of them, never gives the evaluation
    more ticks than it had, leaves at least one, and when the visits needed reach the budget exactly one - the next
    instruction raises the error. -/
theorem regex_charge_bounded (cost : Int) (steps : Nat) (h : 0 < cost) :
    1 ≤ (regexCharge cost steps).1 ∧ (regexCharge cost steps).1 ≤ cost ∧
    ((regexCharge cost steps).2 : Int) ≤ cost * regexpStepsPerTick ∧ (regexCharge cost steps).2 ≤ steps ∧
    (1 < cost → (cost * regexpStepsPerTick).toNat ≤ steps → (regexCharge cost steps).1 = 1) := by
  unfold regexCharge regexpStepsPerTick
  simp only
  by_cases hc : cost > 1
  · simp only [hc, if_true]
    refine ⟨?_, ?_, ?_, ?_, ?_⟩
    · split <;> omega
    · split <;> omega
    · omega
    · omega
    · intro _ hs
      rw [if_pos]
      omega
  · simp only [hc, if_false]
    refine ⟨by omega, by omega, by omega, by omega, ?_⟩
    intro h1
    first | exact h1.elim | omega

example : regexCharge 20000 (rxLower 60) = (1, 2000000) ∧ rxExpires 60 20000 = some true ∧ rxExpires 12 20000 = some false ∧
    (regexCharge 20000 5000).1 = 19950 := by decide

/-- **bridge_refills**: the statements of the current source that write eval_cost or the configured budget are exactly the
    ones the rule table of Refill.lean justifies (file, function and statement), and the table is closed: a refill on expiry
    stands with its tick test, an assignment of the budget with its clamp -/
theorem bridge_refills : evalCostWrites = refillRules.map (·.site) ∧ refillTableOk = true := ⟨rfl, by decide⟩

/-- what the model needs of the constants of the value walks and of compose_mapping's counter (not their values: a different
    nesting limit or text overhead is followed by the model through NV/Gen; the restore pre-pass must start its inner calls at
    level 2, the level after the outermost container) -/
theorem bridge_saveWalk : 1 ≤ maxSaveDepth ∧ 1 ≤ saveBoxOverhead ∧ 31 ≤ composeDeletedBits ∧ restoreTopNesting = 2 := by decide

/-! ### bridging lemmas: the literals of the model are the constants found in the source (NV/Gen/C04.lean is
    regenerated from the guard sites on every run; a changed constant breaks these obligations) -/

/-- `end_of_stack = start_of_stack + size - 5` (src/stack.c): the model uses the regenerated slack; what the theorems need of it
    is room for do_catch's one unchecked push and one slot to spare (`stack_checked_pushes_bounded`), not the value 5 -/
theorem bridge_stackSlack : stackSlack = (stackSlackSrc : Int) ∧ 2 ≤ stackSlackSrc := ⟨rfl, by decide⟩

/-- the three depth tests compare with `&control_stack[MAX_CALL_DEPTH - 1]`: the offset the model's `pushFrame`,
    `catch_` and `safe` use -/
theorem bridge_depthTest : depthTestOffset = 1 ∧ depthTestOffsetFake = 1 ∧ depthTestOffsetContext = 1 := by decide

/-- rc.cpp and set_eval_limit clamp the budget to the same minimum, the one `clampCost` uses -/
theorem bridge_clamp : clampMin = clampMinEfun ∧ ∀ v : Int, clampCost v = if v < (clampMin : Int) then (clampMin : Int) else v := by
  exact ⟨by decide, fun v => rfl⟩

/-- safe_apply and safe_call_function_pointer leave the caller the same single tick the model's `safe` leaves -/
theorem bridge_safeTick : safeTickLeft = 1 ∧ safeTickLeftFunp = 1 := by decide

/-- the error_state bits are distinct single bits (what `hasEs` / `setEs` rely on) -/
theorem bridge_esBits : esStackFull = 1 ∧ esMaxEvalCost = 2 ∧ esStackFull &&& esMaxEvalCost = 0 := by decide

/-- the `size` field widths behind `toArrSize` / `toBufSize`, and sprintf's buffer bound -/
theorem bridge_widths : arraySizeBits = 16 ∧ bufferCastBits = 16 ∧ ushrtMax = 2 ^ 16 - 1 := by decide

/-- the `(int)` cast of set_eval_limit and the `unsigned short` element count of F_AGGREGATE, as the model computes them -/
theorem bridge_casts : intBits = 32 ∧ aggregateCountBits = 16 ∧
    toInt32 4294967296 = 0 ∧ toInt32 2147483648 = -2147483648 ∧ toInt32 (-5) = -5 ∧
    aggregateArray 65537 100 = .ok 1 := by decide

end NV.C04
