/-
C04 — the model satisfies the specification oracle, clause by clause (`model_satisfies_spec`).

The oracle (Spec.lean) judges an implementation trace through `judgeEv` (events) and `judgeNums` (the numbers of the
`obs` line).  Here both are applied to a run of the model: for every configured budget, every configuration with a
positive MaxCallDepth and a StackSize the harness accepts (above the slack of reset_interpreter), every program shape and every fuel, no clause fires.
-/
import NV.C04.Lemmas
import NV.C04.LemmasDepth
import NV.C04.LemmasCost
import NV.C04.LemmasStack
import NV.C04.LemmasFresh

namespace NV.C04

open NV.Gen.C04

theorem seqM_ok_inv {r : Out × St} {k : St → Out × St} {s' : St} (h : seqM r k = (.ok, s')) :
    ∃ s1, r = (.ok, s1) ∧ k s1 = (.ok, s') := by
  obtain ⟨o, s1⟩ := r
  cases o with
  | ok => exact ⟨s1, rfl, h⟩
  | raised k' => simp [seqM] at h
  | fuel => simp [seqM] at h

/-- a function call that returns leaves both stacks as it found them (pop_control_stack, the values above the
    frame's base popped) -/
theorem exec_call_ok_unwound (cfg : Cfg) (fuel : Nat) (ctx : Ctx) (l : Nat) (b : Sh) (s s' : St)
    (h : exec cfg fuel ctx (.call l b) s = (.ok, s')) : s'.depth = s.depth ∧ s'.sp = s.sp := by
  cases fuel with
  | zero => simp [exec] at h
  | succ f =>
    simp only [exec] at h
    obtain ⟨s1, _, h⟩ := seqM_ok_inv h
    obtain ⟨s2, _, h⟩ := seqM_ok_inv h
    obtain ⟨s3, _, h⟩ := seqM_ok_inv h
    obtain ⟨s4, _, h⟩ := seqM_ok_inv h
    obtain ⟨s5, _, h⟩ := seqM_ok_inv h
    injection h with _ h
    subst h
    exact ⟨rfl, rfl⟩

/-- **eval_completes_below_budget**: an evaluation that returns to the driver normally executed fewer instructions than
    its budget - nothing can complete after an expiry: no catch frame (limit_error_not_swallowed), and a safe apply that
    stops the error leaves its caller one tick, which the caller's next instruction uses up -/
theorem eval_completes_below_budget (cfg : Cfg) (hpos : 0 < cfg.maxCost) (fuel : Nat) (sh : Sh)
    (h : (evaluate cfg fuel sh).1 = .ok) : ((evaluate cfg fuel sh).2.ticks : Int) < cfg.maxCost := by
  generalize hr : evaluate cfg fuel sh = r at h
  obtain ⟨o, s'⟩ := r
  simp only at h
  subst h
  show (s'.ticks : Int) < cfg.maxCost
  have hf0 : Fresh cfg.maxCost (St.start cfg) := Or.inl ⟨by simp [phi, St.start], hpos⟩
  cases fuel with
  | zero => simp [evaluate, exec] at hr
  | succ f =>
    simp only [evaluate, exec] at hr
    obtain ⟨s1, h1, hr⟩ := seqM_ok_inv hr
    obtain ⟨s2, h2, hr⟩ := seqM_ok_inv hr
    obtain ⟨s3, h3, hr⟩ := seqM_ok_inv hr
    obtain ⟨s4, h4, hr⟩ := seqM_ok_inv hr
    obtain ⟨s5, h5, hr⟩ := seqM_ok_inv hr
    have f1 : Fresh cfg.maxCost s1 := by
      have := (NE_pushFrame cfg.maxCost cfg .driver (St.start cfg) hf0).1; rw [h1] at this; exact this rfl
    have f2 : Fresh cfg.maxCost s2 := by
      have := (NE_pushChecked cfg.maxCost cfg .driver 0 s1 f1).1; rw [h2] at this; exact this rfl
    have f3 : Fresh cfg.maxCost s3 := by
      have := (NE_ticksN cfg.maxCost cfg .driver callTicks s2 f2).1; rw [h3] at this; exact this rfl
    have f4 : Fresh cfg.maxCost s4 := by
      have := (exec_NE cfg.maxCost cfg f .driver sh s3 f3).1; rw [h4] at this; exact this rfl
    obtain ⟨t1, t2, t3⟩ := tick_ok_inv h5
    injection hr with _ hr
    subst hr
    show ((leave s5 (St.start cfg).depth (St.start cfg).sp).ticks : Int) < cfg.maxCost
    have : (leave s5 (St.start cfg).depth (St.start cfg).sp).ticks = s5.ticks := rfl
    rw [this, t2]
    rcases f4 with ⟨p1, p2⟩ | p1
    · unfold phi at p1; omega
    · omega

example : (evaluate { maxCost := 50, maxDepth := 20, stackSize := 100, handlerCatches := false } 1000
    (.seq (.work 10) (.catch_ .err))).1 = .ok := by decide

/-- the numbers the harness reports for a run: indices are heights minus one; when an error reached the driver-level
    context, restore_context there unwinds both stacks -/
def obsOf (cfg : Cfg) (r : Out × St) : Obs :=
  { ticks := r.2.ticks, maxcsp := r.2.maxDepth - 1, maxsp := r.2.maxSp - 1,
    csp := (match r.1 with | .ok => r.2.depth - 1 | _ => -1),
    sp := (match r.1 with | .ok => r.2.sp - 1 | _ => -1),
    maxtouch := if r.2.maxSp - 1 ≥ cfg.stackSize then r.2.maxSp - 1 else -1,
    cost0 := cfg.maxCost,
    completed := (match r.1 with | .ok => true | _ => false),
    handlers := r.2.raises }

/-- **model_satisfies_spec** (top theorem, all clauses of the oracle that speak about one evaluation).  `lim` is what the
    judge collects from the case lines: the budget as configured (clamped), MaxCallDepth, StackSize, and the number of
    safe applies the program can make (each may add one tick, see `eval_bound_attained_through_safe_apply`).  The allowance
    for what runs outside the program is per error delivery; the number of deliveries of the model run (`raises`) is what the
    `handlers` line compares with the implementation.  No side condition is left. -/
theorem model_satisfies_spec (raw : Int) (cfg : Cfg) (hcfg : cfg.maxCost = clampCost raw) (hd : 0 < cfg.maxDepth)
    (hs : stackSlack + 1 ≤ cfg.stackSize) (fuel : Nat) (sh : Sh) (lim : Limits)
    (h1 : lim.cost = cfg.maxCost) (h2 : lim.depth = cfg.maxDepth) (h3 : lim.stack = cfg.stackSize)
    (h4 : lim.safeWeight = sh.safeWeight) :
    judgeNums lim (obsOf cfg (evaluate cfg fuel sh)) = [] ∧ judgeEv (evaluate cfg fuel sh).2.evs = [] := by
  refine ⟨?_, exec_EvOk cfg fuel .driver (.call 0 sh) (St.start cfg) rfl⟩
  -- the four bounds
  have hpos : 0 < (St.start cfg).cost := by
    show 0 < cfg.maxCost
    rw [hcfg]; unfold clampCost clampMin; split <;> omega
  have hT := (exec_TB cfg fuel .driver (.call 0 sh) (St.start cfg) hpos).2
  have hphi : phi (St.start cfg) = cfg.maxCost := by simp [phi, St.start]
  have hwt : (Sh.call 0 sh).safeWeight = sh.safeWeight := by simp [Sh.safeWeight]
  rw [hphi, hwt] at hT
  have hD := exec_DepthInv cfg fuel .driver (.call 0 sh) (St.start cfg) ⟨Int.le_of_lt hd, Int.le_of_lt hd⟩
  unfold stackSlack stackSlackSrc at hs
  have hinv : StackInv cfg (St.start cfg) := by
    refine ⟨?_, ?_⟩
    · show (0 : Int) ≤ spEnd cfg
      unfold spEnd stackSlack stackSlackSrc; omega
    · show (0 : Int) ≤ spEnd cfg + 1
      unfold spEnd stackSlack stackSlackSrc; omega
  have hS := (exec_StackRes cfg fuel .driver (.call 0 sh) (St.start cfg) hinv).1
  unfold spEnd stackSlack stackSlackSrc at hS
  have hcpos : 0 < cfg.maxCost := hpos
  generalize hr : evaluate cfg fuel sh = r at *
  have hr' : exec cfg fuel .driver (.call 0 sh) (St.start cfg) = r := hr
  rw [hr'] at hT hD hS
  unfold judgeNums obsOf
  simp only
  have c1 : ¬ ((r.2.ticks : Int) > (if cfg.maxCost > 0 then cfg.maxCost else if lim.cost > 0 then lim.cost else 0) +
      (lim.safeWeight : Int) + deliveryAllowance lim (r.2.maxDepth - 1) * (r.2.raises : Int)) := by
    rw [if_pos hcpos, h4]
    have h0 : (0 : Int) ≤ deliveryAllowance lim (r.2.maxDepth - 1) := by
      unfold deliveryAllowance
      have : (0 : Int) ≤ (traceAllowance : Int) * (lim.traceValues : Int) * (((r.2.maxDepth - 1 + 2).toNat : Nat) : Int) := by
        apply Int.mul_nonneg
        · apply Int.mul_nonneg <;> omega
        · omega
      have : (0 : Int) ≤ (handlerAllowance : Int) := by omega
      omega
    have : (0 : Int) ≤ deliveryAllowance lim (r.2.maxDepth - 1) * (r.2.raises : Int) := by
      apply Int.mul_nonneg h0; omega
    omega
  have c2 : ¬ (lim.depth > 0 ∧ r.2.maxDepth - 1 > lim.depth - 1) := by
    rw [h2]; have := hD.2; omega
  have c3 : ¬ (lim.stack > 0 ∧ r.2.maxSp - 1 > lim.stack - 1) := by
    rw [h3]; omega
  have hmt : (if r.2.maxSp - 1 ≥ cfg.stackSize then r.2.maxSp - 1 else -1) = -1 := by
    rw [if_neg]; omega
  have c4 : ¬ (lim.stack > 0 ∧ (if r.2.maxSp - 1 ≥ cfg.stackSize then r.2.maxSp - 1 else -1) > lim.stack - 1) := by
    rw [hmt, h3]; omega
  have c5 : ¬ ((match r.1 with | .ok => r.2.depth - 1 | _ => -1) ≠ -1 ∨ (match r.1 with | .ok => r.2.sp - 1 | _ => -1) ≠ -1) := by
    obtain ⟨o, s'⟩ := r
    cases o with
    | ok =>
      have := exec_call_ok_unwound cfg fuel .driver 0 sh (St.start cfg) s' hr'
      simp only [St.start] at this
      simp only
      omega
    | raised k => simp
    | fuel => simp
  have c6 : ¬ ((match r.1 with | .ok => true | _ => false) = true ∧ cfg.maxCost > 0 ∧ (r.2.ticks : Int) ≥ cfg.maxCost) := by
    intro ⟨hc, _, ht⟩
    have hok : r.1 = .ok := by
      obtain ⟨o, s'⟩ := r
      cases o <;> simp at hc ⊢
    have := eval_completes_below_budget cfg hcpos fuel sh (by rw [hr]; exact hok)
    rw [hr] at this
    omega
  rw [if_neg c1, if_neg c2, if_neg c3, if_neg c4, if_neg c5, if_neg c6]
  rfl

end NV.C04
