/-
C04 — the interpreter loop charges every backward jump, call and callback (NV/C04/Loop.lean).
-/
import NV.C04.Loop

namespace NV.C04

open NV.Gen.C04

/-- the three structural facts regenerated from src/interpret.c make the fetch cost exactly one tick -/
theorem fetchCharge_one : fetchCharge = 1 := by decide

theorem callbackCharge_one : callbackCharge = 1 := by decide

/-- accounting invariant: every backward jump, call and callback so far has been paid for, and what was paid is what
    is missing from the budget -/
def LInv (B : Int) (s : LSt) : Prop :=
  s.backs + s.calls + s.cbs ≤ s.ticks ∧ (s.ticks : Int) + s.cost = B

/-- outcome-dependent part: the cost is positive while the run goes on, zero when it expired -/
def LPos (r : LOut × LSt) : Prop :=
  (r.1 = .expired ∧ r.2.cost = 0) ∨ (r.1 ≠ .expired ∧ 0 < r.2.cost)

theorem charge_spec (n : Nat) : ∀ s : LSt, 0 < s.cost →
    (charge s n).2.backs = s.backs ∧ (charge s n).2.calls = s.calls ∧ (charge s n).2.cbs = s.cbs ∧
    (charge s n).2.pc = s.pc ∧ (charge s n).2.rets = s.rets ∧
    ((charge s n).2.ticks : Int) + (charge s n).2.cost = s.ticks + s.cost ∧
    (((charge s n).1 = .running ∧ (charge s n).2.ticks = s.ticks + n ∧ 0 < (charge s n).2.cost) ∨
     ((charge s n).1 = .expired ∧ (charge s n).2.cost = 0 ∧ s.ticks < (charge s n).2.ticks)) := by
  induction n with
  | zero => intro s hp; simp [charge, hp]
  | succ n ih =>
    intro s hp
    have hs : charge s (n + 1) =
        if ((s.cost - 1 == 0) = true) then (LOut.expired, { s with cost := s.cost - 1, ticks := s.ticks + 1 })
        else charge { s with cost := s.cost - 1, ticks := s.ticks + 1 } n := rfl
    rw [hs]
    by_cases hz : s.cost - 1 = 0
    · have hb : (s.cost - 1 == 0) = true := by simpa using hz
      rw [if_pos hb]
      refine ⟨rfl, rfl, rfl, rfl, rfl, ?_, Or.inr ⟨rfl, hz, ?_⟩⟩
      · show ((s.ticks + 1 : Nat) : Int) + (s.cost - 1) = s.ticks + s.cost
        omega
      · show s.ticks < s.ticks + 1
        omega
    · have hb : ¬ (s.cost - 1 == 0) = true := by simpa using hz
      rw [if_neg hb]
      have h1 := ih { s with cost := s.cost - 1, ticks := s.ticks + 1 } (by show 0 < s.cost - 1; omega)
      obtain ⟨a, b, c, d, e, f, g⟩ := h1
      refine ⟨a, b, c, d, e, ?_, ?_⟩
      · rw [f]; show ((s.ticks + 1 : Nat) : Int) + (s.cost - 1) = s.ticks + s.cost; omega
      · rcases g with ⟨g1, g2, g3⟩ | ⟨g1, g2, g3⟩
        · exact Or.inl ⟨g1, by rw [g2]; show s.ticks + 1 + n = s.ticks + (n + 1); omega, g3⟩
        · exact Or.inr ⟨g1, g2, by have h : s.ticks + 1 < _ := g3; omega⟩

theorem callbacks_spec (B : Int) (k : Nat) : ∀ s : LSt, LInv B s → 0 < s.cost →
    LInv B (callbacks s k).2 ∧ LPos (callbacks s k) ∧ (callbacks s k).1 ≠ .done ∧
    (callbacks s k).2.pc = s.pc ∧ (callbacks s k).2.rets = s.rets := by
  induction k with
  | zero =>
    intro s hi hp
    exact ⟨hi, Or.inr ⟨by simp [callbacks], hp⟩, by simp [callbacks], rfl, rfl⟩
  | succ k ih =>
    intro s hi hp
    have hc := charge_spec callbackCharge s hp
    rw [callbackCharge_one] at hc
    unfold callbacks
    rw [callbackCharge_one]
    obtain ⟨a, b, c, d, e, f, g⟩ := hc
    rcases g with ⟨g1, g2, g3⟩ | ⟨g1, g2, g3⟩
    · -- charged, the callback is made
      generalize hr : charge s 1 = r at *
      obtain ⟨o, s1⟩ := r
      simp only at a b c d e f g1 g2 g3
      subst g1
      simp only
      have hi1 : LInv B { s1 with cbs := s1.cbs + 1 } := by
        obtain ⟨i1, i2⟩ := hi
        refine ⟨?_, ?_⟩
        · show s1.backs + s1.calls + (s1.cbs + 1) ≤ s1.ticks
          omega
        · show (s1.ticks : Int) + s1.cost = B
          omega
      have := ih { s1 with cbs := s1.cbs + 1 } hi1 g3
      obtain ⟨j1, j2, j3, j4, j5⟩ := this
      exact ⟨j1, j2, j3, by rw [j4]; exact d, by rw [j5]; exact e⟩
    · generalize hr : charge s 1 = r at *
      obtain ⟨o, s1⟩ := r
      simp only at a b c d e f g1 g2 g3
      subst g1
      simp only
      obtain ⟨i1, i2⟩ := hi
      refine ⟨⟨?_, ?_⟩, Or.inl ⟨rfl, g2⟩, by simp, d, e⟩
      · omega
      · omega

/-- one turn of the loop keeps the accounting -/
theorem lstep_spec (B : Int) (prog : Array Ins) (taken : Bool) (s : LSt) (hi : LInv B s) (hp : 0 < s.cost) :
    LInv B (lstep prog taken s).2 ∧ LPos (lstep prog taken s) := by
  unfold lstep
  split
  · exact ⟨hi, Or.inr ⟨by simp, hp⟩⟩
  · have hc := charge_spec fetchCharge s hp
    rw [fetchCharge_one] at hc ⊢
    obtain ⟨a, b, c, d, e, f, g⟩ := hc
    generalize hr : charge s 1 = r at *
    obtain ⟨o, s1⟩ := r
    simp only at a b c d e f g
    obtain ⟨i1, i2⟩ := hi
    rcases g with ⟨g1, g2, g3⟩ | ⟨g1, g2, g3⟩
    · subst g1
      simp only
      -- the fetch is paid: one tick of slack for whatever the instruction does
      have hslack : s1.backs + s1.calls + s1.cbs + 1 ≤ s1.ticks := by omega
      have hbud : (s1.ticks : Int) + s1.cost = B := by omega
      split
      · exact ⟨⟨by show s1.backs + s1.calls + s1.cbs ≤ s1.ticks; omega, hbud⟩, Or.inr ⟨by simp, g3⟩⟩
      · exact ⟨⟨by show s1.backs + s1.calls + s1.cbs ≤ s1.ticks; omega, hbud⟩, Or.inr ⟨by simp, g3⟩⟩
      · split
        · exact ⟨⟨by show s1.backs + 1 + s1.calls + s1.cbs ≤ s1.ticks; omega, hbud⟩, Or.inr ⟨by simp, g3⟩⟩
        · exact ⟨⟨by show s1.backs + s1.calls + s1.cbs ≤ s1.ticks; omega, hbud⟩, Or.inr ⟨by simp, g3⟩⟩
      · exact ⟨⟨by show s1.backs + (s1.calls + 1) + s1.cbs ≤ s1.ticks; omega, hbud⟩, Or.inr ⟨by simp, g3⟩⟩
      · split
        · exact ⟨⟨by show s1.backs + s1.calls + s1.cbs ≤ s1.ticks; omega, hbud⟩, Or.inr ⟨by simp, g3⟩⟩
        · exact ⟨⟨by show s1.backs + s1.calls + s1.cbs ≤ s1.ticks; omega, hbud⟩, Or.inr ⟨by simp, g3⟩⟩
      · rename_i k _
        have hcb := callbacks_spec B k s1 ⟨by omega, hbud⟩ g3
        obtain ⟨j1, j2, j3, j4, j5⟩ := hcb
        generalize hq : callbacks s1 k = q at *
        obtain ⟨o2, s2⟩ := q
        simp only at j1 j2 j3 j4 j5
        split
        · rename_i s3 heq
          injection heq with h1 h2
          subst h1 h2
          obtain ⟨k1, k2⟩ := j1
          rcases j2 with ⟨x, _⟩ | ⟨_, y⟩
          · cases x
          · exact ⟨⟨k1, k2⟩, Or.inr ⟨by simp, y⟩⟩
        · exact ⟨j1, j2⟩
    · subst g1
      simp only
      exact ⟨⟨by omega, by omega⟩, Or.inl ⟨rfl, g2⟩⟩

theorem lrun_spec (B : Int) (prog : Array Ins) (orc : Nat → Bool) (fuel : Nat) : ∀ s : LSt, LInv B s → 0 < s.cost →
    LInv B (lrun prog orc fuel s).2 ∧ LPos (lrun prog orc fuel s) := by
  induction fuel with
  | zero => intro s hi hp; exact ⟨hi, Or.inr ⟨by simp [lrun], hp⟩⟩
  | succ f ih =>
    intro s hi hp
    have h := lstep_spec B prog (orc f) s hi hp
    unfold lrun
    generalize hr : lstep prog (orc f) s = r at *
    obtain ⟨o, s1⟩ := r
    cases o with
    | running =>
      simp only
      rcases h.2 with ⟨x, _⟩ | ⟨_, y⟩
      · cases x
      · exact ih s1 h.1 y
    | done => exact h
    | expired => exact h

/-- a turn of the loop that goes on has charged at least one tick -/
theorem lstep_progress (prog : Array Ins) (taken : Bool) (s s' : LSt) (hp : 0 < s.cost)
    (h : lstep prog taken s = (.running, s')) : s.ticks + 1 ≤ s'.ticks := by
  unfold lstep at h
  split at h
  · cases h
  · have hc := charge_spec fetchCharge s hp
    rw [fetchCharge_one] at hc h
    obtain ⟨a, b, c, d, e, f, g⟩ := hc
    generalize hr : charge s 1 = r at *
    obtain ⟨o, s1⟩ := r
    simp only at a b c d e f g
    rcases g with ⟨g1, g2, g3⟩ | ⟨g1, g2, g3⟩
    · subst g1
      simp only at h
      split at h
      · injection h with _ h; subst h; show s.ticks + 1 ≤ s1.ticks; omega
      · injection h with _ h; subst h; show s.ticks + 1 ≤ s1.ticks; omega
      · split at h
        · injection h with _ h; subst h; show s.ticks + 1 ≤ s1.ticks; omega
        · injection h with _ h; subst h; show s.ticks + 1 ≤ s1.ticks; omega
      · injection h with _ h; subst h; show s.ticks + 1 ≤ s1.ticks; omega
      · split at h
        · cases h
        · injection h with _ h; subst h; show s.ticks + 1 ≤ s1.ticks; omega
      · rename_i k _
        -- callbacks only add ticks
        have hmono : ∀ (k : Nat) (t : LSt), 0 < t.cost → t.ticks ≤ (callbacks t k).2.ticks := by
          intro k
          induction k with
          | zero => intro t _; simp [callbacks]
          | succ k ih =>
            intro t ht
            have hcs := charge_spec callbackCharge t ht
            rw [callbackCharge_one] at hcs
            unfold callbacks
            rw [callbackCharge_one]
            obtain ⟨_, _, _, _, _, _, g'⟩ := hcs
            generalize hq : charge t 1 = q at *
            obtain ⟨o2, t1⟩ := q
            simp only at g'
            rcases g' with ⟨x1, x2, x3⟩ | ⟨x1, x2, x3⟩
            · subst x1
              simp only
              have := ih { t1 with cbs := t1.cbs + 1 } x3
              have e1 : ({ t1 with cbs := t1.cbs + 1 } : LSt).ticks = t1.ticks := rfl
              omega
            · subst x1
              simp only
              omega
        have hm := hmono k s1 g3
        generalize hq : callbacks s1 k = q at *
        obtain ⟨o2, s2⟩ := q
        simp only at hm
        split at h
        · rename_i s3 heq
          injection heq with h1 h2
          subst h1 h2
          injection h with _ h; subst h
          show s.ticks + 1 ≤ s2.ticks
          omega
        · rename_i hne
          exact (hne s' h).elim
    · subst g1
      simp only at h
      cases h

/-- after n turns that all went on, at least n ticks are charged, and the accounting still holds -/
theorem lrun_running (B : Int) (prog : Array Ins) (orc : Nat → Bool) (fuel : Nat) : ∀ s : LSt, LInv B s → 0 < s.cost →
    (lrun prog orc fuel s).1 = .running → s.ticks + fuel ≤ (lrun prog orc fuel s).2.ticks := by
  induction fuel with
  | zero => intro s _ _ _; simp [lrun]
  | succ f ih =>
    intro s hi hp hrun
    have hstep := lstep_spec B prog (orc f) s hi hp
    unfold lrun at hrun ⊢
    generalize hr : lstep prog (orc f) s = r at *
    obtain ⟨o, s1⟩ := r
    cases o with
    | running =>
      simp only at hrun ⊢
      have hpr := lstep_progress prog (orc f) s s1 hp hr
      rcases hstep.2 with ⟨x, _⟩ | ⟨_, y⟩
      · cases x
      · have := ih s1 hstep.1 y hrun
        omega
    | done => simp at hrun
    | expired => simp at hrun

end NV.C04
