/-
C04 — executable model, part (d): the recursive walks over an LPC value that carry their own depth limit, and the
size decision of save_variable.

  svalue_save_size (lib/lpc/object.c)      `if (++save_svalue_depth > MAX_SAVE_SVALUE_DEPTH) too_deep_save_error ();`
                                           once per array / class / mapping, `save_svalue_depth--` after its elements
  deep_copy_svalue (lib/efuns/unsorted.c)  `depth++; if (depth > MAX_SAVE_SVALUE_DEPTH) { depth = 0; error (...); }`
                                           the same test on the same constant (copy ())
  save_variable    (lib/lpc/object.c)      `theSize = svalue_save_size (var);
                                            if (theSize - 1 > (size_t) MaxStringLength) error (...);`   (fix ab97f18)
                                           `new_string (theSize - 1)`

A value is seen the way these walks see it: a number or string is a leaf whose saved text has a known length
(digits / characters + escapes + one delimiter), a container is a box around the list of its elements (a mapping's
list holds keys and values alternately).  `MAX_SAVE_SVALUE_DEPTH` is regenerated (`Gen.C04.maxSaveDepth`).
-/
import NV.C04.Sizes

namespace NV.C04

open NV.Gen.C04

inductive Val
  | leaf (textLen : Nat)         -- T_NUMBER / T_REAL / T_STRING: what svalue_save_size returns for it
  | nil                          -- end of an element list
  | cons (head tail : Val)       -- element list: `while (i--) size += svalue_save_size (sv++)`
  | box (items : Val)            -- T_ARRAY / T_CLASS / T_MAPPING around its element list
  deriving Repr, DecidableEq

/-- how many containers are inside each other -/
def Val.nest : Val → Nat
  | .leaf _ => 0
  | .nil => 0
  | .cons h t => max h.nest t.nest
  | .box i => i.nest + 1

/-- svalue_save_size, entered with `save_svalue_depth = d`; `none` = too_deep_save_error () -/
def saveSize (d : Nat) : Val → Option Nat
  | .leaf n => some n
  | .nil => some 0
  | .cons h t =>
    match saveSize d h with
    | none => none
    | some a =>
      match saveSize d t with
      | none => none
      | some b => some (a + b)
  | .box items =>
    -- `if (++save_svalue_depth > MAX_SAVE_SVALUE_DEPTH) too_deep_save_error ();`
    if d + 1 > maxSaveDepth then none
    else
      match saveSize (d + 1) items with
      | none => none
      | some s => some (s + saveBoxOverhead)     -- `return size + 5;` (regenerated: site saveDepthLeave)

/-- ghost: the largest value `save_svalue_depth` (= the number of nested activations of the walk working on a
    container) has while svalue_save_size runs on `v`, the error path included -/
def saveReach (d : Nat) : Val → Nat
  | .leaf _ => d
  | .nil => d
  | .cons h t =>
    match saveSize d h with
    | none => saveReach d h                       -- the error left the loop
    | some _ => max (saveReach d h) (saveReach d t)
  | .box items => if d + 1 > maxSaveDepth then d else saveReach (d + 1) items

/-- restore_size / restore_internal_size (lib/lpc/object.c, the size pre-pass of restore_variable / restore_object; fix c9a3442
    of C16): `nesting` is the level of the container whose elements are being counted (the outermost one is level 1);
    meeting a container inside it calls restore_internal_size (..., nesting + 1), which begins with
    `if (nesting > MAX_SAVE_SVALUE_DEPTH) return 0;` - the text is refused as an illegal format.  `false` = refused. -/
def restoreWalk (nesting : Nat) : Val → Bool
  | .leaf _ => true
  | .nil => true
  | .cons h t => restoreWalk nesting h && restoreWalk nesting t
  | .box items => if nesting + 1 > maxSaveDepth then false else restoreWalk (nesting + 1) items

/-- ghost: the deepest level the pre-pass recurses to (one C frame of restore_internal_size per level), refusal included -/
def restoreReach (nesting : Nat) : Val → Nat
  | .leaf _ => nesting
  | .nil => nesting
  | .cons h t => if restoreWalk nesting h then max (restoreReach nesting h) (restoreReach nesting t) else restoreReach nesting h
  | .box items => if nesting + 1 > maxSaveDepth then nesting + 1 else restoreReach (nesting + 1) items

/-- deep_copy_svalue (copy ()): the same counter, the same test, the same constant -/
def deepCopyOk (d : Nat) (v : Val) : Bool := (saveSize d v).isSome

/-- save_variable (var) after the fix: the length test is made on `theSize - 1` (size_t arithmetic) before anything
    is allocated -/
def saveVariable (v : Val) (limit : Int) : SzR :=
  match saveSize 0 v with
  | none => .err
  | some sz =>
    let len := (sz + two64 - 1) % two64
    if len > toSizeT limit then .err else .ok len

/-- save_variable before the fix: no test at all -/
def saveVariableOld (v : Val) : SzR :=
  match saveSize 0 v with
  | none => .err
  | some sz => .ok ((sz + two64 - 1) % two64)

/-! ### the values the harness builds (harness/mudlib/c04/sizes.c) -/

/-- an element list of n copies of `v` -/
def listOf (v : Val) : Nat → Val
  | 0 => .nil
  | n + 1 => .cons v (listOf v n)

/-- allocate (n): n zeros, each saved as "0," -/
def valZeros (n : Nat) : Val := .box (listOf (.leaf 2) n)

/-- a string of n characters, `esc` of which need a backslash: quotes + delimiter = 3 -/
def valString (n esc : Nat) : Val := .leaf (3 + n + esc)

/-- ([ 0:1, ..., n-1:1 ]) for n ≤ 10: key and value are one digit + delimiter each -/
def valSmallMap (n : Nat) : Val := .box (listOf (.leaf 2) (2 * n))

/-- d arrays inside each other, the innermost empty (d ≥ 1) -/
def valNested : Nat → Val
  | 0 => .box .nil
  | d + 1 => .box (.cons (valNested d) .nil)

/-- d mappings inside each other as the value of the key 1 (d ≥ 1): `([ 1 : ([ 1 : ... ]) ])`; the key is saved as "1:" -/
def valNestedMap : Nat → Val
  | 0 => .box .nil
  | d + 1 => .box (.cons (.leaf 2) (.cons (valNestedMap d) .nil))

end NV.C04
