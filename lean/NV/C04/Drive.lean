/-
C04 driver: parses the case lines that the harness executes against the real driver and runs the model
(`model` mode) or the specification oracle on an implementation trace (`judge` mode).

Case lines (shared with harness/c04/c04.c):
  load <oid> <path> | lpc <path> <hex>        objects / generated LPC source (ignored by the model)
  cfgint <index> <value>                      config_int[index] (indices regenerated: Gen.C04.cfg*)
  depth <n> | stack <n>                       MaxCallDepth / StackSize of the case
  mset set_handler_catches <0|1>              the master's error_handler completes a catch()
  reconf MaxEvaluationCost <v>                the budget as read by init_config () (clamped)
  ev sizes set_limit <n>                      the budget as set by LPC set_eval_limit (n) (clamped)
  ev sizes mapseq <op>,<op>,...               inserts and in-place `m += m2` on one mapping, each inside catch (MapBook.lean)
  shape <term>                                the abstract shape of the LPC program loaded as `p` (ignored by the harness)
  ev p main                                   one driver-started evaluation of the program
  sz <constructor> <args...>                  one size decision

(the generator emits one LPC function per node, so every node is a `call` around its construct)
shape terms:  K | W<n> | S | R<locals> | X | F<locals>(<t>) | C(<t>) | B<k>(<t>) | A(<t>) | Q(<t>,<t>) | E | T
-/
import NV.Common.Proto
import NV.C04.Model
import NV.C04.Sizes
import NV.C04.MapBook
import NV.C04.Save
import NV.C04.Spec

namespace NV.C04

open NV.Proto
open NV.Gen.C04

/-! ### shape parser -/

def takeDigits : List Char → List Char × List Char
  | c :: cs => if c.isDigit then let (d, r) := takeDigits cs; (c :: d, r) else ([], c :: cs)
  | [] => ([], [])

def natOf (ds : List Char) : Nat := ds.foldl (fun a c => a * 10 + (c.toNat - '0'.toNat)) 0

def parseSh : Nat → List Char → Option (Sh × List Char)
  | 0, _ => none
  | f + 1, cs =>
    match cs with
    | 'K' :: r => some (.call 0 .skip, r)
    | 'S' :: r => some (.call 0 .spin, r)
    | 'X' :: r => some (.crecur, r)
    | 'E' :: r => some (.call 0 .err, r)
    | 'T' :: r => some (.call 0 .throw_, r)
    | 'W' :: r => let (d, r) := takeDigits r; some (.call 0 (.work (natOf d)), r)
    -- N<k>: an efun making k callbacks to a function that does not exist (map_array (allocate (k), "nosuch", ob)):
    -- no frame, no code, one tick per callback charged by call_efun_callback - the same as k instructions
    | 'N' :: r => let (d, r) := takeDigits r; some (.call 0 (.work (natOf d)), r)
    | 'R' :: r => let (d, r) := takeDigits r; some (.recur (natOf d), r)
    | 'F' :: r =>
      let (d, r) := takeDigits r
      (match r with
       | '(' :: r => (match parseSh f r with
                      | some (b, ')' :: r) => some (.call (natOf d) b, r)
                      | _ => none)
       | _ => none)
    | 'B' :: r =>
      let (d, r) := takeDigits r
      (match r with
       | '(' :: r => (match parseSh f r with
                      | some (b, ')' :: r) => some (.call 0 (.cb (natOf d) b), r)
                      | _ => none)
       | _ => none)
    | 'C' :: '(' :: r =>
      (match parseSh f r with
       | some (b, ')' :: r) => some (.call 0 (.catch_ b), r)
       | _ => none)
    | 'A' :: '(' :: r =>
      (match parseSh f r with
       | some (b, ')' :: r) => some (.call 0 (.safe b), r)
       | _ => none)
    | 'Q' :: '(' :: r =>
      (match parseSh f r with
       | some (a, ',' :: r) =>
         (match parseSh f r with
          | some (b, ')' :: r) => some (.call 0 (.seq a b), r)
          | _ => none)
       | _ => none)
    | _ => none

/-- the largest k of an `N<k>` node in a shape term (callbacks that execute no instruction) -/
def noCodeOf (t : String) : Nat :=
  ((t.splitOn "N").drop 1).foldl (fun m part => max m (natOf (takeDigits part.toList).1)) 0

def parseShape (s : String) : Option Sh :=
  match parseSh (s.length + 1) s.toList with
  | some (sh, []) => some sh
  | _ => none

def Sh.hasSafe : Sh → Bool
  | .safe _ => true
  | .call _ b => b.hasSafe
  | .catch_ b => b.hasSafe
  | .cb _ b => b.hasSafe
  | .seq a b => a.hasSafe || b.hasSafe
  | _ => false

/-- unbounded recursion through catch somewhere in the shape: the number of error deliveries then depends on how many frames
    the nodes around it really take (nominal in the model) -/
def Sh.hasCrecur : Sh → Bool
  | .crecur => true
  | .call _ b => b.hasCrecur
  | .catch_ b => b.hasCrecur
  | .cb _ b => b.hasCrecur
  | .safe b => b.hasCrecur
  | .seq a b => a.hasCrecur || b.hasCrecur
  | _ => false

/-- number of catch frames an error can pass on its way out (for the handler allowance of the oracle) -/
def Sh.catchDepth : Sh → Nat
  | .catch_ b => b.catchDepth + 1
  | .call _ b => b.catchDepth
  | .cb _ b => b.catchDepth
  | .safe b => b.catchDepth
  | .seq a b => max a.catchDepth b.catchDepth
  | .crecur => 200
  | _ => 0

/-! ### case parser -/

structure Parsed where
  lim : Limits := {}
  shape : Sh := .skip
  out : List String := []         -- newest first
  bad : List String := []

def cfgOf (l : Limits) : Cfg :=
  { maxCost := l.cost, maxDepth := if l.depth > 0 then l.depth else 200,
    stackSize := if l.stack > 0 then l.stack else 2000, handlerCatches := l.handlerCatches }

def modelFuel : Nat := 3000000

def renderSz : SzR → String
  | .err => "sz err"
  | .ok n => s!"sz ok {n}"
  | .zero => "sz ok -1"

/-- sequencing of decisions: the operands of a constructor are built first (and may fail themselves) -/
def andThen (r : SzR) (k : Nat → SzR) : SzR :=
  match r with
  | .ok n => k n
  | .zero => .zero
  | .err => .err

def decLen (n : Int) : Nat := (toString n).length

/-- a string of n characters built by the LPC side with repeat_string ("x", n) -/
def strOf (l : Limits) (n : Int) : SzR := repeatString 1 n l.maxString

/-- argument lists of the right length (anything else is a malformed command) -/
def ar1 (f : Int → SzR) : List Int → Option SzR
  | [a] => some (f a)
  | _ => none
def ar2 (f : Int → Int → SzR) : List Int → Option SzR
  | [a, b] => some (f a b)
  | _ => none
def ar3 (f : Int → Int → Int → SzR) : List Int → Option SzR
  | [a, b, c] => some (f a b c)
  | _ => none

/-- a = ([ i : i ]) for i < c1; b has the keys c1-common .. c1-common+c2-1: the nodes of a with a value in that range stay -/
def szComposeBody (l : Limits) (c1 c2 common : Int) : SzR :=
  andThen (mapInsertMany 0 c1.toNat l.maxMapping) fun x => andThen (mapInsertMany 0 c2.toNat l.maxMapping) fun y =>
    composeMapping x ((min (x : Int) ((x : Int) - common + y)) - (max 0 ((x : Int) - common))).toNat

/-- the size decision(s) behind one `sz` command; mirrors harness/mudlib/c04/sizes.c -/
def szCmdC (l : Limits) : Ctor → List Int → Option SzR
  | .allocate => ar1 fun n => allocateArray n l.maxArray
  | .aggregate => ar1 fun n => aggregateArray n.toNat l.maxArray
  | .add_array => ar2 fun x y => andThen (allocateArray x l.maxArray) fun p => andThen (allocateArray y l.maxArray) fun r =>
      addArray p r l.maxArray
  | .add_array_self => ar1 fun x => andThen (allocateArray x l.maxArray) fun p => addArray p p l.maxArray
  | .slice => ar3 fun n lo hi => andThen (allocateArray n l.maxArray) fun p => sliceArray p lo hi
  | .explode =>
    -- the string "a,a,...,a" is built with repeat_string and +
    ar1 fun pieces => if pieces ≤ 0 then explodeArray 0 l.maxArray
          else andThen (repeatString 2 (pieces - 1) l.maxString) fun s => andThen (stringJoin s 1 l.maxString) fun _ =>
            explodeArray pieces.toNat l.maxArray
  | .explode0 => ar1 fun chars => andThen (strOf l chars) fun s => explodeArray s l.maxArray
  | .allocate_buffer => ar1 fun n => allocateBuffer n l.maxBuffer
  | .add_buffer => ar2 fun x y => andThen (allocateBuffer x l.maxBuffer) fun p => andThen (allocateBuffer y l.maxBuffer) fun r =>
      addBuffer p r l.maxBuffer
  | .map_insert => ar2 fun count isNew => andThen (mapInsertMany 0 count.toNat l.maxMapping) fun c => mapInsert c (isNew != 0) l.maxMapping
  | .map_aggregate => ar1 fun n => mapAggregate n.toNat l.maxMapping
  | .map_add => ar3 fun c1 c2 common => andThen (mapInsertMany 0 c1.toNat l.maxMapping) fun x => andThen (mapInsertMany 0 c2.toNat l.maxMapping) fun y =>
      mapAdd x y common.toNat l.maxMapping
  | .join => ar2 fun x y => andThen (strOf l x) fun p => andThen (strOf l y) fun r => stringJoin p r l.maxString
  | .join_eq => ar2 fun x y => andThen (strOf l x) fun p => andThen (strOf l y) fun r => stringJoin p r l.maxString
  | .join_self =>
    -- s += s, k times
    ar2 fun x k => andThen (strOf l x) fun p =>
      (List.range k.toNat).foldl (fun acc _ => andThen acc fun n => stringJoin n n l.maxString) (.ok p)
  | .join_num => ar2 fun x n => andThen (strOf l x) fun p => stringJoin p (decLen n) l.maxString
  | .num_join => ar2 fun n y => andThen (strOf l y) fun r => stringJoin r (decLen n) l.maxString
  | .repeat_ => ar2 fun len count => andThen (strOf l len) fun p => repeatString p count l.maxString
  | .implode =>
    -- (the LPC side fills a[0..n-1]: when the 16-bit size field wrapped, sizeof (a) < n and the fill loop errors)
    ar3 fun n m d => andThen (allocateArray n l.maxArray) fun cnt => andThen (strOf l m) fun len => andThen (strOf l d) fun dl =>
      if (cnt : Int) != n then .err else implodeString (cnt * len) cnt dl l.maxString
  | .replace => ar3 fun x y r => andThen (strOf l x) fun p => andThen (repeatString 2 y l.maxString) fun q =>
      andThen (stringJoin p q l.maxString) fun _ => andThen (strOf l r) fun rl =>
        replaceFamily p (q / 2) rl l.maxString.toNat
  | .replace1 =>
    -- one character pattern: x characters are copied one by one, then y replacements of r characters, each step guarded
    ar3 fun x y r => andThen (strOf l x) fun p => andThen (strOf l y) fun q => andThen (stringJoin p q l.maxString) fun _ =>
      andThen (strOf l r) fun rl =>
        replaceFinish l.maxString.toNat 0
          (replaceRun l.maxString.toNat (List.replicate p RStep.copy1 ++ List.replicate q (RStep.repl rl)) 0)
  -- copies and parts of operands (mirrors harness/mudlib/c04/sizes.c)
  | .copy_array => ar1 fun n => andThen (allocateArray n l.maxArray) sameSize
  | .copy_mapping => ar1 fun n => andThen (mapInsertMany 0 n.toNat l.maxMapping) sameSize
  | .sort_array => ar1 fun n => andThen (allocateArray n l.maxArray) sameSize
  | .map_array => ar1 fun n => andThen (allocateArray n l.maxArray) sameSize
  | .lower_case => ar1 fun n => andThen (strOf l n) sameSize
  | .filter_array => ar2 fun n kept => andThen (allocateArray n l.maxArray) fun a => partOf a kept.toNat
  | .unique_array => ar2 fun n groups => andThen (allocateArray n l.maxArray) fun a => partOf a (if groups ≤ 0 then a else groups.toNat)
  | .array_sub => ar2 fun n k => andThen (allocateArray n l.maxArray) fun a => andThen (allocateArray k l.maxArray) fun b => partOf a (a - b)
  | .array_and => ar2 fun n k => andThen (allocateArray n l.maxArray) fun a => andThen (allocateArray k l.maxArray) fun b => partOf a b
  | .filter_mapping => ar2 fun n kept => andThen (mapInsertMany 0 n.toNat l.maxMapping) fun c => partOf c kept.toNat
  | .map_mapping => ar1 fun n => andThen (mapInsertMany 0 n.toNat l.maxMapping) sameSize
  | .keys => ar1 fun n => andThen (mapInsertMany 0 n.toNat l.maxMapping) fun c => mapKeys c l.maxArray
  | .values => ar1 fun n => andThen (mapInsertMany 0 n.toNat l.maxMapping) fun c => mapKeys c l.maxArray
  | .allocate_mapping => ar1 fun n => allocateMapping n
  -- round 4 (mirrors harness/mudlib/c04/sizes.c)
  | .map_compose => ar3 (szComposeBody l)
  | .map_compose_eq => ar3 (szComposeBody l)
  | .save_array => ar1 fun n => andThen (allocateArray n l.maxArray) fun a => saveVariable (valZeros a) l.maxString
  | .save_string => ar2 fun n esc => andThen (strOf l n) fun p => saveVariable (valString p (if esc != 0 then p else 0)) l.maxString
  | .save_mapping => ar1 fun n => andThen (mapInsertMany 0 (min n.toNat 10) l.maxMapping) fun c => saveVariable (valSmallMap c) l.maxString
  | .save_nested => ar1 fun d => saveVariable (valNested (d.toNat - 1)) l.maxString
  | .copy_nested => ar1 fun d => if deepCopyOk 0 (valNested (d.toNat - 1)) then .ok (max d.toNat 1) else .err
  | .restore_nested =>
    -- the text "({" * (d-1) + "({})" + ",})" * (d-1) is built first; the size pre-pass of restore refuses text nested
    -- deeper than MAX_SAVE_SVALUE_DEPTH (C16's fix c9a3442)
    ar1 fun d => andThen (repeatString 2 (d - 1) l.maxString) fun a => andThen (stringJoin a 4 l.maxString) fun b =>
      andThen (repeatString 3 (d - 1) l.maxString) fun c => andThen (stringJoin b c l.maxString) fun _ =>
        if restoreWalk 0 (valNested (d.toNat - 1)) then .ok (max d.toNat 1) else .err
  | .restore_array => ar1 fun n => andThen (repeatString 2 n l.maxString) fun a => andThen (stringJoin 2 a l.maxString) fun b =>
      andThen (stringJoin b 2 l.maxString) fun _ => restoreArray n.toNat l.maxArray
  | .restore_mapping =>
    -- s = "(["; s += i + ":1," for every i; s + "])"
    ar1 fun n => andThen ((List.range n.toNat).foldl (fun acc (i : Nat) => andThen acc fun len =>
              andThen (stringJoin (decLen (i : Int)) 3 l.maxString) fun piece => stringJoin len piece l.maxString) (.ok 2)) fun len =>
            andThen (stringJoin len 2 l.maxString) fun _ => restoreMapping n.toNat l.maxMapping
  | .regexp =>
    -- `matched` of the elements are "a", the others "b"; flag & 2 selects the elements that do NOT match
    ar3 fun n matched flag => andThen (allocateArray n l.maxArray) fun a =>
      let hit := min matched.toNat a
      matchRegexp (if flag.toNat / 2 % 2 = 1 then a - hit else hit) flag l.maxArray
  | .reg_assoc => ar1 fun m => andThen (strOf l m) fun p => regAssoc p l.maxArray
  | .unique_mapping =>
    -- iota (n) grouped by v % groups (groups ≤ 0: every element its own group)
    ar2 fun n groups => andThen (allocateArray n l.maxArray) fun a =>
      uniqueMapping a (if groups ≤ 0 then a else groups.toNat) l.maxMapping
  | .save_nested_map => ar1 fun d => saveVariable (valNestedMap (d.toNat - 1)) l.maxString
  -- the nesting depth of a value save_variable accepted (the text must fit as well)
  | .save_depth => ar1 fun d => andThen (saveVariable (valNested (d.toNat - 1)) l.maxString) fun _ => .ok (max d.toNat 1)
  | .save_depth_map => ar1 fun d => andThen (saveVariable (valNestedMap (d.toNat - 1)) l.maxString) fun _ => .ok (max d.toNat 1)
  | .sprintf_pad =>
    -- sprintf ("%*s", w, s): padded to the field width; the pad goes through the same bounded buffer
    ar2 fun w n => andThen (strOf l n) fun p =>
      -- no padding when the string fills the field: the string is the first chunk (any size, see sprintfAdd)
      if w.toNat ≤ p then andThen (sprintfAdd 0 p) fun r => sprintfFinish r l.maxString
      else if w.toNat > ushrtMax then .err else sprintfFinish w.toNat l.maxString
  | .sprintf => ar2 fun x y => andThen (strOf l x) fun p => andThen (strOf l y) fun q => andThen (sprintfAdd 0 p) fun real => andThen (sprintfAdd real q) fun r => sprintfFinish r l.maxString

def szCmd (l : Limits) (ctor : String) (a : List Int) : Option SzR :=
  match Ctor.ofName ctor with
  | some c => szCmdC l c a
  | none => none

/-- `i<key><n|o>` / `a<from>:<n>:<new>` -/
def parseMapOp (t : String) : Option MapOp :=
  if t.startsWith "i" then
    if t.endsWith "n" then some (.insert true) else if t.endsWith "o" then some (.insert false) else none
  else if t.startsWith "a" then
    match (t.drop 1).toString.splitOn ":" with
    | [_, _, k] => k.toNat?.map MapOp.absorb
    | _ => none
  else if t.startsWith "c" then
    -- c<lo>:<n>:<kept>   m *= ([ lo .. lo+n-1 ])        cs:<kept>   m *= m (every value is a key)
    match (t.drop 1).toString.splitOn ":" with
    | [_, _, k] => k.toNat?.map MapOp.compose
    | ["s", k] => k.toNat?.map MapOp.compose
    | _ => none
  else none

/-- the result string of sizes.c `mapseq` -/
def mapSeqResult (limit : Int) (ops : List MapOp) : String :=
  let (es, s) := mapRun limit ops { count := 0, nodes := 0 }
  String.mk (es.map fun e => if e then 'e' else 'k') ++ s!":{s.count}/{s.nodes}"

def setCfgInt (l : Limits) (idx : Nat) (v : Int) : Limits :=
  if idx = cfgEvalCost then { l with cost := v }
  else if idx = cfgMaxArray then { l with maxArray := v }
  else if idx = cfgMaxBuffer then { l with maxBuffer := v }
  else if idx = cfgMaxMapping then { l with maxMapping := v }
  else if idx = cfgMaxString then { l with maxString := v }
  else l

def renderEv : Ev → Option String
  | .afterCatch k => some s!"after-catch {k.name}"
  | .safeSwallowed _ => none

def runEv (p : Parsed) : List String :=
  let cfg := cfgOf p.lim
  let (out, s) := evaluate cfg modelFuel p.shape
  let evs := s.evs.reverse.filterMap renderEv
  let last := match out with
    | .ok => "r ret 0"
    | .raised _ => s!"r err es={s.es}"
    | .fuel => "timeout"
  -- error deliveries (entries of mudlib_error_handler), compared with the count the harness takes through verif_error_hook
  -- (not for programs with safe applies: their real frames - master::object_name, call_other - are not the model's)
  evs ++ [last] ++ (if p.shape.hasSafe || p.shape.hasCrecur then [] else [s!"handlers {s.raises}"])

def parseLine (mode : Bool) (p : Parsed) (line : String) : Parsed :=
  match toks line with
  | [] => p
  | "load" :: _ => p
  | "lpc" :: _ => p
  | ["conf", v] =>
    -- configuration / master variant of the run: the limits machine does not depend on it (Handler.lean); the oracle's allowance
    -- for the driver's own trace does (values per frame: arguments, local variables)
    let n := (if (v.splitOn "args").length > 1 || (v.splitOn "both").length > 1 then 1 else 0) +
             (if (v.splitOn "locals").length > 1 || (v.splitOn "both").length > 1 then 1 else 0)
    { p with lim := { p.lim with traceValues := n } }
  | "conf" :: _ => p
  | ["cfgint", i, v] =>
    match i.toNat?, v.toInt? with
    | some i, some v => { p with lim := setCfgInt p.lim i v }
    | _, _ => { p with bad := line :: p.bad }
  | ["depth", n] =>
    match n.toInt? with
    | some n => { p with lim := { p.lim with depth := n } }
    | none => { p with bad := line :: p.bad }
  | ["stack", n] =>
    match n.toInt? with
    | some n => { p with lim := { p.lim with stack := n } }
    | none => { p with bad := line :: p.bad }
  | ["reconf", "MaxEvaluationCost", v] =>
    -- the value goes through init_config (): clamped to at least 1
    match v.toInt? with
    | some v => { p with lim := { p.lim with cost := clampCost v } }
    | none => { p with bad := line :: p.bad }
  | ["ev", "sizes", "mapseq", ops] =>
    let parsed := (ops.splitOn ",").map parseMapOp
    if parsed.all Option.isSome then
      { p with out := if mode then ("r ret \"" ++ mapSeqResult p.lim.maxMapping (parsed.filterMap id) ++ "\"") :: p.out else p.out }
    else { p with bad := line :: p.bad }
  | ["ev", "sizes", "set_limit", v] =>
    -- set_eval_limit (n), n other than 0 / 1 / -1: MaxEvaluationCost = (int) n, clamped to at least 1; the LPC
    -- function returns the new budget
    match v.toInt? with
    | some v =>
      let c := clampCost (toInt32 v)
      { p with lim := { p.lim with cost := c }, out := if mode then s!"r ret {c}" :: p.out else p.out }
    | none => { p with bad := line :: p.bad }
  | ["ev", "sizes", "rx", n] =>
    -- one regexp match whose backtracking is exponential in n: charged against the budget (Sizes.regexCharge); the generator
    -- only uses n far below and far above the threshold
    match n.toNat? with
    | some n =>
      (match rxExpires n p.lim.cost with
       | some true => { p with out := if mode then "r err es=2" :: p.out else p.out,
                                 lim := { p.lim with rxMustExpire := true } }
       | some false => { p with out := if mode then "r ret 0" :: p.out else p.out }
       | none => { p with bad := line :: p.bad })
    | none => { p with bad := line :: p.bad }
  | ["mset", "set_handler_catches", v] => { p with lim := { p.lim with handlerCatches := v != "0" } }
  | ["shape", t] =>
    match parseShape t with
    | some sh =>
      let lim := { p.lim with hasSafe := sh.hasSafe, catchDepth := sh.catchDepth, noCodeCallbacks := noCodeOf t,
                              safeWeight := sh.safeWeight }
      { p with shape := sh, lim := lim }
    | none => { p with bad := line :: p.bad }
  | ["ev", _, _] => if mode then { p with out := (runEv p).reverse ++ p.out } else p
  | "sz" :: ctor :: args =>
    let ints := args.map String.toInt?
    if ints.all Option.isSome then
      if mode then
        match szCmd p.lim ctor (ints.filterMap id) with
        | some r => { p with out := renderSz r :: p.out }
        | none => { p with bad := line :: p.bad }
      else p
    else { p with bad := line :: p.bad }
  | _ => if line.startsWith "#" then p else { p with bad := line :: p.bad }

def runModel (lines : List String) : List String :=
  let p := lines.foldl (parseLine true) {}
  if !p.bad.isEmpty then p.bad.reverse.map (fun l => s!"bad-line {l}") else p.out.reverse

/-- the judge: the input lines give the limits and say which results are expected; the implementation lines are
    checked one by one -/
def runJudge (body : List String) : List String :=
  let (input, impl) := splitJudge body
  let p := input.foldl (parseLine false) {}
  let nEv := (input.filter (fun l => (toks l).head? == some "ev")).length
  let ctors := input.filterMap (fun l => match toks l with | "sz" :: c :: _ => some c | _ => none)
  -- limits may change between commands; the oracle uses the final ones (cases set them before the commands)
  let s0 : JState := { lim := p.lim, pendingEv := nEv, pendingSz := ctors }
  let s := impl.foldl judgeLine s0
  match judgeEnd s with
  | [] => ["ok"]
  | vs => vs.map (fun v => s!"bad {v}")

/-- names of the machine branches recorded by `mark` (Model.lean) -/
def branchNames : List (Nat × String) :=
  [(1, "tick-expires"), (2, "frame-push-at-full-depth"), (3, "checked-push-at-full-stack"), (4, "catch-at-full-depth"),
   (5, "catch-reraises-cost"), (6, "catch-reraises-stack-or-depth"), (7, "catch-returns-error-value"),
   (8, "safe-apply-at-full-depth"), (9, "safe-apply-stops-cost-error"), (10, "safe-apply-stops-other-error"),
   (11, "throw-to-catch"), (12, "throw-without-catch"), (13, "catch-without-error"), (14, "safe-apply-without-error")]

/-- `cover` mode: the branches of the machine each case takes (generator audit; not part of the check's verdict) -/
def runCover (lines : List String) : List String :=
  let p := lines.foldl (parseLine false) {}
  if (lines.any fun l => (toks l).take 3 == ["ev", "p", "main"]) then
    let (_, s) := evaluate (cfgOf p.lim) modelFuel p.shape
    let ids := s.br.eraseDups
    ids.map fun i => "br " ++ ((branchNames.find? (·.1 == i)).map (·.2)).getD (toString i)
  else []

def main (mode : String) : IO Unit :=
  match mode with
  | "model" => serve runModel
  | "judge" => serve runJudge
  | "cover" => serve runCover
  | _ => IO.eprintln s!"C04: unknown mode {mode}"

end NV.C04
