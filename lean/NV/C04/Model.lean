/-
C04 — executable model, part (a): the limits machine.

Mirrors, in the order of the C code (repository state after the `fix:` commits listed in notes/C04.md):

* `eval_instruction`      src/interpret.c   `if (!--eval_cost) { set_error_state (ES_MAX_EVAL_COST);
                                              eval_cost = CONFIG_INT (__MAX_EVAL_COST__); error (...); }`      → `tick`
* `push_control_stack` / `setup_fake_frame` / `save_context`   src/frame.c, lib/lpc/functional.c, src/error_context.c
                          `if (csp == &control_stack[CONFIG_INT (__MAX_CALL_DEPTH__) - 1])`                      → `pushFrame`
* `STACK_CHECK` / `CHECK_AND_PUSH`   src/interpret.h, src/stack.c   `if (sp + n >= end_of_stack)`, with
                          `end_of_stack = start_of_stack + size - 5` (reset_interpreter)                         → `pushChecked`
* `error_handler`         src/error_context.c   the master's error_handler runs (LOG_CATCHES) before the longjmp;
                          a catch completing inside it pops a context, which clears error_state; for caught errors
                          the state is kept across the handler (fix)                                            → `raise`
* `do_catch`              src/frame.c   save_context / push_control_stack (FRAME_CATCH) / setjmp; on error
                          restore_context, `sp++`, then the two `get_error_state` tests: pop_context (clears the
                          state), set the bit again (fix), re-raise; otherwise pop_context and continue         → `Sh.catch_`
* `safe_apply`            src/apply.c   save_context, apply, on error restore_context, one tick left to the caller
                          when the budget ran out inside (fix); pop_context                                     → `Sh.safe`
* `pop_context`           src/error_context.c   `clear_error_state ()`

Depths and heights are counted in elements: `depth = csp - control_stack + 1`, `sp = sp - start_of_stack + 1`.
`eval_cost` is an `int64_t`; it is an `Int` here (a non-positive budget needs 2^64 decrements to reach zero, which
is signed overflow in C; the model says "never").

Programs are *shapes* (`Sh`): the generator of props/c04.py emits each shape together with the LPC source that
realises it (one LPC function per node).  `work n` stands for a terminating loop, `spin` for `while (1);`,
`recur` for unbounded recursion; the ticks charged for bookkeeping are nominal (the correspondence compares
outcomes and the events below, the judge bounds the measured numbers).
-/
import NV.Gen.C04

namespace NV.C04

open NV.Gen.C04

/-- configuration: the limits of the run and what the master's error handler does -/
structure Cfg where
  maxCost : Int            -- CONFIG_INT (__MAX_EVAL_COST__)
  maxDepth : Int           -- CONFIG_INT (__MAX_CALL_DEPTH__)
  stackSize : Int          -- StackSize (end_of_stack = start_of_stack + stackSize - 5)
  handlerCatches : Bool    -- master::error_handler itself completes a catch()
  deriving Repr, DecidableEq

/-- the slack reset_interpreter leaves below the end of the value stack (`size - 5`, a literal in src/stack.c) -/
def stackSlack : Int := stackSlackSrc   -- regenerated from src/stack.c (`size - 5`)

/-- cause of an error (ghost information: the C code only has the message text and `error_state`) -/
inductive Kind
  | cost      -- "Too long evaluation" / "Can't catch eval cost too big error"
  | deep      -- "Too deep recursion"  / "Can't catch too deep recursion error"
  | stack     -- "Stack overflow"
  | plain     -- error ("...") of the program
  | thrown    -- throw (value)
  deriving Repr, DecidableEq

def Kind.isLimit : Kind → Bool
  | .cost | .deep | .stack => true
  | _ => false

def Kind.name : Kind → String
  | .cost => "cost" | .deep => "deep" | .stack => "stack" | .plain => "plain" | .thrown => "thrown"

/-- observable events of an evaluation (what the generated LPC code prints) -/
inductive Ev
  | afterCatch (k : Kind)     -- a catch() completed normally and returned the error value of kind k
  | safeSwallowed (k : Kind)  -- a safe apply swallowed an error of kind k (by design of safe_apply)
  deriving Repr, DecidableEq

structure St where
  cost : Int                 -- eval_cost
  depth : Int                -- csp - control_stack + 1
  sp : Int                   -- sp - start_of_stack + 1
  es : Nat                   -- error_state
  ticks : Nat := 0           -- ghost: instructions fetched since the evaluation started
  maxDepth : Int := 0        -- ghost: high-water mark of depth
  maxSp : Int := 0           -- ghost: high-water mark of sp
  evs : List Ev := []        -- newest first
  br : List Nat := []        -- ghost: branches of the machine taken (coverage measurement of the generators only)
  raises : Nat := 0          -- ghost: error deliveries so far (entries of mudlib_error_handler: one per `raise`)
  deriving Repr

inductive Out
  | ok
  | raised (k : Kind)        -- a longjmp to the innermost error context is in flight
  | fuel                     -- the model's fuel ran out (the evaluation did not end within the fuel)
  deriving Repr, DecidableEq

/-- kind of the innermost error context (what `current_error_context` points to) -/
inductive Ctx
  | driver    -- backend / harness level save_context
  | catch_    -- do_catch
  | safe      -- safe_apply / safe_call_function_pointer
  deriving Repr, DecidableEq

/-- record a branch of the machine (ghost; see `branchNames` in Drive.lean) -/
def mark (n : Nat) (s : St) : St := { s with br := n :: s.br }

def setEs (s : St) (bit : Nat) : St := { s with es := s.es ||| bit }
def hasEs (s : St) (bit : Nat) : Bool := s.es &&& bit != 0

/-- `error ()` → `error_handler`: the master's handler runs first, then the longjmp to the innermost context.  A
    catch or safe apply completing inside the handler pops a context, which clears `error_state`; error_handler
    keeps the limit bits across the handler call (fixes 46c02c6 and d927c4d), so whatever the handler does
    (`cfg.handlerCatches`) the receiving context sees the state of the raise. -/
def raise (_cfg : Cfg) (_ctx : Ctx) (k : Kind) (s : St) : Out × St := (.raised k, { s with raises := s.raises + 1 })

/-- the evaluation budget as configured: rc.cpp and set_eval_limit clamp it to at least 1 (fix 7c5c9ea) -/
def clampCost (v : Int) : Int := if v < (clampMin : Int) then (clampMin : Int) else v   -- clampMin regenerated from rc.cpp

/-- one instruction fetch of eval_instruction: `if (!--eval_cost)` -/
def tick (cfg : Cfg) (ctx : Ctx) (s : St) : Out × St :=
  let s := { s with ticks := s.ticks + 1, cost := s.cost - 1 }
  if s.cost == 0 then
    raise cfg ctx .cost (mark 1 { (setEs s esMaxEvalCost) with cost := cfg.maxCost })
  else (.ok, s)

/-- n instructions of straight-line / terminating loop code -/
def ticksN (cfg : Cfg) (ctx : Ctx) : Nat → St → Out × St
  | 0, s => (.ok, s)
  | n + 1, s =>
    match tick cfg ctx s with
    | (.ok, s) => ticksN cfg ctx n s
    | r => r

/-- `while (1);` : instructions until something stops it -/
def spin (cfg : Cfg) (ctx : Ctx) : Nat → St → Out × St
  | 0, s => (.fuel, s)
  | f + 1, s =>
    match tick cfg ctx s with
    | (.ok, s) => spin cfg ctx f s
    | r => r

/-- push_control_stack / setup_fake_frame: `if (csp == &control_stack[MAX_CALL_DEPTH - 1])` -/
def pushFrame (cfg : Cfg) (ctx : Ctx) (s : St) : Out × St :=
  if s.depth - 1 == cfg.maxDepth - 1 then
    raise cfg ctx .deep (mark 2 (setEs s esStackFull))
  else
    let d := s.depth + 1
    (.ok, { s with depth := d, maxDepth := if d > s.maxDepth then d else s.maxDepth })

/-- STACK_CHECK (n) followed by n pushes (push_undefineds): `if (sp + n >= end_of_stack)` -/
def pushChecked (cfg : Cfg) (ctx : Ctx) (n : Nat) (s : St) : Out × St :=
  if (s.sp - 1) + n ≥ cfg.stackSize - stackSlack then
    raise cfg ctx .stack (mark 3 (setEs s esStackFull))
  else
    let h := s.sp + n
    (.ok, { s with sp := h, maxSp := if h > s.maxSp then h else s.maxSp })

/-- an unchecked push (`*++sp = ...`, as do_catch does for the caught value) -/
def pushUnchecked (s : St) : St :=
  let h := s.sp + 1
  { s with sp := h, maxSp := if h > s.maxSp then h else s.maxSp }

/-- program shapes -/
inductive Sh
  | skip
  | work (n : Nat)                  -- terminating loop, n instructions
  | spin                            -- while (1);
  | recur (locals : Nat)            -- f () { <locals>; f (); }   unbounded direct/mutual/function-pointer recursion
  | crecur                          -- f () { catch (f ()); }      unbounded recursion through catch
  | call (locals : Nat) (body : Sh) -- a function call: frame, locals, body, return
  | catch_ (body : Sh)              -- catch (body)
  | cb (k : Nat) (body : Sh)        -- an efun calling back k times (map_array ...): errors propagate
  | safe (body : Sh)                -- a safe apply made by an efun (sprintf ("%O") → master::object_name)
  | seq (a b : Sh)
  | err                             -- error ("boom")
  | throw_                          -- throw ("x")
  deriving Repr, DecidableEq

/-- nominal instruction counts of the bookkeeping around a call / catch / callback -/
def callTicks : Nat := 2

/-- return from a frame: pop_control_stack and the values above the frame's base -/
def leave (s : St) (depth sp : Int) : St := { s with depth := depth, sp := sp }

/-- push_control_stack (FRAME_CATCH) in do_catch, after save_context made the depth test -/
def pushCatchFrame (s : St) : St :=
  let d := s.depth + 1
  { s with depth := d, maxDepth := if d > s.maxDepth then d else s.maxDepth }

/-- sequencing: continue with `k` when the first part completed, otherwise the longjmp (or fuel-out) propagates -/
def seqM (r : Out × St) (k : St → Out × St) : Out × St :=
  match r with
  | (.ok, s) => k s
  | r => r

/-- do_catch after the longjmp landed (src/frame.c): restore_context (csp = save_csp + 1, pop_control_stack, pop
    the values), `sp++; *sp = catch_value`, then the two error_state tests -/
def catchLanding (cfg : Cfg) (ctx : Ctx) (d0 p0 : Int) (k : Kind) (s : St) : Out × St :=
  let s := pushUnchecked (leave s d0 p0)
  if hasEs s esMaxEvalCost then
    -- pop_context (clears error_state); set_error_state (ES_MAX_EVAL_COST) (fix); error ("Can't catch eval cost ...")
    raise cfg ctx .cost (mark 5 { s with es := esMaxEvalCost })
  else if hasEs s esStackFull then
    raise cfg ctx .deep (mark 6 { s with es := esStackFull })
  else
    -- pop_context; the caught value is the value of the catch expression, the statement pops it
    (.ok, { (leave s d0 p0) with es := 0, evs := .afterCatch k :: s.evs, br := 7 :: s.br })

/-- execute a shape under the innermost error context `ctx`; `fuel` bounds the model's own recursion -/
def exec (cfg : Cfg) : Nat → Ctx → Sh → St → Out × St
  | 0, _, _, s => (.fuel, s)
  | f + 1, ctx, sh, s =>
    match sh with
    | .skip => (.ok, s)
    | .work n => ticksN cfg ctx n s
    | .spin => spin cfg ctx (f + 1) s
    | .err => raise cfg ctx .plain s
    | .throw_ =>
      -- throw_error: longjmp when the innermost context is a catch, else error ("Throw with no catch")
      (match ctx with
       | .catch_ => (.raised .thrown, mark 11 s)
       | _ => raise cfg ctx .plain (mark 12 s))
    | .seq a b => seqM (exec cfg f ctx a s) fun s => exec cfg f ctx b s
    | .call locals body =>
      -- push_control_stack, setup_new_frame (push_undefineds (locals)), the body, return
      seqM (pushFrame cfg ctx s) fun s1 =>
      seqM (pushChecked cfg ctx locals s1) fun s2 =>
      seqM (ticksN cfg ctx callTicks s2) fun s3 =>
      seqM (exec cfg f ctx body s3) fun s4 =>
      -- F_RETURN is an instruction of the function, too
      seqM (tick cfg ctx s4) fun s5 => (.ok, leave s5 s.depth s.sp)
    | .recur locals =>
      -- f () { <locals>; f (); } : `call locals (recur locals)`, unfolded with the fuel
      exec cfg f ctx (.call locals (.recur locals)) s
    | .crecur =>
      -- f () { catch (f ()); } : a frame, then a catch whose body is the same function again
      exec cfg f ctx (.call 0 (.catch_ .crecur)) s
    | .cb 0 _ => (.ok, s)
    | .cb (k + 1) body =>
      -- an efun that calls back: each callback is a function call (fake frame + function frame); errors
      -- propagate out of the efun (call_efun_callback is not a safe apply)
      -- call_efun_callback charges a tick of its own per callback (fix: `if (!--eval_cost)` there, too)
      seqM (tick cfg ctx s) fun s =>
      seqM (exec cfg f ctx (.call 0 (.call 0 body)) s) fun s => exec cfg f ctx (.cb k body) s
    | .safe body =>
      -- safe_apply: save_context fails silently at full depth (returns 0); an error is swallowed;
      -- pop_context clears error_state either way
      -- (the efun that makes the safe apply is itself an instruction of the caller)
      seqM (tick cfg ctx s) fun s =>
      if s.depth - 1 == cfg.maxDepth - 1 then (.ok, mark 8 s)
      else
        (match exec cfg f .safe (.call 0 body) s with
         | (.ok, s1) => (.ok, { s1 with es := 0, br := 14 :: s1.br })
         | (.raised k, s1) =>
           -- restore_context; `if (get_error_state (ES_MAX_EVAL_COST)) eval_cost = 1;` (fix d927c4d: the budget ran
           -- out inside the call and was refreshed for the handler - the caller has one tick left); pop_context
           (.ok, { (leave s1 s.depth s.sp) with
                     cost := if hasEs s1 esMaxEvalCost then (safeTickLeft : Int) else s1.cost,   -- regenerated from src/apply.c
                     es := 0, evs := .safeSwallowed k :: s1.evs,
                     br := (if hasEs s1 esMaxEvalCost then 9 else 10) :: s1.br })
         | (.fuel, s1) => (.fuel, s1))
    | .catch_ body =>
      -- do_catch (src/frame.c).
      -- `if (!save_context (&econ)) { set_error_state (ES_STACK_FULL); error ("*Can't catch too deep recursion error."); }`
      -- (fix 187b28d, site catchAtDepthMarked: before it the bit only arrived through the failing apply of the master's handler)
      if s.depth - 1 == cfg.maxDepth - 1 then
        raise cfg ctx .deep (mark 4 (setEs s esStackFull))
      else
        -- push_control_stack (FRAME_CATCH): cannot fail, save_context made the same test
        (match exec cfg f .catch_ body (pushCatchFrame s) with
         | (.ok, s2) =>
           -- no error: pop_context; the catch frame was popped by F_END_CATCH
           (.ok, { (leave s2 s.depth s.sp) with es := 0, br := 13 :: s2.br })
         | (.fuel, s2) => (.fuel, s2)
         | (.raised k, s2) => catchLanding cfg ctx s.depth s.sp k s2)

/-- the state in which the driver starts an evaluation (backend.c: `eval_cost = CONFIG_INT (__MAX_EVAL_COST__)`,
    empty stacks, clear error state) -/
def St.start (cfg : Cfg) : St :=
  { cost := cfg.maxCost, depth := 0, sp := 0, es := 0 }

/-- one driver-started evaluation of `sh`: the entry function is applied (a frame), inside a driver-level context -/
def evaluate (cfg : Cfg) (fuel : Nat) (sh : Sh) : Out × St :=
  exec cfg fuel .driver (.call 0 sh) (St.start cfg)

/-- number of safe applies a run of the shape can make (an upper bound of the extra ticks) -/
def Sh.safeWeight : Sh → Nat
  | .safe b => b.safeWeight + 1
  | .call _ b => b.safeWeight
  | .catch_ b => b.safeWeight
  | .cb k b => k * b.safeWeight
  | .seq a b => a.safeWeight + b.safeWeight
  | _ => 0

end NV.C04
