/-
C04 — the value stack stays inside its allocation for every program shape of the limits machine.  All pushes of
the machine are checked (STACK_CHECK / CHECK_AND_PUSH: function locals) except the single `sp++` of do_catch,
which lands in the slack reset_interpreter leaves below the end (`size - 5`).

Unchecked *argument* pushes (F_PUSH sequences, merge_arg_lists, call_efun_callback arguments) are not part of the
machine: their overflow is the open finding of C01 and is not duplicated here.
-/
import NV.C04.Model

namespace NV.C04

/-- height up to which checked pushes may go: `end_of_stack - start_of_stack` -/
def spEnd (cfg : Cfg) : Int := cfg.stackSize - stackSlack

/-- between steps: at most `spEnd` values; at any time so far at most one more (do_catch's unchecked push) -/
def StackInv (cfg : Cfg) (s : St) : Prop := s.sp ≤ spEnd cfg ∧ s.maxSp ≤ spEnd cfg + 1

/-- a result: the high-water mark and the height are inside the slack; a completed step is back below the end -/
def StackRes (cfg : Cfg) (r : Out × St) : Prop :=
  r.2.maxSp ≤ spEnd cfg + 1 ∧ r.2.sp ≤ spEnd cfg + 1 ∧ (r.1 = .ok → r.2.sp ≤ spEnd cfg)

theorem StackRes_of_inv {cfg : Cfg} {s : St} (o : Out) (h : StackInv cfg s) : StackRes cfg (o, s) :=
  ⟨h.2, by show s.sp ≤ spEnd cfg + 1; have := h.1; omega, fun _ => h.1⟩

theorem StackRes_seqM {cfg : Cfg} {r : Out × St} {k : St → Out × St} (h1 : StackRes cfg r)
    (h2 : ∀ s1, StackInv cfg s1 → StackRes cfg (k s1)) : StackRes cfg (seqM r k) := by
  unfold seqM
  split
  · exact h2 _ ⟨h1.2.2 rfl, h1.1⟩
  · exact h1

theorem StackRes_tick {cfg : Cfg} (ctx : Ctx) {s : St} (h : StackInv cfg s) : StackRes cfg (tick cfg ctx s) := by
  unfold tick
  simp only
  split
  · exact StackRes_of_inv _ h
  · exact StackRes_of_inv _ h

theorem StackRes_ticksN {cfg : Cfg} (ctx : Ctx) (n : Nat) {s : St} (h : StackInv cfg s) :
    StackRes cfg (ticksN cfg ctx n s) := by
  induction n generalizing s with
  | zero => exact StackRes_of_inv _ h
  | succ n ih =>
    unfold ticksN
    have ht := StackRes_tick ctx h
    split
    · rename_i s1 heq; rw [heq] at ht; exact ih ⟨ht.2.2 rfl, ht.1⟩
    · exact ht

theorem StackRes_spin {cfg : Cfg} (ctx : Ctx) (n : Nat) {s : St} (h : StackInv cfg s) :
    StackRes cfg (spin cfg ctx n s) := by
  induction n generalizing s with
  | zero => exact StackRes_of_inv _ h
  | succ n ih =>
    unfold spin
    have ht := StackRes_tick ctx h
    split
    · rename_i s1 heq; rw [heq] at ht; exact ih ⟨ht.2.2 rfl, ht.1⟩
    · exact ht

theorem StackRes_pushFrame {cfg : Cfg} (ctx : Ctx) {s : St} (h : StackInv cfg s) :
    StackRes cfg (pushFrame cfg ctx s) := by
  unfold pushFrame
  split
  · exact StackRes_of_inv _ h
  · exact StackRes_of_inv _ h

/-- the checked push: `sp + n >= end_of_stack` is refused, so the new height is at most the end -/
theorem StackRes_pushChecked {cfg : Cfg} (ctx : Ctx) (n : Nat) {s : St} (h : StackInv cfg s) :
    StackRes cfg (pushChecked cfg ctx n s) := by
  unfold pushChecked
  split
  · exact StackRes_of_inv _ h
  · rename_i hlt
    have hle : s.sp + (n : Int) ≤ spEnd cfg := by unfold spEnd; omega
    have hm : (if s.sp + (n : Int) > s.maxSp then s.sp + (n : Int) else s.maxSp) ≤ spEnd cfg + 1 := by
      have := h.2
      split <;> omega
    exact ⟨hm, by show s.sp + (n : Int) ≤ spEnd cfg + 1; omega, fun _ => hle⟩

theorem StackRes_catchLanding {cfg : Cfg} (ctx : Ctx) (d0 : Int) (k : Kind) {s0 s : St} (h0 : StackInv cfg s0)
    (hm : s.maxSp ≤ spEnd cfg + 1) : StackRes cfg (catchLanding cfg ctx d0 s0.sp k s) := by
  unfold catchLanding
  have hp := h0.1
  have hmx : (pushUnchecked (leave s d0 s0.sp)).maxSp ≤ spEnd cfg + 1 := by
    show (if s0.sp + 1 > s.maxSp then s0.sp + 1 else s.maxSp) ≤ spEnd cfg + 1
    split <;> omega
  have hsp : (pushUnchecked (leave s d0 s0.sp)).sp ≤ spEnd cfg + 1 := by
    show s0.sp + 1 ≤ spEnd cfg + 1
    omega
  simp only
  split
  · exact ⟨hmx, hsp, fun h => by cases h⟩
  · split
    · exact ⟨hmx, hsp, fun h => by cases h⟩
    · exact ⟨hmx, by show s0.sp ≤ spEnd cfg + 1; omega, fun _ => hp⟩

/-- every shape keeps the value stack inside the slack, in every context, for every fuel -/
theorem exec_StackRes (cfg : Cfg) (fuel : Nat) (ctx : Ctx) (sh : Sh) (s : St) (h : StackInv cfg s) :
    StackRes cfg (exec cfg fuel ctx sh s) := by
  induction fuel generalizing ctx sh s with
  | zero => unfold exec; exact StackRes_of_inv _ h
  | succ f ih =>
    unfold exec
    cases sh with
    | skip => exact StackRes_of_inv _ h
    | work n => exact StackRes_ticksN ctx n h
    | spin => exact StackRes_spin ctx _ h
    | err => exact StackRes_of_inv _ h
    | throw_ =>
      cases ctx
      · exact StackRes_of_inv _ h
      · exact StackRes_of_inv _ h
      · exact StackRes_of_inv _ h
    | seq a b => exact StackRes_seqM (ih ctx a s h) (fun s1 h1 => ih ctx b s1 h1)
    | call locals body =>
      exact StackRes_seqM (StackRes_pushFrame ctx h) fun s1 h1 =>
        StackRes_seqM (StackRes_pushChecked ctx locals h1) fun s2 h2 =>
        StackRes_seqM (StackRes_ticksN ctx _ h2) fun s3 h3 =>
        StackRes_seqM (ih ctx body s3 h3) fun s4 h4 =>
        StackRes_seqM (StackRes_tick ctx h4) fun s5 h5 =>
          ⟨h5.2, by show s.sp ≤ spEnd cfg + 1; have := h.1; omega, fun _ => h.1⟩
    | recur locals => exact ih ctx _ s h
    | crecur => exact ih ctx _ s h
    | cb k body =>
      cases k with
      | zero => exact StackRes_of_inv _ h
      | succ k => exact StackRes_seqM (StackRes_tick ctx h) fun s0 h0 => StackRes_seqM (ih ctx _ s0 h0) (fun s1 h1 => ih ctx _ s1 h1)
    | safe body =>
      refine StackRes_seqM (StackRes_tick ctx h) (fun s h => ?_)
      simp only
      split
      · exact StackRes_of_inv _ h
      · have hi := ih .safe (.call 0 body) s h
        split
        · rename_i s1 heq; rw [heq] at hi
          exact ⟨hi.1, hi.2.1, fun _ => hi.2.2 rfl⟩
        · rename_i k s1 heq; rw [heq] at hi
          exact ⟨hi.1, by show s.sp ≤ spEnd cfg + 1; have := h.1; omega, fun _ => h.1⟩
        · rename_i s1 heq; rw [heq] at hi; exact hi
    | catch_ body =>
      simp only
      split
      · exact StackRes_of_inv _ h
      · have hi := ih .catch_ body (pushCatchFrame s) h
        split
        · rename_i s2 heq; rw [heq] at hi
          exact ⟨hi.1, by show s.sp ≤ spEnd cfg + 1; have := h.1; omega, fun _ => h.1⟩
        · rename_i s2 heq; rw [heq] at hi; exact hi
        · rename_i k s2 heq; rw [heq] at hi
          exact StackRes_catchLanding ctx _ k h hi.1

end NV.C04
