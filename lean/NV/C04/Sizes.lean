/-
C04 — executable model, part (b): the size DECISION of every value constructor, as
`(sizes of the operands, int64 arguments, configured limit) → error | size of the result`.

C integer arithmetic is modelled where the code casts or multiplies: `toSizeT` is the conversion of an `int64_t`
(or of the `int` limit) to `size_t` (modulo 2^64), `toInt32` the `(int)` cast of an `int64_t`, `toU16` the
`(unsigned short)` cast that fills the 16-bit `size` fields (width regenerated from the headers:
`Gen.C04.arraySizeBits`, `Gen.C04.bufferCastBits`).

Sources (repository state after the `fix:` commits of notes/C04.md):
  allocate_array / allocate_empty_array / add_array / slice_array / explode_string / implode_string   lib/lpc/array.c
  allocate_buffer                                             lib/lpc/buffer.c   (buffer `+`: src/interpret.c F_ADD)
  find_for_insert / load_mapping_from_aggregate / add_mapping lib/lpc/mapping.c
  SVALUE_STRING_JOIN / EXTEND_SVALUE_STRING / SVALUE_STRING_ADD_LEFT   src/interpret.h
  f_repeat_string / f_replace_string                          lib/efuns/string.c
  outbuf_extend (sprintf's buffer)                            src/outbuf.c, lib/efuns/sprintf.c
-/
import NV.Gen.C04

namespace NV.C04

open NV.Gen.C04

/-- result of a constructor: an LPC error, or a value whose `sizeof` / `strlen` is `size` -/
inductive SzR
  | err
  | ok (size : Nat)
  | zero                 -- the efun gave up and returned 0 instead of a value (replace_string)
  deriving Repr, DecidableEq

def two64 : Nat := 2 ^ 64

/-- conversion of a signed C integer to `size_t` -/
def toSizeT (x : Int) : Nat := (x % (two64 : Int)).toNat

/-- the `(int)` cast of an `int64_t` -/
def toInt32 (x : Int) : Int :=
  let m := x % (2 ^ intBits : Int)                  -- width of `int` regenerated (Gen.C04.intBits)
  if m ≥ 2 ^ (intBits - 1) then m - 2 ^ intBits else m

/-- the `(unsigned short)` cast that fills `array_t.size` -/
def toArrSize (n : Nat) : Nat := n % 2 ^ arraySizeBits

/-- the `(unsigned short)` cast in allocate_buffer (the field itself is an unsigned int) -/
def toBufSize (n : Nat) : Nat := n % 2 ^ bufferCastBits

/-- allocate_array (size_t n) / allocate_empty_array, called with an `int64_t` (f_allocate: `sp->u.number`):
    `if (n > (size_t) CONFIG_INT (__MAX_ARRAY_SIZE__)) error (...)`; `p->size = (unsigned short) n` -/
def allocateArray (n : Int) (limit : Int) : SzR :=
  let u := toSizeT n
  if u > toSizeT limit then .err else .ok (toArrSize u)

/-- F_AGGREGATE: `allocate_empty_array ((int) offset)`, offset an unsigned short element count -/
def aggregateArray (n : Nat) (limit : Int) : SzR := allocateArray (n % 2 ^ aggregateCountBits : Nat) limit

/-- add_array (p, r): `res = p->size + r->size; if (res < 0 || res > MAX) error`; sizes are 16-bit fields -/
def addArray (a b : Nat) (limit : Int) : SzR :=
  if a = 0 then .ok b
  else if b = 0 then .ok a
  else
    let res : Int := a + b
    if res < 0 ∨ res > limit then .err else .ok (toArrSize (a + b))

/-- range opcodes on arrays: the int64 bounds are clamped while still 64 bits wide (`from < 0 -> 0`,
    `to >= size -> size - 1`, `to < -1 -> -1`, `from > size -> size`; fix 3799d77/b585239 in /repo), then
    slice_array (p, (int) from, (int) to) - the casts are the identity on the clamped values -/
def sliceArray (size : Nat) (lo hi : Int) : SzR :=
  let f := lo
  let t := hi
  let f := if f < 0 then 0 else f
  let t := if t ≥ size then (size : Int) - 1 else t
  let t := if t < -1 then -1 else t
  let f := if f > size then (size : Int) else f
  if f > t then .ok 0 else .ok (toArrSize (t - f + 1).toNat)

/-- explode_string: the number of pieces is clamped to MAX_ARRAY_SIZE (never an error); `pieces` is the number of
    items the string would split into -/
def explodeArray (pieces : Nat) (limit : Int) : SzR :=
  if (pieces : Int) > limit then allocateArray limit limit else allocateArray pieces limit

/-- allocate_buffer (size_t size), called with an `int64_t` (f_allocate_buffer) -/
def allocateBuffer (n : Int) (limit : Int) : SzR :=
  let u := toSizeT n
  if u > toSizeT limit then .err else .ok (toBufSize u)

/-- buffer + buffer: `allocate_buffer (a->size + b->size)` (unsigned int addition) -/
def addBuffer (a b : Nat) (limit : Int) : SzR :=
  allocateBuffer (((a + b) % 2 ^ 32 : Nat)) limit

/-- find_for_insert of a key that is not present: `if (++m->count > MAX) { m->count--; error }` -/
def mapInsert (count : Nat) (isNew : Bool) (limit : Int) : SzR :=
  if !isNew then .ok count
  else if ((count + 1 : Nat) : Int) > limit then .err else .ok (count + 1)

/-- insertion of `k` new keys one after the other (load_mapping_from_aggregate / add_to_mapping /
    unique_add_to_mapping count like this: `if (++count > MAX) mapping_too_large ()`) -/
def mapInsertMany (count : Nat) : Nat → Int → SzR
  | 0, _ => .ok count
  | k + 1, limit =>
    match mapInsert count true limit with
    | .ok c => mapInsertMany c k limit
    | _ => .err

/-- ([ k1 : v1, ... ]) with `distinct` different keys -/
def mapAggregate (distinct : Nat) (limit : Int) : SzR := mapInsertMany 0 distinct limit

/-- m1 + m2 (add_mapping): the larger one is copied, the keys of the other that are not in it are inserted -/
def mapAdd (c1 c2 common : Nat) (limit : Int) : SzR :=
  if c1 ≥ c2 then mapInsertMany c1 (c2 - common) limit else mapInsertMany c2 (c1 - common) limit

/-- string + string, string += x (the three join macros after the fix):
    `len = a + b` in size_t; `if (len > (size_t) MAX) error` -/
def stringJoin (a b : Nat) (limit : Int) : SzR :=
  let len := (a + b) % two64
  if len > toSizeT limit then .err else .ok len

/-- repeat_string (str, count) after the fix -/
def repeatString (len : Nat) (count : Int) (limit : Int) : SzR :=
  if count ≤ 0 then .ok 0
  else if count = 1 then .ok len
  else if len = 0 then .ok 0
  else
    let rep := toSizeT count
    if rep > toSizeT limit / len then .err else .ok ((len * rep) % two64)

/-- repeat_string before the fix: `repeat` read into a size_t, `if (len * repeat > MAX)` with a wrapping product;
    `.ok n` means: n + 1 bytes allocated, `len * repeat` bytes copied -/
def repeatStringOld (len : Nat) (count : Int) (limit : Int) : SzR :=
  let rep := toSizeT count
  if rep = 0 then .ok 0
  else if rep = 1 then .ok len
  else if (len * rep) % two64 > toSizeT limit then .err else .ok ((len * rep) % two64)

/-- implode_string after the fix: `total` characters in `num` strings joined with a `delLen` character delimiter -/
def implodeString (total num delLen : Nat) (limit : Int) : SzR :=
  if num = 0 then .ok 0
  else
    let size := (total + (num - 1) * delLen) % two64
    if size > toSizeT limit then .err else .ok size

/-- sprintf's output buffer (outbuf_extend + add of `len` characters): `real` characters so far (0 = no buffer yet).
    returns the new `real`, or an error ("BUFF_SIZE overflowed") -/
def sprintfAdd (real len : Nat) : SzR :=
  if real = 0 then .ok len                       -- first chunk: new_string (len)
  else if real + len ≤ ushrtMax then .ok (real + len)
  else .err                                      -- outbuf_extend returns fewer than len: sprintf_error

/-! ### constructors whose result is a copy or a part of an operand -/

/-- copy (v), sort_array, map_array / map_mapping, lower_case / upper_case / capitalize: the result has the size of
    the operand (copy_array / copyMapping / string_copy of a value that exists) -/
def sameSize (n : Nat) : SzR := .ok n

/-- filter_array / filter_mapping, unique_array (number of groups), array `-` and `&`: `kept` of the `n` elements -/
def partOf (n kept : Nat) : SzR := .ok (min kept n)

/-- keys (m) / values (m): `allocate_empty_array (m->count)` -/
def mapKeys (count : Nat) (arrayLimit : Int) : SzR := allocateArray count arrayLimit

/-- allocate_mapping (n): an empty mapping whatever n is (n only sizes the hash table, clamped to MAX_MAPPING_SIZE) -/
def allocateMapping (_n : Int) : SzR := .ok 0

/-- string_print_formatted's final test (fix 3738abb): the finished result must respect MaxStringLength too -/
def sprintfFinish (real : Nat) (limit : Int) : SzR :=
  if real > toSizeT limit then .err else .ok real

/-- replace_string, replacement longer than a pattern of two or more characters: the decision sequence of the scan
    after the fix.  `dlen` characters are in the MAX-sized destination.  Each step is guarded as in the code. -/
inductive RStep
  | skip (k : Nat)       -- k characters copied by the skip loop        guard `MAX - dlen <= k`
  | repl (rlen : Nat)    -- one replacement of rlen characters          guard `MAX - dlen <= rlen`
  | copy1                -- one character copied                        guard `MAX - dlen <= 1`
  deriving Repr, DecidableEq

/-- characters a step writes -/
def RStep.len : RStep → Nat
  | .skip k => k
  | .repl r => r
  | .copy1 => 1

/-- run the steps; `none` = the efun gave up (returns 0); `some dlen` otherwise -/
def replaceRun (limit : Nat) : List RStep → Nat → Option Nat
  | [], dlen => some dlen
  | st :: rest, dlen =>
    if limit - dlen ≤ st.len then none else replaceRun limit rest (dlen + st.len)

/-- the final tail copy: `if ((ptrdiff_t) (MAX - dlen) <= slimit - src) give up` -/
def replaceFinish (limit : Nat) (tail : Nat) : Option Nat → SzR
  | none => .zero
  | some dlen => if limit - dlen ≤ tail then .zero else .ok (dlen + tail)

/-- the steps for the family used by the harness: "c"*a + "ab"*b, pattern "ab", replacement of r > 2 characters -/
def replaceFamilySteps (a b r : Nat) : List RStep :=
  -- the scan skips two characters at a time over the c's (one when the probe sees the 'a'), then replaces
  let skips := if b = 0 then (List.replicate (a / 2) (RStep.skip 2))
               else List.replicate (a / 2) (RStep.skip 2) ++ (if a % 2 = 1 then [RStep.skip 1] else [])
  skips ++ List.replicate b (RStep.repl r)

def replaceFamily (a b r : Nat) (limit : Nat) : SzR :=
  let tail := if b = 0 then a % 2 else 0
  replaceFinish limit tail (replaceRun limit (replaceFamilySteps a b r) 0)

/-! ### round 4: mapping * mapping and the efuns that were "not analysed" (regexp, reg_assoc, restore_variable) -/

/-- m1 * m2 and m1 *= m2 (compose_mapping, lib/lpc/mapping.c): every node of (a copy of) m1 whose value is not a key of
    m2 is unlinked and counted in the local `deleted`, then `m1->count -= deleted`.  `kept` nodes survive.  `bits` is the
    width of `deleted` (an `unsigned short` before the fix, an `unsigned int` now: `composeDeletedBits`). -/
def composeMappingW (bits : Nat) (c1 kept : Nat) : SzR :=
  let deleted := c1 - min kept c1
  .ok (c1 - deleted % 2 ^ bits)

def composeMapping (c1 kept : Nat) : SzR := composeMappingW composeDeletedBits c1 kept

/-- regexp (string *, pattern, flag) (match_regexp, lib/lpc/array.c): `allocate_empty_array (num_match << flag)` with
    `flag &= 1` (flag 1: an index is added per match) -/
def matchRegexp (matched : Nat) (flag : Int) (limit : Int) : SzR :=
  allocateArray ((matched <<< (flag.toNat % 2) : Nat)) limit

/-- reg_assoc: both result arrays are `allocate_empty_array (2 * num_match + 1)` -/
def regAssoc (numMatch : Nat) (limit : Int) : SzR := allocateArray ((2 * numMatch + 1 : Nat)) limit

/-- restore_variable of an array text: `allocate_array (size)` with the element count restore_size found -/
def restoreArray (n : Nat) (limit : Int) : SzR := allocateArray (n : Nat) limit

/-- restore_variable of a mapping text with n distinct keys: `if (++count > MAX) mapping_too_large ()` per pair -/
def restoreMapping (n : Nat) (limit : Int) : SzR := mapInsertMany 0 n limit

/-! ### regexp matching is charged against the evaluation cost (lib/efuns/regexp.c regexec, fix of round 5) -/

/-- regexec (): `steps` node visits are needed; the budget is `cost * REGEXP_STEPS_PER_TICK` visits (cost > 1) or one tick's
    worth; returns (eval_cost afterwards, node visits made) -/
def regexCharge (cost : Int) (steps : Nat) : Int × Nat :=
  let ticks : Int := if cost > 1 then cost else 1
  let budget : Nat := (ticks * regexpStepsPerTick).toNat
  let made := min steps budget
  let used : Int := ((made / regexpStepsPerTick : Nat) : Int)
  (if cost > 1 then (if used ≥ cost - 1 then 1 else cost - used) else cost, made)

/-- node visits of "(a|aa)*b" against "a" * n + "cb": at least the Fibonacci number (each position is reached from the one and
    from the two before it), at most 16 times the one three further on -/
def fibAux : Nat → Nat × Nat
  | 0 => (1, 1)
  | n + 1 => ((fibAux n).2, (fibAux n).1 + (fibAux n).2)

def fibN (n : Nat) : Nat := (fibAux n).1

def rxLower (n : Nat) : Nat := fibN n
def rxUpper (n : Nat) : Nat := 16 * fibN (n + 3)

/-- outcome of an evaluation that makes this one match and returns: `some true` = the budget is certainly used up (the next
    instruction raises the error), `some false` = it certainly is not, `none` = between the two bounds -/
def rxExpires (n : Nat) (cost : Int) : Option Bool :=
  if rxLower n ≥ (cost * regexpStepsPerTick).toNat then some true
  else if (rxUpper n : Int) + 100 * regexpStepsPerTick < (cost - 100) * regexpStepsPerTick then some false
  else none

/-- unique_mapping (array, f) (f_unique_mapping, lib/lpc/mapping.c; fix 115d78e): one key per distinct result of the callback,
    `if (numkeys > MAX) mapping_too_large ()` before the mapping is built (it is filled without find_for_insert) -/
def uniqueMapping (n groups : Nat) (limit : Int) : SzR :=
  let keys := min groups n
  if (keys : Int) > limit then .err else .ok keys

/-- the same before the fix: no test -/
def uniqueMappingOld (n groups : Nat) : SzR := .ok (min groups n)

end NV.C04
