/-
C04 — the model satisfies the size clause of the oracle (`szCmd_satisfies_spec`).

The line judge flags `sz ok n` when n exceeds `limitOf lim <constructor>`.  Here: for every constructor command the
harness understands, every argument list and every set of
limits (C ints; MaxStringLength at least 4 so that the literal operands of the LPC side - "x", "a,", "({})" - are
themselves legal strings), the size the model reports is within that limit.  The statement is over the structured
command (`Ctor`), the name lookup is `Ctor.ofName`.
-/
import NV.C04.Drive
import NV.C04.LemmasSizes
import NV.C04.LemmasSave

namespace NV.C04

open NV.Gen.C04

/-- the size clause for one model result -/
def Bnd (b : Int) (r : SzR) : Prop := ∀ n, r = .ok n → (n : Int) ≤ b

theorem Bnd_err (b : Int) : Bnd b .err := fun _ h => by cases h
theorem Bnd_zero (b : Int) : Bnd b .zero := fun _ h => by cases h

theorem Bnd_andThen {b : Int} {r : SzR} {k : Nat → SzR} (h : ∀ m, r = .ok m → Bnd b (k m)) : Bnd b (andThen r k) := by
  cases r with
  | ok m => exact h m rfl
  | err => exact Bnd_err b
  | zero => exact Bnd_zero b

theorem ar1_bnd {b : Int} {f : Int → SzR} {args : List Int} {r : SzR} (h : ∀ a, Bnd b (f a))
    (he : ar1 f args = some r) : Bnd b r := by
  unfold ar1 at he
  split at he
  · injection he with he; subst he; exact h _
  · cases he

theorem ar2_bnd {b : Int} {f : Int → Int → SzR} {args : List Int} {r : SzR} (h : ∀ a c, Bnd b (f a c))
    (he : ar2 f args = some r) : Bnd b r := by
  unfold ar2 at he
  split at he
  · injection he with he; subst he; exact h _ _
  · cases he

theorem ar3_bnd {b : Int} {f : Int → Int → Int → SzR} {args : List Int} {r : SzR} (h : ∀ a c d, Bnd b (f a c d))
    (he : ar3 f args = some r) : Bnd b r := by
  unfold ar3 at he
  split at he
  · injection he with he; subst he; exact h _ _ _
  · cases he

/-- the limits of a case: C ints, and a MaxStringLength that admits the literal operands -/
structure LimsOk (l : Limits) : Prop where
  arr : LimitOk l.maxArray
  buf : LimitOk l.maxBuffer
  map : LimitOk l.maxMapping
  str : LimitOk l.maxString
  str4 : 4 ≤ l.maxString

theorem strOf_bnd {l : Limits} (hl : LimsOk l) {n : Int} {p : Nat} (h : strOf l n = .ok p) : (p : Int) ≤ l.maxString :=
  repeatString_bounded hl.str (by have := hl.str4; omega) h

theorem foldl_join_bnd (lS : Int) (hS : LimitOk lS) : ∀ (xs : List Nat) (init : SzR), Bnd lS init →
    Bnd lS (xs.foldl (fun acc _ => andThen acc fun n => stringJoin n n lS) init) := by
  intro xs
  induction xs with
  | nil => intro init h; exact h
  | cons x rest ih =>
    intro init _
    exact ih _ (Bnd_andThen fun m _ => fun n hn => stringJoin_bounded hS hn)

theorem uniqueMapping_bounded {n g : Nat} {l : Int} {sz : Nat} (h : uniqueMapping n g l = .ok sz) : (sz : Int) ≤ l := by
  unfold uniqueMapping at h
  simp only at h
  by_cases hc : ((min g n : Nat) : Int) > l
  · rw [if_pos hc] at h; cases h
  · rw [if_neg hc] at h; injection h with h; omega

theorem valNestedMap_nest (k : Nat) : (valNestedMap k).nest = k + 1 := by
  induction k with
  | zero => simp [valNestedMap, Val.nest]
  | succ k ih => simp [valNestedMap, Val.nest, ih]

/-- save_variable only succeeds on a value svalue_save_size accepts -/
theorem saveVariable_ok_depth {v : Val} {l : Int} {n : Nat} (h : saveVariable v l = .ok n) :
    v.nest = 0 ∨ 0 + v.nest ≤ maxSaveDepth := by
  apply (saveSize_isSome v 0).mp
  unfold saveVariable at h
  split at h
  · cases h
  · rename_i sz heq; rw [heq]; rfl

theorem valNested_nest (k : Nat) : (valNested k).nest = k + 1 := by
  induction k with
  | zero => simp [valNested, Val.nest]
  | succ k ih => simp [valNested, Val.nest, ih]

/-- **szCmd_satisfies_spec** (structured form) -/
theorem szCmdC_satisfies_spec (l : Limits) (hl : LimsOk l) (c : Ctor) (args : List Int) (r : SzR)
    (h : szCmdC l c args = some r) : Bnd (limitOfC l c) r := by
  have hA := hl.arr
  have hB := hl.buf
  have hM := hl.map
  have hS := hl.str
  have h0M : (((0 : Nat) : Nat) : Int) ≤ l.maxMapping := by have := hM.1; omega
  cases c <;> simp only [szCmdC, limitOfC] at h ⊢
  case allocate => exact ar1_bnd (fun _ _ hn => allocateArray_bounded hA hn) h
  case aggregate => exact ar1_bnd (fun _ _ hn => aggregateArray_bounded hA hn) h
  case add_array =>
    exact ar2_bnd (fun _ _ => Bnd_andThen fun _ hp => Bnd_andThen fun _ hq => fun _ hn =>
      addArray_bounded (allocateArray_bounded hA hp) (allocateArray_bounded hA hq) hn) h
  case add_array_self =>
    exact ar1_bnd (fun _ => Bnd_andThen fun _ hp => fun _ hn =>
      addArray_bounded (allocateArray_bounded hA hp) (allocateArray_bounded hA hp) hn) h
  case slice =>
    exact ar3_bnd (fun _ _ _ => Bnd_andThen fun _ hp => fun _ hn => by
      have := sliceArray_bounded hn; have := allocateArray_bounded hA hp; omega) h
  case explode =>
    refine ar1_bnd (fun pieces => ?_) h
    split
    · exact fun _ hn => explodeArray_bounded hA hn
    · exact Bnd_andThen fun _ _ => Bnd_andThen fun _ _ => fun _ hn => explodeArray_bounded hA hn
  case explode0 => exact ar1_bnd (fun _ => Bnd_andThen fun _ _ => fun _ hn => explodeArray_bounded hA hn) h
  case allocate_buffer => exact ar1_bnd (fun _ _ hn => allocateBuffer_bounded hB hn) h
  case add_buffer =>
    exact ar2_bnd (fun _ _ => Bnd_andThen fun _ _ => Bnd_andThen fun _ _ => fun _ hn => addBuffer_bounded hB hn) h
  case map_insert =>
    exact ar2_bnd (fun _ _ => Bnd_andThen fun _ hc => fun _ hn =>
      mapInsert_bounded (mapInsertMany_bounded h0M hc) hn) h
  case map_aggregate => exact ar1_bnd (fun _ _ hn => mapAggregate_bounded hM hn) h
  case map_add =>
    exact ar3_bnd (fun _ _ _ => Bnd_andThen fun _ hx => Bnd_andThen fun _ hy => fun _ hn =>
      mapAdd_bounded (mapInsertMany_bounded h0M hx) (mapInsertMany_bounded h0M hy) hn) h
  case join =>
    exact ar2_bnd (fun _ _ => Bnd_andThen fun _ _ => Bnd_andThen fun _ _ => fun _ hn => stringJoin_bounded hS hn) h
  case join_eq =>
    exact ar2_bnd (fun _ _ => Bnd_andThen fun _ _ => Bnd_andThen fun _ _ => fun _ hn => stringJoin_bounded hS hn) h
  case join_self =>
    exact ar2_bnd (fun _ _ => Bnd_andThen fun p hp => foldl_join_bnd l.maxString hS _ _
      (fun n hn => by injection hn with hn; subst hn; exact strOf_bnd hl hp)) h
  case join_num => exact ar2_bnd (fun _ _ => Bnd_andThen fun _ _ => fun _ hn => stringJoin_bounded hS hn) h
  case num_join => exact ar2_bnd (fun _ _ => Bnd_andThen fun _ _ => fun _ hn => stringJoin_bounded hS hn) h
  case repeat_ =>
    exact ar2_bnd (fun _ _ => Bnd_andThen fun _ hp => fun _ hn => repeatString_bounded hS (strOf_bnd hl hp) hn) h
  case implode =>
    refine ar3_bnd (fun _ _ _ => Bnd_andThen fun _ _ => Bnd_andThen fun _ _ => Bnd_andThen fun _ _ => ?_) h
    split
    · exact Bnd_err _
    · exact fun _ hn => implodeString_bounded hS hn
  case replace =>
    exact ar3_bnd (fun _ _ _ => Bnd_andThen fun _ _ => Bnd_andThen fun _ _ => Bnd_andThen fun _ _ => Bnd_andThen fun _ _ =>
      fun _ hn => by
        unfold replaceFamily at hn
        have := replaceFinish_bounded hn; have := hS.1; omega) h
  case replace1 =>
    exact ar3_bnd (fun _ _ _ => Bnd_andThen fun _ _ => Bnd_andThen fun _ _ => Bnd_andThen fun _ _ => Bnd_andThen fun _ _ =>
      fun _ hn => by have := replaceFinish_bounded hn; have := hS.1; omega) h
  case copy_array =>
    exact ar1_bnd (fun _ => Bnd_andThen fun p hp => fun _ hn => by
      have := sameSize_eq p hn; have := allocateArray_bounded hA hp; omega) h
  case copy_mapping =>
    exact ar1_bnd (fun _ => Bnd_andThen fun p hp => fun _ hn => by
      have := sameSize_eq p hn; have := mapInsertMany_bounded h0M hp; omega) h
  case sort_array =>
    exact ar1_bnd (fun _ => Bnd_andThen fun p hp => fun _ hn => by
      have := sameSize_eq p hn; have := allocateArray_bounded hA hp; omega) h
  case map_array =>
    exact ar1_bnd (fun _ => Bnd_andThen fun p hp => fun _ hn => by
      have := sameSize_eq p hn; have := allocateArray_bounded hA hp; omega) h
  case lower_case =>
    exact ar1_bnd (fun _ => Bnd_andThen fun p hp => fun _ hn => by
      have := sameSize_eq p hn; have := strOf_bnd hl hp; omega) h
  case filter_array =>
    exact ar2_bnd (fun _ _ => Bnd_andThen fun p hp => fun _ hn => by
      have := partOf_le p _ hn; have := allocateArray_bounded hA hp; omega) h
  case unique_array =>
    exact ar2_bnd (fun _ _ => Bnd_andThen fun p hp => fun _ hn => by
      have := partOf_le p _ hn; have := allocateArray_bounded hA hp; omega) h
  case array_sub =>
    exact ar2_bnd (fun _ _ => Bnd_andThen fun p hp => Bnd_andThen fun _ _ => fun _ hn => by
      have := partOf_le p _ hn; have := allocateArray_bounded hA hp; omega) h
  case array_and =>
    exact ar2_bnd (fun _ _ => Bnd_andThen fun p hp => Bnd_andThen fun _ _ => fun _ hn => by
      have := partOf_le p _ hn; have := allocateArray_bounded hA hp; omega) h
  case filter_mapping =>
    exact ar2_bnd (fun _ _ => Bnd_andThen fun p hp => fun _ hn => by
      have := partOf_le p _ hn; have := mapInsertMany_bounded h0M hp; omega) h
  case map_mapping =>
    exact ar1_bnd (fun _ => Bnd_andThen fun p hp => fun _ hn => by
      have := sameSize_eq p hn; have := mapInsertMany_bounded h0M hp; omega) h
  case keys => exact ar1_bnd (fun _ => Bnd_andThen fun _ _ => fun _ hn => mapKeys_bounded hA hn) h
  case values => exact ar1_bnd (fun _ => Bnd_andThen fun _ _ => fun _ hn => mapKeys_bounded hA hn) h
  case allocate_mapping =>
    exact ar1_bnd (fun _ _ hn => by unfold allocateMapping at hn; injection hn with hn; have := hM.1; omega) h
  case map_compose =>
    refine ar3_bnd (fun c1 c2 common => ?_) h
    unfold szComposeBody
    exact Bnd_andThen fun x hx => Bnd_andThen fun _ _ => fun _ hn => by
      have := composeMappingW_le (bits := composeDeletedBits) hn; have := mapInsertMany_bounded h0M hx; omega
  case map_compose_eq =>
    refine ar3_bnd (fun c1 c2 common => ?_) h
    unfold szComposeBody
    exact Bnd_andThen fun x hx => Bnd_andThen fun _ _ => fun _ hn => by
      have := composeMappingW_le (bits := composeDeletedBits) hn; have := mapInsertMany_bounded h0M hx; omega
  case save_array => exact ar1_bnd (fun _ => Bnd_andThen fun _ _ => fun _ hn => saveVariable_bounded hS hn) h
  case save_string => exact ar2_bnd (fun _ _ => Bnd_andThen fun _ _ => fun _ hn => saveVariable_bounded hS hn) h
  case save_mapping => exact ar1_bnd (fun _ => Bnd_andThen fun _ _ => fun _ hn => saveVariable_bounded hS hn) h
  case save_nested => exact ar1_bnd (fun _ _ hn => saveVariable_bounded hS hn) h
  case copy_nested =>
    refine ar1_bnd (fun d => ?_) h
    split
    · rename_i hok
      intro n hn
      injection hn with hn
      subst hn
      have h1 := (saveSize_isSome (valNested (d.toNat - 1)) 0).mp (by simpa [deepCopyOk] using hok)
      rw [valNested_nest] at h1
      have h25 : 1 ≤ maxSaveDepth := by decide
      omega
    · exact Bnd_err _
  case restore_nested =>
    refine ar1_bnd (fun d => Bnd_andThen fun _ _ => Bnd_andThen fun _ _ => Bnd_andThen fun _ _ => Bnd_andThen fun _ _ => ?_) h
    split
    · rename_i hok
      intro n hn
      injection hn with hn
      subst hn
      have h1 := (saveSize_isSome (valNested (d.toNat - 1)) 0).mp (by rw [← restoreWalk_eq]; exact hok)
      rw [valNested_nest] at h1
      have h25 : 1 ≤ maxSaveDepth := by decide
      omega
    · exact Bnd_err _
  case restore_array =>
    exact ar1_bnd (fun _ => Bnd_andThen fun _ _ => Bnd_andThen fun _ _ => Bnd_andThen fun _ _ => fun _ hn =>
      allocateArray_bounded hA hn) h
  case restore_mapping =>
    exact ar1_bnd (fun _ => Bnd_andThen fun _ _ => Bnd_andThen fun _ _ => fun _ hn => mapInsertMany_bounded h0M hn) h
  case regexp =>
    exact ar3_bnd (fun _ _ _ => Bnd_andThen fun _ _ => fun _ hn => allocateArray_bounded hA hn) h
  case reg_assoc => exact ar1_bnd (fun _ => Bnd_andThen fun _ _ => fun _ hn => allocateArray_bounded hA hn) h
  case unique_mapping =>
    exact ar2_bnd (fun _ _ => Bnd_andThen fun _ _ => fun _ hn => uniqueMapping_bounded hn) h
  case save_nested_map => exact ar1_bnd (fun _ _ hn => saveVariable_bounded hS hn) h
  case save_depth =>
    refine ar1_bnd (fun d => Bnd_andThen fun _ hs => fun n hn => ?_) h
    injection hn with hn
    subst hn
    have h1 := saveVariable_ok_depth hs
    rw [valNested_nest] at h1
    have h25 : 1 ≤ maxSaveDepth := by decide
    omega
  case save_depth_map =>
    refine ar1_bnd (fun d => Bnd_andThen fun _ hs => fun n hn => ?_) h
    injection hn with hn
    subst hn
    have h1 := saveVariable_ok_depth hs
    rw [valNestedMap_nest] at h1
    have h25 : 1 ≤ maxSaveDepth := by decide
    omega
  case sprintf_pad =>
    refine ar2_bnd (fun _ _ => Bnd_andThen fun _ _ => ?_) h
    split
    · exact Bnd_andThen fun _ _ => fun _ hn => sprintfFinish_bounded hS hn
    · split
      · exact Bnd_err _
      · exact fun _ hn => sprintfFinish_bounded hS hn
  case sprintf =>
    exact ar2_bnd (fun _ _ => Bnd_andThen fun _ _ => Bnd_andThen fun _ _ => Bnd_andThen fun _ _ => Bnd_andThen fun _ _ =>
      fun _ hn => sprintfFinish_bounded hS hn) h

/-- **szCmd_satisfies_spec**: by name, as the driver and the line judge use it - whatever `sz` command the model
    answers with `sz ok n`, the oracle's size clause (`n > limitOf lim ctor`) does not fire -/
theorem szCmd_satisfies_spec (l : Limits) (hl : LimsOk l) (ctor : String) (args : List Int) (n : Nat)
    (h : szCmd l ctor args = some (.ok n)) : ¬ ((n : Int) > limitOf l ctor) := by
  unfold szCmd at h
  unfold limitOf
  cases hc : Ctor.ofName ctor with
  | none => rw [hc] at h; cases h
  | some c =>
    rw [hc] at h
    have := szCmdC_satisfies_spec l hl c args _ h n rfl
    simp only
    omega

/-- non-vacuity: the default limits of the driver satisfy the hypotheses, and commands do report sizes -/
example : LimsOk ({} : Limits) :=
  { arr := by unfold LimitOk; decide, buf := by unfold LimitOk; decide, map := by unfold LimitOk; decide,
    str := by unfold LimitOk; decide, str4 := by decide }
example : szCmd {} "add_array" [60, 40] = some (.ok 100) ∧ szCmd { maxArray := 100 } "add_array" [60, 41] = some .err := by decide

end NV.C04
