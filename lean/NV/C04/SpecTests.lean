/-
C04 — the oracle rejects what it should reject: negative (and a few positive) examples for every clause of
NV/C04/Spec.lean.  The structured clause (`judgeEv`) is checked by the kernel (`decide`); the line-level clauses run
the compiled oracle (`#guard`), the same code `nvdrive C04 judge` runs.
-/
import NV.C04.Spec
import NV.C04.Drive

namespace NV.C04

/-! ### judgeEv: a catch that completed with a limit error -/
example : judgeEv [.afterCatch .cost] ≠ [] := by decide
example : judgeEv [.afterCatch .deep] ≠ [] := by decide
example : judgeEv [.afterCatch .stack] ≠ [] := by decide
example : judgeEv [.afterCatch .plain, .safeSwallowed .cost, .afterCatch .cost, .afterCatch .thrown] ≠ [] := by decide
example : judgeEv [.afterCatch .plain, .afterCatch .thrown, .safeSwallowed .cost, .safeSwallowed .deep] = [] := by decide

def lim0 : Limits := { cost := 2000, depth := 20, stack := 300, maxArray := 100, maxBuffer := 100, maxMapping := 100,
                       maxString := 1000, catchDepth := 1 }

def judgeAll (lim : Limits) (nEv : Nat) (ctors : List String) (impl : List String) : List String :=
  judgeEnd (impl.foldl judgeLine { lim := lim, pendingEv := nEv, pendingSz := ctors })

/-! ### a clean trace is accepted -/
#guard judgeAll lim0 1 [] ["after-catch plain", "r ret 0",
  "obs ticks=1500 maxcsp=19 maxsp=290 csp=-1 sp=-1 cost=2000 depth=20 stack=300"] == []

/-! ### the "Can't catch ..." texts count as limit errors when a catch returns them -/
#guard judgeAll lim0 1 [] ["after-catch cc-cost", "r ret 0"] != []
#guard judgeAll lim0 1 [] ["after-catch cc-deep", "r ret 0"] != []
#guard judgeAll lim0 1 [] ["after-catch stack", "r ret 0"] != []
#guard judgeAll lim0 1 [] ["after-catch nonsense", "r ret 0"] != []

/-! ### the evaluation must end, with both stacks unwound -/
#guard judgeAll lim0 1 [] [] != []
#guard judgeAll lim0 2 [] ["r ret 0"] != []
#guard judgeAll lim0 1 [] ["crash timeout"] != []
#guard judgeAll lim0 1 [] ["sanitizer ERROR: AddressSanitizer: heap-buffer-overflow", "crash exit 1"] != []
#guard judgeAll lim0 1 [] ["r err es=2", "obs ticks=2000 maxcsp=3 maxsp=7 csp=0 sp=-1 cost=2000 depth=20 stack=300"] != []
#guard judgeAll lim0 1 [] ["r err es=2", "obs ticks=2000 maxcsp=3 maxsp=7 csp=-1 sp=2 cost=2000 depth=20 stack=300"] != []

/-! ### instruction, depth and stack bounds on the measured numbers -/
#guard judgeAll lim0 1 [] ["r ret 0", "obs ticks=2501 maxcsp=3 maxsp=7 csp=-1 sp=-1 cost=2000 depth=20 stack=300 handlers=2"] != []
#guard judgeAll lim0 1 [] ["r ret 0", "obs ticks=2500 maxcsp=3 maxsp=7 csp=-1 sp=-1 cost=2000 depth=20 stack=300 handlers=2"] == []
-- a normal return after the budget was used up (a swallowed expiry): flagged; an error return with the same numbers is not
#guard judgeAll lim0 1 [] ["r ret 0", "obs ticks=2000 maxcsp=3 maxsp=7 csp=-1 sp=-1 cost=2000 depth=20 stack=300 maxtouch=-1 cost0=2000"] != []
#guard judgeAll lim0 1 [] ["r ret 0", "obs ticks=1999 maxcsp=3 maxsp=7 csp=-1 sp=-1 cost=2000 depth=20 stack=300 maxtouch=-1 cost0=2000"] == []
#guard judgeAll lim0 1 [] ["r err es=2", "obs ticks=2030 maxcsp=3 maxsp=7 csp=-1 sp=-1 cost=2000 depth=20 stack=300 maxtouch=-1 cost0=2000"] == []
-- a slot at or above the StackSize of the case was written between two fetches
#guard judgeAll lim0 1 [] ["r ret 0", "obs ticks=100 maxcsp=3 maxsp=7 csp=-1 sp=-1 cost=2000 depth=20 stack=300 maxtouch=300"] != []
#guard judgeAll lim0 1 [] ["r ret 0", "obs ticks=100 maxcsp=3 maxsp=7 csp=-1 sp=-1 cost=2000 depth=20 stack=300 maxtouch=-1"] == []
#guard judgeAll lim0 1 [] ["r err es=1", "obs ticks=50 maxcsp=20 maxsp=7 csp=-1 sp=-1 cost=2000 depth=20 stack=300"] != []
#guard judgeAll lim0 1 [] ["r err es=1", "obs ticks=50 maxcsp=19 maxsp=300 csp=-1 sp=-1 cost=2000 depth=20 stack=300"] != []
#guard judgeAll { lim0 with cost := 0 } 1 [] ["r ret 0", "obs ticks=4000 maxcsp=1 maxsp=2 csp=-1 sp=-1 cost=0 depth=20 stack=300"] != []
#guard judgeAll { lim0 with noCodeCallbacks := 5000 } 1 [] ["r ret 0", "obs ticks=10 maxcsp=1 maxsp=2 csp=-1 sp=-1 cost=2000 depth=20 stack=300 maxtouch=-1 cost0=2000 handlers=0"] != []
#guard judgeAll { lim0 with noCodeCallbacks := 50 } 1 [] ["r ret 0", "obs ticks=10 maxcsp=1 maxsp=2 csp=-1 sp=-1 cost=2000 depth=20 stack=300 maxtouch=-1 cost0=2000 handlers=0"] == []

/-! ### sizes: every value within the limit of its type, every constructor answered -/
#guard judgeAll lim0 0 ["allocate"] ["sz ok 101"] != []
#guard judgeAll lim0 0 ["allocate"] ["sz ok 100"] == []
#guard judgeAll lim0 0 ["add_buffer"] ["sz ok 101"] != []
#guard judgeAll lim0 0 ["map_add"] ["sz ok 101"] != []
#guard judgeAll lim0 0 ["join"] ["sz ok 1001"] != []
#guard judgeAll lim0 0 ["sprintf"] ["sz ok 1001"] != []
#guard judgeAll lim0 0 ["keys"] ["sz ok 101"] != []
#guard judgeAll lim0 0 ["allocate", "join"] ["sz ok 5"] != []
#guard judgeAll lim0 0 ["allocate"] ["sz ok 5", "sz ok 6"] != []
#guard judgeAll lim0 0 ["allocate"] ["sz what"] != []
#guard judgeAll lim0 0 ["replace"] ["sz ok -1"] == []

/-! ### mapping bookkeeping: sizeof () is the number of nodes, within the limit -/
#guard judgeAll lim0 1 [] ["r ret \"kke:20/35\""] != []
#guard judgeAll lim0 1 [] ["r ret \"kke:101/101\""] != []
#guard judgeAll lim0 1 [] ["r ret \"kke:100/100\""] == []

/-! ### a regexp match that needs more than the budget pays for must not be followed by a normal return -/
#guard judgeAll { lim0 with rxMustExpire := true } 1 [] ["r ret 0", "obs ticks=10 maxcsp=1 maxsp=2 csp=-1 sp=-1 cost=2000 depth=20 stack=300 maxtouch=-1 cost0=2000 handlers=0"] != []
#guard judgeAll { lim0 with rxMustExpire := true } 1 [] ["r err es=2", "obs ticks=10 maxcsp=1 maxsp=2 csp=-1 sp=-1 cost=2000 depth=20 stack=300 maxtouch=-1 cost0=2000 handlers=0"] == []

/-! ### callbacks that execute no instruction are charged: as many of them as the budget has ticks cannot be followed by a normal return -/
#guard judgeAll { lim0 with noCodeCallbacks := 2000 } 1 [] ["r ret 0", "obs ticks=10 maxcsp=1 maxsp=2 csp=-1 sp=-1 cost=2000 depth=20 stack=300 maxtouch=-1 cost0=2000 handlers=0"] != []
#guard judgeAll { lim0 with noCodeCallbacks := 1999 } 1 [] ["r ret 0", "obs ticks=10 maxcsp=1 maxsp=2 csp=-1 sp=-1 cost=2000 depth=20 stack=300 maxtouch=-1 cost0=2000 handlers=0"] == []
#guard judgeAll { lim0 with noCodeCallbacks := 5000 } 1 [] ["r err es=2", "obs ticks=10 maxcsp=1 maxsp=2 csp=-1 sp=-1 cost=2000 depth=20 stack=300 maxtouch=-1 cost0=2000 handlers=0"] == []
-- the budget the evaluation started with counts, not the one configured meanwhile (set_eval_limit)
#guard judgeAll { lim0 with noCodeCallbacks := 1, cost := 1 } 1 [] ["r ret 1", "obs ticks=6 maxcsp=0 maxsp=1 csp=-1 sp=-1 cost=1 depth=200 stack=0 maxtouch=-1 cost0=1000000 handlers=0"] == []

end NV.C04
