/-
C04 — Lean-checked counterexamples of the full statements (open known findings, known/C04.jsonl), and of the
behaviour before the `fix:` commits where the old decision is kept in the model for reference.
-/
import NV.C04.Props

namespace NV.C04

open NV.Gen.C04

/-- the full statement of eval_bounded: for every budget (a non-positive one allows nothing), every shape -/
def EvalBounded_Full : Prop :=
  ∀ (cfg : Cfg) (fuel : Nat) (sh : Sh), ((evaluate cfg fuel sh).2.ticks : Int) ≤ max cfg.maxCost 0

/-- MaxEvaluationCost = 0: `if (!--eval_cost)` never fires, a 100 instruction loop completes -/
theorem eval_unbounded_at_zero_budget :
    (evaluate { maxCost := 0, maxDepth := 20, stackSize := 100, handlerCatches := false } 1000 (.work 100)).1 = .ok ∧
    (evaluate { maxCost := 0, maxDepth := 20, stackSize := 100, handlerCatches := false } 1000 (.work 100)).2.ticks = 102 := by
  decide

/-- an evaluation-cost error inside a safe apply is swallowed and the budget was refreshed: two safe applies use
    two budgets -/
theorem eval_unbounded_through_safe_apply :
    (evaluate { maxCost := 20, maxDepth := 20, stackSize := 100, handlerCatches := false } 1000
      (.seq (.safe .spin) (.seq (.safe .spin) (.work 5)))).2.ticks = 45 := by
  decide

theorem not_EvalBounded_Full : ¬ EvalBounded_Full := by
  intro h
  have := h { maxCost := 20, maxDepth := 20, stackSize := 100, handlerCatches := false } 1000
      (.seq (.safe .spin) (.seq (.safe .spin) (.work 5)))
  rw [eval_unbounded_through_safe_apply] at this
  simp only at this
  omega

/-- sprintf with MaxStringLength 200: 300 characters -/
theorem sprintf_exceeds_small_limit : sprintfAdd 200 100 = .ok 300 := by decide

/-- MaxArraySize above 65535: allocate (65536) reports size 0 (16-bit `size` field) -/
theorem array_size_wraps : allocateArray 65536 70000 = .ok 0 := by decide

/-- allocate_buffer (70000) reports size 4464: the `(unsigned short)` cast in allocate_buffer, although the field
    is an unsigned int and the default MaxBufferSize is 4000000 -/
theorem buffer_size_wraps : allocateBuffer 70000 4000000 = .ok 4464 := by decide

/-- before the fix: repeat_string ("ab", INT64_MIN) passed the length guard with a product that wrapped to 0
    (1 byte allocated, 2^64 bytes to copy); after the fix the result is the empty string -/
theorem repeat_string_old_wraps :
    repeatStringOld 2 (-9223372036854775808) 1000 = .ok 0 ∧ repeatString 2 (-9223372036854775808) 1000 = .ok 0 ∧
    repeatStringOld 4 4611686018427387904 1000 = .ok 0 ∧ repeatString 4 4611686018427387904 1000 = .err := by
  decide

end NV.C04
