/-
C04 — Lean-checked witnesses: why the repaired pieces are needed (the decision before the `fix:` commit, kept
in the model for reference, or the machine run outside the repaired precondition), and the functional
(not size-bound) consequences of the 16-bit size fields that stay open with C03.
All four round-1 findings of C04 are repaired (KNOWN findings file: status fixed).
-/
import NV.C04.Props

namespace NV.C04

open NV.Gen.C04

/-- why the clamp (fix 7c5c9ea) is needed: run with an unclamped budget of 0, `if (!--eval_cost)` never fires and a
    100 instruction loop completes -/
theorem eval_unbounded_at_zero_budget :
    (evaluate { maxCost := 0, maxDepth := 20, stackSize := 100, handlerCatches := false } 1000 (.work 100)).1 = .ok ∧
    (evaluate { maxCost := 0, maxDepth := 20, stackSize := 100, handlerCatches := false } 1000 (.work 100)).2.ticks = 103 := by
  decide

/-- the bound of eval_bounded is attained: two nested safe applies that each stop an eval-cost error add two ticks, and
    the evaluation then ends with the error in the caller -/
theorem eval_bound_attained_through_safe_apply :
    (evaluate { maxCost := 20, maxDepth := 20, stackSize := 100, handlerCatches := false } 1000
      (.seq (.safe (.seq (.safe .spin) (.work 1))) (.work 1))).2.ticks = 22 ∧
    (evaluate { maxCost := 20, maxDepth := 20, stackSize := 100, handlerCatches := false } 1000
      (.seq (.safe (.seq (.safe .spin) (.work 1))) (.work 1))).1 = .raised .cost := by
  decide

/-- before fix 3738abb: sprintf's buffer alone allows 300 characters under MaxStringLength 200; the final test refuses it -/
theorem sprintf_exceeds_small_limit : sprintfAdd 200 100 = .ok 300 ∧ sprintfFinish 300 200 = .err := by decide

/-- MaxArraySize above 65535: allocate (65536) reports size 0 (16-bit `size` field) -/
theorem array_size_wraps : allocateArray 65536 70000 = .ok 0 := by decide

/-- allocate_buffer (70000) reports size 4464: the `(unsigned short)` cast in allocate_buffer, although the field
    is an unsigned int and the default MaxBufferSize is 4000000 -/
theorem buffer_size_wraps : allocateBuffer 70000 4000000 = .ok 4464 := by decide

/-- before fix 70f8e01: repeat_string ("ab", INT64_MIN) passed the length guard with a product that wrapped to 0
    (1 byte allocated, 2^64 bytes to copy); after the fix the result is the empty string -/
theorem repeat_string_old_wraps :
    repeatStringOld 2 (-9223372036854775808) 1000 = .ok 0 ∧ repeatString 2 (-9223372036854775808) 1000 = .ok 0 ∧
    repeatStringOld 4 4611686018427387904 1000 = .ok 0 ∧ repeatString 4 4611686018427387904 1000 = .err := by
  decide

/-- before fix 5334d17: compose_mapping counted the unlinked nodes in an `unsigned short`; a mapping of 70000 keys
    composed with an empty one kept `count` = 65536 with no node left (MaxMappingSize above 65535) -/
theorem compose_count_wraps_16 :
    composeStep 16 { count := 70000, nodes := 70000 } 0 = { count := 65536, nodes := 0 } ∧
    composeMappingW 16 70000 0 = .ok 65536 ∧ composeMapping 70000 0 = .ok 0 := by decide

/-- before fix ab97f18: save_variable (allocate (49)) is a 102 character string under MaxStringLength 100 -/
theorem save_variable_old_exceeds :
    saveVariableOld (valZeros 49) = .ok 102 ∧ saveVariable (valZeros 49) 100 = .err := by decide

/-- before fix 115d78e: unique_mapping of 200 distinct elements is a mapping of 200 keys under MaxMappingSize 100 -/
theorem unique_mapping_old_exceeds : uniqueMappingOld 200 200 = .ok 200 ∧ uniqueMapping 200 200 100 = .err ∧
    uniqueMapping 200 100 100 = .ok 100 := by decide

end NV.C04
