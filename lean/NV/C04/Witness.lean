import NV.C04.Model
import NV.C04.Sizes
namespace NV.C04
end NV.C04
