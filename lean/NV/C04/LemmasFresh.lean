/-
C04 — an evaluation that returns normally never ran past its budget: as long as nothing expired, `ticks + eval_cost`
is the budget the evaluation started with; after an expiry that a safe apply stopped, exactly one tick is left and the
next instruction raises the error again.  So `r ret` implies `ticks < budget` (the oracle clause
`completed-after-expiry`).
-/
import NV.C04.Lemmas
import NV.C04.LemmasCost

namespace NV.C04

open NV.Gen.C04

/-- nothing expired so far (every tick was paid from the one budget B and something is left), or an expiry was stopped
    by a safe apply, which left its caller a single tick -/
def Fresh (B : Int) (s : St) : Prop := (phi s = B ∧ 0 < s.cost) ∨ s.cost = 1

/-- a step from a fresh state: a normal completion is fresh, and so is an error in flight that does not carry the
    evaluation-cost bit -/
def NE (B : Int) (s : St) (r : Out × St) : Prop :=
  Fresh B s → (r.1 = .ok → Fresh B r.2) ∧ (∀ k, r.1 = .raised k → hasEs r.2 esMaxEvalCost = false → Fresh B r.2)

theorem Fresh_of_eq {B : Int} {s s' : St} (h : Fresh B s) (h1 : s'.ticks = s.ticks) (h2 : s'.cost = s.cost) : Fresh B s' := by
  unfold Fresh phi at *
  rw [h1, h2]; exact h

theorem NE_same (B : Int) (s s' : St) (o : Out) (h1 : s'.ticks = s.ticks) (h2 : s'.cost = s.cost) : NE B s (o, s') :=
  fun hf => ⟨fun _ => Fresh_of_eq hf h1 h2, fun _ _ _ => Fresh_of_eq hf h1 h2⟩

theorem NE_fuel (B : Int) (s s' : St) : NE B s (.fuel, s') :=
  fun _ => ⟨fun h => by simp at h, fun _ h _ => by simp at h⟩

theorem NE_seqM {B : Int} {s : St} {r : Out × St} {k : St → Out × St} (h1 : NE B s r) (h2 : ∀ s1, NE B s1 (k s1)) :
    NE B s (seqM r k) := by
  intro hf
  obtain ⟨ha, hb⟩ := h1 hf
  obtain ⟨o, s1⟩ := r
  cases o with
  | ok => exact h2 s1 (ha rfl)
  | raised k' => exact ⟨fun h => by simp [seqM] at h, fun k hk hb' => hb k hk hb'⟩
  | fuel => exact ⟨fun h => by simp [seqM] at h, fun k hk => by simp [seqM] at hk⟩

theorem NE_of_eq {B : Int} {s s1 : St} {r : Out × St} (h : NE B s1 r) (h1 : s1.ticks = s.ticks) (h2 : s1.cost = s.cost) :
    NE B s r := fun hf => h (Fresh_of_eq hf h1 h2)

theorem hasEs_setEs_cost (s : St) : hasEs (setEs s esMaxEvalCost) esMaxEvalCost = true := by
  unfold hasEs setEs esMaxEvalCost
  simp only
  have : (s.es ||| 2) &&& 2 = 2 := by
    apply Nat.eq_of_testBit_eq
    intro i
    simp only [Nat.testBit_and, Nat.testBit_or]
    cases h : Nat.testBit 2 i <;> simp
  rw [this]; decide

theorem NE_tick (B : Int) (cfg : Cfg) (ctx : Ctx) (s : St) : NE B s (tick cfg ctx s) := by
  intro hf
  unfold tick
  simp only
  split
  · -- expiry: the error carries the evaluation-cost bit
    refine ⟨fun h => by simp [raise] at h, fun k _ hb => ?_⟩
    exfalso
    have : hasEs (raise cfg ctx .cost (mark 1 { (setEs { s with ticks := s.ticks + 1, cost := s.cost - 1 } esMaxEvalCost) with cost := cfg.maxCost })).2 esMaxEvalCost = true :=
      hasEs_setEs_cost _
    rw [this] at hb
    cases hb
  · rename_i hz
    have hz' : s.cost - 1 ≠ 0 := by simpa using hz
    have hfr : Fresh B { s with ticks := s.ticks + 1, cost := s.cost - 1 } := by
      rcases hf with ⟨h1, h2⟩ | h1
      · left
        refine ⟨?_, ?_⟩
        · show (((s.ticks + 1 : Nat) : Int)) + (s.cost - 1) = B
          unfold phi at h1; omega
        · show 0 < s.cost - 1
          omega
      · exact absurd (by omega) hz'
    exact ⟨fun _ => hfr, fun _ h => by cases h⟩

theorem NE_ticksN (B : Int) (cfg : Cfg) (ctx : Ctx) (n : Nat) (s : St) : NE B s (ticksN cfg ctx n s) := by
  induction n generalizing s with
  | zero => unfold ticksN; exact NE_same B s s .ok rfl rfl
  | succ n ih =>
    unfold ticksN
    have : NE B s (seqM (tick cfg ctx s) (fun s1 => ticksN cfg ctx n s1)) := NE_seqM (NE_tick B cfg ctx s) (fun s1 => ih s1)
    unfold seqM at this
    exact this

theorem NE_spin (B : Int) (cfg : Cfg) (ctx : Ctx) (n : Nat) (s : St) : NE B s (spin cfg ctx n s) := by
  induction n generalizing s with
  | zero => unfold spin; exact NE_fuel B s s
  | succ n ih =>
    unfold spin
    have : NE B s (seqM (tick cfg ctx s) (fun s1 => spin cfg ctx n s1)) := NE_seqM (NE_tick B cfg ctx s) (fun s1 => ih s1)
    unfold seqM at this
    exact this

theorem NE_pushFrame (B : Int) (cfg : Cfg) (ctx : Ctx) (s : St) : NE B s (pushFrame cfg ctx s) := by
  unfold pushFrame
  split
  · exact NE_same B s _ _ rfl rfl
  · exact NE_same B s _ _ rfl rfl

theorem NE_pushChecked (B : Int) (cfg : Cfg) (ctx : Ctx) (n : Nat) (s : St) : NE B s (pushChecked cfg ctx n s) := by
  unfold pushChecked
  split
  · exact NE_same B s _ _ rfl rfl
  · exact NE_same B s _ _ rfl rfl

theorem exec_NE (B : Int) (cfg : Cfg) (fuel : Nat) (ctx : Ctx) (sh : Sh) (s : St) : NE B s (exec cfg fuel ctx sh s) := by
  induction fuel generalizing ctx sh s with
  | zero => unfold exec; exact NE_fuel B s s
  | succ f ih =>
    unfold exec
    cases sh with
    | skip => exact NE_same B s s _ rfl rfl
    | work n => exact NE_ticksN B cfg ctx n s
    | spin => exact NE_spin B cfg ctx _ s
    | err => exact NE_same B s s _ rfl rfl
    | throw_ =>
      cases ctx
      · exact NE_same B s _ _ rfl rfl
      · exact NE_same B s _ _ rfl rfl
      · exact NE_same B s _ _ rfl rfl
    | seq a b => exact NE_seqM (ih ctx a s) (fun s1 => ih ctx b s1)
    | call locals body =>
      exact NE_seqM (NE_pushFrame B cfg ctx s) fun s1 =>
        NE_seqM (NE_pushChecked B cfg ctx locals s1) fun s2 =>
        NE_seqM (NE_ticksN B cfg ctx callTicks s2) fun s3 =>
        NE_seqM (ih ctx body s3) fun s4 =>
        NE_seqM (NE_tick B cfg ctx s4) fun s5 => NE_same B s5 (leave s5 s.depth s.sp) .ok rfl rfl
    | recur locals => exact ih ctx _ s
    | crecur => exact ih ctx _ s
    | cb k body =>
      cases k with
      | zero => exact NE_same B s s _ rfl rfl
      | succ k =>
        exact NE_seqM (NE_tick B cfg ctx s) fun s0 =>
          NE_seqM (ih ctx (.call 0 (.call 0 body)) s0) (fun s1 => ih ctx (.cb k body) s1)
    | safe body =>
      refine NE_seqM (NE_tick B cfg ctx s) (fun s => ?_)
      simp only
      split
      · exact NE_same B s _ _ rfl rfl
      · have hi := ih .safe (.call 0 body) s
        split
        · rename_i s1 heq; rw [heq] at hi
          intro hf
          have := (hi hf).1 rfl
          exact ⟨fun _ => Fresh_of_eq this rfl rfl, fun _ h => by cases h⟩
        · rename_i k s1 heq; rw [heq] at hi
          intro hf
          refine ⟨fun _ => ?_, fun _ h => by cases h⟩
          show Fresh B { (leave s1 s.depth s.sp) with
                     cost := if hasEs s1 esMaxEvalCost then (safeTickLeft : Int) else s1.cost,
                     es := 0, evs := .safeSwallowed k :: s1.evs,
                     br := (if hasEs s1 esMaxEvalCost then 9 else 10) :: s1.br }
          cases hb : hasEs s1 esMaxEvalCost
          · have := (hi hf).2 k rfl hb
            exact Fresh_of_eq this rfl (by simp)
          · right
            simp [safeTickLeft]
        · exact NE_fuel B s _
    | catch_ body =>
      simp only
      split
      · exact NE_same B s _ _ rfl rfl
      · have hi : NE B s (exec cfg f .catch_ body (pushCatchFrame s)) := NE_of_eq (ih .catch_ body _) rfl rfl
        split
        · rename_i s2 heq; rw [heq] at hi
          intro hf
          have := (hi hf).1 rfl
          exact ⟨fun _ => Fresh_of_eq this rfl rfl, fun _ h => by cases h⟩
        · exact NE_fuel B s _
        · rename_i k s2 heq; rw [heq] at hi
          intro hf
          have hr := (hi hf).2 k rfl
          unfold catchLanding
          simp only
          have e1 : hasEs (pushUnchecked (leave s2 s.depth s.sp)) esMaxEvalCost = hasEs s2 esMaxEvalCost := rfl
          rw [e1]
          cases hb : hasEs s2 esMaxEvalCost
          · have hfr := hr hb
            simp only [Bool.false_eq_true, if_false]
            split
            · exact ⟨fun h => by simp [raise] at h, fun _ _ _ => Fresh_of_eq hfr rfl rfl⟩
            · exact ⟨fun _ => Fresh_of_eq hfr rfl rfl, fun _ h => by cases h⟩
          · simp only [if_true]
            refine ⟨fun h => by simp [raise] at h, fun _ _ hb' => ?_⟩
            exfalso
            have : hasEs (raise cfg ctx .cost (mark 5 { (pushUnchecked (leave s2 s.depth s.sp)) with es := esMaxEvalCost })).2 esMaxEvalCost = true := by
              show (esMaxEvalCost &&& esMaxEvalCost != 0) = true
              decide
            rw [this] at hb'
            cases hb'

theorem tick_ok_inv {cfg : Cfg} {ctx : Ctx} {s s' : St} (h : tick cfg ctx s = (.ok, s')) :
    s.cost - 1 ≠ 0 ∧ s'.ticks = s.ticks + 1 ∧ s'.cost = s.cost - 1 := by
  unfold tick at h
  simp only at h
  split at h
  · simp [raise] at h
  · rename_i hz
    injection h with _ h
    subst h
    exact ⟨by simpa using hz, rfl, rfl⟩

end NV.C04
