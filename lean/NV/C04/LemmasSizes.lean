/-
C04 — every size decision of NV/C04/Sizes.lean returns an error or a size within the limit.
The configured limits are C `int`s: `0 ≤ limit < 2^31` is the standing hypothesis (`LimitOk`).
-/
import NV.C04.Sizes

namespace NV.C04

open NV.Gen.C04

def LimitOk (limit : Int) : Prop := 0 ≤ limit ∧ limit < 2147483648

theorem two64_cast : ((2 ^ 64 : Nat) : Int) = 18446744073709551616 := by decide

theorem toSizeT_of_limit {l : Int} (h : LimitOk l) : toSizeT l = l.toNat := by
  unfold toSizeT two64
  have h1 : l % ((2 ^ 64 : Nat) : Int) = l := by
    apply Int.emod_eq_of_lt h.1
    rw [two64_cast]
    have := h.2
    omega
  rw [h1]

theorem toArrSize_le (n : Nat) : toArrSize n ≤ n := Nat.mod_le _ _
theorem toBufSize_le (n : Nat) : toBufSize n ≤ n := Nat.mod_le _ _

theorem allocateArray_bounded {n l : Int} {sz : Nat} (hl : LimitOk l) (h : allocateArray n l = .ok sz) :
    (sz : Int) ≤ l := by
  unfold allocateArray at h
  simp only at h
  split at h
  · cases h
  · rename_i hle
    injection h with h
    rw [toSizeT_of_limit hl] at hle
    have := toArrSize_le (toSizeT n)
    have h0 := hl.1
    omega

theorem allocateBuffer_bounded {n l : Int} {sz : Nat} (hl : LimitOk l) (h : allocateBuffer n l = .ok sz) :
    (sz : Int) ≤ l := by
  unfold allocateBuffer at h
  simp only at h
  split at h
  · cases h
  · rename_i hle
    injection h with h
    rw [toSizeT_of_limit hl] at hle
    have := toBufSize_le (toSizeT n)
    have h0 := hl.1
    omega

theorem aggregateArray_bounded {n : Nat} {l : Int} {sz : Nat} (hl : LimitOk l) (h : aggregateArray n l = .ok sz) :
    (sz : Int) ≤ l := allocateArray_bounded hl h

theorem addBuffer_bounded {a b : Nat} {l : Int} {sz : Nat} (hl : LimitOk l) (h : addBuffer a b l = .ok sz) :
    (sz : Int) ≤ l := allocateBuffer_bounded hl h

theorem addArray_bounded {a b : Nat} {l : Int} {sz : Nat} (ha : (a : Int) ≤ l) (hb : (b : Int) ≤ l)
    (h : addArray a b l = .ok sz) : (sz : Int) ≤ l := by
  unfold addArray at h
  split at h
  · injection h with h; omega
  · split at h
    · injection h with h; omega
    · simp only at h
      split at h
      · cases h
      · rename_i hc
        injection h with h
        have := toArrSize_le (a + b)
        omega

theorem sliceArray_bounded {size : Nat} {lo hi : Int} {sz : Nat} (h : sliceArray size lo hi = .ok sz) :
    sz ≤ size := by
  unfold sliceArray at h
  simp only at h
  generalize hF1 : (if lo < 0 then 0 else lo) = F1 at h
  generalize hT1 : (if hi ≥ (size : Int) then (size : Int) - 1 else hi) = T1 at h
  generalize hT2 : (if T1 < -1 then -1 else T1) = T at h
  generalize hF2 : (if F1 > (size : Int) then (size : Int) else F1) = F at h
  have hF0 : 0 ≤ F := by
    subst hF2 hF1
    split <;> split <;> omega
  have hT : T ≤ (size : Int) - 1 := by
    subst hT2 hT1
    split <;> split <;> omega
  split at h
  · injection h with h; omega
  · injection h with h
    have := toArrSize_le (T - F + 1).toNat
    omega

theorem explodeArray_bounded {pieces : Nat} {l : Int} {sz : Nat} (hl : LimitOk l) (h : explodeArray pieces l = .ok sz) :
    (sz : Int) ≤ l := by
  unfold explodeArray at h
  split at h <;> exact allocateArray_bounded hl h

theorem mapInsert_bounded {c : Nat} {isNew : Bool} {l : Int} {sz : Nat} (hc : (c : Int) ≤ l)
    (h : mapInsert c isNew l = .ok sz) : (sz : Int) ≤ l := by
  unfold mapInsert at h
  split at h
  · injection h with h; omega
  · split at h
    · cases h
    · injection h with h; omega

theorem mapInsertMany_bounded {c k : Nat} {l : Int} {sz : Nat} (hc : (c : Int) ≤ l)
    (h : mapInsertMany c k l = .ok sz) : (sz : Int) ≤ l := by
  induction k generalizing c with
  | zero => unfold mapInsertMany at h; injection h with h; omega
  | succ k ih =>
    unfold mapInsertMany at h
    split at h
    · rename_i c' heq
      exact ih (mapInsert_bounded hc heq) h
    · cases h

theorem mapAggregate_bounded {d : Nat} {l : Int} {sz : Nat} (hl : LimitOk l) (h : mapAggregate d l = .ok sz) :
    (sz : Int) ≤ l := mapInsertMany_bounded (by have := hl.1; omega) h

theorem mapAdd_bounded {c1 c2 common : Nat} {l : Int} {sz : Nat} (h1 : (c1 : Int) ≤ l) (h2 : (c2 : Int) ≤ l)
    (h : mapAdd c1 c2 common l = .ok sz) : (sz : Int) ≤ l := by
  unfold mapAdd at h
  split at h
  · exact mapInsertMany_bounded h1 h
  · exact mapInsertMany_bounded h2 h

theorem stringJoin_bounded {a b : Nat} {l : Int} {sz : Nat} (hl : LimitOk l) (h : stringJoin a b l = .ok sz) :
    (sz : Int) ≤ l := by
  unfold stringJoin at h
  simp only at h
  split at h
  · cases h
  · rename_i hle
    injection h with h
    rw [toSizeT_of_limit hl] at hle
    have h0 := hl.1
    omega

/-- repeat_string: no wrap-around for any int64 count, any operand length within the limit -/
theorem repeatString_bounded {len : Nat} {count l : Int} {sz : Nat} (hl : LimitOk l) (hlen : (len : Int) ≤ l)
    (h : repeatString len count l = .ok sz) : (sz : Int) ≤ l := by
  unfold repeatString at h
  have h0 := hl.1
  split at h
  · injection h with h; omega
  · split at h
    · injection h with h; omega
    · split at h
      · injection h with h; omega
      · simp only at h
        split at h
        · cases h
        · rename_i hpos _ hne hle
          injection h with h
          rw [toSizeT_of_limit hl] at hle
          have hdiv : toSizeT count ≤ l.toNat / len := Nat.le_of_not_lt hle
          have hmul : len * toSizeT count ≤ l.toNat := by
            calc len * toSizeT count ≤ len * (l.toNat / len) := Nat.mul_le_mul_left _ hdiv
              _ ≤ l.toNat := Nat.mul_div_le _ _
          have : len * toSizeT count % two64 ≤ len * toSizeT count := Nat.mod_le _ _
          omega

theorem implodeString_bounded {total num delLen : Nat} {l : Int} {sz : Nat} (hl : LimitOk l)
    (h : implodeString total num delLen l = .ok sz) : (sz : Int) ≤ l := by
  unfold implodeString at h
  have h0 := hl.1
  split at h
  · injection h with h; omega
  · simp only at h
    split at h
    · cases h
    · rename_i hle
      injection h with h
      rw [toSizeT_of_limit hl] at hle
      omega

/-- sprintf's buffer: bounded by USHRT_MAX (or by the first chunk), never by the configured limit -/
theorem sprintfAdd_bounded {real len sz : Nat} (h : sprintfAdd real len = .ok sz) :
    sz ≤ ushrtMax ∨ (real = 0 ∧ sz = len) := by
  unfold sprintfAdd at h
  split at h
  · rename_i hr; injection h with h; right; exact ⟨hr, h.symm⟩
  · split at h
    · injection h with h; left; omega
    · cases h

theorem partOf_le (n kept : Nat) {sz : Nat} (h : partOf n kept = .ok sz) : sz ≤ n := by
  unfold partOf at h; injection h with h; omega

theorem sameSize_eq (n : Nat) {sz : Nat} (h : sameSize n = .ok sz) : sz = n := by
  unfold sameSize at h; injection h with h; omega

theorem mapKeys_bounded {c : Nat} {l : Int} {sz : Nat} (hl : LimitOk l) (h : mapKeys c l = .ok sz) : (sz : Int) ≤ l :=
  allocateArray_bounded hl h

theorem sprintfFinish_bounded {real : Nat} {l : Int} {sz : Nat} (hl : LimitOk l) (h : sprintfFinish real l = .ok sz) :
    (sz : Int) ≤ l := by
  unfold sprintfFinish at h
  split at h
  · cases h
  · rename_i hle
    injection h with h
    rw [toSizeT_of_limit hl] at hle
    have := hl.1
    omega

/-- replace_string: while the scan runs, fewer than MAX characters are in the MAX + 1 byte destination -/
theorem replaceRun_lt {limit : Nat} {steps : List RStep} {d0 d : Nat}
    (h : replaceRun limit steps d0 = some d) : d < limit ∨ d = d0 := by
  induction steps generalizing d0 with
  | nil => unfold replaceRun at h; injection h with h; right; exact h.symm
  | cons st rest ih =>
    unfold replaceRun at h
    split at h
    · cases h
    · rename_i hgt
      rcases ih h with h1 | h1
      · left; exact h1
      · left; omega

theorem replaceFinish_bounded {limit tail : Nat} {o : Option Nat} {sz : Nat} (h : replaceFinish limit tail o = .ok sz) :
    sz < limit := by
  unfold replaceFinish at h
  split at h
  · cases h
  · split at h
    · cases h
    · injection h with h; omega

end NV.C04
