/-
C04 — executable model, part (c): the count bookkeeping of mappings across *partially applied* operations.

`sizeof (m)` and every size test read `m->count`; the nodes live in the hash table.  find_for_insert tests
`++m->count > MAX` before it links the node.  add_to_mapping (`m += m2`, absorb_mapping, in place) counts in a
local `count`, links node after node, and writes `m1->count` only at the end - or on the "Mapping too large" error
path, where the nodes linked so far stay in the mapping (lib/lpc/mapping.c).  If that update were skipped the mapping
would hold more nodes than `count` says and later inserts would pass the size test.
-/
import NV.Gen.C04

namespace NV.C04

/-- a mapping as the size tests see it (`count`) and as it is (`nodes` linked in the table) -/
structure MapSt where
  count : Nat
  nodes : Nat
  deriving Repr, DecidableEq

inductive MapOp
  | insert (isNew : Bool)      -- m[k] = v  (find_for_insert); `isNew`: the key is not in the mapping
  | absorb (newKeys : Nat)     -- m += m2 inside catch; `newKeys` keys of m2 are not in m
  deriving Repr, DecidableEq

/-- the loop of add_to_mapping over the keys of m2 that are new: `local` is the C variable `count` -/
def absorbLoop (limit : Int) (s : MapSt) (loc : Nat) : Nat → Bool × MapSt
  | 0 =>
    -- `if (count -= m1->count) {...}; m1->count += count;`
    (false, { s with count := s.count + (loc - s.count) })
  | k + 1 =>
    -- `if (++count > MAX) { count -= m1->count + 1; m1->count += count; mapping_too_large (); }`
    if ((loc + 1 : Nat) : Int) > limit then
      (true, { s with count := s.count + (loc + 1 - (s.count + 1)) })
    else
      -- new_map_node (), linked into the bucket
      absorbLoop limit { s with nodes := s.nodes + 1 } (loc + 1) k

/-- one operation; the Bool says whether it raised "Mapping too large" -/
def mapStep (limit : Int) (s : MapSt) : MapOp → Bool × MapSt
  | .insert false => (false, s)
  | .insert true =>
    -- `if (++m->count > MAX) { m->count--; mapping_too_large (); }` then the node is created
    if ((s.count + 1 : Nat) : Int) > limit then (true, s)
    else (false, { count := s.count + 1, nodes := s.nodes + 1 })
  | .absorb k => absorbLoop limit s s.count k

/-- run a sequence on the empty mapping; returns the error flags (oldest first) and the final state -/
def mapRun (limit : Int) : List MapOp → MapSt → List Bool × MapSt
  | [], s => ([], s)
  | op :: rest, s =>
    let (e, s1) := mapStep limit s op
    let (es, s2) := mapRun limit rest s1
    (e :: es, s2)

/-- the invariant: the size the tests see is the size the mapping has, within the limit -/
def MapOk (limit : Int) (s : MapSt) : Prop := s.count = s.nodes ∧ (s.nodes : Int) ≤ limit

theorem absorbLoop_ok (limit : Int) (s : MapSt) (loc k : Nat) (h1 : loc = s.nodes) (h2 : s.count ≤ loc)
    (h3 : (loc : Int) ≤ limit) : MapOk limit (absorbLoop limit s loc k).2 := by
  induction k generalizing s loc with
  | zero =>
    unfold absorbLoop
    refine ⟨?_, ?_⟩
    · show s.count + (loc - s.count) = s.nodes
      omega
    · show (s.nodes : Int) ≤ limit
      omega
  | succ k ih =>
    unfold absorbLoop
    split
    · refine ⟨?_, ?_⟩
      · show s.count + (loc + 1 - (s.count + 1)) = s.nodes
        omega
      · show (s.nodes : Int) ≤ limit
        omega
    · rename_i hle
      apply ih
      · show loc + 1 = s.nodes + 1
        omega
      · show s.count ≤ loc + 1
        omega
      · omega

theorem mapStep_ok (limit : Int) (s : MapSt) (op : MapOp) (h : MapOk limit s) : MapOk limit (mapStep limit s op).2 := by
  obtain ⟨h1, h2⟩ := h
  cases op with
  | insert isNew =>
    cases isNew
    · exact ⟨h1, h2⟩
    · show MapOk limit (if ((s.count + 1 : Nat) : Int) > limit then (true, s)
        else (false, ({ count := s.count + 1, nodes := s.nodes + 1 } : MapSt))).2
      split
      · exact ⟨h1, h2⟩
      · rename_i hle
        refine ⟨?_, ?_⟩
        · show s.count + 1 = s.nodes + 1
          omega
        · show ((s.nodes + 1 : Nat) : Int) ≤ limit
          omega
  | absorb k =>
    show MapOk limit (absorbLoop limit s s.count k).2
    exact absorbLoop_ok limit s s.count k h1 (Nat.le_refl _) (by omega)

theorem mapRun_ok (limit : Int) (ops : List MapOp) (s : MapSt) (h : MapOk limit s) : MapOk limit (mapRun limit ops s).2 := by
  induction ops generalizing s with
  | nil => exact h
  | cons op rest ih =>
    unfold mapRun
    exact ih _ (mapStep_ok limit s op h)

end NV.C04
