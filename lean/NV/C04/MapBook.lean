/-
C04 — executable model, part (c): the count bookkeeping of mappings across *partially applied* operations.

`sizeof (m)` and every size test read `m->count`; the nodes live in the hash table.  find_for_insert tests
`++m->count > MAX` before it links the node.  add_to_mapping (`m += m2`, absorb_mapping, in place) counts in a
local `count`, links node after node, and writes `m1->count` only at the end - or on the "Mapping too large" error
path, where the nodes linked so far stay in the mapping (lib/lpc/mapping.c).  If that update were skipped the mapping
would hold more nodes than `count` says and later inserts would pass the size test.
-/
import NV.Gen.C04

namespace NV.C04

/-- a mapping as the size tests see it (`count`) and as it is (`nodes` linked in the table) -/
structure MapSt where
  count : Nat
  nodes : Nat
  deriving Repr, DecidableEq

inductive MapOp
  | insert (isNew : Bool)      -- m[k] = v  (find_for_insert); `isNew`: the key is not in the mapping
  | absorb (newKeys : Nat)     -- m += m2 inside catch; `newKeys` keys of m2 are not in m
  | compose (kept : Nat)       -- m *= m2 (compose_mapping in place); `kept` nodes of m have a value that is a key of m2
  deriving Repr, DecidableEq

/-- compose_mapping: the nodes whose value is not a key of m2 are unlinked one by one and counted in the local
    `deleted` (`bits` wide: `unsigned int` after fix 5334d17, `unsigned short` before), then `m1->count -= deleted` -/
def composeStep (bits : Nat) (s : MapSt) (kept : Nat) : MapSt :=
  let deleted := s.nodes - min kept s.nodes
  { count := s.count - deleted % 2 ^ bits, nodes := s.nodes - deleted }

/-- the loop of add_to_mapping over the keys of m2 that are new: `local` is the C variable `count` -/
def absorbLoop (limit : Int) (s : MapSt) (loc : Nat) : Nat → Bool × MapSt
  | 0 =>
    -- `if (count -= m1->count) {...}; m1->count += count;`
    (false, { s with count := s.count + (loc - s.count) })
  | k + 1 =>
    -- `if (++count > MAX) { count -= m1->count + 1; m1->count += count; mapping_too_large (); }`
    if ((loc + 1 : Nat) : Int) > limit then
      (true, { s with count := s.count + (loc + 1 - (s.count + 1)) })
    else
      -- new_map_node (), linked into the bucket
      absorbLoop limit { s with nodes := s.nodes + 1 } (loc + 1) k

/-- one operation; the Bool says whether it raised "Mapping too large" -/
def mapStep (limit : Int) (s : MapSt) : MapOp → Bool × MapSt
  | .insert false => (false, s)
  | .insert true =>
    -- `if (++m->count > MAX) { m->count--; mapping_too_large (); }` then the node is created
    if ((s.count + 1 : Nat) : Int) > limit then (true, s)
    else (false, { count := s.count + 1, nodes := s.nodes + 1 })
  | .absorb k => absorbLoop limit s s.count k
  | .compose kept => (false, composeStep NV.Gen.C04.composeDeletedBits s kept)

/-- run a sequence on the empty mapping; returns the error flags (oldest first) and the final state -/
def mapRun (limit : Int) : List MapOp → MapSt → List Bool × MapSt
  | [], s => ([], s)
  | op :: rest, s =>
    let (e, s1) := mapStep limit s op
    let (es, s2) := mapRun limit rest s1
    (e :: es, s2)

/-- the invariant: the size the tests see is the size the mapping has, within the limit -/
def MapOk (limit : Int) (s : MapSt) : Prop := s.count = s.nodes ∧ (s.nodes : Int) ≤ limit

theorem absorbLoop_ok (limit : Int) (s : MapSt) (loc k : Nat) (h1 : loc = s.nodes) (h2 : s.count ≤ loc)
    (h3 : (loc : Int) ≤ limit) : MapOk limit (absorbLoop limit s loc k).2 := by
  induction k generalizing s loc with
  | zero =>
    unfold absorbLoop
    refine ⟨?_, ?_⟩
    · show s.count + (loc - s.count) = s.nodes
      omega
    · show (s.nodes : Int) ≤ limit
      omega
  | succ k ih =>
    unfold absorbLoop
    split
    · refine ⟨?_, ?_⟩
      · show s.count + (loc + 1 - (s.count + 1)) = s.nodes
        omega
      · show (s.nodes : Int) ≤ limit
        omega
    · rename_i hle
      apply ih
      · show loc + 1 = s.nodes + 1
        omega
      · show s.count ≤ loc + 1
        omega
      · omega

theorem composeStep_ok (limit : Int) (s : MapSt) (kept : Nat) (h : MapOk limit s)
    (hw : limit < 2 ^ NV.Gen.C04.composeDeletedBits) :
    MapOk limit (composeStep NV.Gen.C04.composeDeletedBits s kept) := by
  obtain ⟨h1, h2⟩ := h
  have hb : ((2 : Int) ^ NV.Gen.C04.composeDeletedBits) = ((2 ^ NV.Gen.C04.composeDeletedBits : Nat) : Int) := by
    simp
  have hlt : s.nodes - min kept s.nodes < 2 ^ NV.Gen.C04.composeDeletedBits := by
    have : (s.nodes : Int) < ((2 ^ NV.Gen.C04.composeDeletedBits : Nat) : Int) := by rw [← hb]; omega
    omega
  refine ⟨?_, ?_⟩
  · show s.count - (s.nodes - min kept s.nodes) % 2 ^ NV.Gen.C04.composeDeletedBits = s.nodes - (s.nodes - min kept s.nodes)
    rw [Nat.mod_eq_of_lt hlt, h1]
  · show ((s.nodes - (s.nodes - min kept s.nodes) : Nat) : Int) ≤ limit
    omega

theorem mapStep_ok (limit : Int) (s : MapSt) (op : MapOp) (h : MapOk limit s)
    (hw : limit < 2 ^ NV.Gen.C04.composeDeletedBits) : MapOk limit (mapStep limit s op).2 := by
  have hfull := h
  obtain ⟨h1, h2⟩ := h
  cases op with
  | insert isNew =>
    cases isNew
    · exact ⟨h1, h2⟩
    · show MapOk limit (if ((s.count + 1 : Nat) : Int) > limit then (true, s)
        else (false, ({ count := s.count + 1, nodes := s.nodes + 1 } : MapSt))).2
      split
      · exact ⟨h1, h2⟩
      · rename_i hle
        refine ⟨?_, ?_⟩
        · show s.count + 1 = s.nodes + 1
          omega
        · show ((s.nodes + 1 : Nat) : Int) ≤ limit
          omega
  | absorb k =>
    show MapOk limit (absorbLoop limit s s.count k).2
    exact absorbLoop_ok limit s s.count k h1 (Nat.le_refl _) (by omega)
  | compose kept => exact composeStep_ok limit s kept hfull hw

theorem mapRun_ok (limit : Int) (ops : List MapOp) (s : MapSt) (h : MapOk limit s)
    (hw : limit < 2 ^ NV.Gen.C04.composeDeletedBits) : MapOk limit (mapRun limit ops s).2 := by
  induction ops generalizing s with
  | nil => exact h
  | cons op rest ih =>
    unfold mapRun
    exact ih _ (mapStep_ok limit s op h hw)

end NV.C04
