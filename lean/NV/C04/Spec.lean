/-
C04 — specification oracle.

The property, as a predicate on what can be observed of an evaluation:

  * no catch() completes normally with an evaluation-cost / call-depth / stack-overflow error (`judgeEv`, over
    the structured events; the same function is applied to the events parsed from an implementation trace);
  * the evaluation ended (a result line exists, no crash / timeout / sanitizer report) with both stacks unwound;
  * the instructions executed stay within the configured budget (plus the allowance for the master's error
    handler, which the driver deliberately runs on a refreshed budget), the control stack index stays below
    MaxCallDepth, the value stack index inside StackSize;
  * every value built has a size within the configured limit of its type.

The oracle knows nothing about `eval_cost`, `error_state` or error contexts.
-/
import NV.Common.Proto
import NV.C04.Model
import NV.C04.Sizes

namespace NV.C04

open NV.Proto

/-- violations found in the structured events of one evaluation -/
def judgeEv (evs : List Ev) : List String :=
  evs.filterMap fun e =>
    match e with
    | .afterCatch k => if k.isLimit then some s!"limit-swallowed kind={k.name}" else none
    | .safeSwallowed _ => none

/-- kind names printed by the LPC side for a caught value (`cc-*`: the "Can't catch ..." re-raise texts) -/
def kindOfName (s : String) : Option Kind :=
  match s with
  | "cost" => some .cost | "cc-cost" => some .cost
  | "deep" => some .deep | "cc-deep" => some .deep
  | "stack" => some .stack
  | "plain" => some .plain
  | "thrown" => some .thrown
  | _ => none

/-- the limits a case runs under, collected from its command lines -/
structure Limits where
  cost : Int := 1000000
  depth : Int := 0          -- 0 = not lowered by the case
  stack : Int := 0
  maxArray : Int := 15000
  maxBuffer : Int := 4000000
  maxMapping : Int := 15000
  maxString : Int := 200000
  handlerCatches : Bool := false
  hasSafe : Bool := false
  catchDepth : Nat := 0
  noCodeCallbacks : Nat := 0   -- the program makes this many efun callbacks that execute no instruction
  safeWeight : Nat := 0        -- safe applies the program can make (each may add one tick: eval_bounded)
  traceValues : Nat := 0       -- values per frame the driver's own trace turns into text (ArgumentsInTrace / LocalVariablesInTrace)
  rxMustExpire : Bool := false -- the evaluation makes a regexp match that needs more node visits than the whole budget pays for
  deriving Repr

/-- ticks one delivery of an error may use outside the program: the master's error handler or, without one, the driver's own
    trace with its master::object_name applies.  The number of deliveries is measured (entries of mudlib_error_handler, the
    `handlers` field of the obs line) and, for program evaluations, compared with the model's (`handlers <n>` line). -/
def handlerAllowance : Nat := 250

/-- ... and per traced value of every frame when the driver prints its own trace with arguments / local variables (no master
    error_handler, or one that failed): master::object_name is applied for every object value -/
def traceAllowance : Nat := 16

/-- allowance for one delivery, given the deepest control stack index of the evaluation -/
def deliveryAllowance (lim : Limits) (maxcsp : Int) : Int :=
  (handlerAllowance : Int) + (traceAllowance : Int) * lim.traceValues * ((maxcsp + 2).toNat : Int)

def kvOf (toks : List String) (key : String) : Option Int :=
  match toks.find? (fun t => t.startsWith (key ++ "=")) with
  | some t => (t.drop (key.length + 1)).toString.toInt?
  | none => none

/-- the numbers of one observation line (indices: -1 = empty stack) -/
structure Obs where
  ticks : Int
  maxcsp : Int
  maxsp : Int
  csp : Int
  sp : Int
  maxtouch : Int := -1     -- highest value-stack slot at or above StackSize that was written (-1: none)
  cost0 : Int := 0         -- eval_cost when the evaluation started (0: not reported)
  completed : Bool := false  -- the evaluation returned to the driver normally (`r ret`)
  handlers : Int := 0        -- error deliveries: entries of mudlib_error_handler during the evaluation
  deriving Repr

/-- judge the numbers of one evaluation (the clause-level core of the oracle: `model_satisfies_spec` is about this
    function applied to the numbers of a model run, the line judge applies it to the parsed `obs` line) -/
def judgeNums (lim : Limits) (o : Obs) : List String :=
  -- (the budget the evaluation started with, when the harness reports it: set_eval_limit may change the configured one meanwhile)
  (if o.ticks > (if o.cost0 > 0 then o.cost0 else if lim.cost > 0 then lim.cost else 0) + (lim.safeWeight : Int) +
      deliveryAllowance lim o.maxcsp * o.handlers then
      (if lim.cost ≤ 0 then [s!"eval-exceeded nonpositive-budget ticks={o.ticks} budget={lim.cost}"]
       else if lim.hasSafe then [s!"eval-exceeded through-safe-apply ticks={o.ticks} budget={lim.cost}"]
       else [s!"eval-exceeded ticks={o.ticks} budget={lim.cost}"])
    else []) ++
  (if lim.depth > 0 ∧ o.maxcsp > lim.depth - 1 then
      [s!"depth-exceeded maxcsp={o.maxcsp} depth={lim.depth}"] else []) ++
  (if lim.stack > 0 ∧ o.maxsp > lim.stack - 1 then
      [s!"stack-exceeded maxsp={o.maxsp} stack={lim.stack}"] else []) ++
  -- slots at or above the lowered StackSize that were written at any time (also between two instruction fetches)
  (if lim.stack > 0 ∧ o.maxtouch > lim.stack - 1 then
      [s!"stack-exceeded maxtouch={o.maxtouch} stack={lim.stack}"] else []) ++
  (if o.csp ≠ -1 ∨ o.sp ≠ -1 then
      (if lim.hasSafe ∧ o.csp = -1 then [s!"not-unwound through-safe-apply sp={o.sp}"]
       else [s!"not-unwound csp={o.csp} sp={o.sp}"]) else []) ++
  -- nothing completes after an expiry: a normal return used fewer instructions than the budget it started with
  (if o.completed = true ∧ o.cost0 > 0 ∧ o.ticks ≥ o.cost0 then
      [s!"completed-after-expiry ticks={o.ticks} budget={o.cost0}"] else [])

/-- judge the observation line of one evaluation -/
def judgeObs (lim : Limits) (completed : Bool) (toks : List String) : List String :=
  let get (k : String) : Int := (kvOf toks k).getD 0
  judgeNums lim { ticks := get "ticks", maxcsp := get "maxcsp", maxsp := get "maxsp", csp := get "csp", sp := get "sp",
                  maxtouch := (kvOf toks "maxtouch").getD (-1), cost0 := get "cost0", completed := completed,
                  -- (an obs line without the field - a harness before this round - gets the old structural allowance)
                  handlers := (kvOf toks "handlers").getD ((lim.catchDepth : Int) + 2) }

/-- the constructors the harness can be asked for (`sz <name> <args>`, harness/mudlib/c04/sizes.c) -/
inductive Ctor
  | allocate | aggregate | add_array | add_array_self | slice | explode | explode0 | allocate_buffer
  | add_buffer | map_insert | map_aggregate | map_add | join | join_eq | join_self | join_num
  | num_join | repeat_ | implode | replace | replace1 | copy_array | copy_mapping | sort_array
  | map_array | lower_case | filter_array | unique_array | array_sub | array_and | filter_mapping | map_mapping
  | keys | values | allocate_mapping | map_compose | map_compose_eq | save_array | save_string | save_mapping
  | save_nested | copy_nested | restore_nested | restore_array | restore_mapping | regexp | reg_assoc | sprintf_pad
  | sprintf | unique_mapping | save_nested_map | save_depth | save_depth_map
  deriving Repr, DecidableEq

def Ctor.ofName (s : String) : Option Ctor :=
  match s with
  | "allocate" => some .allocate
  | "aggregate" => some .aggregate
  | "add_array" => some .add_array
  | "add_array_self" => some .add_array_self
  | "slice" => some .slice
  | "explode" => some .explode
  | "explode0" => some .explode0
  | "allocate_buffer" => some .allocate_buffer
  | "add_buffer" => some .add_buffer
  | "map_insert" => some .map_insert
  | "map_aggregate" => some .map_aggregate
  | "map_add" => some .map_add
  | "join" => some .join
  | "join_eq" => some .join_eq
  | "join_self" => some .join_self
  | "join_num" => some .join_num
  | "num_join" => some .num_join
  | "repeat" => some .repeat_
  | "implode" => some .implode
  | "replace" => some .replace
  | "replace1" => some .replace1
  | "copy_array" => some .copy_array
  | "copy_mapping" => some .copy_mapping
  | "sort_array" => some .sort_array
  | "map_array" => some .map_array
  | "lower_case" => some .lower_case
  | "filter_array" => some .filter_array
  | "unique_array" => some .unique_array
  | "array_sub" => some .array_sub
  | "array_and" => some .array_and
  | "filter_mapping" => some .filter_mapping
  | "map_mapping" => some .map_mapping
  | "keys" => some .keys
  | "values" => some .values
  | "allocate_mapping" => some .allocate_mapping
  | "map_compose" => some .map_compose
  | "map_compose_eq" => some .map_compose_eq
  | "save_array" => some .save_array
  | "save_string" => some .save_string
  | "save_mapping" => some .save_mapping
  | "save_nested" => some .save_nested
  | "copy_nested" => some .copy_nested
  | "restore_nested" => some .restore_nested
  | "restore_array" => some .restore_array
  | "restore_mapping" => some .restore_mapping
  | "regexp" => some .regexp
  | "reg_assoc" => some .reg_assoc
  | "sprintf_pad" => some .sprintf_pad
  | "sprintf" => some .sprintf
  | "unique_mapping" => some .unique_mapping
  | "save_nested_map" => some .save_nested_map
  | "save_depth" => some .save_depth
  | "save_depth_map" => some .save_depth_map
  | _ => none

/-- which limit bounds the result of a constructor -/
def limitOfC (lim : Limits) : Ctor → Int
  | .allocate | .aggregate | .add_array | .add_array_self | .slice | .explode | .explode0 | .copy_array | .sort_array | .map_array | .filter_array | .unique_array | .array_sub | .array_and | .keys | .values | .regexp | .reg_assoc | .restore_array => lim.maxArray
  | .allocate_buffer | .add_buffer => lim.maxBuffer
  | .map_insert | .map_aggregate | .map_add | .copy_mapping | .allocate_mapping | .filter_mapping | .map_mapping | .map_compose | .map_compose_eq | .restore_mapping | .unique_mapping => lim.maxMapping
  -- nesting depths reported by the LPC side: bounded by MAX_SAVE_SVALUE_DEPTH (copy, and restore since c9a3442)
  | .copy_nested | .restore_nested | .save_depth | .save_depth_map => (NV.Gen.C04.maxSaveDepth : Int)
  | _ => lim.maxString

/-- by name, as the line judge needs it (a name that is not a constructor is judged as a string) -/
def limitOf (lim : Limits) (ctor : String) : Int :=
  match Ctor.ofName ctor with
  | some c => limitOfC lim c
  | none => lim.maxString

/-- result of a mapping operation sequence, `"<flags>:<sizeof>/<nodes>"`: what sizeof () reports is what the mapping
    holds, and that is within the limit (other returned values are not judged) -/
def judgeMapSeq (lim : Limits) (v : String) : List String :=
  match (v.replace "\"" "").splitOn ":" with
  | [_, cn] =>
    (match cn.splitOn "/" with
     | [c, n] =>
       (match c.toInt?, n.toInt? with
        | some c, some n =>
          (if c != n then [s!"map-count-mismatch sizeof={c} nodes={n}"] else []) ++
          (if n > lim.maxMapping then [s!"size-exceeded ctor=map_seq size={n} limit={lim.maxMapping}"] else [])
        | _, _ => [])
     | _ => [])
  | _ => []

/-- an evaluation that returned normally although its program makes more code-less callbacks than the budget -/
def judgeCallbacks (lim0 : Limits) (cost0 : Int) : List String :=
  -- (against the budget the evaluation started with, when the obs line reports it: an `ev sizes set_limit` returns normally
  -- under the old budget while the configured one is already the new, possibly clamped, value)
  let lim : Limits := { lim0 with cost := if cost0 > 0 then cost0 else lim0.cost }
  -- (every callback costs a tick of its own: a normal return after at least as many callbacks as the budget has ticks is
  -- impossible; no allowance belongs here - the callbacks run before any error is delivered)
  (if lim.cost > 0 ∧ (lim.noCodeCallbacks : Int) ≥ lim.cost then
    [s!"eval-exceeded uncharged-callbacks callbacks={lim.noCodeCallbacks} budget={lim.cost}"]
  else []) ++
  -- ... or although one of its regexp matches alone needs more node visits than the budget pays for
  (if lim.rxMustExpire then [s!"eval-exceeded uncharged-regexp budget={lim.cost}"] else [])

structure JState where
  lim : Limits := {}
  pendingEv : Nat := 0            -- `ev` commands whose result line has not been seen
  pendingSz : List String := []   -- constructors of `sz` commands whose result has not been seen (oldest first)
  bad : List String := []
  lastRet : Bool := false         -- the result line before the `obs` line was `r ret`

def JState.flag (s : JState) (vs : List String) : JState := { s with bad := s.bad ++ vs }

/-- one implementation output line -/
def judgeLine (s : JState) (line : String) : JState :=
  match toks line with
  | ["after-catch", k] =>
    match kindOfName k with
    | some k => s.flag (judgeEv [.afterCatch k])
    | none => s.flag [s!"malformed {line}"]
  | ["r", "ret", v] =>
    let s1 : JState := { s with pendingEv := s.pendingEv - 1, lastRet := true }
    s1.flag (judgeMapSeq s.lim v)
  | "r" :: "ret" :: _ => { s with pendingEv := s.pendingEv - 1, lastRet := true }
  | "r" :: "err" :: _ => { s with pendingEv := s.pendingEv - 1, lastRet := false }
  | "obs" :: rest =>
    { s with lastRet := false }.flag (judgeObs s.lim s.lastRet rest ++
      (if s.lastRet then judgeCallbacks s.lim ((kvOf rest "cost0").getD 0) else []))
  | ["sz", "err"] => { s with pendingSz := s.pendingSz.drop 1 }
  | ["sz", "ok", n] =>
    match s.pendingSz, n.toInt? with
    | ctor :: rest, some n =>
      let s := { s with pendingSz := rest }
      let l := limitOf s.lim ctor
      if n > l then s.flag [s!"size-exceeded ctor={ctor} size={n} limit={l}"] else s
    | _, _ => s.flag [s!"malformed {line}"]
  | ["handlers", _] => s        -- compared with the model (correspondence), judged through the obs line
  | "mismatch" :: rest => s.flag [s!"map-count-mismatch {" ".intercalate rest}"]
  | "crash" :: _ => s.flag [s!"crash {line}"]
  | "sanitizer" :: _ => s.flag [s!"sanitizer {line}"]
  | "badcmd" :: _ => s.flag [s!"harness {line}"]
  | _ => if line.startsWith "#" then s else s.flag [s!"unexpected {line}"]

def judgeEnd (s : JState) : List String :=
  s.bad ++ (if s.pendingEv > 0 then ["not-ended evaluation without a result"] else [])
        ++ (if !s.pendingSz.isEmpty then ["not-ended constructor without a result"] else [])

end NV.C04
