/-
C04 — every place of the driver that writes `eval_cost` or the configured budget, each with the rule that justifies it.

props/c04.py (gen_refills) regenerates the inventory from the source on every run (`Gen.C04.evalCostWrites`: file,
enclosing function, statement); `bridge_refills` (Props.lean) compares it with the table below, so a new statement that
refills, raises or lowers the budget - or one that moved to another function - breaks an obligation until it has been
looked at and given a rule.  `refill_rules_sound`: of all the rules that can fire while an LPC evaluation runs and that
need no privilege, none makes `eval_cost` larger - except the refill on expiry, which stands in the same function as the
`if (!--eval_cost)` test and in front of an error no catch can stop (sites evalTick, callbackTickBlock).
-/
import NV.Gen.C04

namespace NV.C04

inductive RefillKind
  | definition        -- the definition of the variable
  | tick              -- `if (!--eval_cost)`
  | expiryRefill      -- `eval_cost = MAX` on expiry, followed by error ("Too long evaluation")
  | taskStart         -- `eval_cost = MAX` before the driver starts an evaluation (backend, preload, heart beat, console, main)
  | safeOneTick       -- `eval_cost = 1` after a safe apply stopped an expiry
  | signalAbort       -- `eval_cost = 1` in the SIGUSR2 handler
  | privilegedReset   -- set_eval_limit (0)
  | configSet         -- the configured budget is assigned
  | configClamp       -- ... and clamped to at least 1
  | efunCharge        -- an efun charges the work it did (regexec: node visits), leaving at least one tick
  deriving Repr, DecidableEq

structure RefillRule where
  site : String × String × String     -- file, function, statement (as `evalCostWrites` lists it)
  kind : RefillKind
  why : String
  deriving Repr

/-- can the statement execute while an LPC evaluation is running? -/
def RefillKind.midEval : RefillKind → Bool
  | .definition | .taskStart => false
  | _ => true

/-- does it take a privilege LPC code does not have by itself (set_eval_limit is to be wrapped by a simul_efun and
    guarded by valid_override; the config file is read by the driver) -/
def RefillKind.privileged : RefillKind → Bool
  | .privilegedReset | .configSet | .configClamp => true
  | _ => false

/-- effect on (eval_cost, configured budget); `arg` is the value a configSet assigns -/
def RefillKind.effect (k : RefillKind) (cost budget arg : Int) : Int × Int :=
  match k with
  | .definition => (0, budget)
  | .tick => (cost - 1, budget)
  | .expiryRefill => (budget, budget)
  | .taskStart => (budget, budget)
  | .safeOneTick => (1, budget)
  | .signalAbort => (1, budget)
  | .privilegedReset => (budget, budget)
  | .configSet => (cost, arg)
  | .configClamp => (cost, if budget < 1 then 1 else budget)
  | .efunCharge => (if (arg.toNat : Int) ≥ cost - 1 then 1 else cost - arg.toNat, budget)   -- arg: ticks' worth of work done

def refillRules : List RefillRule := [
  { site := ("lib/efuns/regexp.c", "regexec", "eval_cost = (used >= eval_cost - 1) ? 1 : eval_cost - used;"), kind := .efunCharge,
    why := "regexp matching is charged: 100 node visits per tick, at least one tick is left (the next instruction raises the error)" },
  { site := ("lib/efuns/unsorted.c", "f_set_eval_limit", "CONFIG_INT (__MAX_EVAL_COST__) = (int)sp->u.number;"), kind := .configSet,
    why := "set_eval_limit (n): the configured budget is replaced (privileged efun)" },
  { site := ("lib/efuns/unsorted.c", "f_set_eval_limit", "CONFIG_INT (__MAX_EVAL_COST__) = 1;"), kind := .configClamp,
    why := "set_eval_limit (n): the new budget is at least 1" },
  { site := ("lib/efuns/unsorted.c", "f_set_eval_limit", "sp->u.number = eval_cost = CONFIG_INT (__MAX_EVAL_COST__);"), kind := .privilegedReset,
    why := "set_eval_limit (0): the running budget is reset (privileged efun)" },
  { site := ("lib/lpc/functional.c", "safe_call_function_pointer", "eval_cost = 1;"), kind := .safeOneTick,
    why := "an expiry stopped by a safe apply leaves its caller one tick" },
  { site := ("lib/rc/rc.cpp", "init_config", "CONFIG_INT (__MAX_EVAL_COST__) = 1;"), kind := .configClamp,
    why := "the budget read from the config file is at least 1" },
  { site := ("lib/rc/rc.cpp", "init_config", "CONFIG_INT (__MAX_EVAL_COST__) = scan_config_i (config, \"\", 0, N);"), kind := .configSet,
    why := "the budget is read from the config file" },
  { site := ("src/apply.c", "safe_apply", "eval_cost = 1;"), kind := .safeOneTick,
    why := "an expiry stopped by a safe apply leaves its caller one tick" },
  { site := ("src/backend.c", "<file scope>", "int64_t eval_cost = 0;"), kind := .definition,
    why := "the variable itself" },
  { site := ("src/backend.c", "backend", "eval_cost = CONFIG_INT (__MAX_EVAL_COST__);"), kind := .taskStart,
    why := "a full budget before the driver starts an evaluation" },
  { site := ("src/backend.c", "call_heart_beat", "eval_cost = CONFIG_INT (__MAX_EVAL_COST__);"), kind := .taskStart,
    why := "a full budget before the driver starts an evaluation" },
  { site := ("src/backend.c", "init_console_user", "eval_cost = CONFIG_INT (__MAX_EVAL_COST__);"), kind := .taskStart,
    why := "a full budget before the driver starts an evaluation" },
  { site := ("src/backend.c", "look_for_objects_to_swap", "eval_cost = CONFIG_INT (__MAX_EVAL_COST__);"), kind := .taskStart,
    why := "a full budget before the driver starts an evaluation" },
  { site := ("src/backend.c", "preload_objects", "eval_cost = CONFIG_INT (__MAX_EVAL_COST__);"), kind := .taskStart,
    why := "a full budget before the driver starts an evaluation" },
  { site := ("src/interpret.c", "call_efun_callback", "eval_cost = CONFIG_INT (__MAX_EVAL_COST__);"), kind := .expiryRefill,
    why := "refilled on expiry, before the error no catch can stop (the master's handler runs on it)" },
  { site := ("src/interpret.c", "call_efun_callback", "if (!--eval_cost)"), kind := .tick,
    why := "one tick charged; zero is the expiry" },
  { site := ("src/interpret.c", "eval_instruction", "eval_cost = CONFIG_INT (__MAX_EVAL_COST__);"), kind := .expiryRefill,
    why := "refilled on expiry, before the error no catch can stop (the master's handler runs on it)" },
  { site := ("src/interpret.c", "eval_instruction", "if (!--eval_cost)"), kind := .tick,
    why := "one tick charged; zero is the expiry" },
  { site := ("src/main.c", "main", "eval_cost = CONFIG_INT (__MAX_EVAL_COST__);"), kind := .taskStart,
    why := "a full budget before the driver starts an evaluation" },
  { site := ("src/main.c", "sig_usr2", "eval_cost = 1;"), kind := .signalAbort,
    why := "SIGUSR2: the running evaluation is cut short" }]

/-- no unprivileged statement that can run inside an evaluation gives the evaluation more ticks than it had, the refill
    on expiry excepted -/
theorem refill_rules_sound : ∀ r ∈ refillRules, r.kind.midEval = true → r.kind.privileged = false → r.kind ≠ .expiryRefill →
    ∀ cost budget arg : Int, 0 < cost → (r.kind.effect cost budget arg).1 ≤ cost ∧ (r.kind.effect cost budget arg).2 = budget := by
  intro r _ h1 h2 h3 cost budget arg hc
  cases hk : r.kind <;> simp [hk, RefillKind.midEval, RefillKind.privileged] at h1 h2 h3 <;>
    simp [RefillKind.effect] <;> omega

/-- every function that refills on expiry also holds the tick test (the refill is the expiry branch of that test), and
    the configured budget is never assigned without the clamp that follows it in the same function -/
def refillTableOk : Bool :=
  (refillRules.all fun r => r.kind != .expiryRefill ||
    refillRules.any fun t => t.kind == .tick && t.site.1 == r.site.1 && t.site.2.1 == r.site.2.1) &&
  (refillRules.all fun r => r.kind != .configSet ||
    refillRules.any fun t => t.kind == .configClamp && t.site.1 == r.site.1 && t.site.2.1 == r.site.2.1)

end NV.C04
