/-
C04 — the instructions of one evaluation are bounded by the budget (for a positive budget and programs that do
not go through a safe apply): `ticks + eval_cost` is conserved until the budget expires, and after the expiry
nothing executes any more because no catch frame can complete (Lemmas.exec_BitsOk).
-/
import NV.C04.Lemmas

namespace NV.C04

open NV.Gen.C04

def Sh.noSafe : Sh → Bool
  | .safe _ => false
  | .call _ b => b.noSafe
  | .catch_ b => b.noSafe
  | .cb _ b => b.noSafe
  | .seq a b => a.noSafe && b.noSafe
  | _ => true

/-- instructions executed plus instructions left -/
def phi (s : St) : Int := (s.ticks : Int) + s.cost

/-- the result lets the evaluation go on: completed, or an error a catch frame may handle -/
def Out.soft : Out → Bool
  | .ok => true
  | .raised k => !k.isLimit
  | .fuel => false

/-- tick accounting of a step from `s` to `r` -/
def TB (s : St) (r : Out × St) : Prop :=
  0 < s.cost → (r.1.soft = true → phi r.2 = phi s ∧ 0 < r.2.cost) ∧ (r.2.ticks : Int) ≤ phi s

theorem TB_seqM {s : St} {r : Out × St} {k : St → Out × St} (h1 : TB s r) (h2 : ∀ s1, TB s1 (k s1)) :
    TB s (seqM r k) := by
  intro hc
  obtain ⟨ha, hb⟩ := h1 hc
  unfold seqM
  split
  · rename_i s1
    obtain ⟨hphi, hc1⟩ := ha rfl
    obtain ⟨hk1, hk2⟩ := h2 s1 hc1
    exact ⟨fun hs => by rw [← hphi]; exact hk1 hs, by rw [← hphi]; exact hk2⟩
  · exact ⟨ha, hb⟩

theorem raise_ticks (cfg : Cfg) (ctx : Ctx) (k : Kind) (s : St) :
    (raise cfg ctx k s).2.ticks = s.ticks ∧ (raise cfg ctx k s).2.cost = s.cost ∧ (raise cfg ctx k s).1 = .raised k := by
  unfold raise; cases ctx <;> simp <;> split <;> simp

theorem TB_raise (cfg : Cfg) (ctx : Ctx) (k : Kind) (s0 s : St) (ht : (s.ticks : Int) ≤ phi s0)
    (hsoft : k.isLimit = false → phi s = phi s0 ∧ 0 < s.cost) : TB s0 (raise cfg ctx k s) := by
  intro _
  obtain ⟨h1, h2, h3⟩ := raise_ticks cfg ctx k s
  refine ⟨fun hs => ?_, by rw [h1]; exact ht⟩
  rw [h3] at hs
  have hk : k.isLimit = false := by simpa [Out.soft] using hs
  obtain ⟨hp, hc⟩ := hsoft hk
  exact ⟨by unfold phi at hp ⊢; rw [h1, h2]; exact hp, by rw [h2]; exact hc⟩

theorem TB_tick (cfg : Cfg) (ctx : Ctx) (s : St) : TB s (tick cfg ctx s) := by
  intro hc
  unfold tick
  simp only
  split
  · rename_i hz
    have hz' : s.cost - 1 = 0 := by simpa using hz
    have hle : (((setEs { s with ticks := s.ticks + 1, cost := s.cost - 1 } esMaxEvalCost).ticks : Nat) : Int) ≤ phi s := by
      show (((s.ticks + 1 : Nat) : Int)) ≤ phi s
      unfold phi; omega
    exact TB_raise cfg ctx .cost s _ hle (fun h => by cases h) hc
  · rename_i hz
    have hz' : s.cost - 1 ≠ 0 := by simpa using hz
    refine ⟨fun _ => ⟨?_, ?_⟩, ?_⟩
    · show (((s.ticks + 1 : Nat) : Int)) + (s.cost - 1) = phi s
      unfold phi; omega
    · show 0 < s.cost - 1
      omega
    · show (((s.ticks + 1 : Nat) : Int)) ≤ phi s
      unfold phi; omega

theorem TB_stop (s : St) (o : Out) (ho : o.soft = false) : TB s (o, s) := by
  intro hc
  refine ⟨fun h => ?_, ?_⟩
  · rw [ho] at h; cases h
  · show (s.ticks : Int) ≤ phi s
    unfold phi; omega

theorem TB_ok_same (s s' : St) (h1 : s'.ticks = s.ticks) (h2 : s'.cost = s.cost) : TB s (.ok, s') := by
  intro hc
  exact ⟨fun _ => ⟨by unfold phi; rw [h1, h2], by rw [h2]; exact hc⟩, by unfold phi; rw [h1]; omega⟩

theorem TB_ticksN (cfg : Cfg) (ctx : Ctx) (n : Nat) (s : St) : TB s (ticksN cfg ctx n s) := by
  induction n generalizing s with
  | zero => unfold ticksN; exact TB_ok_same _ _ rfl rfl
  | succ n ih =>
    unfold ticksN
    have ht := TB_tick cfg ctx s
    have : TB s (seqM (tick cfg ctx s) (fun s1 => ticksN cfg ctx n s1)) := TB_seqM ht (fun s1 => ih s1)
    unfold seqM at this
    exact this

theorem TB_spin (cfg : Cfg) (ctx : Ctx) (n : Nat) (s : St) : TB s (spin cfg ctx n s) := by
  induction n generalizing s with
  | zero => unfold spin; exact TB_stop _ _ rfl
  | succ n ih =>
    unfold spin
    have ht := TB_tick cfg ctx s
    have : TB s (seqM (tick cfg ctx s) (fun s1 => spin cfg ctx n s1)) := TB_seqM ht (fun s1 => ih s1)
    unfold seqM at this
    exact this

theorem TB_pushFrame (cfg : Cfg) (ctx : Ctx) (s : St) : TB s (pushFrame cfg ctx s) := by
  unfold pushFrame
  split
  · intro hc
    exact TB_raise cfg ctx .deep s _ (by show (s.ticks : Int) ≤ phi s; unfold phi; omega) (fun h => by cases h) hc
  · exact TB_ok_same _ _ rfl rfl

theorem TB_pushChecked (cfg : Cfg) (ctx : Ctx) (n : Nat) (s : St) : TB s (pushChecked cfg ctx n s) := by
  unfold pushChecked
  split
  · intro hc
    exact TB_raise cfg ctx .stack s _ (by show (s.ticks : Int) ≤ phi s; unfold phi; omega) (fun h => by cases h) hc
  · exact TB_ok_same _ _ rfl rfl

/-- relating the result of a sub-run that started in `s1` (same ticks and cost as `s`) to `s` -/
theorem TB_of_eq {s s1 : St} {r : Out × St} (h : TB s1 r) (h1 : s1.ticks = s.ticks) (h2 : s1.cost = s.cost) : TB s r := by
  intro hc
  have := h (by rw [h2]; exact hc)
  unfold phi at this ⊢
  rw [h1, h2] at this
  exact this

theorem TB_catchLanding (cfg : Cfg) (ctx : Ctx) (d0 p0 : Int) (k : Kind) (s0 s : St)
    (hb : k.isLimit = true → limitSet s) (h : TB s0 (.raised k, s)) :
    TB s0 (catchLanding cfg ctx d0 p0 k s) := by
  intro hc
  obtain ⟨ha, hbd⟩ := h hc
  unfold catchLanding
  simp only
  split
  · exact TB_raise cfg ctx .cost s0 _ (by exact hbd) (fun h => by cases h) hc
  · split
    · exact TB_raise cfg ctx .deep s0 _ (by exact hbd) (fun h => by cases h) hc
    · rename_i h1 h2
      have hk : k.isLimit = false := by
        cases hl : k.isLimit with
        | false => rfl
        | true =>
          exfalso
          rcases hb hl with hc' | hf
          · apply h1; simpa [hasEs, pushUnchecked, leave] using hc'
          · apply h2; simpa [hasEs, pushUnchecked, leave] using hf
      obtain ⟨hp, hcost⟩ := ha (by simp [Out.soft, hk])
      exact ⟨fun _ => ⟨hp, hcost⟩, hbd⟩

/-- tick accounting of every safe-apply-free shape -/
theorem exec_TB (cfg : Cfg) (fuel : Nat) (ctx : Ctx) (sh : Sh) (s : St) (hns : sh.noSafe = true) :
    TB s (exec cfg fuel ctx sh s) := by
  induction fuel generalizing ctx sh s with
  | zero => unfold exec; exact TB_stop _ _ rfl
  | succ f ih =>
    unfold exec
    cases sh with
    | skip => exact TB_ok_same _ _ rfl rfl
    | work n => exact TB_ticksN cfg ctx n s
    | spin => exact TB_spin cfg ctx _ s
    | err =>
      intro hc
      exact TB_raise cfg ctx .plain s s (by unfold phi; omega) (fun _ => ⟨rfl, hc⟩) hc
    | throw_ =>
      cases ctx
      · show TB s (raise cfg .driver .plain s)
        intro hc
        exact TB_raise cfg _ .plain s s (by unfold phi; omega) (fun _ => ⟨rfl, hc⟩) hc
      · show TB s (.raised .thrown, s)
        intro hc
        exact ⟨fun _ => ⟨rfl, hc⟩, by show (s.ticks : Int) ≤ phi s; unfold phi; omega⟩
      · show TB s (raise cfg .safe .plain s)
        intro hc
        exact TB_raise cfg _ .plain s s (by unfold phi; omega) (fun _ => ⟨rfl, hc⟩) hc
    | seq a b =>
      have hab : a.noSafe = true ∧ b.noSafe = true := by simpa [Sh.noSafe] using hns
      exact TB_seqM (ih ctx a s hab.1) (fun s1 => ih ctx b s1 hab.2)
    | call locals body =>
      have hb : body.noSafe = true := by simpa [Sh.noSafe] using hns
      exact TB_seqM (TB_pushFrame cfg ctx s) fun s1 =>
        TB_seqM (TB_pushChecked cfg ctx locals s1) fun s2 =>
        TB_seqM (TB_ticksN cfg ctx _ s2) fun s3 =>
        TB_seqM (ih ctx body s3 hb) fun s4 => TB_ok_same _ _ rfl rfl
    | recur locals => exact ih ctx _ s (by simp [Sh.noSafe])
    | crecur => exact ih ctx _ s (by simp [Sh.noSafe])
    | cb k body =>
      have hb : body.noSafe = true := by simpa [Sh.noSafe] using hns
      cases k with
      | zero => exact TB_ok_same _ _ rfl rfl
      | succ k =>
        exact TB_seqM (ih ctx _ s (by simpa [Sh.noSafe] using hb)) (fun s1 => ih ctx _ s1 (by simpa [Sh.noSafe] using hb))
    | safe body => simp [Sh.noSafe] at hns
    | catch_ body =>
      have hb : body.noSafe = true := by simpa [Sh.noSafe] using hns
      simp only
      split
      · intro hc
        exact TB_raise cfg ctx .deep s _ (by show (s.ticks : Int) ≤ phi s; unfold phi; omega) (fun h => by cases h) hc
      · have hi : TB s (exec cfg f .catch_ body (pushCatchFrame s)) := TB_of_eq (ih .catch_ body _ hb) rfl rfl
        have hbits := exec_BitsOk cfg f body (pushCatchFrame s)
        split
        · rename_i s2 heq; rw [heq] at hi
          intro hc
          obtain ⟨ha, hbd⟩ := hi hc
          exact ⟨fun _ => ha rfl, hbd⟩
        · rename_i s2 heq; rw [heq] at hi
          intro hc
          exact ⟨fun h => (by cases h), (hi hc).2⟩
        · rename_i k s2 heq; rw [heq] at hi hbits
          exact TB_catchLanding cfg ctx _ _ k s s2 (fun hl => hbits k rfl hl) hi

end NV.C04
