/-
C04 — the instructions of one evaluation are bounded by the budget: `ticks + eval_cost` is conserved until the
budget expires; after the expiry nothing executes any more, because no catch frame can complete
(Lemmas.exec_BitsOk) and a safe apply that stops the error leaves its caller one tick (fix d927c4d).  Each safe
apply of the program can therefore add at most one instruction to the bound.
-/
import NV.C04.Lemmas

namespace NV.C04

open NV.Gen.C04

/-- instructions executed plus instructions left -/
def phi (s : St) : Int := (s.ticks : Int) + s.cost

/-- the budget has not expired on the way to this result: completed, or an error other than the evaluation-cost one -/
def Out.live : Out → Bool
  | .ok => true
  | .raised k => k != .cost
  | .fuel => false

/-- tick accounting of a step from `s` to `r` with `n` extra ticks allowed -/
def TB (n : Nat) (s : St) (r : Out × St) : Prop :=
  0 < s.cost → (r.1.live = true → phi r.2 ≤ phi s + n ∧ 0 < r.2.cost) ∧ (r.2.ticks : Int) ≤ phi s + n

theorem TB_mono {n m : Nat} {s : St} {r : Out × St} (h : TB n s r) (hnm : n ≤ m) : TB m s r := by
  intro hc
  obtain ⟨ha, hb⟩ := h hc
  exact ⟨fun hl => ⟨by have := (ha hl).1; omega, (ha hl).2⟩, by omega⟩

theorem TB_seqM {n m : Nat} {s : St} {r : Out × St} {k : St → Out × St} (h1 : TB n s r) (h2 : ∀ s1, TB m s1 (k s1)) :
    TB (n + m) s (seqM r k) := by
  intro hc
  obtain ⟨ha, hb⟩ := h1 hc
  unfold seqM
  split
  · rename_i s1
    obtain ⟨hphi, hc1⟩ := ha rfl
    obtain ⟨hk1, hk2⟩ := h2 s1 hc1
    refine ⟨fun hs => ⟨?_, (hk1 hs).2⟩, ?_⟩
    · have := (hk1 hs).1; simp only at hphi; omega
    · simp only at hphi; omega
  · exact ⟨fun hl => ⟨by have := (ha hl).1; omega, (ha hl).2⟩, by omega⟩

theorem TB_raise (cfg : Cfg) (ctx : Ctx) (k : Kind) (n : Nat) (s0 s : St) (ht : (s.ticks : Int) ≤ phi s0 + n)
    (hlive : k ≠ .cost → phi s ≤ phi s0 + n ∧ 0 < s.cost) : TB n s0 (raise cfg ctx k s) := by
  intro _
  unfold raise
  refine ⟨fun hs => ?_, ht⟩
  have hk : k ≠ .cost := by
    intro he; subst he; simp [Out.live] at hs
  exact hlive hk

theorem TB_tick (cfg : Cfg) (ctx : Ctx) (s : St) : TB 0 s (tick cfg ctx s) := by
  intro hc
  unfold tick
  simp only
  split
  · rename_i hz
    have hz' : s.cost - 1 = 0 := by simpa using hz
    have hle : (((setEs { s with ticks := s.ticks + 1, cost := s.cost - 1 } esMaxEvalCost).ticks : Nat) : Int) ≤ phi s + (0 : Nat) := by
      show (((s.ticks + 1 : Nat) : Int)) ≤ phi s + (0 : Nat)
      unfold phi; omega
    exact TB_raise cfg ctx .cost 0 s _ hle (fun h => absurd rfl h) hc
  · rename_i hz
    have hz' : s.cost - 1 ≠ 0 := by simpa using hz
    refine ⟨fun _ => ⟨?_, ?_⟩, ?_⟩
    · show (((s.ticks + 1 : Nat) : Int)) + (s.cost - 1) ≤ phi s + (0 : Nat)
      unfold phi; omega
    · show 0 < s.cost - 1
      omega
    · show (((s.ticks + 1 : Nat) : Int)) ≤ phi s + (0 : Nat)
      unfold phi; omega

theorem TB_stop (s : St) (o : Out) (ho : o.live = false) : TB 0 s (o, s) := by
  intro hc
  refine ⟨fun h => ?_, ?_⟩
  · rw [ho] at h; cases h
  · show (s.ticks : Int) ≤ phi s + (0 : Nat)
    unfold phi; omega

theorem TB_ok_same (s s' : St) (o : Out) (h1 : s'.ticks = s.ticks) (h2 : s'.cost = s.cost) : TB 0 s (o, s') := by
  intro hc
  refine ⟨fun _ => ⟨?_, by show 0 < s'.cost; rw [h2]; exact hc⟩, ?_⟩
  · show phi s' ≤ phi s + (0 : Nat)
    unfold phi; rw [h1, h2]; omega
  · show (s'.ticks : Int) ≤ phi s + (0 : Nat)
    unfold phi; rw [h1]; omega

theorem TB_ticksN (cfg : Cfg) (ctx : Ctx) (n : Nat) (s : St) : TB 0 s (ticksN cfg ctx n s) := by
  induction n generalizing s with
  | zero => unfold ticksN; exact TB_ok_same _ _ _ rfl rfl
  | succ n ih =>
    unfold ticksN
    have ht := TB_tick cfg ctx s
    have : TB (0 + 0) s (seqM (tick cfg ctx s) (fun s1 => ticksN cfg ctx n s1)) := TB_seqM ht (fun s1 => ih s1)
    unfold seqM at this
    exact this

theorem TB_spin (cfg : Cfg) (ctx : Ctx) (n : Nat) (s : St) : TB 0 s (spin cfg ctx n s) := by
  induction n generalizing s with
  | zero => unfold spin; exact TB_stop _ _ rfl
  | succ n ih =>
    unfold spin
    have ht := TB_tick cfg ctx s
    have : TB (0 + 0) s (seqM (tick cfg ctx s) (fun s1 => spin cfg ctx n s1)) := TB_seqM ht (fun s1 => ih s1)
    unfold seqM at this
    exact this

theorem TB_pushFrame (cfg : Cfg) (ctx : Ctx) (s : St) : TB 0 s (pushFrame cfg ctx s) := by
  unfold pushFrame
  split
  · exact TB_ok_same _ _ _ rfl rfl
  · exact TB_ok_same _ _ _ rfl rfl

theorem TB_pushChecked (cfg : Cfg) (ctx : Ctx) (n : Nat) (s : St) : TB 0 s (pushChecked cfg ctx n s) := by
  unfold pushChecked
  split
  · exact TB_ok_same _ _ _ rfl rfl
  · exact TB_ok_same _ _ _ rfl rfl

/-- relating the result of a sub-run that started in `s1` (same ticks and cost as `s`) to `s` -/
theorem TB_of_eq {n : Nat} {s s1 : St} {r : Out × St} (h : TB n s1 r) (h1 : s1.ticks = s.ticks) (h2 : s1.cost = s.cost) :
    TB n s r := by
  intro hc
  have := h (by rw [h2]; exact hc)
  unfold phi at this ⊢
  rw [h1, h2] at this
  exact this

theorem TB_catchLanding (cfg : Cfg) (ctx : Ctx) (n : Nat) (d0 p0 : Int) (k : Kind) (s0 s : St)
    (hb : k = .cost → hasEs s esMaxEvalCost = true) (h : TB n s0 (.raised k, s)) :
    TB n s0 (catchLanding cfg ctx d0 p0 k s) := by
  intro hc
  obtain ⟨ha, hbd⟩ := h hc
  unfold catchLanding
  simp only
  split
  · exact TB_raise cfg ctx .cost n s0 _ hbd (fun h => absurd rfl h) hc
  · rename_i h1
    have hk : k ≠ .cost := by
      intro he; apply h1; simpa [hasEs, pushUnchecked, leave] using hb he
    have hlive := ha (by simp [Out.live, hk])
    split
    · exact TB_raise cfg ctx .deep n s0 _ hbd (fun _ => hlive) hc
    · exact ⟨fun _ => hlive, hbd⟩

/-- tick accounting of every shape: at most `safeWeight` instructions beyond the budget -/
theorem exec_TB (cfg : Cfg) (fuel : Nat) (ctx : Ctx) (sh : Sh) (s : St) :
    TB sh.safeWeight s (exec cfg fuel ctx sh s) := by
  induction fuel generalizing ctx sh s with
  | zero => unfold exec; exact TB_mono (TB_stop _ _ rfl) (Nat.zero_le _)
  | succ f ih =>
    unfold exec
    cases sh with
    | skip => exact TB_ok_same _ _ _ rfl rfl
    | work n => exact TB_ticksN cfg ctx n s
    | spin => exact TB_spin cfg ctx _ s
    | err => exact TB_ok_same _ _ _ rfl rfl
    | throw_ =>
      cases ctx
      · exact TB_ok_same _ _ _ rfl rfl
      · exact TB_ok_same _ _ _ rfl rfl
      · exact TB_ok_same _ _ _ rfl rfl
    | seq a b => exact TB_seqM (ih ctx a s) (fun s1 => ih ctx b s1)
    | call locals body =>
      have := TB_seqM (TB_pushFrame cfg ctx s) fun s1 =>
        TB_seqM (TB_pushChecked cfg ctx locals s1) fun s2 =>
        TB_seqM (TB_ticksN cfg ctx callTicks s2) fun s3 =>
        TB_seqM (ih ctx body s3) fun s4 =>
        TB_seqM (TB_tick cfg ctx s4) fun s5 => TB_ok_same s5 (leave s5 s.depth s.sp) .ok rfl rfl
      exact TB_mono this (by simp [Sh.safeWeight])
    | recur locals => exact TB_mono (ih ctx _ s) (by simp [Sh.safeWeight])
    | crecur => exact TB_mono (ih ctx _ s) (by simp [Sh.safeWeight])
    | cb k body =>
      cases k with
      | zero => exact TB_mono (TB_ok_same _ _ _ rfl rfl) (Nat.zero_le _)
      | succ k =>
        have := TB_seqM (TB_tick cfg ctx s) fun s0 => TB_seqM (ih ctx (.call 0 (.call 0 body)) s0) (fun s1 => ih ctx (.cb k body) s1)
        exact TB_mono this (by simp [Sh.safeWeight, Nat.succ_mul]; omega)
    | safe body =>
      have hw0 : (Sh.safe body).safeWeight = 0 + (body.safeWeight + 1) := by simp [Sh.safeWeight]
      rw [hw0]
      refine TB_seqM (TB_tick cfg ctx s) (fun s => ?_)
      simp only
      split
      · exact TB_mono (TB_ok_same _ _ _ rfl rfl) (Nat.zero_le _)
      · have hi := ih .safe (.call 0 body) s
        have hbits := exec_BitsOk cfg f .safe (.call 0 body) s
        have hw : (Sh.call 0 body).safeWeight = body.safeWeight := by simp [Sh.safeWeight]
        rw [hw] at hi
        split
        · rename_i s1 heq; rw [heq] at hi
          intro hc
          obtain ⟨ha, hbd⟩ := hi hc
          have h1 : phi s1 ≤ phi s + (body.safeWeight : Int) ∧ 0 < s1.cost := ha rfl
          have h2 : (s1.ticks : Int) ≤ phi s + (body.safeWeight : Int) := hbd
          refine ⟨fun _ => ⟨?_, h1.2⟩, ?_⟩
          · show (s1.ticks : Int) + s1.cost ≤ phi s + ((body.safeWeight + 1 : Nat) : Int)
            have := h1.1; unfold phi at this ⊢; omega
          · show (s1.ticks : Int) ≤ phi s + ((body.safeWeight + 1 : Nat) : Int)
            omega
        · rename_i k s1 heq; rw [heq] at hi hbits
          intro hc
          obtain ⟨ha, hbd⟩ := hi hc
          have h2 : (s1.ticks : Int) ≤ phi s + (body.safeWeight : Int) := hbd
          refine ⟨fun _ => ?_, ?_⟩
          · show (s1.ticks : Int) + (if hasEs s1 esMaxEvalCost then (safeTickLeft : Int) else s1.cost) ≤ phi s + ((body.safeWeight + 1 : Nat) : Int) ∧
              0 < (if hasEs s1 esMaxEvalCost then (safeTickLeft : Int) else s1.cost)
            split
            · unfold safeTickLeft; exact ⟨by omega, by omega⟩
            · rename_i hnb
              have hk : k ≠ .cost := by
                intro he
                have hl : k.isLimit = true := by subst he; rfl
                exact hnb ((hbits k rfl hl).2 he)
              have h1 : phi s1 ≤ phi s + (body.safeWeight : Int) ∧ 0 < s1.cost := ha (by simp [Out.live, hk])
              have := h1.1
              refine ⟨?_, h1.2⟩
              unfold phi at this ⊢; omega
          · show (s1.ticks : Int) ≤ phi s + ((body.safeWeight + 1 : Nat) : Int)
            omega
        · rename_i s1 heq; rw [heq] at hi
          intro hc
          obtain ⟨ha, hbd⟩ := hi hc
          have h2 : (s1.ticks : Int) ≤ phi s + (body.safeWeight : Int) := hbd
          exact ⟨fun h => (by cases h), (by show (s1.ticks : Int) ≤ phi s + ((body.safeWeight + 1 : Nat) : Int); omega)⟩
    | catch_ body =>
      simp only
      split
      · exact TB_mono (TB_ok_same _ _ _ rfl rfl) (Nat.zero_le _)
      · have hi : TB body.safeWeight s (exec cfg f .catch_ body (pushCatchFrame s)) := TB_of_eq (ih .catch_ body _) rfl rfl
        have hbits := exec_BitsOk cfg f .catch_ body (pushCatchFrame s)
        split
        · rename_i s2 heq; rw [heq] at hi
          intro hc
          obtain ⟨ha, hbd⟩ := hi hc
          exact ⟨fun _ => ha rfl, hbd⟩
        · rename_i s2 heq; rw [heq] at hi
          intro hc
          exact ⟨fun h => (by cases h), (hi hc).2⟩
        · rename_i k s2 heq; rw [heq] at hi hbits
          apply TB_catchLanding cfg ctx _ _ _ k s s2 _ hi
          intro he
          have hl : k.isLimit = true := by subst he; rfl
          exact (hbits k rfl hl).2 he

end NV.C04
