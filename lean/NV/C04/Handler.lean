/-
C04 — model of error_handler () (src/error_context.c): what the receiving error context sees of `error_state`,
whatever the master's error handler does.

The limits machine (Model.lean) takes `raise` to be the identity on `error_state`: "the master's handler runs first,
then the longjmp; the receiving context sees the state of the raise".  That is a property of error_handler (), and it
was false before fix d13165e for a handler that completes a catch () and then raises an error of its own.  This file
models the function with its flags, in the order of the C code:

    caught path (the innermost context is a catch frame)            uncaught path
      if (in_mudlib_error_handler)                                     if (in_error) longjmp
        { in_mudlib_error_handler = 0;                                 in_error = 1;
          set_error_state (handler_limit_state); }        (fix)        if (in_mudlib_error_handler)
      else                                                               { in_mudlib_error_handler = 0;
        { limit_state = get_error_state (FULL | COST);                     set_error_state (handler_limit_state); }   (fix)
          handler_limit_state = limit_state;              (fix)        else
          in_mudlib_error_handler = 1;                                   { limit_state = ...; handler_limit_state = limit_state;
          mudlib_error_handler (err, 1);                                   in_mudlib_error_handler = 1; in_error = 0;
          in_mudlib_error_handler = 0;                                     mudlib_error_handler (err, 0);
          set_error_state (limit_state); }                                 in_error = 1; in_mudlib_error_handler = 0;
      longjmp                                                              set_error_state (limit_state); }
                                                                       in_error = 0; longjmp

The mudlib handler is LPC code: it may complete a catch () or a safe apply (pop_context clears error_state), return,
raise an ordinary error, or run out of budget (which sets ES_MAX_EVAL_COST) - an error raised inside it enters
error_handler () again, with the same innermost context, and never comes back to the outer invocation.
`error_state` is the pair of its two bits, so every statement below is decided by evaluation over all states.
-/
namespace NV.C04

/-- the variables error_handler () reads and writes -/
structure EH where
  full : Bool            -- error_state & ES_STACK_FULL
  cost : Bool            -- error_state & ES_MAX_EVAL_COST
  inMudlib : Bool        -- in_mudlib_error_handler
  inError : Bool         -- in_error
  savedFull : Bool       -- handler_limit_state & ES_STACK_FULL
  savedCost : Bool       -- handler_limit_state & ES_MAX_EVAL_COST
  deriving Repr, DecidableEq

/-- what the mudlib error handler does -/
inductive HBeh
  | returns (catches : Bool)         -- runs to its end (after completing a catch () / safe apply or not)
  | raises (catchesFirst : Bool)     -- raises an ordinary error of its own
  | expires (catchesFirst : Bool)    -- runs out of evaluation cost
  deriving Repr, DecidableEq

/-- a catch () or safe apply completing inside the handler: pop_context → clear_error_state -/
def EH.afterCatch (s : EH) (c : Bool) : EH := if c then { s with full := false, cost := false } else s

/-- the nested invocation (an error raised by the handler itself): `restore` is the fix -/
def nestedHandler (restore : Bool) (ctxIsCatch : Bool) (s : EH) : EH :=
  if ctxIsCatch then
    -- caught path, in_mudlib_error_handler is set
    let s := { s with inMudlib := false }
    if restore then { s with full := s.full || s.savedFull, cost := s.cost || s.savedCost } else s
  else if s.inError then s
  else
    let s := { s with inError := true, inMudlib := false }
    let s := if restore then { s with full := s.full || s.savedFull, cost := s.cost || s.savedCost } else s
    { s with inError := false }

/-- error_handler () entered from an evaluation (no handler running); the result is the state at the longjmp -/
def errorHandlerW (restore : Bool) (ctxIsCatch : Bool) (beh : HBeh) (s : EH) : EH :=
  let limFull := s.full
  let limCost := s.cost
  let s := { s with savedFull := limFull, savedCost := limCost, inMudlib := true }
  let s := if ctxIsCatch then s else { s with inError := false }
  match beh with
  | .returns c =>
    let s := s.afterCatch c
    { s with inMudlib := false, inError := false, full := s.full || limFull, cost := s.cost || limCost }
  | .raises c => nestedHandler restore ctxIsCatch (s.afterCatch c)
  | .expires c =>
    -- eval_instruction: set_error_state (ES_MAX_EVAL_COST) before error ()
    nestedHandler restore ctxIsCatch { (s.afterCatch c) with cost := true }

/-- the code as it is now -/
def errorHandler : Bool → HBeh → EH → EH := errorHandlerW true

/-- the code before fix d13165e -/
def errorHandlerOld : Bool → HBeh → EH → EH := errorHandlerW false

/-- every state error_handler () can be entered in from an evaluation -/
def allEH : List EH :=
  [false, true].flatMap fun a => [false, true].flatMap fun b => [false, true].flatMap fun c => [false, true].map fun d =>
    { full := a, cost := b, inMudlib := false, inError := false, savedFull := c, savedCost := d }

def allBeh : List HBeh :=
  [.returns false, .returns true, .raises false, .raises true, .expires false, .expires true]

/-- the receiving context sees every limit bit the error was raised with, and the flags are back to rest -/
def keepsOk (f : Bool → HBeh → EH → EH) : Bool :=
  [false, true].all fun ctx => allBeh.all fun beh => allEH.all fun s =>
    let r := f ctx beh s
    (!s.full || r.full) && (!s.cost || r.cost) && !r.inMudlib && !r.inError

/-- **handler_keeps_limit_state**: whatever the master's error handler does - return, complete a catch, raise an error
    of its own, run out of budget, before or after a catch - and whichever kind of context receives the error, the
    limit bits of `error_state` at the raise are set when the longjmp is made (what `raise` in Model.lean assumes), and
    in_error / in_mudlib_error_handler are clear again. -/
theorem handler_keeps_limit_state : keepsOk errorHandler = true := by decide

/-- in the form the machine uses it: for each state, behaviour and context -/
theorem handler_keeps_limit_state_each (ctx : Bool) (beh : HBeh) (full cost sf sc : Bool) :
    let s : EH := { full := full, cost := cost, inMudlib := false, inError := false, savedFull := sf, savedCost := sc }
    (full = true → (errorHandler ctx beh s).full = true) ∧ (cost = true → (errorHandler ctx beh s).cost = true) := by
  cases ctx <;> cases beh <;> rename_i c <;> cases c <;> cases full <;> cases cost <;> cases sf <;> cases sc <;> decide

/-- before the fix: a handler that completes a catch () and then raises an error loses the evaluation-cost bit, on both
    paths (caught: catch (spin ()) completes; uncaught: safe_apply does not cut its caller down to one tick) -/
theorem handler_lost_limit_state_before_fix :
    keepsOk errorHandlerOld = false ∧
    (errorHandlerOld true (.raises true) { full := false, cost := true, inMudlib := false, inError := false,
                                            savedFull := false, savedCost := false }).cost = false ∧
    (errorHandlerOld false (.raises true) { full := false, cost := true, inMudlib := false, inError := false,
                                             savedFull := false, savedCost := false }).cost = false := by decide

end NV.C04
