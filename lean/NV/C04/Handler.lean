/-
C04 — model of error_handler () (src/error_context.c): what the receiving error context sees of `error_state`,
whatever the master's error handler does.

The limits machine (Model.lean) takes `raise` to be the identity on `error_state`: "the master's handler runs first,
then the longjmp; the receiving context sees the state of the raise".  That is a property of error_handler (), and it
was false before fix d13165e for a handler that completes a catch () and then raises an error of its own.  This file
models the function with its flags, in the order of the C code:

    caught path (the innermost context is a catch frame)            uncaught path
      if (in_mudlib_error_handler)                                     if (in_error) longjmp
        { if (current_error_context == handler's context)              in_error = 1;
            { in_mudlib_error_handler = 0;                             if (in_mudlib_error_handler)
              set_error_state (handler_limit_state); } }  (fix)          { if (current_error_context == handler's context)
      else                                                                 { in_mudlib_error_handler = 0;
        { limit_state = get_error_state (FULL | COST);                       set_error_state (handler_limit_state); } }   (fix)
          handler_limit_state = limit_state;              (fix)        else
          in_mudlib_error_handler = 1;                                   { limit_state = ...; handler_limit_state = limit_state;
          mudlib_error_handler (err, 1);                                   in_mudlib_error_handler = 1; in_error = 0;
          in_mudlib_error_handler = 0;                                     mudlib_error_handler (err, 0);
          set_error_state (limit_state); }                                 in_error = 1; in_mudlib_error_handler = 0;
      longjmp                                                              set_error_state (limit_state); }
                                                                       in_error = 0; longjmp

The mudlib handler is LPC code: it may complete a catch () or a safe apply (pop_context clears error_state), return,
raise an ordinary error, or run out of budget (which sets ES_MAX_EVAL_COST) - an error raised inside it enters
error_handler () again, with the same innermost context, and never comes back to the outer invocation.
`error_state` is the pair of its two bits, so every statement below is decided by evaluation over all states.
-/
namespace NV.C04

/-- the variables error_handler () reads and writes -/
structure EH where
  full : Bool            -- error_state & ES_STACK_FULL
  cost : Bool            -- error_state & ES_MAX_EVAL_COST
  inMudlib : Bool        -- in_mudlib_error_handler
  inError : Bool         -- in_error
  savedFull : Bool       -- handler_limit_state & ES_STACK_FULL
  savedCost : Bool       -- handler_limit_state & ES_MAX_EVAL_COST
  deriving Repr, DecidableEq

/-- what the mudlib error handler does in the end -/
inductive HBeh
  | returns (catches : Bool)         -- runs to its end (after completing a catch () / safe apply or not)
  | raises (catchesFirst : Bool)     -- raises an ordinary error of its own, outside any catch of its own
  | expires (catchesFirst : Bool)    -- runs out of evaluation cost, outside any catch of its own
  | noHandler (traceApplies : Bool)  -- the master has no error_handler (): the apply fails and mudlib_error_handler () prints the
                                     -- driver's own trace; with ArgumentsInTrace / LocalVariablesInTrace dump_trace turns every
                                     -- object value of a frame into text through safe_apply_master_ob ("object_name")
  deriving Repr, DecidableEq

/-- what it does on the way (integration with C05's cd4f16a: `if (current_error_context == mudlib_error_handler_context)`
    - an error inside a catch () of the handler itself is received by that catch, the handler goes on) -/
inductive HEv
  | catchOk                          -- a catch () / safe apply of the handler completes without an error
  | errInCatch (expiry : Bool)       -- an error (ordinary, or the budget running out) inside a catch () of the handler
  deriving Repr, DecidableEq

/-- a catch () or safe apply completing inside the handler: pop_context → clear_error_state -/
def EH.afterCatch (s : EH) (c : Bool) : EH := if c then { s with full := false, cost := false } else s

/-- the nested invocation for an error that leaves the handler (the innermost context is the one the handler was
    started under: `current_error_context == mudlib_error_handler_context`): `restore` is the fix -/
def nestedHandler (restore : Bool) (ctxIsCatch : Bool) (s : EH) : EH :=
  if ctxIsCatch then
    -- caught path, in_mudlib_error_handler is set
    let s := { s with inMudlib := false }
    if restore then { s with full := s.full || s.savedFull, cost := s.cost || s.savedCost } else s
  else if s.inError then s
  else
    let s := { s with inError := true, inMudlib := false }
    let s := if restore then { s with full := s.full || s.savedFull, cost := s.cost || s.savedCost } else s
    { s with inError := false }

/-- one event inside the running handler: `inl` = the handler goes on, `inr` = it was abandoned (state at the longjmp).
    An error inside the handler's own catch enters error_handler () on the caught path with a different innermost
    context: nothing is touched, the longjmp goes to the handler's do_catch, which re-raises when a limit bit is set
    (pop_context, the bit set again, error: now towards the context the handler was started under) and otherwise
    completes (pop_context clears the state). -/
def stepEv (restore : Bool) (ctxIsCatch : Bool) (s : EH) : HEv → Sum EH EH
  | .catchOk => .inl { s with full := false, cost := false }
  | .errInCatch e =>
    let s := { s with cost := s.cost || e }
    if s.cost then .inr (nestedHandler restore ctxIsCatch { s with full := false, cost := true })
    else if s.full then .inr (nestedHandler restore ctxIsCatch { s with full := true, cost := false })
    else .inl { s with full := false, cost := false }

/-- dump_trace (g_trace_flag) with object values in the traced frames: svalue_to_string applies master::object_name through
    safe_apply_master_ob (not when ES_STACK_FULL is set); the safe apply completes: pop_context → clear_error_state -/
def EH.afterTrace (s : EH) (applies : Bool) : EH :=
  if applies && !s.full then { s with full := false, cost := false } else s

/-- how the handler ends.  `lateRestore`: `set_error_state (limit_state)` is made by error_handler () after
    mudlib_error_handler () has returned, i.e. after the fallback trace (the code as it is); `false`: right after the apply of
    the master's handler, before the trace (the order of seeded change C04-5) -/
def finish (restore : Bool) (lateRestore : Bool) (ctxIsCatch : Bool) (limFull limCost : Bool) (s : EH) : HBeh → EH
  | .noHandler t =>
    if lateRestore then
      let s := s.afterTrace t
      { s with inMudlib := false, inError := false, full := s.full || limFull, cost := s.cost || limCost }
    else
      let s := ({ s with full := s.full || limFull, cost := s.cost || limCost } : EH).afterTrace t
      { s with inMudlib := false, inError := false }
  | .returns c =>
    let s := s.afterCatch c
    { s with inMudlib := false, inError := false, full := s.full || limFull, cost := s.cost || limCost }
  | .raises c => nestedHandler restore ctxIsCatch (s.afterCatch c)
  | .expires c =>
    -- eval_instruction: set_error_state (ES_MAX_EVAL_COST) before error ()
    nestedHandler restore ctxIsCatch { (s.afterCatch c) with cost := true }

def runHandler (restore : Bool) (lateRestore : Bool) (ctxIsCatch : Bool) (limFull limCost : Bool) : List HEv → HBeh → EH → EH
  | [], beh, s => finish restore lateRestore ctxIsCatch limFull limCost s beh
  | e :: es, beh, s =>
    match stepEv restore ctxIsCatch s e with
    | .inl s1 => runHandler restore lateRestore ctxIsCatch limFull limCost es beh s1
    | .inr r => r

/-- error_handler () entered from an evaluation (no handler running); the result is the state at the longjmp -/
def errorHandlerW (restore : Bool) (lateRestore : Bool) (ctxIsCatch : Bool) (evs : List HEv) (beh : HBeh) (s : EH) : EH :=
  let s1 := { s with savedFull := s.full, savedCost := s.cost, inMudlib := true }
  let s2 := if ctxIsCatch then s1 else { s1 with inError := false }
  runHandler restore lateRestore ctxIsCatch s.full s.cost evs beh s2

/-- the code as it is now -/
def errorHandler : Bool → List HEv → HBeh → EH → EH := errorHandlerW true true

/-- the code before fix d13165e -/
def errorHandlerOld : Bool → List HEv → HBeh → EH → EH := errorHandlerW false true

/-- the statement order of seeded change C04-5: the bits are put back before the fallback trace -/
def errorHandlerEarlyRestore : Bool → List HEv → HBeh → EH → EH := errorHandlerW true false

/-- while the handler runs: the flag is set, in_error is clear, and handler_limit_state holds the bits of the raise -/
def Running (limFull limCost : Bool) (s : EH) : Prop :=
  s.inMudlib = true ∧ s.inError = false ∧ s.savedFull = limFull ∧ s.savedCost = limCost

/-- the state at the longjmp: the bits of the raise are set, both flags are clear -/
def Landed (limFull limCost : Bool) (r : EH) : Prop :=
  (limFull = true → r.full = true) ∧ (limCost = true → r.cost = true) ∧ r.inMudlib = false ∧ r.inError = false

theorem nested_landed (ctx lf lc : Bool) (s : EH) (h : Running lf lc s) : Landed lf lc (nestedHandler true ctx s) := by
  obtain ⟨a, b, c, d, e, f⟩ := s
  obtain ⟨h1, h2, h3, h4⟩ := h
  simp only at h1 h2 h3 h4
  subst h1 h2 h3 h4
  cases ctx <;> cases a <;> cases b <;> cases e <;> cases f <;> simp [nestedHandler, Landed]

theorem finish_landed (ctx lf lc : Bool) (s : EH) (beh : HBeh) (h : Running lf lc s) :
    Landed lf lc (finish true true ctx lf lc s beh) := by
  have hk : ∀ (c : Bool), Running lf lc (s.afterCatch c) := by
    intro c; cases c <;> simpa [EH.afterCatch, Running] using h
  cases beh with
  | returns c =>
    have := hk c
    obtain ⟨_, _, _, _⟩ := this
    cases lf <;> cases lc <;> simp [finish, Landed]
  | noHandler t =>
    obtain ⟨a, b, c, d, e, f⟩ := s
    cases lf <;> cases lc <;> cases t <;> cases a <;> cases b <;> simp [finish, Landed, EH.afterTrace]
  | raises c => exact nested_landed ctx lf lc _ (hk c)
  | expires c =>
    apply nested_landed
    have := hk c
    simpa [Running] using this

theorem step_inl (ctx lf lc : Bool) (s s1 : EH) (e : HEv) (h : Running lf lc s)
    (he : stepEv true ctx s e = .inl s1) : Running lf lc s1 := by
  cases e with
  | catchOk =>
    simp only [stepEv] at he
    injection he with he
    subst he
    simpa [Running] using h
  | errInCatch x =>
    unfold stepEv at he
    simp only at he
    split at he
    · cases he
    · split at he
      · cases he
      · injection he with he
        subst he
        simpa [Running] using h

theorem step_inr (ctx lf lc : Bool) (s r : EH) (e : HEv) (h : Running lf lc s)
    (he : stepEv true ctx s e = .inr r) : Landed lf lc r := by
  cases e with
  | catchOk => simp only [stepEv] at he; cases he
  | errInCatch x =>
    unfold stepEv at he
    simp only at he
    split at he
    · injection he with he
      subst he
      exact nested_landed ctx lf lc _ (by simpa [Running] using h)
    · split at he
      · injection he with he
        subst he
        exact nested_landed ctx lf lc _ (by simpa [Running] using h)
      · cases he

theorem run_landed (ctx lf lc : Bool) (beh : HBeh) : ∀ (evs : List HEv) (s : EH), Running lf lc s →
    Landed lf lc (runHandler true true ctx lf lc evs beh s) := by
  intro evs
  induction evs with
  | nil => intro s h; exact finish_landed ctx lf lc s beh h
  | cons e rest ih =>
    intro s h
    unfold runHandler
    split
    · rename_i s1 heq; exact ih s1 (step_inl ctx lf lc s s1 e h heq)
    · rename_i r heq; exact step_inr ctx lf lc s r e h heq

/-- **handler_keeps_limit_state**: whatever the master's error handler does - or when there is none and the driver prints
    its own trace, with or without object values in the traced frames - any sequence of catches completing and of
    errors (ordinary, or the budget running out) inside catches of its own, then a return, an error of its own or the
    budget running out, before or after a catch - and whichever kind of context receives the error: the limit bits of
    `error_state` at the raise are set when the longjmp to that context is made (what `raise` in Model.lean assumes),
    and in_error / in_mudlib_error_handler are clear again. -/
theorem handler_keeps_limit_state (ctx : Bool) (evs : List HEv) (beh : HBeh) (s : EH) (h2 : s.inError = false) :
    ((s.full = true → (errorHandler ctx evs beh s).full = true) ∧
     (s.cost = true → (errorHandler ctx evs beh s).cost = true)) ∧
    (errorHandler ctx evs beh s).inMudlib = false ∧ (errorHandler ctx evs beh s).inError = false := by
  have hr : Running s.full s.cost
      (if ctx then { s with savedFull := s.full, savedCost := s.cost, inMudlib := true }
       else { ({ s with savedFull := s.full, savedCost := s.cost, inMudlib := true } : EH) with inError := false }) := by
    cases ctx <;> simp [Running, h2]
  have := run_landed ctx s.full s.cost beh evs _ hr
  exact ⟨⟨this.1, this.2.1⟩, this.2.2.1, this.2.2.2⟩

/-- the same for the handlers the harness runs on the real driver (modes 0..3 of /c04/master.c) -/
theorem handler_keeps_limit_state_each (ctx : Bool) (beh : HBeh) (full cost sf sc : Bool) :
    let s : EH := { full := full, cost := cost, inMudlib := false, inError := false, savedFull := sf, savedCost := sc }
    (full = true → (errorHandler ctx [] beh s).full = true) ∧ (cost = true → (errorHandler ctx [] beh s).cost = true) := by
  intro s
  exact (handler_keeps_limit_state ctx [] beh s rfl).1

/-- an evaluation-cost error has just been raised, no handler is running -/
def costRaised : EH :=
  { full := false, cost := true, inMudlib := false, inError := false, savedFull := false, savedCost := false }

/-- seeded change C04-5 (restore moved into mudlib_error_handler (), before the fallback trace): without a master
    error_handler () and with an object value in a traced frame, the evaluation-cost bit is gone when do_catch () / safe_apply ()
    look - on both paths; with the code as it is the bit is there -/
theorem handler_early_restore_loses_state :
    (errorHandlerEarlyRestore true [] (.noHandler true) costRaised).cost = false ∧
    (errorHandlerEarlyRestore false [] (.noHandler true) costRaised).cost = false ∧
    (errorHandler true [] (.noHandler true) costRaised).cost = true ∧
    (errorHandlerEarlyRestore true [] (.noHandler false) costRaised).cost = true := by
  decide

/-- before the fix: a handler that completes a catch () and then raises an error loses the evaluation-cost bit, on both
    paths (caught: catch (spin ()) completes; uncaught: safe_apply does not cut its caller down to one tick) -/
theorem handler_lost_limit_state_before_fix :
    (errorHandlerOld true [] (.raises true) costRaised).cost = false ∧
    (errorHandlerOld false [.catchOk] (.raises false) costRaised).cost = false ∧
    (errorHandler true [.catchOk, .errInCatch false] (.raises true) costRaised).cost = true := by
  decide

end NV.C04
