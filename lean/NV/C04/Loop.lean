/-
C04 — executable model, part (e): where the evaluation cost is charged (src/interpret.c eval_instruction).

The interpreter loop is

    while (1) {
        instruction = EXTRACT_UCHAR (pc++);
        if (!--eval_cost) { set_error_state (ES_MAX_EVAL_COST); eval_cost = MAX; error (...); }
        switch (instruction) { case ...: ...; break;  ...  }
    }

Every instruction is charged at the fetch, before the dispatch: a loop iteration, a call and a return cannot avoid
the charge as long as (1) the test stands between the fetch and the `switch`, (2) no `goto` enters the loop body
behind it, and (3) no case moves `pc` backwards and runs on without going back to the head of the loop.  The
translator (props/c04.py: gen_loop) regenerates these three facts and the list of opcodes whose case moves `pc`
backwards (directly or through the static helpers do_loop_cond_*) into NV/Gen/C04.lean:

    tickBeforeDispatch, evalLoopGotos, backwardOps, backwardOpsLooping, localCallOps, callbackCharge

Efuns that call back into LPC go through call_efun_callback, which charges once per callback with the same test
(`callbackCharge`, site callbackTick) - a callback to a function that does not exist runs no instruction at all.

The machine below is a byte-code level one: a program is an array of instruction classes, the branch decisions come
from an arbitrary oracle.  `charged_*` theorems (Props.lean): in every run of every program, backward jumps taken +
calls + callbacks ≤ ticks charged ≤ budget.
-/
import NV.Gen.C04

namespace NV.C04

open NV.Gen.C04

/-- the backward-branch opcodes this model knows (each is an `Ins.back`): a new one in the source makes
    `bridge_backwardOps` fail until it is looked at and listed here (and given a loop form in props/c04.py) -/
def modelBackwardOps : List String :=
  ["F_BBRANCH", "F_BBRANCH_LT", "F_BBRANCH_WHEN_NON_ZERO", "F_BBRANCH_WHEN_ZERO", "F_LOOP_COND_LOCAL",
   -- (F_LOOP_INCR runs the F_LOOP_COND_* that follows it inline, without a fetch: one tick for both)
   "F_LOOP_COND_NUMBER", "F_LOOP_INCR", "F_NEXT_FOREACH", "F_WHILE_DEC"]

/-- what the fetch charges: one tick when the test stands before the dispatch, nothing jumps behind it and no case
    that moves pc backwards does so inside a loop of its own (it goes back to the head of the loop, where the next
    fetch pays) -/
def fetchCharge : Nat :=
  if tickBeforeDispatch && evalLoopGotos == 0 && backwardOpsLooping.isEmpty then 1 else 0

inductive Ins
  | plain                          -- any opcode whose case only moves pc forward (efuns without callbacks included)
  | fwd (off : Nat)                -- F_BRANCH / F_BRANCH_WHEN_*: forward when taken
  | back (op : Nat) (off : Nat)    -- backward-branch opcode number `op` of `backwardOps`: `pc -= off` when taken
  | call (addr : Nat)              -- F_CALL_FUNCTION_BY_ADDRESS / F_CALL_INHERITED: `pc = program + address`
  | ret                            -- F_RETURN
  | cbEfun (k : Nat)               -- an efun making k callbacks through call_efun_callback (map_array, sort_array ...)
  deriving Repr, DecidableEq

structure LSt where
  pc : Nat
  cost : Int                       -- eval_cost
  rets : List Nat := []            -- return addresses (csp->pc)
  ticks : Nat := 0                 -- ghost: charges made
  backs : Nat := 0                 -- ghost: backward jumps taken
  calls : Nat := 0                 -- ghost: functions entered
  cbs : Nat := 0                   -- ghost: callbacks made
  deriving Repr

inductive LOut
  | running
  | done                           -- F_RETURN of the outermost frame (or pc left the program)
  | expired                        -- "Too long evaluation": the error leaves eval_instruction
  deriving Repr, DecidableEq

/-- `if (!--eval_cost)`, n times over (n = 0: nothing charged) -/
def charge (s : LSt) : Nat → LOut × LSt
  | 0 => (.running, s)
  | n + 1 =>
    let s := { s with cost := s.cost - 1, ticks := s.ticks + 1 }
    if s.cost == 0 then (.expired, s) else charge s n

/-- k callbacks: call_efun_callback charges `callbackCharge` each, then the (code-less) function "runs" -/
def callbacks (s : LSt) : Nat → LOut × LSt
  | 0 => (.running, s)
  | k + 1 =>
    match charge s callbackCharge with
    | (.running, s) => callbacks { s with cbs := s.cbs + 1 } k
    | r => r

/-- one turn of the interpreter loop; `taken` is the branch decision of this turn -/
def lstep (prog : Array Ins) (taken : Bool) (s : LSt) : LOut × LSt :=
  if s.pc ≥ prog.size then (.done, s)
  else
    -- fetch, then the charge
    match charge s fetchCharge with
    | (.running, s) =>
      (match prog.getD s.pc .plain with
       | .plain => (.running, { s with pc := s.pc + 1 })
       | .fwd off => (.running, { s with pc := if taken then s.pc + 1 + off else s.pc + 1 })
       | .back _ off =>
         if taken then (.running, { s with pc := s.pc + 1 - off, backs := s.backs + 1 })
         else (.running, { s with pc := s.pc + 1 })
       | .call addr => (.running, { s with pc := addr, rets := (s.pc + 1) :: s.rets, calls := s.calls + 1 })
       | .ret =>
         (match s.rets with
          | [] => (.done, s)
          | r :: rest => (.running, { s with pc := r, rets := rest }))
       | .cbEfun k =>
         (match callbacks s k with
          | (.running, s) => (.running, { s with pc := s.pc + 1 })
          | r => r))
    | r => r

/-- run for at most `fuel` turns; the oracle decides every branch -/
def lrun (prog : Array Ins) (orc : Nat → Bool) : Nat → LSt → LOut × LSt
  | 0, s => (.running, s)
  | f + 1, s =>
    match lstep prog (orc f) s with
    | (.running, s) => lrun prog orc f s
    | r => r

/-- the driver starts an evaluation: `eval_cost = budget` (clamped to ≥ 1 by rc.cpp / set_eval_limit) -/
def LSt.start (budget : Int) : LSt := { pc := 0, cost := budget }

end NV.C04
