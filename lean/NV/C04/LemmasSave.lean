/-
C04 — the depth-limited walks (svalue_save_size, deep_copy_svalue) and save_variable's size decision.
-/
import NV.C04.Save
import NV.C04.LemmasSizes

namespace NV.C04

open NV.Gen.C04

/-- svalue_save_size succeeds exactly on the values whose nesting fits below MAX_SAVE_SVALUE_DEPTH (a value without
    containers is never refused) -/
theorem saveSize_isSome (v : Val) :
    ∀ d, (saveSize d v).isSome = true ↔ (v.nest = 0 ∨ d + v.nest ≤ maxSaveDepth) := by
  induction v with
  | leaf n => intro d; simp [saveSize, Val.nest]
  | nil => intro d; simp [saveSize, Val.nest]
  | cons h t ih1 ih2 =>
    intro d
    have a := ih1 d
    have b := ih2 d
    unfold saveSize
    cases hh : saveSize d h with
    | none =>
      rw [hh] at a
      simp only [Option.isSome_none, Bool.false_eq_true, false_iff] at a ⊢
      simp only [Val.nest]
      omega
    | some x =>
      rw [hh] at a
      simp only [Option.isSome_some, true_iff] at a
      cases ht : saveSize d t with
      | none =>
        rw [ht] at b
        simp only [Option.isSome_none, Bool.false_eq_true, false_iff] at b ⊢
        simp only [Val.nest]
        omega
      | some y =>
        rw [ht] at b
        simp only [Option.isSome_some, true_iff] at b ⊢
        simp only [Val.nest]
        omega
  | box i ih =>
    intro d
    have a := ih (d + 1)
    unfold saveSize
    split
    · simp only [Option.isSome_none, Bool.false_eq_true, false_iff, Val.nest]
      omega
    · cases hi : saveSize (d + 1) i with
      | none =>
        rw [hi] at a
        simp only [Option.isSome_none, Bool.false_eq_true, false_iff] at a ⊢
        simp only [Val.nest]
        omega
      | some x =>
        rw [hi] at a
        simp only [Option.isSome_some, true_iff] at a ⊢
        simp only [Val.nest]
        omega

/-- the depth counter of the walk never exceeds the limit, error path included -/
theorem saveReach_le (v : Val) : ∀ d, d ≤ maxSaveDepth → saveReach d v ≤ maxSaveDepth := by
  induction v with
  | leaf n => intro d h; simpa [saveReach] using h
  | nil => intro d h; simpa [saveReach] using h
  | cons h t ih1 ih2 =>
    intro d hd
    unfold saveReach
    split
    · exact ih1 d hd
    · have := ih1 d hd
      have := ih2 d hd
      omega
  | box i ih =>
    intro d hd
    unfold saveReach
    split
    · exact hd
    · exact ih (d + 1) (by omega)

theorem saveVariable_bounded {v : Val} {l : Int} {sz : Nat} (hl : LimitOk l) (h : saveVariable v l = .ok sz) :
    (sz : Int) ≤ l := by
  unfold saveVariable at h
  split at h
  · cases h
  · simp only at h
    split at h
    · cases h
    · rename_i hle
      injection h with h
      rw [toSizeT_of_limit hl] at hle
      have := hl.1
      omega

theorem composeMappingW_le {bits c1 kept sz : Nat} (h : composeMappingW bits c1 kept = .ok sz) : sz ≤ c1 := by
  unfold composeMappingW at h
  injection h with h
  omega

/-- with a counter wide enough for every count the result is exactly the nodes that stay -/
theorem composeMapping_exact {c1 kept : Nat} (hc : c1 < 2 ^ composeDeletedBits) :
    composeMapping c1 kept = .ok (min kept c1) := by
  unfold composeMapping composeMappingW
  have hlt : c1 - min kept c1 < 2 ^ composeDeletedBits := by omega
  simp only [Nat.mod_eq_of_lt hlt]
  congr 1
  omega

end NV.C04
