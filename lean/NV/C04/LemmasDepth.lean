/-
C04 — the control stack never grows past MaxCallDepth (invariant of every run of the limits machine).
-/
import NV.C04.Model

namespace NV.C04

/-- the control stack invariant: at most MaxCallDepth frames now, and at any time so far -/
def DepthInv (cfg : Cfg) (s : St) : Prop := s.depth ≤ cfg.maxDepth ∧ s.maxDepth ≤ cfg.maxDepth

theorem DepthInv_seqM {cfg : Cfg} {r : Out × St} {k : St → Out × St} (h1 : DepthInv cfg r.2)
    (h2 : ∀ s1, DepthInv cfg s1 → DepthInv cfg (k s1).2) : DepthInv cfg (seqM r k).2 := by
  unfold seqM
  split
  · exact h2 _ h1
  · exact h1

theorem DepthInv_raise {cfg : Cfg} (ctx : Ctx) (k : Kind) {s : St} (h : DepthInv cfg s) :
    DepthInv cfg (raise cfg ctx k s).2 := h

theorem DepthInv_tick {cfg : Cfg} (ctx : Ctx) {s : St} (h : DepthInv cfg s) : DepthInv cfg (tick cfg ctx s).2 := by
  unfold tick
  simp only
  split
  · exact DepthInv_raise ctx _ h
  · exact h

theorem DepthInv_ticksN {cfg : Cfg} (ctx : Ctx) (n : Nat) {s : St} (h : DepthInv cfg s) :
    DepthInv cfg (ticksN cfg ctx n s).2 := by
  induction n generalizing s with
  | zero => exact h
  | succ n ih =>
    unfold ticksN
    have ht := DepthInv_tick ctx h
    split
    · rename_i s1 heq; rw [heq] at ht; exact ih ht
    · exact ht

theorem DepthInv_spin {cfg : Cfg} (ctx : Ctx) (n : Nat) {s : St} (h : DepthInv cfg s) :
    DepthInv cfg (spin cfg ctx n s).2 := by
  induction n generalizing s with
  | zero => exact h
  | succ n ih =>
    unfold spin
    have ht := DepthInv_tick ctx h
    split
    · rename_i s1 heq; rw [heq] at ht; exact ih ht
    · exact ht

theorem DepthInv_pushFrame {cfg : Cfg} (ctx : Ctx) {s : St} (h : DepthInv cfg s) :
    DepthInv cfg (pushFrame cfg ctx s).2 := by
  unfold pushFrame
  split
  · exact DepthInv_raise ctx _ h
  · rename_i hne
    have hne' : s.depth ≠ cfg.maxDepth := by
      intro he; apply hne; simp [he]
    obtain ⟨h1, h2⟩ := h
    refine ⟨?_, ?_⟩
    · show s.depth + 1 ≤ cfg.maxDepth
      omega
    · show (if s.depth + 1 > s.maxDepth then s.depth + 1 else s.maxDepth) ≤ cfg.maxDepth
      split <;> omega

theorem DepthInv_pushChecked {cfg : Cfg} (ctx : Ctx) (n : Nat) {s : St} (h : DepthInv cfg s) :
    DepthInv cfg (pushChecked cfg ctx n s).2 := by
  unfold pushChecked
  split
  · exact DepthInv_raise ctx _ h
  · exact h

theorem DepthInv_pushCatchFrame {cfg : Cfg} {s : St} (h : DepthInv cfg s) (hne : ¬ (s.depth - 1 == cfg.maxDepth - 1) = true) :
    DepthInv cfg (pushCatchFrame s) := by
  have hne' : s.depth ≠ cfg.maxDepth := by
    intro he; apply hne; simp [he]
  obtain ⟨h1, h2⟩ := h
  refine ⟨?_, ?_⟩
  · show s.depth + 1 ≤ cfg.maxDepth
    omega
  · show (if s.depth + 1 > s.maxDepth then s.depth + 1 else s.maxDepth) ≤ cfg.maxDepth
    split <;> omega

theorem DepthInv_leave {cfg : Cfg} {s s0 : St} (h : DepthInv cfg s) (h0 : DepthInv cfg s0) (p : Int) :
    DepthInv cfg (leave s s0.depth p) := ⟨h0.1, h.2⟩

theorem DepthInv_catchLanding {cfg : Cfg} (ctx : Ctx) (p0 : Int) (k : Kind) {s0 s : St} (h0 : DepthInv cfg s0)
    (h : DepthInv cfg s) : DepthInv cfg (catchLanding cfg ctx s0.depth p0 k s).2 := by
  unfold catchLanding
  have hl : DepthInv cfg (pushUnchecked (leave s s0.depth p0)) := ⟨h0.1, h.2⟩
  simp only
  split
  · exact DepthInv_raise ctx _ ⟨hl.1, hl.2⟩
  · split
    · exact DepthInv_raise ctx _ ⟨hl.1, hl.2⟩
    · exact ⟨h0.1, h.2⟩

/-- the invariant is kept by every shape, in every context, for every fuel -/
theorem exec_DepthInv (cfg : Cfg) (fuel : Nat) (ctx : Ctx) (sh : Sh) (s : St) (h : DepthInv cfg s) :
    DepthInv cfg (exec cfg fuel ctx sh s).2 := by
  induction fuel generalizing ctx sh s with
  | zero => unfold exec; exact h
  | succ f ih =>
    unfold exec
    cases sh with
    | skip => exact h
    | work n => exact DepthInv_ticksN ctx n h
    | spin => exact DepthInv_spin ctx _ h
    | err => exact DepthInv_raise ctx _ h
    | throw_ =>
      cases ctx
      · exact DepthInv_raise _ _ h
      · exact h
      · exact DepthInv_raise _ _ h
    | seq a b => exact DepthInv_seqM (ih ctx a s h) (fun s1 h1 => ih ctx b s1 h1)
    | call locals body =>
      exact DepthInv_seqM (DepthInv_pushFrame ctx h) fun s1 h1 =>
        DepthInv_seqM (DepthInv_pushChecked ctx locals h1) fun s2 h2 =>
        DepthInv_seqM (DepthInv_ticksN ctx _ h2) fun s3 h3 =>
        DepthInv_seqM (ih ctx body s3 h3) fun s4 h4 => DepthInv_seqM (DepthInv_tick ctx h4) fun s5 h5 => DepthInv_leave h5 h _
    | recur locals => exact ih ctx _ s h
    | crecur => exact ih ctx _ s h
    | cb k body =>
      cases k with
      | zero => exact h
      | succ k => exact DepthInv_seqM (DepthInv_tick ctx h) fun s0 h0 => DepthInv_seqM (ih ctx _ s0 h0) (fun s1 h1 => ih ctx _ s1 h1)
    | safe body =>
      refine DepthInv_seqM (DepthInv_tick ctx h) (fun s h => ?_)
      simp only
      split
      · exact h
      · have hi := ih .safe (.call 0 body) s h
        split
        · rename_i s1 heq; rw [heq] at hi; exact hi
        · rename_i k s1 heq; rw [heq] at hi; exact ⟨h.1, hi.2⟩
        · rename_i s1 heq; rw [heq] at hi; exact hi
    | catch_ body =>
      simp only
      split
      · exact DepthInv_raise ctx _ h
      · rename_i hne
        have hi := ih .catch_ body (pushCatchFrame s) (DepthInv_pushCatchFrame h hne)
        split
        · rename_i s2 heq; rw [heq] at hi; exact ⟨h.1, hi.2⟩
        · rename_i s2 heq; rw [heq] at hi; exact hi
        · rename_i k s2 heq; rw [heq] at hi
          exact DepthInv_catchLanding ctx _ k h hi

end NV.C04
