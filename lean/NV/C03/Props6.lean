/-
C03 — property theorems, part 6: the mapping hash table refines the association list of the reference semantics.
For every hash function, fill factor, initial size and growth history (`unfilled` is arbitrary): every inserted
key is found with its value, every other key is unaffected — through assignment (`m[k] = v`), `+` / `+=`
(add_to_mapping = the same step for every pair) and map_delete.  A change that links a node into the wrong bucket
after growMap falsifies `insert_lookup_same`.
-/
import NV.C03.HashMap
import NV.C03.Props5

namespace NV.C03.HT

variable {K V : Type} [DecidableEq K]

/-- every node is in the bucket its hash selects, and a chain holds a key at most once -/
structure WF (h : K → Nat) (m : Tbl K V) : Prop where
  place : ∀ i e, e ∈ m.tbl i → idx h m.bits e.1 = i
  nodup : ∀ i, ((m.tbl i).map (·.1)).Nodup

/-! ### chains -/

theorem chainFind_none_iff (k : K) (c : List (K × V)) : chainFind k c = none ↔ k ∉ c.map (·.1) := by
  induction c with
  | nil => simp [chainFind]
  | cons e es ih =>
    simp only [chainFind, List.map_cons, List.mem_cons, not_or]
    by_cases h : e.1 = k
    · simp [h]
    · rw [if_neg h, ih]
      constructor
      · intro hh; exact ⟨fun e' => h e'.symm, hh⟩
      · intro hh; exact hh.2

theorem chainFind_set_same (k : K) (v : V) (c : List (K × V)) (h : chainFind k c ≠ none) :
    chainFind k (chainSet k v c) = some v := by
  induction c with
  | nil => simp [chainFind] at h
  | cons e es ih =>
    simp only [chainSet]
    by_cases he : e.1 = k
    · simp [he, chainFind]
    · simp only [he, if_false, chainFind]
      apply ih
      simpa [chainFind, he] using h

theorem chainFind_set_other (k k' : K) (v : V) (c : List (K × V)) (hk : k' ≠ k) :
    chainFind k' (chainSet k v c) = chainFind k' c := by
  induction c with
  | nil => rfl
  | cons e es ih =>
    simp only [chainSet]
    by_cases he : e.1 = k
    · have h1 : ¬ e.1 = k' := fun h => hk (h ▸ he.symm ▸ rfl)
      simp only [he, if_true, chainFind]
      rw [if_neg (fun e' : k = k' => hk e'.symm), if_neg (fun e' : k = k' => hk e'.symm)]
    · simp only [he, if_false, chainFind, ih]

theorem chainSet_keys (k : K) (v : V) (c : List (K × V)) : (chainSet k v c).map (·.1) = c.map (·.1) := by
  induction c with
  | nil => rfl
  | cons e es ih =>
    simp only [chainSet]
    by_cases he : e.1 = k <;> simp [he, ih]

theorem chainFind_filter (k : K) (p : K × V → Bool) (c : List (K × V)) (hp : ∀ e ∈ c, e.1 = k → p e = true) :
    chainFind k (c.filter p) = chainFind k c := by
  induction c with
  | nil => rfl
  | cons e es ih =>
    have ih' := ih (fun e' he' => hp e' (List.mem_cons_of_mem _ he'))
    by_cases he : e.1 = k
    · have := hp e (List.mem_cons_self ..) he
      simp [List.filter, this, chainFind, he]
    · by_cases hpe : p e = true
      · simp [List.filter, hpe, chainFind, he, ih']
      · simp [List.filter, hpe, chainFind, he, ih']

theorem chainFind_del_same (k : K) (c : List (K × V)) (hn : (c.map (·.1)).Nodup) : chainFind k (chainDel k c) = none := by
  induction c with
  | nil => rfl
  | cons e es ih =>
    simp only [List.map_cons, List.nodup_cons] at hn
    simp only [chainDel]
    by_cases he : e.1 = k
    · simp only [he, if_true]
      rw [chainFind_none_iff]; rw [← he]; exact hn.1
    · simp only [he, if_false, chainFind]; exact ih hn.2

theorem chainFind_del_other (k k' : K) (c : List (K × V)) (hk : k' ≠ k) : chainFind k' (chainDel k c) = chainFind k' c := by
  induction c with
  | nil => rfl
  | cons e es ih =>
    simp only [chainDel]
    by_cases he : e.1 = k
    · have h1 : ¬ e.1 = k' := fun h => hk (h ▸ he.symm ▸ rfl)
      simp only [he, if_true, chainFind]
      rw [if_neg (fun e' : k = k' => hk e'.symm)]
    · simp only [he, if_false, chainFind, ih]

theorem chainDel_sub (k : K) (c : List (K × V)) : ∀ e, e ∈ chainDel k c → e ∈ c := by
  induction c with
  | nil => intro e h; exact h
  | cons a es ih =>
    intro e h
    simp only [chainDel] at h
    by_cases he : a.1 = k
    · simp only [he, if_true] at h; exact List.mem_cons_of_mem _ h
    · simp only [he, if_false, List.mem_cons] at h
      rcases h with h | h
      · exact h ▸ List.mem_cons_self ..
      · exact List.mem_cons_of_mem _ (ih e h)

theorem chainDel_nodup (k : K) (c : List (K × V)) (hn : (c.map (·.1)).Nodup) : ((chainDel k c).map (·.1)).Nodup := by
  induction c with
  | nil => exact hn
  | cons a es ih =>
    simp only [List.map_cons, List.nodup_cons] at hn
    simp only [chainDel]
    by_cases he : a.1 = k
    · simp only [he, if_true]; exact hn.2
    · simp only [he, if_false, List.map_cons, List.nodup_cons]
      refine ⟨?_, ih hn.2⟩
      intro hmem
      apply hn.1
      obtain ⟨x, hx, hxe⟩ := List.mem_map.mp hmem
      exact List.mem_map.mpr ⟨x, chainDel_sub k es x hx, hxe⟩

theorem chainFind_some_iff (k : K) (v : V) (c : List (K × V)) (hn : (c.map (·.1)).Nodup) :
    chainFind k c = some v ↔ (k, v) ∈ c := by
  induction c with
  | nil => simp [chainFind]
  | cons e es ih =>
    simp only [List.map_cons, List.nodup_cons] at hn
    simp only [chainFind, List.mem_cons]
    by_cases he : e.1 = k
    · rw [if_pos he]
      constructor
      · intro h; left; cases e; simp at he h; rw [he, h]
      · rintro (h | h)
        · rw [← h]
        · exfalso; apply hn.1; rw [he]; exact List.mem_map.mpr ⟨(k, v), h, rfl⟩
    · rw [if_neg he, ih hn.2]
      constructor
      · intro h; right; exact h
      · rintro (h | h)
        · exfalso; apply he; rw [← h]
        · exact h

theorem chainFind_reverse (k : K) (c : List (K × V)) (hn : (c.map (·.1)).Nodup) :
    chainFind k c.reverse = chainFind k c := by
  have hn' : ((c.reverse).map (·.1)).Nodup := by rw [List.map_reverse]; exact (List.reverse_perm _).nodup_iff.mpr hn
  cases h : chainFind k c with
  | some v =>
    rw [chainFind_some_iff k v _ hn'] 
    exact List.mem_reverse.mpr ((chainFind_some_iff k v c hn).mp h)
  | none =>
    rw [chainFind_none_iff] at h ⊢
    rw [List.map_reverse]; exact fun hh => h (List.mem_reverse.mp hh)

/-! ### growMap -/

theorem hbit_lt (h : K → Nat) (b : Nat) (k : K) : hbit h b k = 0 ∨ hbit h b k = 1 := by
  unfold hbit; omega

theorem idx_succ (h : K → Nat) (b : Nat) (k : K) : idx h (b + 1) k = idx h b k + 2 ^ b * hbit h b k := by
  unfold idx hbit
  exact Nat.mod_pow_succ

theorem idx_lt (h : K → Nat) (b : Nat) (k : K) : idx h b k < 2 ^ b := by
  unfold idx; exact Nat.mod_lt _ (Nat.two_pow_pos b)

/-- growMap keeps every key reachable: no lookup changes -/
theorem grow_lookup (h : K → Nat) (fill : Nat) (m : Tbl K V) (hw : WF h m) (k : K) :
    lookup h (grow h fill m) k = lookup h m k := by
  unfold lookup
  simp only [grow]
  rw [idx_succ]
  have hlt := idx_lt h m.bits k
  rcases hbit_lt h m.bits k with hb | hb
  · rw [hb, Nat.mul_zero, Nat.add_zero, if_pos hlt]
    apply chainFind_filter
    intro e _ he; simp [he, hb]
  · rw [hb, Nat.mul_one, if_neg (by omega), Nat.add_sub_cancel]
    rw [chainFind_reverse _ _ ((hw.nodup _).sublist ((List.filter_sublist).map _))]
    apply chainFind_filter
    intro e _ he; simp [he, hb]

theorem grow_wf (h : K → Nat) (fill : Nat) (m : Tbl K V) (hw : WF h m) : WF h (grow h fill m) := by
  constructor
  · intro i e he
    simp only [grow] at he ⊢
    rw [idx_succ]
    by_cases hi : i < 2 ^ m.bits
    · rw [if_pos hi] at he
      have hm := List.mem_filter.mp he
      have hp := hw.place i e hm.1
      have hb : hbit h m.bits e.1 = 0 := by simpa using hm.2
      rw [hb, hp]; omega
    · rw [if_neg hi] at he
      have hm := List.mem_filter.mp (List.mem_reverse.mp he)
      have hp := hw.place _ e hm.1
      have hb : hbit h m.bits e.1 = 1 := by simpa using hm.2
      rw [hb, hp]; omega
  · intro i
    simp only [grow]
    split
    · exact (hw.nodup i).sublist ((List.filter_sublist).map _)
    · rw [List.map_reverse]
      exact (List.reverse_perm _).nodup_iff.mpr ((hw.nodup _).sublist ((List.filter_sublist).map _))

/-! ### insert (m[k] = v, and the step of add_to_mapping) -/

theorem lookup_setTbl_same (h : K → Nat) (m : Tbl K V) (i : Nat) (c : List (K × V)) (k : K) (hi : idx h m.bits k = i) :
    lookup h (setTbl m i c) k = chainFind k c := by
  simp [lookup, setTbl, hi]

theorem lookup_setTbl_other (h : K → Nat) (m : Tbl K V) (i : Nat) (c : List (K × V)) (k : K) (hi : idx h m.bits k ≠ i) :
    lookup h (setTbl m i c) k = lookup h m k := by
  simp [lookup, setTbl, hi]

theorem linkNew_lookup_same (h : K → Nat) (g : Tbl K V) (k : K) (v : V) (cnt : Nat) :
    lookup h (linkNew h g k v cnt) k = some v := by
  simp [lookup, linkNew, setTbl, chainFind]

theorem linkNew_lookup_other (h : K → Nat) (g : Tbl K V) (k k' : K) (v : V) (cnt : Nat) (hk : k' ≠ k) :
    lookup h (linkNew h g k v cnt) k' = lookup h g k' := by
  by_cases hik : idx h g.bits k' = idx h g.bits k
  · have hkk : ¬ k = k' := fun e => hk e.symm
    simp [lookup, linkNew, setTbl, hik, chainFind, hkk]
  · simp [lookup, linkNew, setTbl, hik]

theorem linkNew_wf (h : K → Nat) (g : Tbl K V) (k : K) (v : V) (cnt : Nat) (hg : WF h g)
    (hn : chainFind k (g.tbl (idx h g.bits k)) = none) : WF h (linkNew h g k v cnt) := by
  constructor
  · intro i e he
    simp only [linkNew, setTbl] at he ⊢
    by_cases hi : i = idx h g.bits k
    · rw [if_pos hi] at he
      rcases List.mem_cons.mp he with he | he
      · rw [he]; exact hi.symm
      · rw [hi]; exact hg.place _ e he
    · rw [if_neg hi] at he; exact hg.place i e he
  · intro i
    simp only [linkNew, setTbl]
    by_cases hi : i = idx h g.bits k
    · rw [if_pos hi, List.map_cons, List.nodup_cons]
      exact ⟨(chainFind_none_iff k _).mp hn, hg.nodup _⟩
    · rw [if_neg hi]; exact hg.nodup i

/-- the inserted key is found with the inserted value — whatever the table size, the fill state and whether this
    insertion makes the table grow -/
theorem insert_lookup_same (h : K → Nat) (fill : Nat) (m : Tbl K V) (k : K) (v : V) :
    lookup h (insert h fill m k v) k = some v := by
  unfold insert
  simp only
  generalize dec16 m.unfilled = u
  cases hf : chainFind k (m.tbl (idx h m.bits k)) with
  | some x =>
    simp only
    rw [lookup_setTbl_same h m _ _ k rfl]
    exact chainFind_set_same k v _ (by rw [hf]; simp)
  | none =>
    simp only
    split
    · split <;> exact linkNew_lookup_same ..
    · exact linkNew_lookup_same ..

/-- every other key keeps its value -/
theorem insert_lookup_other (h : K → Nat) (fill : Nat) (m : Tbl K V) (hw : WF h m) (k k' : K) (v : V) (hk : k' ≠ k) :
    lookup h (insert h fill m k v) k' = lookup h m k' := by
  unfold insert
  simp only
  generalize dec16 m.unfilled = u
  cases hf : chainFind k (m.tbl (idx h m.bits k)) with
  | some x =>
    simp only
    by_cases hik : idx h m.bits k' = idx h m.bits k
    · rw [lookup_setTbl_same h m _ _ k' hik, chainFind_set_other k k' v _ hk]
      simp [lookup, hik]
    · rw [lookup_setTbl_other h m _ _ k' hik]
  | none =>
    simp only
    split
    · split
      · rw [linkNew_lookup_other h _ k k' v _ hk]
        exact grow_lookup h fill _ ⟨hw.place, hw.nodup⟩ k'
      · rw [linkNew_lookup_other h _ k k' v _ hk]; rfl
    · rw [linkNew_lookup_other h _ k k' v _ hk]

theorem insert_wf (h : K → Nat) (fill : Nat) (m : Tbl K V) (hw : WF h m) (k : K) (v : V) : WF h (insert h fill m k v) := by
  unfold insert
  simp only
  generalize dec16 m.unfilled = u
  cases hf : chainFind k (m.tbl (idx h m.bits k)) with
  | some x =>
    simp only
    constructor
    · intro i e he
      simp only [setTbl] at he ⊢
      by_cases hi : i = idx h m.bits k
      · rw [if_pos hi] at he
        have hkeys := chainSet_keys k v (m.tbl (idx h m.bits k))
        have : e.1 ∈ (m.tbl (idx h m.bits k)).map (·.1) := by rw [← hkeys]; exact List.mem_map_of_mem he
        obtain ⟨x', hx', hxe⟩ := List.mem_map.mp this
        rw [hi, ← hxe]; exact hw.place _ x' hx'
      · rw [if_neg hi] at he; exact hw.place i e he
    · intro i
      simp only [setTbl]
      by_cases hi : i = idx h m.bits k
      · rw [if_pos hi, chainSet_keys]; exact hw.nodup _
      · rw [if_neg hi]; exact hw.nodup i
  | none =>
    simp only
    split
    · split
      · have hwu : WF h { m with unfilled := u } := ⟨hw.place, hw.nodup⟩
        apply linkNew_wf h (grow h fill { m with unfilled := u }) k v _ (grow_wf h fill _ hwu)
        have := grow_lookup h fill { m with unfilled := u } hwu k
        simp only [lookup] at this
        rw [this]; exact hf
      · exact linkNew_wf h { m with unfilled := u } k v _ ⟨hw.place, hw.nodup⟩ hf
    · exact linkNew_wf h m k v _ hw hf

/-! ### delete -/

theorem delete_lookup_same (h : K → Nat) (m : Tbl K V) (hw : WF h m) (k : K) : lookup h (delete h m k) k = none := by
  unfold delete
  simp only
  cases hf : chainFind k (m.tbl (idx h m.bits k)) with
  | some x =>
    simp only [lookup, setTbl, if_true]
    exact chainFind_del_same k _ (hw.nodup _)
  | none => simpa [lookup] using hf

theorem delete_lookup_other (h : K → Nat) (m : Tbl K V) (k k' : K) (hk : k' ≠ k) :
    lookup h (delete h m k) k' = lookup h m k' := by
  unfold delete
  simp only
  cases hf : chainFind k (m.tbl (idx h m.bits k)) with
  | some x =>
    simp only [lookup, setTbl]
    by_cases hik : idx h m.bits k' = idx h m.bits k
    · rw [if_pos hik, chainFind_del_other k k' _ hk, hik]
    · rw [if_neg hik]
  | none => rfl

theorem delete_wf (h : K → Nat) (m : Tbl K V) (hw : WF h m) (k : K) : WF h (delete h m k) := by
  unfold delete
  simp only
  cases hf : chainFind k (m.tbl (idx h m.bits k)) with
  | some x =>
    constructor
    · intro i e he
      simp only [setTbl] at he ⊢
      by_cases hi : i = idx h m.bits k
      · rw [if_pos hi] at he; rw [hi]; exact hw.place _ e (chainDel_sub k _ e he)
      · rw [if_neg hi] at he; exact hw.place i e he
    · intro i
      simp only [setTbl]
      by_cases hi : i = idx h m.bits k
      · rw [if_pos hi]; exact chainDel_nodup k _ (hw.nodup _)
      · rw [if_neg hi]; exact hw.nodup i
  | none => exact hw

/-! ### refinement of the association list of the reference semantics -/

def keq : K → K → Bool := fun a b => decide (a = b)

theorem mapLookup_insert_same (al : List (K × V)) (k : K) (v : V) : mapLookup keq (mapInsert keq al k v) k = some v := by
  induction al with
  | nil => simp [mapInsert, mapLookup, keq]
  | cons e es ih =>
    simp only [mapInsert]
    by_cases he : e.1 = k
    · simp [keq, he, mapLookup]
    · simp only [keq, he, decide_false, Bool.false_eq_true, if_false]
      simp only [mapLookup, List.find?, keq, he, decide_false] at ih ⊢
      exact ih

theorem mapLookup_insert_other (al : List (K × V)) (k k' : K) (v : V) (hk : k' ≠ k) :
    mapLookup keq (mapInsert keq al k v) k' = mapLookup keq al k' := by
  induction al with
  | nil =>
    have : ¬ k = k' := fun e => hk e.symm
    simp [mapInsert, mapLookup, keq, this]
  | cons e es ih =>
    simp only [mapInsert]
    by_cases he : e.1 = k
    · have : ¬ e.1 = k' := fun e' => hk (e' ▸ he.symm ▸ rfl)
      simp [keq, he, mapLookup, List.find?]
      have h2 : ¬ k = k' := fun e => hk e.symm
      simp [h2]
    · simp only [keq, he, decide_false, Bool.false_eq_true, if_false]
      by_cases he' : e.1 = k'
      · simp [mapLookup, List.find?, keq, he']
      · simp only [mapLookup, List.find?, keq, he', decide_false] at ih ⊢
        exact ih

theorem mapLookup_delete_same (al : List (K × V)) (k : K) : mapLookup keq (mapDelete keq al k) k = none := by
  induction al with
  | nil => rfl
  | cons e es ih =>
    simp only [mapDelete, List.filter] at ih ⊢
    by_cases he : e.1 = k
    · simp only [keq, he, decide_true, Bool.not_true]; exact ih
    · simp only [keq, he, decide_false, Bool.not_false]
      simp only [mapLookup, List.find?, keq, he, decide_false] at ih ⊢
      exact ih

theorem mapLookup_delete_other (al : List (K × V)) (k k' : K) (hk : k' ≠ k) :
    mapLookup keq (mapDelete keq al k) k' = mapLookup keq al k' := by
  induction al with
  | nil => rfl
  | cons e es ih =>
    simp only [mapDelete, List.filter] at ih ⊢
    by_cases he : e.1 = k
    · have : ¬ e.1 = k' := fun e' => hk (e' ▸ he.symm ▸ rfl)
      simp only [keq, he, decide_true, Bool.not_true]
      have ih' := ih
      simp only [keq] at ih'
      rw [ih']
      simp [mapLookup, List.find?, keq, this]
    · simp only [keq, he, decide_false, Bool.not_false]
      by_cases he' : e.1 = k'
      · simp [mapLookup, List.find?, keq, he']
      · simp only [mapLookup, List.find?, keq, he', decide_false] at ih ⊢
        exact ih

/-- the hash table and the association list answer every lookup alike -/
def Refines (h : K → Nat) (m : Tbl K V) (al : List (K × V)) : Prop := ∀ k, lookup h m k = mapLookup keq al k

inductive Op (K V : Type) where
  | ins (k : K) (v : V)
  | del (k : K)
  /-- `+=` / the copy-and-merge of `+`: add_to_mapping with these pairs -/
  | merge (pairs : List (K × V))

def runHT (h : K → Nat) (fill : Nat) : Tbl K V → List (Op K V) → Tbl K V
  | m, [] => m
  | m, .ins k v :: ops => runHT h fill (insert h fill m k v) ops
  | m, .del k :: ops => runHT h fill (delete h m k) ops
  | m, .merge ps :: ops => runHT h fill (merge h fill m ps) ops

def runAL : List (K × V) → List (Op K V) → List (K × V)
  | al, [] => al
  | al, .ins k v :: ops => runAL (mapInsert keq al k v) ops
  | al, .del k :: ops => runAL (mapDelete keq al k) ops
  | al, .merge ps :: ops => runAL (ps.foldl (fun acc e => mapInsert keq acc e.1 e.2) al) ops

theorem insert_refines (h : K → Nat) (fill : Nat) (m : Tbl K V) (al : List (K × V)) (hw : WF h m) (hr : Refines h m al)
    (k : K) (v : V) : Refines h (insert h fill m k v) (mapInsert keq al k v) := by
  intro k'
  by_cases hk : k' = k
  · subst hk; rw [insert_lookup_same h fill m, mapLookup_insert_same]
  · rw [insert_lookup_other h fill m hw k k' v hk, mapLookup_insert_other al k k' v hk, hr]

theorem merge_refines (h : K → Nat) (fill : Nat) (ps : List (K × V)) :
    ∀ (m : Tbl K V) (al : List (K × V)), WF h m → Refines h m al →
      WF h (merge h fill m ps) ∧ Refines h (merge h fill m ps) (ps.foldl (fun acc e => mapInsert keq acc e.1 e.2) al) := by
  induction ps with
  | nil => intro m al hw hr; exact ⟨hw, hr⟩
  | cons e es ih =>
    intro m al hw hr
    simp only [merge, List.foldl] at ih ⊢
    exact ih _ _ (insert_wf h fill m hw e.1 e.2) (insert_refines h fill m al hw hr e.1 e.2)

/-- **mapping_lookup_after_insert**: for every hash function, fill factor, starting table (any size, any `unfilled`
    countdown — i.e. every growth history) and every sequence of `m[k] = v`, `map_delete`, `+=` / `+`, the hash
    table answers every lookup exactly like the association list of the reference semantics -/
theorem mapping_lookup_after_insert (h : K → Nat) (fill : Nat) (ops : List (Op K V)) :
    ∀ (m : Tbl K V) (al : List (K × V)), WF h m → Refines h m al →
      WF h (runHT h fill m ops) ∧ Refines h (runHT h fill m ops) (runAL al ops) := by
  induction ops with
  | nil => intro m al hw hr; exact ⟨hw, hr⟩
  | cons op ops ih =>
    intro m al hw hr
    cases op with
    | ins k v => exact ih _ _ (insert_wf h fill m hw k v) (insert_refines h fill m al hw hr k v)
    | del k =>
      apply ih _ _ (delete_wf h m hw k)
      intro k'
      by_cases hk : k' = k
      · subst hk; rw [delete_lookup_same h m hw, mapLookup_delete_same]
      · rw [delete_lookup_other h m k k' hk, mapLookup_delete_other al k k' hk, hr]
    | merge ps =>
      obtain ⟨hw', hr'⟩ := merge_refines h fill ps m al hw hr
      exact ih _ _ hw' hr'

/-- the empty table of allocate_mapping refines the empty mapping -/
theorem empty_refines (h : K → Nat) (bits fill : Nat) : WF h (empty bits fill : Tbl K V) ∧ Refines h (empty bits fill : Tbl K V) [] := by
  refine ⟨⟨?_, ?_⟩, ?_⟩
  · intro i e he; simp [empty] at he
  · intro i; simp [empty]
  · intro k; simp [lookup, empty, chainFind, mapLookup]

/-- non-vacuity: six keys in six different buckets make the 8-bucket table grow (unfilled 6 -> 0) while the 6th is
    inserted; that key (hash 13: the old-size bit is set) is found -/
example : let h : Nat → Nat := fun k => k
    let m := [0, 1, 2, 3, 4, 13].foldl (fun acc k => insert h 80 acc k (k + 100)) (empty 3 80 : Tbl Nat Nat)
    m.bits = 4 ∧ lookup h m 13 = some 113 ∧ lookup h m 4 = some 104 := by
  decide

end NV.C03.HT
