/-
C03 — `Frontend`: what the compiler does to an expression before any byte code runs, transcribed from the
actions of lib/lpc/grammar.y, lib/lpc/program/parse_trees.c (binary_int_op, optimize_loop_test),
lib/lpc/compiler.c (prepare_cases) and lib/lpc/program/icode.c (write_number, switch tables):

* the static result type the grammar attaches to a node (`typeOf`; optimistic: `mixed + int` is typed `int`);
* constant folding and the rewrites `0+X`, `X+0`, `0-X`, `X==0`, `!!`-style, operand swaps, `!a?b:c`,
  `if (x != 0)`, `x[i..<1]`, `({..})[const]`;
* literal encodings F_CONST0 / F_CONST1 / F_BYTE / F_NBYTE / F_NUMBER / F_LONG and their decoding by
  eval_instruction;
* loop opcode selection (F_WHILE_DEC, F_LOOP_COND_NUMBER, F_LOOP_COND_LOCAL) — the conditions are those of
  `evalTest` in Spec.lean with `modelSem`;
* switch table construction (direct / sorted with range markers).
-/
import NV.C03.Model

namespace NV.C03

variable {R : Type}

namespace Frontend

/-! ## static types -/

def numTy (t : Ty) : Bool := t == .int || t == .real

/-- result type the grammar computes for `a op b` (exact_types on).  `opt` = as the grammar does it: a `mixed`
    operand takes the type of the other one; `opt = false` = the sound variant (mixed stays mixed). -/
def arithTy (opt : Bool) (op : BinOp) (t1 t3 : Ty) : Ty :=
  if t1 == t3 then (if op == .add || numTy t1 || t1 == .mixed then t1 else .mixed)
  else if t1 == .mixed then (if opt && (op == .add || numTy t3) then t3 else .mixed)
  else if t3 == .mixed then (if opt && (op == .add || numTy t1) then t1 else .mixed)
  else if numTy t1 && numTy t3 then .real
  else if op == .add && (t1 == .str || t3 == .str) then .str
  else .mixed

def typeOf (opt : Bool) (lt gt : List Ty) : Expr R → Ty
  | .lit (.int n) => if n == 0 then .mixed else .int      -- CREATE_NUMBER: the literal 0 is typed TYPE_ANY (it is also the null value)
  | .lit (.real _) => .real
  | .lit (.str _) => .str
  | .lit _ => .mixed
  | .loc k => lt.getD k .mixed
  | .glob k => gt.getD k .mixed
  | .un .neg e => typeOf opt lt gt e
  | .un _ _ => .int
  | .bin op a b =>
    match op with
    | .add | .sub | .mul | .div => arithTy opt op (typeOf opt lt gt a) (typeOf opt lt gt b)
    | _ => .int
  | .cond _ a b => if typeOf opt lt gt a == typeOf opt lt gt b then typeOf opt lt gt a else .mixed
  | .asg _ e => typeOf opt lt gt e
  | .aop _ _ e => typeOf opt lt gt e
  | .inc _ (.loc k) => lt.getD k .mixed
  | .inc _ (.glob k) => gt.getD k .mixed
  | _ => .mixed

/-! ## constant folding (grammar.y expr0 rules, binary_int_op) -/

/-- folding of `a op b` for two constant operands, exactly as the grammar computes it at compile time -/
def foldBin (F : FloatOps R) (op : BinOp) (a b : Value R) : Option (Value R) :=
  match op, a, b with
  | .add, .int x, .int y => some (.int (wrap (x + y)))
  | .add, .int x, .real y => some (.real (F.add y (F.ofInt x)))        -- $3->v.real += $1->v.number
  | .add, .real x, .int y => some (.real (F.add x (F.ofInt y)))
  | .add, .real x, .real y => some (.real (F.add x y))
  | .add, .str x, .str y => some (.str (x ++ y))
  | .sub, .int x, .int y => some (.int (wrap (x - y)))
  | .sub, .int x, .real y => some (.real (F.sub (F.ofInt x) y))
  | .sub, .real x, .int y => some (.real (F.sub x (F.ofInt y)))
  | .sub, .real x, .real y => some (.real (F.sub x y))
  | .mul, .int x, .int y => some (.int (wrap (x * y)))
  | .mul, .int x, .real y => some (.real (F.mul y (F.ofInt x)))        -- $3->v.real *= $1->v.number
  | .mul, .real x, .int y => some (.real (F.mul x (F.ofInt y)))
  | .mul, .real x, .real y => some (.real (F.mul x y))
  | .div, .int x, .int y => if y == 0 then none else some (.int (LpcOps.idiv x y))
  | .div, .int x, .real y => if F.eq y (F.ofInt 0) then none else some (.real (F.div (F.ofInt x) y))
  | .div, .real x, .int y => if y == 0 then none else some (.real (F.div x (F.ofInt y)))
  | .div, .real x, .real y => if F.eq y (F.ofInt 0) then none else some (.real (F.div x y))
  | .mod, .int x, .int y => if y == 0 then none else some (.int (LpcOps.imod x y))
  | .band, .int x, .int y => some (.int (Spec.bitop (· &&& ·) x y))
  | .bor, .int x, .int y => some (.int (Spec.bitop (· ||| ·) x y))
  | .bxor, .int x, .int y => some (.int (Spec.bitop (· ^^^ ·) x y))
  | .lsh, .int x, .int y => some (.int (LpcOps.shl x y))
  | .rsh, .int x, .int y => some (.int (LpcOps.sar x y))
  | _, _, _ => none

def foldUn (F : FloatOps R) (op : UnOp) (a : Value R) : Option (Value R) :=
  match op, a with
  | .not, .int x => some (.int (if x == 0 then 1 else 0))
  | .compl, .int x => some (.int (wrap (-x - 1)))
  | .neg, .int x => some (.int (wrap (-x)))
  | .neg, .real x => some (.real (F.neg x))
  | _, _ => none

def isLit : Expr R → Bool
  | .lit _ => true
  | _ => false

def isZeroLit : Expr R → Bool
  | .lit (.int 0) => true
  | _ => false

/-- the type code the grammar holds for a static type (`TYPE_*`, regenerated) -/
def tyCode : Ty → Nat
  | .int => NV.Gen.C03.typeNumber
  | .real => NV.Gen.C03.typeReal
  | .str => NV.Gen.C03.typeString
  | .mixed => NV.Gen.C03.typeAny

/-- root rewrite of a binary node whose children are already rewritten (the grammar action of `expr0 op expr0`) -/
def rwBin (F : FloatOps R) (q : Quirks) (lt gt : List Ty) (op : BinOp) (a b : Expr R) : Expr R :=
  let ty := fun e => typeOf q.optimisticTypes lt gt e
  let dflt : Expr R := .bin op a b
  match a, b with
  | .lit x, .lit y =>
    -- `0 + X` is tested before the constant case
    if op == .add && (NV.Gen.C03.rwAddZeroL (isZeroLit a) (tyCode (ty b)) || (isZeroLit a && ty b == .real && q.foldAddZeroReal)) then b
    else if op == .sub && ((isZeroLit a && q.zeroMinusNeg) || NV.Gen.C03.rwSubZeroL (isZeroLit a) (tyCode (ty b))) then
      (match foldUn F .neg y with | some v => .lit v | none => .un .neg b)
    else match foldBin F op x y with
      | some v => .lit v
      | none =>
        if op == .eq && NV.Gen.C03.rwEqZeroL (isZeroLit a) (tyCode (ty b)) then .un .not b
        else if op == .eq && NV.Gen.C03.rwEqZeroR (isZeroLit b) (tyCode (ty a)) then .un .not a
        else dflt
  | _, _ =>
    match op with
    | .add =>
      if NV.Gen.C03.rwAddZeroL (isZeroLit a) (tyCode (ty b)) || (isZeroLit a && ty b == .real && q.foldAddZeroReal) then b
      else if isLit a && (match a with | .lit (.int _) | .lit (.real _) => true | _ => false)
              && ty b != .str && ty b != .mixed then .bin .add b a          -- swap: constant to the right
      else if !(isLit a) && (NV.Gen.C03.rwAddZeroR (isZeroLit b) (tyCode (ty a)) || (isZeroLit b && ty a == .real && q.foldAddZeroReal)) then a
      else dflt
    | .sub => if (isZeroLit a && q.zeroMinusNeg) || NV.Gen.C03.rwSubZeroL (isZeroLit a) (tyCode (ty b)) then .un .neg b else dflt
    | .mul =>
      if (match a with | .lit (.int _) | .lit (.real _) => true | _ => false) then .bin .mul b a else dflt
    | .band | .bor | .bxor =>
      if (match a with | .lit (.int _) => true | _ => false) then .bin op b a else dflt
    | .eq =>
      if NV.Gen.C03.rwEqZeroL (isZeroLit a) (tyCode (ty b)) then .un .not b
      else if NV.Gen.C03.rwEqZeroR (isZeroLit b) (tyCode (ty a)) then .un .not a
      else dflt
    | _ => dflt

def rwUn (F : FloatOps R) (op : UnOp) (a : Expr R) : Expr R :=
  match a with
  | .lit v => match foldUn F op v with | some r => .lit r | none => .un op a
  | _ => .un op a

/-- `!a ? b : c  -->  a ? c : b` -/
def rwCond (c a b : Expr R) : Expr R :=
  match c with
  | .un .not x => .cond x b a
  | _ => .cond c a b

/-- `x[i..<1]` is compiled as `x[i..]` (before the fix fa775d5: every constant k <= 1) -/
def rwRng (q : Quirks) (fr tr : Bool) (a i j : Expr R) : Expr R :=
  match tr, j with
  | true, .lit (.int k) => if k = 1 ∨ (q.lvRangeConstRev = true ∧ k ≤ 1) then .rnge fr a i else .rng fr tr a i j
  | _, _ => .rng fr tr a i j

/-- `({ e0, e1, .. })[const]` is replaced by the element -/
def rwIdx (a i : Expr R) : Expr R :=
  match a, i with
  | .arr es, .lit (.int k) => if 0 ≤ k ∧ k < es.length then es.getD k.toNat (.lit (.int 0)) else .idx a i
  | _, _ => .idx a i

/-- condition of `if`: `x != 0 --> x` for int-typed x -/
def rwIfCond (q : Quirks) (lt gt : List Ty) (c : Expr R) : Expr R :=
  match c with
  | .bin .ne x (.lit (.int 0)) => if NV.Gen.C03.rwIfNeZeroR true (tyCode (typeOf q.optimisticTypes lt gt x)) then x else c
  | .bin .ne (.lit (.int 0)) x => if NV.Gen.C03.rwIfNeZeroL true (tyCode (typeOf q.optimisticTypes lt gt x)) then x else c
  | _ => c

/-- cond_get_exp: `#if` arithmetic in 32-bit `int` -/
def ppEval32 : Expr R → Option Int
  | .lit (.int n) => some (wrap32 n)
  | .un .neg a => do some (wrap32 (-(← ppEval32 a)))
  | .un .not a => do some (if (← ppEval32 a) == 0 then 1 else 0)
  | .un .compl a => do some (wrap32 (-(← ppEval32 a) - 1))
  | .bin op a b => do
    let x ← ppEval32 a
    let y ← ppEval32 b
    match op with
    | .add => some (wrap32 (x + y))
    | .sub => some (wrap32 (x - y))
    | .mul => some (wrap32 (x * y))
    | .lt => some (if x < y then 1 else 0)
    | .le => some (if x ≤ y then 1 else 0)
    | .gt => some (if x > y then 1 else 0)
    | .ge => some (if x ≥ y then 1 else 0)
    | .eq => some (if x == y then 1 else 0)
    | .ne => some (if x != y then 1 else 0)
    | _ => none
  | _ => none

mutual
  /-- the whole front end on an expression: children first, then the root action (fuel bounds the depth) -/
  def rwE (F : FloatOps R) (q : Quirks) (lt gt : List Ty) : Nat → Expr R → Expr R
    | 0, e => e
    | n + 1, e =>
      match e with
      | .un op a => rwUn F op (rwE F q lt gt n a)
      | .bin op a b => rwBin F q lt gt op (rwE F q lt gt n a) (rwE F q lt gt n b)
      | .land a b => .land (rwE F q lt gt n a) (rwE F q lt gt n b)
      | .lor a b => .lor (rwE F q lt gt n a) (rwE F q lt gt n b)
      | .cond c a b => rwCond (rwE F q lt gt n c) (rwE F q lt gt n a) (rwE F q lt gt n b)
      | .asg lv a => .asg (rwLV F q lt gt n lv) (rwE F q lt gt n a)
      | .aop op lv a => .aop op (rwLV F q lt gt n lv) (rwE F q lt gt n a)
      | .inc k lv => .inc k (rwLV F q lt gt n lv)
      | .idx a i => rwIdx (rwE F q lt gt n a) (rwE F q lt gt n i)
      | .ridx a i => .ridx (rwE F q lt gt n a) (rwE F q lt gt n i)
      | .rng fr tr a i j => rwRng q fr tr (rwE F q lt gt n a) (rwE F q lt gt n i) (rwE F q lt gt n j)
      | .rnge fr a i => .rnge fr (rwE F q lt gt n a) (rwE F q lt gt n i)
      | .arr es => .arr (rwL F q lt gt n es)
      | .map kvs => .map (rwP F q lt gt n kvs)
      | .call f args => .call f (rwL F q lt gt n args)
      | .efun f args =>
        -- `(efun #if e)`: the value the preprocessor computed for the condition of an `#if`
        match f, args with
        | "#if", [c] => (match (if q.ppIf32 then ppEval32 c else none) with
                          | some v => .lit (.int v)
                          | none => .efun f (rwL F q lt gt n args))
        | _, _ => .efun f (rwL F q lt gt n args)
      | other => other
  def rwL (F : FloatOps R) (q : Quirks) (lt gt : List Ty) : Nat → List (Expr R) → List (Expr R)
    | 0, es => es
    | _ + 1, [] => []
    | n + 1, e :: es => rwE F q lt gt n e :: rwL F q lt gt n es
  def rwP (F : FloatOps R) (q : Quirks) (lt gt : List Ty) : Nat → List (Expr R × Expr R) → List (Expr R × Expr R)
    | 0, es => es
    | _ + 1, [] => []
    | n + 1, (k, v) :: es => (rwE F q lt gt n k, rwE F q lt gt n v) :: rwP F q lt gt n es
  def rwLV (F : FloatOps R) (q : Quirks) (lt gt : List Ty) : Nat → LV R → LV R
    | 0, l => l
    | n + 1, l =>
      match l with
      | .idx lv i => .idx (rwLV F q lt gt n lv) (rwE F q lt gt n i)
      | .ridx lv i => .ridx (rwLV F q lt gt n lv) (rwE F q lt gt n i)
      | .rng fr tr lv i j =>
        let j' := rwE F q lt gt n j
        -- parsed as an rvalue first: `[i..<k]`, k constant <= 1, became `[i..]` and is re-expanded to `[i..<1]`
        let j'' := match tr, j' with
          | true, .lit (.int k) => if q.lvRangeConstRev && decide (k ≤ 1) then .lit (.int 1) else j'
          | _, _ => j'
        .rng fr tr (rwLV F q lt gt n lv) (rwE F q lt gt n i) j''
      | other => other
end

mutual
  def rwS (F : FloatOps R) (q : Quirks) (lt gt : List Ty) : Nat → Stmt R → Stmt R
    | 0, s => s
    | n + 1, s =>
      let re := rwE F q lt gt 100000
      match s with
      | .expr e => .expr (re e)
      | .ret e => .ret (re e)
      | .ite c t e =>
        let c' := rwIfCond q lt gt (re c)
        .ite c' (rwS F q lt gt n t) (rwS F q lt gt n e)
      | .while c b => .while (re c) (rwS F q lt gt n b)
      | .doWhile b c => .doWhile (rwS F q lt gt n b) (re c)
      | .for i c st b => .for (rwS F q lt gt n i) (re c) (rwS F q lt gt n st) (rwS F q lt gt n b)
      | .foreach lv e b => .foreach (rwLV F q lt gt 100000 lv) (re e) (rwS F q lt gt n b)
      | .foreach2 lk lv e b => .foreach2 (rwLV F q lt gt 100000 lk) (rwLV F q lt gt 100000 lv) (re e) (rwS F q lt gt n b)
      | .switch e arms => .switch (re e) (rwArms F q lt gt n arms)
      | .block ss => .block (rwSL F q lt gt n ss)
      | other => other
  def rwSL (F : FloatOps R) (q : Quirks) (lt gt : List Ty) : Nat → List (Stmt R) → List (Stmt R)
    | 0, ss => ss
    | _ + 1, [] => []
    | n + 1, s :: ss => rwS F q lt gt n s :: rwSL F q lt gt n ss
  def rwArms (F : FloatOps R) (q : Quirks) (lt gt : List Ty) :
      Nat → List (CaseLabel × List (Stmt R)) → List (CaseLabel × List (Stmt R))
    | 0, as => as
    | _ + 1, [] => []
    | n + 1, (l, ss) :: as => (l, rwSL F q lt gt n ss) :: rwArms F q lt gt n as
end

def rwProg (F : FloatOps R) (q : Quirks) (P : Prog R) : Prog R :=
  { P with fns := P.fns.map (fun fn =>
      { fn with body := rwS F q (List.replicate fn.nparams .mixed ++ fn.locals) P.globals 100000 fn.body }) }

/-! ## literal encodings (icode.c write_long_number / write_number, interpret.c F_CONST0 .. F_LONG) -/

inductive NumCode where
  | const0
  | const1
  | byte (b : Nat)          -- F_BYTE, operand 0..255
  | nbyte (b : Nat)         -- F_NBYTE, operand = -val, 1..255
  | number (lo32 : Nat)     -- F_NUMBER, 4 operand bytes (two's complement of the int)
  | long (lo64 : Nat)       -- F_LONG, 8 operand bytes
  deriving Repr, DecidableEq

/-- write_long_number: the encoding chosen for a 64-bit constant -/
def encodeNum (v : Int) : NumCode :=
  if -(2 ^ 31) ≤ v ∧ v < 2 ^ 31 then
    -- write_number ((int) val)
    if 0 ≤ v ∧ v ≤ 255 then (if v = 0 then .const0 else if v = 1 then .const1 else .byte v.toNat)
    else if v < 0 ∧ v > -256 then .nbyte (-v).toNat
    else .number (v % 2 ^ 32).toNat
  else .long (v % 2 ^ 64).toNat

/-- what eval_instruction pushes for each encoding -/
def decodeNum : NumCode → Int
  | .const0 => 0
  | .const1 => 1
  | .byte b => b                       -- push_number (EXTRACT_UCHAR (pc++))
  | .nbyte b => -(b : Int)             -- push_number (-((int) EXTRACT_UCHAR (pc++)))
  | .number lo => wrap32 lo            -- LOAD_INT (i, pc); push_number (i)
  | .long lo => wrap lo                -- LOAD_LONG

/-! ## switch tables (prepare_cases + i_generate_node) -/

def insertSorted (e : Int × Nat) : List (Int × Nat) → List (Int × Nat)
  | [] => [e]
  | x :: xs => if e.1 ≤ x.1 then e :: x :: xs else x :: insertSorted e xs

def sortEntries (l : List (Int × Nat)) : List (Int × Nat) := l.foldr insertSorted []

/-- are the keys consecutive? -/
def consecutive : List (Int × Nat) → Bool
  | [] => true
  | [_] => true
  | a :: b :: rest => (a.1 + 1 == b.1) && consecutive (b :: rest)

/-- integer switch table for the arm labels (in source order; arm k gets target k + 2); `none` when the
    labels are not integer labels.  Duplicate / overlapping labels are a compile error and not handled here. -/
def buildTable (labels : List CaseLabel) : Option LpcOps.SwTable :=
  let idx := labels.zipIdx
  if labels.any (fun l => match l with | .str _ => true | _ => false) then none else
  let hasRange := labels.any (fun l => match l with | .range _ _ => true | _ => false)
  -- one sort key per label: the lower bound
  let keyed : List (Int × (Int × Nat)) := idx.filterMap (fun (l, k) =>
    match l with
    | .num n => some (n, (n, k + 2))
    | .range lo hi => some (lo, (hi, k + 2))
    | _ => none)
  let sorted := (sortEntries (keyed.map (fun e => (e.1, e.2.2)))).map (fun e =>
    match keyed.find? (fun x => x.1 == e.1 && x.2.2 == e.2) with
    | some x => x
    | none => (e.1, (e.1, e.2)))
  if !hasRange && consecutive (sorted.map (fun e => (e.1, e.2.2))) && !sorted.isEmpty
     && inI32 (sorted.headD (0, (0, 0))).1 && inI32 (sorted.getLastD (0, (0, 0))).1 then
    some (.direct (sorted.headD (0, (0, 0))).1 (sorted.map (fun e => e.2.2)))
  else
    some (.sorted (sorted.flatMap (fun e => if e.1 == e.2.1 then [(e.1, e.2.2)] else [(e.1, 1), (e.2.1, e.2.2)])))

/-! ### string switches: labels are interned at compile time, the table holds their ADDRESSES in ascending order,
    `case 0:` is the entry with address 0 (ZERO_AS_STR_CASE_LABEL); ranges are not allowed -/

/-- table key of a label of a string switch (`addr` = address of the shared string) -/
def strLabelKey (addr : List UInt8 → Int) : CaseLabel → Option Int
  | .str s => some (addr s)
  | .num n => if n == 0 then some 0 else none
  | _ => none

def strEntries (addr : List UInt8 → Int) (labels : List CaseLabel) : List (Int × Nat) :=
  labels.zipIdx.filterMap (fun p => (strLabelKey addr p.1).map (fun k => (k, p.2 + 2)))

/-- prepare_cases (string_case_compare) + i_generate_node: entries sorted by address -/
def strTable (addr : List UInt8 → Int) (labels : List CaseLabel) : List (Int × Nat) := sortEntries (strEntries addr labels)

/-- f_switch on a string table: the int 0 searches address 0; a string is looked up in the shared string table first
    (`findstring`; a shared string is its own address) — NOT FOUND THERE means no label can be equal to it: `default`
    at once, WITHOUT searching (address 0 would hit `case 0:`); otherwise binary search for its address -/
def strSwitchFind (addr : List UInt8 → Int) (interned : List UInt8 → Bool) (labels : List CaseLabel) (v : Value R) :
    Res (Option Nat) :=
  let dflt := labels.findIdx? (fun l => l == .dflt)
  let go := fun (s : Int) => match LpcOps.switchLookup (.sorted (strTable addr labels)) s with
    | some a => some (a - 2)
    | none => dflt
  match v with
  | .int n => if n == 0 then .ok (go 0) else .err
  | .str x => if interned x then .ok (go (addr x)) else .ok dflt
  | _ => .err

/-- an injective, non-zero address assignment for execution (which one is irrelevant: `string_switch_agrees`) -/
def addrExec (s : List UInt8) : Int := (s.foldl (fun acc b => acc * 257 + b.toNat + 1) 0 : Nat) + 2

/-- f_switch through the compiled table: index of the selected arm -/
def switchFind (labels : List CaseLabel) (v : Value R) : Res (Option Nat) :=
  let dflt := labels.findIdx? (fun l => l == .dflt)
  match buildTable labels with
  | some tab =>
    match v with
    | .int s =>
      match LpcOps.switchLookup tab s with
      | some a => .ok (some (a - 2))
      | none => .ok dflt
    | _ => .err
  | none =>
    -- string table; interned = at least the labels (strings interned elsewhere are found but are in no table entry)
    strSwitchFind addrExec (fun s => labels.any (fun l => l == .str s)) labels v

end Frontend

/-- the interpreter's operator semantics (after the front end has rewritten the program) -/
def modelSem (F : FloatOps R) (q : Quirks) : Sem R where
  unop := LpcOps.unop F
  binop := LpcOps.binop F
  truthy := LpcOps.truthy
  assignop := LpcOps.assignop F q
  incdec := LpcOps.incdec F
  index := LpcOps.index F
  rindex := LpcOps.rindex
  range := LpcOps.range q Spec.oldRange
  extract := LpcOps.extract q Spec.oldRange
  lvGet := LpcOps.lvGet F
  lvSet := LpcOps.lvSet F q
  storeRange := LpcOps.storeRange
  foreachSeq := LpcOps.foreachSeq
  keyEq := keyEq F
  switchFind := Frontend.switchFind
  whileDec := some (LpcOps.whileDec F)
  loopCondNum := some (LpcOps.loopCondNum F)
  loopCondLocal := some (LpcOps.loopCondLocal F)

end NV.C03
