/-
C03 — property theorems, part 4: f_switch on sorted tables (plain and with `case a..b` range markers).
The binary search of f_switch (power-of-two stepping with the fix-up for tables whose size is not a power of
two) returns, for EVERY strictly sorted table and every int64 value, the target of the unique entry / range
that contains the value and `default` otherwise.
-/
import NV.C03.Props3

namespace NV.C03
open LpcOps

/-- keys strictly ascending (prepare_cases sorts the labels; equal or overlapping labels are a compile error) -/
def SortedT (t : List (Int × Nat)) : Prop := ∀ i j, i < j → j < t.length → tkey t i < tkey t j

/-- complete description of the result of a lookup in a sorted table: an entry whose key equals `s` (the lower
    bound of a range yields the target stored with the upper bound), a range marker whose bounds enclose `s`,
    or nothing (`default`).  In a strictly sorted table at most one of the three applies, so this is the first
    (= only) matching arm of the if-chain. -/
structure Good (t : List (Int × Nat)) (s : Int) (r : Option Nat) : Prop where
  eq : ∀ i, i < t.length → tkey t i = s → r = some (if taddr t i ≤ 1 then taddr t (i + 1) else taddr t i)
  rng : ∀ i, i + 1 < t.length → taddr t i ≤ 1 → tkey t i < s → s < tkey t (i + 1) → r = some (taddr t (i + 1))
  dflt : (∀ i, i < t.length → tkey t i ≠ s) →
         (∀ i, i + 1 < t.length → taddr t i ≤ 1 → ¬ (tkey t i < s ∧ s < tkey t (i + 1))) → r = none

theorem sorted_lt {t : List (Int × Nat)} (hs : SortedT t) {i j : Nat} (hi : i < t.length) (hj : j < t.length)
    (h : tkey t i < tkey t j) : i < j := by
  rcases Nat.lt_trichotomy i j with h1 | h1 | h1
  · exact h1
  · subst h1; omega
  · have := hs j i h1 hi; omega

theorem sorted_le {t : List (Int × Nat)} (hs : SortedT t) {i j : Nat} (hj : j < t.length) (h : i ≤ j) :
    tkey t i ≤ tkey t j := by
  rcases Nat.lt_or_ge i j with h1 | h1
  · have := hs i j h1 hj; omega
  · have : i = j := by omega
    subst this; omega

/-- cover width of a node with step `d`: the node at `l` represents the indices strictly between `l - w` and `l + w` -/
def width (d : Nat) : Nat := if d = 0 then 1 else 2 * d

theorem width_half_pow (k : Nat) : width (2 ^ k / 2) = 2 ^ k := by
  cases k with
  | zero => simp [width]
  | succ k =>
    have h : 2 ^ (k + 1) / 2 = 2 ^ k := by rw [Nat.pow_succ]; omega
    have hp : 0 < 2 ^ k := Nat.two_pow_pos _
    rw [h, Nat.pow_succ]; unfold width; split <;> omega

theorem half_pow_lt (k : Nat) : 2 ^ k / 2 < 2 ^ k := by
  have hp : 0 < 2 ^ k := Nat.two_pow_pos _
  omega

/-- the fix-up loop after `l += d`: either nothing is left on the right (`l + 1 = n` case) or it lands on
    `l + 2^k'` inside the table with the remaining right part covered -/
theorem fixup_spec (n l : Nat) : ∀ f k, 2 ^ k < f →
    (fixup n f (l + 2 ^ k) (2 ^ k) = (l + 1, 0) ∧ n ≤ l + 1) ∨
    (∃ k', k' ≤ k ∧ fixup n f (l + 2 ^ k) (2 ^ k) = (l + 2 ^ k', 2 ^ k') ∧ l + 2 ^ k' < n ∧
      (k' = k ∨ n ≤ l + 2 ^ (k' + 1))) := by
  intro f
  induction f with
  | zero => intro k h; have := Nat.two_pow_pos k; omega
  | succ f ih =>
    intro k hk
    unfold fixup
    by_cases hge : l + 2 ^ k ≥ n
    · rw [if_pos hge]
      cases k with
      | zero =>
        left
        simp
        simpa using hge
      | succ k' =>
        have h2 : 2 ^ (k' + 1) / 2 = 2 ^ k' := by rw [Nat.pow_succ]; omega
        have hp : 0 < 2 ^ k' := Nat.two_pow_pos _
        rw [h2, if_neg (by omega)]
        have hl : l + 2 ^ (k' + 1) - 2 ^ k' = l + 2 ^ k' := by rw [Nat.pow_succ]; omega
        rw [hl]
        have hk' : 2 ^ k' < f := by rw [Nat.pow_succ] at hk; omega
        rcases ih k' hk' with h | ⟨k'', hle, he, hlt, hor⟩
        · left; exact h
        · right
          refine ⟨k'', by omega, he, hlt, ?_⟩
          rcases hor with h | h
          · right; subst h; exact hge
          · right; exact h
    · rw [if_neg hge]
      right
      exact ⟨k, Nat.le_refl _, rfl, by omega, Or.inl rfl⟩

/-- the search invariant: everything left of the cover is below `s`, everything right of it above -/
theorem bsearch_good (t : List (Int × Nat)) (s : Int) (hs : SortedT t) :
    ∀ fuel l d, l < t.length → (d = 0 ∨ ∃ k, d = 2 ^ k) → d < fuel →
      (∀ i, i < t.length → i + width d ≤ l → tkey t i < s) →
      (∀ i, i < t.length → l + width d ≤ i → s < tkey t i) →
      Good t s (bsearch t s fuel l d) := by
  intro fuel
  induction fuel with
  | zero => intro l d _ _ h; omega
  | succ fuel ih =>
    intro l d hl hd hfuel hA hB
    unfold bsearch
    by_cases h1 : s < tkey t l
    · rw [if_pos h1]
      by_cases hd0 : d = 0
      · -- leaf, s below key l
        subst hd0
        rw [if_pos rfl]
        have hA' : ∀ i, i < t.length → i + 1 ≤ l → tkey t i < s := by
          intro i hi h; exact hA i hi (by simpa [width] using h)
        have hR : ∀ i, i < t.length → l ≤ i → s < tkey t i := by
          intro i hi h; have := sorted_le hs hi h; omega
        constructor
        · intro i hi he
          rcases Nat.lt_or_ge i l with h | h
          · have := hA' i hi (by omega); omega
          · have := hR i hi h; omega
        · intro i hi hm hlo hhi
          have hil : i < l := by
            rcases Nat.lt_or_ge i l with h | h
            · exact h
            · have := hR i (by omega) h; omega
          have hil2 : l ≤ i + 1 := by
            rcases Nat.lt_or_ge (i + 1) l with h | h
            · have := hA' (i + 1) hi (by omega); omega
            · exact h
          have hli : l = i + 1 := by omega
          subst hli
          rw [if_pos]
          simp only [Nat.add_sub_cancel]
          exact ⟨by omega, hm, by omega⟩
        · intro _ hnr
          rw [if_neg]
          rintro ⟨hl1, hm, hge⟩
          have hlt : tkey t (l - 1) < s := hA' (l - 1) (by omega) (by omega)
          have : l - 1 + 1 = l := by omega
          exact hnr (l - 1) (by omega) hm ⟨hlt, by rw [this]; exact h1⟩
      · -- go left
        rw [if_neg hd0]
        rcases hd with hd | ⟨k, hk⟩
        · exact absurd hd hd0
        · subst hk
          have hp0 : 0 < 2 ^ k := Nat.two_pow_pos _
          apply ih (l - 2 ^ k) (2 ^ k / 2) (by omega)
          · cases k with
            | zero => left; simp
            | succ k => right; exact ⟨k, by rw [Nat.pow_succ]; omega⟩
          · have := half_pow_lt k; omega
          · intro i hi h
            rw [width_half_pow] at h
            apply hA i hi
            have hp : 0 < 2 ^ k := Nat.two_pow_pos _
            unfold width; rw [if_neg (by omega)]; omega
          · intro i hi h
            rw [width_half_pow] at h
            have : l ≤ i := by omega
            have := sorted_le hs hi this
            omega
    · rw [if_neg h1]
      by_cases h2 : s > tkey t l
      · rw [if_pos h2]
        by_cases hd0 : d = 0
        · -- leaf, s above key l
          subst hd0
          rw [if_pos rfl]
          have hB' : ∀ i, i < t.length → l + 1 ≤ i → s < tkey t i := by
            intro i hi h; exact hB i hi (by simpa [width] using h)
          have hL : ∀ i, i ≤ l → tkey t i < s := by
            intro i h; have := sorted_le hs hl h; omega
          constructor
          · intro i hi he
            rcases Nat.lt_or_ge l i with h | h
            · have := hB' i hi (by omega); omega
            · have := hL i h; omega
          · intro i hi hm hlo hhi
            have h1' : i ≤ l := by
              rcases Nat.lt_or_ge l i with h | h
              · have := hB' i (by omega) (by omega); omega
              · exact h
            have h2' : l ≤ i := by
              rcases Nat.lt_or_ge i l with h | h
              · have := hL (i + 1) (by omega); omega
              · exact h
            have : i = l := by omega
            subst this
            rw [if_pos ⟨hm, hi, by omega⟩]
          · intro _ hnr
            rw [if_neg]
            rintro ⟨hm, hlt, hle⟩
            have hlt' : s < tkey t (l + 1) := hB' (l + 1) hlt (by omega)
            exact hnr l hlt hm ⟨h2, hlt'⟩
        · -- go right
          rw [if_neg hd0]
          rcases hd with hd | ⟨k, hk⟩
          · exact absurd hd hd0
          · subst hk
            have hL : ∀ i, i ≤ l → tkey t i < s := by
              intro i h; have := sorted_le hs hl h; omega
            rcases fixup_spec t.length l (2 ^ k + 1) k (by omega) with ⟨he, hn⟩ | ⟨k', hle, he, hlt, hor⟩
            · -- nothing right of l
              rw [he]
              have hn' : l + 1 = t.length := by omega
              rw [if_pos hn']
              constructor
              · intro i hi hk; have := hL i (by omega); omega
              · intro i hi hm hlo hhi; have := hL (i + 1) (by omega); omega
              · intro _ _; rfl
            · rw [he]
              simp only
              rw [if_neg (by omega)]
              apply ih (l + 2 ^ k') (2 ^ k' / 2) hlt
              · cases k' with
                | zero => left; simp
                | succ k'' => right; exact ⟨k'', by rw [Nat.pow_succ]; omega⟩
              · have := half_pow_lt k'
                have : 2 ^ k' ≤ 2 ^ k := Nat.pow_le_pow_right (by omega) hle
                omega
              · intro i hi h
                rw [width_half_pow] at h
                exact hL i (by omega)
              · intro i hi h
                rw [width_half_pow] at h
                rcases hor with hk | hn
                · subst hk
                  apply hB i hi
                  have hp : 0 < 2 ^ k' := Nat.two_pow_pos _
                  unfold width; rw [if_neg (by omega)]; omega
                · rw [Nat.pow_succ] at hn; omega
      · -- key found
        rw [if_neg h2]
        have he : tkey t l = s := by omega
        constructor
        · intro i hi hk
          have : i = l := by
            rcases Nat.lt_trichotomy i l with h | h | h
            · have := hs i l h hl; omega
            · exact h
            · have := hs l i h hi; omega
          subst this
          split <;> rfl
        · intro i hi hm hlo hhi
          have h1' : i < l := sorted_lt hs (by omega) hl (by omega)
          have h2' : l < i + 1 := sorted_lt hs hl hi (by omega)
          omega
        · intro hne _
          exact absurd he (hne l hl)

theorem log2floor_spec : ∀ fuel n, 1 ≤ n → n < 2 ^ fuel →
    2 ^ log2floor fuel n ≤ n ∧ n < 2 ^ (log2floor fuel n + 1) := by
  intro fuel
  induction fuel with
  | zero => intro n h1 h2; simp at h2; omega
  | succ f ih =>
    intro n h1 h2
    unfold log2floor
    by_cases hn : n ≤ 1
    · rw [if_pos hn]; have : n = 1 := by omega
      subst this; simp
    · rw [if_neg hn]
      have h := ih (n / 2) (by omega) (by rw [Nat.pow_succ] at h2; omega)
      rw [Nat.add_comm 1, Nat.pow_succ, Nat.pow_succ]
      omega

/-- f_switch on a sorted table (plain entries and `case a..b` range markers): for EVERY strictly sorted table
    and every value the binary search returns the target of the entry equal to the value, else of the range
    enclosing it, else `default` -/
theorem switch_sorted_agrees (t : List (Int × Nat)) (s : Int) (hs : SortedT t) (hn : t.length < 2 ^ 64) :
    Good t s (switchLookup (.sorted t) s) := by
  unfold switchLookup
  simp only
  by_cases he : t.isEmpty = true
  · rw [if_pos he]
    have : t.length = 0 := by simpa using he
    constructor
    · intro i hi; omega
    · intro i hi; omega
    · intro _ _; rfl
  · rw [if_neg he]
    have hlen : 1 ≤ t.length := by
      cases t with
      | nil => simp at he
      | cons a b => simp
    obtain ⟨hlo, hhi⟩ := log2floor_spec 64 t.length hlen hn
    generalize log2floor 64 t.length = k at hlo hhi
    have hp : 0 < 2 ^ k := Nat.two_pow_pos _
    apply bsearch_good t s hs
    · omega
    · cases k with
      | zero => left; simp
      | succ k' => right; exact ⟨k', by rw [Nat.pow_succ]; omega⟩
    · have := half_pow_lt k; omega
    · intro i hi h; rw [width_half_pow] at h; omega
    · intro i hi h; rw [width_half_pow] at h; rw [Nat.pow_succ] at hhi; omega

/-- `Good` determines the result: any other lookup procedure with the same description (in particular the if-chain
    over the table in ascending order) returns the same target -/
theorem good_unique {t : List (Int × Nat)} {s : Int} {r r' : Option Nat} (h1 : Good t s r) (h2 : Good t s r') :
    r = r' := by
  by_cases he : ∃ i, i < t.length ∧ tkey t i = s
  · obtain ⟨i, hi, hk⟩ := he
    rw [h1.eq i hi hk, h2.eq i hi hk]
  · by_cases hr : ∃ i, i + 1 < t.length ∧ taddr t i ≤ 1 ∧ tkey t i < s ∧ s < tkey t (i + 1)
    · obtain ⟨i, hi, hm, a, b⟩ := hr
      rw [h1.rng i hi hm a b, h2.rng i hi hm a b]
    · have hne : ∀ i, i < t.length → tkey t i ≠ s := fun i hi hk => he ⟨i, hi, hk⟩
      have hnr : ∀ i, i + 1 < t.length → taddr t i ≤ 1 → ¬ (tkey t i < s ∧ s < tkey t (i + 1)) :=
        fun i hi hm hh => hr ⟨i, hi, hm, hh.1, hh.2⟩
      rw [h1.dflt hne hnr, h2.dflt hne hnr]

/-- non-vacuity: the table of `case 1: case 5..9: case 20:` is sorted, and 7 is found through the range marker -/
example : SortedT [(1, 2), (5, 1), (9, 3), (20, 4)] ∧
    switchLookup (.sorted [(1, 2), (5, 1), (9, 3), (20, 4)]) 7 = some 3 := by
  constructor
  · intro i j hij hj
    simp at hj
    have : j = 1 ∨ j = 2 ∨ j = 3 := by omega
    rcases this with h | h | h <;> subst h
    · have : i = 0 := by omega
      subst this; decide
    · have : i = 0 ∨ i = 1 := by omega
      rcases this with h | h <;> subst h <;> decide
    · have : i = 0 ∨ i = 1 ∨ i = 2 := by omega
      rcases this with h | h | h <;> subst h <;> decide
  · decide

end NV.C03
