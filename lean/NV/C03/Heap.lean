/-
C03 — `Heap`: arrays as heap cells with reference counts, and lib/lpc/array.c `add_array (p, r)` branch by branch
(`+`, `+=` on arrays).  The driver hands an operand back, extends it in place or moves its elements out when the
reference counts say that nobody else can see it; the tests are REGENERATED from the source
(`NV.Gen.C03.addArray*`).  `Props10.lean` proves that whatever branch is taken the result holds `p ++ r`, its
reference count is 1, every operand loses exactly the references the call consumed and every array that is still
referenced afterwards holds what it held before - i.e. the in-place paths refine the value semantics of `Spec`.

A reference count 0 stands for a freed block (`freed`); the allocator hands out the address `af` of a free block.
Not modelled: the allocation limit (`__MAX_ARRAY_SIZE__` error before anything is touched), the_null_array being
shared, ARRAY_STATS counters.
-/
import NV.Gen.C03

namespace NV.C03.Heap

structure Cell (V : Type) where
  ref : Nat
  items : List V

abbrev Heap (V : Type) := Nat → Cell V

variable {V : Type}

def upd (H : Heap V) (a : Nat) (c : Cell V) : Heap V := fun x => if x = a then c else H x

/-- `x->ref--` -/
def decRef (H : Heap V) (a : Nat) : Heap V := upd H a ⟨(H a).ref - 1, (H a).items⟩

/-- a block given back to the allocator -/
def freed : Cell V := ⟨0, []⟩

/-- add_array (p, r): `ap`, `ar` = addresses of the operands (equal for `x + x`), `af` = the block
    allocate_empty_array / copy_array would return.  Result: new heap and the address of the result. -/
def addArray (H : Heap V) (ap ar af : Nat) : Heap V × Nat :=
  let same := decide (ap = ar)
  if (H ap).items.length = 0 then
    -- p->ref--; return r->ref > 1 ? (r->ref--, copy_array (r)) : r;
    let H1 := decRef H ap
    if NV.Gen.C03.addArrayCopyWhenLeftEmpty same (H1 ap).ref (H1 ar).ref then
      (upd (decRef H1 ar) af ⟨1, (H1 ar).items⟩, af)
    else (H1, ar)
  else if (H ar).items.length = 0 then
    let H1 := decRef H ar
    if NV.Gen.C03.addArrayCopyWhenRightEmpty same (H1 ap).ref (H1 ar).ref then
      (upd (decRef H1 ap) af ⟨1, (H1 ap).items⟩, af)
    else (H1, ap)
  else if NV.Gen.C03.addArraySelf same (H ap).ref (H ar).ref then
    -- d = RESIZE_ARRAY (p, res); copy myself; d->ref = 1; d->size <<= 1
    (upd H ap ⟨1, (H ap).items ++ (H ap).items⟩, ap)
  else
    let res := (H ap).items ++ (H ar).items
    -- left operand: extended in place, or copied into a new block (p->ref--)
    let Hd : Heap V × Nat :=
      if NV.Gen.C03.addArrayReuseLeft same (H ap).ref (H ar).ref then (upd H ap ⟨(H ap).ref, res⟩, ap)
      else (upd (decRef H ap) af ⟨1, res⟩, af)
    -- right operand: elements moved out and the block freed, or copied (r->ref--)
    let H2 := if NV.Gen.C03.addArrayMoveRight same (Hd.1 ap).ref (Hd.1 ar).ref then upd Hd.1 ar freed else decRef Hd.1 ar
    (H2, Hd.2)

/-- number of references to `a` that the call consumes (the two operand slots on the stack) -/
def uses (ap ar a : Nat) : Nat := (if a = ap then 1 else 0) + (if a = ar then 1 else 0)

/-- the selection of slice_array once `from` / `to` are clamped (same as `LpcOps.sliceArray`, restated here because
    this file is below Model.lean) -/
def sliceItems (l : List V) (frm to : Int) : List V :=
  let f := if frm < 0 then 0 else frm
  let t := if to ≥ l.length then (l.length : Int) - 1 else to
  if f > t then [] else (l.drop f.toNat).take (t - f + 1).toNat

/-- slice_array (p, from, to) (lib/lpc/array.c; ranges `a[i..j]`, `a[i..]` on arrays): the caller's reference to p is consumed.
    Empty selection: free_array (p), the (shared) null array is the result - modelled as the fresh block `af` holding [].
    Otherwise `--p->ref`; the block is cut down in place only when that was the last reference (test regenerated:
    `NV.Gen.C03.sliceArrayReuse`), else a new block receives copies. -/
def sliceArray (H : Heap V) (ap af : Nat) (frm to : Int) : Heap V × Nat :=
  let f := if frm < 0 then 0 else frm
  let t := if to ≥ (H ap).items.length then ((H ap).items.length : Int) - 1 else to
  if f > t then
    -- free_array (p): the block goes back to the allocator when this was the last reference
    let H1 := if (H ap).ref - 1 = 0 then upd H ap freed else decRef H ap
    (upd H1 af ⟨1, []⟩, af)
  else if NV.Gen.C03.sliceArrayReuse ((H ap).ref - 1) then
    (upd H ap ⟨1, sliceItems (H ap).items frm to⟩, ap)
  else
    (upd (decRef H ap) af ⟨1, sliceItems (H ap).items frm to⟩, af)

end NV.C03.Heap
