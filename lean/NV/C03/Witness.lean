/-
C03 — Lean-checked witnesses: the full statements that the code as it exists falsifies (open known findings,
known/C03.jsonl).  Each witness is at the operator / rewrite level and holds for every `FloatOps` instance (or
exhibits one); the same inputs replay on the real driver through the `input` of the known finding.
-/
import NV.C03.Props2

namespace NV.C03

variable {R : Type}

/-- a trivial FloatOps instance (reals = integers) to instantiate universally quantified statements -/
def toyF : FloatOps Int :=
  { add := (· + ·), sub := (· - ·), mul := (· * ·), div := (· / ·), neg := fun x => -x, lt := fun a b => decide (a < b),
    le := fun a b => decide (a ≤ b), eq := fun a b => a == b, ofInt := id, toInt := id, fmt := fun _ => [] }

/-- full statement: `x op= y` is `x = x op y` for ALL operand pairs -/
def assignop_agrees_Full : Prop :=
  ∀ (R : Type) (F : FloatOps R) (op : BinOp) (old rhs : Value R), Assignable op → VI64 old → ShiftOk op rhs →
    LpcOps.assignop F Quirks.real op old rhs = Spec.assignop F op old rhs

/-- finding num-opeq-real: `x = 1; x += 1.5` stores (and yields) an integer -/
theorem witness_num_opeq_real (F : FloatOps R) (x : R) :
    LpcOps.assignop F Quirks.real .add (.int 1) (.real x) ≠ Spec.assignop F .add (.int 1) (.real x) := by
  simp [LpcOps.assignop, Spec.assignop, Spec.binop, Spec.add, Quirks.real]

/-- finding addeq-num-str: `x = 0; x += "s"` raises, `x = x + "s"` concatenates -/
theorem witness_addeq_num_str (F : FloatOps R) (s : List UInt8) :
    LpcOps.assignop F Quirks.real .add (.int 0) (.str s) = .err ∧
    Spec.assignop F .add (.int 0) (.str s) = .ok (.str (decBytes 0 ++ s), .str (decBytes 0 ++ s)) := by
  constructor <;> simp [LpcOps.assignop, Spec.assignop, Spec.binop, Spec.add, Quirks.real]

theorem assignop_agrees_Full_false : ¬ assignop_agrees_Full := by
  intro h
  have := h Int toyF .add (.int 1) (.real 0) (Or.inl rfl) (by unfold VI64 I64; omega) (by simp [ShiftOk])
  exact witness_num_opeq_real toyF 0 this

/-- finding buf-store-zero (REPAIRED in the repository; `bufStoreZero := true` is the code before the repair): a zero
    byte could not be stored through a buffer element lvalue -/
theorem witness_buf_store_zero (F : FloatOps R) :
    LpcOps.lvSet F { Quirks.real with bufStoreZero := true } false (.buf [65]) (.int 0) (.int 0) = .err ∧
    Spec.lvSet F false (.buf [65]) (.int 0) (.int 0) = .ok (.buf [0]) := by
  constructor
  · simp [LpcOps.lvSet, Quirks.real, Spec.lowByte]
  · simp [Spec.lvSet, Spec.lowByte, Spec.listSet]

/-- findings behind the zero-comparison rewrite: for a real that compares equal to 0, `x == 0` is 1 but `!x` is 0 —
    the rewrite is only sound for integers (`rewrite_eq_zero_sound`); the grammar applies it whenever its
    optimistic static type is `int` (finding optimistic-types) -/
theorem witness_eq_zero_real (F : FloatOps R) (x : R) (hx : F.eq x (F.ofInt 0) = true) :
    Spec.binop F .eq (.real x) (.int 0) = .ok (.int 1) ∧ Spec.unop F .not (.real x) = .ok (.int 0) := by
  constructor <;> simp [Spec.binop, Spec.unop, Spec.eqv, b2i, hx]

/-- the grammar's result type of `mixed + int` is `int`, so `(m + 1) == 0` IS rewritten to `!(m + 1)` -/
theorem witness_optimistic_rewrite (F : FloatOps R) :
    Frontend.rwBin F Quirks.real [.mixed] [] .eq (.bin .add (.loc 0) (.lit (.int 1))) (.lit (.int 0))
      = .un .not (.bin .add (.loc 0) (.lit (.int 1))) := by
  simp [Frontend.rwBin, Frontend.typeOf, Frontend.arithTy, Frontend.numTy, Frontend.isZeroLit, Frontend.isLit, Quirks.real,
    Frontend.tyCode, NV.Gen.C03.rwEqZeroL, NV.Gen.C03.rwEqZeroR, NV.Gen.C03.typeNumber]

/-- finding rev-range-wrap (REPAIRED in the repository; `revRangeWrap := true` is the code before the repair):
    `a[<INT64_MIN..]` on a one-element array returned the whole array (`size - i` wraps), the reference result is empty -/
theorem witness_rev_range_wrap :
    LpcOps.extract (R := R) { Quirks.real with revRangeWrap := true } true true (.arr [.int 10]) (.int (-(2 ^ 63)))
      = .ok (.arr [.int 10]) := by
  simp [LpcOps.extract, LpcOps.extractWith, LpcOps.revSub, LpcOps.sliceArray, Quirks.real, wrap, wrap32]

end NV.C03
