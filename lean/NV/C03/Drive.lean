/-
C03 driver.  Case lines (shared with harness/c03/c03.c):

  L <text>      LPC source text (ignored here)
  sx <sexpr>    the same program as an S-expression (ignored by the harness); several lines are concatenated
  run <n>       evaluate t0 .. t<n-1>

`model`: the program goes through `Frontend.rwProg` (the compiler's rewrites and folds) and is evaluated with
`modelSem` (LpcOps) — must equal the real driver line by line.
`judge`: every function is evaluated with the reference semantics (`specSem`, no front end) and compared with
the implementation's result; a disagreement is attributed to ONE open finding when repairing exactly that
deviation in the model makes it agree with the reference (`why=<quirk>`), else `why=unexplained`.
Sibling spellings of one computation (`same i j ..` lines) must have equal reference values.

S-expression grammar: see `parseE` / `parseS` below and props/c03.py (the generator prints both forms).
-/
import NV.Common.Proto
import NV.C03.Spec
import NV.C03.Model
import NV.C03.Frontend
import NV.C03.HashMap
import NV.C03.Macro
import NV.C03.Heap

namespace NV.C03

open NV.Proto

/-! ## IEEE doubles for execution -/

def pow2 (n : Nat) : Nat := 2 ^ n

/-- exact value of a finite double as (negative?, mantissa, exponent): value = m * 2^e -/
def decodeDouble (x : Float) : Bool × Nat × Int :=
  let b := x.toBits.toNat
  let sign := b / pow2 63 == 1
  let ex := (b / pow2 52) % 2048
  let frac := b % pow2 52
  if ex == 0 then (sign, frac, -1074) else (sign, frac + pow2 52, (ex : Int) - 1075)

def padLeft (s : String) (n : Nat) : String := String.ofList (List.replicate (n - s.length) '0') ++ s

/-- sprintf ("%lf", x): six decimals, exact value rounded half to even -/
def fmtLf (x : Float) : String :=
  if x.isNaN then (if x.toBits.toNat / pow2 63 == 1 then "-nan" else "nan")
  else if x.isInf then (if x < 0 then "-inf" else "inf")
  else
    let (neg, m, e) := decodeDouble x
    -- scaled = m * 2^e * 10^6 as a rational num/den
    let num := if e ≥ 0 then m * pow2 e.toNat * 1000000 else m * 1000000
    let den := if e ≥ 0 then 1 else pow2 (-e).toNat
    let q := num / den
    let r := num % den
    let q := if 2 * r > den then q + 1 else if 2 * r == den then (if q % 2 == 1 then q + 1 else q) else q
    let ip := q / 1000000
    let fp := q % 1000000
    (if neg then "-" else "") ++ toString ip ++ "." ++ padLeft (toString fp) 6

def floatToInt (x : Float) : Int :=
  if x.isNaN || x ≥ 9223372036854775808.0 || x < -9223372036854775808.0 then -(2 ^ 63) else x.toInt64.toInt

def floatOps : FloatOps Float where
  add := (· + ·)
  sub := (· - ·)
  mul := (· * ·)
  div := (· / ·)
  neg := fun x => -x
  lt := fun a b => decide (a < b)
  le := fun a b => decide (a ≤ b)
  eq := fun a b => a == b
  ofInt := Float.ofInt
  toInt := floatToInt
  fmt := fun x => (fmtLf x).toUTF8.toList

/-! ## canonical text of values (same as harness/c03/c03.c) -/

def hexDigit (n : Nat) : Char := if n < 10 then Char.ofNat (48 + n) else Char.ofNat (87 + n)

def hexByte (b : Nat) : String := String.ofList [hexDigit (b / 16), hexDigit (b % 16)]

def hex64 (n : Nat) : String :=
  String.join ((List.range 8).reverse.map (fun i => hexByte ((n / pow2 (8 * i)) % 256)))

def escByte (b : UInt8) : String :=
  let c := b.toNat
  if c < 32 || c == 34 || c == 92 || c ≥ 127 then "\\x" ++ hexByte c else String.ofList [Char.ofNat c]

partial def render : Value Float → String
  | .int n => toString n
  | .real x => if x.isNaN then "f:nan" else "f:" ++ hex64 x.toBits.toNat
  | .str s => "\"" ++ String.join (s.map escByte) ++ "\""
  | .arr l => "({" ++ ",".intercalate (l.map render) ++ "})"
  | .map m =>
    let items := m.map (fun e => render e.1 ++ ":" ++ render e.2)
    "([" ++ ",".intercalate (items.toArray.qsort (· < ·)).toList ++ "])"
  | .buf b => "b:" ++ String.join (b.map (fun x => hexByte x.toNat))

def renderRes : Res (Value Float) → String
  | .ok v => render v
  | .err => "!err"
  | .crash => "!crash"
  | .fuel => "!fuel"

/-! ## S-expressions -/

inductive Sx where
  | atom (s : String)
  | list (l : List Sx)
  deriving Inhabited

def tokenize (s : String) : List String :=
  let rec go (cs : List Char) (cur : List Char) (acc : List String) : List String :=
    match cs with
    | [] => (if cur.isEmpty then acc else String.ofList cur.reverse :: acc).reverse
    | c :: rest =>
      if c == '(' || c == ')' then
        go rest [] (String.ofList [c] :: (if cur.isEmpty then acc else String.ofList cur.reverse :: acc))
      else if c == ' ' then go rest [] (if cur.isEmpty then acc else String.ofList cur.reverse :: acc)
      else go rest (c :: cur) acc
  go s.toList [] []

partial def parseSx : List String → Option (Sx × List String)
  | [] => none
  | "(" :: rest =>
    let rec items (ts : List String) (acc : List Sx) : Option (Sx × List String) :=
      match ts with
      | [] => none
      | ")" :: r => some (.list acc.reverse, r)
      | _ =>
        match parseSx ts with
        | some (x, r) => items r (x :: acc)
        | none => none
    items rest []
  | ")" :: _ => none
  | a :: rest => some (.atom a, rest)

def hexVal (c : Char) : Nat :=
  if '0' ≤ c && c ≤ '9' then c.toNat - 48 else if 'a' ≤ c && c ≤ 'f' then c.toNat - 87 else 0

def parseHexNat (s : String) : Nat := s.toList.foldl (fun acc c => acc * 16 + hexVal c) 0

def parseHexBytes (s : String) : List UInt8 :=
  let rec go : List Char → List UInt8
    | a :: b :: rest => UInt8.ofNat (hexVal a * 16 + hexVal b) :: go rest
    | _ => []
  go s.toList

def parseBool (s : String) : Bool := s == "1"

def parseUn : String → Option UnOp
  | "not" => some .not | "compl" => some .compl | "neg" => some .neg | _ => none

def parseBinOp : String → Option BinOp
  | "add" => some .add | "sub" => some .sub | "mul" => some .mul | "div" => some .div | "mod" => some .mod
  | "band" => some .band | "bor" => some .bor | "bxor" => some .bxor | "lsh" => some .lsh | "rsh" => some .rsh
  | "eq" => some .eq | "ne" => some .ne | "lt" => some .lt | "le" => some .le | "gt" => some .gt | "ge" => some .ge
  | _ => none

def parseInc : String → Option IncKind
  | "preinc" => some .preInc | "predec" => some .preDec | "postinc" => some .postInc | "postdec" => some .postDec
  | _ => none

def parseTy : String → Ty
  | "int" => .int | "real" => .real | "str" => .str | _ => .mixed

mutual
  partial def parseE : Sx → Option (Expr Float)
    | .list [.atom "i", .atom n] => do some (.lit (.int (wrap (← n.toInt?))))
    | .list [.atom "f", .atom h] => some (.lit (.real (Float.ofBits (UInt64.ofNat (parseHexNat h)))))
    | .list [.atom "s", .atom h] => some (.lit (.str (parseHexBytes h)))
    | .list [.atom "s"] => some (.lit (.str []))
    | .list [.atom "l", .atom k] => do some (.loc (← k.toNat?))
    | .list [.atom "g", .atom k] => do some (.glob (← k.toNat?))
    | .list [.atom "un", .atom op, a] => do some (.un (← parseUn op) (← parseE a))
    | .list [.atom "bin", .atom op, a, b] => do some (.bin (← parseBinOp op) (← parseE a) (← parseE b))
    | .list [.atom "and", a, b] => do some (.land (← parseE a) (← parseE b))
    | .list [.atom "or", a, b] => do some (.lor (← parseE a) (← parseE b))
    | .list [.atom "cond", c, a, b] => do some (.cond (← parseE c) (← parseE a) (← parseE b))
    | .list [.atom "asg", lv, e] => do some (.asg (← parseLV lv) (← parseE e))
    | .list [.atom "aop", .atom op, lv, e] => do some (.aop (← parseBinOp op) (← parseLV lv) (← parseE e))
    | .list [.atom "inc", .atom k, lv] => do some (.inc (← parseInc k) (← parseLV lv))
    | .list [.atom "idx", a, i] => do some (.idx (← parseE a) (← parseE i))
    | .list [.atom "ridx", a, i] => do some (.ridx (← parseE a) (← parseE i))
    | .list [.atom "rng", .atom fr, .atom tr, a, i, j] => do
      some (.rng (parseBool fr) (parseBool tr) (← parseE a) (← parseE i) (← parseE j))
    | .list [.atom "rnge", .atom fr, a, i] => do some (.rnge (parseBool fr) (← parseE a) (← parseE i))
    | .list (.atom "arr" :: es) => do some (.arr (← es.mapM parseE))
    | .list (.atom "map" :: es) => do
      let vs ← es.mapM parseE
      let rec pairs : List (Expr Float) → List (Expr Float × Expr Float)
        | k :: v :: rest => (k, v) :: pairs rest
        | _ => []
      some (.map (pairs vs))
    | .list (.atom "call" :: .atom f :: es) => do some (.call f (← es.mapM parseE))
    | .list (.atom "efun" :: .atom f :: es) => do some (.efun f (← es.mapM parseE))
    | _ => none
  partial def parseLV : Sx → Option (LV Float)
    | .list [.atom "l", .atom k] => do some (.loc (← k.toNat?))
    | .list [.atom "g", .atom k] => do some (.glob (← k.toNat?))
    | .list [.atom "idx", lv, i] => do some (.idx (← parseLV lv) (← parseE i))
    | .list [.atom "ridx", lv, i] => do some (.ridx (← parseLV lv) (← parseE i))
    | .list [.atom "rng", .atom fr, .atom tr, lv, i, j] => do
      some (.rng (parseBool fr) (parseBool tr) (← parseLV lv) (← parseE i) (← parseE j))
    | _ => none
end

def parseLabel : Sx → Option CaseLabel
  | .list [.atom "num", .atom n] => do some (.num (wrap (← n.toInt?)))
  | .list [.atom "range", .atom a, .atom b] => do some (.range (wrap (← a.toInt?)) (wrap (← b.toInt?)))
  | .list [.atom "str", .atom h] => some (.str (parseHexBytes h))
  | .list [.atom "str"] => some (.str [])
  | .atom "default" => some .dflt
  | _ => none

partial def parseS : Sx → Option (Stmt Float)
  | .list [.atom "expr", e] => do some (.expr (← parseE e))
  | .list [.atom "ret", e] => do some (.ret (← parseE e))
  | .list [.atom "if", c, t, e] => do some (.ite (← parseE c) (← parseS t) (← parseS e))
  | .list [.atom "while", c, b] => do some (.while (← parseE c) (← parseS b))
  | .list [.atom "do", b, c] => do some (.doWhile (← parseS b) (← parseE c))
  | .list [.atom "for", i, c, s, b] => do some (.for (← parseS i) (← parseE c) (← parseS s) (← parseS b))
  | .list [.atom "foreach", lv, e, b] => do some (.foreach (← parseLV lv) (← parseE e) (← parseS b))
  | .list [.atom "foreach2", lk, lv, e, b] => do
    some (.foreach2 (← parseLV lk) (← parseLV lv) (← parseE e) (← parseS b))
  | .list (.atom "switch" :: e :: arms) => do
    let as ← arms.mapM (fun a =>
      match a with
      | .list (.atom "arm" :: lab :: ss) => do some ((← parseLabel lab), (← ss.mapM parseS))
      | _ => none)
    some (.switch (← parseE e) as)
  | .list (.atom "block" :: ss) => do some (.block (← ss.mapM parseS))
  | .atom "break" => some .brk
  | .atom "continue" => some .cont
  | .atom "nop" => some .nop
  | _ => none

def parseFn : Sx → Option (Fn Float)
  | .list [.atom "fn", .atom name, .atom np, .list tys, body] => do
    some { name := name, nparams := (← np.toNat?),
           locals := tys.map (fun t => match t with | .atom a => parseTy a | _ => .mixed), body := (← parseS body) }
  | _ => none

def parseProg : Sx → Option (Prog Float)
  | .list (.atom "prog" :: .list gtys :: fns) => do
    some { globals := gtys.map (fun t => match t with | .atom a => parseTy a | _ => .mixed), fns := (← fns.mapM parseFn) }
  | _ => none

structure Parsed where
  prog : Option (Prog Float) := none
  nrun : Nat := 0
  same : List (List Nat) := []
  bad : List String := []

def parseCase (lines : List String) : Parsed :=
  let sxText := " ".intercalate (lines.filterMap (fun l => if l.startsWith "sx " then some (l.drop 3).toString else none))
  let prog := match parseSx (tokenize sxText) with
    | some (sx, _) => parseProg sx
    | none => none
  let nrun := lines.foldl (fun acc l => match toks l with | ["run", n] => n.toNat?.getD acc | _ => acc) 0
  let same := lines.filterMap (fun l => match toks l with | "same" :: ns => some (ns.filterMap String.toNat?) | _ => none)
  { prog := prog, nrun := nrun, same := same, bad := if prog.isNone then ["bad-line sx does not parse"] else [] }

def FUEL : Nat := 200000

def modelRun (q : Quirks) (P : Prog Float) (i : Nat) : String :=
  let P' := Frontend.rwProg floatOps q P
  renderRes (runFn (modelSem floatOps q) P' FUEL s!"t{i}")

def specRun (P : Prog Float) (i : Nat) : String :=
  renderRes (runFn (specSem floatOps) P FUEL s!"t{i}")

/-! ## maptrace: the hash-table model against real mapping_t tables (harness command `maptrace`) -/

/-- svalue_to_int / node_hash for an integer key: `(int) (number >> 4)`, then masked with table_size -/
def intHash (k : Int) : Nat := ((k / (4096 / (NV.Gen.C03.mapHashOf4096 : Int))) % 4294967296).toNat

def fillPct : Nat := NV.Gen.C03.mapFillPercent

def mapBits0 : Nat := Nat.log2 NV.Gen.C03.mapHashTableSize

/-- allocate_mapping (n): table size -/
def allocBits (n : Nat) : Nat := if n > NV.Gen.C03.mapHashTableSize then Nat.log2 n + 1 else mapBits0

def dumpTbl (tok : String) (m : HT.Tbl Int Int) : String :=
  let buckets := (List.range (2 ^ m.bits)).filterMap (fun i =>
    match m.tbl i with
    | [] => none
    | c => some s!" {i}:[{",".intercalate (c.map (fun e => toString e.1))}]")
  s!"T {tok} size={2 ^ m.bits} unfilled={m.unfilled} count={m.count}{String.join buckets}"

def runMapTrace (toks : List String) : List String :=
  let step := fun (st : HT.Tbl Int Int × HT.Tbl Int Int × List String) (tok : String) =>
    let (a, b, out) := st
    let isB := tok.startsWith "b" && tok != "abs"
    let cur := if isB then b else a
    let put := fun (m : HT.Tbl Int Int) => if isB then (a, m, dumpTbl tok m :: out) else (m, b, dumpTbl tok m :: out)
    if tok == "abs" then
      let a' := if b.count = 0 then a else HT.merge intHash fillPct a (HT.walk b)
      (a', b, dumpTbl tok a' :: out)
    else if tok == "plus" then (a, b, dumpTbl tok (HT.addMapping intHash fillPct a b) :: out)
    else
      match (tok.drop 1).toString.splitOn ":" with
      | ["i", k, v] =>
        match k.toInt?, v.toInt? with
        | some k, some v => put (HT.insert intHash fillPct cur k v)
        | _, _ => (a, b, s!"T {tok} !badtoken" :: out)
      | ["d", k] =>
        match k.toInt? with
        | some k => put (HT.delete intHash cur k)
        | none => (a, b, s!"T {tok} !badtoken" :: out)
      | ["n", n] =>
        match n.toNat? with
        | some n => put (HT.empty (allocBits n) fillPct)
        | none => (a, b, s!"T {tok} !badtoken" :: out)
      | _ => (a, b, s!"T {tok} !badtoken" :: out)
  let e : HT.Tbl Int Int := HT.empty mapBits0 fillPct
  (toks.foldl step (e, e, [])).2.2.reverse

/-- oracle for a table dump: every key sits in the bucket its hash selects, no key twice, count = number of nodes -/
def judgeDump (line : String) : Option String :=
  match toks line with
  | "T" :: tok :: rest =>
    let size := (rest.findSome? (fun t => if t.startsWith "size=" then (t.drop 5).toString.toNat? else none)).getD 0
    let count := (rest.findSome? (fun t => if t.startsWith "count=" then (t.drop 6).toString.toNat? else none)).getD 0
    let buckets := rest.filterMap (fun t =>
      match t.splitOn ":[" with
      | [i, ks] => some (i.toNat?.getD 0, ((ks.dropEnd 1).toString.splitOn ",").filterMap String.toInt?)
      | _ => none)
    let keys := buckets.flatMap (·.2)
    let misplaced := buckets.filter (fun (i, ks) => ks.any (fun k => intHash k % size != i))
    if size == 0 then (if rest.any (· == "!err") then none else some s!"bad maptrace-unreadable {tok}")
    else if !misplaced.isEmpty then some s!"bad maptrace-bucket {tok} a key is linked into bucket {(misplaced.headD (0, [])).1} which its hash does not select"
    else if keys.length != count then some s!"bad maptrace-count {tok} count={count} nodes={keys.length}"
    else if keys.eraseDups.length != keys.length then some s!"bad maptrace-duplicate {tok}"
    else none
  | _ => none

/-! ## mdef: handle_define against the real lexer (harness/c03/c03lex.c) -/

def isBlank (c : Char) : Bool := c == ' ' || c == '\t'

/-- the parameter list parser of handle_define (GETDEFINE / SKIPWHITE); input starts after the `(` -/
partial def parseParams (cs : List Char) (acc : List (List Char)) : Option (List (List Char) × List Char) :=
  let cs := cs.dropWhile isBlank
  match cs with
  | ')' :: rest => if acc.isEmpty then some ([], rest) else none
  | _ =>
    let p := cs.takeWhile (fun c => Macro.isAlunum c || c == '#')
    let r := (cs.drop p.length).dropWhile isBlank
    match r with
    | ')' :: rest => some (acc ++ [p], rest)
    | ',' :: rest => parseParams rest (acc ++ [p])
    | _ => none

/-- `#define` text -> (name, parameters or none, body text as handle_define sees it) -/
def parseDefine (text : String) : Option (List Char × Option (List (List Char)) × List Char) :=
  let cs := text.toList
  let name := cs.takeWhile Macro.isAlunum
  match cs.drop name.length with
  | '(' :: rest =>
    match parseParams rest [] with
    | some (ps, body) => some (name, some ps, body)
    | none => none
  | c :: rest => if isBlank c || c == '\\' then some (name, none, c :: rest) else none
  | [] => none

/-- defn_t.exps: MARKS MARKS for a literal MARKS, MARKS (MARKS + 1 + n) for parameter n -/
def encodeItems (items : List Macro.Item) : List Nat :=
  items.flatMap (fun it => match it with
    | .ch c => if c.toNat == NV.Gen.C03.macroMarks then [c.toNat, c.toNat] else [c.toNat]
    | .arg n => [NV.Gen.C03.macroMarks, NV.Gen.C03.macroMarks + 1 + n])

def storedText (useSpec : Bool) (ps : Option (List (List Char))) (body : List Char) : List Nat :=
  match ps with
  | none => body.map Char.toNat
  | some ps => encodeItems (if useSpec then Macro.specDefine ps body else Macro.handleDefine ps body)

def mdefLine (useSpec : Bool) (text : String) : String :=
  match parseDefine text with
  | none => s!"D {String.ofList (text.toList.takeWhile Macro.isAlunum)} !unparsed"
  | some (name, ps, body) =>
    let n : Int := match ps with | none => -1 | some l => l.length
    s!"D {String.ofList name} nargs={n} exps={String.join ((storedText useSpec ps body).map hexByte)}"


/-! ### arrtrace: add_array on the heap model (`Heap.lean`), same dump as harness/c03 `arrtrace` -/

def showInts (l : List Int) : String := "[" ++ ",".intercalate (l.map toString) ++ "]"

def runArrTrace (args : List String) : List String :=
  match args.map String.toNat? with
  | [some same, some psize, some pextra, some rsize, some rextra] =>
    let pit : List Int := (List.range psize).map (fun i => Int.ofNat i + 1)
    let rit : List Int := (List.range rsize).map (fun i => Int.ofNat i + 101)
    let ap := 0
    let ar := if same != 0 then 0 else 1
    let af := 2
    let H : Heap.Heap Int := fun a =>
      if a = 0 then ⟨(if same != 0 then 2 else 1) + pextra, pit⟩
      else if a = 1 then ⟨1 + rextra, rit⟩ else ⟨0, []⟩
    let R := Heap.addArray H ap ar af
    let d := R.1 R.2
    let cell (nm : String) (c : Heap.Cell Int) : String :=
      if c.items.isEmpty then s!" {nm}=*:[]" else s!" {nm}={c.ref}:{showInts c.items}"
    let tail := (if pextra > 0 then cell "p" (R.1 ap) else "") ++ (if same == 0 && rextra > 0 then cell "r" (R.1 ar) else "")
    let head := s!"A {same} {psize} {pextra} {rsize} {rextra}"
    if d.items.isEmpty then [s!"{head} res=E ref=* items=[]{tail}"]
    else
      let who := if pextra > 0 && R.2 = ap then "P" else if same == 0 && rextra > 0 && R.2 = ar then "R" else "V"
      [s!"{head} res={who} ref={d.ref} items={showInts d.items}{tail}"]
  | _ => [s!"A {" ".intercalate args} !badargs"]

def runModel (lines : List String) : List String :=
  if lines.any (fun l => l.startsWith "arrtrace ") then
    (lines.filter (fun l => l.startsWith "arrtrace ")).flatMap (fun l => runArrTrace (toks (l.drop 9).toString))
  else
  if lines.any (fun l => l.startsWith "mdef ") then
    lines.filterMap (fun l => if l.startsWith "mdef " then some (mdefLine false (l.drop 5).toString) else none)
  else
  match lines.find? (fun l => l.startsWith "maptrace ") with
  | some l => runMapTrace (toks (l.drop 9).toString)
  | none =>
  let p := parseCase lines
  match p.prog with
  | none => p.bad
  | some P => (List.range p.nrun).map (fun i => s!"r {i} {modelRun Quirks.real P i}")

/-- the open findings: name and the model with exactly this deviation repaired -/
def quirkList : List (String × Quirks) :=
  [ ("num-opeq-real", { Quirks.real with numOpEqReal := false }),
    ("addeq-num-str", { Quirks.real with addEqNumStr := false }),
    ("optimistic-types", { Quirks.real with optimisticTypes := false }) ]

def clip (s : String) : String := if s.length > 160 then (s.take 160).toString ++ "..." else s


/-- oracle for one real `arrtrace` dump, from the VALUE semantics only: the result is `p ++ r` with one reference, an
    operand somebody else still holds is not the result, keeps its elements and is referenced exactly by its other holders -/
def judgeArr (l : String) : Option String :=
  match toks l with
  | "A" :: a :: b :: c :: d :: e :: rest =>
    match [a, b, c, d, e].map String.toNat? with
    | [some same, some psize, some pextra, some rsize, some rextra] =>
      let pit : List Int := (List.range psize).map (fun i => Int.ofNat i + 1)
      let rit : List Int := if same != 0 then pit else (List.range rsize).map (fun i => Int.ofNat i + 101)
      let field (k : String) : Option String := rest.findSome? (fun t => if t.startsWith (k ++ "=") then some (t.drop (k.length + 1)).toString else none)
      let want := showInts (pit ++ rit)
      if rest == ["!err"] then some s!"bad arrtrace-error add_array raised an error: {l}"
      else if field "items" != some want then some s!"bad arrtrace-value result is not p ++ r: {clip l} want items={clip want}"
      else if (pit ++ rit) != [] && field "ref" != some "1" then some s!"bad arrtrace-ref the result is not referenced exactly once: {clip l}"
      else if field "res" == some "P" then some s!"bad arrtrace-alias the left operand is still held elsewhere but was reused for the result: {clip l}"
      else if field "res" == some "R" then some s!"bad arrtrace-alias the right operand is still held elsewhere but was reused for the result: {clip l}"
      else if pextra > 0 && field "p" != some (if pit.isEmpty then "*:[]" else s!"{pextra}:{showInts pit}") then
        some s!"bad arrtrace-operand the left operand (held {pextra} times elsewhere) changed or has a wrong count: {clip l}"
      else if same == 0 && rextra > 0 && field "r" != some (if rit.isEmpty then "*:[]" else s!"{rextra}:{showInts rit}") then
        some s!"bad arrtrace-operand the right operand (held {rextra} times elsewhere) changed or has a wrong count: {clip l}"
      else none
    | _ => some s!"bad arrtrace-unparsable {clip l}"
  | _ => some s!"bad arrtrace-unparsable {clip l}"

def runJudge (body : List String) : List String :=
  let (input, impl) := splitJudge body
  if input.any (fun l => l.startsWith "arrtrace ") then
    let crash := impl.filter (fun l => l.startsWith "crash" || l.startsWith "sanitizer")
    let dumps := impl.filter (fun l => l.startsWith "A ")
    let n := (input.filter (fun l => l.startsWith "arrtrace ")).length
    match crash.map (fun l => s!"bad impl-crash {clip l}") ++ dumps.filterMap judgeArr ++
          (if dumps.length != n && crash.isEmpty then ["bad arrtrace-missing dump"] else []) with
    | [] => ["ok"]
    | vs => vs
  else
  if input.any (fun l => l.startsWith "mdef ") then
    -- oracle: what the real handle_define stored must be the textbook template of the definition
    let want := input.filterMap (fun l => if l.startsWith "mdef " then some (mdefLine true (l.drop 5).toString) else none)
    let crash := impl.filter (fun l => l.startsWith "crash" || l.startsWith "sanitizer")
    let bad := (want.zip (impl.filter (fun l => l.startsWith "D "))).filterMap (fun (w, g) =>
      if w == g then none else some s!"bad macro-body stored text differs from the textbook template: impl={clip g} spec={clip w}")
    match crash.map (fun l => s!"bad impl-crash {clip l}") ++ bad ++
          (if (impl.filter (fun l => l.startsWith "D ")).length != want.length then ["bad macro-body missing dump"] else []) with
    | [] => ["ok"]
    | vs => vs
  else
  if input.any (fun l => l.startsWith "maptrace ") then
    let crash := impl.filter (fun l => l.startsWith "crash" || l.startsWith "sanitizer")
    match crash.map (fun l => s!"bad impl-crash {clip l}") ++ impl.filterMap judgeDump with
    | [] => ["ok"]
    | vs => vs
  else
  let p := parseCase input
  match p.prog with
  | none => ["bad unparsable-case"]
  | some P =>
    let implOf (i : Nat) : Option String :=
      impl.findSome? (fun l =>
        let pre := s!"r {i} "
        if l.startsWith pre then some (l.drop pre.length).toString else none)
    let crash := impl.filter (fun l => l.startsWith "crash" || l.startsWith "sanitizer" || l.startsWith "compile-fail")
    let specs := (List.range p.nrun).map (fun i => specRun P i)
    let v1 := crash.map (fun l => s!"bad impl-crash {clip l}")
    let v2 := (List.range p.nrun).filterMap (fun i =>
      match implOf i with
      | none => if crash.isEmpty then some s!"bad missing-result fn=t{i}" else none
      | some "!nofn" => none
      | some got =>
        let want := specs.getD i ""
        if got == want then none
        else
          -- an open finding explains the disagreement only if the model of the code that exists reproduces the
          -- implementation's value AND repairing exactly that deviation gives the reference value
          let why := if modelRun Quirks.real P i != got then []
            else quirkList.filterMap (fun (name, q) => if modelRun q P i == want then some name else none)
          let w := match why with | [] => "unexplained" | n :: _ => n
          some s!"bad spec-mismatch why={w} fn=t{i} impl={clip got} spec={clip want}")
    let v3 := p.same.filterMap (fun grp =>
      let vals := grp.map (fun i => specs.getD i "")
      match vals with
      | [] => none
      | v :: rest => if rest.all (· == v) then none else some s!"bad spec-siblings-differ fns={grp} values={vals.map clip}")
    match v1 ++ v2 ++ v3 with
    | [] => ["ok"]
    | vs => vs

/-- `spec` mode: reference values only (used by the generator tests and the notes) -/
def runSpec (lines : List String) : List String :=
  let p := parseCase lines
  match p.prog with
  | none => p.bad
  | some P => (List.range p.nrun).map (fun i => s!"r {i} {specRun P i}")

def main (mode : String) : IO Unit :=
  match mode with
  | "model" => serve runModel
  | "judge" => serve runJudge
  | "spec" => serve runSpec
  | _ => IO.eprintln s!"C03: unknown mode {mode}"

end NV.C03
