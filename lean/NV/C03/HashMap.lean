/-
C03 — model of the mapping hash table of lib/lpc/mapping.c (the data structure behind every LPC mapping):

* `2^bits` buckets, bucket index = hash & table_size (`idx`), chains with insertion at the head;
* `growMap`: the table doubles, every chain is re-split by the next hash bit (no rehash);
* `find_for_insert` / the element step of `add_to_mapping` (`insert`): assign on an existing key, otherwise link a new
  node at the head of the bucket; if the bucket was empty and `--unfilled` reaches 0 the table grows FIRST and the
  bucket index is recomputed with the widened mask (`if (oi & size) i |= size`);
* `add_to_mapping` (`merge`) = that step for every pair of the right operand; `mapping_delete` (`delete`).

Generic in the key type (with decidable equality = msameval on one key type) and in the hash function, so the
theorems in Props6.lean hold for int, real and (address-hashed) string keys alike.  The order inside the chains is
modelled exactly (head insertion, growMap reverses the part it moves, copyMapping reverses every chain) and
`unfilled` is the 16-bit counter of the C code: `nvdrive C03 model` reproduces the bucket layout that the harness
command `maptrace` dumps from real `mapping_t` tables (int keys).
-/
import NV.C03.Spec

namespace NV.C03.HT

variable {K V : Type} [DecidableEq K]

structure Tbl (K V : Type) where
  /-- the table has `2^bits` buckets (`table_size = 2^bits - 1`) -/
  bits : Nat
  tbl : Nat → List (K × V)
  /-- countdown to the next growMap (mapping_t.unfilled) -/
  unfilled : Nat
  count : Nat

def chainFind (k : K) : List (K × V) → Option V
  | [] => none
  | e :: es => if e.1 = k then some e.2 else chainFind k es

def chainSet (k : K) (v : V) : List (K × V) → List (K × V)
  | [] => []
  | e :: es => if e.1 = k then (e.1, v) :: es else e :: chainSet k v es

def chainDel (k : K) : List (K × V) → List (K × V)
  | [] => []
  | e :: es => if e.1 = k then es else e :: chainDel k es

/-- `hash & table_size` -/
def idx (h : K → Nat) (bits : Nat) (k : K) : Nat := h k % 2 ^ bits

/-- `node_hash (elt) & oldsize` -/
def hbit (h : K → Nat) (bits : Nat) (k : K) : Nat := (h k / 2 ^ bits) % 2

/-- find_in_mapping -/
def lookup (h : K → Nat) (m : Tbl K V) (k : K) : Option V := chainFind k (m.tbl (idx h m.bits k))

/-- `--x` on an unsigned short -/
def dec16 (n : Nat) : Nat := (n + 65535) % 65536

/-- growMap -/
def grow (h : K → Nat) (fill : Nat) (m : Tbl K V) : Tbl K V :=
  let size := 2 ^ m.bits
  let lower := fun i => (m.tbl i).filter (fun e => hbit h m.bits e.1 = 0)
  -- moved nodes are pushed one by one onto the head of the upper chain
  let upper := fun i => ((m.tbl i).filter (fun e => hbit h m.bits e.1 = 1)).reverse
  let newUpper := ((List.range size).filter (fun i => !(upper i).isEmpty)).length
  let emptied := ((List.range size).filter (fun i => !(m.tbl i).isEmpty && (lower i).isEmpty)).length
  { bits := m.bits + 1
    tbl := fun i => if i < size then lower i else upper (i - size)
    unfilled := (size * fill / 100 + emptied + 65536 - newUpper % 65536) % 65536
    count := m.count }

def setTbl (m : Tbl K V) (i : Nat) (c : List (K × V)) : Tbl K V :=
  { m with tbl := fun j => if j = i then c else m.tbl j }

/-- a new node at the head of the bucket of `k` -/
def linkNew (h : K → Nat) (g : Tbl K V) (k : K) (v : V) (cnt : Nat) : Tbl K V :=
  { setTbl g (idx h g.bits k) ((k, v) :: g.tbl (idx h g.bits k)) with count := cnt }

/-- find_for_insert followed by the assignment; also the per-pair step of add_to_mapping -/
def insert (h : K → Nat) (fill : Nat) (m : Tbl K V) (k : K) (v : V) : Tbl K V :=
  let i := idx h m.bits k
  match chainFind k (m.tbl i) with
  | some _ => setTbl m i (chainSet k v (m.tbl i))
  | none =>
    if (m.tbl i).isEmpty then
      if dec16 m.unfilled = 0 then
        -- growMap first, then the bucket index with the widened mask (`if (oi & size) i |= size`)
        linkNew h (grow h fill { m with unfilled := dec16 m.unfilled }) k v (m.count + 1)
      else linkNew h { m with unfilled := dec16 m.unfilled } k v (m.count + 1)
    else linkNew h m k v (m.count + 1)

/-- mapping_delete -/
def delete (h : K → Nat) (m : Tbl K V) (k : K) : Tbl K V :=
  let i := idx h m.bits k
  match chainFind k (m.tbl i) with
  | some _ =>
    let c := chainDel k (m.tbl i)
    { setTbl m i c with count := m.count - 1, unfilled := if c.isEmpty then (m.unfilled + 1) % 65536 else m.unfilled }
  | none => m

/-- add_to_mapping: every pair of the right operand through the insert step -/
def merge (h : K → Nat) (fill : Nat) (m : Tbl K V) (pairs : List (K × V)) : Tbl K V :=
  pairs.foldl (fun acc e => insert h fill acc e.1 e.2) m

/-- the step of unique_add_to_mapping: an existing key keeps its value -/
def insertUnique (h : K → Nat) (fill : Nat) (m : Tbl K V) (k : K) (v : V) : Tbl K V :=
  match chainFind k (m.tbl (idx h m.bits k)) with
  | some _ => m
  | none => insert h fill m k v

/-- copyMapping: same table, every chain reversed -/
def copy (m : Tbl K V) : Tbl K V := { m with tbl := fun i => (m.tbl i).reverse }

/-- the pairs of a table in the order add_to_mapping walks them: buckets from the top down, chains from the head -/
def walk (m : Tbl K V) : List (K × V) := (List.range (2 ^ m.bits)).reverse.flatMap m.tbl

/-- add_mapping (`a + b`): the larger operand is copied and the other one merged into the copy; on common keys the
    value of `b` wins either way -/
def addMapping (h : K → Nat) (fill : Nat) (a b : Tbl K V) : Tbl K V :=
  if a.count ≥ b.count then (if b.count = 0 then copy a else merge h fill (copy a) (walk b))
  else if a.count = 0 then copy b
  else (walk a).foldl (fun acc e => insertUnique h fill acc e.1 e.2) (copy b)

/-- allocate_mapping: `2^bits` empty buckets -/
def empty (bits fill : Nat) : Tbl K V :=
  { bits := bits, tbl := fun _ => [], unfilled := 2 ^ bits * fill / 100, count := 0 }

/-- all pairs, bucket by bucket (mapTraverse order up to the order inside a chain) -/
def toList (m : Tbl K V) : List (K × V) := (List.range (2 ^ m.bits)).flatMap m.tbl

end NV.C03.HT
