/-
C03 — property theorems, part 7: macro definitions and expansion.  `handle_define` (as transcribed in Macro.lean, with
the identifier test regenerated from lib/lpc/lex.c into `NV.Gen.C03.macroParamMatch`) stores exactly the textbook
substitution template: an identifier token of the body is replaced iff it EQUALS a parameter name — for every
parameter list, every body and every argument list.  A change of the identifier test (e.g. comparing only a prefix)
changes `NV/Gen/C03.lean` and breaks `macroParamMatch_iff`.
-/
import NV.C03.Macro
import NV.C03.Props6

namespace NV.C03.Macro

/-- bridging lemma for the regenerated guard: the C test accepts parameter `p` for identifier `id` iff `p = id` -/
theorem macroParamMatch_iff (p id : List Char) :
    NV.Gen.C03.macroParamMatch p.length id.length (fun n => decide (p.take n = id.take n)) = decide (p = id) := by
  unfold NV.Gen.C03.macroParamMatch
  by_cases h : p = id
  · subst h; simp
  · by_cases hl : p.length = id.length
    · have : ¬ (p = List.take p.length id) := by
        intro hh
        apply h
        rw [hh, hl, List.take_length]
      simp [h, this]
    · simp [h, hl]

/-- the parameter chosen by the C loop is the textbook one -/
theorem matchParam_eq_paramOf (params : List (List Char)) (id : List Char) : matchParam params id = paramOf params id := by
  unfold matchParam paramOf
  congr 1
  funext p
  exact macroParamMatch_iff p id

/-- the one-pass form of `tokenize` + `substTok` (pending identifier `cur`) -/
def specGo (params : List (List Char)) : List Char → List Char → List Item
  | [], cur => if cur.isEmpty then [] else substTok params (.ident cur)
  | c :: cs, cur =>
    if isAlunum c then specGo params cs (cur ++ [c])
    else (if cur.isEmpty then [] else substTok params (.ident cur)) ++ [.ch c] ++ specGo params cs []

theorem specGo_eq (params : List (List Char)) : ∀ (cs cur : List Char),
    specGo params cs cur = (tokenize cs cur).flatMap (substTok params) := by
  intro cs
  induction cs with
  | nil => intro cur; unfold specGo tokenize; split <;> simp
  | cons c cs ih =>
    intro cur
    unfold specGo tokenize
    split
    · exact ih _
    · rw [ih]
      split <;> simp [substTok]

/-- the loop without the final flush: a pending identifier at the end of the input is left as it is -/
def goRaw (params : List (List Char)) : List Char → List Char → List Item
  | [], cur => cur.map .ch
  | c :: cs, cur =>
    if isAlunum c then goRaw params cs (cur ++ [c])
    else (if cur.isEmpty then [] else substTok params (.ident cur)) ++ [.ch c] ++ goRaw params cs []

/-- invariant of the C loop: the text copied so far ends with the pending identifier (already copied, to be taken
    back by `q -= idlen` on a match); the final text is the part before it followed by the substitution of the rest -/
theorem scan_eq (params : List (List Char)) : ∀ (cs : List Char) (pre : List Item) (cur : List Char),
    scan params cs (pre ++ cur.map .ch) cur = pre ++ goRaw params cs cur := by
  intro cs
  induction cs with
  | nil => intro pre cur; simp [scan, goRaw]
  | cons c cs ih =>
    intro pre cur
    unfold scan goRaw
    by_cases hc : isAlunum c = true
    · rw [if_pos hc, if_pos hc]
      have h1 : pre ++ cur.map Item.ch ++ [Item.ch c] = pre ++ (cur ++ [c]).map Item.ch := by simp
      rw [h1, ih pre (cur ++ [c])]
    · rw [if_neg hc, if_neg hc]
      simp only
      by_cases he : cur.isEmpty = true
      · have hcur : cur = [] := by simpa using he
        subst hcur
        simp only [List.isEmpty_nil, if_true, List.map_nil, List.append_nil, List.nil_append]
        have := ih (pre ++ [Item.ch c]) []
        simp only [List.map_nil, List.append_nil] at this
        rw [this]; simp
      · rw [if_neg he, if_neg he, matchParam_eq_paramOf]
        simp only [substTok]
        cases paramOf params cur with
        | none =>
          simp only
          have := ih (pre ++ cur.map Item.ch ++ [Item.ch c]) []
          simp only [List.map_nil, List.append_nil] at this
          rw [this]; simp
        | some n =>
          simp only [List.length_append, List.length_map, Nat.add_sub_cancel]
          rw [List.take_left']
          · have := ih (pre ++ [Item.arg n] ++ [Item.ch c]) []
            simp only [List.map_nil, List.append_nil] at this
            rw [this]; simp
          · rfl

theorem goRaw_blank (params : List (List Char)) : ∀ (cs cur : List Char),
    goRaw params (cs ++ [' ']) cur = specGo params cs cur ++ [.ch ' '] := by
  intro cs
  induction cs with
  | nil =>
    intro cur
    have hb : isAlunum ' ' = false := by decide
    simp [goRaw, specGo, hb]
  | cons c cs ih =>
    intro cur
    simp only [List.cons_append, goRaw, specGo]
    split
    · exact ih _
    · rw [ih]; simp

/-- **macro_definition_agrees**: what handle_define stores for `#define NAME(params) body` is the textbook template —
    every identifier token of the body that EQUALS a parameter name (the first such parameter) is a reference to it,
    every other character is kept — for all parameter lists and bodies -/
theorem macro_definition_agrees (params : List (List Char)) (body : List Char) :
    handleDefine params body = specDefine params body := by
  unfold handleDefine specDefine
  have h := scan_eq params (body ++ [' ']) [Item.ch ' '] []
  simp only [List.map_nil, List.append_nil] at h
  rw [h, goRaw_blank, specGo_eq]
  rw [← List.append_assoc, List.dropLast_concat]
  rfl

/-- **macro_expansion_agrees**: the text that replaces a call of a function-like macro is the textbook substitution
    of the arguments into the body, for all macro definitions and all argument lists -/
theorem macro_expansion_agrees (params : List (List Char)) (body : List Char) (args : List (List Char)) :
    expandCall (handleDefine params body) args = expandCall (specDefine params body) args := by
  rw [macro_definition_agrees]

/-- the description's trigger: with parameters `ab`, `a` the body `(a)` refers to the SECOND parameter -/
example : handleDefine ["ab".toList, "a".toList] " (a)".toList = [.ch ' ', .ch ' ', .ch '(', .arg 1, .ch ')'] := by
  rw [macro_definition_agrees]; decide

example : expandCall (specDefine ["a1".toList] " (a * (a1))".toList) ["5".toList] = "  (a * (5))".toList := by decide

end NV.C03.Macro
