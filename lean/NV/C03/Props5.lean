/-
C03 — property theorems, part 5: loop forms over the statement evaluator `execS` (exact in result, state and fuel).
-/
import NV.C03.Props4
namespace NV.C03
variable {R : Type}

theorem execS_nop (S : Sem R) (P : Prog R) (f : Nat) (st : St R) :
    execS S P (f + 1) st .nop = .ok (.normal, st) := by
  simp [execS]

/-- `for (; c; ) body` runs exactly like `while (c) body`: same result, same state, same fuel -/
theorem for_eq_while (S : Sem R) (P : Prog R) (c : Expr R) (body : Stmt R) :
    ∀ fuel st, forLoop S P fuel st c .nop body = execS S P fuel st (.while c body) := by
  intro fuel
  induction fuel with
  | zero => intro st; simp [forLoop, execS]
  | succ f ih =>
    intro st
    rw [forLoop, execS]
    cases h1 : evalTest S P f st c with
    | ok p =>
      obtain ⟨go, st1⟩ := p
      cases go
      · rfl
      · show (execS S P f st1 body >>= _) = (execS S P f st1 body >>= _)
        cases h2 : execS S P f st1 body with
        | ok q =>
          obtain ⟨fl, st2⟩ := q
          cases fl with
          | brk => rfl
          | ret v => rfl
          | normal =>
            cases f with
            | zero => simp [execS, forLoop] 
            | succ f' =>
              simp only [Res.ok_bind]
              rw [execS_nop]
              simp only [Res.ok_bind]
              exact ih st2
          | cont =>
            cases f with
            | zero => simp [execS, forLoop]
            | succ f' =>
              simp only [Res.ok_bind]
              rw [execS_nop]
              simp only [Res.ok_bind]
              exact ih st2
        | err => rfl
        | crash => rfl
        | fuel => rfl
    | err => rfl
    | crash => rfl
    | fuel => rfl

/-- `loop_forms_agree` (for / while): a `for` statement without init and step IS the `while` statement, for every
    semantics record (reference and LpcOps), program, condition, body, state and fuel -/
theorem loop_forms_agree (S : Sem R) (P : Prog R) (c : Expr R) (body : Stmt R) (f : Nat) (st : St R) :
    execS S P (f + 2) st (.for .nop c .nop body) = execS S P (f + 1) st (.while c body) := by
  rw [execS]
  simp only [execS_nop, Res.ok_bind]
  exact for_eq_while S P c body (f + 1) st

end NV.C03
