import NV.C03.Spec
import NV.C03.Model
import NV.C03.Frontend
namespace NV.C03
end NV.C03
