/-
C03 — helper lemmas: int64 arithmetic facts used by the operator theorems.
-/
import NV.C03.Spec
import NV.C03.Model
import NV.C03.Frontend

namespace NV.C03

/-- an int64 value as the theorems see it -/
def I64 (n : Int) : Prop := -(2 ^ 63) ≤ n ∧ n < 2 ^ 63

theorem wrap_id {n : Int} (h : I64 n) : wrap n = n := by
  unfold wrap; unfold I64 at h; omega

theorem wrap_range (n : Int) : I64 (wrap n) := by
  unfold wrap I64; omega

theorem wrap32_id {n : Int} (h1 : -(2 ^ 31) ≤ n) (h2 : n < 2 ^ 31) : wrap32 n = n := by
  unfold wrap32; omega

/-- truncating division of int64 operands stays in range unless it is INT64_MIN / -1 -/
theorem tdiv_range {x y : Int} (hx : I64 x) (hy0 : y ≠ 0) (hy1 : y ≠ -1) : I64 (x.tdiv y) := by
  unfold I64 at *
  have hle := Int.natAbs_tdiv_le_natAbs x y
  have heq := Int.natAbs_tdiv x y
  constructor
  · omega
  · by_cases hbig : x.tdiv y < 2 ^ 63
    · exact hbig
    · exfalso
      have hx' : x = -(2 ^ 63) := by omega
      by_cases h1 : y = 1
      · subst h1; rw [Int.tdiv_one] at hbig; omega
      · have h2 : 2 ≤ y.natAbs := by omega
        have h3 : x.natAbs.div y.natAbs ≤ x.natAbs / 2 := Nat.div_le_div_left h2 (by decide)
        have h4 : x.natAbs = 2 ^ 63 := by omega
        have h5 : (x.tdiv y).natAbs ≤ 2 ^ 63 / 2 := by rw [heq]; rw [h4] at h3 ⊢; exact h3
        omega

theorem tmod_range {x y : Int} (hx : I64 x) : I64 (x.tmod y) := by
  unfold I64 at *
  have h1 := Int.natAbs_tmod x y
  have h2 : x.natAbs % y.natAbs ≤ x.natAbs := Nat.mod_le _ _
  by_cases hpos : 0 ≤ x
  · have := Int.tmod_nonneg y hpos
    omega
  · have h3 : 0 ≤ (-x).tmod y := Int.tmod_nonneg y (by omega)
    rw [Int.neg_tmod] at h3
    omega

theorem idiv_eq {x y : Int} (hx : I64 x) (hy : y ≠ 0) : LpcOps.idiv x y = wrap (x.tdiv y) := by
  unfold LpcOps.idiv
  by_cases h : y = -1
  · subst h; simp
  · have : (y == -1) = false := by simp [h]
    rw [this]; simp
    exact (wrap_id (tdiv_range hx hy h)).symm

theorem imod_eq {x y : Int} (hx : I64 x) : LpcOps.imod x y = wrap (x.tmod y) := by
  unfold LpcOps.imod
  by_cases h : y = -1
  · subst h; simp [wrap]
  · have : (y == -1) = false := by simp [h]
    rw [this]; simp
    exact (wrap_id (tmod_range hx)).symm

theorem shl_eq {x n : Int} (h0 : 0 ≤ n) (h1 : n < 64) : LpcOps.shl x n = wrap (x * 2 ^ n.toNat) := by
  unfold LpcOps.shl
  have : n % 64 = n := by omega
  rw [this]

theorem sar_eq {x n : Int} (h0 : 0 ≤ n) (h1 : n < 64) : LpcOps.sar x n = x / 2 ^ n.toNat := by
  unfold LpcOps.sar
  have : n % 64 = n := by omega
  rw [this]

end NV.C03
