/-
C03 — reference semantics of the covered LPC core (what docs/manual/lpc.md and the language define), written
independently of the byte-code interpreter:

* values: 64-bit integers with wrap-around (`Int` + explicit `wrap`), reals abstracted by `FloatOps`
  (every theorem holds for every instance; `nvdrive` instantiates it with Lean's `Float`), byte strings,
  arrays, mappings (association lists with the language's key equality), buffers;
* operators, truth, indexing, ranges (OLD_RANGE_BEHAVIOR as configured: `NV.Gen.C03.oldRangeBehavior`),
  index/range lvalues incl. char lvalues, `x op= y := x = x op y`, `++x := x = x + 1`;
* syntax of the generated programs and a total big-step evaluator with fuel, generic in the record `Sem` of
  operator semantics.  `specSem` (this file) gives the reference meaning; `NV.C03.modelSem` (Model.lean) gives
  what the byte-code interpreter does; the same evaluator skeleton runs both.

Outside the core (not given a meaning here, `Res.err` or documented in notes/C03.md): identity of arrays /
mappings (aliasing, `==` on containers), container keys, shift counts outside 0..63, objects, classes.
-/
import NV.Gen.C03

namespace NV.C03

/-! ## numbers -/

/-- two's complement wrap-around of a mathematical integer into the int64 range -/
def wrap (n : Int) : Int := (n + 2 ^ 63) % 2 ^ 64 - 2 ^ 63

/-- C `(int)x` for a 64-bit `x`: keep the low 32 bits, sign extended -/
def wrap32 (n : Int) : Int := (n + 2 ^ 31) % 2 ^ 32 - 2 ^ 31

def inI64 (n : Int) : Bool := decide (-(2 ^ 63) ≤ n) && decide (n < 2 ^ 63)
def inI32 (n : Int) : Bool := decide (-(2 ^ 31) ≤ n) && decide (n < 2 ^ 31)

/-- operations on reals the semantics needs; nothing is assumed about them -/
structure FloatOps (R : Type) where
  add : R → R → R
  sub : R → R → R
  mul : R → R → R
  div : R → R → R
  neg : R → R
  lt : R → R → Bool
  le : R → R → Bool
  eq : R → R → Bool
  ofInt : Int → R
  /-- C `(int64_t)x` -/
  toInt : R → Int
  /-- text of `sprintf ("%lf", x)` -/
  fmt : R → List UInt8

/-! ## values and outcomes -/

inductive Value (R : Type) where
  | int (n : Int)
  | real (x : R)
  | str (s : List UInt8)
  | arr (l : List (Value R))
  | map (l : List (Value R × Value R))
  | buf (b : List UInt8)

instance {R} : Inhabited (Value R) := ⟨.int 0⟩

inductive Res (α : Type) where
  | ok (a : α)
  /-- an LPC runtime error (catchable); the text is not part of the semantics -/
  | err
  /-- the C code would access memory out of bounds / trap -/
  | crash
  /-- evaluator fuel exhausted -/
  | fuel
  deriving Repr, DecidableEq

instance : Monad Res where
  pure := .ok
  bind r f := match r with
    | .ok a => f a
    | .err => .err
    | .crash => .crash
    | .fuel => .fuel

inductive UnOp where
  | not | compl | neg
  deriving DecidableEq, Repr

inductive BinOp where
  | add | sub | mul | div | mod | band | bor | bxor | lsh | rsh | eq | ne | lt | le | gt | ge
  deriving DecidableEq, Repr

inductive IncKind where
  | preInc | preDec | postInc | postDec
  deriving DecidableEq, Repr

def IncKind.isInc : IncKind → Bool
  | .preInc | .postInc => true
  | _ => false

def IncKind.isPre : IncKind → Bool
  | .preInc | .preDec => true
  | _ => false

@[simp] theorem Res.ok_bind {α β} (a : α) (f : α → Res β) : (Res.ok a >>= f) = f a := rfl
@[simp] theorem Res.err_bind {α β} (f : α → Res β) : ((Res.err : Res α) >>= f) = Res.err := rfl
@[simp] theorem Res.crash_bind {α β} (f : α → Res β) : ((Res.crash : Res α) >>= f) = Res.crash := rfl
@[simp] theorem Res.fuel_bind {α β} (f : α → Res β) : ((Res.fuel : Res α) >>= f) = Res.fuel := rfl
@[simp] theorem Res.pure_eq {α} (a : α) : (pure a : Res α) = Res.ok a := rfl

variable {R : Type}

def decBytes (n : Int) : List UInt8 := (toString n).toUTF8.toList

/-- strcmp on NUL-free byte strings: -1 / 0 / 1 -/
def strCmp : List UInt8 → List UInt8 → Int
  | [], [] => 0
  | [], _ :: _ => -1
  | _ :: _, [] => 1
  | a :: as, b :: bs => if a < b then -1 else if a > b then 1 else strCmp as bs

def b2i (b : Bool) : Value R := .int (if b then 1 else 0)

/-- equality of array elements for `-` on arrays (containers compare by identity: not modelled, never equal) -/
def sameVal (F : FloatOps R) : Value R → Value R → Bool
  | .int a, .int b => a == b
  | .real a, .real b => F.eq a b
  | .str a, .str b => a == b
  | _, _ => false

/-- equality of mapping keys: same type and same value -/
def keyEq (F : FloatOps R) : Value R → Value R → Bool
  | .int a, .int b => a == b
  | .real a, .real b => F.eq a b
  | .str a, .str b => a == b
  | _, _ => false

/-- a mapping is an association list; `eq` is the key equality of the language -/
def mapLookup {α β : Type} (eq : α → α → Bool) (m : List (α × β)) (k : α) : Option β :=
  match m.find? (fun e => eq e.1 k) with
  | some e => some e.2
  | none => none

def mapInsert {α β : Type} (eq : α → α → Bool) : List (α × β) → α → β → List (α × β)
  | [], k, v => [(k, v)]
  | e :: es, k, v => if eq e.1 k then (e.1, v) :: es else e :: mapInsert eq es k v

/-- map_delete -/
def mapDelete {α β : Type} (eq : α → α → Bool) (m : List (α × β)) (k : α) : List (α × β) :=
  m.filter (fun e => !eq e.1 k)

/-- composition `a * b`: key k of a maps to b[a[k]]; keys whose value is not a key of b are dropped -/
def mapCompose (eq : Value R → Value R → Bool) (a b : List (Value R × Value R)) : List (Value R × Value R) :=
  a.filterMap (fun e => (mapLookup eq b e.2).map (fun w => (e.1, w)))

def mapMerge (eq : Value R → Value R → Bool) (a b : List (Value R × Value R)) : List (Value R × Value R) :=
  b.foldl (fun acc e => mapInsert eq acc e.1 e.2) a

/-! ## reference operators -/

namespace Spec

def unop (F : FloatOps R) : UnOp → Value R → Res (Value R)
  | .not, .int n => .ok (b2i (n == 0))
  | .not, _ => .ok (.int 0)
  | .compl, .int n => .ok (.int (wrap (-n - 1)))
  | .compl, _ => .err
  | .neg, .int n => .ok (.int (wrap (-n)))
  | .neg, .real x => .ok (.real (F.neg x))
  | .neg, _ => .err

def bitop (f : BitVec 64 → BitVec 64 → BitVec 64) (a b : Int) : Int :=
  (f (BitVec.ofInt 64 a) (BitVec.ofInt 64 b)).toInt

def add (F : FloatOps R) : Value R → Value R → Res (Value R)
  | .int a, .int b => .ok (.int (wrap (a + b)))
  | .int a, .real b => .ok (.real (F.add (F.ofInt a) b))
  | .real a, .int b => .ok (.real (F.add a (F.ofInt b)))
  | .real a, .real b => .ok (.real (F.add a b))
  | .str a, .str b => .ok (.str (a ++ b))
  | .str a, .int b => .ok (.str (a ++ decBytes b))
  | .int a, .str b => .ok (.str (decBytes a ++ b))
  | .str a, .real b => .ok (.str (a ++ F.fmt b))
  | .real a, .str b => .ok (.str (F.fmt a ++ b))
  | .arr a, .arr b => .ok (.arr (a ++ b))
  | .map a, .map b => .ok (.map (mapMerge (keyEq F) a b))
  | .buf a, .buf b => .ok (.buf (a ++ b))
  | _, _ => .err

def sub (F : FloatOps R) : Value R → Value R → Res (Value R)
  | .int a, .int b => .ok (.int (wrap (a - b)))
  | .int a, .real b => .ok (.real (F.sub (F.ofInt a) b))
  | .real a, .int b => .ok (.real (F.sub a (F.ofInt b)))
  | .real a, .real b => .ok (.real (F.sub a b))
  | .arr a, .arr b => .ok (.arr (a.filter (fun x => !(b.any (fun y => sameVal F x y)))))
  | _, _ => .err

def mul (F : FloatOps R) : Value R → Value R → Res (Value R)
  | .int a, .int b => .ok (.int (wrap (a * b)))
  | .int a, .real b => .ok (.real (F.mul (F.ofInt a) b))
  | .real a, .int b => .ok (.real (F.mul a (F.ofInt b)))
  | .real a, .real b => .ok (.real (F.mul a b))
  | .map a, .map b => .ok (.map (mapCompose (keyEq F) a b))
  | _, _ => .err

def div (F : FloatOps R) : Value R → Value R → Res (Value R)
  | .int a, .int b => if b == 0 then .err else .ok (.int (wrap (Int.tdiv a b)))
  | .int a, .real b => if F.eq b (F.ofInt 0) then .err else .ok (.real (F.div (F.ofInt a) b))
  | .real a, .int b => if b == 0 then .err else .ok (.real (F.div a (F.ofInt b)))
  | .real a, .real b => if F.eq b (F.ofInt 0) then .err else .ok (.real (F.div a b))
  | _, _ => .err

def cmp (F : FloatOps R) (op : BinOp) : Value R → Value R → Res (Value R)
  | .int a, .int b => .ok (b2i (match op with | .lt => a < b | .le => a ≤ b | .gt => a > b | _ => a ≥ b))
  | .real a, .real b => .ok (b2i (match op with | .lt => F.lt a b | .le => F.le a b | .gt => F.lt b a | _ => F.le b a))
  | .int a, .real b => .ok (b2i (match op with
      | .lt => F.lt (F.ofInt a) b | .le => F.le (F.ofInt a) b | .gt => F.lt b (F.ofInt a) | _ => F.le b (F.ofInt a)))
  | .real a, .int b => .ok (b2i (match op with
      | .lt => F.lt a (F.ofInt b) | .le => F.le a (F.ofInt b) | .gt => F.lt (F.ofInt b) a | _ => F.le (F.ofInt b) a))
  | .str a, .str b => .ok (b2i (match op with
      | .lt => strCmp a b < 0 | .le => strCmp a b ≤ 0 | .gt => strCmp a b > 0 | _ => strCmp a b ≥ 0))
  | _, _ => .err

/-- `==`: numbers by value (int and real compare as reals), strings by content, anything else unequal -/
def eqv (F : FloatOps R) : Value R → Value R → Bool
  | .int a, .int b => a == b
  | .real a, .real b => F.eq a b
  | .int a, .real b => F.eq (F.ofInt a) b
  | .real a, .int b => F.eq a (F.ofInt b)
  | .str a, .str b => a == b
  | _, _ => false

def binop (F : FloatOps R) : BinOp → Value R → Value R → Res (Value R)
  | .add, a, b => add F a b
  | .sub, a, b => sub F a b
  | .mul, a, b => mul F a b
  | .div, a, b => div F a b
  | .mod, .int a, .int b => if b == 0 then .err else .ok (.int (wrap (Int.tmod a b)))
  | .mod, _, _ => .err
  | .band, .int a, .int b => .ok (.int (bitop (· &&& ·) a b))
  | .band, _, _ => .err
  | .bor, .int a, .int b => .ok (.int (bitop (· ||| ·) a b))
  | .bor, _, _ => .err
  | .bxor, .int a, .int b => .ok (.int (bitop (· ^^^ ·) a b))
  | .bxor, _, _ => .err
  | .lsh, .int a, .int b => if 0 ≤ b ∧ b < 64 then .ok (.int (wrap (a * 2 ^ b.toNat))) else .err
  | .lsh, _, _ => .err
  | .rsh, .int a, .int b => if 0 ≤ b ∧ b < 64 then .ok (.int (a / 2 ^ b.toNat)) else .err
  | .rsh, _, _ => .err
  | .eq, a, b => .ok (b2i (eqv F a b))
  | .ne, a, b => .ok (b2i (!(eqv F a b)))
  | .lt, a, b => cmp F .lt a b
  | .le, a, b => cmp F .le a b
  | .gt, a, b => cmp F .gt a b
  | .ge, a, b => cmp F .ge a b

/-- only the integer zero is false -/
def truthy : Value R → Bool
  | .int n => n != 0
  | _ => true

/-- `x op= y` is `x = x op y`: new value of x and value of the expression -/
def assignop (F : FloatOps R) (op : BinOp) (old rhs : Value R) : Res (Value R × Value R) := do
  let v ← binop F op old rhs
  pure (v, v)

/-- `++x` is `x = x + 1`, `x++` yields the old value -/
def incdec (F : FloatOps R) (k : IncKind) (old : Value R) : Res (Value R × Value R) :=
  match old with
  | .int _ | .real _ => do
    let v ← binop F (if k.isInc then .add else .sub) old (.int 1)
    pure (v, if k.isPre then v else old)
  | _ => .err

def byteVal (b : UInt8) : Value R := .int b.toNat

/-- `c[i]` as a value -/
def index (F : FloatOps R) : Value R → Value R → Res (Value R)
  | .arr l, .int i => if 0 ≤ i ∧ i < l.length then .ok (l.getD i.toNat (.int 0)) else .err
  | .str s, .int i =>
    if 0 ≤ i ∧ i < s.length then .ok (byteVal (s.getD i.toNat 0))
    else if i = s.length then .ok (.int 0)   -- the terminating NUL is readable
    else .err
  | .buf b, .int i => if 0 ≤ i ∧ i < b.length then .ok (byteVal (b.getD i.toNat 0)) else .err
  | .map m, k => .ok ((mapLookup (keyEq F) m k).getD (.int 0))
  | _, _ => .err

/-- `c[<i]` is `c[sizeof(c) - i]` -/
def rindex (F : FloatOps R) : Value R → Value R → Res (Value R)
  | .arr l, .int i => index F (.arr l) (.int (l.length - i))
  | .str s, .int i => index F (.str s) (.int (s.length - i))
  | .buf b, .int i => index F (.buf b) (.int (b.length - i))
  | _, _ => .err

/-- position denoted by a range bound: `<i` counts from the end; with OLD_RANGE_BEHAVIOR a negative position
    of a string/buffer counts from the end as well (docs: the `<` is applied first) -/
def rangePos (old : Bool) (len : Int) (rev : Bool) (i : Int) : Int :=
  let p := if rev then len - i else i
  if old && decide (p < 0) then p + len else p

/-- maximal sub-range of `l` inside positions `from .. to` (docs: out of bounds ranges do not give an error) -/
def slice {α} (l : List α) (frm to : Int) : List α :=
  let f := if frm < 0 then 0 else frm
  if to < f ∨ f ≥ l.length then [] else (l.drop f.toNat).take (to - f + 1).toNat

def oldRange : Bool := NV.Gen.C03.oldRangeBehavior != 0

/-- `c[i..j]` with `<` flags -/
def range (fr tr : Bool) : Value R → Value R → Value R → Res (Value R)
  | .str s, .int i, .int j => .ok (.str (slice s (rangePos oldRange s.length fr i) (rangePos oldRange s.length tr j)))
  | .buf b, .int i, .int j => .ok (.buf (slice b (rangePos oldRange b.length fr i) (rangePos oldRange b.length tr j)))
  | .arr l, .int i, .int j => .ok (.arr (slice l (rangePos false l.length fr i) (rangePos false l.length tr j)))
  | _, _, _ => .err

/-- `c[i..]` is `c[i..<1]` -/
def extract (fr : Bool) (c i : Value R) : Res (Value R) := range fr true c i (.int 1)

def listSet {α} : List α → Nat → α → List α
  | [], _, _ => []
  | _ :: xs, 0, v => v :: xs
  | x :: xs, n + 1, v => x :: listSet xs n v

/-- read through an index lvalue (`c[i]` on the left of an assignment operator): bounds are strict -/
def lvGet (F : FloatOps R) (rev : Bool) : Value R → Value R → Res (Value R)
  | .arr l, .int i =>
    let p := if rev then l.length - i else i
    if 0 ≤ p ∧ p < l.length then .ok (l.getD p.toNat (.int 0)) else .err
  | .str s, .int i =>
    let p := if rev then s.length - i else i
    if 0 ≤ p ∧ p < s.length then .ok (byteVal (s.getD p.toNat 0)) else .err
  | .buf b, .int i =>
    let p := if rev then b.length - i else i
    if 0 ≤ p ∧ p < b.length then .ok (byteVal (b.getD p.toNat 0)) else .err
  | .map m, k => if rev then .err else .ok ((mapLookup (keyEq F) m k).getD (.int 0))
  | _, _ => .err

def lowByte (n : Int) : UInt8 := UInt8.ofNat (n % 256).toNat

/-- `c[i] = v`: the new container.  A string element must be a non-zero character code. -/
def lvSet (F : FloatOps R) (rev : Bool) : Value R → Value R → Value R → Res (Value R)
  | .arr l, .int i, v =>
    let p := if rev then l.length - i else i
    if 0 ≤ p ∧ p < l.length then .ok (.arr (listSet l p.toNat v)) else .err
  | .str s, .int i, .int c =>
    let p := if rev then s.length - i else i
    if 0 ≤ p ∧ p < s.length then (if lowByte c == 0 then .err else .ok (.str (listSet s p.toNat (lowByte c)))) else .err
  | .buf b, .int i, .int c =>
    let p := if rev then b.length - i else i
    if 0 ≤ p ∧ p < b.length then .ok (.buf (listSet b p.toNat (lowByte c))) else .err
  | .map m, k, v => if rev then .err else .ok (.map (mapInsert (keyEq F) m k v))
  | _, _, _ => .err

/-- `x[n1..n2] = v` is `x = x[0..n1-1] + v + x[n2+1..]` with n1 in 0..size and n2 in -1..size-1 (docs) -/
def splice {α} (l : List α) (size : Int) (fr tr : Bool) (i j : Int) (v : List α) : Res (List α) :=
  let n1 := if fr then size - i else i
  let n2 := if tr then size - j else j
  if 0 ≤ n1 ∧ n1 ≤ size ∧ -1 ≤ n2 ∧ n2 ≤ size - 1 then .ok (l.take n1.toNat ++ v ++ l.drop (n2 + 1).toNat) else .err

def storeRange (fr tr : Bool) : Value R → Value R → Value R → Value R → Res (Value R)
  | .arr l, .int i, .int j, .arr v => do let r ← splice l l.length fr tr i j v; pure (.arr r)
  | .str l, .int i, .int j, .str v => do let r ← splice l l.length fr tr i j v; pure (.str r)
  | .buf l, .int i, .int j, .buf v => do let r ← splice l l.length fr tr i j v; pure (.buf r)
  | _, _, _, _ => .err

/-! ### foreach over a string: UTF-8 characters (neolith extension), bytes that are not part of a valid
    sequence are yielded one by one -/

def isCont (b : UInt8) : Bool := 0x80 ≤ b.toNat && b.toNat < 0xC0

/-- decode one character at the head: (value, bytes consumed) -/
def utf8Head : List UInt8 → Nat × Nat
  | [] => (0, 0)
  | b0 :: rest =>
    let n0 := b0.toNat
    if n0 < 0x80 then (n0, 1)
    else if 0xC2 ≤ n0 && n0 < 0xE0 then
      match rest with
      | b1 :: _ => if isCont b1 then ((n0 - 0xC0) * 64 + (b1.toNat - 0x80), 2) else (n0, 1)
      | _ => (n0, 1)
    else if 0xE0 ≤ n0 && n0 < 0xF0 then
      match rest with
      | b1 :: b2 :: _ =>
        let cp := (n0 - 0xE0) * 4096 + (b1.toNat - 0x80) * 64 + (b2.toNat - 0x80)
        if isCont b1 && isCont b2 && cp ≥ 0x800 && !(0xD800 ≤ cp && cp < 0xE000) then (cp, 3) else (n0, 1)
      | _ => (n0, 1)
    else if 0xF0 ≤ n0 && n0 < 0xF5 then
      match rest with
      | b1 :: b2 :: b3 :: _ =>
        let cp := (n0 - 0xF0) * 262144 + (b1.toNat - 0x80) * 4096 + (b2.toNat - 0x80) * 64 + (b3.toNat - 0x80)
        if isCont b1 && isCont b2 && isCont b3 && cp ≥ 0x10000 && cp < 0x110000 then (cp, 4) else (n0, 1)
      | _ => (n0, 1)
    else (n0, 1)

def utf8Chars : Nat → List UInt8 → List Nat
  | 0, _ => []
  | _, [] => []
  | fuel + 1, s =>
    let (c, n) := utf8Head s
    c :: utf8Chars fuel (s.drop (max n 1))

/-- the sequence a one-variable `foreach` runs over -/
def foreachSeq : Value R → Res (List (Value R))
  | .arr l => .ok l
  | .str s => .ok ((utf8Chars s.length s).map (fun c => .int (Int.ofNat c)))
  | _ => .err

end Spec

/-! ## syntax of the generated programs -/

inductive Ty where
  | int | real | str | mixed
  deriving DecidableEq, Repr

mutual
  inductive Expr (R : Type) where
    | lit (v : Value R)
    | loc (k : Nat)
    | glob (k : Nat)
    | un (op : UnOp) (e : Expr R)
    | bin (op : BinOp) (a b : Expr R)
    | land (a b : Expr R)
    | lor (a b : Expr R)
    | cond (c a b : Expr R)
    | asg (lv : LV R) (e : Expr R)
    | aop (op : BinOp) (lv : LV R) (e : Expr R)
    | inc (k : IncKind) (lv : LV R)
    | idx (a i : Expr R)
    | ridx (a i : Expr R)
    | rng (fr tr : Bool) (a i j : Expr R)
    | rnge (fr : Bool) (a i : Expr R)
    | arr (es : List (Expr R))
    | map (kvs : List (Expr R × Expr R))
    | call (f : String) (args : List (Expr R))
    | efun (f : String) (args : List (Expr R))
  inductive LV (R : Type) where
    | loc (k : Nat)
    | glob (k : Nat)
    | idx (lv : LV R) (i : Expr R)
    | ridx (lv : LV R) (i : Expr R)
    | rng (fr tr : Bool) (lv : LV R) (i j : Expr R)
end

inductive CaseLabel where
  | num (n : Int)
  | range (lo hi : Int)
  | str (s : List UInt8)
  | dflt
  deriving DecidableEq, Repr

inductive Stmt (R : Type) where
  | expr (e : Expr R)
  | ite (c : Expr R) (t e : Stmt R)
  | while (c : Expr R) (body : Stmt R)
  | doWhile (body : Stmt R) (c : Expr R)
  | for (init : Stmt R) (c : Expr R) (step : Stmt R) (body : Stmt R)
  | foreach (lv : LV R) (e : Expr R) (body : Stmt R)
  | foreach2 (lk lv : LV R) (e : Expr R) (body : Stmt R)
  | switch (e : Expr R) (arms : List (CaseLabel × List (Stmt R)))
  | block (ss : List (Stmt R))
  | ret (e : Expr R)
  | brk
  | cont
  | nop

structure Fn (R : Type) where
  name : String
  nparams : Nat
  locals : List Ty
  body : Stmt R

structure Prog (R : Type) where
  globals : List Ty
  fns : List (Fn R)

/-! ## generic evaluator -/

/-- operator semantics the evaluator is generic in -/
structure Sem (R : Type) where
  unop : UnOp → Value R → Res (Value R)
  binop : BinOp → Value R → Value R → Res (Value R)
  truthy : Value R → Bool
  assignop : BinOp → Value R → Value R → Res (Value R × Value R)
  incdec : IncKind → Value R → Res (Value R × Value R)
  index : Value R → Value R → Res (Value R)
  rindex : Value R → Value R → Res (Value R)
  range : Bool → Bool → Value R → Value R → Value R → Res (Value R)
  extract : Bool → Value R → Value R → Res (Value R)
  lvGet : Bool → Value R → Value R → Res (Value R)
  lvSet : Bool → Value R → Value R → Value R → Res (Value R)
  storeRange : Bool → Bool → Value R → Value R → Value R → Value R → Res (Value R)
  foreachSeq : Value R → Res (List (Value R))
  keyEq : Value R → Value R → Bool
  /-- arm a switch value selects: index into the arm list, `none` = no arm (skip the switch) -/
  switchFind : List CaseLabel → Value R → Res (Option Nat)
  /-- specialised loop tests of the byte code (none in the reference semantics): `while (x--)` on a local -/
  whileDec : Option (Value R → Res (Bool × Value R))
  /-- `local < constant` as a loop test -/
  loopCondNum : Option (Value R → Int → Res Bool)
  /-- `local < local` as a loop test -/
  loopCondLocal : Option (Value R → Value R → Res Bool)

def Spec.labelMatches : CaseLabel → Value R → Bool
  | .num n, .int v => n == v
  | .range lo hi, .int v => decide (lo ≤ v) && decide (v ≤ hi)
  | .str s, .str v => s == v
  | _, _ => false

def isStrLabel : CaseLabel → Bool
  | .str _ => true
  | _ => false

/-- reference meaning of a switch: the first arm (in source order) whose label matches, else `default` -/
def Spec.switchFind (labels : List CaseLabel) (v : Value R) : Res (Option Nat) :=
  let isStr := labels.any isStrLabel
  match v with
  | .int _ | .str _ =>
    if (match v with | .str _ => !isStr | .int n => isStr && n != 0 | _ => false) then .err
    else
      match labels.findIdx? (fun l => Spec.labelMatches l v) with
      | some i => .ok (some i)
      | none => .ok (labels.findIdx? (fun l => l == .dflt))
  | _ => .err

def specSem (F : FloatOps R) : Sem R where
  unop := Spec.unop F
  binop := Spec.binop F
  truthy := Spec.truthy
  assignop := Spec.assignop F
  incdec := Spec.incdec F
  index := Spec.index F
  rindex := Spec.rindex F
  range := Spec.range
  extract := Spec.extract
  lvGet := Spec.lvGet F
  lvSet := Spec.lvSet F
  storeRange := Spec.storeRange
  foreachSeq := Spec.foreachSeq
  keyEq := keyEq F
  switchFind := Spec.switchFind
  whileDec := none
  loopCondNum := none
  loopCondLocal := none

structure St (R : Type) where
  locals : List (Value R)
  globals : List (Value R)

inductive Flow (R : Type) where
  | normal
  | brk
  | cont
  | ret (v : Value R)

/-- a resolved lvalue: variable, index path (`<` flag, index value), optional final range -/
structure Place (R : Type) where
  isLocal : Bool
  k : Nat
  path : List (Bool × Value R)
  rng : Option (Bool × Bool × Value R × Value R)

section Eval
variable (S : Sem R) (P : Prog R)

def getVar (st : St R) (isLocal : Bool) (k : Nat) : Value R :=
  if isLocal then st.locals.getD k (.int 0) else st.globals.getD k (.int 0)

def setVar (st : St R) (isLocal : Bool) (k : Nat) (v : Value R) : St R :=
  if isLocal then { st with locals := Spec.listSet st.locals k v } else { st with globals := Spec.listSet st.globals k v }

/-- read the element a path designates -/
def getPath (c : Value R) : List (Bool × Value R) → Res (Value R)
  | [] => .ok c
  | (rev, i) :: rest => do
    let sub ← S.lvGet rev c i
    getPath sub rest

/-- replace the element a path designates, rebuilding the enclosing containers -/
def setPath (c : Value R) : List (Bool × Value R) → Value R → Res (Value R)
  | [], v => .ok v
  | [(rev, i)], v => S.lvSet rev c i v
  | (rev, i) :: rest, v => do
    let sub ← S.lvGet rev c i
    let sub' ← setPath sub rest v
    S.lvSet rev c i sub'

def placeGet (st : St R) (p : Place R) : Res (Value R) := getPath S (getVar st p.isLocal p.k) p.path

def placeSet (st : St R) (p : Place R) (v : Value R) : Res (St R) := do
  let c ← setPath S (getVar st p.isLocal p.k) p.path v
  pure (setVar st p.isLocal p.k c)

def efunCall (f : String) (args : List (Value R)) : Res (Value R) :=
  match f, args with
  | "sizeof", [.arr l] => .ok (.int l.length)
  | "sizeof", [.map m] => .ok (.int m.length)
  | "sizeof", [.buf b] => .ok (.int b.length)
  | "sizeof", [.str s] => .ok (.int s.length)
  | "sizeof", [_] => .ok (.int 0)
  | "strlen", [.str s] => .ok (.int s.length)
  | "copy", [v] => .ok v                               -- by value a (deep) copy is the value itself; its identity is new
  | "allocate_mapping", [.int _] => .ok (.map [])     -- presizing is not observable
  | "#if", [v] => .ok v          -- value of a preprocessor condition (64-bit integers in the reference semantics)
  | "allocate", [.int n] => if 0 ≤ n ∧ n ≤ 15000 then .ok (.arr (List.replicate n.toNat (.int 0))) else .err
  | "allocate_buffer", [.int n] => if 0 ≤ n ∧ n ≤ 100000 then .ok (.buf (List.replicate n.toNat 0)) else .err
  | _, _ => .err

mutual
  def evalE : Nat → St R → Expr R → Res (Value R × St R)
    | 0, _, _ => .fuel
    | fuel + 1, st, e =>
      match e with
      | .lit v => .ok (v, st)
      | .loc k => .ok (getVar st true k, st)
      | .glob k => .ok (getVar st false k, st)
      | .un op a => do
        let (v, st) ← evalE fuel st a
        let r ← S.unop op v
        pure (r, st)
      | .bin op a b => do
        let (x, st) ← evalE fuel st a
        let (y, st) ← evalE fuel st b
        let r ← S.binop op x y
        pure (r, st)
      | .land a b => do
        let (x, st) ← evalE fuel st a
        if S.truthy x then evalE fuel st b else pure (x, st)
      | .lor a b => do
        let (x, st) ← evalE fuel st a
        if S.truthy x then pure (x, st) else evalE fuel st b
      | .cond c a b => do
        let (x, st) ← evalE fuel st c
        if S.truthy x then evalE fuel st a else evalE fuel st b
      | .asg lv rhs => do
        let (v, st) ← evalE fuel st rhs
        let (p, st) ← evalLV fuel st lv
        match p.rng with
        | none =>
          let st ← placeSet S st p v
          pure (v, st)
        | some (fr, tr, i, j) =>
          let old ← placeGet S st p
          let new ← S.storeRange fr tr old i j v
          let st ← placeSet S st p new
          pure (v, st)
      | .aop op lv rhs => do
        let (v, st) ← evalE fuel st rhs
        let (p, st) ← evalLV fuel st lv
        match p.rng with
        | some _ => .err
        | none =>
          let old ← placeGet S st p
          let (new, res) ← S.assignop op old v
          let st ← placeSet S st p new
          pure (res, st)
      | .inc k lv => do
        let (p, st) ← evalLV fuel st lv
        match p.rng with
        | some _ => .err
        | none =>
          let old ← placeGet S st p
          let (new, res) ← S.incdec k old
          let st ← placeSet S st p new
          pure (res, st)
      | .idx a i => do
        let (x, st) ← evalE fuel st a
        let (y, st) ← evalE fuel st i
        let r ← S.index x y
        pure (r, st)
      | .ridx a i => do
        let (x, st) ← evalE fuel st a
        let (y, st) ← evalE fuel st i
        let r ← S.rindex x y
        pure (r, st)
      | .rng fr tr a i j => do
        let (x, st) ← evalE fuel st a
        let (y, st) ← evalE fuel st i
        let (z, st) ← evalE fuel st j
        let r ← S.range fr tr x y z
        pure (r, st)
      | .rnge fr a i => do
        let (x, st) ← evalE fuel st a
        let (y, st) ← evalE fuel st i
        let r ← S.extract fr x y
        pure (r, st)
      | .arr es => do
        let (vs, st) ← evalList fuel st es
        pure (.arr vs, st)
      | .map kvs => do
        let (ps, st) ← evalPairs fuel st kvs
        pure (.map (ps.foldl (fun acc e => mapInsert S.keyEq acc e.1 e.2) []), st)
      | .efun f args =>
        -- map_delete (m, k) removes the key from the mapping held by the variable m (the only mutating efun of the core)
        match f == "map_delete", args with
        | true, [.loc v, ke] => do
          let (kv, st) ← evalE fuel st ke
          match getVar st true v with
          | .map m => pure (.int 0, setVar st true v (.map (m.filter (fun e => !S.keyEq e.1 kv))))
          | _ => .err
        | true, [.glob v, ke] => do
          let (kv, st) ← evalE fuel st ke
          match getVar st false v with
          | .map m => pure (.int 0, setVar st false v (.map (m.filter (fun e => !S.keyEq e.1 kv))))
          | _ => .err
        | _, _ => do
          let (vs, st) ← evalList fuel st args
          let r ← efunCall f vs
          pure (r, st)
      | .call f args => do
        let (vs, st) ← evalList fuel st args
        match P.fns.find? (fun fn => fn.name == f) with
        | none => .err
        | some fn =>
          let frame := (vs.take fn.nparams) ++ List.replicate (fn.locals.length + fn.nparams - min vs.length fn.nparams) (.int 0)
          let (fl, st') ← execS fuel { locals := frame, globals := st.globals } fn.body
          let rv := match fl with | .ret v => v | _ => .int 0
          pure (rv, { locals := st.locals, globals := st'.globals })

  def evalList : Nat → St R → List (Expr R) → Res (List (Value R) × St R)
    | 0, _, _ => .fuel
    | _ + 1, st, [] => .ok ([], st)
    | fuel + 1, st, e :: es => do
      let (v, st) ← evalE fuel st e
      let (vs, st) ← evalList fuel st es
      pure (v :: vs, st)

  def evalPairs : Nat → St R → List (Expr R × Expr R) → Res (List (Value R × Value R) × St R)
    | 0, _, _ => .fuel
    | _ + 1, st, [] => .ok ([], st)
    | fuel + 1, st, (k, v) :: es => do
      let (kv, st) ← evalE fuel st k
      let (vv, st) ← evalE fuel st v
      let (rest, st) ← evalPairs fuel st es
      pure ((kv, vv) :: rest, st)

  def evalLV : Nat → St R → LV R → Res (Place R × St R)
    | 0, _, _ => .fuel
    | fuel + 1, st, lv =>
      match lv with
      | .loc k => .ok ({ isLocal := true, k := k, path := [], rng := none }, st)
      | .glob k => .ok ({ isLocal := false, k := k, path := [], rng := none }, st)
      | .idx l i => do
        let (iv, st) ← evalE fuel st i
        let (p, st) ← evalLV fuel st l
        match p.rng with
        | some _ => .err
        | none => pure ({ p with path := p.path ++ [(false, iv)] }, st)
      | .ridx l i => do
        let (iv, st) ← evalE fuel st i
        let (p, st) ← evalLV fuel st l
        match p.rng with
        | some _ => .err
        | none => pure ({ p with path := p.path ++ [(true, iv)] }, st)
      | .rng fr tr l i j => do
        let (iv, st) ← evalE fuel st i
        let (jv, st) ← evalE fuel st j
        let (p, st) ← evalLV fuel st l
        match p.rng with
        | some _ => .err
        | none => pure ({ p with rng := some (fr, tr, iv, jv) }, st)

  /-- loop test with the specialised forms of `S` (the reference semantics has none) -/
  def evalTest : Nat → St R → Expr R → Res (Bool × St R)
    | 0, _, _ => .fuel
    | fuel + 1, st, c =>
      match c, S.whileDec, S.loopCondNum, S.loopCondLocal with
      | .inc .postDec (.loc k), some wd, _, _ => do
        let (go, v) ← wd (getVar st true k)
        pure (go, setVar st true k v)
      | .bin .lt (.loc k) (.lit (.int n)), _, some lc, _ =>
        if inI32 n then do
          let go ← lc (getVar st true k) n
          pure (go, st)
        else do
          let (v, st) ← evalE fuel st c
          pure (S.truthy v, st)
      | .bin .lt (.loc a) (.loc b), _, _, some ll => do
        let go ← ll (getVar st true a) (getVar st true b)
        pure (go, st)
      | _, _, _, _ => do
        let (v, st) ← evalE fuel st c
        pure (S.truthy v, st)

  def execS : Nat → St R → Stmt R → Res (Flow R × St R)
    | 0, _, _ => .fuel
    | fuel + 1, st, s =>
      match s with
      | .nop => .ok (.normal, st)
      | .brk => .ok (.brk, st)
      | .cont => .ok (.cont, st)
      | .expr e => do
        let (_, st) ← evalE fuel st e
        pure (.normal, st)
      | .ret e => do
        let (v, st) ← evalE fuel st e
        pure (.ret v, st)
      | .block ss => execList fuel st ss
      | .ite c t e => do
        let (v, st) ← evalE fuel st c
        if S.truthy v then execS fuel st t else execS fuel st e
      | .while c body => do
        let (go, st) ← evalTest fuel st c
        if !go then pure (.normal, st) else
        let (fl, st) ← execS fuel st body
        match fl with
        | .brk => pure (.normal, st)
        | .ret v => pure (.ret v, st)
        | _ => execS fuel st (.while c body)
      | .doWhile body c => do
        let (fl, st) ← execS fuel st body
        match fl with
        | .brk => pure (.normal, st)
        | .ret v => pure (.ret v, st)
        | _ =>
          let (go, st) ← evalTest fuel st c
          if go then execS fuel st (.doWhile body c) else pure (.normal, st)
      | .for init c step body => do
        let (fl, st) ← execS fuel st init
        match fl with
        | .normal => forLoop fuel st c step body
        | other => pure (other, st)
      | .foreach lv e body => do
        let (v, st) ← evalE fuel st e
        let seq ← S.foreachSeq v
        foreachLoop fuel st lv seq body
      | .foreach2 lk lv e body => do
        let (v, st) ← evalE fuel st e
        match v with
        | .map m => foreach2Loop fuel st lk lv m body
        | _ => .err
      | .switch e arms => do
        let (v, st) ← evalE fuel st e
        let which ← S.switchFind (arms.map (·.1)) v
        match which with
        | none => pure (.normal, st)
        | some i =>
          let (fl, st) ← execList fuel st ((arms.drop i).flatMap (·.2))
          match fl with
          | .brk => pure (.normal, st)
          | other => pure (other, st)

  def forLoop : Nat → St R → Expr R → Stmt R → Stmt R → Res (Flow R × St R)
    | 0, _, _, _, _ => .fuel
    | fuel + 1, st, c, step, body => do
      let (go, st) ← evalTest fuel st c
      if !go then pure (.normal, st) else
      let (fl, st) ← execS fuel st body
      match fl with
      | .brk => pure (.normal, st)
      | .ret v => pure (.ret v, st)
      | _ =>
        let (fl2, st) ← execS fuel st step
        match fl2 with
        | .normal => forLoop fuel st c step body
        | other => pure (other, st)

  def foreachLoop : Nat → St R → LV R → List (Value R) → Stmt R → Res (Flow R × St R)
    | 0, _, _, _, _ => .fuel
    | _ + 1, st, _, [], _ => .ok (.normal, st)
    | fuel + 1, st, lv, x :: xs, body => do
      let (p, st) ← evalLV fuel st lv
      let st ← placeSet S st p x
      let (fl, st) ← execS fuel st body
      match fl with
      | .brk => pure (.normal, st)
      | .ret v => pure (.ret v, st)
      | _ => foreachLoop fuel st lv xs body

  def foreach2Loop : Nat → St R → LV R → LV R → List (Value R × Value R) → Stmt R → Res (Flow R × St R)
    | 0, _, _, _, _, _ => .fuel
    | _ + 1, st, _, _, [], _ => .ok (.normal, st)
    | fuel + 1, st, lk, lv, (k, v) :: xs, body => do
      let (pk, st) ← evalLV fuel st lk
      let st ← placeSet S st pk k
      let (pv, st) ← evalLV fuel st lv
      let st ← placeSet S st pv v
      let (fl, st) ← execS fuel st body
      match fl with
      | .brk => pure (.normal, st)
      | .ret v => pure (.ret v, st)
      | _ => foreach2Loop fuel st lk lv xs body

  def execList : Nat → St R → List (Stmt R) → Res (Flow R × St R)
    | 0, _, _ => .fuel
    | _ + 1, st, [] => .ok (.normal, st)
    | fuel + 1, st, s :: ss => do
      let (fl, st) ← execS fuel st s
      match fl with
      | .normal => execList fuel st ss
      | other => pure (other, st)
end

/-- run test function `name` of program `P` (no arguments) -/
def runFn (fuel : Nat) (name : String) : Res (Value R) :=
  match P.fns.find? (fun fn => fn.name == name) with
  | none => .err
  | some fn =>
    match execS S P fuel { locals := List.replicate (fn.locals.length + fn.nparams) (.int 0),
                            globals := List.replicate P.globals.length (.int 0) } fn.body with
    | .ok (.ret v, _) => .ok v
    | .ok _ => .ok (.int 0)
    | .err => .err
    | .crash => .crash
    | .fuel => .fuel

end Eval

end NV.C03
