/-
C03 — property theorems, part 8: string switches.  Labels are interned at compile time, the table is sorted by the
ADDRESS of the shared strings (any injective, non-zero assignment `addr`), `case 0:` is the entry with address 0, a key
that is not in the shared string table goes to `default` without a search.  For every such address assignment the
arm selected by f_switch is the first matching arm of the if-chain, where `0` matches only the integer 0.
-/
import NV.C03.Props7

namespace NV.C03
open LpcOps Frontend

theorem mem_insertSorted (e x : Int × Nat) (l : List (Int × Nat)) : x ∈ insertSorted e l ↔ x = e ∨ x ∈ l := by
  induction l with
  | nil => simp [insertSorted]
  | cons a as ih =>
    simp only [insertSorted]
    split
    · simp
    · simp only [List.mem_cons, ih]
      constructor
      · rintro (h | h | h)
        · right; left; exact h
        · left; exact h
        · right; right; exact h
      · rintro (h | h | h)
        · right; left; exact h
        · left; exact h
        · right; right; exact h

theorem mem_sortEntries (x : Int × Nat) (l : List (Int × Nat)) : x ∈ sortEntries l ↔ x ∈ l := by
  induction l with
  | nil => simp [sortEntries]
  | cons a as ih =>
    simp only [sortEntries, List.foldr] at ih ⊢
    rw [mem_insertSorted, ih]
    simp [eq_comm, or_comm]

theorem pairwise_insertSorted (e : Int × Nat) (l : List (Int × Nat)) (hl : l.Pairwise (fun a b => a.1 < b.1))
    (hne : ∀ x ∈ l, x.1 ≠ e.1) : (insertSorted e l).Pairwise (fun a b => a.1 < b.1) := by
  induction l with
  | nil => simp [insertSorted]
  | cons a as ih =>
    simp only [insertSorted]
    rw [List.pairwise_cons] at hl
    split
    · rename_i hle
      have hlt : e.1 < a.1 := by
        have := hne a (List.mem_cons_self ..)
        omega
      rw [List.pairwise_cons]
      refine ⟨?_, List.pairwise_cons.mpr hl⟩
      intro x hx
      rcases List.mem_cons.mp hx with h | h
      · rw [h]; exact hlt
      · have := hl.1 x h; omega
    · rename_i hle
      rw [List.pairwise_cons]
      refine ⟨?_, ih hl.2 (fun x hx => hne x (List.mem_cons_of_mem _ hx))⟩
      intro x hx
      rcases (mem_insertSorted e x as).mp hx with h | h
      · rw [h]; omega
      · exact hl.1 x h

/-- insertion sort by key yields strictly ascending keys when the keys are pairwise different -/
theorem pairwise_sortEntries (l : List (Int × Nat)) (hd : l.Pairwise (fun a b => a.1 ≠ b.1)) :
    (sortEntries l).Pairwise (fun a b => a.1 < b.1) := by
  induction l with
  | nil => simp [sortEntries]
  | cons a as ih =>
    rw [List.pairwise_cons] at hd
    simp only [sortEntries, List.foldr] at ih ⊢
    apply pairwise_insertSorted _ _ (ih hd.2)
    intro x hx
    have : x ∈ as := (mem_sortEntries x as).mp hx
    exact fun h => hd.1 x this h.symm

theorem tkey_eq (t : List (Int × Nat)) (i : Nat) (h : i < t.length) : tkey t i = t[i].1 ∧ taddr t i = t[i].2 := by
  simp [tkey, taddr, List.getD, h]

theorem sortedT_of_pairwise (t : List (Int × Nat)) (hp : t.Pairwise (fun a b => a.1 < b.1)) : SortedT t := by
  intro i j hij hj
  have hi : i < t.length := by omega
  rw [(tkey_eq t i hi).1, (tkey_eq t j hj).1]
  exact (List.pairwise_iff_getElem.mp hp) i j hi hj hij

/-- the labels of a string switch: strings, `0`, default -/
def StrLabels (labels : List CaseLabel) : Prop :=
  ∀ l ∈ labels, (∃ s, l = .str s) ∨ l = .num 0 ∨ l = .dflt

theorem mem_strEntries (addr : List UInt8 → Int) (labels : List CaseLabel) (key : Int) (a : Nat) :
    (key, a) ∈ strEntries addr labels ↔ ∃ k, ∃ h : k < labels.length, strLabelKey addr labels[k] = some key ∧ a = k + 2 := by
  unfold strEntries
  rw [List.mem_filterMap]
  constructor
  · rintro ⟨⟨l, k⟩, hm, he⟩
    have := List.mem_zipIdx hm
    simp only [Nat.zero_le, Nat.zero_add, Nat.sub_zero, true_and] at this
    obtain ⟨hk, hl⟩ := this
    refine ⟨k, hk, ?_⟩
    simp only [Option.map_eq_some_iff] at he
    obtain ⟨key', hk', hpair⟩ := he
    simp only [Prod.mk.injEq] at hpair
    rw [← hl, hk', hpair.1]
    exact ⟨rfl, hpair.2.symm⟩
  · rintro ⟨k, hk, hkey, ha⟩
    refine ⟨(labels[k], k), ?_, ?_⟩
    · rw [List.mem_zipIdx_iff_getElem?]; simp [hk]
    · simp [hkey, ha]

/-- **string_switch_agrees**: for every address assignment that is injective and non-zero on strings, every set of
    interned strings that contains the labels, every list of string-switch labels whose keys are pairwise different
    (duplicate labels are a compile error) and every value, f_switch selects the first matching arm of the if-chain;
    `case 0:` is selected by the integer 0 only — a string that is not interned goes to `default` -/
theorem string_switch_agrees {R : Type} (addr : List UInt8 → Int) (interned : List UInt8 → Bool) (labels : List CaseLabel)
    (v : Value R)
    (hinj : ∀ x y, addr x = addr y → x = y) (hnz : ∀ x, addr x ≠ 0)
    (hint : ∀ s, CaseLabel.str s ∈ labels → interned s = true)
    (hlab : StrLabels labels) (hstr : labels.any isStrLabel = true)
    (hdist : (strEntries addr labels).Pairwise (fun a b => a.1 ≠ b.1))
    (hlen : (strTable addr labels).length < 2 ^ 64) :
    strSwitchFind addr interned labels v = Spec.switchFind labels v := by
  have hsorted : SortedT (strTable addr labels) := sortedT_of_pairwise _ (pairwise_sortEntries _ hdist)
  -- the lookup of address s: some (k + 2) for the label with that key, none if there is none
  have hA : ∀ (s : Int) k (hk : k < labels.length), strLabelKey addr labels[k] = some s →
      switchLookup (.sorted (strTable addr labels)) s = some (k + 2) := by
    intro s k hk hkey
    have hG := switch_sorted_agrees (strTable addr labels) s hsorted hlen
    have hm : (s, k + 2) ∈ strTable addr labels :=
      (mem_sortEntries _ _).mpr ((mem_strEntries addr labels s (k + 2)).mpr ⟨k, hk, hkey, rfl⟩)
    obtain ⟨i, hi, hti⟩ := List.mem_iff_getElem.mp hm
    have hk1 := (tkey_eq _ i hi).1
    have hk2 := (tkey_eq _ i hi).2
    rw [hti] at hk1 hk2
    have := hG.eq i hi hk1
    rw [this, hk2]
    simp
  have hB : ∀ (s : Int), (∀ k (hk : k < labels.length), strLabelKey addr labels[k] ≠ some s) →
      switchLookup (.sorted (strTable addr labels)) s = none := by
    intro s hno
    have hG := switch_sorted_agrees (strTable addr labels) s hsorted hlen
    have hent : ∀ i (hi : i < (strTable addr labels).length),
        ∃ k, ∃ hk : k < labels.length, strLabelKey addr labels[k] = some (tkey (strTable addr labels) i) ∧
          taddr (strTable addr labels) i = k + 2 := by
      intro i hi
      have hm : (strTable addr labels)[i] ∈ strEntries addr labels := (mem_sortEntries _ _).mp (List.getElem_mem hi)
      obtain ⟨k, hk, hkey, ha⟩ := (mem_strEntries addr labels _ _).mp hm
      exact ⟨k, hk, by rw [(tkey_eq _ i hi).1]; exact hkey, by rw [(tkey_eq _ i hi).2]; exact ha⟩
    apply hG.dflt
    · intro i hi he
      obtain ⟨k, hk, hkey, _⟩ := hent i hi
      exact hno k hk (he ▸ hkey)
    · intro i hi hm
      obtain ⟨k, hk, _, ha⟩ := hent i (by omega)
      omega
  -- a label matches the value iff its table key is the searched address
  have hmatch : ∀ (s : Int), ((∃ x, v = .str x ∧ s = addr x) ∨ (v = .int 0 ∧ s = 0)) →
      ∀ l ∈ labels, Spec.labelMatches l v = true ↔ strLabelKey addr l = some s := by
    intro s hv l hl
    rcases hlab l hl with ⟨y, rfl⟩ | rfl | rfl
    · rcases hv with ⟨x, rfl, rfl⟩ | ⟨rfl, rfl⟩
      · simp only [Spec.labelMatches, strLabelKey, beq_iff_eq, Option.some.injEq]
        exact ⟨fun h => by rw [h], fun h => hinj _ _ h⟩
      · simp only [Spec.labelMatches, strLabelKey, Option.some.injEq]
        exact ⟨fun h => by simp at h, fun h => absurd h (hnz y)⟩
    · rcases hv with ⟨x, rfl, rfl⟩ | ⟨rfl, rfl⟩
      · simp only [Spec.labelMatches, strLabelKey, beq_self_eq_true, if_true, Option.some.injEq]
        exact ⟨fun h => by simp at h, fun h => absurd h.symm (hnz x)⟩
      · simp [Spec.labelMatches, strLabelKey]
    · rcases hv with ⟨x, rfl, rfl⟩ | ⟨rfl, rfl⟩ <;> simp [Spec.labelMatches, strLabelKey]
  -- the search of address s agrees with findIdx? of the if-chain
  have hgo : ∀ (s : Int), ((∃ x, v = .str x ∧ s = addr x) ∨ (v = .int 0 ∧ s = 0)) →
      (∃ i, labels.findIdx? (fun l => Spec.labelMatches l v) = some i ∧
            switchLookup (.sorted (strTable addr labels)) s = some (i + 2)) ∨
      (labels.findIdx? (fun l => Spec.labelMatches l v) = none ∧
            switchLookup (.sorted (strTable addr labels)) s = none) := by
    intro s hv
    cases hf : labels.findIdx? (fun l => Spec.labelMatches l v) with
    | some i =>
      obtain ⟨hi, hp, _⟩ := List.findIdx?_eq_some_iff_getElem.mp hf
      have hkey := (hmatch s hv labels[i] (List.getElem_mem hi)).mp hp
      exact Or.inl ⟨i, rfl, hA s i hi hkey⟩
    | none =>
      have hnone := List.findIdx?_eq_none_iff.mp hf
      refine Or.inr ⟨rfl, hB s ?_⟩
      intro k hk hkey
      have := (hmatch s hv labels[k] (List.getElem_mem hk)).mpr hkey
      rw [hnone _ (List.getElem_mem hk)] at this
      exact absurd this (by simp)
  have hstr' := List.any_eq_true.mp hstr
  unfold strSwitchFind Spec.switchFind
  cases v with
  | int n =>
    by_cases hn : n = 0
    · subst hn
      rcases hgo 0 (Or.inr ⟨rfl, rfl⟩) with ⟨i, h1, h2⟩ | ⟨h1, h2⟩ <;> simp [h1, h2]
    · simp [hn]
      intro h
      obtain ⟨y, hy, hm⟩ := hstr'
      rw [h y hy] at hm
      exact absurd hm (by simp)
  | str x =>
    by_cases hx : interned x = true
    · rcases hgo (addr x) (Or.inl ⟨x, rfl, rfl⟩) with ⟨i, h1, h2⟩ | ⟨h1, h2⟩ <;> simp [h1, h2, hx] <;> exact hstr'
    · have hnone : labels.findIdx? (fun l => Spec.labelMatches l (Value.str x : Value R)) = none := by
        rw [List.findIdx?_eq_none_iff]
        intro l hl
        rcases hlab l hl with ⟨y, rfl⟩ | rfl | rfl
        · simp only [Spec.labelMatches, beq_eq_false_iff_ne]
          intro hyx
          rw [hyx] at hl
          exact hx (hint x hl)
        · rfl
        · rfl
      simp [hnone, hx]
      exact hstr'
  | real _ => rfl
  | arr _ => rfl
  | map _ => rfl
  | buf _ => rfl

/-- non-vacuity: `case "a": case 0: default:` with the addresses of `addrExec`; the hypotheses hold and the run-time
    built key (not interned) takes `default`, the integer 0 takes `case 0:` -/
example : strSwitchFind (R := Nat) addrExec (fun s => s == [97]) [.str [97], .num 0, .dflt] (.str [114, 116]) = .ok (some 2) ∧
    strSwitchFind (R := Nat) addrExec (fun s => s == [97]) [.str [97], .num 0, .dflt] (.int 0) = .ok (some 1) ∧
    strSwitchFind (R := Nat) addrExec (fun s => s == [97]) [.str [97], .num 0, .dflt] (.str [97]) = .ok (some 0) := by
  decide

end NV.C03
