/-
C03 — `LpcOps`: what `eval_instruction` (src/interpret.c) and lib/lpc/operator.c DO per opcode and operand-type
pair, transcribed case by case from the C code as it is after the `fix:` commits listed in notes/C03.md.
C casts are explicit (`wrap32` = `(int)x`), the order of the type tests follows the C `switch`es.

Behaviour that still deviates from the reference semantics (open known findings, known/C03.jsonl) is guarded by
a flag of `Quirks`; `Quirks.real` is the code that exists.  Flags whose default is `false` are deviations that
have been repaired in the repository (round 2 fix commits, notes/C03.md); their code paths are kept so that a
revert of the fix is still explained.  Switching ONE flag off gives the code
with that single deviation repaired — the judge uses this to attribute a disagreement to exactly one finding.
-/
import NV.C03.Spec

namespace NV.C03

structure Quirks where
  /-- `int op= real` (+= -= *= /=) keeps an integer in the variable (f_*_eq: "implicit cast to number when
      assign back"); `+=` even yields the integer as the value of the expression -/
  numOpEqReal : Bool := true
  /-- `number += string` / `real += string` raise an error in F_ADD_EQ although `x = x + s` concatenates -/
  addEqNumStr : Bool := true
  /-- f_range on strings: with OLD_RANGE_BEHAVIOR a `<` bound that lands before the start is clamped, not
      counted from the end (`else if`), unlike f_extract_range, buffers and the documentation -/
  strRangeRevNeg : Bool := false
  /-- a zero byte cannot be stored through a buffer element lvalue (shares the char-lvalue code of strings) -/
  bufStoreZero : Bool := false
  /-- grammar.y folds `0 + X` / `X + 0` to `X` for real-typed X: the sign of a zero differs (-0.0 vs 0.0) -/
  foldAddZeroReal : Bool := false
  /-- the `x == 0 -> !x`, `if (x != 0) -> if (x)` and `0 + X -> X` rewrites trust the grammar's optimistic static
      type (`mixed + int` is typed `int`, `mixed + real` `real`) although the value may be of another type -/
  optimisticTypes : Bool := true
  /-- `size - i` for a `<i` range bound is computed in int64 and wraps for i near INT64_MIN (the bound lands
      inside the value instead of far outside); repaired: `range_from_end ()` saturates at INT64_MAX -/
  revRangeWrap : Bool := false
  /-- `#if` expressions are evaluated in 32-bit `int` (lib/lpc/preprocess.c cond_get_exp) although LPC integers
      have 64 bits -/
  ppIf32 : Bool := false
  /-- grammar.y turns `x[i..<k]` with a constant k <= 1 into `x[i..]`, also when it is an lvalue, where it then
      means `x[i..<1]`: `x[i..<0] = v` is accepted with the constant and an error with a variable 0 -/
  lvRangeConstRev : Bool := false
  /-- grammar.y rewrites `0 - X` to `-X`: for X = 0.0 the result is -0.0, the computed difference is +0.0 -/
  zeroMinusNeg : Bool := false
  deriving Repr, DecidableEq

def Quirks.real : Quirks := {}
def Quirks.none : Quirks :=
  { numOpEqReal := false, addEqNumStr := false, strRangeRevNeg := false, bufStoreZero := false, foldAddZeroReal := false,
    optimisticTypes := false, revRangeWrap := false, ppIf32 := false,
    lvRangeConstRev := false, zeroMinusNeg := false }

variable {R : Type}

namespace LpcOps

/-- F_NOT / F_COMPL / F_NEGATE -/
def unop (F : FloatOps R) (op : UnOp) (v : Value R) : Res (Value R) :=
  match op with
  | .not =>
    match v with
    | .int n => .ok (.int (if n == 0 then 1 else 0))      -- sp->u.number = !sp->u.number
    | _ => .ok (.int 0)                                    -- assign_svalue (sp, &const0)
  | .compl =>
    match v with
    | .int n => .ok (.int (wrap (-n - 1)))                 -- ~x
    | _ => .err
  | .neg =>
    match v with
    | .int n => .ok (.int (wrap (-n)))
    | .real x => .ok (.real (F.neg x))
    | _ => .err

/-- F_ADD: `switch (sp->type)` (right operand) then the left operand -/
def add (F : FloatOps R) (a b : Value R) : Res (Value R) :=
  match b with
  | .buf y => match a with | .buf x => .ok (.buf (x ++ y)) | _ => .err
  | .int y =>
    match a with
    | .int x => .ok (.int (wrap (x + y)))
    | .real x => .ok (.real (F.add x (F.ofInt y)))
    | .str x => .ok (.str (x ++ decBytes y))
    | _ => .err
  | .real y =>
    match a with
    | .int x => .ok (.real (F.add (F.ofInt x) y))
    | .real x => .ok (.real (F.add x y))
    | .str x => .ok (.str (x ++ F.fmt y))
    | _ => .err
  | .arr y => match a with | .arr x => .ok (.arr (x ++ y)) | _ => .err
  | .map y => match a with | .map x => .ok (.map (mapMerge (keyEq F) x y)) | _ => .err
  | .str y =>
    match a with
    | .int x => .ok (.str (decBytes x ++ y))
    | .real x => .ok (.str (F.fmt x ++ y))
    | .str x => .ok (.str (x ++ y))
    | _ => .err

/-- F_SUBTRACT: `switch (i | sp->type)` -/
def sub (F : FloatOps R) (a b : Value R) : Res (Value R) :=
  match a, b with
  | .int x, .int y => .ok (.int (wrap (x - y)))
  | .real x, .real y => .ok (.real (F.sub x y))
  | .real x, .int y => .ok (.real (F.sub x (F.ofInt y)))     -- sp->u.real -= (sp+1)->u.number
  | .int x, .real y => .ok (.real (F.sub (F.ofInt x) y))     -- sp->u.real = sp->u.number - (sp+1)->u.real
  | .arr x, .arr y => .ok (.arr (x.filter (fun e => !(y.any (fun z => sameVal F e z)))))
  | _, _ => .err

/-- F_MULTIPLY -/
def mul (F : FloatOps R) (a b : Value R) : Res (Value R) :=
  match a, b with
  | .int x, .int y => .ok (.int (wrap (x * y)))
  | .real x, .real y => .ok (.real (F.mul x y))
  | .int x, .real y => .ok (.real (F.mul (F.ofInt x) y))
  | .real x, .int y => .ok (.real (F.mul x (F.ofInt y)))
  | .map x, .map y => .ok (.map (mapCompose (keyEq F) x y))       -- compose_mapping
  | _, _ => .err

/-- 64-bit signed division as repaired: divisor -1 gives the wrapped negation (idiv would trap) -/
def idiv (x y : Int) : Int := if y == -1 then wrap (0 - x) else Int.tdiv x y
def imod (x y : Int) : Int := if y == -1 then 0 else Int.tmod x y

/-- F_DIVIDE -/
def div (F : FloatOps R) (a b : Value R) : Res (Value R) :=
  match a, b with
  | .int x, .int y => if y == 0 then .err else .ok (.int (idiv x y))
  | .real x, .real y => if F.eq y (F.ofInt 0) then .err else .ok (.real (F.div x y))
  | .real x, .int y => if y == 0 then .err else .ok (.real (F.div x (F.ofInt y)))
  | .int x, .real y => if F.eq y (F.ofInt 0) then .err else .ok (.real (F.div (F.ofInt x) y))
  | _, _ => .err

/-- x86 `shl`/`sar` use the low 6 bits of the count -/
def shl (x n : Int) : Int := wrap (x * 2 ^ (n % 64).toNat)
def sar (x n : Int) : Int := x / 2 ^ (n % 64).toNat

/-- f_lt / f_le / f_gt / f_ge -/
def cmp (F : FloatOps R) (op : BinOp) (a b : Value R) : Res (Value R) :=
  match a, b with
  | .int x, .int y => .ok (b2i (match op with | .lt => x < y | .le => x ≤ y | .gt => x > y | _ => x ≥ y))
  | .real x, .real y => .ok (b2i (match op with | .lt => F.lt x y | .le => F.le x y | .gt => F.lt y x | _ => F.le y x))
  | .real x, .int y => .ok (b2i (match op with
      | .lt => F.lt x (F.ofInt y) | .le => F.le x (F.ofInt y) | .gt => F.lt (F.ofInt y) x | _ => F.le (F.ofInt y) x))
  | .int x, .real y => .ok (b2i (match op with
      | .lt => F.lt (F.ofInt x) y | .le => F.le (F.ofInt x) y | .gt => F.lt y (F.ofInt x) | _ => F.le y (F.ofInt x)))
  | .str x, .str y => .ok (b2i (match op with
      | .lt => strCmp x y < 0 | .le => strCmp x y ≤ 0 | .gt => strCmp x y > 0 | _ => strCmp x y ≥ 0))
  | _, _ => .err

/-- f_eq: `switch (sp->type | (sp-1)->type)`; containers compare by address (not modelled: unequal) -/
def eqv (F : FloatOps R) (a b : Value R) : Bool :=
  match a, b with
  | .int x, .int y => x == y
  | .real x, .real y => F.eq x y
  | .int x, .real y => F.eq (F.ofInt x) y
  | .real x, .int y => F.eq x (F.ofInt y)
  | .str x, .str y => x == y
  | _, _ => false

def intOp (f : Int → Int → Res Int) (a b : Value R) : Res (Value R) :=
  match a, b with
  | .int x, .int y => do let r ← f x y; pure (.int r)
  | _, _ => .err

def binop (F : FloatOps R) (op : BinOp) (a b : Value R) : Res (Value R) :=
  match op with
  | .add => add F a b
  | .sub => sub F a b
  | .mul => mul F a b
  | .div => div F a b
  | .mod => intOp (fun x y => if y == 0 then .err else .ok (imod x y)) a b
  | .band => intOp (fun x y => .ok (Spec.bitop (· &&& ·) x y)) a b
  | .bor => intOp (fun x y => .ok (Spec.bitop (· ||| ·) x y)) a b
  | .bxor => intOp (fun x y => .ok (Spec.bitop (· ^^^ ·) x y)) a b
  | .lsh => intOp (fun x y => .ok (shl x y)) a b
  | .rsh => intOp (fun x y => .ok (sar x y)) a b
  | .eq => .ok (b2i (eqv F a b))
  | .ne => .ok (b2i (!(eqv F a b)))
  | .lt | .le | .gt | .ge => cmp F op a b

/-- every branch opcode: `sp->type == T_NUMBER && sp->u.number == 0` is false, anything else true -/
def truthy (v : Value R) : Bool :=
  match v with
  | .int n => !(n == 0)
  | _ => true

/-- F_ADD_EQ / f_sub_eq / f_mult_eq / f_div_eq / f_mod_eq / f_and_eq ... : (new value of the lvalue, value left
    on the stack) -/
def assignop (F : FloatOps R) (q : Quirks) (op : BinOp) (old rhs : Value R) : Res (Value R × Value R) :=
  let same (r : Res (Value R)) : Res (Value R × Value R) := do let v ← r; pure (v, v)
  match op with
  | .add =>
    match old with
    | .str x =>
      match rhs with
      | .str y => .ok (.str (x ++ y), .str (x ++ y))
      | .int y => .ok (.str (x ++ decBytes y), .str (x ++ decBytes y))
      | .real y => .ok (.str (x ++ F.fmt y), .str (x ++ F.fmt y))
      | _ => .err
    | .int x =>
      match rhs with
      | .int y => .ok (.int (wrap (x + y)), .int (wrap (x + y)))
      | .real y =>
        if q.numOpEqReal then .ok (.int (wrap (x + F.toInt y)), .int (wrap (x + F.toInt y)))  -- lval->u.number += (long)real
        else same (add F old rhs)
      | .str _ => if q.addEqNumStr then .err else same (add F old rhs)
      | _ => .err
    | .real x =>
      match rhs with
      | .int y => .ok (.real (F.add x (F.ofInt y)), .real (F.add x (F.ofInt y)))
      | .real y => .ok (.real (F.add x y), .real (F.add x y))
      | .str _ => if q.addEqNumStr then .err else same (add F old rhs)
      | _ => .err
    | .buf x => match rhs with | .buf y => .ok (.buf (x ++ y), .buf (x ++ y)) | _ => .err
    | .arr x => match rhs with | .arr y => .ok (.arr (x ++ y), .arr (x ++ y)) | _ => .err
    | .map x => match rhs with
      | .map y => .ok (.map (mapMerge (keyEq F) x y), .map (mapMerge (keyEq F) x y))   -- absorb_mapping
      | _ => .err
  | .sub =>
    match old, rhs with
    | .int x, .real y =>
      if q.numOpEqReal then
        let temp := F.sub (F.ofInt x) y
        .ok (.int (wrap (F.toInt temp)), .real temp)
      else same (sub F old rhs)
    | _, _ => same (sub F old rhs)
  | .mul =>
    match old, rhs with
    | .int x, .real y =>
      if q.numOpEqReal then
        let temp := F.mul (F.ofInt x) y
        .ok (.int (wrap (F.toInt temp)), .real temp)
      else same (mul F old rhs)
    | _, _ => same (mul F old rhs)
  | .div =>
    match old, rhs with
    | .int x, .real y =>
      if q.numOpEqReal then
        if F.eq y (F.ofInt 0) then .err
        else
          let n := wrap (F.toInt (F.div (F.ofInt x) y))
          .ok (.int n, .real (F.ofInt n))
      else same (div F old rhs)
    | _, _ => same (div F old rhs)
  | .mod | .band | .bor | .bxor | .lsh | .rsh => same (binop F op old rhs)
  | _ => .err

/-- F_PRE_INC / F_PRE_DEC / F_POST_INC / F_POST_DEC (and F_INC / F_DEC when the value is unused) -/
def incdec (F : FloatOps R) (k : IncKind) (old : Value R) : Res (Value R × Value R) :=
  match old with
  | .int n =>
    let v := if k.isInc then wrap (n + 1) else wrap (n - 1)
    .ok (.int v, if k.isPre then .int v else .int n)
  | .real x =>
    let v := if k.isInc then F.add x (F.ofInt 1) else F.sub x (F.ofInt 1)
    .ok (.real v, if k.isPre then .real v else .real x)
  | _ => .err

/-- F_INDEX: the 64-bit index is compared with the bounds, then narrowed with `(int)` -/
def index (F : FloatOps R) (c i : Value R) : Res (Value R) :=
  match c with
  | .map m => .ok ((mapLookup (keyEq F) m i).getD (.int 0))
  | .buf b =>
    match i with
    | .int n => if n ≥ b.length ∨ n < 0 then .err else .ok (Spec.byteVal (b.getD (wrap32 n).toNat 0))
    | _ => .err
  | .str s =>
    match i with
    | .int n =>
      if n > s.length ∨ n < 0 then .err
      else .ok (Spec.byteVal (s.getD (wrap32 n).toNat 0))    -- index == strlen reads the terminating NUL
    | _ => .err
  | .arr l =>
    match i with
    | .int n => if n < 0 then .err else if n ≥ l.length then .err else .ok (l.getD (wrap32 n).toNat (.int 0))
    | _ => .err
  | _ => .err

/-- F_RINDEX -/
def rindex (c i : Value R) : Res (Value R) :=
  match c with
  | .buf b =>
    match i with
    | .int n => if n > b.length ∨ n ≤ 0 then .err else .ok (Spec.byteVal (b.getD (b.length - wrap32 n).toNat 0))
    | _ => .err
  | .str s =>
    match i with
    | .int n => if n > s.length ∨ n < 0 then .err else .ok (Spec.byteVal (s.getD (wrap32 (s.length - n)).toNat 0))
    | _ => .err
  | .arr l =>
    match i with
    | .int n => if n ≤ 0 ∨ n > l.length then .err else .ok (l.getD (l.length - wrap32 n).toNat (.int 0))
    | _ => .err
  | _ => .err

/-- the selection common to f_range on strings and buffers once `from`/`to` are adjusted:
    `if (to < from || from >= len) empty; else copy from .. min(to, len-1)` -/
def cut {α} (l : List α) (frm to : Int) : List α :=
  if to < frm ∨ frm ≥ l.length then []
  else
    let t := if to ≥ (l.length : Int) - 1 then (l.length : Int) - 1 else to
    (l.drop frm.toNat).take (t - frm + 1).toNat

/-- slice_array (p, from, to) -/
def sliceArray {α} (l : List α) (frm to : Int) : List α :=
  let f := if frm < 0 then 0 else frm
  let t := if to ≥ l.length then (l.length : Int) - 1 else to
  if f > t then [] else (l.drop f.toNat).take (t - f + 1).toNat

/-- position of a `<i` bound in a value of `len` elements: operator.c `range_from_end (len, i)` (regenerated from the
    source as `NV.Gen.C03.rangeFromEnd`: saturates at INT64_MAX instead of overflowing); before the repair
    (`revRangeWrap`) a plain int64 subtraction that wraps -/
def revSub (q : Quirks) (a b : Int) : Int := if q.revRangeWrap then wrap (a - b) else NV.Gen.C03.rangeFromEnd a b

/-- f_range (code: 0x10 = `<` on the first bound, 0x01 on the second); `sb` = how a `<` bound becomes a position -/
def rangeWith (sb : Int → Int → Int) (strRevNeg : Bool) (old : Bool) (fr tr : Bool) (c i j : Value R) : Res (Value R) :=
  match i, j with
  | .int i, .int j =>
    match c with
    | .str s =>
      let len : Int := s.length
      let to := if tr then (if strRevNeg then sb len j else (if old && decide (sb len j < 0) then sb len j + len else sb len j))
                else if old && decide (j < 0) then j + len else j
      let frm := if fr then (if strRevNeg then sb len i else (if old && decide (sb len i < 0) then sb len i + len else sb len i))
                 else if old && decide (i < 0) then i + len else i
      let frm := if frm < 0 then 0 else frm
      .ok (.str (cut s frm to))
    | .buf b =>
      let len : Int := b.length
      let to := if tr then sb len j else j
      let to := if old && decide (to < 0) then to + len else to
      let frm := if fr then sb len i else i
      let frm := if old then (if frm < 0 then (if frm + len < 0 then 0 else frm + len) else frm) else (if frm < 0 then 0 else frm)
      .ok (.buf (cut b frm to))
    | .arr l =>
      let size : Int := l.length
      let to := if tr then sb size j else j
      let frm := if fr then sb size i else i
      -- clamps added by the fix, still 64 bits wide
      let frm := if frm < 0 then 0 else frm
      let to := if to ≥ size then size - 1 else to
      let to := if to < -1 then -1 else to
      let frm := if frm > size then size else frm
      .ok (.arr (sliceArray l (wrap32 frm) (wrap32 to)))
    | _ => .err
  | _, _ => .err

/-- f_extract_range -/
def extractWith (sb : Int → Int → Int) (old : Bool) (fr : Bool) (c i : Value R) : Res (Value R) :=
  match i with
  | .int i =>
    match c with
    | .str s =>
      let len : Int := s.length
      let frm := if fr then sb len i else i
      let frm := if old then (if frm < 0 then (if frm + len < 0 then 0 else frm + len) else frm) else (if frm < 0 then 0 else frm)
      if frm ≥ len then .ok (.str []) else .ok (.str (s.drop frm.toNat))
    | .buf b =>
      let len : Int := b.length
      let frm := if fr then sb len i else i
      let frm := if old then (if frm < 0 then (if frm + len < 0 then 0 else frm + len) else frm) else (if frm < 0 then 0 else frm)
      let frm := if frm > len then len else frm
      .ok (.buf (b.drop frm.toNat))
    | .arr l =>
      let size : Int := l.length
      let frm := if fr then sb size i else i
      let frm := if frm < 0 then 0 else frm
      let frm := if frm > size then size else frm
      .ok (.arr (sliceArray l (wrap32 frm) (wrap32 (size - 1))))
    | _ => .err
  | _ => .err

def range (q : Quirks) (old : Bool) (fr tr : Bool) (c i j : Value R) : Res (Value R) :=
  rangeWith (revSub q) q.strRangeRevNeg old fr tr c i j

def extract (q : Quirks) (old : Bool) (fr : Bool) (c i : Value R) : Res (Value R) :=
  extractWith (revSub q) old fr c i

/-- push_indexed_lvalue: the element an index lvalue designates (strict bounds, 64-bit comparison) -/
def lvGet (F : FloatOps R) (rev : Bool) (c i : Value R) : Res (Value R) :=
  match c with
  | .map m => if rev then .err else .ok ((mapLookup (keyEq F) m i).getD (.int 0))   -- find_for_insert
  | .str s =>
    match i with
    | .int n =>
      let ind := if rev then (s.length : Int) - n else n
      if ind ≥ s.length ∨ ind < 0 then .err else .ok (Spec.byteVal (s.getD ind.toNat 0))
    | _ => .err
  | .buf b =>
    match i with
    | .int n =>
      let ind := if rev then (b.length : Int) - n else n
      if ind ≥ b.length ∨ ind < 0 then .err else .ok (Spec.byteVal (b.getD ind.toNat 0))
    | _ => .err
  | .arr l =>
    match i with
    | .int n =>
      let ind := if rev then (l.length : Int) - n else n
      if ind ≥ l.length ∨ ind < 0 then .err else .ok (l.getD ind.toNat (.int 0))
    | _ => .err
  | _ => .err

/-- F_ASSIGN / F_VOID_ASSIGN through an index lvalue; T_LVALUE_BYTE: `c = number & 0xff;
    if (c == 0 && !lvalue_byte_in_buffer) error` (before the repair, `bufStoreZero`: for strings AND buffers) -/
def lvSet (F : FloatOps R) (q : Quirks) (rev : Bool) (c i v : Value R) : Res (Value R) :=
  match c with
  | .map m => if rev then .err else .ok (.map (mapInsert (keyEq F) m i v))
  | .str s =>
    match i with
    | .int n =>
      let ind := if rev then (s.length : Int) - n else n
      if ind ≥ s.length ∨ ind < 0 then .err
      else match v with
        | .int ch => if Spec.lowByte ch == 0 then .err else .ok (.str (Spec.listSet s ind.toNat (Spec.lowByte ch)))
        | _ => .err
    | _ => .err
  | .buf b =>
    match i with
    | .int n =>
      let ind := if rev then (b.length : Int) - n else n
      if ind ≥ b.length ∨ ind < 0 then .err
      else match v with
        | .int ch =>
          if q.bufStoreZero && Spec.lowByte ch == 0 then .err
          else .ok (.buf (Spec.listSet b ind.toNat (Spec.lowByte ch)))
        | _ => .err
    | _ => .err
  | .arr l =>
    match i with
    | .int n =>
      let ind := if rev then (l.length : Int) - n else n
      if ind ≥ l.length ∨ ind < 0 then .err else .ok (.arr (Spec.listSet l ind.toNat v))
    | _ => .err
  | _ => .err

/-- push_lvalue_range + copy_lvalue_range / assign_lvalue_range on a container of `size` elements -/
def spliceC {α} (l : List α) (fr tr : Bool) (i j : Int) (v : List α) : Res (List α) :=
  let size : Int := l.length
  -- 2nd index first (it is on top of the stack)
  if j < -1 ∨ j > size + 1 then .err else
  let ind2 := (if tr then size - wrap32 j else wrap32 j) + 1
  if ind2 < 0 ∨ ind2 > size then .err else
  if i < 0 ∨ i > size then .err else
  let ind1 := if fr then size - wrap32 i else wrap32 i
  if ind1 < 0 ∨ ind1 > size then .err else
  -- same size: overwrite in place; otherwise reallocate: first ind1 elements, the new ones, the rest from ind2
  .ok (l.take ind1.toNat ++ v ++ l.drop ind2.toNat)

def storeRange (fr tr : Bool) (c i j v : Value R) : Res (Value R) :=
  match i, j with
  | .int i, .int j =>
    match c, v with
    | .arr l, .arr x => do let r ← spliceC l fr tr i j x; pure (.arr r)
    | .str l, .str x => do let r ← spliceC l fr tr i j x; pure (.str r)
    | .buf l, .buf x => do let r ← spliceC l fr tr i j x; pure (.buf r)
    | _, _ => .err
  | _, _ => .err

/-- F_NEXT_FOREACH on a string: mbtowc in the C.UTF-8 locale; an invalid sequence yields one (unsigned) byte -/
def foreachSeq (v : Value R) : Res (List (Value R)) :=
  match v with
  | .str s => .ok ((Spec.utf8Chars s.length s).map (fun c => .int (Int.ofNat c)))
  | .arr l => .ok l
  | _ => .err

/-- F_WHILE_DEC on a local: (continue?, new value) -/
def whileDec (F : FloatOps R) (v : Value R) : Res (Bool × Value R) :=
  match v with
  | .int n => .ok (!(n == 0), .int (wrap (n - 1)))
  | .real x => .ok (true, .real (F.sub x (F.ofInt 1)))
  | _ => .err

/-- F_LOOP_COND_NUMBER: the constant is a 32-bit operand (LOAD_INT) -/
def loopCondNum (F : FloatOps R) (v : Value R) (c : Int) : Res Bool :=
  match v with
  | .int n => .ok (decide (n < wrap32 c))
  | .real x => .ok (F.lt x (F.ofInt (wrap32 c)))
  | _ => .err

/-- F_LOOP_COND_LOCAL -/
def loopCondLocal (F : FloatOps R) (a b : Value R) : Res Bool :=
  match a, b with
  | .int x, .int y => .ok (decide (x < y))
  | .real x, .real y => .ok (F.lt x y)
  | .str x, .str y => .ok (decide (strCmp x y < 0))
  | .int x, .real y => .ok (F.lt (F.ofInt x) y)
  | .real x, .int y => .ok (F.lt x (F.ofInt y))
  | _, _ => .err

/-! ### f_switch -/

/-- the switch table as laid out by i_generate_node: `direct` = one jump target per consecutive key starting at
    a 32-bit minimum; `sorted` = (key, address) pairs in ascending key order where address 1 marks the lower
    bound of a `case a..b` whose upper bound and target follow; targets are arm indices + 2 -/
inductive SwTable where
  | direct (min : Int) (targets : List Nat)
  | sorted (entries : List (Int × Nat))
  deriving Repr, DecidableEq

def log2floor : Nat → Nat → Nat
  | 0, _ => 0
  | fuel + 1, n => if n ≤ 1 then 0 else 1 + log2floor fuel (n / 2)

/-- `l += d; while (l >= end_tab) { d >>= 1; if (d < SWITCH_CASE_SIZE) { d = 0; break; } l -= d; }` in units of
    table entries (`n` = number of entries) -/
def fixup (n : Nat) : Nat → Nat → Nat → Nat × Nat
  | 0, l, d => (l, d)
  | f + 1, l, d => if l ≥ n then (if d / 2 = 0 then (l, 0) else fixup n f (l - d / 2) (d / 2)) else (l, d)

/-- key / address field of table entry `k` -/
def tkey (t : List (Int × Nat)) (k : Nat) : Int := (t.getD k (0, 0)).1
def taddr (t : List (Int × Nat)) (k : Nat) : Nat := (t.getD k (0, 0)).2

/-- the binary search of f_switch in units of table entries (`d` = 0 stands for `d < SWITCH_CASE_SIZE`);
    result: target address or `none` = default.  `l - d` is a C pointer subtraction: it never goes below the
    table start because `l + 1` is a multiple of `2 d` (not modelled as a crash; see notes) -/
def bsearch (t : List (Int × Nat)) (s : Int) : Nat → Nat → Nat → Option Nat
  | 0, _, _ => none
  | fuel + 1, l, d =>
    if s < tkey t l then
      if d = 0 then
        -- entry before l is the lower bound of a range ending at l?
        if l ≥ 1 ∧ taddr t (l - 1) ≤ 1 ∧ s ≥ tkey t (l - 1) then some (taddr t l) else none
      else bsearch t s fuel (l - d) (d / 2)
    else if s > tkey t l then
      if d = 0 then
        if taddr t l ≤ 1 ∧ l + 1 < t.length ∧ s ≤ tkey t (l + 1) then some (taddr t (l + 1)) else none
      else
        if (fixup t.length (d + 1) (l + d) d).1 = t.length then none
        else bsearch t s fuel (fixup t.length (d + 1) (l + d) d).1 ((fixup t.length (d + 1) (l + d) d).2 / 2)
    else
      -- found the key; it may be the lower bound of a range
      if taddr t l ≤ 1 then some (taddr t (l + 1)) else some (taddr t l)

/-- f_switch on an integer table -/
def switchLookup (tab : SwTable) (s : Int) : Option Nat :=
  match tab with
  | .direct min targets =>
    -- if (s >= d && (uint64)(s - d) < entries) offset = l[s - d]
    if s ≥ min ∧ s - min < targets.length then
      match targets.getD (s - min).toNat 0 with
      | 0 => none
      | a => some a
    else none
  | .sorted entries =>
    if entries.isEmpty then none else
    let i := log2floor 64 entries.length
    bsearch entries s (entries.length + 70) (2 ^ i - 1) (2 ^ i / 2)

end LpcOps

end NV.C03
