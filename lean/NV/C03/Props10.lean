/-
C03 — property theorems, part 10: the in-place paths of add_array refine value semantics (heap model `Heap.lean`).
-/
import NV.C03.Heap
import NV.C03.Model
import NV.C03.Frontend

namespace NV.C03.Heap

variable {V : Type}

/-- what the stack machine guarantees when it calls add_array: each operand slot holds a counted reference -/
structure Pre (H : Heap V) (ap ar af : Nat) : Prop where
  hp : 1 ≤ (H ap).ref
  hr : 1 ≤ (H ar).ref
  hs : ap = ar → 2 ≤ (H ap).ref
  f1 : af ≠ ap
  f2 : af ≠ ar

/-- the contract of add_array in terms of values: (1) the result cell holds the concatenation, (2) with reference
    count 1, (2') it is a new block or an operand whose ONLY references were the ones the call consumed (so nobody
    else can see it change), (3) every other array loses exactly the references the call consumed and, if it is still referenced
    afterwards, holds exactly what it held before -/
def Good (H : Heap V) (ap ar af : Nat) (R : Heap V × Nat) : Prop :=
  (R.1 R.2).items = (H ap).items ++ (H ar).items ∧
  (R.1 R.2).ref = 1 ∧
  (R.2 = af ∨ (H R.2).ref = uses ap ar R.2) ∧
  ∀ a, a ≠ R.2 → a ≠ af →
    (R.1 a).ref = (H a).ref - uses ap ar a ∧ (0 < (H a).ref - uses ap ar a → (R.1 a).items = (H a).items)

/-- **add_array refines `x ++ y`** for every heap, every pair of operands (also the same array twice) and every
    reference-count situation: no alias can observe an in-place update, nothing that is still referenced is freed or
    emptied, the reference counts stay exact. -/
theorem addArray_refines (H : Heap V) (ap ar af : Nat) (h : Pre H ap ar af) :
    Good H ap ar af (addArray H ap ar af) := by
  obtain ⟨hp, hr, hs, f1, f2⟩ := h
  have f1' : ¬ ap = af := fun e => f1 e.symm
  have f2' : ¬ ar = af := fun e => f2 e.symm
  unfold addArray Good
  dsimp only
  by_cases hsame : ap = ar
  · subst hsame
    have hs := hs rfl
    (repeat' split) <;> (refine ⟨?_, ?_, ?_, fun a ha haf => ?_⟩) <;>
      (try (by_cases e : a = ap)) <;>
      simp_all [upd, decRef, freed, uses, NV.Gen.C03.addArrayCopyWhenLeftEmpty, NV.Gen.C03.addArrayCopyWhenRightEmpty,
        NV.Gen.C03.addArraySelf, NV.Gen.C03.addArrayReuseLeft, NV.Gen.C03.addArrayMoveRight] <;>
      (try omega)
  · have hsame' : ¬ ar = ap := fun e => hsame e.symm
    (repeat' split) <;> (refine ⟨?_, ?_, ?_, fun a ha haf => ?_⟩) <;>
      (try (by_cases e : a = ap <;> by_cases e' : a = ar)) <;>
      simp_all [upd, decRef, freed, uses, NV.Gen.C03.addArrayCopyWhenLeftEmpty, NV.Gen.C03.addArrayCopyWhenRightEmpty,
        NV.Gen.C03.addArraySelf, NV.Gen.C03.addArrayReuseLeft, NV.Gen.C03.addArrayMoveRight] <;>
      (try omega)

/-- non-vacuity: `x += x` with a sole holder (both operand slots are the only references) and with an alias -/
example : Pre (fun _ => (⟨2, [1, 2]⟩ : Cell Nat)) 0 0 1 := ⟨by decide, by decide, fun _ => by decide, by decide, by decide⟩
example : ((addArray (fun _ => (⟨2, [1, 2]⟩ : Cell Nat)) 0 0 1).2, ((addArray (fun _ => (⟨2, [1, 2]⟩ : Cell Nat)) 0 0 1).1 0).items)
    = (0, [1, 2, 1, 2]) := by decide
example : ((addArray (fun _ => (⟨3, [1, 2]⟩ : Cell Nat)) 0 0 1).2, ((addArray (fun _ => (⟨3, [1, 2]⟩ : Cell Nat)) 0 0 1).1 0).items,
    ((addArray (fun _ => (⟨3, [1, 2]⟩ : Cell Nat)) 0 0 1).1 0).ref) = (1, [1, 2], 1) := by decide

/-- the link to the operator level: what F_ADD / F_ADD_EQ leave in the result cell is `LpcOps.add` (= `Spec.add`, `binop_agrees`)
    of the operand VALUES, whatever the reference counts -/
theorem addArray_value {R : Type} (F : NV.C03.FloatOps R) (H : Heap (NV.C03.Value R)) (ap ar af : Nat) (h : Pre H ap ar af) :
    NV.C03.LpcOps.add F (.arr (H ap).items) (.arr (H ar).items)
      = .ok (.arr ((addArray H ap ar af).1 (addArray H ap ar af).2).items) := by
  rw [(addArray_refines H ap ar af h).1]; rfl

/-- the contract of slice_array in terms of values -/
def SliceGood (H : Heap V) (ap af : Nat) (frm to : Int) (R : Heap V × Nat) : Prop :=
  (R.1 R.2).items = sliceItems (H ap).items frm to ∧
  (R.1 R.2).ref = 1 ∧
  (R.2 = af ∨ (H ap).ref = 1) ∧
  ∀ a, a ≠ R.2 → a ≠ af →
    (R.1 a).ref = (H a).ref - (if a = ap then 1 else 0) ∧
    (0 < (H a).ref - (if a = ap then 1 else 0) → (R.1 a).items = (H a).items)

/-- **slice_array refines the value-level range** for every heap, operand, reference count and pair of bounds (also the
    full-extent and the empty selection): the result holds the selected elements with one reference; it is a NEW block unless
    the consumed reference was the only one; the operand, when somebody still holds it, keeps its elements and loses exactly
    one reference.  (`a[0..]` of an array held in a variable is therefore never the array itself.) -/
theorem sliceArray_refines (H : Heap V) (ap af : Nat) (frm to : Int) (hp : 1 ≤ (H ap).ref) (hf : af ≠ ap) :
    SliceGood H ap af frm to (sliceArray H ap af frm to) := by
  have hf' : ¬ ap = af := fun e => hf e.symm
  unfold sliceArray SliceGood
  dsimp only
  (repeat' split) <;> (refine ⟨?_, ?_, ?_, fun a ha haf => ?_⟩) <;>
    (try (by_cases e : a = ap)) <;>
    simp_all [upd, decRef, freed, sliceItems, NV.Gen.C03.sliceArrayReuse] <;>
    (try omega)

/-- the selection of the heap model is the operator-level `LpcOps.sliceArray` (= `Spec.slice`, `sliceArray_eq_slice`) -/
theorem sliceItems_eq {α : Type} (l : List α) (frm to : Int) : sliceItems l frm to = NV.C03.LpcOps.sliceArray l frm to := rfl

example : ((sliceArray (fun _ => (⟨2, [1, 2, 3]⟩ : Cell Nat)) 0 1 0 2).2, ((sliceArray (fun _ => (⟨2, [1, 2, 3]⟩ : Cell Nat)) 0 1 0 2).1 0).ref)
    = (1, 1) := by decide

end NV.C03.Heap

namespace NV.C03

/-- bridging lemma for the regenerated rewrite conditions of grammar.y: every typed peephole rewrite (`0 + X`, `X + 0`,
    `0 - X`, `x == 0` both ways, `if (x != 0)` both ways) fires only when the constant operand is the literal 0 AND the
    static type of the other operand is TYPE_NUMBER - the hypothesis under which `rewrite_add_zero_sound`,
    `rewrite_eq_zero_sound`, `rewrite_ne_zero_sound` show the rewrite to be an identity -/
theorem rw_guards_int (zero : Bool) (ty : Nat) :
    (NV.Gen.C03.rwAddZeroL zero ty = true → zero = true ∧ ty = NV.Gen.C03.typeNumber) ∧
    (NV.Gen.C03.rwAddZeroR zero ty = true → zero = true ∧ ty = NV.Gen.C03.typeNumber) ∧
    (NV.Gen.C03.rwSubZeroL zero ty = true → zero = true ∧ ty = NV.Gen.C03.typeNumber) ∧
    (NV.Gen.C03.rwEqZeroL zero ty = true → zero = true ∧ ty = NV.Gen.C03.typeNumber) ∧
    (NV.Gen.C03.rwEqZeroR zero ty = true → zero = true ∧ ty = NV.Gen.C03.typeNumber) ∧
    (NV.Gen.C03.rwIfNeZeroR zero ty = true → zero = true ∧ ty = NV.Gen.C03.typeNumber) ∧
    (NV.Gen.C03.rwIfNeZeroL zero ty = true → zero = true ∧ ty = NV.Gen.C03.typeNumber) := by
  simp only [NV.Gen.C03.rwAddZeroL, NV.Gen.C03.rwAddZeroR, NV.Gen.C03.rwSubZeroL, NV.Gen.C03.rwEqZeroL, NV.Gen.C03.rwEqZeroR,
    NV.Gen.C03.rwIfNeZeroR, NV.Gen.C03.rwIfNeZeroL, Bool.and_eq_true, decide_eq_true_eq]
  exact ⟨id, id, id, id, id, id, id⟩

/-- the type codes are pairwise distinct, so `tyCode t = typeNumber` means the grammar's static type IS `int` -/
theorem tyCode_int (t : Ty) : Frontend.tyCode t = NV.Gen.C03.typeNumber ↔ t = .int := by
  cases t <;> simp [Frontend.tyCode, NV.Gen.C03.typeNumber, NV.Gen.C03.typeReal, NV.Gen.C03.typeString, NV.Gen.C03.typeAny]

end NV.C03
