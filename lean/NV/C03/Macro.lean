/-
C03 — the preprocessor's macro machinery (lib/lpc/lex.c): model of the code and textbook specification.

Model (`handleDefine`, `collectArgs`, `expandCall`, `expandText`): character level, as the C code works —
* `handle_define`: the body of a function-like macro is scanned once; a maximal run of `isalunum` characters is an
  identifier; when the run ends it is compared with the parameters IN ORDER with the condition regenerated from
  the source (`NV.Gen.C03.macroParamMatch`); on a match the identifier just copied is removed again (`q -= idlen`)
  and replaced by a marker (`MARKS`, parameter number).  The text starts with a blank; the blank appended to flush
  the last identifier is cut off again.  String literals in the body are NOT recognised (identifiers inside them
  are replaced too — historical behaviour, not generated).
* `expand_define`: arguments are collected character by character: double / single quotes toggle, parentheses
  count, a comma outside both at depth 0 separates, the closing parenthesis at depth -1 ends; `\` inside a
  literal protects the next character; a newline becomes a blank.  The marked body is copied with every marker
  replaced by the text of its argument (`##` is dropped: pasting), the result is pushed back into the input and
  rescanned (nested macros); `nexpands` bounds the number of expansions per line (`EXPANDMAX`).

Spec: substitution on the token list — an identifier token is replaced iff it EQUALS a parameter name.
-/
import NV.Gen.C03

namespace NV.C03.Macro

/-- `isalunum` -/
def isAlunum (c : Char) : Bool := c.isAlphanum || c == '_'

/-- an element of the stored macro text: a character or the marker of parameter n -/
inductive Item where
  | ch (c : Char)
  | arg (n : Nat)
  deriving DecidableEq, Repr

/-- the parameter (first in declaration order) that the C test accepts for the identifier `id` -/
def matchParam (params : List (List Char)) (id : List Char) : Option Nat :=
  params.findIdx? (fun p => NV.Gen.C03.macroParamMatch p.length id.length (fun n => decide (p.take n = id.take n)))

/-- the body loop of handle_define: `out` = text copied so far (`q`), `cur` = the identifier being read
    (`ids .. p`), already copied to `out` -/
def scan (params : List (List Char)) : List Char → List Item → List Char → List Item
  | [], out, _ => out
  | c :: cs, out, cur =>
    if isAlunum c then scan params cs (out ++ [.ch c]) (cur ++ [c])
    else
      let out' :=
        if cur.isEmpty then out
        else match matchParam params cur with
          | some n => out.take (out.length - cur.length) ++ [.arg n]      -- q -= idlen; *q++ = MARKS; *q++ = n + MARKS + 1
          | none => out
      scan params cs (out' ++ [.ch c]) []

/-- handle_define for a function-like macro: `strcat (p, " ")`, `*q++ = ' '`, the loop, `*--q = 0` -/
def handleDefine (params : List (List Char)) (body : List Char) : List Item :=
  (scan params (body ++ [' ']) [.ch ' '] []).dropLast

/-! ### textbook specification -/

/-- a token: identifier or any other single character -/
inductive Tok where
  | ident (s : List Char)
  | other (c : Char)
  deriving DecidableEq, Repr

/-- split into maximal identifier runs and single characters (`cur` = pending identifier) -/
def tokenize : List Char → List Char → List Tok
  | [], cur => if cur.isEmpty then [] else [.ident cur]
  | c :: cs, cur =>
    if isAlunum c then tokenize cs (cur ++ [c])
    else (if cur.isEmpty then [] else [.ident cur]) ++ [.other c] ++ tokenize cs []

/-- the parameter an identifier token denotes: the first one whose name EQUALS it -/
def paramOf (params : List (List Char)) (id : List Char) : Option Nat := params.findIdx? (fun p => decide (p = id))

/-- substitution of one token -/
def substTok (params : List (List Char)) : Tok → List Item
  | .other c => [.ch c]
  | .ident s => match paramOf params s with
    | some n => [.arg n]
    | none => s.map .ch

/-- the stored text of `#define NAME(params) body` according to the textbook -/
def specDefine (params : List (List Char)) (body : List Char) : List Item :=
  .ch ' ' :: (tokenize body []).flatMap (substTok params)

/-! ### expansion -/

/-- `##` in the stored text is dropped when the macro is expanded (token pasting) -/
def dropPaste : List Item → List Item
  | .ch '#' :: .ch '#' :: rest => dropPaste rest
  | x :: rest => x :: dropPaste rest
  | [] => []

/-- the substitution loop of expand_define -/
def expandCall (items : List Item) (args : List (List Char)) : List Char :=
  (dropPaste items).flatMap (fun it => match it with | .ch c => [c] | .arg n => args.getD n [])

/-- argument collection of expand_define, started after the `(` and the blanks that follow it.
    State: current argument, finished arguments, parenthesis depth, inside "..." / '...'.
    Result: the arguments and the rest of the input behind the closing parenthesis; `none` = lexerror -/
def collectArgs : Nat → List Char → List Char → List (List Char) → Int → Bool → Bool → Option (List (List Char) × List Char)
  | 0, _, _, _, _, _, _ => none
  | _ + 1, [], _, _, _, _, _ => none                                   -- Unexpected end of file
  | fuel + 1, c :: cs, cur, done, par, dq, sq =>
    let dq' := if c == '"' && !sq then !dq else dq
    let sq' := if c == '\'' && !dq then !sq else sq
    let par' := if !sq && !dq then (if c == '(' then par + 1 else if c == ')' then par - 1 else par) else par
    if c == '\\' && (sq || dq) then
      match cs with
      | c2 :: cs2 => collectArgs fuel cs2 (cur ++ [c, c2]) done par dq sq
      | [] => none
    else if c == '\n' && (sq || dq) then none                         -- Newline in string
    else
      let c1 := if c == '\n' then ' ' else c
      if c1 == ',' && par' == 0 && !dq' && !sq' then collectArgs fuel cs [] (done ++ [cur]) par' dq' sq'
      else if par' < 0 then some (done ++ [cur], cs)
      else collectArgs fuel cs (cur ++ [c1]) done par' dq' sq'

structure Def where
  name : List Char
  /-- `none` = object-like -/
  params : Option (List (List Char))
  body : List Char

/-- the text that replaces a macro call: stored text with the arguments in place -/
def callText (d : Def) (args : List (List Char)) : List Char :=
  match d.params with
  | none => d.body
  | some ps => expandCall (handleDefine ps d.body) args

/-- the lexer's view of one line: identifiers that name a macro are replaced (function-like ones with their
    arguments) and the replacement is rescanned; `budget` is EXPANDMAX (`none` = "Too many macro expansions") -/
def expandText (defs : List Def) : Nat → List Char → List Char → Option (List Char)
  | 0, _, _ => none
  | budget + 1, input, cur =>
    let flush := fun (rest : List Char) (k : List Char → Option (List Char)) =>
      if cur.isEmpty then k rest
      else match defs.find? (fun d => d.name == cur) with
        | none => (k rest).map (cur ++ ·)
        | some d =>
          match d.params with
          | none => expandText defs budget (d.body ++ rest) []
          | some ps =>
            let r := rest.dropWhile (fun c => c == ' ' || c == '\t')
            match r with
            | '(' :: r1 =>
              let r2 := r1.dropWhile (fun c => c == ' ' || c == '\t')
              match (match r2 with
                     | ')' :: r3 => some ([], r3)
                     | _ => collectArgs (r2.length + 1) r2 [] [] 0 false false) with
              | some (args, r3) =>
                if args.length == ps.length then expandText defs budget (callText d args ++ r3) [] else none
              | none => none
            | _ => none                                              -- Missing '(' in macro call
    match input with
    | [] => flush [] (fun _ => some [])
    | c :: cs =>
      if isAlunum c then expandText defs budget cs (cur ++ [c])
      else flush (c :: cs) (fun rest => match rest with
        | c' :: cs' => (expandText defs budget cs' []).map (c' :: ·)
        | [] => some [])

end NV.C03.Macro
