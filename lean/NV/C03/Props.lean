/-
C03 — property theorems (operator / rewrite / table level).

`LpcOps.*` is the transcription of eval_instruction / operator.c (after the fix commits), `Spec.*` the reference
semantics, `Frontend.*` the compiler's folds, rewrites and encodings.  Every statement quantifies over ALL
operands (all int64 values `I64`, every pair of operand types, every `FloatOps` instance).  Where the code
that exists deviates (open findings) the full statement lives in Witness.lean as a refuted `def ..._Full` and
the theorem here carries an explicit side condition naming the excluded operand region.
-/
import NV.C03.Lemmas

namespace NV.C03

variable {R : Type}

/-- integer payload (if any) is an int64 value -/
def VI64 : Value R → Prop
  | .int n => I64 n
  | _ => True

/-- a shift count the language defines (C leaves the others undefined; the driver inherits the x86 masking) -/
def ShiftOk (op : BinOp) (b : Value R) : Prop :=
  match op, b with
  | .lsh, .int n => 0 ≤ n ∧ n < 64
  | .rsh, .int n => 0 ≤ n ∧ n < 64
  | _, _ => True

/-! ## operators -/

/-- F_NOT / F_COMPL / F_NEGATE compute the reference result for every operand of every type -/
theorem unop_agrees (F : FloatOps R) (op : UnOp) (v : Value R) : LpcOps.unop F op v = Spec.unop F op v := by
  cases op <;> cases v <;> simp [LpcOps.unop, Spec.unop, b2i]

example (F : FloatOps R) : LpcOps.unop F .neg (.int (-(2 ^ 63))) = .ok (.int (-(2 ^ 63))) := by
  simp [LpcOps.unop, wrap]

/-- every binary opcode (F_ADD, F_SUBTRACT, F_MULTIPLY, F_DIVIDE, F_MOD, F_AND, F_OR, F_XOR, F_LSH, F_RSH,
    f_eq, f_ne, f_lt, f_le, f_gt, f_ge) computes the reference result on all int64 values and all 36 pairs of
    operand types; the only side condition is that a shift count is one the language defines (0..63) -/
theorem binop_agrees (F : FloatOps R) (op : BinOp) (a b : Value R) (ha : VI64 a) (hs : ShiftOk op b) :
    LpcOps.binop F op a b = Spec.binop F op a b := by
  cases op
  case add => cases a <;> cases b <;> simp [LpcOps.binop, Spec.binop, LpcOps.add, Spec.add]
  case sub => cases a <;> cases b <;> simp [LpcOps.binop, Spec.binop, LpcOps.sub, Spec.sub]
  case mul => cases a <;> cases b <;> simp [LpcOps.binop, Spec.binop, LpcOps.mul, Spec.mul]
  case div =>
    cases a <;> cases b <;> simp [LpcOps.binop, Spec.binop, LpcOps.div, Spec.div]
    case int.int x y =>
      by_cases hy : y = 0
      · simp [hy]
      · simp [hy, idiv_eq ha hy]
  case mod =>
    cases a <;> cases b <;> simp [LpcOps.binop, Spec.binop, LpcOps.intOp]
    case int.int x y =>
      by_cases hy : y = 0
      · simp [hy]
      · simp [hy, imod_eq ha]
  case band => cases a <;> cases b <;> simp [LpcOps.binop, Spec.binop, LpcOps.intOp]
  case bor => cases a <;> cases b <;> simp [LpcOps.binop, Spec.binop, LpcOps.intOp]
  case bxor => cases a <;> cases b <;> simp [LpcOps.binop, Spec.binop, LpcOps.intOp]
  case lsh =>
    cases a <;> cases b <;> simp [LpcOps.binop, Spec.binop, LpcOps.intOp]
    case int.int x n =>
      have h : 0 ≤ n ∧ n < 64 := hs
      simp [h, shl_eq h.1 h.2]
  case rsh =>
    cases a <;> cases b <;> simp [LpcOps.binop, Spec.binop, LpcOps.intOp]
    case int.int x n =>
      have h : 0 ≤ n ∧ n < 64 := hs
      simp [h, sar_eq h.1 h.2]
  case eq => cases a <;> cases b <;> simp [LpcOps.binop, Spec.binop, LpcOps.eqv, Spec.eqv]
  case ne => cases a <;> cases b <;> simp [LpcOps.binop, Spec.binop, LpcOps.eqv, Spec.eqv]
  case lt => cases a <;> cases b <;> simp [LpcOps.binop, Spec.binop, LpcOps.cmp, Spec.cmp]
  case le => cases a <;> cases b <;> simp [LpcOps.binop, Spec.binop, LpcOps.cmp, Spec.cmp]
  case gt => cases a <;> cases b <;> simp [LpcOps.binop, Spec.binop, LpcOps.cmp, Spec.cmp]
  case ge => cases a <;> cases b <;> simp [LpcOps.binop, Spec.binop, LpcOps.cmp, Spec.cmp]

/-- non-vacuity: INT64_MIN / -1 (the operands of the repaired SIGFPE) satisfy the hypotheses -/
example : VI64 (R := Nat) (.int (-(2 ^ 63))) ∧ ShiftOk (R := Nat) .div (.int (-1)) := by
  constructor
  · unfold VI64 I64; omega
  · simp [ShiftOk]

/-- the branch opcodes test exactly the reference truth value -/
theorem truthy_agrees (v : Value R) : LpcOps.truthy v = Spec.truthy v := by
  cases v <;> simp [LpcOps.truthy, Spec.truthy, bne]

/-! ## assignment operators, ++ / -- -/

def Assignable (op : BinOp) : Prop :=
  op = .add ∨ op = .sub ∨ op = .mul ∨ op = .div ∨ op = .mod ∨ op = .band ∨ op = .bor ∨ op = .bxor ∨ op = .lsh ∨ op = .rsh

/-- operand pairs on which F_ADD_EQ / f_sub_eq / f_mult_eq / f_div_eq still deviate (open findings
    num-opeq-real and addeq-num-str): integer lvalue with a real right side, number lvalue `+=` string -/
def OpEqExcluded (op : BinOp) (old rhs : Value R) : Prop :=
  match op, old, rhs with
  | .add, .int _, .real _ => True
  | .sub, .int _, .real _ => True
  | .mul, .int _, .real _ => True
  | .div, .int _, .real _ => True
  | .add, .int _, .str _ => True
  | .add, .real _, .str _ => True
  | _, _, _ => False

/-- outside the excluded region every `op=` opcode computes `old op rhs` once and stores / yields that value -/
theorem assignop_eq_binop (F : FloatOps R) (op : BinOp) (old rhs : Value R) (hop : Assignable op)
    (hx : ¬ OpEqExcluded op old rhs) :
    LpcOps.assignop F Quirks.real op old rhs = (LpcOps.binop F op old rhs >>= fun v => pure (v, v)) := by
  rcases hop with h | h | h | h | h | h | h | h | h | h <;> subst h
  · cases old <;> cases rhs <;> simp_all [LpcOps.assignop, LpcOps.binop, LpcOps.add, OpEqExcluded, Quirks.real]
  · cases old <;> cases rhs <;> simp_all [LpcOps.assignop, LpcOps.binop, LpcOps.sub, OpEqExcluded, Quirks.real]
  · cases old <;> cases rhs <;> simp_all [LpcOps.assignop, LpcOps.binop, LpcOps.mul, OpEqExcluded, Quirks.real]
  · cases old <;> cases rhs <;> simp_all [LpcOps.assignop, LpcOps.binop, LpcOps.div, OpEqExcluded, Quirks.real]
  all_goals simp [LpcOps.assignop]

/-- `x op= y` is `x = x op y` (new value of x and value of the expression) for every operator and operand pair
    outside the excluded region -/
theorem assignop_agrees_partial (F : FloatOps R) (op : BinOp) (old rhs : Value R) (hop : Assignable op)
    (ha : VI64 old) (hs : ShiftOk op rhs) (hx : ¬ OpEqExcluded op old rhs) :
    LpcOps.assignop F Quirks.real op old rhs = Spec.assignop F op old rhs := by
  rw [assignop_eq_binop F op old rhs hop hx, binop_agrees F op old rhs ha hs]
  rfl

/-- with the two deviations repaired (`Quirks.none`) the statement holds for ALL operand pairs: the excluded
    region of `assignop_agrees_partial` is exactly what the two findings cover -/
theorem assignop_agrees_repaired (F : FloatOps R) (op : BinOp) (old rhs : Value R) (hop : Assignable op)
    (ha : VI64 old) (hs : ShiftOk op rhs) :
    LpcOps.assignop F Quirks.none op old rhs = Spec.assignop F op old rhs := by
  have h : LpcOps.assignop F Quirks.none op old rhs = (LpcOps.binop F op old rhs >>= fun v => pure (v, v)) := by
    rcases hop with h | h | h | h | h | h | h | h | h | h <;> subst h
    · cases old <;> cases rhs <;> simp [LpcOps.assignop, LpcOps.binop, LpcOps.add, Quirks.none]
    · cases old <;> cases rhs <;> simp [LpcOps.assignop, LpcOps.binop, LpcOps.sub, Quirks.none]
    · cases old <;> cases rhs <;> simp [LpcOps.assignop, LpcOps.binop, LpcOps.mul, Quirks.none]
    · cases old <;> cases rhs <;> simp [LpcOps.assignop, LpcOps.binop, LpcOps.div, Quirks.none]
    all_goals simp [LpcOps.assignop]
  rw [h, binop_agrees F op old rhs ha hs]
  rfl

example : ¬ OpEqExcluded (R := Nat) .add (.real 3) (.int 2) := by simp [OpEqExcluded]

/-- `++x` is `x = x + 1`, `--x` is `x = x - 1`, the post forms yield the old value: F_PRE_INC, F_PRE_DEC,
    F_POST_INC, F_POST_DEC (and F_INC / F_DEC) on every operand -/
theorem incdec_agrees (F : FloatOps R) (k : IncKind) (v : Value R) : LpcOps.incdec F k v = Spec.incdec F k v := by
  cases k <;> cases v <;>
    simp [LpcOps.incdec, Spec.incdec, Spec.binop, Spec.add, Spec.sub, IncKind.isInc, IncKind.isPre]

/-! ## indexing -/

/-- sizes are C `int`s -/
def SizeOk : Value R → Prop
  | .arr l => (l.length : Int) < 2 ^ 31
  | .str s => (s.length : Int) < 2 ^ 31
  | .buf b => (b.length : Int) < 2 ^ 31
  | _ => True

theorem getD_len {α} (l : List α) (d : α) : l.getD l.length d = d := by
  simp [List.getD]

/-- F_INDEX returns the reference element / error for every container and every int64 index (the 64-bit index
    is compared with the bounds before it is narrowed to `int`) -/
theorem index_agrees (F : FloatOps R) (c i : Value R) (hc : SizeOk c) : LpcOps.index F c i = Spec.index F c i := by
  cases c <;> cases i <;> simp only [LpcOps.index, Spec.index]
  case arr.int l n =>
    simp only [SizeOk] at hc
    by_cases h1 : n < 0
    · rw [if_pos h1, if_neg (by omega)]
    · rw [if_neg h1]
      by_cases h2 : n ≥ l.length
      · rw [if_pos h2, if_neg (by omega)]
      · rw [if_neg h2, if_pos (by omega), wrap32_id (by omega) (by omega)]
  case str.int s n =>
    simp only [SizeOk] at hc
    by_cases h1 : n > s.length ∨ n < 0
    · rw [if_pos h1, if_neg (by omega), if_neg (by omega)]
    · rw [if_neg h1, wrap32_id (by omega) (by omega)]
      by_cases h3 : 0 ≤ n ∧ n < s.length
      · rw [if_pos h3]
      · have hn : n = s.length := by omega
        rw [if_neg h3, if_pos hn, hn]
        simp [Spec.byteVal]
  case buf.int b n =>
    simp only [SizeOk] at hc
    by_cases h1 : n ≥ b.length ∨ n < 0
    · rw [if_pos h1, if_neg (by omega)]
    · rw [if_neg h1, if_pos (by omega), wrap32_id (by omega) (by omega)]

/-- F_RINDEX: `c[<i]` is `c[sizeof(c) - i]` for every container and every int64 index -/
theorem rindex_agrees (F : FloatOps R) (c i : Value R) (hc : SizeOk c) : LpcOps.rindex c i = Spec.rindex F c i := by
  cases c <;> cases i <;> simp only [LpcOps.rindex, Spec.rindex, Spec.index]
  case arr.int l n =>
    simp only [SizeOk] at hc
    by_cases h1 : n ≤ 0 ∨ n > l.length
    · rw [if_pos h1, if_neg (by omega)]
    · rw [if_neg h1, if_pos (by omega), wrap32_id (by omega) (by omega)]
  case str.int s n =>
    simp only [SizeOk] at hc
    by_cases h1 : n > s.length ∨ n < 0
    · rw [if_pos h1, if_neg (by omega), if_neg (by omega)]
    · rw [if_neg h1, wrap32_id (by omega) (by omega)]
      by_cases h3 : 0 ≤ (s.length : Int) - n ∧ (s.length : Int) - n < s.length
      · rw [if_pos h3]
      · have hn : (s.length : Int) - n = s.length := by omega
        rw [if_neg h3, if_pos hn, hn]
        simp [Spec.byteVal]
  case buf.int b n =>
    simp only [SizeOk] at hc
    by_cases h1 : n > b.length ∨ n ≤ 0
    · rw [if_pos h1, if_neg (by omega)]
    · rw [if_neg h1, if_pos (by omega), wrap32_id (by omega) (by omega)]

end NV.C03
