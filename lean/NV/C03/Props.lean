import NV.C03.Lemmas
namespace NV.C03
end NV.C03
