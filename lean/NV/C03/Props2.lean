/-
C03 — property theorems, part 2: lvalues, constant folding, rewrites, literal encodings, loop tests, switch.
-/
import NV.C03.Props

namespace NV.C03

variable {R : Type}

/-! ## index / range lvalues -/

/-- push_indexed_lvalue reads the reference element through `c[i]` / `c[<i]` on the left of an assignment
    operator, for every container, `<` flag and int64 index -/
theorem lvget_agrees (F : FloatOps R) (rev : Bool) (c i : Value R) :
    LpcOps.lvGet F rev c i = Spec.lvGet F rev c i := by
  cases rev <;> cases c <;> cases i <;> simp only [LpcOps.lvGet, Spec.lvGet, Bool.false_eq_true, if_false, if_true]
  all_goals first
    | rfl
    | (split <;> split <;> first | rfl | (exfalso; omega))

/-! ## constant folding -/

/-- laws of IEEE addition / multiplication the grammar relies on when it folds `int op real` with the operands
    swapped (`$3->v.real += $1->v.number`) -/
structure FloatComm (F : FloatOps R) : Prop where
  add_comm : ∀ a b, F.add a b = F.add b a
  mul_comm : ∀ a b, F.mul a b = F.mul b a

/-- constant folding = run-time evaluation: whenever the grammar folds `a op b` for two constants, the folded
    constant is what the opcode computes at run time (all foldable operators, all constants) -/
theorem fold_sound (F : FloatOps R) (hF : FloatComm F) (op : BinOp) (a b c : Value R)
    (h : Frontend.foldBin F op a b = some c) : LpcOps.binop F op a b = .ok c := by
  cases op <;> cases a <;> cases b <;>
    simp_all [Frontend.foldBin, LpcOps.binop, LpcOps.add, LpcOps.sub, LpcOps.mul, LpcOps.div, LpcOps.intOp,
      hF.add_comm, hF.mul_comm] <;>
    (first | (obtain ⟨h1, h2⟩ := h; simp_all) | skip)

/-- ... and therefore the reference value -/
theorem fold_sound_spec (F : FloatOps R) (hF : FloatComm F) (op : BinOp) (a b c : Value R) (ha : VI64 a)
    (hs : ShiftOk op b) (h : Frontend.foldBin F op a b = some c) : Spec.binop F op a b = .ok c := by
  rw [← binop_agrees F op a b ha hs]; exact fold_sound F hF op a b c h

theorem fold_un_sound (F : FloatOps R) (op : UnOp) (a c : Value R) (h : Frontend.foldUn F op a = some c) :
    Spec.unop F op a = .ok c := by
  cases op <;> cases a <;> simp_all [Frontend.foldUn, Spec.unop, b2i]

example (F : FloatOps R) : Frontend.foldBin F .mul (.int (2 ^ 32)) (.int (2 ^ 32)) = some (.int 0) := by
  simp [Frontend.foldBin, wrap]

/-! ## rewrites (value level: every grammar rewrite is an identity of the reference operators) -/

/-- `x == 0 --> !x` and `0 == x --> !x` are sound for every integer x -/
theorem rewrite_eq_zero_sound (F : FloatOps R) (n : Int) :
    Spec.binop F .eq (.int n) (.int 0) = Spec.unop F .not (.int n) ∧
    Spec.binop F .eq (.int 0) (.int n) = Spec.unop F .not (.int n) := by
  constructor
  · simp [Spec.binop, Spec.unop, Spec.eqv, b2i]
  · by_cases h : n = 0
    · subst h; simp [Spec.binop, Spec.unop, Spec.eqv, b2i]
    · have h' : ¬ (0 = n) := fun e => h e.symm
      simp [Spec.binop, Spec.unop, Spec.eqv, b2i, h, h']

/-- `0 + x --> x`, `x + 0 --> x`, `x - 0 = x` and `0 - x --> -x` are sound for every int64 x -/
theorem rewrite_add_zero_sound (F : FloatOps R) (n : Int) (h : I64 n) :
    Spec.binop F .add (.int 0) (.int n) = .ok (.int n) ∧ Spec.binop F .add (.int n) (.int 0) = .ok (.int n) ∧
    Spec.binop F .sub (.int 0) (.int n) = Spec.unop F .neg (.int n) := by
  refine ⟨?_, ?_, ?_⟩ <;> simp [Spec.binop, Spec.add, Spec.sub, Spec.unop, wrap_id h]

/-- `!a ? b : c --> a ? c : b`: the truth value of `!v` is the negation of the truth value of `v` -/
theorem rewrite_not_cond_sound (F : FloatOps R) (v r : Value R) (h : Spec.unop F .not v = .ok r) :
    Spec.truthy r = !Spec.truthy v := by
  cases v
  case int n =>
    simp [Spec.unop, b2i] at h
    subst h
    by_cases hn : n = 0 <;> simp [Spec.truthy, hn]
  all_goals
    simp [Spec.unop] at h
    subst h
    simp [Spec.truthy]

/-- `if (x != 0) --> if (x)` is sound for every integer x -/
theorem rewrite_ne_zero_sound (F : FloatOps R) (n : Int) (r : Value R)
    (h : Spec.binop F .ne (.int n) (.int 0) = .ok r) : Spec.truthy r = Spec.truthy (.int n : Value R) := by
  simp [Spec.binop, Spec.eqv, b2i] at h
  subst h
  by_cases hn : n = 0 <;> simp [Spec.truthy, hn]

/-! ## literal encodings -/

/-- decode (encode n) = n for every int64 n and every encoding class (F_CONST0, F_CONST1, F_BYTE, F_NBYTE,
    F_NUMBER, F_LONG) -/
theorem literal_roundtrip (n : Int) (h : I64 n) : Frontend.decodeNum (Frontend.encodeNum n) = n := by
  unfold I64 at h
  unfold Frontend.encodeNum
  split
  · split
    · split
      · simp [Frontend.decodeNum]; omega
      · split
        · simp [Frontend.decodeNum]; omega
        · simp [Frontend.decodeNum]; omega
    · split
      · simp [Frontend.decodeNum]; omega
      · simp [Frontend.decodeNum, wrap32]; omega
  · simp [Frontend.decodeNum, wrap]; omega

example : Frontend.encodeNum (-255) = .nbyte 255 ∧ Frontend.encodeNum (2 ^ 31) = .long (2 ^ 31) ∧
    Frontend.encodeNum (-(2 ^ 31)) = .number (2 ^ 31) := by decide

/-! ## loop forms -/

/-- F_WHILE_DEC is `while (x--)`: it continues exactly when the old value is true and stores `x - 1` -/
theorem while_dec_agrees (F : FloatOps R) (v : Value R) :
    LpcOps.whileDec F v =
      (Spec.incdec F .postDec v >>= fun (p : Value R × Value R) => pure (Spec.truthy p.2, p.1)) := by
  cases v <;> simp [LpcOps.whileDec, Spec.incdec, Spec.binop, Spec.sub, Spec.truthy, IncKind.isInc, IncKind.isPre, bne]

/-- F_LOOP_COND_NUMBER is `x < c` whenever the front end selects it (the constant fits its 32-bit operand) -/
theorem loop_cond_num_agrees (F : FloatOps R) (v : Value R) (c : Int) (hc : inI32 c = true) :
    (LpcOps.loopCondNum F v c >>= fun b => pure (b2i (R := R) b)) = Spec.binop F .lt v (.int c) := by
  have hw : wrap32 c = c := by
    simp [inI32] at hc
    exact wrap32_id hc.1 hc.2
  cases v <;> simp [LpcOps.loopCondNum, Spec.binop, Spec.cmp, hw]

/-- F_LOOP_COND_LOCAL is `x < y` -/
theorem loop_cond_local_agrees (F : FloatOps R) (a b : Value R) :
    (LpcOps.loopCondLocal F a b >>= fun r => pure (b2i (R := R) r)) = Spec.binop F .lt a b := by
  cases a <;> cases b <;> simp [LpcOps.loopCondLocal, Spec.binop, Spec.cmp]

/-! ## switch: direct lookup table -/

/-- f_switch on a direct lookup table (consecutive keys from a 32-bit minimum) selects entry `s - min` exactly
    for min <= s < min + size, for every int64 s (the repaired range test) -/
theorem switch_direct_agrees (mn : Int) (targets : List Nat) (s : Int) (hpos : ∀ t ∈ targets, t ≠ 0) :
    LpcOps.switchLookup (.direct mn targets) s =
      if mn ≤ s ∧ s < mn + targets.length then some (targets.getD (s - mn).toNat 0) else none := by
  unfold LpcOps.switchLookup
  simp only
  by_cases h : s ≥ mn ∧ s - mn < targets.length
  · rw [if_pos h, if_pos (by omega)]
    have hlt : (s - mn).toNat < targets.length := by omega
    have hmem : targets.getD (s - mn).toNat 0 ∈ targets := by
      simp [List.getD, hlt]
    have := hpos _ hmem
    split
    · rename_i heq; exact absurd heq this
    · rfl
  · rw [if_neg h, if_neg (by omega)]

end NV.C03
