/-
C03 — property theorems, part 3: stores through index lvalues, range lvalues, ranges (`c[i..j]`, all `<`
combinations, `c[i..]`) on strings, buffers and arrays.
-/
import NV.C03.Props2

namespace NV.C03
variable {R : Type}

theorem lvset_agrees_repaired (F : FloatOps R) (rev : Bool) (c i v : Value R) :
    LpcOps.lvSet F Quirks.none rev c i v = Spec.lvSet F rev c i v := by
  cases rev <;> cases c <;> cases i <;> cases v <;>
    simp only [LpcOps.lvSet, Spec.lvSet, Quirks.none, Bool.false_and, Bool.false_eq_true, if_false, if_true, ↓reduceIte] <;>
    (try rfl) <;> (repeat' split) <;> first | rfl | (exfalso; omega) | simp_all

def NoBufZero (c v : Value R) : Prop :=
  match c, v with
  | .buf _, .int ch => Spec.lowByte ch ≠ 0
  | _, _ => True

/-- the code BEFORE the repair of finding buf-store-zero (`bufStoreZero := true`) agreed outside a zero byte into a buffer -/
theorem lvset_agrees_partial (F : FloatOps R) (rev : Bool) (c i v : Value R) (hz : NoBufZero c v) :
    LpcOps.lvSet F { Quirks.real with bufStoreZero := true } rev c i v = Spec.lvSet F rev c i v := by
  cases rev <;> cases c <;> cases i <;> cases v <;>
    simp only [LpcOps.lvSet, Spec.lvSet, Quirks.real, Bool.true_and, Bool.false_eq_true, if_false, if_true, ↓reduceIte] <;>
    (try rfl) <;> (try simp only [NoBufZero] at hz) <;> (repeat' split) <;> first | rfl | (exfalso; omega) | simp_all

/-- FULL statement (finding buf-store-zero repaired): F_ASSIGN / F_VOID_ASSIGN through an index lvalue of the code that
    exists is the reference store for every container, index and value - a zero byte into a buffer included -/
theorem lvset_agrees (F : FloatOps R) (rev : Bool) (c i v : Value R) :
    LpcOps.lvSet F Quirks.real rev c i v = Spec.lvSet F rev c i v := by
  cases rev <;> cases c <;> cases i <;> cases v <;>
    simp only [LpcOps.lvSet, Spec.lvSet, Quirks.real, Bool.false_and, Bool.false_eq_true, if_false, if_true, ↓reduceIte] <;>
    (try rfl) <;> (repeat' split) <;> first | rfl | (exfalso; omega) | simp_all

example : LpcOps.lvSet (R := Nat) ⟨(· + ·), (· - ·), (· * ·), (· / ·), id, fun a b => decide (a < b), fun a b => decide (a ≤ b),
    fun a b => a == b, Int.toNat, Int.ofNat, fun _ => []⟩ Quirks.real false (.buf [65, 66]) (.int 1) (.int 256) = .ok (.buf [65, 0]) := by
  rfl


theorem take_drop_eq {α} (l : List α) (a a' n m : Nat) (ha : a = a')
    (h : n = m ∨ (l.length - a ≤ n ∧ l.length - a ≤ m)) : (l.drop a).take n = (l.drop a').take m := by
  subst ha
  rcases h with h | ⟨h1, h2⟩
  · rw [h]
  · rw [List.take_of_length_le (by simp; omega), List.take_of_length_le (by simp; omega)]

/-- f_range's selection on strings / buffers is the reference slice once `from` is clamped at 0 -/
theorem cut_eq_slice {α} (l : List α) (f t : Int) :
    LpcOps.cut l (if f < 0 then 0 else f) t = Spec.slice l f t := by
  unfold LpcOps.cut Spec.slice
  simp only
  (repeat' split) <;> (try rfl) <;> (try (exfalso; omega))
  all_goals (apply take_drop_eq <;> omega)

theorem sliceArray_eq_slice {α} (l : List α) (f t f' t' : Int)
    (hf : f' = (if (if f < 0 then 0 else f) > (l.length : Int) then (l.length : Int) else (if f < 0 then 0 else f)))
    (ht : t' = (if (if t ≥ (l.length : Int) then (l.length : Int) - 1 else t) < -1 then -1 else (if t ≥ (l.length : Int) then (l.length : Int) - 1 else t))) :
    LpcOps.sliceArray l f' t' = Spec.slice l f t := by
  subst hf ht
  unfold LpcOps.sliceArray Spec.slice
  simp only
  (repeat' split) <;> (try rfl) <;> (try (exfalso; omega))
  all_goals (apply take_drop_eq <;> omega)



theorem rangePos_str (old : Bool) (len : Int) (rev : Bool) (x : Int) :
    (if rev = true then (if (old && decide (len - x < 0)) = true then len - x + len else len - x)
      else if (old && decide (x < 0)) = true then x + len else x) = Spec.rangePos old len rev x := by
  unfold Spec.rangePos
  cases rev <;> cases old <;> simp

/-! ### the `<` bound: `range_from_end ()` of operator.c, regenerated as `NV.Gen.C03.rangeFromEnd` -/

theorem w64_eq_wrap (n : Int) : NV.Gen.C03.w64 n = wrap n := rfl

/-- bridging lemma: for a length the driver can have and every int64 bound, the regenerated helper (every C operation
    wrapping) computes `len - i` saturated at INT64_MAX - no C operation in it overflows -/
theorem rangeFromEnd_spec {len i : Int} (h0 : 0 ≤ len) (h1 : len < 2 ^ 31) (hi : I64 i) :
    NV.Gen.C03.rangeFromEnd len i = if len - i > 2 ^ 63 - 1 then 2 ^ 63 - 1 else len - i := by
  unfold NV.Gen.C03.rangeFromEnd NV.Gen.C03.w64
  unfold I64 at hi
  split <;> split <;> omega

/-- what the rest of f_range needs to know about a saturated position -/
theorem rangeFromEnd_cases {len i : Int} (h0 : 0 ≤ len) (h1 : len < 2 ^ 31) (hi : I64 i) :
    (NV.Gen.C03.rangeFromEnd len i = len - i ∧ len - i ≤ 2 ^ 63 - 1) ∨
      (NV.Gen.C03.rangeFromEnd len i = 2 ^ 63 - 1 ∧ len - i > 2 ^ 63 - 1) := by
  rw [rangeFromEnd_spec h0 h1 hi]; split <;> omega

/-- f_range with exact (unbounded) `len - i` is the reference range -/
theorem rangeWith_exact_agrees (fr tr : Bool) (c i j : Value R) (hc : SizeOk c) :
    LpcOps.rangeWith (fun a b => a - b) false Spec.oldRange fr tr c i j = Spec.range fr tr c i j := by
  cases c <;> cases i <;> cases j <;> (try rfl)
  case str.int.int s i j =>
    simp only [LpcOps.rangeWith, Spec.range, Bool.false_eq_true, if_false, ↓reduceIte]
    rw [rangePos_str, rangePos_str, cut_eq_slice]
  case buf.int.int b i j =>
    simp only [LpcOps.rangeWith, Spec.range, Bool.false_eq_true, if_false, ↓reduceIte]
    rw [← cut_eq_slice]
    unfold Spec.rangePos
    generalize Spec.oldRange = old
    congr 3
    cases old <;> cases fr <;> simp <;> (repeat' split) <;> omega
  case arr.int.int l i j =>
    simp only [LpcOps.rangeWith, Spec.range, Bool.false_eq_true, if_false, ↓reduceIte]
    simp only [SizeOk] at hc
    rw [wrap32_id (by (repeat' split) <;> omega) (by (repeat' split) <;> omega),
        wrap32_id (by (repeat' split) <;> omega) (by (repeat' split) <;> omega)]
    apply congrArg; apply congrArg
    apply sliceArray_eq_slice
    · simp [Spec.rangePos]
    · simp [Spec.rangePos]

/-- `cut` does not see the saturation: a `from` at or beyond the end selects nothing, a `to` at or beyond the last
    element selects up to the end -/
theorem cut_sat {α} (l : List α) (f f' t t' : Int) (hl : (l.length : Int) < 2 ^ 31)
    (hf : f' = f ∨ (f' = 2 ^ 63 - 1 ∧ f > 2 ^ 63 - 1)) (ht : t' = t ∨ (t' = 2 ^ 63 - 1 ∧ t > 2 ^ 63 - 1))
    (hfm : f' ≤ 2 ^ 63 - 1) :
    LpcOps.cut l f' t' = LpcOps.cut l f t := by
  unfold LpcOps.cut
  simp only
  rcases hf with hf | ⟨hf, hf2⟩ <;> rcases ht with ht | ⟨ht, ht2⟩ <;> subst_vars
  · rfl
  · (repeat' split) <;> (try rfl) <;> (try (exfalso; omega))
  · (repeat' split) <;> (try rfl) <;> (try (exfalso; omega))
  · (repeat' split) <;> (try rfl) <;> (try (exfalso; omega))

theorem sliceArray_congr {α} (l : List α) {f f' t t' : Int} (hf : f' = f) (ht : t' = t) :
    LpcOps.sliceArray l f' t' = LpcOps.sliceArray l f t := by rw [hf, ht]

theorem rangeWith_sat_str (sr old fr tr : Bool) (s : List UInt8) (i j : Int) (hc : (s.length : Int) < 2 ^ 31)
    (hi : I64 i) (hj : I64 j) :
    LpcOps.rangeWith (R := R) NV.Gen.C03.rangeFromEnd sr old fr tr (.str s) (.int i) (.int j)
      = LpcOps.rangeWith (fun a b => a - b) sr old fr tr (.str s) (.int i) (.int j) := by
  have ci := rangeFromEnd_cases (Int.natCast_nonneg s.length) hc hi
  have cj := rangeFromEnd_cases (Int.natCast_nonneg s.length) hc hj
  unfold I64 at hi hj
  simp only [LpcOps.rangeWith]
  generalize NV.Gen.C03.rangeFromEnd (s.length : Int) i = pi at ci ⊢
  generalize NV.Gen.C03.rangeFromEnd (s.length : Int) j = pj at cj ⊢
  apply congrArg; apply congrArg
  cases fr <;> cases tr <;> cases sr <;> cases old <;>
    simp only [Bool.false_eq_true, ↓reduceIte, Bool.true_and, Bool.false_and] <;>
    (try rfl) <;>
    (apply cut_sat _ _ _ _ _ hc <;> (try simp only [decide_eq_true_eq]) <;> (repeat' split) <;> first | omega | simp)

theorem rangeWith_sat_buf (sr old fr tr : Bool) (s : List UInt8) (i j : Int) (hc : (s.length : Int) < 2 ^ 31)
    (hi : I64 i) (hj : I64 j) :
    LpcOps.rangeWith (R := R) NV.Gen.C03.rangeFromEnd sr old fr tr (.buf s) (.int i) (.int j)
      = LpcOps.rangeWith (fun a b => a - b) sr old fr tr (.buf s) (.int i) (.int j) := by
  have ci := rangeFromEnd_cases (Int.natCast_nonneg s.length) hc hi
  have cj := rangeFromEnd_cases (Int.natCast_nonneg s.length) hc hj
  unfold I64 at hi hj
  simp only [LpcOps.rangeWith]
  generalize NV.Gen.C03.rangeFromEnd (s.length : Int) i = pi at ci ⊢
  generalize NV.Gen.C03.rangeFromEnd (s.length : Int) j = pj at cj ⊢
  apply congrArg; apply congrArg
  cases fr <;> cases tr <;> cases old <;>
    simp only [Bool.false_eq_true, ↓reduceIte, Bool.true_and, Bool.false_and] <;>
    (try rfl) <;>
    (apply cut_sat _ _ _ _ _ hc <;> (try simp only [decide_eq_true_eq]) <;> (repeat' split) <;> first | omega | simp)

theorem rangeWith_sat_arr (sr old fr tr : Bool) (l : List (Value R)) (i j : Int) (hc : (l.length : Int) < 2 ^ 31)
    (hi : I64 i) (hj : I64 j) :
    LpcOps.rangeWith NV.Gen.C03.rangeFromEnd sr old fr tr (.arr l) (.int i) (.int j)
      = LpcOps.rangeWith (fun a b => a - b) sr old fr tr (.arr l) (.int i) (.int j) := by
  have ci := rangeFromEnd_cases (Int.natCast_nonneg l.length) hc hi
  have cj := rangeFromEnd_cases (Int.natCast_nonneg l.length) hc hj
  unfold I64 at hi hj
  simp only [LpcOps.rangeWith]
  generalize NV.Gen.C03.rangeFromEnd (l.length : Int) i = pi at ci ⊢
  generalize NV.Gen.C03.rangeFromEnd (l.length : Int) j = pj at cj ⊢
  apply congrArg; apply congrArg
  cases fr <;> cases tr <;>
    simp only [Bool.false_eq_true, if_false, if_true, ↓reduceIte] <;> (try rfl) <;>
    (apply sliceArray_congr <;> (apply congrArg) <;> (repeat' split) <;> omega)

/-- the saturating helper of the code and the exact subtraction give the same range for every container the driver can
    hold and all int64 bounds -/
theorem rangeWith_sat (sr old fr tr : Bool) (c i j : Value R) (hc : SizeOk c) (hi : VI64 i) (hj : VI64 j) :
    LpcOps.rangeWith NV.Gen.C03.rangeFromEnd sr old fr tr c i j = LpcOps.rangeWith (fun a b => a - b) sr old fr tr c i j := by
  cases c <;> cases i <;> cases j <;> (try rfl)
  case str.int.int s i j => exact rangeWith_sat_str sr old fr tr s i j hc hi hj
  case buf.int.int b i j => exact rangeWith_sat_buf sr old fr tr b i j hc hi hj
  case arr.int.int l i j => exact rangeWith_sat_arr sr old fr tr l i j hc hi hj

/-- FULL statement (finding rev-range-wrap repaired): f_range of the code that exists (all four `<` combinations) on
    strings, buffers and arrays returns the reference range for ALL int64 bounds -/
theorem range_agrees (fr tr : Bool) (c i j : Value R) (hc : SizeOk c) (hi : VI64 i) (hj : VI64 j) :
    LpcOps.range Quirks.real Spec.oldRange fr tr c i j = Spec.range fr tr c i j := by
  have h : LpcOps.revSub Quirks.real = NV.Gen.C03.rangeFromEnd := by
    funext a b; simp [LpcOps.revSub, Quirks.real]
  unfold LpcOps.range
  rw [h, show Quirks.real.strRangeRevNeg = false from rfl, rangeWith_sat _ _ _ _ _ _ _ hc hi hj,
      rangeWith_exact_agrees _ _ _ _ _ hc]

theorem range_agrees_repaired (fr tr : Bool) (c i j : Value R) (hc : SizeOk c) (hi : VI64 i) (hj : VI64 j) :
    LpcOps.range Quirks.none Spec.oldRange fr tr c i j = Spec.range fr tr c i j := by
  have h : LpcOps.revSub Quirks.none = NV.Gen.C03.rangeFromEnd := by
    funext a b; simp [LpcOps.revSub, Quirks.none]
  unfold LpcOps.range
  rw [h, show Quirks.none.strRangeRevNeg = false from rfl, rangeWith_sat _ _ _ _ _ _ _ hc hi hj,
      rangeWith_exact_agrees _ _ _ _ _ hc]

example : LpcOps.range (R := Nat) Quirks.real true true false (.arr [.int 10]) (.int (-(2 ^ 63))) (.int 5) = .ok (.arr []) := by
  simp [LpcOps.range, LpcOps.rangeWith, LpcOps.revSub, Quirks.real, NV.Gen.C03.rangeFromEnd, NV.Gen.C03.w64, LpcOps.sliceArray, wrap32]

theorem drop_take_all {α} (l : List α) (a a' n : Nat) (ha : a = a') (h : l.length - a ≤ n) :
    l.drop a = (l.drop a').take n := by
  subst ha
  rw [List.take_of_length_le (by simp; omega)]

theorem old_clamp (old : Bool) (p len : Int) :
    (if old = true then if p < 0 then (if p + len < 0 then 0 else p + len) else p else if p < 0 then 0 else p)
      = (if (if (old && decide (p < 0)) = true then p + len else p) < 0 then 0
         else (if (old && decide (p < 0)) = true then p + len else p)) := by
  cases old <;> simp <;> (repeat' split) <;> omega

theorem rangePos_one (old : Bool) (len : Int) (h : 0 ≤ len) : Spec.rangePos old len true 1 = len - 1 := by
  unfold Spec.rangePos
  cases old <;> simp
  intro h'; omega

theorem suffix_eq_slice {α} (l : List α) (f : Int) :
    (if (if f < 0 then 0 else f) ≥ (l.length : Int) then [] else l.drop (if f < 0 then 0 else f).toNat)
      = Spec.slice l f ((l.length : Int) - 1) := by
  unfold Spec.slice
  simp only
  (repeat' split) <;> (try rfl) <;> (try (exfalso; omega))
  all_goals (apply drop_take_all <;> omega)

theorem suffix_eq_slice_buf {α} (l : List α) (f : Int) :
    l.drop (if (if f < 0 then 0 else f) > (l.length : Int) then (l.length : Int) else (if f < 0 then 0 else f)).toNat
      = Spec.slice l f ((l.length : Int) - 1) := by
  unfold Spec.slice
  simp only
  (repeat' split) <;> (try (exfalso; omega))
  all_goals first
    | (apply drop_take_all <;> omega)
    | (rw [List.drop_eq_nil_of_le (by omega)])

/-- `c[i..]` / `c[<i..]` (f_extract_range) with exact `len - i` is the reference `c[i..<1]` -/
theorem extractWith_exact_agrees (fr : Bool) (c i : Value R) (hc : SizeOk c) :
    LpcOps.extractWith (fun a b => a - b) Spec.oldRange fr c i = Spec.extract fr c i := by
  cases c <;> cases i <;> (try rfl)
  case str.int s i =>
    simp only [LpcOps.extractWith, Spec.extract, Spec.range, Bool.false_eq_true, ↓reduceIte]
    rw [old_clamp, rangePos_one _ _ (by omega), ← suffix_eq_slice]
    exact (apply_ite (fun x : List UInt8 => (Res.ok (Value.str x) : Res (Value R))) _ _ _).symm
  case buf.int b i =>
    simp only [LpcOps.extractWith, Spec.extract, Spec.range, Bool.false_eq_true, ↓reduceIte]
    rw [old_clamp, rangePos_one _ _ (by omega)]
    exact congrArg _ (congrArg _ (suffix_eq_slice_buf b _))
  case arr.int l i =>
    simp only [LpcOps.extractWith, Spec.extract, Spec.range, Bool.false_eq_true, ↓reduceIte]
    simp only [SizeOk] at hc
    rw [wrap32_id (by (repeat' split) <;> omega) (by (repeat' split) <;> omega),
        wrap32_id (by omega) (by omega)]
    apply congrArg; apply congrArg
    apply sliceArray_eq_slice
    · simp [Spec.rangePos]
    · simp [Spec.rangePos]; (repeat' split) <;> omega

theorem extractWith_sat (old fr : Bool) (c i : Value R) (hc : SizeOk c) (hi : VI64 i) :
    LpcOps.extractWith NV.Gen.C03.rangeFromEnd old fr c i = LpcOps.extractWith (fun a b => a - b) old fr c i := by
  cases c <;> cases i <;> (try rfl)
  case str.int s i =>
    simp only [SizeOk] at hc; simp only [VI64] at hi
    have ci := rangeFromEnd_cases (Int.natCast_nonneg s.length) hc hi
    unfold I64 at hi
    simp only [LpcOps.extractWith]
    generalize NV.Gen.C03.rangeFromEnd (s.length : Int) i = pi at ci ⊢
    cases fr <;> cases old <;>
      simp only [Bool.false_eq_true, if_false, if_true, ↓reduceIte] <;> (try rfl) <;>
      ((repeat' split) <;> first | rfl | (exfalso; omega) | (congr 3; omega))
  case buf.int b i =>
    simp only [SizeOk] at hc; simp only [VI64] at hi
    have ci := rangeFromEnd_cases (Int.natCast_nonneg b.length) hc hi
    unfold I64 at hi
    simp only [LpcOps.extractWith]
    generalize NV.Gen.C03.rangeFromEnd (b.length : Int) i = pi at ci ⊢
    apply congrArg; apply congrArg
    cases fr <;> cases old <;>
      simp only [Bool.false_eq_true, if_false, if_true, ↓reduceIte] <;> (try rfl) <;>
      (congr 1; apply congrArg; (repeat' split) <;> omega)
  case arr.int l i =>
    simp only [SizeOk] at hc; simp only [VI64] at hi
    have ci := rangeFromEnd_cases (Int.natCast_nonneg l.length) hc hi
    unfold I64 at hi
    simp only [LpcOps.extractWith]
    generalize NV.Gen.C03.rangeFromEnd (l.length : Int) i = pi at ci ⊢
    apply congrArg; apply congrArg
    cases fr <;> simp only [Bool.false_eq_true, if_false, if_true, ↓reduceIte] <;> (try rfl) <;>
      (apply sliceArray_congr _ _ rfl; apply congrArg; (repeat' split) <;> omega)

/-- FULL statement (finding rev-range-wrap repaired): f_extract_range of the code that exists = reference `c[i..<1]`
    for ALL int64 bounds -/
theorem extract_agrees (fr : Bool) (c i : Value R) (hc : SizeOk c) (hi : VI64 i) :
    LpcOps.extract Quirks.real Spec.oldRange fr c i = Spec.extract fr c i := by
  have h : LpcOps.revSub Quirks.real = NV.Gen.C03.rangeFromEnd := by
    funext a b; simp [LpcOps.revSub, Quirks.real]
  unfold LpcOps.extract
  rw [h, extractWith_sat _ _ _ _ hc hi, extractWith_exact_agrees _ _ _ hc]

theorem extract_agrees_repaired (fr : Bool) (c i : Value R) (hc : SizeOk c) (hi : VI64 i) :
    LpcOps.extract Quirks.none Spec.oldRange fr c i = Spec.extract fr c i := by
  have h : LpcOps.revSub Quirks.none = NV.Gen.C03.rangeFromEnd := by
    funext a b; simp [LpcOps.revSub, Quirks.none]
  unfold LpcOps.extract
  rw [h, extractWith_sat _ _ _ _ hc hi, extractWith_exact_agrees _ _ _ hc]


theorem range_lvalue_agrees {α} (l v : List α) (fr tr : Bool) (i j : Int) (hs : (l.length : Int) + 1 < 2 ^ 31) :
    LpcOps.spliceC l fr tr i j v = Spec.splice l l.length fr tr i j v := by
  unfold LpcOps.spliceC Spec.splice
  cases fr <;> cases tr <;> simp only [Bool.false_eq_true, if_false, if_true, ↓reduceIte] <;>
    (repeat' split) <;> (try rfl) <;> (try (exfalso; (try simp only [wrap32] at *); omega))
  all_goals
    have hi : wrap32 i = i := wrap32_id (by omega) (by omega)
    have hj : wrap32 j = j := wrap32_id (by omega) (by omega)
    simp only [hi, hj]
    try (congr 3; omega)


/-- push_lvalue_range + copy_lvalue_range / assign_lvalue_range on values: `x[i..j] = v` (all `<` combinations) for
    strings, buffers and arrays and every int64 bound -/
theorem storeRange_agrees (fr tr : Bool) (c i j v : Value R)
    (hc : match c with | .arr l => (l.length : Int) + 1 < 2 ^ 31 | .str s => (s.length : Int) + 1 < 2 ^ 31
                       | .buf b => (b.length : Int) + 1 < 2 ^ 31 | _ => True) :
    LpcOps.storeRange fr tr c i j v = Spec.storeRange fr tr c i j v := by
  cases c <;> cases i <;> cases j <;> cases v <;> simp only [LpcOps.storeRange, Spec.storeRange] <;>
    (try rfl) <;> rw [range_lvalue_agrees _ _ _ _ _ _ hc]

end NV.C03
