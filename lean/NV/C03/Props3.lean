/-
C03 — property theorems, part 3: stores through index lvalues, range lvalues, ranges (`c[i..j]`, all `<`
combinations, `c[i..]`) on strings, buffers and arrays.
-/
import NV.C03.Props2

namespace NV.C03
variable {R : Type}

theorem lvset_agrees_repaired (F : FloatOps R) (rev : Bool) (c i v : Value R) :
    LpcOps.lvSet F Quirks.none rev c i v = Spec.lvSet F rev c i v := by
  cases rev <;> cases c <;> cases i <;> cases v <;>
    simp only [LpcOps.lvSet, Spec.lvSet, Quirks.none, Bool.false_and, Bool.false_eq_true, if_false, if_true, ↓reduceIte] <;>
    (try rfl) <;> (repeat' split) <;> first | rfl | (exfalso; omega) | simp_all

def NoBufZero (c v : Value R) : Prop :=
  match c, v with
  | .buf _, .int ch => Spec.lowByte ch ≠ 0
  | _, _ => True

theorem lvset_agrees_partial (F : FloatOps R) (rev : Bool) (c i v : Value R) (hz : NoBufZero c v) :
    LpcOps.lvSet F Quirks.real rev c i v = Spec.lvSet F rev c i v := by
  cases rev <;> cases c <;> cases i <;> cases v <;>
    simp only [LpcOps.lvSet, Spec.lvSet, Quirks.real, Bool.true_and, Bool.false_eq_true, if_false, if_true, ↓reduceIte] <;>
    (try rfl) <;> (try simp only [NoBufZero] at hz) <;> (repeat' split) <;> first | rfl | (exfalso; omega) | simp_all


theorem take_drop_eq {α} (l : List α) (a a' n m : Nat) (ha : a = a')
    (h : n = m ∨ (l.length - a ≤ n ∧ l.length - a ≤ m)) : (l.drop a).take n = (l.drop a').take m := by
  subst ha
  rcases h with h | ⟨h1, h2⟩
  · rw [h]
  · rw [List.take_of_length_le (by simp; omega), List.take_of_length_le (by simp; omega)]

/-- f_range's selection on strings / buffers is the reference slice once `from` is clamped at 0 -/
theorem cut_eq_slice {α} (l : List α) (f t : Int) :
    LpcOps.cut l (if f < 0 then 0 else f) t = Spec.slice l f t := by
  unfold LpcOps.cut Spec.slice
  simp only
  (repeat' split) <;> (try rfl) <;> (try (exfalso; omega))
  all_goals (apply take_drop_eq <;> omega)

theorem sliceArray_eq_slice {α} (l : List α) (f t f' t' : Int)
    (hf : f' = (if (if f < 0 then 0 else f) > (l.length : Int) then (l.length : Int) else (if f < 0 then 0 else f)))
    (ht : t' = (if (if t ≥ (l.length : Int) then (l.length : Int) - 1 else t) < -1 then -1 else (if t ≥ (l.length : Int) then (l.length : Int) - 1 else t))) :
    LpcOps.sliceArray l f' t' = Spec.slice l f t := by
  subst hf ht
  unfold LpcOps.sliceArray Spec.slice
  simp only
  (repeat' split) <;> (try rfl) <;> (try (exfalso; omega))
  all_goals (apply take_drop_eq <;> omega)



theorem rangePos_str (old : Bool) (len : Int) (rev : Bool) (x : Int) :
    (if rev = true then (if (old && decide (len - x < 0)) = true then len - x + len else len - x)
      else if (old && decide (x < 0)) = true then x + len else x) = Spec.rangePos old len rev x := by
  unfold Spec.rangePos
  cases rev <;> cases old <;> simp

theorem range_agrees_repaired (fr tr : Bool) (c i j : Value R) (hc : SizeOk c) :
    LpcOps.range Quirks.none Spec.oldRange fr tr c i j = Spec.range fr tr c i j := by
  cases c <;> cases i <;> cases j <;> (try rfl)
  case str.int.int s i j =>
    simp only [LpcOps.range, Spec.range, Quirks.none, Bool.false_eq_true, if_false, ↓reduceIte]
    rw [rangePos_str, rangePos_str, cut_eq_slice]
  case buf.int.int b i j =>
    simp only [LpcOps.range, Spec.range, Quirks.none, Bool.false_eq_true, if_false, ↓reduceIte]
    rw [← cut_eq_slice]
    unfold Spec.rangePos
    generalize Spec.oldRange = old
    congr 3
    cases old <;> cases fr <;> simp <;> (repeat' split) <;> omega
  case arr.int.int l i j =>
    simp only [LpcOps.range, Spec.range, Quirks.none, Bool.false_eq_true, if_false, ↓reduceIte]
    simp only [SizeOk] at hc
    rw [wrap32_id (by (repeat' split) <;> omega) (by (repeat' split) <;> omega),
        wrap32_id (by (repeat' split) <;> omega) (by (repeat' split) <;> omega)]
    apply congrArg; apply congrArg
    apply sliceArray_eq_slice
    · simp [Spec.rangePos]
    · simp [Spec.rangePos]

/-- operand region in which the two open findings on `<` range bounds (rev-range-wrap, str-range-rev-neg) do not
    apply: `size - i` does not overflow int64 and, for strings, does not land before the start -/
def RevOk (c : Value R) (rev : Bool) (x : Value R) : Prop :=
  match c, rev, x with
  | .str s, true, .int n => I64 ((s.length : Int) - n) ∧ 0 ≤ (s.length : Int) - n
  | .buf b, true, .int n => I64 ((b.length : Int) - n)
  | .arr l, true, .int n => I64 ((l.length : Int) - n)
  | _, _, _ => True

theorem range_quirks_irrelevant (old fr tr : Bool) (c i j : Value R) (hi : RevOk c fr i) (hj : RevOk c tr j) :
    LpcOps.range Quirks.real old fr tr c i j = LpcOps.range Quirks.none old fr tr c i j := by
  cases c <;> cases i <;> cases j <;> (try rfl)
  case str.int.int s i j =>
    cases fr <;> cases tr <;> simp only [RevOk] at hi hj <;>
      simp only [LpcOps.range, Quirks.real, Quirks.none, Bool.false_eq_true, ↓reduceIte]
    · have h : ¬ ((s.length : Int) - j < 0) := by omega
      simp [wrap_id hj.1, h]
    · have h : ¬ ((s.length : Int) - i < 0) := by omega
      simp [wrap_id hi.1, h]
    · have h : ¬ ((s.length : Int) - i < 0) := by omega
      have h' : ¬ ((s.length : Int) - j < 0) := by omega
      simp [wrap_id hi.1, wrap_id hj.1, h, h']
  case buf.int.int b i j =>
    cases fr <;> cases tr <;> simp only [RevOk] at hi hj <;>
      simp only [LpcOps.range, Quirks.real, Quirks.none, Bool.false_eq_true, ↓reduceIte] <;>
      simp [*, wrap_id]
  case arr.int.int l i j =>
    cases fr <;> cases tr <;> simp only [RevOk] at hi hj <;>
      simp only [LpcOps.range, Quirks.real, Quirks.none, Bool.false_eq_true, ↓reduceIte] <;>
      simp [*, wrap_id]

/-- f_range (all four `<` combinations) on strings, buffers and arrays returns the reference range for all
    int64 bounds outside the region of the two open findings -/
theorem range_agrees_partial (fr tr : Bool) (c i j : Value R) (hc : SizeOk c) (hi : RevOk c fr i) (hj : RevOk c tr j) :
    LpcOps.range Quirks.real Spec.oldRange fr tr c i j = Spec.range fr tr c i j := by
  rw [range_quirks_irrelevant _ fr tr c i j hi hj, range_agrees_repaired fr tr c i j hc]

theorem drop_take_all {α} (l : List α) (a a' n : Nat) (ha : a = a') (h : l.length - a ≤ n) :
    l.drop a = (l.drop a').take n := by
  subst ha
  rw [List.take_of_length_le (by simp; omega)]

theorem old_clamp (old : Bool) (p len : Int) :
    (if old = true then if p < 0 then (if p + len < 0 then 0 else p + len) else p else if p < 0 then 0 else p)
      = (if (if (old && decide (p < 0)) = true then p + len else p) < 0 then 0
         else (if (old && decide (p < 0)) = true then p + len else p)) := by
  cases old <;> simp <;> (repeat' split) <;> omega

theorem rangePos_one (old : Bool) (len : Int) (h : 0 ≤ len) : Spec.rangePos old len true 1 = len - 1 := by
  unfold Spec.rangePos
  cases old <;> simp
  intro h'; omega

theorem suffix_eq_slice {α} (l : List α) (f : Int) :
    (if (if f < 0 then 0 else f) ≥ (l.length : Int) then [] else l.drop (if f < 0 then 0 else f).toNat)
      = Spec.slice l f ((l.length : Int) - 1) := by
  unfold Spec.slice
  simp only
  (repeat' split) <;> (try rfl) <;> (try (exfalso; omega))
  all_goals (apply drop_take_all <;> omega)

theorem suffix_eq_slice_buf {α} (l : List α) (f : Int) :
    l.drop (if (if f < 0 then 0 else f) > (l.length : Int) then (l.length : Int) else (if f < 0 then 0 else f)).toNat
      = Spec.slice l f ((l.length : Int) - 1) := by
  unfold Spec.slice
  simp only
  (repeat' split) <;> (try (exfalso; omega))
  all_goals first
    | (apply drop_take_all <;> omega)
    | (rw [List.drop_eq_nil_of_le (by omega)])

/-- `c[i..]` / `c[<i..]` (f_extract_range) is the reference `c[i..<1]` on strings, buffers and arrays -/
theorem extract_agrees_repaired (fr : Bool) (c i : Value R) (hc : SizeOk c) :
    LpcOps.extract Quirks.none Spec.oldRange fr c i = Spec.extract fr c i := by
  cases c <;> cases i <;> (try rfl)
  case str.int s i =>
    simp only [LpcOps.extract, Spec.extract, Spec.range, Quirks.none, Bool.false_eq_true, ↓reduceIte]
    rw [old_clamp, rangePos_one _ _ (by omega), ← suffix_eq_slice]
    exact (apply_ite (fun x : List UInt8 => (Res.ok (Value.str x) : Res (Value R))) _ _ _).symm
  case buf.int b i =>
    simp only [LpcOps.extract, Spec.extract, Spec.range, Quirks.none, Bool.false_eq_true, ↓reduceIte]
    rw [old_clamp, rangePos_one _ _ (by omega)]
    exact congrArg _ (congrArg _ (suffix_eq_slice_buf b _))
  case arr.int l i =>
    simp only [LpcOps.extract, Spec.extract, Spec.range, Quirks.none, Bool.false_eq_true, ↓reduceIte]
    simp only [SizeOk] at hc
    rw [wrap32_id (by (repeat' split) <;> omega) (by (repeat' split) <;> omega),
        wrap32_id (by omega) (by omega)]
    apply congrArg; apply congrArg
    apply sliceArray_eq_slice
    · simp [Spec.rangePos]
    · simp [Spec.rangePos]; (repeat' split) <;> omega


theorem range_lvalue_agrees {α} (l v : List α) (fr tr : Bool) (i j : Int) (hs : (l.length : Int) + 1 < 2 ^ 31) :
    LpcOps.spliceC l fr tr i j v = Spec.splice l l.length fr tr i j v := by
  unfold LpcOps.spliceC Spec.splice
  cases fr <;> cases tr <;> simp only [Bool.false_eq_true, if_false, if_true, ↓reduceIte] <;>
    (repeat' split) <;> (try rfl) <;> (try (exfalso; (try simp only [wrap32] at *); omega))
  all_goals
    have hi : wrap32 i = i := wrap32_id (by omega) (by omega)
    have hj : wrap32 j = j := wrap32_id (by omega) (by omega)
    simp only [hi, hj]
    try (congr 3; omega)


/-- push_lvalue_range + copy_lvalue_range / assign_lvalue_range on values: `x[i..j] = v` (all `<` combinations) for
    strings, buffers and arrays and every int64 bound -/
theorem storeRange_agrees (fr tr : Bool) (c i j v : Value R)
    (hc : match c with | .arr l => (l.length : Int) + 1 < 2 ^ 31 | .str s => (s.length : Int) + 1 < 2 ^ 31
                       | .buf b => (b.length : Int) + 1 < 2 ^ 31 | _ => True) :
    LpcOps.storeRange fr tr c i j v = Spec.storeRange fr tr c i j v := by
  cases c <;> cases i <;> cases j <;> cases v <;> simp only [LpcOps.storeRange, Spec.storeRange] <;>
    (try rfl) <;> rw [range_lvalue_agrees _ _ _ _ _ _ hc]

/-- `size - i` of a `<i` bound does not overflow int64 -/
def ExtractOk (c : Value R) (fr : Bool) (i : Value R) : Prop :=
  match c, fr, i with
  | .str s, true, .int n => I64 ((s.length : Int) - n)
  | .buf b, true, .int n => I64 ((b.length : Int) - n)
  | .arr l, true, .int n => I64 ((l.length : Int) - n)
  | _, _, _ => True

theorem extract_quirks_irrelevant (old fr : Bool) (c i : Value R)
    (hi : ExtractOk c fr i) :
    LpcOps.extract Quirks.real old fr c i = LpcOps.extract Quirks.none old fr c i := by
  cases c <;> cases i <;> (try rfl) <;> cases fr <;>
    simp only [LpcOps.extract, Quirks.real, Quirks.none, Bool.false_eq_true, ↓reduceIte] <;>
    (simp only [ExtractOk] at hi; simp [wrap_id hi])

/-- f_extract_range agrees with the reference for all int64 bounds outside the region of finding rev-range-wrap -/
theorem extract_agrees_partial (fr : Bool) (c i : Value R) (hc : SizeOk c)
    (hi : ExtractOk c fr i) :
    LpcOps.extract Quirks.real Spec.oldRange fr c i = Spec.extract fr c i := by
  rw [extract_quirks_irrelevant _ fr c i hi, extract_agrees_repaired fr c i hc]

example : RevOk (R := Nat) (.str [1, 2, 3]) true (.int 2) := by
  simp only [RevOk, I64]; simp

end NV.C03
