/-
C03 — bridging lemmas for the guards regenerated from src/interpret.c (translator audit): the bounds tests of F_INDEX as
they stand in the source ARE the tests of `LpcOps.index` (on which `index_agrees` is proved).  Changing a comparison
operator or an operand in the C line changes `NV/Gen/C03.lean` and breaks the corresponding lemma here.
-/
import NV.C03.Props8

namespace NV.C03

variable {R : Type}

/-- F_INDEX on a buffer raises exactly when the regenerated guard holds -/
theorem index_guard_buf (F : FloatOps R) (b : List UInt8) (n : Int) :
    LpcOps.index F (.buf b) (.int n) =
      if NV.Gen.C03.indexGuardBuf n b.length = true then .err else .ok (Spec.byteVal (b.getD (wrap32 n).toNat 0)) := by
  simp only [LpcOps.index, NV.Gen.C03.indexGuardBuf, Bool.or_eq_true, decide_eq_true_eq]

/-- F_INDEX on a string -/
theorem index_guard_str (F : FloatOps R) (s : List UInt8) (n : Int) :
    LpcOps.index F (.str s) (.int n) =
      if NV.Gen.C03.indexGuardStr n s.length = true then .err else .ok (Spec.byteVal (s.getD (wrap32 n).toNat 0)) := by
  simp only [LpcOps.index, NV.Gen.C03.indexGuardStr, Bool.or_eq_true, decide_eq_true_eq]

/-- F_INDEX on an array: the two tests in the order of the source -/
theorem index_guard_arr (F : FloatOps R) (l : List (Value R)) (n : Int) :
    LpcOps.index F (.arr l) (.int n) =
      if NV.Gen.C03.indexGuardArrNeg n l.length = true then .err
      else if NV.Gen.C03.indexGuardArrHigh n l.length = true then .err
      else .ok (l.getD (wrap32 n).toNat (.int 0)) := by
  simp only [LpcOps.index, NV.Gen.C03.indexGuardArrNeg, NV.Gen.C03.indexGuardArrHigh, decide_eq_true_eq]

end NV.C03
