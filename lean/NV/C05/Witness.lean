/-
C05 — Lean-checked witnesses: what the two repaired defects looked like on the model (small instances, evaluated by
`simp` with the model's definitions), and why the side conditions / explicit crash outcome are needed.
-/
import NV.C05.Model
import NV.C05.Props

namespace NV.C05

local macro "evalm" : tactic => `(tactic|
  simp [execCore, exec, execOp, saveContext, pushFrame, tick, raise, raiseInner, throwVal, catchable, resetGuards,
    runHandler, runHandlerN, tickOr, pushVals, longjmp, thenTick, catchFinish, safeFinish, callFinish, leaveCall, safeCtx,
    restoreContext, popFrame, popN, popStack, afterCatch, popContext, limitBits, handlerRegs, masterVal, enterCall,
    adjustArgs, framesOf, hasReturnTick, depthCheck, setRegister, topBody, topFinish, tmpFinish, loadFinish, dhookFinish,
    hbOffStep, hbFinish, verbFinish, vitalFinish, runSlotHandler, fixNamesId, dropTop, handlerFinish])

def okInstalled : Res → Option (List String)
  | .ok m => some m.installed
  | _ => none

def okDepth : Res → Option (Nat × Nat × Nat)     -- (values, frames, contexts) after a completed construct
  | .ok m => some (m.vs.length, m.cs.length, m.ctxs.length)
  | _ => none

def isCrash : Res → Bool
  | .crash _ _ => true
  | _ => false

/-- input_to as it was before `fix: input_to()/get_char() validate the callback …`: set_call first, error after -/
def preFixInputTo : InstallSite := { name := "input_to", failMsg := "nf", beforeLastError := true }
def fixedInputTo : InstallSite := { name := "input_to", failMsg := "nf", beforeLastError := false }

/-- the defect: `catch(input_to("no_such_fn"))` completes, and the half-installed sentence is still there -/
theorem prefix_input_to_leaves_sentence :
    okInstalled (execCore (.catch_ (.cons (.install preFixInputTo true) .nil)) {}) = some ["input_to"] := by
  simp [okInstalled, preFixInputTo]; evalm

/-- the repaired order: nothing is installed -/
theorem fixed_input_to_leaves_nothing :
    okInstalled (execCore (.catch_ (.cons (.install fixedInputTo true) .nil)) {}) = some [] := by
  simp [okInstalled, fixedInputTo]; evalm

/-- the state in which an error arrives inside a master function that was safe_apply'd with two arguments but
    declares none (they were dropped on entry): the value stack is empty, one frame, one context -/
def surplusErr : M :=
  { vs := [], cs := [Frame.mk FK.function {}], ctxs := [Ctx.mk 2 0 0 0 0 0] }

def leakErr : M :=
  { vs := [Slot.val, Slot.val], cs := [Frame.mk FK.function {}], ctxs := [Ctx.mk 1 0 0 0 0 0] }

/-- the defect repaired by `fix: safe_apply() removes its arguments …`: with the context as saved (save_sp counts
    the two arguments) restore_context computes a negative pop count — the crash outcome -/
theorem prefix_safe_apply_surplus_crashes :
    isCrash (safeFinish { saveSp := 2, saveCsp := 0, saveCg := 0 } [] 0 (.err surplusErr)) = true := by
  simp [isCrash, surplusErr]; evalm

/-- the same state with the repaired context (`save_sp = sp - num_arg`): recovery completes on empty stacks -/
theorem fixed_safe_apply_surplus_recovers :
    okDepth (safeFinish (safeCtx 2 { saveSp := 2, saveCsp := 0, saveCg := 0 }) [] 0 (.err surplusErr)) = some (0, 0, 0) := by
  simp [okDepth, surplusErr]; evalm

/-- and the leak: one argument, one declared, error in the callee — as saved, the argument stays on the stack -/
theorem prefix_safe_apply_leaks_argument :
    okDepth (safeFinish (Ctx.mk 1 0 0 0 0 0) [] 1 (.err leakErr)) = some (1, 0, 0) := by
  simp [okDepth, leakErr]; evalm

/-- end to end through the model's (repaired) safe_apply: two arguments, none declared, the callee raises -/
theorem fixed_safe_apply_end_to_end :
    okDepth (execCore (.safeApply 2 0 (.cons (.raise "*boom") .nil)) {}) = some (0, 0, 0) := by
  simp [okDepth]; evalm

/-- the explicit crash outcome: `pop_n_elems (sp - save_sp)` with sp below save_sp -/
theorem negative_pop_is_a_crash :
    isCrash (restoreContext { saveSp := 2, saveCsp := 0, saveCg := 0 } { vs := [Slot.val] }) = true := by
  simp [isCrash]; evalm

/-- why the all-registers clause of `restore_is_inverse` needs its hypothesis: when the first frame pushed after the
    save holds other register values (a register was changed between the save and the push), those are what
    `restore_context` yields -/
theorem changed_register_is_not_restored :
    ∃ m', restoreContext (ctxOf {}) { cs := [Frame.mk FK.function { co := 9 }], r := { co := 3 } } = .ok m' ∧ m'.r.co = 9 :=
  ⟨_, rfl, rfl⟩

def errChain : Res → Option Nat
  | .err m => some m.ctxs.length
  | _ => none

/-- the control stack is full (2 of 2 frames) and one error context exists -/
def fullStack : M :=
  { maxDepth := 2, cs := [Frame.mk FK.function {}, Frame.mk FK.function {}], ctxs := [Ctx.mk 0 0 0 0 0 0] }

/-- a catch placed exactly where save_context refuses: the error "*Can't catch too deep recursion" leaves with the
    chain of one context it found — nothing was linked (a seeded change that linked before the test left 2 / a
    dangling head) -/
theorem catch_at_limit_keeps_chain :
    errChain (execCore (.catch_ (.cons (.say "x") .nil)) fullStack) = some 1 := by
  simp [errChain, fullStack]; evalm

/-- a safe apply placed there completes without applying anything: stacks and chain as before -/
theorem safe_apply_at_limit_keeps_chain :
    okDepth (execCore (.safeApply 1 1 (.cons (.say "x") .nil)) fullStack) = some (0, 2, 1) := by
  simp [okDepth, fullStack]; evalm

def errLoadDepth : Res → Option Int
  | .err m => some m.loadDepth
  | _ => none

/-- `throw()` goes straight to longjmp without `error_handler`: unlike an error, a thrown value caught by a catch
    does NOT reset the load-depth guard (observation recorded in notes/C05.md) -/
def inCatchLoading : M :=
  { loadDepth := 3, inMudlibHandler := true, cs := [Frame.mk FK.catch_ {}], ctxs := [Ctx.mk 0 0 0 0 0 0] }

theorem throw_does_not_reset_guards : errLoadDepth (throwVal "t" inCatchLoading) = some 3 := by
  simp [errLoadDepth, inCatchLoading]; evalm

def okGuards : Res → Option (Int × Val)
  | .ok m => some (m.loadDepth, m.restrictDestruct)
  | _ => none

/-- the defect repaired by `fix: error contexts save and restore the load-depth and destruct-restriction guards`, on
    the model of the repaired code: `catch(load_object(X))` with a `throw()` in X's create() — the thrown value skips
    `error_handler` (guards untouched, see above) but `restore_context` puts back the values of the catch point -/
theorem caught_throw_in_load_restores_guards :
    okGuards (execCore (.catch_ (.cons (.load (.cons (.throw_ "t") .nil)) .nil)) {}) = some (0, 0) := by
  simp [okGuards]; evalm

/-- a catch inside create() (load in progress, depth 1) that catches an error continues at depth 1, so the
    enclosing load ends at 0 — before the repair the counter was cleared by error_handler and ended at -1 -/
theorem catch_in_create_keeps_depth :
    okGuards (execCore (.load (.cons (.catch_ (.cons (.raise "*e") .nil)) .nil)) {}) = some (0, 0) := by
  simp [okGuards]; evalm

/-- a throw inside a move_or_destruct() hook caught around destruct(): the restriction is that of the catch point -/
theorem caught_throw_in_dhook_restores_guards :
    okGuards (execCore (.catch_ (.cons (.dhook 7 (.cons (.throw_ "t") .nil)) .nil)) {}) = some (0, 0) := by
  simp [okGuards]; evalm

theorem error_resets_guards_example : errLoadDepth (raise "*e" inCatchLoading) = some 0 := by
  simp [errLoadDepth, inCatchLoading]; evalm

/-- destruct(master()) whose reload fails in create() of the new copy, inside a catch: the fix_object_names slot is run by the
    unwinding and the master carries its name again; the load-depth guard is back as well -/
def vitalBoom : Res :=
  execCore (.catch_ (Prog.ofList [.tmp 1 (Prog.ofList [.vital true (Prog.ofList [.load (Prog.ofList [.raise "*boom"])])])])) {}

theorem failed_master_reload_restores_name :
    (match vitalBoom with | .ok m => some (m.masterName, m.simulName, m.loadDepth, m.vs.length, m.ran) | _ => none) =
      some (1, 2, 0, 0, [fixNamesId]) := by
  simp [vitalBoom, Prog.ofList]; evalm

/-- a destruct of the master from inside its own reload is refused before anything is recorded; both slots … the one slot
    restores the name -/
def vitalNested : Res :=
  execCore (.catch_ (Prog.ofList [.vital true (Prog.ofList [.vital true (Prog.ofList [.say "never"])])])) {}

theorem nested_master_destruct_keeps_name :
    (match vitalNested with | .ok m => some (m.masterName, m.out.length) | _ => none) = some (1, 1) := by
  simp [vitalNested, Prog.ofList]; evalm

/-- sort_array inside the comparison callback of a sort_array; the inner callback raises an error that the outer callback
    catches: the inner context is unlinked by its slot (the list holds the outer context only: the trampoline's global points
    at the outer sort again), and when the outer sort returns the list is empty -/
def nestedSort (inner : Prog) : Res :=
  execCore (.handler 7 (Prog.ofList [.cb .local_ 2 2 (Prog.ofList [.catch_ (Prog.ofList [.handler 8 (Prog.ofList [.cb .local_ 2 2 inner])]),
    .say "in-outer-callback"])])) { cs := [Frame.mk FK.function {}], ctxs := [Ctx.mk 0 0 0 0 0 0] }

theorem nested_sort_error_unlinks_inner_context :
    (match nestedSort (Prog.ofList [.raise "*boom"]) with | .ok m => some (m.efunCtx, m.ran, m.vs.length) | _ => none) = some ([], [9], 0) := by
  simp [nestedSort, Prog.ofList]; evalm

/-- … seen from inside: right after the catch the list holds exactly the outer context -/
def nestedSortInside : Res :=
  exec (Prog.ofList [.catch_ (Prog.ofList [.handler 8 (Prog.ofList [.cb .local_ 2 2 (Prog.ofList [.raise "*boom"])])])])
    { vs := [Slot.handler 8], efunCtx := [8], cs := [Frame.mk FK.function {}], ctxs := [Ctx.mk 0 0 0 0 0 0] }

theorem after_caught_inner_error_the_outer_context_is_current :
    (match nestedSortInside with | .ok m => some m.efunCtx | _ => none) = some [8] := by
  simp [nestedSortInside, Prog.ofList]; evalm

/-- a heart beat that raises an error: recovered by the backend's own context (both stacks empty at the next poll point),
    and error_handler has switched the heart beat of that object off -/
def hbBoom : TopResult := runBackend (Prog.ofList [.heartBeat 5 0 (Prog.ofList [.raise "*boom"])]) 0 {}

theorem heart_beat_error_switches_it_off :
    hbBoom.result = "fault-top" ∧ hbBoom.after.hbOff = [5] ∧ hbBoom.after.hbCur = 0 ∧ hbBoom.after.vs.length = 0 ∧
    hbBoom.after.cs.length = 0 := by
  simp [hbBoom, runBackend, clearState, Prog.ofList]; evalm

/-- … and an error inside a safe apply made from heart_beat() switches it off as well, although heart_beat() goes on
    (error_handler does not look at which context receives the error) -/
def hbSafeBoom : TopResult :=
  runBackend (Prog.ofList [.heartBeat 5 0 (Prog.ofList [.safeApply 0 0 (Prog.ofList [.raise "*boom"]), .say "after"])]) 0 {}

theorem safe_apply_error_in_heart_beat_switches_it_off :
    hbSafeBoom.result = "done be" ∧ hbSafeBoom.after.hbOff = [5] := by
  simp [hbSafeBoom, runBackend, clearState, Prog.ofList]; evalm

end NV.C05
