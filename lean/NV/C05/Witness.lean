/-
C05 — Lean-checked witnesses of why the explicit crash outcome and the side conditions are needed.
(The exec-level witnesses of the two repaired defects are replayed on the real driver instead: see notes/C05.md —
evaluating `exec` on concrete programs inside the kernel proved too slow to keep the build in seconds.)
-/
import NV.C05.Model
import NV.C05.Props

namespace NV.C05

/-- the defect repaired by `fix: safe_apply() removes its arguments ...`: with the stack pointer below the saved one
    `restore_context` computes a negative count — the model's explicit crash outcome -/
theorem negative_pop_is_a_crash :
    ∃ w m', restoreContext { saveSp := 2, saveCsp := 0, saveCg := 0 } { vs := [Slot.val] } = .crash w m' :=
  ⟨_, _, rfl⟩

/-- why the all-registers clause of `restore_is_inverse` needs its hypothesis: when the first frame pushed after the
    save holds other register values (a register was changed between the save and the push), those are what
    `restore_context` yields -/
theorem changed_register_is_not_restored :
    ∃ m', restoreContext (ctxOf {}) { cs := [Frame.mk FK.function { co := 9 }], r := { co := 3 } } = .ok m' ∧ m'.r.co = 9 :=
  ⟨_, rfl, rfl⟩

end NV.C05
