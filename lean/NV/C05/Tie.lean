/-
C05 — bridging lemmas between the model and the statement shapes regenerated from the source on every run
(`NV/Gen/C05.lean`, written by `gen_extra` of props/c05.py from src/error_context.c, src/apply.c, src/frame.c,
lib/lpc/functional.c).  A changed C line changes the generated definition and breaks the lemma that mentions it
(obligation broken), independently of the correspondence run.
-/
import NV.Gen.C05
import NV.C05.Model
import NV.C05.Exec
import NV.C05.Lemmas

namespace NV.C05

/-- save_context stores `sp` and `csp` unchanged: the model's context is built from the regenerated expressions -/
theorem tie_save_context (m : M) :
    (ctxOf m).saveSp = Gen.C05.saveContextSaveSp m.vs.length ∧ (ctxOf m).saveCsp = Gen.C05.saveContextSaveCsp m.cs.length :=
  ⟨rfl, rfl⟩

/-- safe_apply / safe_call_function_pointer move their recovery point below the arguments: `safeCtx` is that expression -/
theorem tie_safe_recovery_point (e : Ctx) (n : Nat) :
    (safeCtx n e).saveSp = Gen.C05.safeApplySaveSp e.saveSp n ∧ (safeCtx n e).saveSp = Gen.C05.safeFpSaveSp e.saveSp n :=
  ⟨rfl, rfl⟩

/-- restore_context truncates to `save_csp + 1` and pops ONE frame (the model's `drop … (saveCsp + 1)` + one `popFrame`) -/
theorem tie_restore_offset : Gen.C05.restoreCspOffset = 1 ∧ Gen.C05.restorePopFrameCalls = 1 := by decide

/-- both depth tests compare with `&control_stack[MaxCallDepth - 1]` (the model: `cs.length ≥ maxDepth`) -/
theorem tie_depth_tests : Gen.C05.saveContextDepthOffset = 1 ∧ Gen.C05.pushDepthOffset = 1 := by decide

/-- statement orders / presences the model relies on -/
theorem tie_statement_shapes :
    Gen.C05.saveContextRefusesBeforeLinking = true ∧ Gen.C05.saveContextSavesGuards = true ∧
    Gen.C05.restorePopsUnconditionally = true ∧ Gen.C05.restoreRestoresCgAndGuards = true ∧
    Gen.C05.popContextRelinksAndClears = true ∧ Gen.C05.errorHandlerResetsGuardsFirst = true ∧
    Gen.C05.safeApplyPopsArgsAfterRestore = false ∧ Gen.C05.safeFpPopsArgsAfterRestore = false ∧
    Gen.C05.catchKeepsLimitBit = true ∧ Gen.C05.catchPushesFrameRightAfterSave = true := by decide

/-- the frame-kind codes printed in shapes and tested by `catchable` are the regenerated ones -/
theorem tie_frame_codes :
    FK.code .function = Gen.C05.frameFunction ∧ FK.code .funp = Gen.C05.frameFunp ∧
    FK.code .catch_ = Gen.C05.frameCatch ∧ FK.code .fake = Gen.C05.frameFake ∧
    Gen.C05.frameCatch &&& Gen.C05.frameMask = Gen.C05.frameCatch := by decide

/-! ### which global variables an error unwinding has to put back (regenerated lists, `gen_globals` of props/c05.py) -/

/-- every field of `error_context_t` except the jmp_buf itself is written by save_context -/
theorem tie_context_fields_saved : ∀ f ∈ Gen.C05.ctxFields, f = "context" ∨ f ∈ Gen.C05.ctxSaved := by decide

/-- **every field saved is restored**: each field save_context writes is read back by restore_context, or — the link to the
    enclosing context — by pop_context -/
theorem tie_every_field_saved_is_restored :
    ∀ f ∈ Gen.C05.ctxSaved, f ∈ Gen.C05.ctxRestored ∨ f ∈ Gen.C05.ctxPopped := by decide

/-- the global variables an error context holds are exactly the ones the model's `Ctx` (+ the chain) holds:
    `saveCg, (chain), saveCsp, saveVerb, saveLd, saveRd, saveSp` -/
theorem tie_context_globals :
    Gen.C05.ctxHolds.map (·.2) =
      ["command_giver", "current_error_context", "csp", "last_verb", "num_objects_this_thread", "restrict_destruct", "sp"] := by decide

/-- the registers a control-stack frame saves are exactly the fields of the model's `Saved`
    (`callerType, co, prevOb, fp, prog, pc, fio, vio`; `framekind` is the frame's own tag) -/
theorem tie_frame_registers :
    (Gen.C05.frameSaved.map (·.2)).filter (· ∈ Gen.C05.coreGlobals) =
      ["caller_type", "current_object", "previous_ob", "fp", "current_prog", "pc", "function_index_offset", "variable_index_offset"] := by decide

/-- every register push_control_stack saves is restored by pop_control_stack from the same frame field -/
theorem tie_frame_saved_is_restored :
    ∀ p ∈ Gen.C05.frameSaved, p.2 ∈ Gen.C05.coreGlobals → (p.2, p.1) ∈ Gen.C05.frameRestored := by decide

/-- how each global variable of the interpreter core is dealt with when an error unwinds -/
inductive GClass
  | frame        -- saved in every control-stack frame, restored by pop_control_stack (restore_context pops the first frame)
  | context      -- saved in the error context, restored by restore_context / pop_context
  | handler      -- put back by error_handler itself before the longjmp (or by the receiving construct: do_catch, pop_context)
  | loop         -- cleared by the resume point (top of the backend loop)
  | balanced     -- pushed and popped around a call that cannot longjmp past it (`tie_command_giver_stack`)
  | scratch      -- written before every use, never read across an evaluation
  | fixed        -- set up at start-up / a table / a statistic; not evaluation state
  deriving DecidableEq, Repr

def classOf (g : String) : Option GClass :=
  if g ∈ ["caller_type", "current_object", "previous_ob", "fp", "current_prog", "pc", "function_index_offset",
          "variable_index_offset"] then some .frame
  else if g ∈ ["command_giver", "current_error_context", "csp", "sp", "num_objects_this_thread", "restrict_destruct",
               "last_verb"] then some .context
  else if g ∈ ["in_error", "in_mudlib_error_handler", "mudlib_error_handler_context", "handler_limit_state", "error_state",
               "catch_value"] then some .handler
  else if g ∈ ["current_interactive"] then some .loop
  else if g ∈ ["cgsp", "command_giver_stack", "command_giver_held"] then some .balanced
  else if g ∈ ["num_varargs", "st_num_arg", "call_origin", "apply_ret_value", "global_lvalue_byte", "global_lvalue_range",
               "global_lvalue_range_sv", "lvalue_byte_in_buffer", "illegal_sentence_action", "inherit_file"] then some .scratch
  else if g ∈ ["apply_low_cache_hits", "apply_low_call_others", "apply_low_collisions", "apply_low_slots_used", "cache",
               "const0", "const0u", "const1", "control_stack", "efun_table", "end_of_stack", "start_of_stack", "master_ob",
               "obj_list", "obj_list_destruct", "proceeding_fatal_error", "saved_master_name", "saved_simul_name",
               "type_names"] then some .fixed
  else none

/-- **no unclassified interpreter global**: a global variable added to interpret.c / frame.c / stack.c / error_context.c /
    apply.c / simulate.c has to be looked at (is it saved? reset?) before this obligation holds again -/
theorem tie_all_globals_classified : ∀ g ∈ Gen.C05.coreGlobals, (classOf g).isSome = true := by decide

/-- every global classified `frame` really is saved by push_control_stack, every one classified `context` by save_context -/
theorem tie_classes_match_source :
    (∀ g ∈ Gen.C05.coreGlobals, classOf g = some .frame → g ∈ Gen.C05.frameSaved.map (·.2)) ∧
    (∀ g ∈ Gen.C05.coreGlobals, classOf g = some .context → g ∈ Gen.C05.ctxHolds.map (·.2)) := by decide

/-- the command_giver save stack has one user and nothing between its push and its pop can longjmp -/
theorem tie_command_giver_stack : Gen.C05.cgStackUsers = 1 ∧ Gen.C05.cgStackUnsafeCalls = [] := by decide

/-- the efuns the generator drives with a `handler` slot (and destruct_object of a vital object) still leave a
    T_ERROR_HANDLER slot across their callbacks (inventory `Gen.C05.callbackSites`, regenerated from the source) -/
theorem tie_callback_handlers :
    ∀ f ∈ ["f_unique_array", "f_sort_array", "f_unique_mapping", "destruct_object"], (f, true) ∈ Gen.C05.callbackSites := by decide

/-- catch_value is a global that every catch() run by the master's error handler overwrites: error_handler assigns the
    message to it only after that handler has returned (the model's `raise`: `runHandler … true`, THEN `catchValue := .msg msg`) -/
theorem tie_catch_value_order : Gen.C05.errorHandlerSetsCatchValueAfterHandler = true := by decide

/-- an error raised inside the master's handler clears "in the mudlib error handler" only when it is delivered to the
    context that was current at the handler's entry.  The model's handler (`runHandlerN`) never saves a context of its own,
    so in the model every second-level error abandons the handler and `raiseInner` / `raise` clear the flag
    unconditionally; handlers that run catch() themselves are exercised on the real driver (`b-handler-script-*`). -/
theorem tie_handler_flag : Gen.C05.errorHandlerKeepsFlagInsideHandler = true := by decide

/-- the limit bits (ES_STACK_FULL / ES_MAX_EVAL_COST) of the error the master's handler runs for are recorded at the entry,
    set again when the handler returns and re-instated for an error that abandons the handler — in the same guarded block
    that clears the flag; an error caught by the handler's own catch sees its own state.  In the model nothing inside the
    handler clears `errState` (`runHandlerN` completes no catch), so `raiseInner` / `raise` deliver it unchanged. -/
theorem tie_handler_limit_state : Gen.C05.errorHandlerKeepsLimitState = true := by decide

/-- variables of verification hooks (only mentioned inside `#ifdef NEOLITH_VERIF`) are not part of `coreGlobals` -/
theorem tie_hook_globals_apart : ∀ g ∈ Gen.C05.hookGlobals, g ∉ Gen.C05.coreGlobals := by decide

/-- the model's `raise` sets catch_value after the handler, in the state the handler returned -/
theorem raise_sets_catch_value_after_handler (msg : String) (m m' : M)
    (hc : catchable (resetGuards m) = true) (hm : m.inMudlibHandler = false)
    (hh : runHandler msg true { resetGuards m with inMudlibHandler := true } = .ok m') :
    raise msg m = longjmp { m' with inMudlibHandler := false, catchValue := .msg msg } := by
  have hm' : (resetGuards m).inMudlibHandler = false := hm
  simp only [raise, hc, hm', ↓reduceIte, Bool.false_eq_true]
  rw [hh]

/-- the T_ERROR_HANDLER slots the model knows (`handler id` ops; `fixNamesId` for destruct_object) still exist in the source -/
theorem tie_error_handler_slots :
    ∀ p ∈ [("simulate.c", "fix_object_names"), ("array.c", "unique_array_error_handler"), ("array.c", "sort_array_unlink"),
           ("mapping.c", "unique_mapping_error_handler"), ("parse.c", "parse_clean_up")], p ∈ Gen.C05.errorHandlerSlots := by decide

/-- destruct_object of a vital object: slot pushed and both names recorded BEFORE the name is blanked (the model's `.vital`
    case builds `m1` — slot + recorded names — from `m`, and blanks in `m2`); fix_object_names restores both (`runSlotHandler`) -/
theorem tie_vital_destruct_order :
    Gen.C05.destructRecordsNamesBeforeBlanking = true ∧ Gen.C05.fixObjectNamesRestoresBoth = true := by decide

/-- every registered handler still puts back the C state its efun keeps across callbacks: sort_array_unlink pops the sort
    context AND points the comparison trampoline's global (`sort_array_ftc`) at the enclosing sort again; the unique_* handlers
    unlink their list heads; fix_object_names restores both names.  (Model: `runSlotHandler` — fix_object_names restores the
    names, every other handler unlinks the head of `efunCtx`; `popN_unlinks_efun_contexts`.  On the driver: nested efun-callback
    cases, no crash, outer result correct by value.) -/
theorem tie_handler_effects :
    ∀ p ∈ [("sort_array_unlink", "sort_array_ftc"), ("sort_array_unlink", "sort_ctx_top"),
           ("unique_array_error_handler", "g_u_list"), ("unique_mapping_error_handler", "g_u_m_list"),
           ("fix_object_names", "master_ob->name"), ("fix_object_names", "simul_efun_ob->name")],
      p ∈ Gen.C05.handlerAssigns := by decide

/-- F_EFUNV takes and clears the spread count before it checks the argument types: an error raised BY the instruction
    (Bad argument N) finds num_varargs = 0 (the model: `consume`, then the `craise` of the type error) -/
theorem tie_spread_count : Gen.C05.efunvClearsSpreadCountBeforeTypeCheck = true := by decide

/-- the consuming instruction leaves the count cleared whatever it was; a fault AT the instruction (before it executes) does
    not — `execOp` raises before `execCore` runs — which is why restore_context clears it too (`restoreContext_spread`) -/
theorem consume_clears_spread_count (m : M) : ∃ m', execCore .consume m = .ok m' ∧ m'.numVarargs = 0 :=
  ⟨{ m with numVarargs := 0 }, by simp only [execCore], rfl⟩

/-- restore_context unwinds the control stack only when a frame was pushed since the recovery point was set
    (the model: `if m1.cs.length > e.saveCsp then … popFrame … else some m1`) -/
theorem tie_restore_frameless : Gen.C05.restoreTestsCspBeforeUnwinding = true := by decide

/-- **frameless error**: when no frame was pushed since the recovery point was set (and no value either), restore_context
    leaves the control stack and ALL frame registers exactly as they are — it does not read the stale frame above csp -/
theorem restoreContext_frameless (e : Ctx) (m : M) (hc : m.cs.length = e.saveCsp) (hv : m.vs.length = e.saveSp) :
    ∃ m', restoreContext e m = .ok m' ∧ m'.cs = m.cs ∧ m'.r = m.r ∧ m'.vs = m.vs := by
  refine ⟨{ m with cg := e.saveCg, loadDepth := e.saveLd, restrictDestruct := e.saveRd, lastVerb := e.saveVerb, numVarargs := 0 }, ?_, rfl, rfl, rfl⟩
  simp [restoreContext, hc, hv, popN]

/-- restore_context clears the spread count (regenerated: the statement is there) -/
theorem tie_restore_clears_spread_count : Gen.C05.restoreClearsSpreadCount = true := by decide

/-- no handler of a T_ERROR_HANDLER slot calls back into LPC or raises an error: running one while the stack is unwound
    cannot start another unwinding (the model's `runSlotHandler` is a plain state update) -/
theorem tie_error_handlers_are_leaves : Gen.C05.errorHandlersThatCallBack = [] := by decide

/-- the model records the names the object had BEFORE blanking: whatever the reload does, the slot restores them -/
theorem vital_records_before_blanking (b : Bool) (body : Prog) (m : M)
    (hn : (if b then m.masterName else m.simulName) ≠ 0) :
    ∃ m2 : M, execCore (.vital b body) m = vitalFinish b (if b then m.masterName else m.simulName) (exec body m2) ∧
      m2.savedMasterName = m.masterName ∧ m2.savedSimulName = m.simulName ∧ m2.vs = Slot.handler fixNamesId :: m.vs := by
  cases b
  · have : (m.simulName == 0) = false := by simpa using hn
    refine ⟨{ m with vs := Slot.handler fixNamesId :: m.vs, savedMasterName := m.masterName, savedSimulName := m.simulName, simulName := 0 }, ?_, rfl, rfl, rfl⟩
    simp only [execCore, Bool.false_eq_true, ↓reduceIte, this]
  · have : (m.masterName == 0) = false := by simpa using hn
    refine ⟨{ m with vs := Slot.handler fixNamesId :: m.vs, savedMasterName := m.masterName, savedSimulName := m.simulName, masterName := 0 }, ?_, rfl, rfl, rfl⟩
    simp only [execCore, ↓reduceIte, this, Bool.false_eq_true]

/-- a destruct of a vital object whose name is blank (its reload is in progress) is refused before anything is recorded -/
theorem vital_nested_refused (b : Bool) (body : Prog) (m : M) (hn : (if b then m.masterName else m.simulName) = 0) :
    execCore (.vital b body) m = raise "*Destruction of vital object is already in progress." m := by
  cases b
  · have : (m.simulName == 0) = true := by simpa using hn
    simp only [execCore, Bool.false_eq_true, ↓reduceIte, this]
  · have : (m.masterName == 0) = true := by simpa using hn
    simp only [execCore, ↓reduceIte, this]

/-- unwinding a stack segment that contains the fix_object_names slot puts both names back to the recorded ones, unwinding
    a segment without it leaves them alone -/
theorem popN_fixNames (dv : List Slot) : ∀ (m : M) (rest : List Slot), m.vs = dv ++ rest →
    ∃ m', popN dv.length m = some m' ∧
      (fixNamesId ∈ handlerIds dv → m'.masterName = m.savedMasterName ∧ m'.simulName = m.savedSimulName) ∧
      (fixNamesId ∉ handlerIds dv → m'.masterName = m.masterName ∧ m'.simulName = m.simulName) ∧
      m'.savedMasterName = m.savedMasterName ∧ m'.savedSimulName = m.savedSimulName := by
  induction dv with
  | nil => intro m rest h; exact ⟨m, rfl, by simp [handlerIds], by simp [handlerIds], rfl, rfl⟩
  | cons s dv ih =>
    intro m rest h
    cases s with
    | val =>
      have h1 : popStack m = some { m with vs := dv ++ rest } := by unfold popStack; rw [h]; rfl
      obtain ⟨m', hp, ha, hb, hc, hd⟩ := ih { m with vs := dv ++ rest } rest rfl
      exact ⟨m', by simp only [List.length_cons, popN, h1]; exact hp, by simpa [handlerIds] using ha, by simpa [handlerIds] using hb, hc, hd⟩
    | handler id =>
      have h1 : popStack m = some (runSlotHandler id { m with vs := dv ++ rest, ran := id :: m.ran }) := by
        unfold popStack; rw [h]; rfl
      obtain ⟨m', hp, ha, hb, hc, hd⟩ := ih (runSlotHandler id { m with vs := dv ++ rest, ran := id :: m.ran }) rest rfl
      refine ⟨m', by simp only [List.length_cons, popN, h1]; exact hp, ?_, ?_, hc, hd⟩
      · intro hin
        by_cases hrest : fixNamesId ∈ handlerIds dv
        · exact ha hrest
        · have hid : id = fixNamesId := by
            simp [handlerIds] at hin
            rcases hin with h | h
            · exact h.symm
            · exact absurd h hrest
          have := hb hrest
          subst hid
          simpa [runSlotHandler] using this
      · intro hnin
        have hne : ¬ fixNamesId ∈ handlerIds dv := fun h => hnin (by simp [handlerIds, h])
        have hid : (id == fixNamesId) = false := by
          simp [handlerIds] at hnin
          exact beq_false_of_ne (fun h => hnin.1 h.symm)
        have := hb hne
        simpa [runSlotHandler, hid] using this

/-- the recovery points of backend.c have the shape `runBackend` / the sweep ops mirror; error_handler switches the
    heart beat off last (the model's `hbOffStep` sits in the same three branches) -/
theorem tie_backend_shapes :
    Gen.C05.backendRecoveryShape = true ∧ Gen.C05.sweepRecoveryShape = true ∧
    Gen.C05.heartBeatSetsRegistersBeforeFrame = true ∧ Gen.C05.errorHandlerHeartBeatOffLast = true := by decide

end NV.C05
