/-
C05 — bridging lemmas between the model and the statement shapes regenerated from the source on every run
(`NV/Gen/C05.lean`, written by `gen_extra` of props/c05.py from src/error_context.c, src/apply.c, src/frame.c,
lib/lpc/functional.c).  A changed C line changes the generated definition and breaks the lemma that mentions it
(obligation broken), independently of the correspondence run.
-/
import NV.Gen.C05
import NV.C05.Model
import NV.C05.Exec

namespace NV.C05

/-- save_context stores `sp` and `csp` unchanged: the model's context is built from the regenerated expressions -/
theorem tie_save_context (m : M) :
    (ctxOf m).saveSp = Gen.C05.saveContextSaveSp m.vs.length ∧ (ctxOf m).saveCsp = Gen.C05.saveContextSaveCsp m.cs.length :=
  ⟨rfl, rfl⟩

/-- safe_apply / safe_call_function_pointer move their recovery point below the arguments: `safeCtx` is that expression -/
theorem tie_safe_recovery_point (e : Ctx) (n : Nat) :
    (safeCtx n e).saveSp = Gen.C05.safeApplySaveSp e.saveSp n ∧ (safeCtx n e).saveSp = Gen.C05.safeFpSaveSp e.saveSp n :=
  ⟨rfl, rfl⟩

/-- restore_context truncates to `save_csp + 1` and pops ONE frame (the model's `drop … (saveCsp + 1)` + one `popFrame`) -/
theorem tie_restore_offset : Gen.C05.restoreCspOffset = 1 ∧ Gen.C05.restorePopFrameCalls = 1 := by decide

/-- both depth tests compare with `&control_stack[MaxCallDepth - 1]` (the model: `cs.length ≥ maxDepth`) -/
theorem tie_depth_tests : Gen.C05.saveContextDepthOffset = 1 ∧ Gen.C05.pushDepthOffset = 1 := by decide

/-- statement orders / presences the model relies on -/
theorem tie_statement_shapes :
    Gen.C05.saveContextRefusesBeforeLinking = true ∧ Gen.C05.saveContextSavesGuards = true ∧
    Gen.C05.restorePopsUnconditionally = true ∧ Gen.C05.restoreRestoresCgAndGuards = true ∧
    Gen.C05.popContextRelinksAndClears = true ∧ Gen.C05.errorHandlerResetsGuardsFirst = true ∧
    Gen.C05.safeApplyPopsArgsAfterRestore = false ∧ Gen.C05.safeFpPopsArgsAfterRestore = false ∧
    Gen.C05.catchKeepsLimitBit = true ∧ Gen.C05.catchPushesFrameRightAfterSave = true := by decide

/-- the frame-kind codes printed in shapes and tested by `catchable` are the regenerated ones -/
theorem tie_frame_codes :
    FK.code .function = Gen.C05.frameFunction ∧ FK.code .funp = Gen.C05.frameFunp ∧
    FK.code .catch_ = Gen.C05.frameCatch ∧ FK.code .fake = Gen.C05.frameFake ∧
    Gen.C05.frameCatch &&& Gen.C05.frameMask = Gen.C05.frameCatch := by decide

end NV.C05
