/-
C05 — the driver-level recovery points that are C code calling back into LPC: the `call_out()` sweep, `safe_apply` from
driver level (`runDriver`) and one cycle of `backend()` (`runBackend`: process_user_command, call_heart_beat,
look_for_objects_to_swap).  For EVERY program, fault position and start state: no crash, both stacks, the chain and the
two guards are back; when the evaluation failed, command_giver and last_verb are back as well.  Corollaries: the core
clauses of the specification oracle find nothing on these evaluations (`model_satisfies_spec_driver`,
`model_satisfies_spec_backend`).
-/
import NV.C05.Props
import NV.C05.Guards
import NV.C05.Tie

namespace NV.C05

/-- `restore_context` puts `last_verb` back (the repaired code: save_context records it) -/
theorem restoreContext_verb {e : Ctx} {m m' : M} (h : restoreContext e m = .ok m') : m'.lastVerb = e.saveVerb := by
  simp only [restoreContext] at h
  have hpop : ∀ (n : Nat) (a b : M), popN n a = some b → b.lastVerb = a.lastVerb := by
    intro n
    induction n with
    | zero => intro a b hp; simp only [popN] at hp; cases hp; rfl
    | succ n ih =>
      intro a b hp
      simp only [popN] at hp
      split at hp
      · cases hp
      · rename_i a1 h1
        have : a1.lastVerb = a.lastVerb := by
          unfold popStack at h1
          split at h1
          · cases h1
          · cases h1; rfl
          · cases h1; rfl
        exact (ih a1 b hp).trans this
  split at h
  · cases h
  · rename_i m2 h2
    split at h
    · cases h
    · split at h
      · cases h
      · rename_i m3 h3
        cases h
        have e3 := hpop _ _ _ h3
        rw [e3]
        split at h2
        · unfold popFrame at h2
          split at h2
          · cases h2
          · cases h2; rfl
        · cases h2; rfl

/-- **state-restored includes the interpreter's scratch state**: after `restore_context` the spread count is 0, whatever the
    abandoned evaluation left in it (an error raised at the consuming instruction before it executed) -/
theorem restoreContext_spread {e : Ctx} {m m' : M} (h : restoreContext e m = .ok m') : m'.numVarargs = 0 := by
  simp only [restoreContext] at h
  have hpop : ∀ (n : Nat) (a b : M), popN n a = some b → b.numVarargs = a.numVarargs := by
    intro n
    induction n with
    | zero => intro a b hp; simp only [popN] at hp; cases hp; rfl
    | succ n ih =>
      intro a b hp
      simp only [popN] at hp
      split at hp
      · cases hp
      · rename_i a1 h1
        have : a1.numVarargs = a.numVarargs := by
          unfold popStack at h1
          split at h1
          · cases h1
          · cases h1; rfl
          · cases h1; rfl
        exact (ih a1 b hp).trans this
  split at h
  · cases h
  · rename_i m2 h2
    split at h
    · cases h
    · split at h
      · cases h
      · rename_i m3 h3
        cases h
        rw [hpop _ _ _ h3]
        split at h2
        · unfold popFrame at h2
          split at h2
          · cases h2
          · cases h2; rfl
        · cases h2; rfl

/-- `save_context` records `last_verb` -/
theorem saveContext_verb {m m1 : M} {econ : Ctx} (h : saveContext m = some (econ, m1)) : econ.saveVerb = m.lastVerb := by
  simp only [saveContext] at h
  split at h
  · cases h
  · cases h; rfl

/-- **driver-level recovery, C code calling back (call_out sweep, driver safe applies, backend cycle).**  For every
    program `p`, fault position `k` and state `m0` in which save_context succeeds: `save_context; p; [restore_context];
    pop_context` never crashes and ends with the value stack, control stack, chain and both guards of `m0`; when `p` failed,
    command_giver and last_verb are those of `m0`. -/
theorem driver_restores (p : Prog) (k : Nat) (m0 m1 : M) (econ : Ctx) (hs : saveContext m0 = some (econ, m1)) :
    ∃ m', topFinish econ m0.ctxs (exec p { m1 with fault := k }) = .ok m' ∧
      m'.vs = m0.vs ∧ m'.cs = m0.cs ∧ m'.ctxs = m0.ctxs ∧
      m'.loadDepth = m0.loadDepth ∧ m'.restrictDestruct = m0.restrictDestruct ∧
      ((∃ me, exec p { m1 with fault := k } = .err me) → m'.cg = m0.cg ∧ m'.lastVerb = m0.lastVerb) := by
  obtain ⟨he, h1v, h1c, h1x, h1g⟩ := saveContext_spec hs
  subst he
  obtain ⟨_, _, hg1, hg2⟩ := saveContext_guards hs
  have hb : Good { m1 with fault := k } (exec p { m1 with fault := k }) := exec_good p _
  have hgk : GuardsKept { m1 with fault := k } (exec p { m1 with fault := k }) := exec_guards p _
  cases hr : exec p { m1 with fault := k } with
  | ok m4 =>
    rw [hr] at hb hgk
    refine ⟨popContext m0.ctxs m4, rfl, hb.vs.trans h1v, hb.cs.trans h1c, rfl, hgk.1.trans hg1, hgk.2.trans hg2, ?_⟩
    rintro ⟨me, hme⟩; cases hme
  | err m4 =>
    rw [hr] at hb
    obtain ⟨dv, hdv⟩ := hb.vs
    obtain ⟨dc, hdc⟩ := hb.cs
    obtain ⟨m5, h1, h2, h3, h4, _, _, _, _, h9, h10, _, _, _, h14⟩ :=
      restoreContext_ext m4 dv m0.vs dc m0.cs m0.cg (by rw [hdv]; show _ ++ m1.vs = _; rw [h1v])
        (by rw [hdc]; show _ ++ m1.cs = _; rw [h1c]) m0.loadDepth m0.restrictDestruct m0.lastVerb
    have h1 : restoreContext (ctxOf m0) m4 = .ok m5 := h1
    refine ⟨popContext m0.ctxs m5, ?_, h2, h3, rfl, h9, h10, fun _ => ⟨h4, h14⟩⟩
    simp only [topFinish, h1]
  | crash w m4 =>
    rw [hr] at hb
    have : m1.ctxs = [] := hb
    rw [h1x] at this; cases this

/-- the clauses of the oracle that hold for EVERY driver-level evaluation (the register clauses `co … vio` need the side
    condition of `restore_is_inverse`: no register changed between the save and the first frame push) -/
def judgeObsCore (o : TopObs) : List String :=
  (if o.crashed then ["crash"] else []) ++
  (if o.after.sp != o.before.sp then ["restore sp"] else []) ++
  (if o.after.csp != o.before.csp then ["restore csp"] else []) ++
  (if o.after.ctx != o.before.ctx then ["restore ctx"] else []) ++
  (if o.failed && o.after.cg != o.before.cg then ["restore cg"] else []) ++
  (if o.after.ld != o.before.ld then ["guard load-depth"] else []) ++
  (if o.after.rd != o.before.rd then ["guard restrict-destruct"] else [])

/-- `judgeObs` finds nothing iff the core clauses find nothing and the frame registers are unchanged -/
theorem judgeObs_nil_of_core (o : TopObs) (hc : judgeObsCore o = [])
    (hr : o.after.co = o.before.co ∧ o.after.po = o.before.po ∧ o.after.prog = o.before.prog ∧ o.after.ct = o.before.ct ∧
      o.after.fp = o.before.fp ∧ o.after.pc = o.before.pc ∧ o.after.fio = o.before.fio ∧ o.after.vio = o.before.vio) :
    judgeObs o = [] := by
  obtain ⟨a, b, c, d, e, f, g, h⟩ := hr
  simp only [judgeObsCore, List.append_eq_nil_iff] at hc
  obtain ⟨⟨⟨⟨⟨⟨h1, h2⟩, h3⟩, h4⟩, h5⟩, h6⟩, h7⟩ := hc
  simp at h1 h2 h3 h4 h5 h6 h7
  simp [judgeObs, h1, h2, h3, h4, h6, h7, a, b, c, d, e, f, g, h]
  intro hf; exact h5 hf

/-- one `runDriver` evaluation as the oracle sees it -/
def observeDriver (p : Prog) (k : Nat) (m0 : M) : TopObs :=
  match saveContext m0 with
  | none => { before := obsOf m0, after := obsOf m0, failed := false, crashed := false }
  | some (econ, m1) =>
    let r := exec p { m1 with fault := k }
    match topFinish econ m0.ctxs r with
    | .ok m' => { before := obsOf m0, after := obsOf m', failed := isErr r, crashed := false }
    | .err m' => { before := obsOf m0, after := obsOf m', failed := true, crashed := true }
    | .crash _ m' => { before := obsOf m0, after := obsOf m', failed := true, crashed := true }

/-- **model_satisfies_spec, driver level (call_out sweep, driver safe applies).** -/
theorem model_satisfies_spec_driver (p : Prog) (k : Nat) (m0 : M) : judgeObsCore (observeDriver p k m0) = [] := by
  unfold observeDriver
  cases hs : saveContext m0 with
  | none => simp [judgeObsCore]
  | some em =>
    obtain ⟨econ, m1⟩ := em
    obtain ⟨m', h1, hv, hc, hx, hld, hrd, hcg⟩ := driver_restores p k m0 m1 econ hs
    simp only [h1]
    cases hb : exec p { m1 with fault := k } with
    | err me => simp [judgeObsCore, obsOf, isErr, hv, hc, hx, hld, hrd, (hcg ⟨me, hb⟩).1]
    | ok _ => simp [judgeObsCore, obsOf, isErr, hv, hc, hx, hld, hrd]
    | crash _ _ => simp [judgeObsCore, obsOf, isErr, hv, hc, hx, hld, hrd]

/-- **one cycle of backend().**  After clear_state and save_context, whatever the cycle does (a command, the heart beats,
    the reset / clean_up sweep — any program, any fault position): at the poll point of the next cycle both stacks are
    empty, the chain holds exactly the backend's context, both guards are as before; after an error command_giver is 0 and
    last_verb is back; after the loop the chain is the one backend() was entered with.  It never crashes. -/
theorem backend_cycle_restores (p : Prog) (k : Nat) (m00 : M) :
    let m0 := clearState { m00 with out := [], shape := none, fault := 0 }
    ∀ econ m1, saveContext m0 = some (econ, m1) →
      ∃ mLoop, (runBackend p k m00).loop = some mLoop ∧
        mLoop.vs = [] ∧ mLoop.cs = [] ∧ mLoop.ctxs = econ :: m0.ctxs ∧
        mLoop.loadDepth = m0.loadDepth ∧ mLoop.restrictDestruct = m0.restrictDestruct ∧
        ((runBackend p k m00).result = "fault-top" → mLoop.cg = 0 ∧ mLoop.lastVerb = m0.lastVerb) ∧
        (runBackend p k m00).after.ctxs = m0.ctxs ∧ (runBackend p k m00).after.vs = [] ∧ (runBackend p k m00).after.cs = [] ∧
        (runBackend p k m00).after = popContext m0.ctxs mLoop ∧ (runBackend p k m00).before = m0 ∧
        ((runBackend p k m00).result = "fault-top" ∨ (runBackend p k m00).result = "done be") := by
  intro m0 econ m1 hs
  obtain ⟨he, h1v, h1c, h1x, h1g⟩ := saveContext_spec hs
  obtain ⟨_, _, hg1, hg2⟩ := saveContext_guards hs
  have hb : Good { m1 with fault := k } (exec p { m1 with fault := k }) := exec_good p _
  have hgk : GuardsKept { m1 with fault := k } (exec p { m1 with fault := k }) := exec_guards p _
  have hs' : saveContext (clearState { m00 with out := [], shape := none, fault := 0 }) = some (econ, m1) := hs
  unfold runBackend
  simp only [hs']
  cases hr : exec p { m1 with fault := k } with
  | ok m4 =>
    rw [hr] at hb hgk
    refine ⟨{ m4 with fault := 0 }, rfl, hb.vs.trans h1v, hb.cs.trans h1c, hb.ctxs.trans h1x, hgk.1.trans hg1, hgk.2.trans hg2, ?_, rfl,
      hb.vs.trans h1v, hb.cs.trans h1c, rfl, rfl, Or.inr rfl⟩
    intro hres; simp at hres
  | err m4 =>
    rw [hr] at hb
    obtain ⟨dv, hdv⟩ := hb.vs
    obtain ⟨dc, hdc⟩ := hb.cs
    obtain ⟨m5, h1, h2, h3, h4, h5, _, _, _, h9, h10, _, _, _, h14⟩ :=
      restoreContext_ext m4 dv m0.vs dc m0.cs m0.cg (by rw [hdv]; show _ ++ m1.vs = _; rw [h1v])
        (by rw [hdc]; show _ ++ m1.cs = _; rw [h1c]) m0.loadDepth m0.restrictDestruct m0.lastVerb
    have h1 : restoreContext econ m4 = .ok m5 := by rw [he]; exact h1
    simp only [h1]
    refine ⟨{ m5 with fault := 0 }, rfl, h2, h3, ?_, h9, h10, fun _ => ⟨h4, h14⟩, rfl, h2, h3, rfl, rfl, Or.inl rfl⟩
    show m5.ctxs = _
    rw [h5, hb.ctxs]; exact h1x
  | crash w m4 =>
    rw [hr] at hb
    have : m1.ctxs = [] := hb
    rw [h1x] at this; cases this

/-- **the fix_object_names slot.**  When `restore_context` unwinds a value-stack segment that contains the T_ERROR_HANDLER
    slot of destruct_object (the reload of a vital object failed), both vital objects carry the recorded names again;
    a segment without the slot leaves the names alone. -/
theorem restoreContext_runs_fixNames {e : Ctx} {m m' : M} {dv rest : List Slot}
    (hv : m.vs = dv ++ rest) (hl : rest.length = e.saveSp) (h : restoreContext e m = .ok m') :
    (fixNamesId ∈ handlerIds dv → m'.masterName = m.savedMasterName ∧ m'.simulName = m.savedSimulName) ∧
    (fixNamesId ∉ handlerIds dv → m'.masterName = m.masterName ∧ m'.simulName = m.simulName) := by
  simp only [restoreContext] at h
  split at h
  · cases h
  · rename_i m2 h2
    have h2f : m2.vs = dv ++ rest ∧ m2.masterName = m.masterName ∧ m2.simulName = m.simulName ∧
        m2.savedMasterName = m.savedMasterName ∧ m2.savedSimulName = m.savedSimulName := by
      split at h2
      · unfold popFrame at h2
        split at h2
        · cases h2
        · cases h2; exact ⟨hv, rfl, rfl, rfl, rfl⟩
      · cases h2; exact ⟨hv, rfl, rfl, rfl, rfl⟩
    obtain ⟨h2v, hn1, hn2, hs1, hs2⟩ := h2f
    split at h
    · cases h
    · split at h
      · cases h
      · rename_i m3 h3
        cases h
        have hlen : m2.vs.length - e.saveSp = dv.length := by rw [h2v]; simp; omega
        rw [hlen] at h3
        obtain ⟨m4, hp, ha, hb, _, _⟩ := popN_fixNames dv m2 rest h2v
        rw [hp] at h3
        cases h3
        exact ⟨fun hin => by rw [← hs1, ← hs2]; exact ha hin, fun hnin => by rw [← hn1, ← hn2]; exact hb hnin⟩

/-- ids of the efun contexts registered by the slots of a stack segment, top first (the fix_object_names slot registers none) -/
def efunIds (dv : List Slot) : List Nat := (handlerIds dv).filter (· != fixNamesId)

/-- **every registered efun context is unlinked exactly once, innermost first.**  When the file-scope list of efun contexts
    starts with the contexts registered by the slots of the segment that is unwound (as it does: an efun links its context
    when it pushes its slot), unwinding the segment leaves exactly the contexts registered below it — whatever else the
    segment holds (temporaries, the fix_object_names slot). -/
theorem popN_unlinks_efun_contexts (dv : List Slot) : ∀ (m : M) (rest : List Slot) (below : List Nat),
    m.vs = dv ++ rest → m.efunCtx = efunIds dv ++ below →
    ∃ m', popN dv.length m = some m' ∧ m'.efunCtx = below ∧ m'.vs = rest := by
  induction dv with
  | nil => intro m rest below h hc; exact ⟨m, rfl, by simpa [efunIds, handlerIds] using hc, by simpa using h⟩
  | cons s dv ih =>
    intro m rest below h hc
    cases s with
    | val =>
      have h1 : popStack m = some { m with vs := dv ++ rest } := by unfold popStack; rw [h]; rfl
      obtain ⟨m', hp, he, hv⟩ := ih { m with vs := dv ++ rest } rest below rfl (by simpa [efunIds, handlerIds] using hc)
      exact ⟨m', by simp only [List.length_cons, popN, h1]; exact hp, he, hv⟩
    | handler id =>
      have h1 : popStack m = some (runSlotHandler id { m with vs := dv ++ rest, ran := id :: m.ran }) := by
        unfold popStack; rw [h]; rfl
      by_cases hid : id = fixNamesId
      · subst hid
        have hc' : (runSlotHandler fixNamesId { m with vs := dv ++ rest, ran := fixNamesId :: m.ran }).efunCtx = efunIds dv ++ below := by
          simpa [runSlotHandler, efunIds, handlerIds] using hc
        obtain ⟨m', hp, he, hv⟩ := ih _ rest below rfl hc'
        exact ⟨m', by simp only [List.length_cons, popN, h1]; exact hp, he, hv⟩
      · have hb : (id == fixNamesId) = false := beq_false_of_ne hid
        have hne : (id != fixNamesId) = true := by simp [bne, hb]
        have hc' : (runSlotHandler id { m with vs := dv ++ rest, ran := id :: m.ran }).efunCtx = efunIds dv ++ below := by
          have : m.efunCtx = id :: (efunIds dv ++ below) := by simpa [efunIds, handlerIds, hne] using hc
          simp [runSlotHandler, hb, this]
        obtain ⟨m', hp, he, hv⟩ := ih _ rest below rfl hc'
        exact ⟨m', by simp only [List.length_cons, popN, h1]; exact hp, he, hv⟩

/-- the heart-beat switch-off of error_handler: afterwards no heart beat is current, and the one that was is recorded as off -/
theorem hbOffStep_spec (m : M) :
    (hbOffStep m).hbCur = 0 ∧ (m.hbCur ≠ 0 → (hbOffStep m).hbOff = m.hbCur :: m.hbOff) ∧ (m.hbCur = 0 → hbOffStep m = m) := by
  unfold hbOffStep
  by_cases h : m.hbCur = 0
  · simp [h]
  · simp [h]

/-- second-level error_handler (the error was raised inside the master's handler), not receivable by a catch, no error
    trace being generated: the error is delivered with the current heart beat switched off -/
theorem raiseInner_uncaught_switches_heart_beat_off (msg : String) (m m' : M)
    (hc : catchable (resetGuards m) = false) (he : m.inError = false) (h : raiseInner msg m = .err m') :
    m'.hbCur = 0 ∧ (m.hbCur ≠ 0 → m'.hbOff = m.hbCur :: m.hbOff) := by
  have he' : (resetGuards m).inError = false := he
  simp only [raiseInner, hc, he', Bool.false_eq_true, ↓reduceIte, longjmp] at h
  split at h
  · cases h
  · cases h
    have hs := hbOffStep_spec { resetGuards m with inError := false, inMudlibHandler := false }
    exact ⟨hs.1, hs.2.1⟩

/-- one backend() cycle as the oracle sees it (snapshot before = after clear_state, snapshot after = after the loop) -/
def observeBackend (p : Prog) (k : Nat) (m00 : M) : TopObs :=
  let t := runBackend p k m00
  { before := obsOf t.before, after := obsOf t.after, failed := t.result == "fault-top",
    crashed := !(t.result == "fault-top" || t.result == "done be" || t.result == "too-deep") }

/-- **model_satisfies_spec, backend().**  For every cycle program, fault position and start state the core clauses of
    the oracle find nothing on the model's backend() run. -/
theorem model_satisfies_spec_backend (p : Prog) (k : Nat) (m00 : M) : judgeObsCore (observeBackend p k m00) = [] := by
  cases hs : saveContext (clearState { m00 with out := [], shape := none, fault := 0 }) with
  | none =>
    have hb : (runBackend p k m00).before = (runBackend p k m00).after ∧ (runBackend p k m00).result = "too-deep" := by
      unfold runBackend; simp only [hs]; simp
    simp [observeBackend, judgeObsCore, hb.1, hb.2]
  | some em =>
    obtain ⟨econ, m1⟩ := em
    obtain ⟨mLoop, _, hv, hc, _, hld, hrd, hcg, _, _, _, hafter, hbefore, hres⟩ := backend_cycle_restores p k m00 econ m1 hs
    have hsp : (runBackend p k m00).after.vs.length = (runBackend p k m00).before.vs.length := by rw [hafter, hbefore]; simp [popContext, hv, clearState]
    have hcsp : (runBackend p k m00).after.cs.length = (runBackend p k m00).before.cs.length := by rw [hafter, hbefore]; simp [popContext, hc, clearState]
    have hctx : (runBackend p k m00).after.ctxs.length = (runBackend p k m00).before.ctxs.length := by rw [hafter, hbefore]; simp [popContext]
    have hl : (runBackend p k m00).after.loadDepth = (runBackend p k m00).before.loadDepth := by rw [hafter, hbefore]; simpa [popContext] using hld
    have hr : (runBackend p k m00).after.restrictDestruct = (runBackend p k m00).before.restrictDestruct := by rw [hafter, hbefore]; simpa [popContext] using hrd
    have hg : (runBackend p k m00).result = "fault-top" → (runBackend p k m00).after.cg = (runBackend p k m00).before.cg := by
      intro h; rw [hafter, hbefore]; simp [popContext, (hcg h).1, clearState]
    rcases hres with h | h
    · simp [observeBackend, judgeObsCore, obsOf, hsp, hcsp, hctx, hl, hr, h, hg h]
    · simp [observeBackend, judgeObsCore, obsOf, hsp, hcsp, hctx, hl, hr, h]

end NV.C05
