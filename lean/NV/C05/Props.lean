import NV.C05.Model
namespace NV.C05
end NV.C05
