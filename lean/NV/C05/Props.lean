/-
C05 — property theorems over the model `ErrCtx` (NV/C05/Model.lean).

What is proved here is about the recovery primitives on EVERY machine state that extends the state at the save
point (value stack and control stack grown on top of it, by any number of frames of any kind and any slots): that
is the shape of every state an evaluation can be in when an error is raised.  The remaining step "every op tree
keeps the state an extension of the save point" is stated as `ExecKeepsExtension` (not proved in Lean; it is
checked by the correspondence run on every generated program and every fault position, see notes/C05.md).
-/
import NV.C05.Model
import NV.C05.Lemmas

namespace NV.C05

/-- the context `save_context` stores in state `s` -/
def ctxOf (s : M) : Ctx := { saveSp := s.vs.length, saveCsp := s.cs.length, saveCg := s.cg }

/-- `m` extends `s`: both stacks of `s` are intact below what was pushed since; `first` is the first frame pushed
    after the save, if any -/
structure Extends (s m : M) (dv : List Slot) (dc : List Frame) : Prop where
  vs : m.vs = dv ++ s.vs
  cs : m.cs = dc ++ s.cs

/-- **restore_is_inverse.**  For every state `m` that extends the state `s` in which `save_context` was called —
    whatever was pushed since: any frames, any temporaries, any handler slots — `restore_context` yields `s` on
    (sp, csp, command_giver) and leaves the error-context chain alone; and it yields `s` on ALL registers provided the
    first frame pushed after the save holds the registers of `s` (i.e. no register was changed between the save and
    that push), or no frame was pushed and the registers are still those of `s`. -/
theorem restore_is_inverse (s m : M) (dv : List Slot) (dc : List Frame) (h : Extends s m dv dc) :
    ∃ m', restoreContext (ctxOf s) m = .ok m' ∧
      m'.vs = s.vs ∧ m'.cs = s.cs ∧ m'.cg = s.cg ∧ m'.ctxs = m.ctxs ∧
      ((dc = [] → m.r = s.r) → (∀ f, dc.getLast? = some f → f.saved = s.r) → m'.r = s.r) := by
  obtain ⟨m', h1, h2, h3, h4, h5, _, h7, h8, _⟩ := restoreContext_ext m dv s.vs dc s.cs s.cg h.vs h.cs
  refine ⟨m', h1, h2, h3, h4, h5, ?_⟩
  intro hnil hfirst
  cases hd : dc.getLast? with
  | none =>
    have : dc = [] := by simpa using hd
    rw [h7 this]; exact hnil this
  | some f => rw [h8 f hd]; exact hfirst f hd

/-- non-vacuity: two frames (a function frame over a catch frame) and three slots above the save point -/
def exS : M := { cg := 5, vs := [Slot.val] }
def exM : M := { cg := 9, vs := [Slot.val, Slot.handler 1, Slot.val, Slot.val],
                 cs := [Frame.mk FK.function { co := 3 }, Frame.mk FK.catch_ {}] }
example : Extends exS exM [Slot.val, Slot.handler 1, Slot.val] [Frame.mk FK.function { co := 3 }, Frame.mk FK.catch_ {}] :=
  ⟨rfl, rfl⟩
example : ∃ m', restoreContext (ctxOf exS) exM = .ok m' ∧ m'.vs = [Slot.val] ∧ m'.cs = [] ∧ m'.cg = 5 ∧ m'.r = {} :=
  ⟨_, rfl, rfl, rfl, rfl, rfl⟩

/-- **handlers_run_exactly_once.**  While unwinding, `restore_context` runs exactly the T_ERROR_HANDLER slots of the
    popped segment, each once, top first, and no other. -/
theorem handlers_run_exactly_once (s m : M) (dv : List Slot) (dc : List Frame) (h : Extends s m dv dc) :
    ∃ m', restoreContext (ctxOf s) m = .ok m' ∧ m'.ran = (handlerIds dv).reverse ++ m.ran := by
  obtain ⟨m', h1, _, _, _, _, h6, _⟩ := restoreContext_ext m dv s.vs dc s.cs s.cg h.vs h.cs
  exact ⟨m', h1, h6⟩

example : ∃ m', restoreContext (ctxOf {}) { vs := [.handler 2, .val, .handler 7], ran := [1] } = .ok m' ∧ m'.ran = [7, 2, 1] :=
  ⟨_, rfl, rfl⟩

/-- on the normal path the slot is dropped by `sp--` and its handler does NOT run -/
theorem handler_not_run_on_normal_exit (m : M) (id : Nat) (t : List Slot) (h : m.vs = .handler id :: t) :
    ∃ m', dropTop m = some m' ∧ m'.ran = m.ran ∧ m'.vs = t := by
  unfold dropTop; rw [h]; exact ⟨_, rfl, rfl, rfl⟩

/-- **catch_yields_message.**  When the body of a catch ends with an error (longjmp path of do_catch) whose state
    extends the state at the catch point, and the error is not one of the two limit errors, the catch completes, its
    value is the raised message / thrown value (`catch_value`), the chain is the chain before the catch and the
    stacks are those of the catch point. -/
theorem catch_yields_message (s m : M) (dv : List Slot) (dc : List Frame) (link : List Ctx)
    (h : Extends s m dv dc) (hlim : m.errState &&& limitBits = 0) :
    ∃ m', catchFinish (ctxOf s) link (.err m) = .ok m' ∧ m'.lastCatch = m.catchValue ∧ m'.ctxs = link ∧
      m'.vs = s.vs ∧ m'.cs = s.cs ∧ m'.cg = s.cg := by
  obtain ⟨m6, h1, h2, h3, h4, _, _, _, _, _, _, h11, h12, _⟩ := restoreContext_ext m dv s.vs dc s.cs s.cg h.vs h.cs
  refine ⟨{ popContext link { pushVals 1 m6 with lastCatch := m6.catchValue, catchValue := .num 1 } with vs := m6.vs }, ?_, ?_, ?_, ?_, ?_, ?_⟩
  · have hlim' : m6.errState &&& limitBits = 0 := by rw [h12]; exact hlim
    have h1' : restoreContext (ctxOf s) m = .ok m6 := h1
    simp [catchFinish, h1', pushVals, popContext, hlim']
  · simp [popContext, h11]
  · simp [popContext]
  · simp [popContext, h2]
  · simp [popContext, pushVals, h3]
  · simp [popContext, pushVals, h4]

/-- what `error_handler` leaves in catch_value for a catch context when the mudlib handler is already running -/
theorem raise_sets_catch_value (msg : String) (m : M) (hc : catchable (resetGuards m) = true)
    (hh : m.inMudlibHandler = true) :
    ∃ m', raise msg m = .err m' ∧ m'.catchValue = .msg msg := by
  have hne : (resetGuards m).ctxs ≠ [] := by
    intro h; simp [catchable, h] at hc
  unfold raise
  simp only [hc, ↓reduceIte]
  have : (resetGuards m).inMudlibHandler = true := by simp [resetGuards, hh]
  simp only [this, ↓reduceIte, longjmp]
  cases hcx : (resetGuards m).ctxs with
  | nil => exact absurd hcx hne
  | cons c t => exact ⟨_, rfl, rfl⟩

/-- a thrown value reaches a catch context unchanged -/
theorem throw_sets_catch_value (v : String) (m : M) (hc : catchable m = true) :
    ∃ m', throwVal v m = .err m' ∧ m'.catchValue = .thrown v := by
  have hne : m.ctxs ≠ [] := by
    intro h; simp [catchable, h] at hc
  unfold throwVal
  simp only [hc, ↓reduceIte, longjmp]
  cases hcx : m.ctxs with
  | nil => exact absurd hcx hne
  | cons c t => exact ⟨_, rfl, rfl⟩

/-- **context_chain_restored.**  After a catch, a safe_apply or a driver-level recovery — whichever way the body
    ended — the error-context chain is the chain that was current before (`pop_context` relinks it), and the error
    state bits are cleared. -/
theorem longjmp_not_ok (m m' : M) : longjmp m ≠ .ok m' := by
  unfold longjmp; split <;> simp

/-- `error_handler` never returns -/
theorem raise_not_ok (msg : String) (m m' : M) : raise msg m ≠ .ok m' := by
  simp only [raise]
  repeat' split
  all_goals first | exact longjmp_not_ok _ _ | (intro h; simp_all)

theorem context_chain_restored_catch (econ : Ctx) (link : List Ctx) (r : Res) (m' : M)
    (h : catchFinish econ link r = .ok m') : m'.ctxs = link ∧ m'.errState = 0 := by
  cases r with
  | ok m4 =>
    simp only [catchFinish] at h
    split at h
    · cases h
    · split at h
      · cases h
      · cases h; exact ⟨rfl, rfl⟩
  | err m5 =>
    simp only [catchFinish] at h
    split at h
    · split at h
      · exact absurd h (raise_not_ok _ _ _)
      · split at h
        · cases h
        · cases h; exact ⟨rfl, rfl⟩
    · rename_i hne
      exact absurd h (by intro hh; exact hne _ hh)
  | crash w m => simp [catchFinish] at h

theorem context_chain_restored_safe (econ : Ctx) (link : List Ctx) (d : Nat) (r : Res) (m' : M)
    (h : safeFinish econ link d r = .ok m') : m'.ctxs = link ∧ m'.errState = 0 := by
  cases r with
  | ok m4 =>
    simp only [safeFinish] at h
    split at h
    · split at h
      · cases h; exact ⟨rfl, rfl⟩
      · cases h
    · rename_i hne
      exact absurd h (by intro hh; exact hne _ hh)
  | err m5 =>
    simp only [safeFinish] at h
    split at h
    · cases h; exact ⟨rfl, rfl⟩
    · rename_i hne
      exact absurd h (by intro hh; exact hne _ hh)
  | crash w m => simp [safeFinish] at h

theorem context_chain_restored_top (econ : Ctx) (link : List Ctx) (r : Res) (m' : M)
    (h : topFinish econ link r = .ok m') : m'.ctxs = link ∧ m'.errState = 0 := by
  cases r with
  | ok m4 => simp only [topFinish] at h; cases h; exact ⟨rfl, rfl⟩
  | err m5 =>
    simp only [topFinish] at h
    split at h
    · cases h; exact ⟨rfl, rfl⟩
    · rename_i hne
      exact absurd h (by intro hh; exact hne _ hh)
  | crash w m => simp [topFinish] at h

/-- **guards_reset.**  `error_handler` resets the load-depth counter and the destruct restriction before anything
    else; when the error is delivered by `longjmp` (second level: no mudlib handler call in between) they are reset
    in the delivered state, and the in_error / in_mudlib_error_handler flags are clear unless the error arrived
    while an error trace was being generated. -/
theorem guards_reset (msg : String) (m m' : M) (h : raiseInner msg m = .err m') :
    m'.loadDepth = 0 ∧ m'.restrictDestruct = 0 ∧ (m.inError = false → m'.inError = false ∧ m'.inMudlibHandler = false) := by
  simp only [raiseInner, longjmp] at h
  repeat' split at h
  all_goals first | cases h | skip
  all_goals simp_all [resetGuards]

example : ∃ m', raiseInner "x" { loadDepth := 3, restrictDestruct := 7, inMudlibHandler := true, ctxs := [{ saveSp := 0, saveCsp := 0, saveCg := 0 }] } = .err m' ∧
    m'.loadDepth = 0 ∧ m'.restrictDestruct = 0 ∧ m'.inMudlibHandler = false := ⟨_, rfl, rfl, rfl, rfl⟩

/-- the installs listed from the source are atomic: a failing call of a site that does not install before its last
    possible error leaves the side state as it was at the moment of the raise -/
theorem install_atomic (site : InstallSite) (hs : site.beforeLastError = false) (m : M) :
    ∀ m1, (tick m).1 = false → (tick m).2 = m1 →
      execOp (.install site true) m = raise site.failMsg m1 := by
  intro m1 h1 h2
  unfold execOp
  simp [h1, h2, hs]

/-- The remaining obligation, NOT proved in Lean (kept as a statement): every op tree, from every state and for every
    position of the fault, ends either normally with both stacks and the chain as they were, or with an error in a
    state that extends the start state with the chain as it was. -/
def ExecKeepsExtension : Prop :=
  ∀ (p : Prog) (m : M), match exec p m with
    | .ok m' => m'.vs = m.vs ∧ m'.cs = m.cs ∧ m'.ctxs = m.ctxs
    | .err m' => (∃ dv dc, Extends m m' dv dc) ∧ m'.ctxs = m.ctxs ∧ m'.loadDepth = 0 ∧ m'.restrictDestruct = 0
    | .crash _ _ => True

end NV.C05
