/-
C05 — property theorems over the model `ErrCtx` (NV/C05/Model.lean).

First part: the recovery primitives on EVERY machine state that extends the state at the save point (value stack and
control stack grown on top of it, by any number of frames of any kind and any slots).
Second part ("unconditional corollaries"): the core induction of NV/C05/Exec.lean shows that every op tree keeps the
machine state an extension of its start state, so the first part applies to every program of the model, every
nesting depth and every position of the injected fault: `exec_keeps_extension`, `top_restores`,
`catch_yields_message_exec`, `guards_reset_first_level`.
-/
import NV.C05.Model
import NV.C05.Lemmas
import NV.C05.Exec
import NV.C05.Guards
import NV.C05.Spec

namespace NV.C05

/-- `m` extends `s`: both stacks of `s` are intact below what was pushed since; `first` is the first frame pushed
    after the save, if any -/
structure Extends (s m : M) (dv : List Slot) (dc : List Frame) : Prop where
  vs : m.vs = dv ++ s.vs
  cs : m.cs = dc ++ s.cs

/-- **restore_is_inverse.**  For every state `m` that extends the state `s` in which `save_context` was called —
    whatever was pushed since: any frames, any temporaries, any handler slots — `restore_context` yields `s` on
    (sp, csp, command_giver) and leaves the error-context chain alone; and it yields `s` on ALL registers provided the
    first frame pushed after the save holds the registers of `s` (i.e. no register was changed between the save and
    that push), or no frame was pushed and the registers are still those of `s`. -/
theorem restore_is_inverse (s m : M) (dv : List Slot) (dc : List Frame) (h : Extends s m dv dc) :
    ∃ m', restoreContext (ctxOf s) m = .ok m' ∧
      m'.vs = s.vs ∧ m'.cs = s.cs ∧ m'.cg = s.cg ∧ m'.ctxs = m.ctxs ∧
      ((dc = [] → m.r = s.r) → (∀ f, dc.getLast? = some f → f.saved = s.r) → m'.r = s.r) := by
  obtain ⟨m', h1, h2, h3, h4, h5, _, h7, h8, _⟩ := restoreContext_ext m dv s.vs dc s.cs s.cg h.vs h.cs s.loadDepth s.restrictDestruct s.lastVerb
  refine ⟨m', h1, h2, h3, h4, h5, ?_⟩
  intro hnil hfirst
  cases hd : dc.getLast? with
  | none =>
    have : dc = [] := by simpa using hd
    rw [h7 this]; exact hnil this
  | some f => rw [h8 f hd]; exact hfirst f hd

/-- non-vacuity: two frames (a function frame over a catch frame) and three slots above the save point -/
def exS : M := { cg := 5, vs := [Slot.val] }
def exM : M := { cg := 9, vs := [Slot.val, Slot.handler 1, Slot.val, Slot.val],
                 cs := [Frame.mk FK.function { co := 3 }, Frame.mk FK.catch_ {}] }
example : Extends exS exM [Slot.val, Slot.handler 1, Slot.val] [Frame.mk FK.function { co := 3 }, Frame.mk FK.catch_ {}] :=
  ⟨rfl, rfl⟩
example : ∃ m', restoreContext (ctxOf exS) exM = .ok m' ∧ m'.vs = [Slot.val] ∧ m'.cs = [] ∧ m'.cg = 5 ∧ m'.r = {} :=
  ⟨_, rfl, rfl, rfl, rfl, rfl⟩

/-- **handlers_run_exactly_once.**  While unwinding, `restore_context` runs exactly the T_ERROR_HANDLER slots of the
    popped segment, each once, top first, and no other. -/
theorem handlers_run_exactly_once (s m : M) (dv : List Slot) (dc : List Frame) (h : Extends s m dv dc) :
    ∃ m', restoreContext (ctxOf s) m = .ok m' ∧ m'.ran = (handlerIds dv).reverse ++ m.ran := by
  obtain ⟨m', h1, _, _, _, _, h6, _⟩ := restoreContext_ext m dv s.vs dc s.cs s.cg h.vs h.cs s.loadDepth s.restrictDestruct s.lastVerb
  exact ⟨m', h1, h6⟩

example : ∃ m', restoreContext (ctxOf {}) { vs := [.handler 2, .val, .handler 7], ran := [1] } = .ok m' ∧ m'.ran = [7, 2, 1] :=
  ⟨_, rfl, rfl⟩

/-- on the normal path the slot is dropped by `sp--` and its handler does NOT run -/
theorem handler_not_run_on_normal_exit (m : M) (id : Nat) (t : List Slot) (h : m.vs = .handler id :: t) :
    ∃ m', dropTop m = some m' ∧ m'.ran = m.ran ∧ m'.vs = t := by
  unfold dropTop; rw [h]; exact ⟨_, rfl, rfl, rfl⟩

/-- **catch_yields_message.**  When the body of a catch ends with an error (longjmp path of do_catch) whose state
    extends the state at the catch point, and the error is not one of the two limit errors, the catch completes, its
    value is the raised message / thrown value (`catch_value`), the chain is the chain before the catch and the
    stacks are those of the catch point. -/
theorem catch_yields_message (s m : M) (dv : List Slot) (dc : List Frame) (link : List Ctx)
    (h : Extends s m dv dc) (hlim : m.errState &&& limitBits = 0) :
    ∃ m', catchFinish (ctxOf s) link (.err m) = .ok m' ∧ m'.lastCatch = m.catchValue ∧ m'.ctxs = link ∧
      m'.vs = s.vs ∧ m'.cs = s.cs ∧ m'.cg = s.cg := by
  obtain ⟨m6, h1, h2, h3, h4, _, _, _, _, _, _, h11, h12, _⟩ := restoreContext_ext m dv s.vs dc s.cs s.cg h.vs h.cs s.loadDepth s.restrictDestruct s.lastVerb
  refine ⟨{ popContext link { pushVals 1 m6 with lastCatch := m6.catchValue, catchValue := .num 1 } with vs := m6.vs }, ?_, ?_, ?_, ?_, ?_, ?_⟩
  · have hlim' : m6.errState &&& limitBits = 0 := by rw [h12]; exact hlim
    have h1' : restoreContext (ctxOf s) m = .ok m6 := h1
    simp [catchFinish, afterCatch, h1', pushVals, popContext, hlim']
  · simp [popContext, h11]
  · simp [popContext]
  · simp [popContext, h2]
  · simp [popContext, pushVals, h3]
  · simp [popContext, pushVals, h4]

/-- what `error_handler` leaves in catch_value for a catch context when the mudlib handler is already running -/
theorem raise_sets_catch_value (msg : String) (m : M) (hc : catchable (resetGuards m) = true)
    (hh : m.inMudlibHandler = true) :
    ∃ m', raise msg m = .err m' ∧ m'.catchValue = .msg msg := by
  have hne : (resetGuards m).ctxs ≠ [] := by
    intro h; simp [catchable, h] at hc
  unfold raise
  simp only [hc, ↓reduceIte]
  have : (resetGuards m).inMudlibHandler = true := by simp [resetGuards, hh]
  simp only [this, ↓reduceIte, longjmp]
  cases hcx : (resetGuards m).ctxs with
  | nil => exact absurd hcx hne
  | cons c t => exact ⟨_, rfl, rfl⟩

/-- a thrown value reaches a catch context unchanged -/
theorem throw_sets_catch_value (v : String) (m : M) (hc : catchable m = true) :
    ∃ m', throwVal v m = .err m' ∧ m'.catchValue = .thrown v := by
  have hne : m.ctxs ≠ [] := by
    intro h; simp [catchable, h] at hc
  unfold throwVal
  simp only [hc, ↓reduceIte, longjmp]
  cases hcx : m.ctxs with
  | nil => exact absurd hcx hne
  | cons c t => exact ⟨_, rfl, rfl⟩

/-- **context_chain_restored.**  After a catch, a safe_apply or a driver-level recovery — whichever way the body
    ended — the error-context chain is the chain that was current before (`pop_context` relinks it), and the error
    state bits are cleared. -/
theorem longjmp_not_ok (m m' : M) : longjmp m ≠ .ok m' := by
  unfold longjmp; split <;> simp

/-- `error_handler` never returns -/
theorem raise_not_ok (msg : String) (m m' : M) : raise msg m ≠ .ok m' := by
  simp only [raise]
  repeat' split
  all_goals first | exact longjmp_not_ok _ _ | (intro h; simp_all)

theorem context_chain_restored_catch (econ : Ctx) (link : List Ctx) (r : Res) (m' : M)
    (h : catchFinish econ link r = .ok m') : m'.ctxs = link ∧ m'.errState = 0 := by
  cases r with
  | ok m4 =>
    simp only [catchFinish] at h
    split at h
    · cases h
    · simp only [afterCatch] at h
      split at h
      · cases h
      · cases h; exact ⟨rfl, rfl⟩
  | err m5 =>
    simp only [catchFinish] at h
    split at h
    · split at h
      · split at h <;> exact absurd h (raise_not_ok _ _ _)
      · simp only [afterCatch] at h
        split at h
        · cases h
        · cases h; exact ⟨rfl, rfl⟩
    · rename_i hne
      exact absurd h (by intro hh; exact hne _ hh)
  | crash w m => simp [catchFinish] at h

theorem context_chain_restored_safe (econ : Ctx) (link : List Ctx) (d : Nat) (r : Res) (m' : M)
    (h : safeFinish econ link d r = .ok m') : m'.ctxs = link ∧ m'.errState = 0 := by
  cases r with
  | ok m4 =>
    simp only [safeFinish] at h
    split at h
    · split at h
      · cases h; exact ⟨rfl, rfl⟩
      · cases h
    · rename_i hne
      exact absurd h (by intro hh; exact hne _ hh)
  | err m5 =>
    simp only [safeFinish] at h
    split at h
    · cases h; exact ⟨rfl, rfl⟩
    · rename_i hne
      exact absurd h (by intro hh; exact hne _ hh)
  | crash w m => simp [safeFinish] at h

theorem context_chain_restored_top (econ : Ctx) (link : List Ctx) (r : Res) (m' : M)
    (h : topFinish econ link r = .ok m') : m'.ctxs = link ∧ m'.errState = 0 := by
  cases r with
  | ok m4 => simp only [topFinish] at h; cases h; exact ⟨rfl, rfl⟩
  | err m5 =>
    simp only [topFinish] at h
    split at h
    · cases h; exact ⟨rfl, rfl⟩
    · rename_i hne
      exact absurd h (by intro hh; exact hne _ hh)
  | crash w m => simp [topFinish] at h

/-- **guards_reset.**  `error_handler` resets the load-depth counter and the destruct restriction before anything
    else; when the error is delivered by `longjmp` (second level: no mudlib handler call in between) they are reset
    in the delivered state, and the in_error / in_mudlib_error_handler flags are clear unless the error arrived
    while an error trace was being generated. -/
theorem guards_reset (msg : String) (m m' : M) (h : raiseInner msg m = .err m') :
    m'.loadDepth = 0 ∧ m'.restrictDestruct = 0 ∧ (m.inError = false → m'.inError = false ∧ m'.inMudlibHandler = false) := by
  have hb : ∀ x : M, (hbOffStep x).loadDepth = x.loadDepth ∧ (hbOffStep x).restrictDestruct = x.restrictDestruct ∧
      (hbOffStep x).inError = x.inError ∧ (hbOffStep x).inMudlibHandler = x.inMudlibHandler := by
    intro x; unfold hbOffStep; split <;> exact ⟨rfl, rfl, rfl, rfl⟩
  simp only [raiseInner, longjmp] at h
  repeat' split at h
  all_goals first | cases h | skip
  all_goals first
    | (simp_all [resetGuards]; done)
    | (obtain ⟨h1, h2, h3, h4⟩ := hb { resetGuards m with inError := false, inMudlibHandler := false }
       refine ⟨h1, h2, fun _ => ⟨h3, h4⟩⟩)

example : ∃ m', raiseInner "x" { loadDepth := 3, restrictDestruct := 7, inMudlibHandler := true, ctxs := [{ saveSp := 0, saveCsp := 0, saveCg := 0 }] } = .err m' ∧
    m'.loadDepth = 0 ∧ m'.restrictDestruct = 0 ∧ m'.inMudlibHandler = false := ⟨_, rfl, rfl, rfl, rfl⟩

/-- the installs listed from the source are atomic: a failing call of a site that does not install before its last
    possible error leaves the side state as it was at the moment of the raise -/
theorem install_atomic (site : InstallSite) (hs : site.beforeLastError = false) (m : M) :
    ∀ m1, (tick m).1 = false → (tick m).2 = m1 →
      execOp (.install site true) m = raise site.failMsg m1 := by
  intro m1 h1 h2
  unfold execOp
  simp [h1, h2, hs, execCore]

/-! ### unconditional corollaries of the core induction (`NV/C05/Exec.lean`) -/

/-- **The core induction.**  Every op tree (calls of every kind, callbacks, temporaries, handler slots, nested catch
    and safe_apply, load/destruct hooks, raises, throws and the injected fault at any position), from every machine
    state: it ends normally with both stacks and the chain as they were, or with an error in a state that EXTENDS the
    start state with the chain as it was; it crashes only when no error context exists at all. -/
theorem exec_keeps_extension (p : Prog) (m : M) :
    match exec p m with
    | .ok m' => m'.vs = m.vs ∧ m'.cs = m.cs ∧ m'.ctxs = m.ctxs
    | .err m' => (∃ dv dc, Extends m m' dv dc) ∧ m'.ctxs = m.ctxs
    | .crash _ _ => m.ctxs = [] := by
  have h := exec_good p m
  cases hr : exec p m with
  | ok m' => rw [hr] at h; exact ⟨h.vs, h.cs, h.ctxs⟩
  | err m' =>
    rw [hr] at h
    obtain ⟨dv, hv⟩ := h.vs
    obtain ⟨dc, hc⟩ := h.cs
    exact ⟨⟨dv, dc, ⟨hv, hc⟩⟩, h.ctxs⟩
  | crash w m' => rw [hr] at h; exact h

/-- **guards_reset, first level.**  Whatever `error_handler` goes through — mudlib handler called or not, completed
    or itself faulted — it never returns, and the error is delivered with `num_objects_this_thread = 0` and
    `restrict_destruct = NULL` in a state extending the state of the raise. -/
theorem guards_reset_first_level (msg : String) (m : M) :
    match raise msg m with
    | .ok _ => False
    | .err m' => m'.loadDepth = 0 ∧ m'.restrictDestruct = 0 ∧ m'.ctxs = m.ctxs
    | .crash _ _ => m.ctxs = [] := by
  have h := raise_rspec msg (Same.rfl' m).toExt
  cases hr : raise msg m with
  | ok m' => rw [hr] at h; exact h
  | err m' => rw [hr] at h; exact ⟨h.2.1, h.2.2, h.1.ctxs⟩
  | crash w m' => rw [hr] at h; exact h

theorem popStack_r {m m' : M} (h : popStack m = some m') : m'.r = m.r ∧ m'.cg = m.cg := by
  unfold popStack at h
  split at h
  · cases h
  · cases h; exact ⟨rfl, rfl⟩
  · cases h; exact ⟨rfl, rfl⟩

theorem popN_r : ∀ (n : Nat) (m m' : M), popN n m = some m' → m'.r = m.r ∧ m'.cg = m.cg
  | 0, m, m', h => by simp only [popN] at h; cases h; exact ⟨rfl, rfl⟩
  | n + 1, m, m', h => by
    simp only [popN] at h
    split at h
    · cases h
    · rename_i m1 h1
      have a := popStack_r h1
      have b := popN_r n m1 m' h
      exact ⟨b.1.trans a.1, b.2.trans a.2⟩

/-- **restore_is_inverse / context_chain_restored, unconditional, driver level.**  For EVERY program `p`, every
    object, every fault position `k` and every state `m0` in which `save_context` succeeds: the driver-level
    evaluation (save_context; apply; recovery by restore_context after a longjmp; pop_context) never crashes and ends
    with the value stack, the control stack, the error-context chain and ALL registers of `m0`; when the evaluation
    failed, command_giver is that of `m0` as well. -/
theorem top_restores (ob : Val) (p : Prog) (k : Nat) (m0 m1 : M) (econ : Ctx)
    (hs : saveContext m0 = some (econ, m1)) :
    ∃ m', topFinish econ m0.ctxs (topBody ob p { m1 with fault := k }) = .ok m' ∧
      m'.vs = m0.vs ∧ m'.cs = m0.cs ∧ m'.ctxs = m0.ctxs ∧ m'.r = m0.r ∧
      ((∃ me, topBody ob p { m1 with fault := k } = .err me) → m'.cg = m0.cg) ∧
      m'.loadDepth = m0.loadDepth ∧ m'.restrictDestruct = m0.restrictDestruct := by
  obtain ⟨he, h1v, h1c, h1x, h1g⟩ := saveContext_spec hs
  subst he
  let mk : M := { m1 with fault := k }
  let m2 : M := enterCall (.other ob) 0 mk
  have hm2v : m2.vs = m0.vs := h1v
  have hm2c : m2.cs = ⟨.function, m1.r⟩ :: m0.cs := by show _ :: m1.cs = _; rw [h1c]
  have hm2x : m2.ctxs = _ :: m0.ctxs := h1x
  have hr1 : m1.r = m0.r := by
    simp only [saveContext] at hs
    split at hs
    · cases hs
    · cases hs; rfl
  have hb : Good m2 (thenTick (exec p m2)) := thenTick_good (exec_good p m2)
  obtain ⟨_, _, hg1, hg2⟩ := saveContext_guards hs
  have hgk : GuardsKept m0 (callFinish (.other ob) 0 (thenTick (exec p m2))) :=
    callFinish_guardsKept (thenTick_guardsKept (GuardsKept.of_eq (m1 := m2) hg1 hg2 (exec_guards p m2)))
  show ∃ m', topFinish _ m0.ctxs (callFinish (.other ob) 0 (thenTick (exec p m2))) = .ok m' ∧ _
  cases hr : thenTick (exec p m2) with
  | ok m4 =>
    rw [hr] at hb
    obtain ⟨m1', hp, h1v', h1c', h1x'⟩ := popN_exact (n := 0) (m := m4) (dv0 := []) (rest := m0.vs)
      (by simp [hb.vs, hm2v]) rfl
    have hp0 : popN 0 m4 = some m4 := rfl
    obtain ⟨m3, hp3, h3c, h3v, h3x⟩ := popFrame_cons (m := pushVals 1 m4) (f := ⟨.function, m1.r⟩) (rest := m0.cs)
      (by show m4.cs = _; rw [hb.cs, hm2c])
    have h3r : m3.r = m1.r := by
      unfold popFrame at hp3
      have : (pushVals 1 m4).cs = ⟨.function, m1.r⟩ :: m0.cs := by show m4.cs = _; rw [hb.cs, hm2c]
      rw [this] at hp3; cases hp3; rfl
    obtain ⟨m6, hp6, h6v, h6c, h6x⟩ := popN_exact (n := 1) (m := m3) (dv0 := [Slot.val]) (rest := m0.vs)
      (by rw [h3v]; show List.replicate 1 Slot.val ++ m4.vs = _; rw [hb.vs, hm2v]; rfl) rfl
    have h6r := popN_r 1 m3 m6 hp6
    have hne : (framesOf (.other ob) == 2) = false := rfl
    have hcf : callFinish (.other ob) 0 (.ok m4) = .ok m6 := by
      simp only [callFinish, leaveCall, hp0, hp3, hne, Bool.false_eq_true, ↓reduceIte, hp6]
    rw [hr, hcf] at hgk
    refine ⟨popContext m0.ctxs m6, ?_, h6v, h6c.trans h3c, rfl, h6r.1.trans (h3r.trans hr1), ?_, hgk.1, hgk.2⟩
    · simp only [callFinish, leaveCall, hp0, hp3, hne, Bool.false_eq_true, ↓reduceIte, hp6, topFinish]
    · rintro ⟨me, hme⟩
      have hme' : callFinish (.other ob) 0 (thenTick (exec p m2)) = .err me := hme
      rw [hr] at hme'
      simp only [callFinish, leaveCall, hp0, hp3, hne, Bool.false_eq_true, ↓reduceIte, hp6] at hme'
      cases hme'
  | err m4 =>
    rw [hr] at hb
    obtain ⟨dv, hdv⟩ := hb.vs
    obtain ⟨dc, hdc⟩ := hb.cs
    obtain ⟨m5, h1, h2, h3, h4, _, _, _, h8, h9, h10, _⟩ := restoreContext_ext m4 dv m0.vs (dc ++ [⟨.function, m1.r⟩]) m0.cs m0.cg
      (by rw [hdv, hm2v]) (by rw [hdc, hm2c]; simp) m0.loadDepth m0.restrictDestruct m0.lastVerb
    have h1 : restoreContext (ctxOf m0) m4 = .ok m5 := h1
    have hr5 : m5.r = m1.r := h8 ⟨.function, m1.r⟩ (by simp)
    refine ⟨popContext m0.ctxs m5, ?_, h2, h3, rfl, hr5.trans hr1, fun _ => h4, h9, h10⟩
    simp only [callFinish, topFinish, h1]
  | crash w m4 =>
    rw [hr] at hb
    have : m2.ctxs = [] := hb
    rw [hm2x] at this; cases this

/-- **catch_yields_message, unconditional.**  For EVERY body: when the body of a catch (including its F_END_CATCH)
    ends with an error that is not a limit error, the catch completes with the raised message / thrown value, and both
    stacks and the chain are those of the catch point — no hypothesis about the state of the error is needed any more. -/
theorem catch_yields_message_exec (body : Prog) (m m1 m5 : M) (econ : Ctx)
    (hs : saveContext m = some (econ, m1))
    (hb : thenTick (exec body { pushFrame .catch_ m1 with catchValue := .num 1 }) = .err m5)
    (hlim : m5.errState &&& limitBits = 0) :
    ∃ m', execCore (.catch_ body) m = .ok m' ∧ m'.lastCatch = m5.catchValue ∧
      m'.vs = m.vs ∧ m'.cs = m.cs ∧ m'.ctxs = m.ctxs ∧ m'.cg = m.cg := by
  obtain ⟨he, h1v, h1c, h1x, h1g⟩ := saveContext_spec hs
  have hg := thenTick_good (exec_good body { pushFrame .catch_ m1 with catchValue := .num 1 })
  rw [hb] at hg
  obtain ⟨dv, hdv⟩ := hg.vs
  obtain ⟨dc, hdc⟩ := hg.cs
  have hext : Extends m m5 dv (dc ++ [⟨.catch_, m1.r⟩]) :=
    ⟨by rw [hdv]; show _ ++ m1.vs = _; rw [h1v], by rw [hdc]; show _ ++ (_ :: m1.cs) = _; rw [h1c]; simp⟩
  obtain ⟨m', h1, h2, h3, h4, h5, h6⟩ := catch_yields_message m m5 dv _ m.ctxs hext hlim
  refine ⟨m', ?_, h2, h4, h5, h3, h6⟩
  simp only [execCore, hs, hb]
  rw [he]; exact h1

/-! ### save_context refusing (control stack full) -/

/-- save_context refuses exactly when the control stack holds MaxCallDepth frames (`csp == &control_stack[MAX-1]`);
    a refusal returns before anything is stored or linked: there is no new state, the caller continues in `m` -/
theorem saveContext_refuses_iff (m : M) : saveContext m = none ↔ m.maxDepth ≤ m.cs.length := by
  unfold saveContext
  constructor
  · intro h
    split at h
    · assumption
    · cases h
  · intro h
    simp [h]

/-- do_catch when save_context refuses: `error("*Can't catch too deep recursion error.")` raised in the unchanged state -/
theorem catch_refused (body : Prog) (m : M) (h : saveContext m = none) :
    execCore (.catch_ body) m = raise "*Can't catch too deep recursion error." m := by
  simp only [execCore, h]

/-- safe_apply when save_context refuses: the function is not applied, the arguments are dropped, and both stacks
    and the error-context chain are exactly as before the call -/
theorem safeApply_refused (nargs declared : Nat) (body : Prog) (m : M) (h : saveContext (pushVals nargs m) = none) :
    ∃ m', execCore (.safeApply nargs declared body) m = .ok m' ∧ m'.vs = m.vs ∧ m'.cs = m.cs ∧ m'.ctxs = m.ctxs := by
  obtain ⟨m2, hp, h2v, h2c, h2x⟩ := popN_exact (n := nargs) (m := pushVals nargs m) (rest := m.vs) rfl (by simp)
  exact ⟨m2, by simp only [execCore, h, hp], h2v, h2c, h2x⟩

/-- **restore_is_inverse for all arities (safe_apply).**  For EVERY number of passed arguments and EVERY number of
    declared parameters (surplus arguments dropped on entry, missing ones added), every body and every fault position:
    safe_apply completes — it absorbs every error of the applied function — with the value stack exactly as it was
    before the arguments were pushed, the control stack and the error-context chain as they were, and both guards. -/
theorem safeApply_all_arities (nargs declared : Nat) (body : Prog) (m : M) :
    ∃ m', execCore (.safeApply nargs declared body) m = .ok m' ∧
      m'.vs = m.vs ∧ m'.cs = m.cs ∧ m'.ctxs = m.ctxs ∧
      m'.loadDepth = m.loadDepth ∧ m'.restrictDestruct = m.restrictDestruct := by
  have hg := execCore_guards (.safeApply nargs declared body) m
  have key : ∃ m', execCore (.safeApply nargs declared body) m = .ok m' ∧ Same m m' := by
    simp only [execCore]
    split
    · obtain ⟨m2, hp, h2v, h2c, h2x⟩ := popN_exact (n := nargs) (m := pushVals nargs m) (rest := m.vs) rfl (by simp)
      exact ⟨m2, by simp only [hp], ⟨h2v, h2c, h2x⟩⟩
    · rename_i econ0 m2 hs
      obtain ⟨he, h1v, h1c, h1x, h1g⟩ := saveContext_spec hs
      obtain ⟨ev, ex, fs, efl, ec⟩ := enterCall_spec (.other masterVal) declared m2
      obtain ⟨m3, ha, h3v, h3c, h3x⟩ := adjustArgs_spec (nargs := nargs) (declared := declared)
        (m1 := enterCall (.other masterVal) declared m2) (rest := m.vs) (ev.trans h1v)
      simp only [ha]
      have hctx : safeCtx nargs econ0 = ctxOf m := by
        rw [he]; simp [safeCtx, pushVals, ctxOf]
      rw [hctx]
      match fs, efl with
      | [f], _ =>
        exact safeFinish_total (f := f) (e0 := econ0) h3v (by rw [h3c, ec, h1c]; rfl) (by rw [h3x, ex, h1x]; rfl)
          (thenTick_good (exec_good body m3))
  obtain ⟨m', h1, hs⟩ := key
  rw [h1] at hg
  exact ⟨m', h1, hs.vs, hs.cs, hs.ctxs, hg.1, hg.2⟩

/-- **restore_is_inverse for all arities (calls of every kind).**  A call of any kind with any number of passed and
    declared arguments either completes with both stacks and the chain as before the arguments were pushed, or
    raises in a state extending the start state (so `restore_context` of any enclosing recovery point is exact). -/
theorem call_all_arities (k : CallKind) (nargs declared : Nat) (body : Prog) (m : M) :
    match execCore (.call k nargs declared body) m with
    | .ok m' => m'.vs = m.vs ∧ m'.cs = m.cs ∧ m'.ctxs = m.ctxs
    | .err m' => (∃ dv dc, Extends m m' dv dc) ∧ m'.ctxs = m.ctxs
    | .crash _ _ => m.ctxs = [] := by
  have h := execCore_good (.call k nargs declared body) m
  cases hr : execCore (.call k nargs declared body) m with
  | ok m' => rw [hr] at h; exact ⟨h.vs, h.cs, h.ctxs⟩
  | err m' =>
    rw [hr] at h
    obtain ⟨dv, hv⟩ := h.vs
    obtain ⟨dc, hc⟩ := h.cs
    exact ⟨⟨dv, dc, ⟨hv, hc⟩⟩, h.ctxs⟩
  | crash w m' => rw [hr] at h; exact h

/-- **context_chain_restored for runs that hit the refusal** (and every other run): whatever an op does — including a
    catch or a safe apply placed exactly where save_context refuses — if it completes, the chain is the chain before;
    if it raises, the chain is the chain before.  (`exec_good` specialised to one op, stated for the chain.) -/
theorem context_chain_restored_any (o : Op) (m : M) :
    match execOp o m with
    | .ok m' => m'.ctxs = m.ctxs
    | .err m' => m'.ctxs = m.ctxs
    | .crash _ _ => m.ctxs = [] := by
  have h := execOp_good_of (execCore_good o) m
  cases hr : execOp o m with
  | ok m' => rw [hr] at h; exact h.ctxs
  | err m' => rw [hr] at h; exact h.ctxs
  | crash w m' => rw [hr] at h; exact h

/-! ### top theorem: the model satisfies the oracle -/

/-- the snapshot the harness prints, as data -/
def obsOf (m : M) : Obs :=
  { sp := m.vs.length, csp := m.cs.length, ctx := m.ctxs.length, cg := m.cg, co := m.r.co, po := m.r.prevOb,
    prog := m.r.prog, ct := m.r.callerType, fp := m.r.fp, pc := m.r.pc, fio := m.r.fio, vio := m.r.vio,
    ld := m.loadDepth, rd := m.restrictDestruct }

def isErr : Res → Bool
  | .err _ => true
  | _ => false

/-- one driver-level evaluation of the model, as the oracle sees it -/
def observeTop (ob : Val) (p : Prog) (k : Nat) (m0 : M) : TopObs :=
  match saveContext m0 with
  | none => { before := obsOf m0, after := obsOf m0, failed := false, crashed := false }   -- "too deep": nothing ran
  | some (econ, m1) =>
    let r := topBody ob p { m1 with fault := k }
    match topFinish econ m0.ctxs r with
    | .ok m' => { before := obsOf m0, after := obsOf m', failed := isErr r, crashed := false }
    | .err m' => { before := obsOf m0, after := obsOf m', failed := true, crashed := true }
    | .crash _ m' => { before := obsOf m0, after := obsOf m', failed := true, crashed := true }

/-- **model_satisfies_spec.**  For every program, object, fault position and start state, the register clauses of the
    specification oracle find nothing on the model's driver-level evaluation.  (The string-level judge applied to
    implementation traces compares exactly these fields, parsed from the snapshot text.) -/
theorem model_satisfies_spec (ob : Val) (p : Prog) (k : Nat) (m0 : M) : judgeObs (observeTop ob p k m0) = [] := by
  unfold observeTop
  cases hs : saveContext m0 with
  | none => simp [judgeObs]
  | some em =>
    obtain ⟨econ, m1⟩ := em
    obtain ⟨m', h1, hv, hc, hx, hr, hcg, hld, hrd⟩ := top_restores ob p k m0 m1 econ hs
    simp only [h1]
    have hcg' : isErr (topBody ob p { m1 with fault := k }) = true → m'.cg = m0.cg := by
      intro he
      cases hb : topBody ob p { m1 with fault := k } with
      | err me => exact hcg ⟨me, hb⟩
      | ok _ => rw [hb] at he; cases he
      | crash _ _ => rw [hb] at he; cases he
    cases he : isErr (topBody ob p { m1 with fault := k }) with
    | false => simp [judgeObs, obsOf, hv, hc, hx, hr, hld, hrd]
    | true => simp [judgeObs, obsOf, hv, hc, hx, hr, hld, hrd, hcg' he]

/-! ### negative examples: the oracle rejects what it should reject (one per clause of `judgeObs`) -/

def obs0 : Obs := { sp := 3, csp := 2, ctx := 1, cg := 4, co := 5, po := 6, prog := 7, ct := 1, fp := 2, pc := 9, fio := 0, vio := 0, ld := 0, rd := 0 }
def okRun : TopObs := { before := obs0, after := obs0, failed := true, crashed := false }

example : judgeObs okRun = [] := by decide
example : judgeObs { okRun with crashed := true } ≠ [] := by decide
example : judgeObs { okRun with after := { obs0 with sp := 4 } } ≠ [] := by decide          -- a leaked value-stack slot
example : judgeObs { okRun with after := { obs0 with csp := 3 } } ≠ [] := by decide         -- a frame left behind
example : judgeObs { okRun with after := { obs0 with ctx := 2 } } ≠ [] := by decide         -- chain not relinked
example : judgeObs { okRun with after := { obs0 with cg := 0 } } ≠ [] := by decide          -- command_giver after a failure
example : judgeObs { okRun with failed := false, after := { obs0 with cg := 0 } } = [] := by decide  -- … legitimate when it completed
example : judgeObs { okRun with after := { obs0 with co := 0 } } ≠ [] := by decide
example : judgeObs { okRun with after := { obs0 with po := 0 } } ≠ [] := by decide
example : judgeObs { okRun with after := { obs0 with prog := 0 } } ≠ [] := by decide
example : judgeObs { okRun with after := { obs0 with ct := 0 } } ≠ [] := by decide
example : judgeObs { okRun with after := { obs0 with fp := 0 } } ≠ [] := by decide
example : judgeObs { okRun with after := { obs0 with pc := 0 } } ≠ [] := by decide
example : judgeObs { okRun with after := { obs0 with fio := 1 } } ≠ [] := by decide
example : judgeObs { okRun with after := { obs0 with vio := 1 } } ≠ [] := by decide
example : judgeObs { okRun with after := { obs0 with ld := -1 } } ≠ [] := by decide         -- load-depth guard
example : judgeObs { okRun with after := { obs0 with rd := 7 } } ≠ [] := by decide          -- destruct restriction left set

end NV.C05
