/-
C05 — executable model `ErrCtx` of the error-recovery machinery of the driver:

  src/frame.c          push_control_stack / pop_control_stack / do_catch, error_state bits
  src/error_context.c  save_context / restore_context / pop_context / error_handler / throw_error
  src/apply.c          apply_low (frame push + register set-up), safe_apply
  lib/lpc/functional.c setup_fake_frame / call_function_pointer
  lib/lpc/svalue.c     free_svalue on a T_ERROR_HANDLER slot (run while popping values)
  src/simulate.c       reset_load_object_limits / reset_destruct_object_limits, input_to/get_char
  src/interpret.c      F_CATCH / F_END_CATCH, hook H2 (fault countdown at instruction dispatch)

Registers are opaque values (`Val`); the value stack and the control stack are lists (top first), so
`sp`/`csp` are their lengths.  Programs are trees of ops (`Op`/`Prog`, mutual), executed big-step by `exec`:
the result `Res.err m` is "a longjmp to the current error context is in flight, machine state `m`".
A C access that would be out of range (popping more values than exist, `pop_n_elems` of a negative
difference, no error context for the longjmp) is the explicit outcome `Res.crash`.
-/
import NV.Gen.C05

namespace NV.C05

abbrev Val := Nat

/-- the registers saved by `push_control_stack` and restored by `pop_control_stack` (frame.c) -/
structure Saved where
  co : Val := 0          -- current_object
  prevOb : Val := 0      -- previous_ob
  prog : Val := 0        -- current_prog
  callerType : Val := 0  -- caller_type
  fp : Val := 0
  pc : Val := 0
  fio : Val := 0         -- function_index_offset
  vio : Val := 0         -- variable_index_offset
  deriving DecidableEq, Repr, Inhabited

/-- frame kinds; the numeric codes are regenerated from src/interpret.h -/
inductive FK | function | funp | catch_ | fake
  deriving DecidableEq, Repr, Inhabited

def FK.code : FK → Nat
  | .function => Gen.C05.frameFunction
  | .funp => Gen.C05.frameFunp
  | .catch_ => Gen.C05.frameCatch
  | .fake => Gen.C05.frameFake

structure Frame where
  kind : FK
  saved : Saved
  deriving DecidableEq, Repr, Inhabited

/-- a value-stack slot: an ordinary value or a T_ERROR_HANDLER slot (its handler runs when it is popped) -/
inductive Slot | val | handler (id : Nat)
  deriving DecidableEq, Repr, Inhabited

/-- what `save_context` stores in an `error_context_t` (the link to the previous context is the list tail) -/
structure Ctx where
  saveSp : Nat       -- number of values on the stack
  saveCsp : Nat      -- number of frames on the control stack
  saveCg : Val       -- command_giver
  saveLd : Int := 0  -- num_objects_this_thread (load_object nesting guard)
  saveRd : Val := 0  -- restrict_destruct
  saveVerb : Val := 0 -- last_verb (what query_verb() yields)
  deriving DecidableEq, Repr, Inhabited

/-- catch_value / the value a catch expression yields -/
inductive CV | num (n : Nat) | msg (s : String) | thrown (s : String)
  deriving DecidableEq, Repr, Inhabited

/-- observable events (the VL lines of the LPC side) -/
inductive Ev
  | say (s : String)
  | handler (caught : Bool) (msg : String)     -- master::error_handler(m, caught)
  | catchLog (v : CV)                           -- VL("catch " + e)
  deriving DecidableEq, Repr, Inhabited

structure M where
  cg : Val := 0                  -- command_giver
  r : Saved := {}
  vs : List Slot := []           -- value stack, top first
  cs : List Frame := []          -- control stack, top first
  ctxs : List Ctx := []          -- error-context chain, current_error_context first
  catchValue : CV := .num 0
  lastCatch : CV := .num 0       -- the LPC variable the catch result was assigned to
  errState : Nat := 0            -- ES_* bits
  loadDepth : Int := 0           -- num_objects_this_thread
  restrictDestruct : Val := 0    -- restrict_destruct
  inError : Bool := false
  inMudlibHandler : Bool := false
  ran : List Nat := []           -- T_ERROR_HANDLER slots executed, newest first
  installed : List String := []  -- side state outside the registers (input_to sentence, ...)
  fault : Nat := 0               -- H2 countdown; 0 = disarmed
  shape : Option String := none  -- control stack shape at the injected fault
  out : List Ev := []            -- newest first
  maxDepth : Nat := 50           -- __MAX_CALL_DEPTH__ (rc.cpp default; `maxdepth <n>` lowers it per case)
  staleCatch : Bool := false     -- what a read of the (stale) frame above csp yields for "is it FRAME_CATCH"
  lastVerb : Val := 0            -- last_verb (simulate.c): the verb of the command being executed, 0 = none
  masterName : Val := 1          -- master_ob->name (an opaque value; 0 = the empty string "")
  simulName : Val := 2           -- simul_efun_ob->name
  savedMasterName : Val := 0     -- static saved_master_name (simulate.c): what fix_object_names puts back
  savedSimulName : Val := 0      -- static saved_simul_name
  efunCtx : List Nat := []       -- the contexts efuns keep in file-scope lists across their callbacks (sort_ctx_top / sort_array_ftc,
                                 -- g_u_list, g_u_m_list): innermost first; every one has a T_ERROR_HANDLER slot that unlinks the HEAD
  numVarargs : Nat := 0          -- num_varargs (interpret.c): arguments added by `...` spreads that the next call / efun /
                                 -- array literal instruction adds to its count; cleared by that instruction and by restore_context
  hbCur : Val := 0               -- current_heart_beat (backend.c): the object whose heart_beat() is running, 0 = none
  hbOff : List Val := []         -- objects whose heart beat error_handler has switched off (set_heart_beat (ob, 0)), newest first
  deriving Repr, Inhabited

inductive Res
  | ok (m : M)
  | err (m : M)
  | crash (why : String) (m : M)
  deriving Repr, Inhabited

def injectedMsg : String := "*verif injected fault"

/-! ### stacks -/

/-- push_control_stack after its depth test -/
def pushFrame (k : FK) (m : M) : M := { m with cs := ⟨k, m.r⟩ :: m.cs }

/-- pop_control_stack: restore the registers saved in the top frame -/
def popFrame (m : M) : Option M :=
  match m.cs with
  | [] => none
  | f :: rest => some { m with r := f.saved, cs := rest }

/-- the id of the T_ERROR_HANDLER slot whose handler is `fix_object_names` (destruct_object of a vital object) -/
def fixNamesId : Nat := 0

/-- what the handler of a T_ERROR_HANDLER slot does besides being recorded in `ran`: `fix_object_names` puts the two
    recorded names back (`master_ob->name = saved_master_name; simul_efun_ob->name = saved_simul_name;`); the handlers of
    unique_array / sort_array / unique_mapping / parse_command only release C memory -/
def runSlotHandler (id : Nat) (m : M) : M :=
  { m with masterName := if id == fixNamesId then m.savedMasterName else m.masterName,
           simulName := if id == fixNamesId then m.savedSimulName else m.simulName,
           -- sort_array_unlink / unique_array_error_handler / unique_mapping_error_handler: unlink the head of the list
           efunCtx := if id == fixNamesId then m.efunCtx else m.efunCtx.tail }

/-- pop_stack: free_svalue runs the handler of a T_ERROR_HANDLER slot -/
def popStack (m : M) : Option M :=
  match m.vs with
  | [] => none
  | .val :: t => some { m with vs := t }
  | .handler id :: t => some (runSlotHandler id { m with vs := t, ran := id :: m.ran })

def popN : Nat → M → Option M
  | 0, m => some m
  | n + 1, m => match popStack m with
    | none => none
    | some m' => popN n m'

def pushVals (n : Nat) (m : M) : M := { m with vs := List.replicate n Slot.val ++ m.vs }

/-- `sp--` : drop the top slot WITHOUT freeing it (normal exit of efuns that pushed a handler slot) -/
def dropTop (m : M) : Option M :=
  match m.vs with
  | [] => none
  | _ :: t => some { m with vs := t }

/-! ### error contexts (error_context.c) -/

/-- save_context: fails (returns 0) when the control stack is full -/
def saveContext (m : M) : Option (Ctx × M) :=
  if m.cs.length ≥ m.maxDepth then none
  else
    let e : Ctx := { saveSp := m.vs.length, saveCsp := m.cs.length, saveCg := m.cg,
                     saveLd := m.loadDepth, saveRd := m.restrictDestruct, saveVerb := m.lastVerb }
    some (e, { m with ctxs := e :: m.ctxs })

/-- pop_context: unlink (`current_error_context = econ->save_context`, here the chain the construct remembered
    when it saved) and clear the error state -/
def popContext (link : List Ctx) (m : M) : M := { m with ctxs := link, errState := 0 }

/-- restore_context, exactly as coded: command_giver, the two guards (restore_object_limits), last_verb, `num_varargs = 0`; if csp > save_csp then csp = save_csp + 1 and ONE
    pop_control_stack; then pop_n_elems (sp - save_sp) — a negative difference converts to a huge size_t -/
def restoreContext (e : Ctx) (m : M) : Res :=
  let m1 := { m with cg := e.saveCg, loadDepth := e.saveLd, restrictDestruct := e.saveRd, lastVerb := e.saveVerb, numVarargs := 0 }
  let m2? : Option M :=
    if m1.cs.length > e.saveCsp then
      popFrame { m1 with cs := m1.cs.drop (m1.cs.length - (e.saveCsp + 1)) }
    else some m1
  match m2? with
  | none => .crash "pop_control_stack on empty control stack" m1
  | some m2 =>
    if m2.vs.length < e.saveSp then .crash "pop_n_elems((size_t)negative): value stack underflow" m2
    else match popN (m2.vs.length - e.saveSp) m2 with
      | none => .crash "value stack underflow" m2
      | some m3 => .ok m3

/-! ### hook H2 and shapes -/

def FK.letter : FK → String
  | .function => "F" | .funp => "P" | .catch_ => "C" | .fake => "K"

def shapeOf (m : M) : String :=
  String.join (m.cs.reverse.map (fun f => f.kind.letter)) ++ "|" ++ toString m.ctxs.length

/-- one dispatched instruction: returns true when the injected fault fires here.  No LPC instruction is ever
    dispatched while a fake (function pointer) frame is on top. -/
def tick (m : M) : Bool × M :=
  match m.cs with
  | [] => (false, m)             -- no frame: C code of the driver is running, not LPC
  | ⟨.fake, _⟩ :: _ => (false, m)
  | _ =>
    if m.fault == 1 then (true, { m with fault := 0, shape := some (shapeOf m) })
    else (false, { m with fault := m.fault - 1 })

/-! ### error_handler -/

/-- `((current_error_context->save_csp + 1)->framekind & FRAME_MASK) == FRAME_CATCH` -/
def catchable (m : M) : Bool :=
  match m.ctxs with
  | [] => false
  | c :: _ =>
    if c.saveCsp < m.cs.length then
      match m.cs[m.cs.length - 1 - c.saveCsp]? with
      | some f => f.kind == .catch_
      | none => false
    else m.staleCatch

def resetGuards (m : M) : M := { m with loadDepth := 0, restrictDestruct := 0 }

def longjmp (m : M) : Res :=
  match m.ctxs with
  | [] => .crash "fatal: failed longjmp() or no error context for error" m
  | _ :: _ => .err m

/-- error_handler, uncaught path, after the mudlib handler: `if (current_heart_beat) { set_heart_beat (current_heart_beat, 0);
    current_heart_beat = 0; }` -/
def hbOffStep (m : M) : M :=
  if m.hbCur != 0 then { m with hbOff := m.hbCur :: m.hbOff, hbCur := 0 } else m

/-- error_handler entered while the mudlib error handler is already running (second level): never calls the
    mudlib handler again -/
def raiseInner (msg : String) (m0 : M) : Res :=
  let m := resetGuards m0
  if catchable m then
    -- LOG_CATCHES: in_mudlib_error_handler is set: log, clear
    longjmp { m with inMudlibHandler := false, catchValue := .msg msg }
  else if m.inError then longjmp m
  else
    longjmp (hbOffStep { m with inError := false, inMudlibHandler := false })

def masterVal : Val := 1

/-- registers while the master's error_handler() runs (apply_low) -/
def handlerRegs (m : M) : Saved :=
  { m.r with prog := 1000 + masterVal, callerType := Gen.C05.originDriver, prevOb := m.r.co, co := masterVal,
             fp := m.vs.length, pc := 7, fio := 0, vio := 0 }

/-- one instruction of the mudlib error handler: it can be the injected fault (second-level error) -/
def tickOr (m : M) (k : M → Res) : Res :=
  if (tick m).1 then raiseInner injectedMsg (tick m).2 else k (tick m).2

/-- mudlib_error_handler: push the mapping (and the flag), apply master::error_handler — a few instructions,
    each of which can be the injected fault; returns normally with everything popped again -/
def runHandlerN (nargs : Nat) (msg : String) (caught : Bool) (m0 : M) : Res :=
  let m1 := pushVals nargs m0
  if m1.cs.length ≥ m1.maxDepth then
    raiseInner "***Too deep recursion." { m1 with errState := m1.errState ||| Gen.C05.esStackFull }
  else
  tickOr { pushFrame .function m1 with r := handlerRegs m1 } fun m3 =>
  tickOr m3 fun m4 =>
  tickOr { m4 with out := Ev.handler caught msg :: m4.out } fun m6 =>
  -- F_RETURN: pop locals, push result; pop_control_stack; apply_master_ob takes the result off
  match popN nargs m6 with
  | none => .crash "value stack underflow" m6
  | some m7 => match popFrame m7 with
    | none => .crash "pop_control_stack on empty control stack" m7
    | some m8 => .ok m8

def runHandler (msg : String) (caught : Bool) (m0 : M) : Res :=
  runHandlerN (if caught then 2 else 1) msg caught m0

/-- error_handler (error_context.c), first level -/
def raise (msg : String) (m0 : M) : Res :=
  let m := resetGuards m0
  if catchable m then
    if m.inMudlibHandler then
      longjmp { m with inMudlibHandler := false, catchValue := .msg msg }
    else
      match runHandler msg true { m with inMudlibHandler := true } with
      | .ok m' => longjmp { m' with inMudlibHandler := false, catchValue := .msg msg }
      | r => r
  else if m.inError then longjmp m
  else if m.inMudlibHandler then
    longjmp (hbOffStep { m with inError := false, inMudlibHandler := false })
  else
    match runHandler msg false { m with inMudlibHandler := true, inError := false } with
    | .ok m' => longjmp (hbOffStep { m' with inError := false, inMudlibHandler := false })
    | r => r

/-- throw_error: only a catch context accepts a thrown value -/
def throwVal (v : String) (m : M) : Res :=
  if catchable m then longjmp { m with catchValue := .thrown v }
  else raise "*Throw with no catch." m

/-! ### programs -/

inductive Reg | co | prevOb | cg
  deriving DecidableEq, Repr, Inhabited

inductive CallKind
  | local_                  -- F_CALL_FUNCTION_BY_ADDRESS: FRAME_FUNCTION
  | other (ob : Val)        -- call_other / apply: FRAME_FUNCTION | FRAME_OB_CHANGE, current_object changes
  | fpLocal (owner : Val)   -- (: f :)       fake frame + FRAME_FUNCTION
  | functional (owner : Val)-- (: $1 + 1 :)  fake frame + FRAME_FUNP
  | efunp (owner : Val)     -- (: efun :)    fake frame only
  deriving DecidableEq, Repr, Inhabited

/-- a site where an efun installs state outside the registers; `beforeLastError` says whether the installation
    happens before the efun's last possible error (then a failing call leaves it installed) -/
structure InstallSite where
  name : String
  failMsg : String
  beforeLastError : Bool
  deriving DecidableEq, Repr, Inhabited

mutual
inductive Op
  | say (s : String)
  | tmp (n : Nat) (body : Prog)                 -- n temporaries held across body
  | handler (id : Nat) (body : Prog)            -- T_ERROR_HANDLER slot held across body, dropped by sp-- on normal exit
  | setReg (r : Reg) (v : Val)
  | withCg (v : Val) (body : Prog)              -- C code that saves command_giver, sets it, restores it on normal exit
  | install (site : InstallSite) (fails : Bool)
  | call (k : CallKind) (nargs declared : Nat) (body : Prog)
  | cb (k : CallKind) (nargs declared : Nat) (body : Prog)   -- a callback made by an efun (map/filter/sort/…): the same
                                                             -- frames as `call`, but no LPC instruction dispatches it
  | catch_ (body : Prog)
  | sayCatch
  | safeApply (nargs declared : Nat) (body : Prog)
  | safeFp (owner : Val) (nargs declared : Nat) (body : Prog)   -- safe_call_function_pointer of a (: f :) pointer
  | raise (msg : String)
  | craise (msg : String)                       -- an error raised by the C code of an efun that has already called back
                                                -- into LPC (e.g. load_object after the compiler's log_error apply): no tick
  | throw_ (v : String)
  | raiseLimit                                  -- eval cost exhausted: sets ES_MAX_EVAL_COST, raises
  | load (body : Prog)                          -- load_object: ++num_objects_this_thread ... --
  | dhook (v : Val) (body : Prog)               -- destruct_object: restrict_destruct = v around the move_or_destruct apply
  | vital (isMaster : Bool) (body : Prog)       -- destruct_object of the master / simul_efun object: push the fix_object_names
                                                -- slot, record both names, blank the object's name, reload (body); `sp--`, name back
  | spread (n : Nat)                            -- F_EXPAND_VARARGS of an n-element array: `num_varargs += n - 1`
  | consume                                     -- the instruction that uses the count (F_EFUNV, F_CALL_FUNCTION_BY_ADDRESS, F_AGGREGATE …):
                                                -- `… + num_varargs; num_varargs = 0;` BEFORE anything in it can raise an error
  | verb (v : Val) (body : Prog)                -- user_parser (simulate.c): `last_verb = …` around the call of a verb function,
                                                -- `last_verb = 0` after it returned (normal path only)
  | heartBeat (ob cgv : Val) (body : Prog)      -- call_heart_beat (backend.c), one object: current_heart_beat = ob; command_giver = ob
                                                -- (or 0 when it has no commands enabled); call_function (heart_beat); clears
inductive Prog
  | nil
  | cons (o : Op) (p : Prog)
end

def Prog.ofList : List Op → Prog
  | [] => .nil
  | o :: os => .cons o (Prog.ofList os)

/-- frames pushed and registers set by a call of each kind (apply_low, setup_fake_frame, call_function_pointer,
    F_CALL_FUNCTION_BY_ADDRESS); the stack is full test of push_control_stack / setup_fake_frame is done by the caller -/
def enterCall (k : CallKind) (declared : Nat) (m : M) : M :=
  let fpNew := m.vs.length - declared + 1
  match k with
  | .local_ =>
    { pushFrame .function m with r := { m.r with callerType := Gen.C05.originLocal, fp := fpNew, pc := m.r.pc + 11 } }
  | .other ob =>
    { pushFrame .function m with
      r := { m.r with prog := 1000 + ob, callerType := Gen.C05.originCallOther, prevOb := m.r.co, co := ob,
                      fp := fpNew, pc := m.r.pc + 13, fio := 0, vio := 0 } }
  | .fpLocal owner =>
    let m1 := { pushFrame .fake m with
      r := { m.r with callerType := Gen.C05.originFunctionPointer, prog := 999, prevOb := m.r.co, co := owner, pc := 1 } }
    { pushFrame .function m1 with
      r := { m1.r with prog := 1000 + owner, callerType := Gen.C05.originLocal, fp := fpNew, pc := 17, fio := 0, vio := 0 } }
  | .functional owner =>
    let m1 := { pushFrame .fake m with
      r := { m.r with callerType := Gen.C05.originFunctionPointer, prog := 999, prevOb := m.r.co, co := owner, pc := 1 } }
    { pushFrame .funp m1 with
      r := { m1.r with prog := 1000 + owner, callerType := Gen.C05.originFunctional, fp := fpNew, pc := 19 } }
  | .efunp owner =>
    { pushFrame .fake m with
      r := { m.r with callerType := Gen.C05.originFunctionPointer, prog := 999, prevOb := m.r.co, co := owner, pc := 1,
                      fp := fpNew } }

def framesOf : CallKind → Nat
  | .local_ => 1 | .other _ => 1 | .fpLocal _ => 2 | .functional _ => 2 | .efunp _ => 1

/-- does the callee execute LPC instructions of its own (an F_RETURN at least)? -/
def hasReturnTick : CallKind → Bool
  | .efunp _ => false
  | _ => true

/-- leave a call: pop the locals, push the result, pop the frame(s) (pop_control_stack / remove_fake_frame) -/
def leaveCall (k : CallKind) (declared : Nat) (m : M) : Res :=
  match popN declared m with
  | none => .crash "value stack underflow" m
  | some m1 =>
    let m2 := pushVals 1 m1
    match popFrame m2 with
    | none => .crash "pop_control_stack on empty control stack" m2
    | some m3 =>
      if framesOf k == 2 then
        match popFrame m3 with
        | none => .crash "pop_control_stack on empty control stack" m3
        | some m4 => .ok m4
      else .ok m3

/-- adjust the arguments to the declared parameters (setup_variables): drop surplus ones, add missing ones -/
def adjustArgs (nargs declared : Nat) (m : M) : Option M :=
  if nargs > declared then popN (nargs - declared) m else some (pushVals (declared - nargs) m)

def setRegister (r : Reg) (v : Val) (m : M) : M :=
  match r with
  | .co => { m with r := { m.r with co := v } }
  | .prevOb => { m with r := { m.r with prevOb := v } }
  | .cg => { m with cg := v }

/-- the instruction that ends a body (F_RETURN / F_END_CATCH): it can be the injected fault -/
def thenTick (r : Res) : Res :=
  match r with
  | .ok m => if (tick m).1 then raise injectedMsg (tick m).2 else .ok (tick m).2
  | r => r

/-- after the callee's body: return, pop frames, the caller consumes the result -/
def callFinish (k : CallKind) (declared : Nat) (r : Res) : Res :=
  match r with
  | .ok m4 =>
    match leaveCall k declared m4 with
    | .ok m5 => match popN 1 m5 with
      | some m6 => .ok m6
      | none => .crash "value stack underflow" m5
    | r => r
  | r => r

def limitBits : Nat := Gen.C05.esMaxEvalCost ||| Gen.C05.esStackFull

/-- the catch value is on the stack; pop_context; the LPC code takes the value off the stack into its variable -/
def afterCatch (link : List Ctx) (mm : M) : Res :=
  match mm.vs with
  | [] => .crash "value stack underflow" mm
  | _ :: t => .ok { popContext link mm with vs := t }

/-- do_catch after the body: F_END_CATCH path (`ok`) or longjmp path (`err`); finally pop_context and the LPC
    code takes the value off the stack into its variable -/
def catchFinish (econ : Ctx) (link : List Ctx) (r : Res) : Res :=
  match r with
  | .ok m4 =>
    -- F_END_CATCH: free catch_value, catch_value = const0, pop_control_stack, push_number(0)
    match popFrame { m4 with catchValue := .num 0 } with
    | none => .crash "pop_control_stack on empty control stack" m4
    | some m5 => afterCatch link { pushVals 1 m5 with lastCatch := .num 0 }
  | .err m5 =>
    match restoreContext econ m5 with
    | .ok m6 =>
      -- sp++; *sp = catch_value; catch_value = const1
      let m7 := { pushVals 1 m6 with lastCatch := m6.catchValue, catchValue := .num 1 }
      if m7.errState &&& limitBits != 0 then
        -- pop_context (clears the error state); the bit is set again for the enclosing catch frames; error("*Can't catch ...")
        if m7.errState &&& Gen.C05.esMaxEvalCost != 0 then
          raise "*Can't catch eval cost too big error." { popContext link m7 with errState := Gen.C05.esMaxEvalCost }
        else
          raise "*Can't catch too deep recursion error." { popContext link m7 with errState := Gen.C05.esStackFull }
      else afterCatch link m7
    | r => r
  | r => r

/-- safe_apply after the applied function: normal return or longjmp; pop_context -/
def safeFinish (econ : Ctx) (link : List Ctx) (declared : Nat) (r : Res) : Res :=
  match r with
  | .ok m5 =>
    match leaveCall (.other masterVal) declared m5 with
    | .ok m6 => match popN 1 m6 with
      | some m7 => .ok (popContext link m7)
      | none => .crash "value stack underflow" m6
    | r => r
  | .err m6 =>
    match restoreContext econ m6 with
    | .ok m7 => .ok (popContext link m7)
    | r => r
  | r => r

/-- safe_call_function_pointer after the called function (fake frame + function frame): normal return or longjmp; pop_context -/
def safeFpFinish (owner : Val) (econ : Ctx) (link : List Ctx) (declared : Nat) (r : Res) : Res :=
  match r with
  | .ok m5 =>
    match leaveCall (.fpLocal owner) declared m5 with
    | .ok m6 => match popN 1 m6 with
      | some m7 => .ok (popContext link m7)
      | none => .crash "value stack underflow" m6
    | r => r
  | .err m6 =>
    match restoreContext econ m6 with
    | .ok m7 => .ok (popContext link m7)
    | r => r
  | r => r

/-- the depth tests of push_control_stack / setup_fake_frame for a call that pushes `framesOf k` frames: the
    fake frame of a function pointer is already pushed when the second test fails -/
def depthCheck (k : CallKind) (m : M) : Option M :=
  if m.cs.length ≥ m.maxDepth then some m
  else if framesOf k == 2 ∧ m.cs.length + 1 ≥ m.maxDepth then
    some { pushFrame .fake m with
           r := { m.r with callerType := Gen.C05.originFunctionPointer, prog := 999, prevOb := m.r.co, pc := 1 } }
  else none

/-! finishers: what the C code does after the body of a construct has ended, normally or by longjmp -/

/-- expression temporaries / efun arguments held across the body are popped when it completes -/
def tmpFinish (n : Nat) (r : Res) : Res :=
  match r with
  | .ok m1 => match popN n m1 with
    | some m2 => .ok m2
    | none => .crash "value stack underflow" m1
  | r => r

/-- normal exit of an efun that pushed a T_ERROR_HANDLER slot: `sp--`, the handler does not run -/
def handlerFinish (r : Res) : Res :=
  match r with
  | .ok m1 => match dropTop m1 with
    | some m2 => .ok { m2 with efunCtx := m2.efunCtx.tail }    -- … and the efun unlinks its context by hand
    | none => .crash "value stack underflow" m1
  | r => r

/-- C code that saved command_giver puts it back on the normal path only -/
def withCgFinish (cg : Val) (r : Res) : Res :=
  match r with
  | .ok m1 => .ok { m1 with cg := cg }
  | r => r

/-- load_object: `command_giver = save_command_giver; … num_objects_this_thread--;` on the normal path only -/
def loadFinish (cg : Val) (r : Res) : Res :=
  match r with
  | .ok m1 => .ok { m1 with loadDepth := m1.loadDepth - 1, cg := cg }
  | r => r

/-- destruct_object: `restrict_destruct = save_restrict_destruct` on the normal path only -/
def dhookFinish (v : Val) (r : Res) : Res :=
  match r with
  | .ok m1 => .ok { m1 with restrictDestruct := v }
  | r => r

/-- destruct_object of a vital object after the reload succeeded: set_master / set_simul_efun, `sp--` (the handler does not
    run), `ob->name = tmp` (the new copy carries the same name) -/
def vitalFinish (isMaster : Bool) (tmp : Val) (r : Res) : Res :=
  match r with
  | .ok m1 => match dropTop m1 with
    | some m2 => .ok (if isMaster then { m2 with masterName := tmp } else { m2 with simulName := tmp })
    | none => .crash "value stack underflow" m1
  | r => r

/-- user_parser after the verb function returned: `last_verb = 0` -/
def verbFinish (r : Res) : Res :=
  match r with
  | .ok m1 => .ok { m1 with lastVerb := 0 }
  | r => r

/-- call_heart_beat after `call_function` returned: `command_giver = 0; current_object = 0;` and, after the loop,
    `current_prog = 0; current_heart_beat = 0;` (normal path only) -/
def hbFinish (r : Res) : Res :=
  match r with
  | .ok m1 => .ok { m1 with cg := 0, r := { m1.r with co := 0, prog := 0 }, hbCur := 0 }
  | r => r

/-- the context safe_apply works with: saved with the arguments on the stack, then (fix) `save_sp = sp - num_arg` -/
def safeCtx (nargs : Nat) (econ0 : Ctx) : Ctx := { econ0 with saveSp := econ0.saveSp - nargs }

mutual
/-- execute a program -/
def exec : Prog → M → Res
  | .nil, m => .ok m
  | .cons o p, m =>
    match execOp o m with
    | .ok m' => exec p m'
    | r => r

/-- every op begins with one dispatched instruction (`tick`), which can be the injected fault -/
def execOp : Op → M → Res
  | .cb k a d body, m0 => execCore (.cb k a d body) m0
  | .craise msg, m0 => execCore (.craise msg) m0
  | o, m0 => if (tick m0).1 then raise injectedMsg (tick m0).2 else execCore o (tick m0).2

def execCore : Op → M → Res
  | .say s, m => .ok { m with out := Ev.say s :: m.out }
  | .tmp n body, m => tmpFinish n (exec body (pushVals n m))
  | .handler id body, m =>
    -- the efun links its context into its file-scope list and pushes the slot (ids of efun slots are never `fixNamesId`)
    handlerFinish (exec body { m with vs := Slot.handler (id + 1) :: m.vs, efunCtx := (id + 1) :: m.efunCtx })
  | .setReg r v, m => .ok (setRegister r v m)
  | .withCg v body, m => withCgFinish m.cg (exec body { m with cg := v })
  | .install site fails, m =>
    if fails then
      if site.beforeLastError then raise site.failMsg { m with installed := site.name :: m.installed }
      else raise site.failMsg m
    else .ok { m with installed := site.name :: m.installed }
  | .call k nargs declared body, m =>
    match depthCheck k (pushVals nargs m) with
    | some mFull =>
      raise "***Too deep recursion." { mFull with errState := mFull.errState ||| Gen.C05.esStackFull }
    | none =>
    match adjustArgs nargs declared (enterCall k declared (pushVals nargs m)) with
    | none => .crash "value stack underflow" (pushVals nargs m)
    | some m2 =>
      callFinish k declared (if hasReturnTick k then thenTick (exec body m2) else exec body m2)
  | .cb k nargs declared body, m =>
    match depthCheck k (pushVals nargs m) with
    | some mFull =>
      raise "***Too deep recursion." { mFull with errState := mFull.errState ||| Gen.C05.esStackFull }
    | none =>
    match adjustArgs nargs declared (enterCall k declared (pushVals nargs m)) with
    | none => .crash "value stack underflow" (pushVals nargs m)
    | some m2 =>
      callFinish k declared (if hasReturnTick k then thenTick (exec body m2) else exec body m2)
  | .catch_ body, m =>
    -- do_catch (frame.c)
    match saveContext m with
    | none => raise "*Can't catch too deep recursion error." m
    | some (econ, m1) =>
      catchFinish econ m.ctxs (thenTick (exec body { pushFrame .catch_ m1 with catchValue := .num 1 }))
  | .sayCatch, m => .ok { m with out := Ev.catchLog m.lastCatch :: m.out }
  | .safeApply nargs declared body, m =>
    -- safe_apply (apply.c) of a master function; the arguments are pushed by the caller first
    match saveContext (pushVals nargs m) with
    | none => match popN nargs (pushVals nargs m) with
      | some m2 => .ok m2
      | none => .crash "value stack underflow" (pushVals nargs m)
    | some (econ0, m2) =>
      -- apply_low: the context was saved just above, so the depth test of push_control_stack passes
      match adjustArgs nargs declared (enterCall (.other masterVal) declared m2) with
      | none => .crash "value stack underflow" m2
      | some m3 => safeFinish (safeCtx nargs econ0) m.ctxs declared (thenTick (exec body m3))
  | .safeFp owner nargs declared body, m =>
    -- safe_call_function_pointer (lib/lpc/functional.c), repaired: save_sp = sp - num_arg
    match saveContext (pushVals nargs m) with
    | none => match popN nargs (pushVals nargs m) with
      | some m2 => .ok m2
      | none => .crash "value stack underflow" (pushVals nargs m)
    | some (econ0, m2) =>
      -- setup_fake_frame passes its depth test (the context was saved just above); the push of the function frame may not
      match depthCheck (.fpLocal owner) m2 with
      | some mFull =>
        safeFpFinish owner (safeCtx nargs econ0) m.ctxs declared
          (raise "***Too deep recursion." { mFull with errState := mFull.errState ||| Gen.C05.esStackFull })
      | none =>
      match adjustArgs nargs declared (enterCall (.fpLocal owner) declared m2) with
      | none => .crash "value stack underflow" m2
      | some m3 => safeFpFinish owner (safeCtx nargs econ0) m.ctxs declared (thenTick (exec body m3))
  | .raise msg, m => raise msg m
  | .craise msg, m => raise msg m
  | .throw_ v, m => throwVal v m
  | .raiseLimit, m =>
    raise "*Too long evaluation. Execution aborted." { m with errState := m.errState ||| Gen.C05.esMaxEvalCost }
  | .load body, m => loadFinish m.cg (exec body { m with loadDepth := m.loadDepth + 1 })
  | .dhook v body, m => dhookFinish m.restrictDestruct (exec body { m with restrictDestruct := v })
  | .vital isMaster body, m =>
    -- destruct_object (simulate.c): `(++sp)->type = T_ERROR_HANDLER; … = fix_object_names; saved_master_name = …;
    -- saved_simul_name = …; ob->name = "";` — the names are recorded BEFORE the name is blanked
    -- (a destruct of the same object from inside its own reload is refused first: its name is blank then)
    if (if isMaster then m.masterName else m.simulName) == 0 then
      raise "*Destruction of vital object is already in progress." m
    else
    let m1 : M := { m with vs := Slot.handler fixNamesId :: m.vs, savedMasterName := m.masterName, savedSimulName := m.simulName }
    let m2 : M := if isMaster then { m1 with masterName := 0 } else { m1 with simulName := 0 }
    vitalFinish isMaster (if isMaster then m.masterName else m.simulName) (exec body m2)
  | .spread n, m => .ok { m with numVarargs := m.numVarargs + (n - 1) }
  | .consume, m => .ok { m with numVarargs := 0 }
  | .verb v body, m => verbFinish (exec body { m with lastVerb := v })
  | .heartBeat ob cgv body, m =>
    -- call_heart_beat: the registers are set BEFORE the frame is pushed by call_function (push_control_stack, FRAME_FUNCTION |
    -- FRAME_OB_CHANGE, no arguments); the value heart_beat() returns is popped
    match depthCheck (.other ob) { m with hbCur := ob, cg := cgv } with
    | some mFull =>
      raise "***Too deep recursion." { mFull with errState := mFull.errState ||| Gen.C05.esStackFull }
    | none =>
      hbFinish (callFinish (.other ob) 0 (thenTick (exec body (enterCall (.other ob) 0 { m with hbCur := ob, cg := cgv }))))
end

/-! ### the driver-level evaluation (what backend()/call_out()/the harness do around an apply) -/

structure TopResult where
  before : M
  after : M
  result : String          -- "done 1" | "fault-top" | "crash ..."
  loop : Option M := none  -- backend(): the state at the poll point of the next cycle (context still linked)
  deriving Repr, Inhabited

/-- the C side of a driver-level evaluation after its `save_context`: `setjmp`; apply ob->fn() (apply_low pushes
    the frame; the body runs; F_RETURN; apply() moves the result to apply_ret_value); `pop_context` — or, after a
    longjmp, `restore_context` and `pop_context` -/
def topFinish (econ : Ctx) (link : List Ctx) (r : Res) : Res :=
  match r with
  | .ok m4 => .ok (popContext link m4)
  | .err m4 =>
    match restoreContext econ m4 with
    | .ok m5 => .ok (popContext link m5)
    | r => r
  | r => r

/-- everything between `save_context` and the end of the apply -/
def topBody (ob : Val) (p : Prog) (m : M) : Res :=
  callFinish (.other ob) 0 (thenTick (exec p (enterCall (.other ob) 0 m)))

/-- save_context; optional setReg; apply ob->run() with the fault armed at `k`; recovery; pop_context -/
def runTop (ob : Val) (pre : List (Reg × Val)) (p : Prog) (k : Nat) (m0 : M) : TopResult :=
  let m0 := { m0 with out := [], shape := none, fault := 0 }
  match saveContext m0 with
  | none => { before := m0, after := m0, result := "too-deep" }
  | some (econ, m1) =>
    let m2 := pre.foldl (fun mm rv => setRegister rv.1 rv.2 mm) m1
    let r := topBody ob p { m2 with fault := k }
    let wasErr := match r with | .err _ => true | _ => false
    match topFinish econ m0.ctxs r with
    | .ok m5 => { before := m0, after := { m5 with fault := 0 }, result := if wasErr then "fault-top" else "done 1" }
    | .err m5 => { before := m0, after := m5, result := "crash longjmp" }
    | .crash why m5 => { before := m0, after := m5, result := "crash " ++ why }

/-- a driver-level evaluation that is C code calling back into LPC itself (the real `call_out()` run by the backend):
    save_context; the ops (which contain their own recovery points); recovery; pop_context -/
def runDriver (p : Prog) (k : Nat) (m0 : M) : TopResult :=
  let m0 := { m0 with out := [], shape := none, fault := 0 }
  match saveContext m0 with
  | none => { before := m0, after := m0, result := "too-deep" }
  | some (econ, m1) =>
    let r := exec p { m1 with fault := k }
    let wasErr := match r with | .err _ => true | _ => false
    match topFinish econ m0.ctxs r with
    | .ok m5 => { before := m0, after := { m5 with fault := 0 }, result := if wasErr then "fault-top" else "done co" }
    | .err m5 => { before := m0, after := m5, result := "crash longjmp" }
    | .crash why m5 => { before := m0, after := m5, result := "crash " ++ why }

/-- clear_state (backend.c) at the start of backend(): registers zeroed, both stacks reset (reset_interpreter) -/
def clearState (m : M) : M := { m with cg := 0, r := {}, vs := [], cs := [] }

/-- `backend()` (src/backend.c) run for ONE scripted cycle: clear_state; save_context (once, for the whole loop);
    `if (setjmp (econ.context)) restore_context (&econ);` — an error in the cycle comes back here and the loop goes on;
    the cycle (`p`: process_user_command / call_heart_beat, C code calling into LPC); the next cycle has nothing to do and
    the loop is left; pop_context.  `loop` is the state at the poll point of that next cycle. -/
def runBackend (p : Prog) (k : Nat) (m00 : M) : TopResult :=
  let m0 := clearState { m00 with out := [], shape := none, fault := 0 }
  match saveContext m0 with
  | none => { before := m0, after := m0, result := "too-deep" }
  | some (econ, m1) =>
    let r := exec p { m1 with fault := k }
    let wasErr := match r with | .err _ => true | _ => false
    let atPoll : Res := match r with
      | .err m4 => restoreContext econ m4
      | r => r
    match atPoll with
    | .ok m5 =>
      let m6 := { m5 with fault := 0 }
      { before := m0, after := popContext m0.ctxs m6, result := if wasErr then "fault-top" else "done be", loop := some m6 }
    | .err m5 => { before := m0, after := m5, result := "crash longjmp" }
    | .crash why m5 => { before := m0, after := m5, result := "crash " ++ why }

end NV.C05
