/-
C05 — second induction: every op tree that COMPLETES leaves the two guards (`num_objects_this_thread`,
`restrict_destruct`) as they were — including when errors or thrown values were caught inside it, because
`restore_context` puts back the values saved by `save_context` (the repaired code).
-/
import NV.C05.Model
import NV.C05.Lemmas
import NV.C05.Exec

namespace NV.C05

/-- a completed evaluation keeps both guards -/
def GuardsKept (m : M) : Res → Prop
  | .ok m' => m'.loadDepth = m.loadDepth ∧ m'.restrictDestruct = m.restrictDestruct
  | _ => True

theorem GuardsKept.of_eq {m m1 : M} {r : Res} (hl : m1.loadDepth = m.loadDepth)
    (hd : m1.restrictDestruct = m.restrictDestruct) (h : GuardsKept m1 r) : GuardsKept m r := by
  cases r with
  | ok m' => exact ⟨h.1.trans hl, h.2.trans hd⟩
  | err m' => trivial
  | crash w m' => trivial

theorem GuardsKept.of_not_ok {m : M} {r : Res} (h : ∀ x, r = .ok x → False) : GuardsKept m r := by
  cases r with
  | ok x => exact (h x rfl).elim
  | err x => trivial
  | crash w x => trivial

theorem raise_guardsKept (msg : String) (m m0 : M) : GuardsKept m (raise msg m0) := by
  have h := raise_rspec msg (Same.rfl' m0).toExt
  cases hr : raise msg m0 with
  | ok m' => rw [hr] at h; exact h.elim
  | err m' => trivial
  | crash w m' => trivial

theorem longjmp_guardsKept (m m0 : M) : GuardsKept m (longjmp m0) := by
  unfold longjmp; split <;> trivial

theorem throwVal_guardsKept (v : String) (m m0 : M) : GuardsKept m (throwVal v m0) := by
  unfold throwVal
  split
  · exact longjmp_guardsKept _ _
  · exact raise_guardsKept _ _ _

theorem thenTick_guardsKept {m : M} {r : Res} (h : GuardsKept m r) : GuardsKept m (thenTick r) := by
  cases r with
  | ok m1 =>
    simp only [thenTick]
    split
    · exact raise_guardsKept _ _ _
    · exact ⟨(tick_sameG m1).ld.trans h.1, (tick_sameG m1).rd.trans h.2⟩
  | err m1 => trivial
  | crash w m1 => trivial

theorem tmpFinish_guardsKept {n : Nat} {m : M} {r : Res} (h : GuardsKept m r) : GuardsKept m (tmpFinish n r) := by
  cases r with
  | ok m1 =>
    simp only [tmpFinish]
    split
    · rename_i m2 hp
      have g := popN_guards _ _ _ hp
      exact ⟨g.1.trans h.1, g.2.trans h.2⟩
    · trivial
  | err m1 => trivial
  | crash w m1 => trivial

theorem dropTop_guards {m m' : M} (h : dropTop m = some m') :
    m'.loadDepth = m.loadDepth ∧ m'.restrictDestruct = m.restrictDestruct := by
  unfold dropTop at h
  split at h
  · cases h
  · cases h; exact ⟨rfl, rfl⟩

theorem handlerFinish_guardsKept {m : M} {r : Res} (h : GuardsKept m r) : GuardsKept m (handlerFinish r) := by
  cases r with
  | ok m1 =>
    simp only [handlerFinish]
    split
    · rename_i m2 hp
      have g := dropTop_guards hp
      exact ⟨g.1.trans h.1, g.2.trans h.2⟩
    · trivial
  | err m1 => trivial
  | crash w m1 => trivial

theorem leaveCall_guards {k : CallKind} {d : Nat} {m4 m5 : M} (h : leaveCall k d m4 = .ok m5) :
    m5.loadDepth = m4.loadDepth ∧ m5.restrictDestruct = m4.restrictDestruct := by
  simp only [leaveCall] at h
  split at h
  · cases h
  · rename_i m1 hp
    have g1 := popN_guards _ _ _ hp
    split at h
    · cases h
    · rename_i m3 hp3
      have g3 := popFrame_guards hp3
      have g3' : m3.loadDepth = m1.loadDepth ∧ m3.restrictDestruct = m1.restrictDestruct := g3
      split at h
      · split at h
        · cases h
        · rename_i m4' hp4
          have g4 := popFrame_guards hp4
          cases h
          exact ⟨g4.1.trans (g3'.1.trans g1.1), g4.2.trans (g3'.2.trans g1.2)⟩
      · cases h
        exact ⟨g3'.1.trans g1.1, g3'.2.trans g1.2⟩

theorem callFinish_guardsKept {k : CallKind} {d : Nat} {m : M} {r : Res} (h : GuardsKept m r) :
    GuardsKept m (callFinish k d r) := by
  cases r with
  | ok m4 =>
    simp only [callFinish]
    split
    · rename_i m5 hl
      have g5 := leaveCall_guards hl
      split
      · rename_i m6 hp
        have g6 := popN_guards _ _ _ hp
        exact ⟨g6.1.trans (g5.1.trans h.1), g6.2.trans (g5.2.trans h.2)⟩
      · trivial
    · rename_i hne
      exact GuardsKept.of_not_ok hne
  | err m1 => trivial
  | crash w m1 => trivial

theorem adjustArgs_guards {a d : Nat} {m m2 : M} (h : adjustArgs a d m = some m2) :
    m2.loadDepth = m.loadDepth ∧ m2.restrictDestruct = m.restrictDestruct := by
  unfold adjustArgs at h
  split at h
  · exact popN_guards _ _ _ h
  · cases h; exact ⟨rfl, rfl⟩

theorem enterCall_guards (k : CallKind) (d : Nat) (m : M) :
    (enterCall k d m).loadDepth = m.loadDepth ∧ (enterCall k d m).restrictDestruct = m.restrictDestruct := by
  cases k <;> exact ⟨rfl, rfl⟩

/-- restore_context puts the two guards back to the values stored in the context -/
theorem restoreContext_guards {e : Ctx} {m5 m6 : M} (h : restoreContext e m5 = .ok m6) :
    m6.loadDepth = e.saveLd ∧ m6.restrictDestruct = e.saveRd := by
  simp only [restoreContext] at h
  split at h
  · cases h
  · rename_i m2 hm2
    have g2 : m2.loadDepth = e.saveLd ∧ m2.restrictDestruct = e.saveRd := by
      split at hm2
      · exact popFrame_guards hm2
      · cases hm2; exact ⟨rfl, rfl⟩
    split at h
    · cases h
    · split at h
      · cases h
      · rename_i m3 hp
        have g3 := popN_guards _ _ _ hp
        cases h
        exact ⟨g3.1.trans g2.1, g3.2.trans g2.2⟩

theorem afterCatch_guards {link : List Ctx} {mm m' : M} (h : afterCatch link mm = .ok m') :
    m'.loadDepth = mm.loadDepth ∧ m'.restrictDestruct = mm.restrictDestruct := by
  simp only [afterCatch] at h
  split at h
  · cases h
  · cases h; exact ⟨rfl, rfl⟩

theorem catchFinish_guardsKept {m m2 : M} {econ : Ctx} {link : List Ctx} {r : Res}
    (he1 : econ.saveLd = m.loadDepth) (he2 : econ.saveRd = m.restrictDestruct)
    (hl : m2.loadDepth = m.loadDepth) (hd : m2.restrictDestruct = m.restrictDestruct)
    (h : GuardsKept m2 r) : GuardsKept m (catchFinish econ link r) := by
  cases r with
  | ok m4 =>
    simp only [catchFinish]
    split
    · trivial
    · rename_i m5 hp
      have g5 := popFrame_guards hp
      cases ha : afterCatch link { pushVals 1 m5 with lastCatch := CV.num 0 } with
      | ok m' =>
        have ga := afterCatch_guards ha
        exact ⟨ga.1.trans (g5.1.trans (h.1.trans hl)), ga.2.trans (g5.2.trans (h.2.trans hd))⟩
      | err x => trivial
      | crash w x => trivial
  | err m5 =>
    simp only [catchFinish]
    split
    · rename_i m6 hr
      have g6 := restoreContext_guards hr
      split
      · split <;> exact raise_guardsKept _ _ _
      · cases ha : afterCatch link { pushVals 1 m6 with lastCatch := m6.catchValue, catchValue := CV.num 1 } with
        | ok m' =>
          have ga := afterCatch_guards ha
          exact ⟨ga.1.trans (g6.1.trans he1), ga.2.trans (g6.2.trans he2)⟩
        | err x => trivial
        | crash w x => trivial
    · rename_i hne
      exact GuardsKept.of_not_ok hne
  | crash w m1 => trivial

theorem safeFinish_guardsKept {m m3 : M} {econ : Ctx} {link : List Ctx} {d : Nat} {r : Res}
    (he1 : econ.saveLd = m.loadDepth) (he2 : econ.saveRd = m.restrictDestruct)
    (hl : m3.loadDepth = m.loadDepth) (hd : m3.restrictDestruct = m.restrictDestruct)
    (h : GuardsKept m3 r) : GuardsKept m (safeFinish econ link d r) := by
  cases r with
  | ok m5 =>
    simp only [safeFinish]
    split
    · rename_i m6 hlc
      have g6 := leaveCall_guards hlc
      split
      · rename_i m7 hp
        have g7 := popN_guards _ _ _ hp
        exact ⟨g7.1.trans (g6.1.trans (h.1.trans hl)), g7.2.trans (g6.2.trans (h.2.trans hd))⟩
      · trivial
    · rename_i hne
      exact GuardsKept.of_not_ok hne
  | err m6 =>
    simp only [safeFinish]
    split
    · rename_i m7 hr
      have g7 := restoreContext_guards hr
      exact ⟨g7.1.trans he1, g7.2.trans he2⟩
    · rename_i hne
      exact GuardsKept.of_not_ok hne
  | crash w m1 => trivial

theorem safeFpFinish_guardsKept {m m3 : M} {econ : Ctx} {link : List Ctx} {d : Nat} {owner : Val} {r : Res}
    (he1 : econ.saveLd = m.loadDepth) (he2 : econ.saveRd = m.restrictDestruct)
    (hl : m3.loadDepth = m.loadDepth) (hd : m3.restrictDestruct = m.restrictDestruct)
    (h : GuardsKept m3 r) : GuardsKept m (safeFpFinish owner econ link d r) := by
  cases r with
  | ok m5 =>
    simp only [safeFpFinish]
    split
    · rename_i m6 hlc
      have g6 := leaveCall_guards hlc
      split
      · rename_i m7 hp
        have g7 := popN_guards _ _ _ hp
        exact ⟨g7.1.trans (g6.1.trans (h.1.trans hl)), g7.2.trans (g6.2.trans (h.2.trans hd))⟩
      · trivial
    · rename_i hne
      exact GuardsKept.of_not_ok hne
  | err m6 =>
    simp only [safeFpFinish]
    split
    · rename_i m7 hr
      have g7 := restoreContext_guards hr
      exact ⟨g7.1.trans he1, g7.2.trans he2⟩
    · rename_i hne
      exact GuardsKept.of_not_ok hne
  | crash w m1 => trivial

theorem saveContext_guards {m m1 : M} {econ : Ctx} (h : saveContext m = some (econ, m1)) :
    econ.saveLd = m.loadDepth ∧ econ.saveRd = m.restrictDestruct ∧
    m1.loadDepth = m.loadDepth ∧ m1.restrictDestruct = m.restrictDestruct := by
  simp only [saveContext] at h
  split at h
  · cases h
  · cases h; exact ⟨rfl, rfl, rfl, rfl⟩

theorem execOp_guards_of {o : Op} (h : ∀ m, GuardsKept m (execCore o m)) (m : M) : GuardsKept m (execOp o m) := by
  unfold execOp
  split
  · exact h _
  · exact h _
  · split
    · exact raise_guardsKept _ _ _
    · exact GuardsKept.of_eq (tick_sameG m).ld (tick_sameG m).rd (h _)

mutual
theorem exec_guards : ∀ (p : Prog) (m : M), GuardsKept m (exec p m)
  | .nil, m => by simp only [exec]; exact ⟨rfl, rfl⟩
  | .cons o p, m => by
    have h1 := execOp_guards_of (execCore_guards o) m
    simp only [exec]
    cases hr : execOp o m with
    | ok m1 => rw [hr] at h1; exact GuardsKept.of_eq h1.1 h1.2 (exec_guards p m1)
    | err m1 => trivial
    | crash w m1 => trivial

theorem execCore_guards : ∀ (o : Op) (m : M), GuardsKept m (execCore o m)
  | .say s, m => by simp only [execCore]; exact ⟨rfl, rfl⟩
  | .tmp n body, m => by
    simp only [execCore]
    exact tmpFinish_guardsKept (GuardsKept.of_eq (m1 := pushVals n m) rfl rfl (exec_guards body _))
  | .handler id body, m => by
    simp only [execCore]
    exact handlerFinish_guardsKept (GuardsKept.of_eq (m1 := { m with vs := Slot.handler (id + 1) :: m.vs, efunCtx := (id + 1) :: m.efunCtx }) rfl rfl (exec_guards body _))
  | .setReg r v, m => by
    simp only [execCore]
    cases r <;> exact ⟨rfl, rfl⟩
  | .withCg v body, m => by
    simp only [execCore]
    have h := exec_guards body { m with cg := v }
    cases hr : exec body { m with cg := v } with
    | ok m1 => rw [hr] at h; exact ⟨h.1, h.2⟩
    | err m1 => trivial
    | crash w m1 => trivial
  | .install site fails, m => by
    simp only [execCore]
    split
    · split <;> exact raise_guardsKept _ _ _
    · exact ⟨rfl, rfl⟩
  | .call k nargs declared body, m => by
    simp only [execCore]
    split
    · exact raise_guardsKept _ _ _
    · split
      · trivial
      · rename_i m2 ha
        have g2 := adjustArgs_guards ha
        have ge := enterCall_guards k declared (pushVals nargs m)
        have hb : GuardsKept m (exec body m2) :=
          GuardsKept.of_eq (g2.1.trans ge.1) (g2.2.trans ge.2) (exec_guards body m2)
        split
        · exact callFinish_guardsKept (thenTick_guardsKept hb)
        · exact callFinish_guardsKept hb
  | .cb k nargs declared body, m => by
    simp only [execCore]
    split
    · exact raise_guardsKept _ _ _
    · split
      · trivial
      · rename_i m2 ha
        have g2 := adjustArgs_guards ha
        have ge := enterCall_guards k declared (pushVals nargs m)
        have hb : GuardsKept m (exec body m2) :=
          GuardsKept.of_eq (g2.1.trans ge.1) (g2.2.trans ge.2) (exec_guards body m2)
        split
        · exact callFinish_guardsKept (thenTick_guardsKept hb)
        · exact callFinish_guardsKept hb
  | .catch_ body, m => by
    simp only [execCore]
    split
    · exact raise_guardsKept _ _ _
    · rename_i econ m1 hs
      obtain ⟨e1, e2, g1, g2⟩ := saveContext_guards hs
      exact catchFinish_guardsKept (m2 := { pushFrame .catch_ m1 with catchValue := .num 1 }) e1 e2 g1 g2
        (thenTick_guardsKept (exec_guards body _))
  | .sayCatch, m => by simp only [execCore]; exact ⟨rfl, rfl⟩
  | .safeApply nargs declared body, m => by
    simp only [execCore]
    split
    · split
      · rename_i m2 hp
        exact popN_guards _ (pushVals nargs m) _ hp
      · trivial
    · rename_i econ0 m2 hs
      obtain ⟨e1, e2, g1, g2⟩ := saveContext_guards hs
      split
      · trivial
      · rename_i m3 ha
        have g3 := adjustArgs_guards ha
        have ge := enterCall_guards (.other masterVal) declared m2
        exact safeFinish_guardsKept (m3 := m3) (econ := safeCtx nargs econ0) e1 e2
          (g3.1.trans (ge.1.trans g1)) (g3.2.trans (ge.2.trans g2)) (thenTick_guardsKept (exec_guards body m3))
  | .safeFp owner nargs declared body, m => by
    simp only [execCore]
    split
    · split
      · rename_i m2 hp
        exact popN_guards _ (pushVals nargs m) _ hp
      · trivial
    · rename_i econ0 m2 hs
      obtain ⟨e1, e2, g1, g2⟩ := saveContext_guards hs
      split
      · exact safeFpFinish_guardsKept (m3 := m2) (econ := safeCtx nargs econ0) e1 e2 g1 g2 (raise_guardsKept _ _ _)
      · split
        · trivial
        · rename_i m3 ha
          have g3 := adjustArgs_guards ha
          have ge := enterCall_guards (.fpLocal owner) declared m2
          exact safeFpFinish_guardsKept (m3 := m3) (econ := safeCtx nargs econ0) e1 e2
            (g3.1.trans (ge.1.trans g1)) (g3.2.trans (ge.2.trans g2)) (thenTick_guardsKept (exec_guards body m3))
  | .raise msg, m => by simp only [execCore]; exact raise_guardsKept _ _ _
  | .craise msg, m => by simp only [execCore]; exact raise_guardsKept _ _ _
  | .throw_ v, m => by simp only [execCore]; exact throwVal_guardsKept _ _ _
  | .raiseLimit, m => by simp only [execCore]; exact raise_guardsKept _ _ _
  | .load body, m => by
    simp only [execCore]
    have h := exec_guards body { m with loadDepth := m.loadDepth + 1 }
    cases hr : exec body { m with loadDepth := m.loadDepth + 1 } with
    | ok m1 =>
      rw [hr] at h
      refine ⟨?_, h.2⟩
      show m1.loadDepth - 1 = m.loadDepth
      have : m1.loadDepth = m.loadDepth + 1 := h.1
      omega
    | err m1 => trivial
    | crash w m1 => trivial
  | .dhook v body, m => by
    simp only [execCore]
    have h := exec_guards body { m with restrictDestruct := v }
    cases hr : exec body { m with restrictDestruct := v } with
    | ok m1 => rw [hr] at h; exact ⟨h.1, rfl⟩
    | err m1 => trivial
    | crash w m1 => trivial
  | .vital isMaster body, m => by
    simp only [execCore]
    cases isMaster
    · simp only [Bool.false_eq_true, ↓reduceIte]
      split
      · exact raise_guardsKept _ _ _
      · have h := exec_guards body { m with vs := Slot.handler fixNamesId :: m.vs, savedMasterName := m.masterName, savedSimulName := m.simulName, simulName := 0 }
        cases hr : exec body { m with vs := Slot.handler fixNamesId :: m.vs, savedMasterName := m.masterName, savedSimulName := m.simulName, simulName := 0 } with
        | ok m1 =>
          rw [hr] at h
          simp only [vitalFinish]
          cases hd : dropTop m1 with
          | none => trivial
          | some m2 => have g := dropTop_guards hd; exact ⟨g.1.trans h.1, g.2.trans h.2⟩
        | err m1 => trivial
        | crash w m1 => trivial
    · simp only [↓reduceIte]
      split
      · exact raise_guardsKept _ _ _
      · have h := exec_guards body { m with vs := Slot.handler fixNamesId :: m.vs, savedMasterName := m.masterName, savedSimulName := m.simulName, masterName := 0 }
        cases hr : exec body { m with vs := Slot.handler fixNamesId :: m.vs, savedMasterName := m.masterName, savedSimulName := m.simulName, masterName := 0 } with
        | ok m1 =>
          rw [hr] at h
          simp only [vitalFinish]
          cases hd : dropTop m1 with
          | none => trivial
          | some m2 => have g := dropTop_guards hd; exact ⟨g.1.trans h.1, g.2.trans h.2⟩
        | err m1 => trivial
        | crash w m1 => trivial
  | .spread n, m => by simp only [execCore]; exact ⟨rfl, rfl⟩
  | .consume, m => by simp only [execCore]; exact ⟨rfl, rfl⟩
  | .verb v body, m => by
    simp only [execCore]
    have h := exec_guards body { m with lastVerb := v }
    cases hr : exec body { m with lastVerb := v } with
    | ok m1 => rw [hr] at h; exact ⟨h.1, h.2⟩
    | err m1 => trivial
    | crash w m1 => trivial
  | .heartBeat ob cgv body, m => by
    simp only [execCore]
    split
    · exact raise_guardsKept _ _ _
    · have ge := enterCall_guards (.other ob) 0 { m with hbCur := ob, cg := cgv }
      have hb : GuardsKept m (exec body (enterCall (.other ob) 0 { m with hbCur := ob, cg := cgv })) :=
        GuardsKept.of_eq ge.1 ge.2 (exec_guards body _)
      have hcf := callFinish_guardsKept (k := .other ob) (d := 0) (thenTick_guardsKept hb)
      cases hr : callFinish (.other ob) 0 (thenTick (exec body (enterCall (.other ob) 0 { m with hbCur := ob, cg := cgv }))) with
      | ok m1 => rw [hr] at hcf; exact ⟨hcf.1, hcf.2⟩
      | err m1 => trivial
      | crash w m1 => trivial
end

end NV.C05
