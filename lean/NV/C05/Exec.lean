/-
C05 — the core induction: every op tree, from every machine state and for every position of the injected fault,
either completes with both stacks and the error-context chain exactly as they were, or ends in an error whose
state EXTENDS the start state (stacks grown on top, chain unchanged); it crashes only when there is no error
context at all to deliver an error to (`fatal("failed longjmp")`).
-/
import NV.C05.Model
import NV.C05.Lemmas

namespace NV.C05

/-- the context `save_context` stores in state `s` -/
def ctxOf (s : M) : Ctx :=
  { saveSp := s.vs.length, saveCsp := s.cs.length, saveCg := s.cg, saveLd := s.loadDepth, saveRd := s.restrictDestruct,
    saveVerb := s.lastVerb }

/-- both stacks and the chain are unchanged -/
structure Same (m m' : M) : Prop where
  vs : m'.vs = m.vs
  cs : m'.cs = m.cs
  ctxs : m'.ctxs = m.ctxs

/-- `m'` extends `m`: the stacks of `m` are intact below what was pushed since, the chain is the same -/
structure Ext (m m' : M) : Prop where
  vs : ∃ dv, m'.vs = dv ++ m.vs
  cs : ∃ dc, m'.cs = dc ++ m.cs
  ctxs : m'.ctxs = m.ctxs

/-- the invariant of an evaluation started in `m` -/
def Good (m : M) : Res → Prop
  | .ok m' => Same m m'
  | .err m' => Ext m m'
  | .crash _ _ => m.ctxs = []

/-- the weaker form used inside error_handler, where even a normal return only has to extend `m` -/
def GoodE (m : M) : Res → Prop
  | .ok m' => Ext m m'
  | .err m' => Ext m m'
  | .crash _ _ => m.ctxs = []

theorem Same.rfl' (m : M) : Same m m := ⟨rfl, rfl, rfl⟩

theorem Same.trans {a b c : M} (h1 : Same a b) (h2 : Same b c) : Same a c :=
  ⟨h2.vs.trans h1.vs, h2.cs.trans h1.cs, h2.ctxs.trans h1.ctxs⟩

theorem Same.toExt {a b : M} (h : Same a b) : Ext a b :=
  ⟨⟨[], by simp [h.vs]⟩, ⟨[], by simp [h.cs]⟩, h.ctxs⟩

theorem Ext.trans {a b c : M} (h1 : Ext a b) (h2 : Ext b c) : Ext a c := by
  obtain ⟨dv1, hv1⟩ := h1.vs
  obtain ⟨dc1, hc1⟩ := h1.cs
  obtain ⟨dv2, hv2⟩ := h2.vs
  obtain ⟨dc2, hc2⟩ := h2.cs
  exact ⟨⟨dv2 ++ dv1, by rw [hv2, hv1]; simp⟩, ⟨dc2 ++ dc1, by rw [hc2, hc1]; simp⟩, h2.ctxs.trans h1.ctxs⟩

/-- a state built on top of `m` (values `a`, frames `b` pushed, same chain) -/
theorem Ext.mk' {m m' : M} (a : List Slot) (b : List Frame) (hv : m'.vs = a ++ m.vs) (hc : m'.cs = b ++ m.cs)
    (hx : m'.ctxs = m.ctxs) : Ext m m' := ⟨⟨a, hv⟩, ⟨b, hc⟩, hx⟩

theorem Good.of_same {m m1 : M} {r : Res} (h : Same m m1) (hr : Good m1 r) : Good m r := by
  cases r with
  | ok m' => exact h.trans hr
  | err m' => exact h.toExt.trans hr
  | crash w m' => exact (h.ctxs.symm.trans hr)

theorem Good.toE {m : M} {r : Res} (h : Good m r) : GoodE m r := by
  cases r with
  | ok m' => exact Same.toExt h
  | err m' => exact h
  | crash w m' => exact h

theorem GoodE.of_ext {m m1 : M} {r : Res} (h : Ext m m1) (hr : GoodE m1 r) : GoodE m r := by
  cases r with
  | ok m' => exact h.trans hr
  | err m' => exact h.trans hr
  | crash w m' => exact (h.ctxs.symm.trans hr)

/-! ### primitives -/

theorem tick_same (m : M) : Same m (tick m).2 := by
  unfold tick
  split
  · exact ⟨rfl, rfl, rfl⟩
  · exact ⟨rfl, rfl, rfl⟩
  · split <;> exact ⟨rfl, rfl, rfl⟩

theorem popStack_spec {m m' : M} (h : popStack m = some m') :
    ∃ s, m.vs = s :: m'.vs ∧ m'.cs = m.cs ∧ m'.ctxs = m.ctxs := by
  unfold popStack at h
  split at h
  · cases h
  · rename_i t heq; cases h; exact ⟨_, heq, rfl, rfl⟩
  · rename_i id t heq; cases h; exact ⟨_, heq, rfl, rfl⟩

theorem popN_spec : ∀ (n : Nat) (m m' : M), popN n m = some m' →
    ∃ dv, dv.length = n ∧ m.vs = dv ++ m'.vs ∧ m'.cs = m.cs ∧ m'.ctxs = m.ctxs
  | 0, m, m', h => by simp only [popN] at h; cases h; exact ⟨[], rfl, rfl, rfl, rfl⟩
  | n + 1, m, m', h => by
    simp only [popN] at h
    split at h
    · cases h
    · rename_i m1 h1
      obtain ⟨s, hs, hc, hx⟩ := popStack_spec h1
      obtain ⟨dv, hl, hv, hc2, hx2⟩ := popN_spec n m1 m' h
      exact ⟨s :: dv, by simp [hl], by rw [hs, hv]; rfl, hc2.trans hc, hx2.trans hx⟩

theorem popStack_some {m : M} (h : 0 < m.vs.length) : ∃ m', popStack m = some m' := by
  unfold popStack
  split
  · rename_i heq; rw [heq] at h; simp at h
  · exact ⟨_, rfl⟩
  · exact ⟨_, rfl⟩

theorem popN_some : ∀ (n : Nat) (m : M), n ≤ m.vs.length → ∃ m', popN n m = some m'
  | 0, m, _ => ⟨m, rfl⟩
  | n + 1, m, h => by
    obtain ⟨m1, h1⟩ := popStack_some (m := m) (by omega)
    obtain ⟨s, hs, _, _⟩ := popStack_spec h1
    have : n ≤ m1.vs.length := by rw [hs] at h; simp at h; omega
    obtain ⟨m', h'⟩ := popN_some n m1 this
    exact ⟨m', by simp only [popN, h1, h']⟩

/-- popping exactly the `n` slots that sit on top of `rest` -/
theorem popN_exact {n : Nat} {m : M} {dv0 rest : List Slot} (h : m.vs = dv0 ++ rest) (hl : dv0.length = n) :
    ∃ m', popN n m = some m' ∧ m'.vs = rest ∧ m'.cs = m.cs ∧ m'.ctxs = m.ctxs := by
  obtain ⟨m', hp⟩ := popN_some n m (by rw [h]; simp; omega)
  obtain ⟨dv, hl2, hv, hc, hx⟩ := popN_spec n m m' hp
  have : dv0 ++ rest = dv ++ m'.vs := by rw [← h, hv]
  have := (List.append_inj this (by omega)).2
  exact ⟨m', hp, this.symm, hc, hx⟩

theorem popFrame_cons {m : M} {f : Frame} {rest : List Frame} (h : m.cs = f :: rest) :
    ∃ m', popFrame m = some m' ∧ m'.cs = rest ∧ m'.vs = m.vs ∧ m'.ctxs = m.ctxs := by
  unfold popFrame; rw [h]; exact ⟨_, rfl, rfl, rfl, rfl⟩

/-! ### error_handler -/

theorem longjmp_goodE {m m' : M} (h : Ext m m') : GoodE m (longjmp m') := by
  unfold longjmp
  split
  · rename_i heq; exact h.ctxs.symm.trans heq
  · exact h

theorem longjmp_good {m m' : M} (h : Ext m m') : Good m (longjmp m') := by
  unfold longjmp
  split
  · rename_i heq; exact h.ctxs.symm.trans heq
  · exact h

theorem hbOffStep_same (m : M) :
    (hbOffStep m).vs = m.vs ∧ (hbOffStep m).cs = m.cs ∧ (hbOffStep m).ctxs = m.ctxs ∧
    (hbOffStep m).loadDepth = m.loadDepth ∧ (hbOffStep m).restrictDestruct = m.restrictDestruct := by
  unfold hbOffStep
  split <;> exact ⟨rfl, rfl, rfl, rfl, rfl⟩

theorem raiseInner_goodE (msg : String) {m m0 : M} (h : Ext m m0) : GoodE m (raiseInner msg m0) := by
  simp only [raiseInner]
  split
  · exact longjmp_goodE ⟨h.vs, h.cs, h.ctxs⟩
  · split
    · exact longjmp_goodE ⟨h.vs, h.cs, h.ctxs⟩
    · obtain ⟨a, b, c, _, _⟩ := hbOffStep_same { resetGuards m0 with inError := false, inMudlibHandler := false }
      exact longjmp_goodE ⟨by rw [a]; exact h.vs, by rw [b]; exact h.cs, by rw [c]; exact h.ctxs⟩

theorem raiseInner_not_ok (msg : String) (m m' : M) : raiseInner msg m ≠ .ok m' := by
  simp only [raiseInner, longjmp]
  repeat' split
  all_goals simp

/-- stacks, chain and the two guards unchanged -/
structure SameG (m m' : M) : Prop where
  same : Same m m'
  ld : m'.loadDepth = m.loadDepth
  rd : m'.restrictDestruct = m.restrictDestruct

theorem SameG.trans {a b c : M} (h1 : SameG a b) (h2 : SameG b c) : SameG a c :=
  ⟨h1.same.trans h2.same, h2.ld.trans h1.ld, h2.rd.trans h1.rd⟩

theorem tick_sameG (m : M) : SameG m (tick m).2 := by
  unfold tick
  split
  · exact ⟨⟨rfl, rfl, rfl⟩, rfl, rfl⟩
  · exact ⟨⟨rfl, rfl, rfl⟩, rfl, rfl⟩
  · split <;> exact ⟨⟨rfl, rfl, rfl⟩, rfl, rfl⟩

theorem popStack_guards {m m' : M} (h : popStack m = some m') :
    m'.loadDepth = m.loadDepth ∧ m'.restrictDestruct = m.restrictDestruct := by
  unfold popStack at h
  split at h
  · cases h
  · cases h; exact ⟨rfl, rfl⟩
  · cases h; exact ⟨rfl, rfl⟩

theorem popN_guards : ∀ (n : Nat) (m m' : M), popN n m = some m' →
    m'.loadDepth = m.loadDepth ∧ m'.restrictDestruct = m.restrictDestruct
  | 0, m, m', h => by simp only [popN] at h; cases h; exact ⟨rfl, rfl⟩
  | n + 1, m, m', h => by
    simp only [popN] at h
    split at h
    · cases h
    · rename_i m1 h1
      have a := popStack_guards h1
      have b := popN_guards n m1 m' h
      exact ⟨b.1.trans a.1, b.2.trans a.2⟩

theorem popFrame_guards {m m' : M} (h : popFrame m = some m') :
    m'.loadDepth = m.loadDepth ∧ m'.restrictDestruct = m.restrictDestruct := by
  unfold popFrame at h
  split at h
  · cases h
  · cases h; exact ⟨rfl, rfl⟩

/-- what `error_handler` delivers: it never returns; the error arrives in a state extending `m` with both guards
    reset; it is fatal only without any error context -/
def RSpec (m : M) : Res → Prop
  | .ok _ => False
  | .err m' => Ext m m' ∧ m'.loadDepth = 0 ∧ m'.restrictDestruct = 0
  | .crash _ _ => m.ctxs = []

theorem longjmp_rspec {m m' : M} (h : Ext m m') (hl : m'.loadDepth = 0) (hd : m'.restrictDestruct = 0) :
    RSpec m (longjmp m') := by
  unfold longjmp
  split
  · rename_i heq; exact h.ctxs.symm.trans heq
  · exact ⟨h, hl, hd⟩

theorem raiseInner_rspec (msg : String) {m m0 : M} (h : Ext m m0) : RSpec m (raiseInner msg m0) := by
  simp only [raiseInner]
  split
  · exact longjmp_rspec ⟨h.vs, h.cs, h.ctxs⟩ rfl rfl
  · split
    · exact longjmp_rspec ⟨h.vs, h.cs, h.ctxs⟩ rfl rfl
    · obtain ⟨a, b, c, d, e⟩ := hbOffStep_same { resetGuards m0 with inError := false, inMudlibHandler := false }
      exact longjmp_rspec ⟨by rw [a]; exact h.vs, by rw [b]; exact h.cs, by rw [c]; exact h.ctxs⟩ (by rw [d]; rfl) (by rw [e]; rfl)

theorem RSpec.good {m : M} {r : Res} (h : RSpec m r) : Good m r := by
  cases r with
  | ok m' => exact h.elim
  | err m' => exact h.1
  | crash w m' => exact h

/-- what the mudlib error handler guarantees, seen from a state `m` that its entry state `m0` extends -/
def HSpec (m m0 : M) : Res → Prop
  | .ok m' => SameG m0 m'
  | .err m' => Ext m m' ∧ m'.loadDepth = 0 ∧ m'.restrictDestruct = 0
  | .crash _ _ => m.ctxs = []

theorem HSpec.of_inner (msg : String) {m m0 m1 : M} (h : Ext m m1) : HSpec m m0 (raiseInner msg m1) := by
  have hg := raiseInner_rspec msg h
  cases hr : raiseInner msg m1 with
  | ok m' => rw [hr] at hg; exact hg.elim
  | err m' => rw [hr] at hg; exact hg
  | crash w m' => rw [hr] at hg; exact hg

theorem tickOr_hspec {m m0 mm : M} {k : M → Res} (h : Ext m mm)
    (hk : ∀ m', SameG mm m' → HSpec m m0 (k m')) : HSpec m m0 (tickOr mm k) := by
  unfold tickOr
  split
  · exact HSpec.of_inner _ (h.trans (tick_same mm).toExt)
  · exact hk _ (tick_sameG mm)

/-- the mudlib error handler returns with the stacks and guards it was entered with, or delivers a second-level
    error whose state extends `m` -/
theorem runHandlerN_spec (n : Nat) (msg : String) (caught : Bool) {m m0 : M} (h : Ext m m0) :
    HSpec m m0 (runHandlerN n msg caught m0) := by
  have hpv : Ext m (pushVals n m0) := h.trans (Ext.mk' (List.replicate n Slot.val) [] rfl rfl rfl)
  simp only [runHandlerN]
  split
  · exact HSpec.of_inner _ (hpv.trans (Ext.mk' [] [] rfl rfl rfl))
  · have hpush : Ext m ({ pushFrame .function (pushVals n m0) with r := handlerRegs (pushVals n m0) } : M) :=
      h.trans (Ext.mk' (List.replicate n Slot.val) [⟨.function, m0.r⟩] rfl rfl rfl)
    refine tickOr_hspec hpush (fun m3 s3 => ?_)
    refine tickOr_hspec (hpush.trans s3.same.toExt) (fun m4 s4 => ?_)
    have s5 : SameG m4 ({ m4 with out := Ev.handler caught msg :: m4.out } : M) := ⟨⟨rfl, rfl, rfl⟩, rfl, rfl⟩
    refine tickOr_hspec ((hpush.trans s3.same.toExt).trans (s4.same.toExt.trans s5.same.toExt)) (fun m6 s6 => ?_)
    have sAll := (s3.trans s4).trans (s5.trans s6)
    have hvs : m6.vs = List.replicate n Slot.val ++ m0.vs := sAll.same.vs
    have hcs : m6.cs = ⟨.function, m0.r⟩ :: m0.cs := sAll.same.cs
    obtain ⟨m7, hp7, hv7, hc7, hx7⟩ := popN_exact (n := n) hvs (by simp)
    have g7 := popN_guards _ _ _ hp7
    obtain ⟨m8, hp8, hc8, hv8, hx8⟩ := popFrame_cons (m := m7) (hc7.trans hcs)
    have g8 := popFrame_guards hp8
    simp only [hp7, hp8]
    exact ⟨⟨hv8.trans hv7, hc8, (hx8.trans hx7).trans sAll.same.ctxs⟩,
      (g8.1.trans g7.1).trans sAll.ld, (g8.2.trans g7.2).trans sAll.rd⟩

theorem runHandler_spec (msg : String) (caught : Bool) {m m0 : M} (h : Ext m m0) :
    HSpec m m0 (runHandler msg caught m0) := runHandlerN_spec _ msg caught h

/-- **error_handler, first level** (goal: `guards_reset` for every delivered error): `raise` never returns; the
    error is delivered in a state extending `m` with `num_objects_this_thread = 0` and `restrict_destruct = NULL`,
    whether or not the mudlib error handler ran, completed, or itself faulted -/
theorem raise_rspec (msg : String) {m m0 : M} (h : Ext m m0) : RSpec m (raise msg m0) := by
  have hext : ∀ (x : M), x.vs = m0.vs → x.cs = m0.cs → x.ctxs = m0.ctxs → Ext m x := fun x a b c =>
    h.trans ⟨⟨[], by simp [a]⟩, ⟨[], by simp [b]⟩, c⟩
  have viaHandler : ∀ (caught : Bool) (x : M) (fin : M → M), x.vs = m0.vs → x.cs = m0.cs → x.ctxs = m0.ctxs →
      x.loadDepth = 0 → x.restrictDestruct = 0 →
      (∀ y, (fin y).vs = y.vs ∧ (fin y).cs = y.cs ∧ (fin y).ctxs = y.ctxs ∧ (fin y).loadDepth = y.loadDepth ∧
        (fin y).restrictDestruct = y.restrictDestruct) →
      RSpec m (match runHandler msg caught x with
        | .ok m' => longjmp (fin m')
        | r => r) := by
    intro caught x fin a b c d e hfin
    have hs := runHandler_spec msg caught (hext x a b c)
    cases hr : runHandler msg caught x with
    | ok m' =>
      rw [hr] at hs
      obtain ⟨f1, f2, f3, f4, f5⟩ := hfin m'
      exact longjmp_rspec (hext _ (f1.trans (hs.same.vs.trans a)) (f2.trans (hs.same.cs.trans b))
        (f3.trans (hs.same.ctxs.trans c))) (f4.trans (hs.ld.trans d)) (f5.trans (hs.rd.trans e))
    | err m' => rw [hr] at hs; exact hs
    | crash w m' => rw [hr] at hs; exact hs
  simp only [raise]
  split
  · split
    · exact longjmp_rspec (hext _ rfl rfl rfl) rfl rfl
    · exact viaHandler true _ (fun y => { y with inMudlibHandler := false, catchValue := .msg msg }) rfl rfl rfl rfl rfl
        (fun y => ⟨rfl, rfl, rfl, rfl, rfl⟩)
  · split
    · exact longjmp_rspec (hext _ rfl rfl rfl) rfl rfl
    · split
      · obtain ⟨a, b, c, d, e⟩ := hbOffStep_same { resetGuards m0 with inError := false, inMudlibHandler := false }
        exact longjmp_rspec (hext _ a b c) (by rw [d]; rfl) (by rw [e]; rfl)
      · exact viaHandler false _ (fun y => hbOffStep { y with inError := false, inMudlibHandler := false }) rfl rfl rfl rfl rfl
          (fun y => hbOffStep_same _)

theorem raise_good (msg : String) {m m0 : M} (h : Ext m m0) : Good m (raise msg m0) := (raise_rspec msg h).good

theorem throwVal_good (v : String) {m m0 : M} (h : Ext m m0) : Good m (throwVal v m0) := by
  unfold throwVal
  split
  · exact longjmp_good ⟨h.vs, h.cs, h.ctxs⟩
  · exact raise_good _ h

/-! ### finishers -/

theorem thenTick_good {m : M} {r : Res} (h : Good m r) : Good m (thenTick r) := by
  cases r with
  | ok m1 =>
    simp only [thenTick]
    split
    · exact raise_good _ ((Same.toExt h).trans (tick_same m1).toExt)
    · exact Same.trans h (tick_same m1)
  | err m1 => exact h
  | crash w m1 => exact h

theorem tmpFinish_good {n : Nat} {m m2 : M} {r : Res} (hv : m2.vs = List.replicate n Slot.val ++ m.vs)
    (hc : m2.cs = m.cs) (hx : m2.ctxs = m.ctxs) (hr : Good m2 r) : Good m (tmpFinish n r) := by
  cases r with
  | ok m1 =>
    obtain ⟨m3, hp, hv3, hc3, hx3⟩ := popN_exact (n := n) (m := m1) (hr.vs.trans hv) (by simp)
    simp only [tmpFinish, hp]
    exact ⟨hv3, hc3.trans (hr.cs.trans hc), hx3.trans (hr.ctxs.trans hx)⟩
  | err m1 => exact (Ext.mk' _ [] hv (by simp [hc]) hx).trans hr
  | crash w m1 => exact hx.symm.trans hr

theorem handlerFinish_good {id : Nat} {m m2 : M} {r : Res} (hv : m2.vs = Slot.handler id :: m.vs)
    (hc : m2.cs = m.cs) (hx : m2.ctxs = m.ctxs) (hr : Good m2 r) : Good m (handlerFinish r) := by
  cases r with
  | ok m1 =>
    have h1 : m1.vs = Slot.handler id :: m.vs := hr.vs.trans hv
    simp only [handlerFinish, dropTop, h1]
    exact ⟨rfl, hr.cs.trans hc, hr.ctxs.trans hx⟩
  | err m1 => exact (Ext.mk' [Slot.handler id] [] hv (by simp [hc]) hx).trans hr
  | crash w m1 => exact hx.symm.trans hr

theorem withCgFinish_good {cg : Val} {m m2 : M} {r : Res} (hs : Same m m2) (hr : Good m2 r) :
    Good m (withCgFinish cg r) := by
  cases r with
  | ok m1 => exact hs.trans ⟨hr.vs, hr.cs, hr.ctxs⟩
  | err m1 => exact hs.toExt.trans hr
  | crash w m1 => exact hs.ctxs.symm.trans hr

theorem loadFinish_good {cg : Val} {m m2 : M} {r : Res} (hs : Same m m2) (hr : Good m2 r) : Good m (loadFinish cg r) := by
  cases r with
  | ok m1 => exact hs.trans ⟨hr.vs, hr.cs, hr.ctxs⟩
  | err m1 => exact hs.toExt.trans hr
  | crash w m1 => exact hs.ctxs.symm.trans hr

theorem dhookFinish_good {v : Val} {m m2 : M} {r : Res} (hs : Same m m2) (hr : Good m2 r) :
    Good m (dhookFinish v r) := by
  cases r with
  | ok m1 => exact hs.trans ⟨hr.vs, hr.cs, hr.ctxs⟩
  | err m1 => exact hs.toExt.trans hr
  | crash w m1 => exact hs.ctxs.symm.trans hr

theorem vitalFinish_good {b : Bool} {tmp : Val} {m m2 : M} {r : Res} (hv : m2.vs = Slot.handler fixNamesId :: m.vs)
    (hc : m2.cs = m.cs) (hx : m2.ctxs = m.ctxs) (hr : Good m2 r) : Good m (vitalFinish b tmp r) := by
  cases r with
  | ok m1 =>
    have h1 : m1.vs = Slot.handler fixNamesId :: m.vs := hr.vs.trans hv
    simp only [vitalFinish, dropTop, h1]
    cases b <;> exact ⟨rfl, hr.cs.trans hc, hr.ctxs.trans hx⟩
  | err m1 => exact (Ext.mk' [Slot.handler fixNamesId] [] hv (by simp [hc]) hx).trans hr
  | crash w m1 => exact hx.symm.trans hr

theorem verbFinish_good {m m2 : M} {r : Res} (hs : Same m m2) (hr : Good m2 r) : Good m (verbFinish r) := by
  cases r with
  | ok m1 => exact hs.trans ⟨hr.vs, hr.cs, hr.ctxs⟩
  | err m1 => exact hs.toExt.trans hr
  | crash w m1 => exact hs.ctxs.symm.trans hr

theorem hbFinish_good {m : M} {r : Res} (hr : Good m r) : Good m (hbFinish r) := by
  cases r with
  | ok m1 => exact ⟨hr.vs, hr.cs, hr.ctxs⟩
  | err m1 => exact hr
  | crash w m1 => exact hr

theorem enterCall_spec (k : CallKind) (d : Nat) (m : M) :
    (enterCall k d m).vs = m.vs ∧ (enterCall k d m).ctxs = m.ctxs ∧
    ∃ fs, fs.length = framesOf k ∧ (enterCall k d m).cs = fs ++ m.cs := by
  cases k
  all_goals first | exact ⟨rfl, rfl, [_], rfl, rfl⟩ | exact ⟨rfl, rfl, [_, _], rfl, rfl⟩

theorem adjustArgs_spec {nargs declared : Nat} {m1 : M} {rest : List Slot}
    (hv : m1.vs = List.replicate nargs Slot.val ++ rest) :
    ∃ m2, adjustArgs nargs declared m1 = some m2 ∧ m2.vs = List.replicate declared Slot.val ++ rest ∧
      m2.cs = m1.cs ∧ m2.ctxs = m1.ctxs := by
  unfold adjustArgs
  split
  · rename_i hgt
    have hsplit : m1.vs = List.replicate (nargs - declared) Slot.val ++ (List.replicate declared Slot.val ++ rest) := by
      rw [hv, ← List.append_assoc, List.replicate_append_replicate]
      congr 2; omega
    obtain ⟨m2, hp, h2, h3, h4⟩ := popN_exact (n := nargs - declared) hsplit (by simp)
    exact ⟨m2, hp, h2, h3, h4⟩
  · rename_i hle
    refine ⟨_, rfl, ?_, rfl, rfl⟩
    show List.replicate (declared - nargs) Slot.val ++ m1.vs = _
    rw [hv, ← List.append_assoc, List.replicate_append_replicate]
    congr 2; omega

theorem leaveCall_spec {k : CallKind} {declared : Nat} {m4 m : M} {fs : List Frame}
    (hv : m4.vs = List.replicate declared Slot.val ++ m.vs) (hl : fs.length = framesOf k) (hc : m4.cs = fs ++ m.cs)
    (hx : m4.ctxs = m.ctxs) :
    ∃ m5, leaveCall k declared m4 = .ok m5 ∧ m5.vs = Slot.val :: m.vs ∧ m5.cs = m.cs ∧ m5.ctxs = m.ctxs := by
  obtain ⟨m1, hp, h1v, h1c, h1x⟩ := popN_exact (n := declared) hv (by simp)
  have two_or_one : (framesOf k = 1) ∨ (framesOf k = 2) := by cases k <;> simp [framesOf]
  rcases two_or_one with h1 | h2
  · rw [h1] at hl
    match fs, hl with
    | [f], _ =>
      obtain ⟨m3, hp3, h3c, h3v, h3x⟩ := popFrame_cons (m := pushVals 1 m1) (f := f) (rest := m.cs)
        (by show m1.cs = _; rw [h1c, hc]; rfl)
      have hne : (framesOf k == 2) = false := by rw [h1]; rfl
      simp only [leaveCall, hp, hp3, hne]
      exact ⟨m3, by simp, by rw [h3v]; show List.replicate 1 Slot.val ++ m1.vs = _; rw [h1v]; rfl, h3c, h3x.trans (h1x.trans hx)⟩
  · rw [h2] at hl
    match fs, hl with
    | [f, g], _ =>
      obtain ⟨m3, hp3, h3c, h3v, h3x⟩ := popFrame_cons (m := pushVals 1 m1) (f := f) (rest := g :: m.cs)
        (by show m1.cs = _; rw [h1c, hc]; rfl)
      obtain ⟨m4', hp4, h4c, h4v, h4x⟩ := popFrame_cons (m := m3) (f := g) (rest := m.cs) h3c
      have heq : (framesOf k == 2) = true := by rw [h2]; rfl
      simp only [leaveCall, hp, hp3, heq, hp4]
      exact ⟨m4', by simp, by rw [h4v, h3v]; show List.replicate 1 Slot.val ++ m1.vs = _; rw [h1v]; rfl, h4c,
        h4x.trans (h3x.trans (h1x.trans hx))⟩

theorem callFinish_good {k : CallKind} {declared : Nat} {m m2 : M} {r : Res} {fs : List Frame}
    (hv : m2.vs = List.replicate declared Slot.val ++ m.vs) (hl : fs.length = framesOf k) (hc : m2.cs = fs ++ m.cs)
    (hx : m2.ctxs = m.ctxs) (hr : Good m2 r) : Good m (callFinish k declared r) := by
  cases r with
  | ok m4 =>
    obtain ⟨m5, hl5, h5v, h5c, h5x⟩ := leaveCall_spec (k := k) (hr.vs.trans hv) hl (hr.cs.trans hc) (hr.ctxs.trans hx)
    obtain ⟨m6, hp6, h6v, h6c, h6x⟩ := popN_exact (n := 1) (m := m5) (dv0 := [Slot.val]) h5v rfl
    simp only [callFinish, hl5, hp6]
    exact ⟨h6v, h6c.trans h5c, h6x.trans h5x⟩
  | err m1 => exact (Ext.mk' _ fs hv hc hx).trans hr
  | crash w m1 => exact hx.symm.trans hr

theorem saveContext_spec {m m1 : M} {econ : Ctx} (h : saveContext m = some (econ, m1)) :
    econ = ctxOf m ∧
    m1.vs = m.vs ∧ m1.cs = m.cs ∧ m1.ctxs = econ :: m.ctxs ∧ m1.cg = m.cg := by
  simp only [saveContext] at h
  split at h
  · cases h
  · cases h; exact ⟨rfl, rfl, rfl, rfl, rfl⟩

theorem afterCatch_cons {link : List Ctx} {mm : M} {s : Slot} {t : List Slot} (h : mm.vs = s :: t) :
    afterCatch link mm = .ok { popContext link mm with vs := t } := by
  simp only [afterCatch, h]

/-- do_catch after its body -/
theorem catchFinish_good {m m2 : M} {r : Res} {f : Frame} (hv : m2.vs = m.vs) (hc : m2.cs = f :: m.cs)
    (hx : m2.ctxs = ctxOf m :: m.ctxs) (hr : Good m2 r) :
    Good m (catchFinish (ctxOf m) m.ctxs r) := by
  cases r with
  | ok m4 =>
    obtain ⟨m5, hp5, h5c, h5v, h5x⟩ := popFrame_cons (m := { m4 with catchValue := CV.num 0 }) (f := f) (rest := m.cs)
      (hr.cs.trans hc)
    have hvs : ({ pushVals 1 m5 with lastCatch := CV.num 0 } : M).vs = Slot.val :: m.vs := by
      show List.replicate 1 Slot.val ++ m5.vs = _
      rw [h5v]; show _ ++ m4.vs = _; rw [hr.vs, hv]; rfl
    simp only [catchFinish, hp5, afterCatch_cons hvs]
    exact ⟨rfl, h5c, rfl⟩
  | err m5 =>
    obtain ⟨dv, hdv⟩ := hr.vs
    obtain ⟨dc, hdc⟩ := hr.cs
    obtain ⟨m6, h1, h2, h3, _, _⟩ := restoreContext_ext m5 dv m.vs (dc ++ [f]) m.cs m.cg (by rw [hdv, hv])
      (by rw [hdc, hc]; simp) m.loadDepth m.restrictDestruct m.lastVerb
    have h1 : restoreContext (ctxOf m) m5 = .ok m6 := h1
    simp only [catchFinish, h1]
    have hE : ∀ (x : M), x.vs = List.replicate 1 Slot.val ++ m6.vs → x.cs = m6.cs → x.ctxs = m.ctxs → Ext m x :=
      fun x a b c => Ext.mk' [Slot.val] [] (by rw [a, h2]; rfl) (by rw [b, h3]; rfl) c
    split
    · split
      · exact raise_good _ (hE _ rfl rfl rfl)
      · exact raise_good _ (hE _ rfl rfl rfl)
    · have hvs : ({ pushVals 1 m6 with lastCatch := m6.catchValue, catchValue := CV.num 1 } : M).vs = Slot.val :: m.vs := by
        show List.replicate 1 Slot.val ++ m6.vs = _; rw [h2]; rfl
      simp only [afterCatch_cons hvs]
      exact ⟨rfl, h3, rfl⟩
  | crash w m1 =>
    have : m2.ctxs = [] := hr
    rw [hx] at this; cases this

/-- safe_apply after the applied function -/
theorem safeFinish_good {declared : Nat} {m m3 : M} {r : Res} {f : Frame} {e0 : Ctx}
    (hv : m3.vs = List.replicate declared Slot.val ++ m.vs) (hc : m3.cs = f :: m.cs)
    (hx : m3.ctxs = e0 :: m.ctxs) (hr : Good m3 r) :
    Good m (safeFinish (ctxOf m) m.ctxs declared r) := by
  cases r with
  | ok m5 =>
    obtain ⟨m6, hl6, h6v, h6c, h6x⟩ := leaveCall_spec (k := .other masterVal) (fs := [f]) (m := { m with ctxs := e0 :: m.ctxs })
      (hr.vs.trans hv) rfl (hr.cs.trans hc) (hr.ctxs.trans hx)
    obtain ⟨m7, hp7, h7v, h7c, h7x⟩ := popN_exact (n := 1) (m := m6) (dv0 := [Slot.val]) h6v rfl
    simp only [safeFinish, hl6, hp7]
    exact ⟨h7v, h7c.trans h6c, rfl⟩
  | err m6 =>
    obtain ⟨dv, hdv⟩ := hr.vs
    obtain ⟨dc, hdc⟩ := hr.cs
    obtain ⟨m7, h1, h2, h3, _, _⟩ := restoreContext_ext m6 (dv ++ List.replicate declared Slot.val) m.vs (dc ++ [f]) m.cs m.cg
      (by rw [hdv, hv]; simp) (by rw [hdc, hc]; simp) m.loadDepth m.restrictDestruct m.lastVerb
    have h1 : restoreContext (ctxOf m) m6 = .ok m7 := h1
    simp only [safeFinish, h1]
    exact ⟨h2, h3, rfl⟩
  | crash w m1 =>
    have : m3.ctxs = [] := hr
    rw [hx] at this; cases this

/-- stronger form: safe_apply always COMPLETES (it absorbs every error of the applied function) with both stacks and
    the chain of its start state — for every number of passed and declared arguments -/
theorem safeFinish_total {declared : Nat} {m m3 : M} {r : Res} {f : Frame} {e0 : Ctx}
    (hv : m3.vs = List.replicate declared Slot.val ++ m.vs) (hc : m3.cs = f :: m.cs)
    (hx : m3.ctxs = e0 :: m.ctxs) (hr : Good m3 r) :
    ∃ m', safeFinish (ctxOf m) m.ctxs declared r = .ok m' ∧ Same m m' := by
  cases r with
  | ok m5 =>
    obtain ⟨m6, hl6, h6v, h6c, h6x⟩ := leaveCall_spec (k := .other masterVal) (fs := [f]) (m := { m with ctxs := e0 :: m.ctxs })
      (hr.vs.trans hv) rfl (hr.cs.trans hc) (hr.ctxs.trans hx)
    obtain ⟨m7, hp7, h7v, h7c, h7x⟩ := popN_exact (n := 1) (m := m6) (dv0 := [Slot.val]) h6v rfl
    exact ⟨popContext m.ctxs m7, by simp only [safeFinish, hl6, hp7], ⟨h7v, h7c.trans h6c, rfl⟩⟩
  | err m6 =>
    obtain ⟨dv, hdv⟩ := hr.vs
    obtain ⟨dc, hdc⟩ := hr.cs
    obtain ⟨m7, h1, h2, h3, _, _⟩ := restoreContext_ext m6 (dv ++ List.replicate declared Slot.val) m.vs (dc ++ [f]) m.cs m.cg
      (by rw [hdv, hv]; simp) (by rw [hdc, hc]; simp) m.loadDepth m.restrictDestruct m.lastVerb
    have h1 : restoreContext (ctxOf m) m6 = .ok m7 := h1
    exact ⟨popContext m.ctxs m7, by simp only [safeFinish, h1], ⟨h2, h3, rfl⟩⟩
  | crash w m1 =>
    have : m3.ctxs = [] := hr
    rw [hx] at this; cases this

theorem safeFpFinish_total {declared : Nat} {m m3 : M} {r : Res} {owner : Val} {f g : Frame} {e0 : Ctx}
    (hv : m3.vs = List.replicate declared Slot.val ++ m.vs) (hc : m3.cs = f :: g :: m.cs)
    (hx : m3.ctxs = e0 :: m.ctxs) (hr : Good m3 r) :
    ∃ m', safeFpFinish owner (ctxOf m) m.ctxs declared r = .ok m' ∧ Same m m' := by
  cases r with
  | ok m5 =>
    obtain ⟨m6, hl6, h6v, h6c, h6x⟩ := leaveCall_spec (k := .fpLocal owner) (fs := [f, g]) (m := { m with ctxs := e0 :: m.ctxs })
      (hr.vs.trans hv) rfl (hr.cs.trans hc) (hr.ctxs.trans hx)
    obtain ⟨m7, hp7, h7v, h7c, h7x⟩ := popN_exact (n := 1) (m := m6) (dv0 := [Slot.val]) h6v rfl
    exact ⟨popContext m.ctxs m7, by simp only [safeFpFinish, hl6, hp7], ⟨h7v, h7c.trans h6c, rfl⟩⟩
  | err m6 =>
    obtain ⟨dv, hdv⟩ := hr.vs
    obtain ⟨dc, hdc⟩ := hr.cs
    obtain ⟨m7, h1, h2, h3, _, _⟩ := restoreContext_ext m6 (dv ++ List.replicate declared Slot.val) m.vs (dc ++ [f, g]) m.cs m.cg
      (by rw [hdv, hv]; simp) (by rw [hdc, hc]; simp) m.loadDepth m.restrictDestruct m.lastVerb
    have h1 : restoreContext (ctxOf m) m6 = .ok m7 := h1
    exact ⟨popContext m.ctxs m7, by simp only [safeFpFinish, h1], ⟨h2, h3, rfl⟩⟩
  | crash w m1 =>
    have : m3.ctxs = [] := hr
    rw [hx] at this; cases this


theorem safeFpFinish_err {owner : Val} {declared : Nat} {m m6 : M} {dv : List Slot} {dc : List Frame}
    (hv : m6.vs = dv ++ m.vs) (hc : m6.cs = dc ++ m.cs) :
    ∃ m', safeFpFinish owner (ctxOf m) m.ctxs declared (.err m6) = .ok m' ∧ Same m m' := by
  obtain ⟨m7, h1, h2, h3, _, _⟩ := restoreContext_ext m6 dv m.vs dc m.cs m.cg hv hc m.loadDepth m.restrictDestruct m.lastVerb
  have h1 : restoreContext (ctxOf m) m6 = .ok m7 := h1
  exact ⟨popContext m.ctxs m7, by simp only [safeFpFinish, h1], ⟨h2, h3, rfl⟩⟩

theorem depthCheck_spec {k : CallKind} {m1 mFull : M} (h : depthCheck k m1 = some mFull) : Ext m1 mFull := by
  unfold depthCheck at h
  split at h
  · cases h; exact (Same.rfl' m1).toExt
  · split at h
    · cases h; exact Ext.mk' [] [⟨.fake, m1.r⟩] rfl rfl rfl
    · cases h

/-! ### the induction -/

theorem execOp_good_of {o : Op} (h : ∀ m, Good m (execCore o m)) (m : M) : Good m (execOp o m) := by
  unfold execOp
  split
  · exact h _
  · exact h _
  · split
    · exact raise_good _ (tick_same m).toExt
    · exact Good.of_same (tick_same m) (h _)

mutual
theorem exec_good : ∀ (p : Prog) (m : M), Good m (exec p m)
  | .nil, m => by simp only [exec]; exact Same.rfl' m
  | .cons o p, m => by
    have h1 := execOp_good_of (execCore_good o) m
    simp only [exec]
    cases hr : execOp o m with
    | ok m1 => rw [hr] at h1; exact Good.of_same h1 (exec_good p m1)
    | err m1 => rw [hr] at h1; exact h1
    | crash w m1 => rw [hr] at h1; exact h1

theorem execCore_good : ∀ (o : Op) (m : M), Good m (execCore o m)
  | .say s, m => by simp only [execCore]; exact ⟨rfl, rfl, rfl⟩
  | .tmp n body, m => by
    simp only [execCore]
    exact tmpFinish_good (m2 := pushVals n m) rfl rfl rfl (exec_good body (pushVals n m))
  | .handler id body, m => by
    simp only [execCore]
    exact handlerFinish_good (id := id + 1) (m2 := { m with vs := Slot.handler (id + 1) :: m.vs, efunCtx := (id + 1) :: m.efunCtx }) rfl rfl rfl (exec_good body _)
  | .setReg r v, m => by
    simp only [execCore]
    cases r <;> exact ⟨rfl, rfl, rfl⟩
  | .withCg v body, m => by
    simp only [execCore]
    exact withCgFinish_good (m2 := { m with cg := v }) ⟨rfl, rfl, rfl⟩ (exec_good body _)
  | .install site fails, m => by
    simp only [execCore]
    split
    · split
      · exact raise_good _ ⟨⟨[], rfl⟩, ⟨[], rfl⟩, rfl⟩
      · exact raise_good _ (Same.rfl' m).toExt
    · exact ⟨rfl, rfl, rfl⟩
  | .call k nargs declared body, m => by
    simp only [execCore]
    split
    · rename_i mFull hd
      have e1 : Ext m (pushVals nargs m) := Ext.mk' (List.replicate nargs Slot.val) [] rfl rfl rfl
      exact raise_good _ ((e1.trans (depthCheck_spec hd)).trans ⟨⟨[], rfl⟩, ⟨[], rfl⟩, rfl⟩)
    · obtain ⟨ev, ex, fs, efl, ec⟩ := enterCall_spec k declared (pushVals nargs m)
      obtain ⟨m2, ha, h2v, h2c, h2x⟩ := adjustArgs_spec (nargs := nargs) (declared := declared)
        (m1 := enterCall k declared (pushVals nargs m)) (rest := m.vs) ev
      simp only [ha]
      have hb := exec_good body m2
      have hc' : m2.cs = fs ++ m.cs := h2c.trans ec
      have hx' : m2.ctxs = m.ctxs := h2x.trans ex
      split
      · exact callFinish_good h2v efl hc' hx' (thenTick_good hb)
      · exact callFinish_good h2v efl hc' hx' hb
  | .cb k nargs declared body, m => by
    simp only [execCore]
    split
    · rename_i mFull hd
      have e1 : Ext m (pushVals nargs m) := Ext.mk' (List.replicate nargs Slot.val) [] rfl rfl rfl
      exact raise_good _ ((e1.trans (depthCheck_spec hd)).trans ⟨⟨[], rfl⟩, ⟨[], rfl⟩, rfl⟩)
    · obtain ⟨ev, ex, fs, efl, ec⟩ := enterCall_spec k declared (pushVals nargs m)
      obtain ⟨m2, ha, h2v, h2c, h2x⟩ := adjustArgs_spec (nargs := nargs) (declared := declared)
        (m1 := enterCall k declared (pushVals nargs m)) (rest := m.vs) ev
      simp only [ha]
      have hb := exec_good body m2
      have hc' : m2.cs = fs ++ m.cs := h2c.trans ec
      have hx' : m2.ctxs = m.ctxs := h2x.trans ex
      split
      · exact callFinish_good h2v efl hc' hx' (thenTick_good hb)
      · exact callFinish_good h2v efl hc' hx' hb
  | .catch_ body, m => by
    simp only [execCore]
    split
    · exact raise_good _ (Same.rfl' m).toExt
    · rename_i econ m1 hs
      obtain ⟨he, h1v, h1c, h1x, _⟩ := saveContext_spec hs
      subst he
      exact catchFinish_good (f := ⟨.catch_, m1.r⟩) (m2 := { pushFrame .catch_ m1 with catchValue := .num 1 })
        h1v (by rw [← h1c]; rfl) h1x (thenTick_good (exec_good body _))
  | .sayCatch, m => by simp only [execCore]; exact ⟨rfl, rfl, rfl⟩
  | .safeApply nargs declared body, m => by
    simp only [execCore]
    split
    · obtain ⟨m2, hp, h2v, h2c, h2x⟩ := popN_exact (n := nargs) (m := pushVals nargs m) (rest := m.vs) rfl (by simp)
      simp only [hp]
      exact ⟨h2v, h2c, h2x⟩
    · rename_i econ0 m2 hs
      obtain ⟨he, h1v, h1c, h1x, h1g⟩ := saveContext_spec hs
      obtain ⟨ev, ex, fs, efl, ec⟩ := enterCall_spec (.other masterVal) declared m2
      obtain ⟨m3, ha, h3v, h3c, h3x⟩ := adjustArgs_spec (nargs := nargs) (declared := declared)
        (m1 := enterCall (.other masterVal) declared m2) (rest := m.vs) (ev.trans h1v)
      simp only [ha]
      have hctx : safeCtx nargs econ0 = ctxOf m := by
        rw [he]; simp [safeCtx, pushVals, ctxOf]
      rw [hctx]
      match fs, efl with
      | [f], _ =>
        exact safeFinish_good (f := f) (e0 := econ0) h3v (by rw [h3c, ec, h1c]; rfl) (by rw [h3x, ex, h1x]; rfl)
          (thenTick_good (exec_good body m3))
  | .safeFp owner nargs declared body, m => by
    simp only [execCore]
    split
    · obtain ⟨m2, hp, h2v, h2c, h2x⟩ := popN_exact (n := nargs) (m := pushVals nargs m) (rest := m.vs) rfl (by simp)
      simp only [hp]
      exact ⟨h2v, h2c, h2x⟩
    · rename_i econ0 m2 hs
      obtain ⟨he, h1v, h1c, h1x, h1g⟩ := saveContext_spec hs
      have hctx : safeCtx nargs econ0 = ctxOf m := by
        rw [he]; simp [safeCtx, pushVals, ctxOf]
      rw [hctx]
      split
      · rename_i mFull hd
        have hE := depthCheck_spec hd
        have hr := raise_rspec "***Too deep recursion." (m := m2)
          (m0 := { mFull with errState := mFull.errState ||| Gen.C05.esStackFull }) ⟨hE.vs, hE.cs, hE.ctxs⟩
        cases hq : raise "***Too deep recursion." { mFull with errState := mFull.errState ||| Gen.C05.esStackFull } with
        | ok x => rw [hq] at hr; exact hr.elim
        | err m6 =>
          rw [hq] at hr
          obtain ⟨dv, hdv⟩ := hr.1.vs
          obtain ⟨dc, hdc⟩ := hr.1.cs
          obtain ⟨m', h1, hs'⟩ := safeFpFinish_err (owner := owner) (declared := declared) (m := m) (m6 := m6)
            (dv := dv ++ List.replicate nargs Slot.val) (dc := dc) (by rw [hdv, h1v]; simp [pushVals]) (by rw [hdc, h1c]; rfl)
          rw [h1]; exact hs'
        | crash w x =>
          rw [hq] at hr
          have : m2.ctxs = [] := hr
          rw [h1x] at this; cases this
      · obtain ⟨ev, ex, fs, efl, ec⟩ := enterCall_spec (.fpLocal owner) declared m2
        obtain ⟨m3, ha, h3v, h3c, h3x⟩ := adjustArgs_spec (nargs := nargs) (declared := declared)
          (m1 := enterCall (.fpLocal owner) declared m2) (rest := m.vs) (ev.trans h1v)
        simp only [ha]
        match fs, efl with
        | [f, g], _ =>
          obtain ⟨m', h1, hs'⟩ := safeFpFinish_total (owner := owner) (f := f) (g := g) (e0 := econ0) h3v
            (by rw [h3c, ec, h1c]; rfl) (by rw [h3x, ex, h1x]; rfl) (thenTick_good (exec_good body m3))
          rw [h1]; exact hs'
  | .raise msg, m => by simp only [execCore]; exact raise_good _ (Same.rfl' m).toExt
  | .craise msg, m => by simp only [execCore]; exact raise_good _ (Same.rfl' m).toExt
  | .throw_ v, m => by simp only [execCore]; exact throwVal_good _ (Same.rfl' m).toExt
  | .raiseLimit, m => by simp only [execCore]; exact raise_good _ ⟨⟨[], rfl⟩, ⟨[], rfl⟩, rfl⟩
  | .load body, m => by
    simp only [execCore]
    exact loadFinish_good (m2 := { m with loadDepth := m.loadDepth + 1 }) ⟨rfl, rfl, rfl⟩ (exec_good body _)
  | .dhook v body, m => by
    simp only [execCore]
    exact dhookFinish_good (m2 := { m with restrictDestruct := v }) ⟨rfl, rfl, rfl⟩ (exec_good body _)
  | .vital isMaster body, m => by
    simp only [execCore]
    cases isMaster
    · simp only [Bool.false_eq_true, ↓reduceIte]
      split
      · exact raise_good _ (Same.rfl' m).toExt
      · exact vitalFinish_good (m2 := { m with vs := Slot.handler fixNamesId :: m.vs, savedMasterName := m.masterName, savedSimulName := m.simulName, simulName := 0 }) rfl rfl rfl (exec_good body _)
    · simp only [↓reduceIte]
      split
      · exact raise_good _ (Same.rfl' m).toExt
      · exact vitalFinish_good (m2 := { m with vs := Slot.handler fixNamesId :: m.vs, savedMasterName := m.masterName, savedSimulName := m.simulName, masterName := 0 }) rfl rfl rfl (exec_good body _)
  | .spread n, m => by simp only [execCore]; exact ⟨rfl, rfl, rfl⟩
  | .consume, m => by simp only [execCore]; exact ⟨rfl, rfl, rfl⟩
  | .verb v body, m => by
    simp only [execCore]
    exact verbFinish_good (m2 := { m with lastVerb := v }) ⟨rfl, rfl, rfl⟩ (exec_good body _)
  | .heartBeat ob cgv body, m => by
    simp only [execCore]
    split
    · rename_i mFull hd
      have e1 : Ext m ({ m with hbCur := ob, cg := cgv } : M) := Ext.mk' [] [] rfl rfl rfl
      exact raise_good _ ((e1.trans (depthCheck_spec hd)).trans ⟨⟨[], rfl⟩, ⟨[], rfl⟩, rfl⟩)
    · have hb := exec_good body (enterCall (.other ob) 0 { m with hbCur := ob, cg := cgv })
      have hcf : Good m (callFinish (.other ob) 0 (thenTick (exec body (enterCall (.other ob) 0 { m with hbCur := ob, cg := cgv })))) :=
        callFinish_good (k := .other ob) (declared := 0) (m := m) (m2 := enterCall (.other ob) 0 { m with hbCur := ob, cg := cgv })
          (fs := [⟨.function, m.r⟩]) rfl rfl rfl rfl (thenTick_good hb)
      exact hbFinish_good hcf
end

end NV.C05
